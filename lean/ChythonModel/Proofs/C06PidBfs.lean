import ChythonModel.Proofs.C06PidDefs
/-!
# C06 — every path reported by `_bfs` (`bfsPaths`) is a walk of the graph with at least two atoms

Invariant of the search: every entry `(t, p)` of a stack (`stack`, `next_stack`) is a walk of `g` that ends in `t`
(`BfsGood`), every terminated path is a walk with at least two atoms (`TermGood`).  No hypothesis on `g` is needed: every
atom appended to a path is taken from `nbrsOf g tail`.
-/
namespace ChythonModel.Proofs.C06
open ChythonModel.Model.C06

/-! ## dict helpers -/

theorem mem_aset_nat {β : Type} (d : List (Nat × β)) (k : Nat) (v : β) (x : Nat × β)
    (h : x ∈ aset d k v) : x = (k, v) ∨ x ∈ d := by
  induction d with
  | nil => simpa [aset] using h
  | cons hd tl ih =>
    obtain ⟨k', v'⟩ := hd
    unfold aset at h
    split at h
    · rename_i hk
      have hk' : k' = k := by simpa using hk
      rcases List.mem_cons.1 h with h | h
      · left; rw [h, hk']
      · right; exact List.mem_cons_of_mem _ h
    · rcases List.mem_cons.1 h with h | h
      · right; rw [h]; exact List.mem_cons_self
      · rcases ih h with h | h
        · left; exact h
        · right; exact List.mem_cons_of_mem _ h

theorem lookup_mem_nat {β : Type} (d : List (Nat × β)) (n : Nat) (q : β)
    (h : d.lookup n = some q) : (n, q) ∈ d := by
  induction d with
  | nil => simp at h
  | cons hd tl ih =>
    obtain ⟨k', v'⟩ := hd
    rw [List.lookup_cons] at h
    split at h
    · rename_i hk
      have hk' : n = k' := by simpa using hk
      have hv : v' = q := by simpa using h
      rw [hk', hv]; exact List.mem_cons_self
    · exact List.mem_cons_of_mem _ (ih h)

theorem mem_sortAsc {l : List Nat} {x : Nat} : x ∈ sortAsc l ↔ x ∈ l :=
  (isort_perm l _).mem_iff

/-! ## walks -/

theorem walk_append_singleton (g : Adj) (path : List Nat) (tail n : Nat)
    (hw : Walk g path) (hl : path.getLast? = some tail) (hn : n ∈ nbrsOf g tail) :
    Walk g (path ++ [n]) := by
  induction path with
  | nil => simp at hl
  | cons a tl ih =>
    cases tl with
    | nil =>
      have : a = tail := by simpa using hl
      subst this
      exact ⟨hn, trivial⟩
    | cons b tl' =>
      have hw' : b ∈ nbrsOf g a ∧ Walk g (b :: tl') := hw
      have hl' : (b :: tl').getLast? = some tail := by
        rw [List.getLast?_cons_cons] at hl; exact hl
      exact ⟨hw'.1, ih hw'.2 hl'⟩

theorem getLast?_append_singleton (path : List Nat) (n : Nat) : (path ++ [n]).getLast? = some n := by
  simp

/-! ## the invariant -/

/-- a dict entry `tail ↦ path`: a walk of `g` that ends in `tail` -/
def BfsGood (g : Adj) (tp : Nat × Path) : Prop := Walk g tp.2 ∧ tp.2.getLast? = some tp.1

def StackGood (g : Adj) (stack : List (Nat × Path)) : Prop := ∀ tp ∈ stack, BfsGood g tp

def TermGood (g : Adj) (term : List Path) : Prop := ∀ p ∈ term, Walk g p ∧ 2 ≤ p.length

def BfsInv (g : Adj) (s : BfsSt) : Prop := TermGood g s.term ∧ StackGood g s.next

theorem good_ne_nil {g : Adj} {tp : Nat × Path} (h : BfsGood g tp) : 1 ≤ tp.2.length := by
  obtain ⟨t, p⟩ := tp
  cases p with
  | nil => simp [BfsGood] at h
  | cons a tl => simp

theorem good_len {g : Adj} {tp : Nat × Path} (h : BfsGood g tp) (h1 : (tp.2.length != 1) = true) :
    2 ≤ tp.2.length := by
  have := good_ne_nil h
  have h1' : tp.2.length ≠ 1 := by simpa using h1
  omega

theorem good_single (g : Adj) (n : Nat) : BfsGood g (n, [n]) := ⟨trivial, rfl⟩

theorem termGood_append {g : Adj} {term : List Path} {ps : List Path}
    (ht : TermGood g term) (hp : ∀ p ∈ ps, Walk g p ∧ 2 ≤ p.length) : TermGood g (term ++ ps) := by
  intro p hp'
  rcases List.mem_append.1 hp' with h | h
  · exact ht p h
  · exact hp p h

theorem stackGood_aset {g : Adj} {d : List (Nat × Path)} {k : Nat} {v : Path}
    (hd : StackGood g d) (hv : BfsGood g (k, v)) : StackGood g (aset d k v) := by
  intro x hx
  rcases mem_aset_nat d k v x hx with h | h
  · rw [h]; exact hv
  · exact hd x h

theorem stackGood_adel {g : Adj} {d : List (Nat × Path)} {k : Nat}
    (hd : StackGood g d) : StackGood g (adel d k) := by
  intro x hx
  exact hd x (List.mem_filter.1 hx).1

theorem stackGood_bfsStart (g : Adj) (t : Nat) (xs : List Nat) (h : ∀ x ∈ xs, x ∈ nbrsOf g t) :
    StackGood g (bfsStart t xs) := by
  intro tp htp
  obtain ⟨x, hx, rfl⟩ := List.mem_map.1 htp
  exact ⟨⟨h x hx, trivial⟩, rfl⟩

/-! ## the steps -/

theorem inv_bfsEdge (g : Adj) (stackKeys : List Nat) (tail n : Nat) (path : Path) (s : BfsSt)
    (hs : BfsInv g s) (hw : Walk g path) (hl : path.getLast? = some n) (h2 : 2 ≤ path.length) :
    BfsInv g (bfsEdge stackKeys tail n path s) := by
  obtain ⟨ht, hn⟩ := hs
  unfold bfsEdge
  split
  · exact ⟨termGood_append ht (by intro p hp; simp at hp; subst hp; exact ⟨hw, h2⟩), hn⟩
  · split
    · rename_i q hq
      have hgq : BfsGood g (n, q) := hn _ (lookup_mem_nat _ _ _ hq)
      split
      · rename_i hne
        refine ⟨termGood_append ht ?_, stackGood_aset hn (good_single g n)⟩
        intro p hp
        simp at hp
        rcases hp with hp | hp
        · subst hp; exact ⟨hw, h2⟩
        · subst hp; exact ⟨hgq.1, good_len hgq hne⟩
      · exact ⟨termGood_append ht (by intro p hp; simp at hp; subst hp; exact ⟨hw, h2⟩), hn⟩
    · exact ⟨ht, stackGood_aset hn ⟨hw, hl⟩⟩

theorem inv_bfsSingle (g : Adj) (stackKeys : List Nat) (tail n : Nat) (path : Path) (s : BfsSt)
    (hs : BfsInv g s) (hg : BfsGood g (tail, path)) (hn : n ∈ nbrsOf g tail) :
    BfsInv g (bfsSingle stackKeys tail n path s) := by
  unfold bfsSingle
  split
  · split
    · rename_i hne
      refine ⟨termGood_append hs.1 ?_, stackGood_aset hs.2 (good_single g n)⟩
      intro p hp
      simp at hp
      subst hp
      exact ⟨hg.1, good_len hg hne⟩
    · exact ⟨hs.1, stackGood_aset hs.2 (good_single g n)⟩
  · refine inv_bfsEdge g stackKeys tail n (path ++ [n]) s hs
      (walk_append_singleton g path tail n hg.1 hg.2 hn) (getLast?_append_singleton path n) ?_
    have := good_ne_nil hg
    simp at this ⊢
    omega

theorem inv_bfsMultiStep (g : Adj) (stackKeys : List Nat) (tail : Nat) (s : BfsSt) (n : Nat)
    (hs : BfsInv g s) (hn : n ∈ nbrsOf g tail) :
    BfsInv g (bfsMultiStep stackKeys tail s n) := by
  unfold bfsMultiStep
  split
  · split
    · exact ⟨hs.1, stackGood_adel hs.2⟩
    · exact ⟨hs.1, stackGood_aset hs.2 (good_single g n)⟩
  · exact inv_bfsEdge g stackKeys tail n [tail, n] s hs ⟨hn, trivial⟩ rfl (by simp)

theorem inv_foldl_multi (g : Adj) (stackKeys : List Nat) (tail : Nat) (nb : List Nat)
    (hnb : ∀ x ∈ nb, x ∈ nbrsOf g tail) (s : BfsSt) (hs : BfsInv g s) :
    BfsInv g (nb.foldl (bfsMultiStep stackKeys tail) s) := by
  induction nb generalizing s with
  | nil => exact hs
  | cons n tl ih =>
    rw [List.foldl_cons]
    exact ih (fun x hx => hnb x (List.mem_cons_of_mem _ hx)) _
      (inv_bfsMultiStep g stackKeys tail s n hs (hnb n List.mem_cons_self))

theorem inv_bfsVisit (g : Adj) (atoms stackKeys : List Nat) (s : BfsSt) (tp : Nat × Path)
    (hs : BfsInv g s) (hg : BfsGood g tp) : BfsInv g (bfsVisit g atoms stackKeys s tp) := by
  have hmem : ∀ x ∈ sortAsc ((nbrsOf g tp.1).filter fun x => atoms.contains x), x ∈ nbrsOf g tp.1 := by
    intro x hx
    exact (List.mem_filter.1 (mem_sortAsc.1 hx)).1
  unfold bfsVisit
  generalize sortAsc ((nbrsOf g tp.1).filter fun x => atoms.contains x) = nb at hmem
  have hs' : BfsInv g { s with front := tp.1 :: s.front } := hs
  match nb, hmem with
  | [], _ => exact hs'
  | [n], hmem => exact inv_bfsSingle g stackKeys tp.1 n tp.2 _ hs' hg (hmem n List.mem_cons_self)
  | a :: b :: tl, hmem =>
    refine inv_foldl_multi g stackKeys tp.1 _ hmem _ ?_
    split
    · rename_i hne
      refine ⟨termGood_append hs.1 ?_, hs.2⟩
      intro p hp
      simp at hp
      subst hp
      exact ⟨hg.1, good_len hg hne⟩
    · exact hs'

theorem inv_foldl_visit (g : Adj) (atoms stackKeys : List Nat) (stack : List (Nat × Path))
    (hst : StackGood g stack) (s : BfsSt) (hs : BfsInv g s) :
    BfsInv g (stack.foldl (bfsVisit g atoms stackKeys) s) := by
  induction stack generalizing s with
  | nil => exact hs
  | cons tp tl ih =>
    rw [List.foldl_cons]
    exact ih (fun x hx => hst x (List.mem_cons_of_mem _ hx)) _
      (inv_bfsVisit g atoms stackKeys s tp hs (hst tp List.mem_cons_self))

theorem inv_bfsRound (g : Adj) (atoms : List Nat) (stack : List (Nat × Path)) (term : List Path)
    (hst : StackGood g stack) (ht : TermGood g term) : BfsInv g (bfsRound g atoms stack term) := by
  unfold bfsRound
  exact inv_foldl_visit g atoms _ stack hst _ ⟨ht, by intro x hx; simp at hx⟩

theorem bfsLoop_walks (g : Adj) (fuel : Nat) (atoms : List Nat) (stack : List (Nat × Path))
    (term : List Path) (ps : List Path) (hst : StackGood g stack) (ht : TermGood g term)
    (h : bfsLoop g fuel atoms stack term = some ps) : TermGood g ps := by
  induction fuel generalizing atoms stack term with
  | zero => simp [bfsLoop] at h
  | succ fuel ih =>
    have hr := inv_bfsRound g atoms stack term hst ht
    unfold bfsLoop at h
    simp only at h
    split at h
    · have : (bfsRound g atoms stack term).term = ps := by simpa using h
      rw [← this]; exact hr.1
    · rename_i t rest _
      split at h
      · refine ih _ _ _ (stackGood_bfsStart g t _ ?_) hr.1 h
        intro x hx
        exact (List.mem_filter.1 (mem_sortAsc.1 hx)).1
      · exact ih _ _ _ hr.2 hr.1 h

/-- every path `_bfs` reports is a walk of the graph with at least two atoms -/
theorem bfsPaths_walks (g : Adj) (ps : List Path) (h : bfsPaths g = some ps) :
    ∀ p ∈ ps, Walk g p ∧ 2 ≤ p.length := by
  unfold bfsPaths at h
  split at h
  · simp at h
  · rename_i t rest _
    refine bfsLoop_walks g _ _ _ _ ps (stackGood_bfsStart g t _ ?_) ?_ h
    · intro x hx; exact mem_sortAsc.1 hx
    · intro p hp; simp at hp

end ChythonModel.Proofs.C06
