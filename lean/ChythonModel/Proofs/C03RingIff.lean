import ChythonModel.Proofs.C03RingUnprint
import ChythonModel.Proofs.C03RingComplete
import ChythonModel.Proofs.C03BuildBonds
import ChythonModel.Proofs.C03Mapping
import ChythonModel.Proofs.C03TokParen
/-!
# C03 — acceptance ⇔ grammar + ring-closure discipline (assembly of the inversion, the two simulations and the
characterisation of the bond loop of `create_molecule`)
-/
set_option linter.unusedSimpArgs false
namespace ChythonModel.Proofs.C03
open ChythonModel.Model.C03 ChythonModel.Spec.Smiles

/-- the bond loop of `create_molecule` accepts the bonds `parser` returned, under the numbering `_mapping.py` assigns -/
def bondsBuild (st : PState) : Prop :=
  ∃ r' adj, mapMolecule (MolRec.ofState st) = .ok r' ∧
    buildBonds r'.mapping r'.bonds (r'.mapping.map fun n => (n, [])) = .ok adj

theorem ringTok_noOther {t : Tok} (h : ringTok t = true) : noOther t = true := by
  cases t <;> first | rfl | (simp [ringTok, coreTok] at h)

theorem mapMolecule_ofState (st : PState) (hne : st.atoms ≠ []) :
    ∃ r', mapMolecule (MolRec.ofState st) = .ok r' ∧ r'.bonds = st.bonds ∧ r'.mapping.Nodup ∧
      r'.mapping.length = st.atoms.length := by
  have he : (MolRec.ofState st).atoms.isEmpty = false := by
    cases hk : st.atoms with
    | nil => exact absurd hk hne
    | cons _ _ => simp [MolRec.ofState, hk]
  have hok : ∃ r', mapMolecule (MolRec.ofState st) = .ok r' ∧ r'.bonds = st.bonds := by
    unfold mapMolecule
    rw [he]
    exact ⟨_, rfl, rfl⟩
  obtain ⟨r', h1, h2⟩ := hok
  obtain ⟨_, hl, hnd, _, _⟩ := mapMolecule_spec _ _ h1
  exact ⟨r', h1, h2, hnd, hl⟩

/-- for an accepted token list, the bond loop succeeds iff the bonds form a simple graph with valid orders -/
theorem bondsBuild_iff (toks : List Tok) (st : PState) (hne : toks ≠ [])
    (hn : ∀ t ∈ toks, noOther t = true) (h : parse false toks = .ok st) :
    bondsBuild st ↔ (simpleBonds st.bonds = true ∧ ∀ b ∈ st.bonds, validOrder b.2.2 = true) := by
  have hg := parse_good false toks hne hn
  rw [h] at hg
  obtain ⟨inv, _, _, _⟩ := hg
  have hpos : st.atoms ≠ [] := by
    have := inv.pos
    intro he; rw [he] at this; simp at this
  obtain ⟨r', h1, h2, hnd, hl⟩ := mapMolecule_ofState st hpos
  have hin : ∀ b ∈ st.bonds, b.1 < r'.mapping.length ∧ b.2.1 < r'.mapping.length := by
    intro b hb; rw [hl]; exact inv.bonds b hb
  have key := buildBonds_ok_iff r'.mapping hnd st.bonds hin
  constructor
  · rintro ⟨r2, adj, e1, e2⟩
    rw [h1] at e1; cases e1
    rw [h2] at e2
    exact key.mp ⟨adj, e2⟩
  · intro hs
    obtain ⟨adj, e⟩ := key.mpr hs
    exact ⟨r', adj, h1, by rw [h2]; exact e⟩

/-- **acceptance ⇔ grammar + ring-closure discipline.** -/
theorem accept_iff_rings_core (ty : Nat) (a : AtomTok) (rest : List Tok)
    (hring : ∀ t ∈ Tok.atom ty a :: rest, ringTok t = true)
    (hneo : noEmptyOpen (Tok.atom ty a :: rest) = true)
    (hnrac : noRingAfterClose (Tok.atom ty a :: rest) = true) :
    (∃ st, parse false (Tok.atom ty a :: rest) = .ok st ∧ bondsBuild st) ↔
      ∃ (c : Chain B) (g : Graph B), Tok.atom ty a :: rest = toToksB (printR (·.2) c) ∧
        denoteR aromB (·.2) c = some g ∧ simpleBonds g.bonds = true ∧ ∀ b ∈ g.bonds, validOrder b.2.2 = true := by
  have hn : ∀ t ∈ Tok.atom ty a :: rest, noOther t = true := fun t ht => ringTok_noOther (hring t ht)
  constructor
  · rintro ⟨st, h, hb⟩
    obtain ⟨hs, hv⟩ := (bondsBuild_iff _ st (by simp) hn h).mp hb
    have hl : loopFree st.bonds := fun b hb => ((simpleBonds_iff st.bonds).mp hs).1 b hb
    obtain ⟨c, hc⟩ := parse_unprintR ty a rest st hring hneo hnrac h
    have h' : parse false (toToksB (printR (·.2) c)) = .ok st := by rw [← hc]; exact h
    obtain ⟨g, hg⟩ := denoteR_of_parse c st h' hl
    obtain ⟨st2, e2, _, _, eb⟩ := parse_printR c g hg
    rw [h'] at e2; cases e2
    exact ⟨c, g, hc, hg, by rw [← eb]; exact hs, by rw [← eb]; exact hv⟩
  · rintro ⟨c, g, hc, hg, hs, hv⟩
    obtain ⟨st, e, _, _, eb⟩ := parse_printR c g hg
    rw [← hc] at e
    refine ⟨st, e, (bondsBuild_iff _ st (by simp) hn e).mpr ⟨by rw [eb]; exact hs, by rw [eb]; exact hv⟩⟩

/-- and then the graph built is the denoted one -/
theorem accepted_is_denotation (ty : Nat) (a : AtomTok) (rest : List Tok) (st : PState)
    (hring : ∀ t ∈ Tok.atom ty a :: rest, ringTok t = true)
    (hneo : noEmptyOpen (Tok.atom ty a :: rest) = true)
    (hnrac : noRingAfterClose (Tok.atom ty a :: rest) = true)
    (h : parse false (Tok.atom ty a :: rest) = .ok st) (hb : bondsBuild st) :
    ∃ (c : Chain B) (g : Graph B), Tok.atom ty a :: rest = toToksB (printR (·.2) c) ∧
      denoteR aromB (·.2) c = some g ∧ st.atoms = g.atoms.map (fun b => strip b.1) ∧
      st.types = g.atoms.map (fun b => tyOf b.1) ∧ st.bonds = g.bonds := by
  have hn : ∀ t ∈ Tok.atom ty a :: rest, noOther t = true := fun t ht => ringTok_noOther (hring t ht)
  obtain ⟨hs, _⟩ := (bondsBuild_iff _ st (by simp) hn h).mp hb
  have hl : loopFree st.bonds := fun b hb => ((simpleBonds_iff st.bonds).mp hs).1 b hb
  obtain ⟨c, hc⟩ := parse_unprintR ty a rest st hring hneo hnrac h
  have h' : parse false (toToksB (printR (·.2) c)) = .ok st := by rw [← hc]; exact h
  obtain ⟨g, hg⟩ := denoteR_of_parse c st h' hl
  obtain ⟨st2, e2, ea, et, eb⟩ := parse_printR c g hg
  rw [h'] at e2; cases e2
  exact ⟨c, g, hc, hg, ea, et, eb⟩

/-- what `smiles_tokenize` hands on is a ring-language token (atoms of type 0/8, no query tokens) -/
theorem convToks_ring : ∀ (raw : List RTok) (l : List Tok), convToks raw = .ok l →
    ∀ x ∈ l, noOther x = true → ringTok x = true
  | [], l, h, x, hx, _ => by simp [convToks] at h; subst h; simp at hx
  | t :: tl, l, h, x, hx, hno => by
    obtain ⟨y, ys, hy, h2, rfl⟩ := convToks_cons h
    simp only [List.mem_cons] at hx
    rcases hx with rfl | hx
    · have p := convTok_paren t x hy
      cases x with
      | atom ty a => rcases p.2.2 ty a rfl with rfl | rfl <;> rfl
      | other ty v => cases hno
      | _ => rfl
    · exact convToks_ring tl ys h2 x hx hno

/-- string level: the token list of a string is in the ring language and has no `((` / `()` -/
theorem smilesTokenize_ring (s : Str) (toks : List Tok) (htok : smilesTokenize s = .ok toks) :
    (∀ t ∈ toks, ringTok t = true) ∧ noEmptyOpen toks = true := by
  unfold smilesTokenize at htok
  cases hraw : tokenizeRaw s with
  | error e => rw [hraw] at htok; cases htok
  | ok raw =>
    rw [hraw] at htok
    dsimp only at htok
    have hshaped := tokenizeRaw_good s
    rw [hraw] at hshaped
    have hno : ∀ x ∈ toks, noOther x = true := by
      rcases convToks_good raw hshaped with ⟨l, hl, _, hall⟩ | ⟨e, he, _⟩
      · rw [hl] at htok; cases htok; exact hall
      · rw [he] at htok; cases htok
    exact ⟨fun t ht => convToks_ring raw _ htok t ht (hno t ht),
      convToks_neo raw _ htok (tokenizeRaw_fwdNEO s raw hraw)⟩

end ChythonModel.Proofs.C03
