import ChythonModel.Model.StdRuleFacts
/-!
# C14 — helper lemmas: what the rule loop does to atoms, net charge and the heavy-atom list
-/
namespace ChythonModel.Proofs.C14
open ChythonModel.Model ChythonModel.Model.Std ChythonModel.Gen.Rules

/-! ## association-list facts -/

theorem map_setAtomEntry_keys (l : List (Nat × Atom)) (n : Nat) (f : Atom → Atom) :
    (l.map (setAtomEntry n f)).map (·.1) = l.map (·.1) := by
  induction l with
  | nil => rfl
  | cons p tl ih =>
    simp only [List.map_cons, ih]
    unfold setAtomEntry; split <;> rfl

theorem updAtom_ids (m : Mol) (n : Nat) (f : Atom → Atom) : (updAtom m n f).ids = m.ids := by
  unfold updAtom Mol.ids; exact map_setAtomEntry_keys _ _ _

theorem updAtom_adj (m : Mol) (n : Nat) (f : Atom → Atom) : (updAtom m n f).adj = m.adj := rfl

/-- entries with another key are not touched -/
theorem map_setAtomEntry_of_not_mem (l : List (Nat × Atom)) (n : Nat) (f : Atom → Atom)
    (h : n ∉ l.map (·.1)) : l.map (setAtomEntry n f) = l := by
  induction l with
  | nil => rfl
  | cons p tl ih =>
    simp only [List.map_cons, List.mem_cons, not_or] at h
    simp only [List.map_cons, ih h.2]
    unfold setAtomEntry
    have : (p.1 == n) = false := by
      apply beq_false_of_ne; intro e; exact h.1 e.symm
    simp [this]

/-- the sum of a per-atom integer quantity after one entry was rewritten -/
theorem sum_map_setAtomEntry (g : Atom → Int) (l : List (Nat × Atom)) (n : Nat) (f : Atom → Atom) (a : Atom)
    (hnd : (l.map (·.1)).Nodup) (hl : l.lookup n = some a) :
    ((l.map (setAtomEntry n f)).map (fun p => g p.2)).sum = (l.map (fun p => g p.2)).sum + (g (f a) - g a) := by
  induction l with
  | nil => simp at hl
  | cons p tl ih =>
    obtain ⟨k, b⟩ := p
    simp only [List.map_cons, List.nodup_cons] at hnd
    by_cases hk : n = k
    · subst hk
      have hb : b = a := by simpa [List.lookup] using hl
      subst hb
      rw [List.map_cons, map_setAtomEntry_of_not_mem tl n f hnd.1]
      simp only [setAtomEntry, beq_self_eq_true, if_true, List.map_cons, List.sum_cons]
      omega
    · have hne : (n == k) = false := beq_false_of_ne hk
      have hl' : tl.lookup n = some a := by simpa [List.lookup, hne] using hl
      have hne' : (k == n) = false := beq_false_of_ne (fun e => hk e.symm)
      rw [List.map_cons]
      simp only [setAtomEntry, hne', List.map_cons, List.sum_cons]
      rw [ih hnd.2 hl']
      simp only [Bool.false_eq_true, if_false]
      omega

theorem netCharge_updAtom (m : Mol) (n : Nat) (f : Atom → Atom) (a : Atom)
    (hnd : m.ids.Nodup) (ha : m.atom? n = some a) :
    netCharge (updAtom m n f) = netCharge m + ((f a).charge - a.charge) := by
  unfold netCharge updAtom
  exact sum_map_setAtomEntry (fun x => x.charge) m.atoms n f a hnd ha

/-- identity and nuclear data of every atom, in dict order: what "the atoms of the molecule" are -/
def skeleton (m : Mol) : List (Nat × Nat × Option Nat) := m.atoms.map fun p => (p.1, p.2.z, p.2.isotope)

theorem skeleton_updAtom (m : Mol) (n : Nat) (f : Atom → Atom)
    (hz : ∀ a, (f a).z = a.z) (hi : ∀ a, (f a).isotope = a.isotope) :
    skeleton (updAtom m n f) = skeleton m := by
  unfold skeleton updAtom
  simp only [List.map_map]
  apply List.map_congr_left
  intro p _
  simp only [Function.comp, setAtomEntry]
  split <;> simp [hz, hi]

/-! ## `atom_fix` -/

/-- Σ of the charge deltas of a list of `atom_fix` entries -/
def fixSum (fix : List (Nat × Int × Option Bool)) : Int := (fix.map (·.2.1)).sum

def fixAtom (ch : Int) (ir : Option Bool) (a : Atom) : Atom :=
  { a with charge := a.charge + ch, radical := match ir with | some b => b | none => a.radical }

theorem atomFixLoop_cons (mp : Iso.Dict) (n : Nat) (ch : Int) (ir : Option Bool) (rest) (m : Mol) (hs : List Nat) :
    atomFixLoop mp ((n, ch, ir) :: rest) m hs =
      (mp.lookup n).bind fun x => (m.atom? x).bind fun a =>
        if a.charge + ch > 4 then some (m, setAdd hs x, true)
        else atomFixLoop mp rest (updAtom m x (fixAtom ch ir)) (setAdd hs x) := by
  rw [atomFixLoop]
  cases mp.lookup n <;> simp only [Option.bind, bind]
  rename_i x
  cases m.atom? x <;> simp only [pure]
  rfl

/-- what the atom loop guarantees: same atoms (ids, element, isotope), same bonds; without `break` the net charge moves by
    exactly the sum of the deltas; with `break` by the sum over the entries that were applied before it -/
theorem atomFixLoop_spec (mp : Iso.Dict) : ∀ (fix : List (Nat × Int × Option Bool)) (m : Mol) (hs : List Nat) (m' : Mol)
    (hs' : List Nat) (ab : Bool), atomFixLoop mp fix m hs = some (m', hs', ab) → m.ids.Nodup →
    m'.ids = m.ids ∧ m'.adj = m.adj ∧ skeleton m' = skeleton m ∧
    (ab = false → netCharge m' = netCharge m + fixSum fix) ∧
    (ab = true → ∃ done, done.length < fix.length ∧ done = fix.take done.length ∧ netCharge m' = netCharge m + fixSum done) := by
  intro fix
  induction fix with
  | nil =>
    intro m hs m' hs' ab h _
    simp only [atomFixLoop, Option.some.injEq, Prod.mk.injEq] at h
    obtain ⟨rfl, -, rfl⟩ := h
    simp [fixSum]
  | cons e rest ih =>
    obtain ⟨n, ch, ir⟩ := e
    intro m hs m' hs' ab h hnd
    rw [atomFixLoop_cons] at h
    cases hx : mp.lookup n with
    | none => simp [hx] at h
    | some x =>
      cases ha : m.atom? x with
      | none => simp [hx, ha] at h
      | some a =>
        simp only [hx, ha, Option.bind] at h
        by_cases hov : a.charge + ch > 4
        · simp only [hov, if_true, Option.some.injEq, Prod.mk.injEq] at h
          obtain ⟨rfl, -, rfl⟩ := h
          refine ⟨rfl, rfl, rfl, by simp, fun _ => ⟨[], by simp, by simp, by simp [fixSum]⟩⟩
        · simp only [hov, if_false] at h
          have hnd' : (updAtom m x (fixAtom ch ir)).ids.Nodup := by rw [updAtom_ids]; exact hnd
          obtain ⟨h1, h2, h3, h4, h5⟩ := ih _ _ _ _ _ h hnd'
          have hq : netCharge (updAtom m x (fixAtom ch ir)) = netCharge m + ch := by
            rw [netCharge_updAtom m x _ a hnd ha]; simp only [fixAtom]; omega
          refine ⟨by rw [h1, updAtom_ids], by rw [h2, updAtom_adj], ?_, ?_, ?_⟩
          · rw [h3]; exact skeleton_updAtom m x _ (fun _ => rfl) (fun _ => rfl)
          · intro hab; rw [h4 hab, hq]; simp only [fixSum, List.map_cons, List.sum_cons]; omega
          · intro hab
            obtain ⟨done, hl, ht, hc⟩ := h5 hab
            refine ⟨(n, ch, ir) :: done, by simp only [List.length_cons]; omega, ?_, ?_⟩
            · simp only [List.length_cons, List.take_succ_cons]; rw [← ht]
            · rw [hc, hq]; simp only [fixSum, List.map_cons, List.sum_cons]; omega

/-- a `break` while the *first* entry is processed leaves the molecule untouched -/
theorem atomFixLoop_abort_first (mp : Iso.Dict) (n : Nat) (ch : Int) (ir : Option Bool) (rest) (m : Mol) (hs : List Nat)
    (x : Nat) (a : Atom) (hx : mp.lookup n = some x) (ha : m.atom? x = some a) (hov : a.charge + ch > 4) :
    atomFixLoop mp ((n, ch, ir) :: rest) m hs = some (m, setAdd hs x, true) := by
  rw [atomFixLoop_cons]; simp [hx, ha, hov]

/-! ## `bonds_fix`, hydrogen recalculation: atoms other than their `implH` are not touched -/

theorem bondsFixLoop_atoms (mp : Iso.Dict) : ∀ (fix : List (Nat × Nat × Nat)) (m : Mol) (hs : List Nat) (ks kc : Bool)
    (m' : Mol) (hs' : List Nat) (ks' kc' : Bool),
    bondsFixLoop mp fix m hs ks kc = some (m', hs', ks', kc') → m'.atoms = m.atoms := by
  intro fix
  induction fix with
  | nil =>
    intro m hs ks kc m' hs' ks' kc' h
    simp only [bondsFixLoop, Option.some.injEq, Prod.mk.injEq] at h
    rw [← h.1]
  | cons e rest ih =>
    obtain ⟨n, k, bo⟩ := e
    intro m hs ks kc m' hs' ks' kc' h
    rw [bondsFixLoop] at h
    cases hx : mp.lookup n with
    | none => simp [hx, bind] at h
    | some x =>
      cases hy : mp.lookup k with
      | none => simp [hx, hy, bind] at h
      | some y =>
        cases hr : m.adj.lookup x with
        | none => simp [hx, hy, hr, bind] at h
        | some row =>
          simp only [hx, hy, hr, bind, Option.bind] at h
          cases hb : row.lookup y with
          | some b =>
            simp only [hb] at h
            exact (ih _ _ _ _ _ _ _ _ h).trans rfl
          | none =>
            simp only [hb] at h
            cases hr2 : m.adj.lookup y with
            | none => simp [hr2] at h
            | some row2 =>
              simp only [hr2] at h
              exact (ih _ _ _ _ _ _ _ _ h).trans rfl

/-- the view of the atoms that hydrogen recalculation cannot change -/
def heavyView (m : Mol) : List (Nat × Nat × Option Nat × Int × Bool) :=
  m.atoms.map fun p => (p.1, p.2.z, p.2.isotope, p.2.charge, p.2.radical)

theorem ids_of_heavyView {m m' : Mol} (h : heavyView m' = heavyView m) : m'.ids = m.ids := by
  have := congrArg (List.map (·.1)) h
  simp only [heavyView, List.map_map, Function.comp_def] at this
  exact this

theorem skeleton_of_heavyView {m m' : Mol} (h : heavyView m' = heavyView m) : skeleton m' = skeleton m := by
  have := congrArg (List.map fun (q : Nat × Nat × Option Nat × Int × Bool) => (q.1, q.2.1, q.2.2.1)) h
  simp only [heavyView, List.map_map, Function.comp_def] at this
  exact this

theorem netCharge_of_heavyView {m m' : Mol} (h : heavyView m' = heavyView m) : netCharge m' = netCharge m := by
  have := congrArg (List.map fun (q : Nat × Nat × Option Nat × Int × Bool) => q.2.2.2.1) h
  simp only [heavyView, List.map_map, Function.comp_def] at this
  unfold netCharge; exact congrArg List.sum this

theorem setH_heavyView (m : Mol) (n : Nat) (h : Option Nat) : heavyView (Valence.setH m n h) = heavyView m := by
  unfold heavyView Valence.setH
  simp only [List.map_map]
  apply List.map_congr_left
  intro p _
  simp only [Function.comp, Valence.setHEntry]
  split <;> simp [Valence.withH]

theorem recalc_heavyView : ∀ (ns : List Nat) (m m' : Mol), recalc ns m = some m' → heavyView m' = heavyView m := by
  intro ns
  induction ns with
  | nil => intro m m' h; simp only [recalc, Option.some.injEq] at h; rw [h]
  | cons n ns ih =>
    intro m m' h
    rw [recalc] at h
    cases hc : Valence.calcImplicitMol m n with
    | none => simp [hc] at h
    | some hh =>
      simp only [hc] at h
      rw [ih _ _ h, setH_heavyView]

/-! ## one mapping, one rule -/

/-- no entry of the log records a `bad charge formed. changes omitted` abort -/
def AllApplied (log : List LogEntry) : Prop := ∀ e ∈ log, e.kind = LogKind.applied

/-- what a piece of the rule loop guarantees between two states: same atoms; the log grows by entries of rule `ri`; if none of
    the new entries is an abort the net charge moved by `chargeSum r` per new entry -/
def StepSpec (r : StdRule) (ri : Nat) (m m' : Mol) (log log' : List LogEntry) : Prop :=
  m'.ids = m.ids ∧ skeleton m' = skeleton m ∧
  ∃ new, log' = log ++ new ∧ (∀ e ∈ new, e.rule = ri) ∧
    (AllApplied new → netCharge m' = netCharge m + chargeSum r * new.length)

theorem StepSpec.refl (r : StdRule) (ri : Nat) (m : Mol) (log : List LogEntry) : StepSpec r ri m m log log :=
  ⟨rfl, rfl, [], by simp, by simp, by simp⟩

theorem StepSpec.trans {r : StdRule} {ri : Nat} {m1 m2 m3 : Mol} {l1 l2 l3 : List LogEntry}
    (h12 : StepSpec r ri m1 m2 l1 l2) (h23 : StepSpec r ri m2 m3 l2 l3) : StepSpec r ri m1 m3 l1 l3 := by
  obtain ⟨a1, b1, n1, e1, r1, c1⟩ := h12
  obtain ⟨a2, b2, n2, e2, r2, c2⟩ := h23
  refine ⟨a2.trans a1, b2.trans b1, n1 ++ n2, by rw [e2, e1, List.append_assoc], ?_, ?_⟩
  · intro e he
    rcases List.mem_append.mp he with h | h
    · exact r1 e h
    · exact r2 e h
  · intro hall
    have ha1 : AllApplied n1 := fun e he => hall e (List.mem_append.mpr (Or.inl he))
    have ha2 : AllApplied n2 := fun e he => hall e (List.mem_append.mpr (Or.inr he))
    rw [c2 ha2, c1 ha1, List.length_append]
    push_cast
    rw [Int.mul_add]; omega

theorem processMapping_spec (r : StdRule) (ri : Nat) (st st' : RState) (mp : Iso.Dict)
    (h : processMapping r ri st mp = some st') (hnd : st.mol.ids.Nodup) :
    StepSpec r ri st.mol st'.mol st.log st'.log := by
  unfold processMapping at h
  simp only [bind, pure] at h
  split at h
  · simp only [Option.some.injEq] at h; subst h; exact StepSpec.refl _ _ _ _
  · cases hany : r.anyAtoms.mapM (fun x => mp.lookup x) with
    | none => simp [hany, Option.bind] at h
    | some anyImgs =>
      simp only [hany, Option.bind] at h
      cases haf : atomFixLoop mp r.atomFix st.mol st.hs with
      | none => simp [haf] at h
      | some res =>
        obtain ⟨m1, hs1, ab⟩ := res
        simp only [haf] at h
        obtain ⟨i1, a1, s1, c1, -⟩ := atomFixLoop_spec mp _ _ _ _ _ _ haf hnd
        cases ab with
        | true =>
          simp only [if_true, Option.some.injEq] at h
          subst h
          refine ⟨i1, s1, [⟨_, ri, .badCharge⟩], rfl, by simp, ?_⟩
          intro hall
          have := hall _ (List.mem_singleton.mpr rfl)
          simp at this
        | false =>
          simp only [Bool.false_eq_true, if_false] at h
          cases hbf : bondsFixLoop mp r.bondsFix m1 hs1 st.keepSssr st.keepComp with
          | none => simp [hbf] at h
          | some res2 =>
            obtain ⟨m2, hs2, ks, kc⟩ := res2
            simp only [hbf, Option.some.injEq] at h
            subst h
            have hat := bondsFixLoop_atoms mp _ _ _ _ _ _ _ _ _ hbf
            refine ⟨?_, ?_, [⟨_, ri, .applied⟩], rfl, by simp, ?_⟩
            · show m2.ids = st.mol.ids
              unfold Mol.ids; rw [hat]; exact i1
            · show skeleton m2 = skeleton st.mol
              unfold skeleton; rw [hat]; exact s1
            · intro _
              show netCharge m2 = _
              have : netCharge m2 = netCharge m1 := by unfold netCharge; rw [hat]
              rw [this, c1 rfl]; simp [chargeSum, fixSum]

theorem drain_spec (r : StdRule) (ri : Nat) (g : GenCtx) : ∀ (fuel : Nat) (st : RState) (ms : MState) (st' : RState),
    drain r ri g fuel st ms = some st' → st.mol.ids.Nodup → StepSpec r ri st.mol st'.mol st.log st'.log := by
  intro fuel
  induction fuel with
  | zero => intro st ms st' h; simp [drain] at h
  | succ fuel ih =>
    intro st ms st' h hnd
    rw [drain] at h
    split at h
    · simp at h
    · simp only [Option.some.injEq] at h; subst h; exact StepSpec.refl _ _ _ _
    · rename_i mp ms' _
      cases hp : processMapping r ri st mp with
      | none => simp [hp] at h
      | some st1 =>
        simp only [hp] at h
        have s1 := processMapping_spec r ri st st1 mp hp hnd
        have hnd1 : st1.mol.ids.Nodup := by rw [s1.1]; exact hnd
        exact s1.trans (ih _ _ _ h hnd1)

theorem ruleLoop_spec (r : StdRule) (ri : Nat) (lq : List Iso.Step) (cl : Iso.Closures) (L : Labels) :
    ∀ (comps : List (List Nat)) (st st' : RState), ruleLoop r ri lq cl L comps st = some st' → st.mol.ids.Nodup →
    StepSpec r ri st.mol st'.mol st.log st'.log := by
  intro comps
  induction comps with
  | nil => intro st st' h _; simp only [ruleLoop, Option.some.injEq] at h; subst h; exact StepSpec.refl _ _ _ _
  | cons cand rest ih =>
    intro st st' h hnd
    rw [ruleLoop.eq_def] at h
    simp only at h
    split at h
    · simp at h
    · split at h
      · simp at h
      · rename_i st1 hd
        have s1 := drain_spec r ri _ _ _ _ _ hd hnd
        have hnd1 : st1.mol.ids.Nodup := by rw [s1.1]; exact hnd
        exact s1.trans (ih _ _ h hnd1)

theorem runRule_spec (r : StdRule) (ri : Nat) (m : Mol) (L : Labels) (comps : List (List Nat)) (st : RState)
    (h : runRule r ri m L comps = some st) (hnd : m.ids.Nodup) : StepSpec r ri m st.mol [] st.log := by
  unfold runRule at h
  split at h
  · exact ruleLoop_spec r ri _ _ L comps { mol := m } st h hnd
  · simp at h

/-! ## a table -/

/-- the charge the log accounts for: `w i` per entry of rule `i` -/
def logCharge (w : Nat → Int) (log : List LogEntry) : Int := (log.map fun e => w e.rule).sum

theorem logCharge_append (w : Nat → Int) (a b : List LogEntry) : logCharge w (a ++ b) = logCharge w a + logCharge w b := by
  simp [logCharge]

theorem logCharge_const (w : Nat → Int) (ri : Nat) : ∀ (l : List LogEntry), (∀ e ∈ l, e.rule = ri) →
    logCharge w l = w ri * l.length := by
  intro l
  induction l with
  | nil => intro _; simp [logCharge]
  | cons e tl ih =>
    intro h
    have he : e.rule = ri := h e (List.mem_cons_self)
    have ht := ih (fun x hx => h x (List.mem_cons_of_mem _ hx))
    simp only [logCharge, List.map_cons, List.sum_cons, List.length_cons] at ht ⊢
    rw [ht, he]; push_cast; rw [Int.mul_add]; omega

theorem logCharge_zero (w : Nat → Int) : ∀ (l : List LogEntry), (∀ e ∈ l, w e.rule = 0) → logCharge w l = 0 := by
  intro l
  induction l with
  | nil => intro _; simp [logCharge]
  | cons e tl ih =>
    intro h
    have he := h e (List.mem_cons_self)
    have ht := ih (fun x hx => h x (List.mem_cons_of_mem _ hx))
    simp only [logCharge, List.map_cons, List.sum_cons] at ht ⊢
    omega

/-- what a run of a table guarantees: same atoms; the log grows; if no new entry is an abort the net charge moved by exactly
    what the log accounts for -/
def TableSpec (w : Nat → Int) (ts ts' : TState) : Prop :=
  ts'.mol.ids = ts.mol.ids ∧ skeleton ts'.mol = skeleton ts.mol ∧
  ∃ new, ts'.log = ts.log ++ new ∧ (AllApplied new → netCharge ts'.mol = netCharge ts.mol + logCharge w new)

theorem TableSpec.refl (w : Nat → Int) (ts : TState) : TableSpec w ts ts := ⟨rfl, rfl, [], by simp, by simp [logCharge]⟩

theorem TableSpec.trans {w : Nat → Int} {a b c : TState} (h1 : TableSpec w a b) (h2 : TableSpec w b c) : TableSpec w a c := by
  obtain ⟨i1, s1, n1, e1, c1⟩ := h1
  obtain ⟨i2, s2, n2, e2, c2⟩ := h2
  refine ⟨i2.trans i1, s2.trans s1, n1 ++ n2, by rw [e2, e1, List.append_assoc], ?_⟩
  intro hall
  have ha1 : AllApplied n1 := fun e he => hall e (List.mem_append.mpr (Or.inl he))
  have ha2 : AllApplied n2 := fun e he => hall e (List.mem_append.mpr (Or.inr he))
  rw [c2 ha2, c1 ha1, logCharge_append]; omega

/-- the outcome of a table run, as a proposition about the reached state (a crash promises nothing) -/
def OutcomeSpec (w : Nat → Int) (ts : TState) : Outcome TState → Prop
  | .done ts' => TableSpec w ts ts'
  | .pause _ ts' => TableSpec w ts ts'
  | .crash => True

theorem stdTable_spec (fixTaut : Bool) (w : Nat → Int) : ∀ (rules : List StdRule) (ri : Nat) (ts : TState),
    (∀ i r, rules[i]? = some r → w (ri + i) = chargeSum r) → ts.mol.ids.Nodup →
    OutcomeSpec w ts (stdTable fixTaut rules ri ts) := by
  intro rules
  induction rules with
  | nil => intro ri ts _ _; simp only [stdTable, OutcomeSpec]; exact TableSpec.refl w ts
  | cons r rest ih =>
    intro ri ts hw hnd
    have hw0 : w ri = chargeSum r := by simpa using hw 0 r (by simp)
    have hw' : ∀ i r', rest[i]? = some r' → w (ri + 1 + i) = chargeSum r' := by
      intro i r' hi
      have := hw (i + 1) r' (by simpa using hi)
      rw [← this]; congr 1; omega
    rw [stdTable]
    split
    · exact ih (ri + 1) ts hw' hnd
    · split
      · simp [OutcomeSpec]
      · rename_i st hrun
        obtain ⟨i1, s1, new, e1, r1, c1⟩ := runRule_spec r ri ts.mol ts.labels ts.comps st hrun hnd
        simp only [List.nil_append] at e1
        -- the step from `ts` to the state after this rule (before labels are recomputed), for any molecule with st.mol's heavy view
        have step : ∀ (m' : Mol) (L : Labels) (fx : List Nat), heavyView m' = heavyView st.mol →
            TableSpec w ts { ts with mol := m', labels := L, log := ts.log ++ st.log, fixed := fx } := by
          intro m' L fx hv
          refine ⟨(ids_of_heavyView hv).trans i1, (skeleton_of_heavyView hv).trans s1, st.log, rfl, ?_⟩
          intro hall
          show netCharge m' = _
          rw [netCharge_of_heavyView hv, c1 (e1 ▸ hall), e1, logCharge_const w ri new r1, hw0]
        split
        · have t1 := step st.mol ts.labels ts.fixed rfl
          have hnd1 : st.mol.ids.Nodup := by rw [i1]; exact hnd
          have := ih (ri + 1) { ts with mol := st.mol, log := ts.log ++ st.log } hw' hnd1
          revert this
          cases stdTable fixTaut rest (ri + 1) { ts with mol := st.mol, log := ts.log ++ st.log } with
          | done x => exact fun h2 => t1.trans h2
          | pause k x => exact fun h2 => t1.trans h2
          | crash => exact fun _ => trivial
        · split
          · simp [OutcomeSpec]
          · rename_i m' hrec
            have hv := recalc_heavyView _ _ _ hrec
            split
            · split
              · simp [OutcomeSpec]
              · rename_i L' _
                have t1 := step m' L' (setUnion ts.fixed st.hs) hv
                have hnd1 : m'.ids.Nodup := by rw [ids_of_heavyView hv, i1]; exact hnd
                have := ih (ri + 1) { ts with mol := m', log := ts.log ++ st.log, fixed := setUnion ts.fixed st.hs, labels := L' } hw' hnd1
                revert this
                cases stdTable fixTaut rest (ri + 1) { ts with mol := m', log := ts.log ++ st.log, fixed := setUnion ts.fixed st.hs, labels := L' } with
                | done x => exact fun h2 => t1.trans h2
                | pause k x => exact fun h2 => t1.trans h2
                | crash => exact fun _ => trivial
            · exact step m' ts.labels (setUnion ts.fixed st.hs) hv

/-- the atom part of a table run, without weights: for a reached state the atoms are the atoms that came in -/
def AtomsKept (ts : TState) : Outcome TState → Prop
  | .done ts' => ts'.mol.ids = ts.mol.ids ∧ skeleton ts'.mol = skeleton ts.mol
  | .pause _ ts' => ts'.mol.ids = ts.mol.ids ∧ skeleton ts'.mol = skeleton ts.mol
  | .crash => True

theorem atomsKept_of_spec (w : Nat → Int) (ts : TState) : ∀ o, OutcomeSpec w ts o → AtomsKept ts o := by
  intro o
  cases o with
  | done x => intro h; exact ⟨h.1, h.2.1⟩
  | pause k x => intro h; exact ⟨h.1, h.2.1⟩
  | crash => intro _; trivial

/-- weights that satisfy the side condition of `stdTable_spec` for any rule list -/
def weightsOf (rules : List StdRule) (ri : Nat) (i : Nat) : Int :=
  match rules[i - ri]? with
  | some r => chargeSum r
  | none => 0

theorem stdTable_atoms (fixTaut : Bool) (rules : List StdRule) (ri : Nat) (ts : TState) (hnd : ts.mol.ids.Nodup) :
    AtomsKept ts (stdTable fixTaut rules ri ts) := by
  apply atomsKept_of_spec (weightsOf rules ri)
  apply stdTable_spec fixTaut (weightsOf rules ri) rules ri ts _ hnd
  intro i r hi
  simp [weightsOf, hi]

/-! ## the whole `standardize` (after `fix_resonance`) -/

/-- the table state reached by `standardizeFrom`, if any -/
def reachedS : Outcome (Nat × Bool × List Nat × TState) → Option TState
  | .done s => some s.2.2.2
  | .pause _ s => some s.2.2.2
  | .crash => none

theorem standardizeFrom_skeleton (fixTaut : Bool) : ∀ (fuel phase ri : Nat) (fs : Bool) (allFixed : List Nat) (ts ts' : TState),
    ts.mol.ids.Nodup → reachedS (standardizeFrom fixTaut fuel phase ri fs allFixed ts) = some ts' →
    ts'.mol.ids = ts.mol.ids ∧ skeleton ts'.mol = skeleton ts.mol := by
  intro fuel
  induction fuel with
  | zero => intro phase ri fs allFixed ts ts' _ h; simp [standardizeFrom, reachedS] at h
  | succ fuel ih =>
    intro phase ri fs allFixed ts ts' hnd h
    rw [standardizeFrom] at h
    split at h
    · simp only [reachedS, Option.some.injEq] at h; subst h; exact ⟨rfl, rfl⟩
    · split at h
      · exact ih _ _ _ _ _ _ hnd h
      · revert h
        cases hst : stdTable fixTaut ((tableOfPhase phase).drop ri) ri { ts with fixed := [] } with
        | crash => intro h; simp [reachedS] at h
        | pause next x =>
          intro h
          simp only [reachedS, Option.some.injEq] at h
          subst h
          -- only the atom part of the specification is used: it does not depend on the weights
          have := stdTable_atoms fixTaut ((tableOfPhase phase).drop ri) ri { ts with fixed := [] } hnd
          rw [hst] at this
          exact this
        | done x =>
          intro h
          have hx := stdTable_atoms fixTaut ((tableOfPhase phase).drop ri) ri { ts with fixed := [] } hnd
          rw [hst] at hx
          have hnd' : x.mol.ids.Nodup := by rw [hx.1]; exact hnd
          obtain ⟨a, b⟩ := ih _ _ _ _ _ _ hnd' h
          exact ⟨a.trans hx.1, b.trans hx.2⟩

end ChythonModel.Proofs.C14
