import ChythonModel.Model.C18Atom
/-!
Helper lemma for the matcher part of C18: the reference matcher (`QueryElement.__eq__`, C08's `pyEq`) at a one-atom state is the
documented selection rule — for every element row, every pair of states, every hydrogen / neighbour / heteroatom count.
-/
namespace ChythonModel.Proofs.C18
open ChythonModel.Gen ChythonModel.Model.C18 ChythonModel.Model ChythonModel.Gen.Bits

theorem pyFound_eq_selects (r : ElemRow) (q : Obj) (qh : Option Nat) (o : Obj) (h : Option Nat) (nb het : Nat)
    (hq : q.isotope ≠ some 0) : pyFound r q qh o h nb het = selects q qh o h := by
  obtain ⟨qi, qc, qr⟩ := q
  obtain ⟨oi, oc, orad⟩ := o
  simp only [pyFound, Query.pyEq, qAtom, mAtom, Query.extendedTail, Query.tupleRejects, Query.ringRejects, Query.hRejects,
    Query.isoRejects, selects]
  have fin1 : ∀ a b : Nat, decide (a = b) = (a == b) := fun a b => by rw [Bool.eq_iff_iff]; simp
  have fin2 : ∀ (i : Nat) (x : Option Nat), decide (some i = x) = (x == some i) := fun i x => by
    rw [Bool.eq_iff_iff]; simp only [decide_eq_true_eq, beq_iff_eq]; exact eq_comm
  cases qi with
  | none => cases qh <;> cases h <;> simp <;> (try (by_cases h1 : qc = oc <;> by_cases h2 : qr = orad <;> simp_all))
  | some i =>
    have : i ≠ 0 := fun h0 => hq (by rw [h0])
    cases qh <;> cases h <;> simp [this] <;> (try (by_cases h1 : qc = oc <;> by_cases h2 : qr = orad <;> simp_all))

/-- a state is selected by the query atom that describes it -/
theorem selects_self (o : Obj) (h : Option Nat) : selects o none o h = true := by
  obtain ⟨oi, oc, orad⟩ := o
  cases oi <;> simp [selects]

/-! ## the accelerated test: lifting "found" from hydrogens = 0 / no neighbours to every count

Word 3 of a molecule atom is an OR of five independent parts (isotope+radical, charge, hydrogens, neighbours, heteroatoms) and
the mask of a query atom without count constraints is an OR containing the three "any count" masks, so `mask & bits == bits`
splits into one inclusion per part (`subBits_or`); no disjointness of bit ranges is needed for the *found* direction. -/

/-- every bit of `x` is set in `m` — the accelerated matcher's test `mask & bits == bits` -/
def subBits (x m : Nat) : Prop := m &&& x = x

theorem subBits_iff (x m : Nat) : subBits x m ↔ ∀ i, x.testBit i = true → m.testBit i = true := by
  unfold subBits
  constructor
  · intro h i hi
    have h2 : (m &&& x).testBit i = x.testBit i := by rw [h]
    rw [Nat.testBit_and, hi, Bool.and_true] at h2
    exact h2
  · intro h
    apply Nat.eq_of_testBit_eq
    intro i
    rw [Nat.testBit_and]
    cases hx : x.testBit i
    · simp
    · rw [h i hx]; rfl

theorem subBits_or (x y m : Nat) : subBits (x ||| y) m ↔ subBits x m ∧ subBits y m := by
  simp only [subBits_iff, Nat.testBit_or, Bool.or_eq_true]
  constructor
  · intro h; exact ⟨fun i hi => h i (Or.inl hi), fun i hi => h i (Or.inr hi)⟩
  · rintro ⟨h1, h2⟩ i (hi | hi)
    · exact h1 i hi
    · exact h2 i hi

theorem subBits_left (x a b : Nat) (h : subBits x a) : subBits x (a ||| b) := by
  rw [subBits_iff] at h ⊢
  intro i hi
  rw [Nat.testBit_or, h i hi]; rfl

theorem subBits_right (x a b : Nat) (h : subBits x b) : subBits x (a ||| b) := by
  rw [subBits_iff] at h ⊢
  intro i hi
  rw [Nat.testBit_or, h i hi, Bool.or_true]

/-- the isotope / radical / charge part of word 3 of a molecule atom -/
def coreV3 (mdl : Nat) (a : Query.MAtom) : Nat :=
  (match Bits.isoTruthy a.isotope with
    | some i => (1 <<< (i + sIsoOff - mdl)) ||| (if a.radical then sIsoRad else sIsoNoRad)
    | none => if a.radical then sNoIsoRad else sNoIsoNoRad) ||| (1 <<< (a.charge + sChargeOff).toNat)

theorem atomV3_split (mdl : Nat) (a : Query.MAtom) :
    Bits.atomV3 mdl a = coreV3 mdl a ||| (1 <<< (Bits.hOr a.implH + sHOff)) ||| (1 <<< (a.neighbors + sNbOff)) ||| (1 <<< a.heteroatoms) := rfl

/-- word 3 of the own query atom: everything except the three "any count" masks -/
def qCoreV3 (qmdl : Nat) (a : Query.QAtom) : Nat :=
  (match Bits.qIso a.kind with
    | some i =>
      (if decide (qmdl ≤ i + qIsoLo) && decide (i ≤ qmdl + qIsoHi) then 1 <<< (i + qIsoOff - qmdl) else qIsoNone)
        ||| (if a.radical then qIsoRad else qIsoNoRad)
    | none => if a.radical then qAnyIsoRad else qAnyIsoNoRad) ||| (1 <<< (a.charge + qChargeOff).toNat)

theorem qV3_split (r : ElemRow) (qmdl : Nat) (o : Obj) :
    (Bits.qWords qmdl (qAtom r o none) none).v3 = qCoreV3 qmdl (qAtom r o none) ||| qHAll ||| qHetAll ||| qNbAll := rfl

theorem encAtom_ok (mdl : Nat) (a : Query.MAtom) (w : Bits.Words) :
    Bits.encAtom mdl a = .ok w ↔ Bits.atomShiftsOk mdl a = true ∧ (Bits.atomWords mdl a).fit = true ∧ w = Bits.atomWords mdl a := by
  unfold Bits.encAtom
  cases h1 : Bits.atomShiftsOk mdl a <;> cases h2 : (Bits.atomWords mdl a).fit <;> simp [eq_comm]

theorem encQAtom_ok (qmdl : Nat) (a : Query.QAtom) (b : Option Query.QBond) (w : Bits.Words) (h : Bits.encQAtom qmdl a b = .ok w) :
    w = Bits.qWords qmdl a b := by
  unfold Bits.encQAtom at h
  cases h1 : Bits.qShiftsOk qmdl a <;> cases h2 : (Bits.qWords qmdl a b).fit <;> simp [h1, h2] at h
  exact h.symm

theorem fit_iff (w : Bits.Words) : w.fit = true ↔ w.v1 < Bits.two64 ∧ w.v2 < Bits.two64 ∧ w.v3 < Bits.two64 ∧ w.v4 < Bits.two64 := by
  simp [Bits.Words.fit, and_assoc]

theorem accel_lift (r : ElemRow) (o : Obj) (h : Option Nat) (nb het : Nat)
    (hh : subBits (1 <<< (Bits.hOr h + sHOff)) qHAll) (hhfit : 1 <<< (Bits.hOr h + sHOff) < Bits.two64)
    (hnb : subBits (1 <<< (nb + sNbOff)) qNbAll) (hnbfit : 1 <<< (nb + sNbOff) < Bits.two64)
    (hhet : subBits (1 <<< het) qHetAll) (hhetfit : 1 <<< het < Bits.two64)
    (base : accelFound r o none o (some 0) 0 0 = some true) :
    accelFound r o none o h nb het = some true := by
  unfold accelFound at base ⊢
  cases hq : r.qmdl with
  | none => rw [hq] at base; cases base
  | some qmdl =>
    rw [hq] at base
    simp only at base ⊢
    cases hQ : Bits.encQAtom qmdl (qAtom r o none) none with
    | error e => rw [hQ] at base; cases base
    | ok m =>
      rw [hQ] at base
      cases hA0 : Bits.encAtom r.mdl (mAtom r o (some 0) 0 0) with
      | error e => rw [hA0] at base; cases base
      | ok b0 =>
        rw [hA0] at base
        simp only [Option.some.injEq] at base
        obtain ⟨hs0, hf0, hb0⟩ := (encAtom_ok _ _ _).mp hA0
        have hs : Bits.atomShiftsOk r.mdl (mAtom r o h nb het) = true := hs0
        rw [fit_iff] at hf0
        have hv3 : (Bits.atomWords r.mdl (mAtom r o h nb het)).v3 =
            coreV3 r.mdl (mAtom r o h nb het) ||| (1 <<< (Bits.hOr h + sHOff)) ||| (1 <<< (nb + sNbOff)) ||| (1 <<< het) := rfl
        have hv30 : b0.v3 = coreV3 r.mdl (mAtom r o h nb het) ||| (1 <<< (Bits.hOr (some 0) + sHOff)) ||| (1 <<< (0 + sNbOff)) ||| (1 <<< 0) := by
          rw [hb0]; rfl
        have hcore_le : coreV3 r.mdl (mAtom r o h nb het) < Bits.two64 := by
          have : coreV3 r.mdl (mAtom r o h nb het) ≤ b0.v3 := by
            rw [hv30]
            exact Nat.le_trans (Nat.le_trans Nat.left_le_or Nat.left_le_or) Nat.left_le_or
          have h3 : b0.v3 < Bits.two64 := by rw [hb0]; exact hf0.2.2.1
          omega
        have hf : (Bits.atomWords r.mdl (mAtom r o h nb het)).fit = true := by
          rw [fit_iff]
          refine ⟨hf0.1, hf0.2.1, ?_, hf0.2.2.2⟩
          rw [hv3]
          exact Nat.or_lt_two_pow (Nat.or_lt_two_pow (Nat.or_lt_two_pow hcore_le hhfit) hnbfit) hhetfit
        have hA : Bits.encAtom r.mdl (mAtom r o h nb het) = .ok (Bits.atomWords r.mdl (mAtom r o h nb het)) :=
          (encAtom_ok _ _ _).mpr ⟨hs, hf, rfl⟩
        rw [hA]
        simp only [Option.some.injEq]
        have hm := encQAtom_ok _ _ _ _ hQ
        simp only [Bits.rootOk, Bool.and_eq_true, beq_iff_eq] at base ⊢
        obtain ⟨⟨⟨h1, h2⟩, h3⟩, h4⟩ := base
        subst hb0
        refine ⟨⟨⟨h1, h2⟩, ?_⟩, h4⟩
        have hm3 : m.v3 = qCoreV3 qmdl (qAtom r o none) ||| qHAll ||| qHetAll ||| qNbAll := by rw [hm]; rfl
        have h3' : subBits (Bits.atomWords r.mdl (mAtom r o (some 0) 0 0)).v3 m.v3 := h3
        rw [hv30, subBits_or, subBits_or, subBits_or] at h3'
        show subBits (Bits.atomWords r.mdl (mAtom r o h nb het)).v3 m.v3
        rw [hv3, subBits_or, subBits_or, subBits_or]
        refine ⟨⟨⟨h3'.1.1.1, ?_⟩, ?_⟩, ?_⟩
        · rw [hm3]; exact subBits_left _ _ _ (subBits_left _ _ _ (subBits_right _ _ _ hh))
        · rw [hm3]; exact subBits_right _ _ _ hnb
        · rw [hm3]; exact subBits_left _ _ _ (subBits_right _ _ _ hhet)

/-! ## the accelerated test for ANY pair of states of one element: reduction to the isotope/radical part and the charge bit -/

theorem subBits_bit (k M : Nat) : subBits (1 <<< k) M ↔ M.testBit k = true := by
  rw [subBits_iff, Nat.one_shiftLeft]
  constructor
  · intro h; exact h k (by simp)
  · intro h i hi
    simp [Nat.testBit_two_pow] at hi
    subst hi; exact h

theorem subBits_disjoint (x A B : Nat) (hd : x &&& B = 0) : subBits x (A ||| B) ↔ subBits x A := by
  rw [subBits_iff, subBits_iff]
  have hB : ∀ i, x.testBit i = true → B.testBit i = false := by
    intro i hi
    have := congrArg (·.testBit i) hd
    simp only [Nat.testBit_and, hi, Bool.true_and, Nat.zero_testBit] at this
    exact this
  constructor
  · intro h i hi
    have := h i hi
    rw [Nat.testBit_or, hB i hi, Bool.or_false] at this
    exact this
  · intro h i hi
    rw [Nat.testBit_or, h i hi]; rfl

def isoRadV3 (mdl : Nat) (iso : Option Nat) (rad : Bool) : Nat :=
  match Bits.isoTruthy iso with
  | some i => (1 <<< (i + sIsoOff - mdl)) ||| (if rad then sIsoRad else sIsoNoRad)
  | none => if rad then sNoIsoRad else sNoIsoNoRad

def qIsoRadV3 (qmdl : Nat) (iso : Option Nat) (rad : Bool) : Nat :=
  match Bits.isoTruthy iso with
  | some i =>
    (if decide (qmdl ≤ i + qIsoLo) && decide (i ≤ qmdl + qIsoHi) then 1 <<< (i + qIsoOff - qmdl) else qIsoNone)
      ||| (if rad then qIsoRad else qIsoNoRad)
  | none => if rad then qAnyIsoRad else qAnyIsoNoRad

def chargeBit (c : Int) : Nat := (c + sChargeOff).toNat
def qChargeBit (c : Int) : Nat := (c + qChargeOff).toNat
def qRest (qc : Int) : Nat := (1 <<< qChargeBit qc) ||| (qHAll ||| (qHetAll ||| qNbAll))

theorem coreV3_eq (r : ElemRow) (o : Obj) (h : Option Nat) (nb het : Nat) :
    coreV3 r.mdl (mAtom r o h nb het) = isoRadV3 r.mdl o.isotope o.radical ||| (1 <<< chargeBit o.charge) := rfl

theorem qV3_eq (r : ElemRow) (qmdl : Nat) (q : Obj) :
    (Bits.qWords qmdl (qAtom r q none) none).v3 = qIsoRadV3 qmdl q.isotope q.radical ||| qRest q.charge := by
  rw [qV3_split]
  show (qIsoRadV3 qmdl q.isotope q.radical ||| (1 <<< qChargeBit q.charge)) ||| qHAll ||| qHetAll ||| qNbAll = _
  simp only [qRest, Nat.or_assoc]


instance (x m : Nat) : Decidable (subBits x m) := by unfold subBits; infer_instance

/-- what "found at counts 0 by the own query" says about the encoders -/
theorem base_unpack (r : ElemRow) (o : Obj) (base : accelFound r o none o (some 0) 0 0 = some true) :
    ∃ qmdl, r.qmdl = some qmdl ∧
      Bits.encQAtom qmdl (qAtom r o none) none = .ok (Bits.qWords qmdl (qAtom r o none) none) ∧
      Bits.atomShiftsOk r.mdl (mAtom r o (some 0) 0 0) = true ∧ (Bits.atomWords r.mdl (mAtom r o (some 0) 0 0)).fit = true ∧
      Bits.rootOk ⟨(Bits.qWords qmdl (qAtom r o none) none).v1, (Bits.qWords qmdl (qAtom r o none) none).v2,
          (Bits.qWords qmdl (qAtom r o none) none).v3, (Bits.qWords qmdl (qAtom r o none) none).v4, 0, 0, 0, 0, 1⟩
        ⟨(Bits.atomWords r.mdl (mAtom r o (some 0) 0 0)).v1, (Bits.atomWords r.mdl (mAtom r o (some 0) 0 0)).v2,
          (Bits.atomWords r.mdl (mAtom r o (some 0) 0 0)).v3, (Bits.atomWords r.mdl (mAtom r o (some 0) 0 0)).v4, 0, 0, 1⟩ = true := by
  unfold accelFound at base
  cases hq : r.qmdl with
  | none => rw [hq] at base; cases base
  | some qmdl =>
    rw [hq] at base
    simp only at base
    cases hQ : Bits.encQAtom qmdl (qAtom r o none) none with
    | error e => rw [hQ] at base; cases base
    | ok m =>
      rw [hQ] at base
      cases hA0 : Bits.encAtom r.mdl (mAtom r o (some 0) 0 0) with
      | error e => rw [hA0] at base; cases base
      | ok b0 =>
        rw [hA0] at base
        simp only [Option.some.injEq] at base
        obtain ⟨hs0, hf0, hb0⟩ := (encAtom_ok _ _ _).mp hA0
        have hm := encQAtom_ok _ _ _ _ hQ
        subst hm; subst hb0
        exact ⟨qmdl, rfl, hQ, hs0, hf0, base⟩

theorem accel_struct (r : ElemRow) (q o : Obj) (h : Option Nat) (nb het : Nat)
    (hh : subBits (1 <<< (Bits.hOr h + sHOff)) qHAll) (hhfit : 1 <<< (Bits.hOr h + sHOff) < Bits.two64)
    (hnb : subBits (1 <<< (nb + sNbOff)) qNbAll) (hnbfit : 1 <<< (nb + sNbOff) < Bits.two64)
    (hhet : subBits (1 <<< het) qHetAll) (hhetfit : 1 <<< het < Bits.two64)
    (bq : accelFound r q none q (some 0) 0 0 = some true) (bo : accelFound r o none o (some 0) 0 0 = some true) :
    ∃ qmdl, r.qmdl = some qmdl ∧
      accelFound r q none o h nb het =
        some (decide (subBits (coreV3 r.mdl (mAtom r o h nb het)) (Bits.qWords qmdl (qAtom r q none) none).v3)) := by
  obtain ⟨qmdl, hq, hQq, _, _, _⟩ := base_unpack r q bq
  obtain ⟨qmdl', hq', _, hs0, hf0, hroot⟩ := base_unpack r o bo
  have : qmdl' = qmdl := by rw [hq] at hq'; injection hq' with h; exact h.symm
  subst this
  refine ⟨qmdl', hq, ?_⟩
  have hs : Bits.atomShiftsOk r.mdl (mAtom r o h nb het) = true := hs0
  rw [fit_iff] at hf0
  have hv3 : (Bits.atomWords r.mdl (mAtom r o h nb het)).v3 =
      coreV3 r.mdl (mAtom r o h nb het) ||| (1 <<< (Bits.hOr h + sHOff)) ||| (1 <<< (nb + sNbOff)) ||| (1 <<< het) := rfl
  have hv30 : (Bits.atomWords r.mdl (mAtom r o (some 0) 0 0)).v3 =
      coreV3 r.mdl (mAtom r o h nb het) ||| (1 <<< (Bits.hOr (some 0) + sHOff)) ||| (1 <<< (0 + sNbOff)) ||| (1 <<< 0) := rfl
  have hcore_lt : coreV3 r.mdl (mAtom r o h nb het) < Bits.two64 := by
    have : coreV3 r.mdl (mAtom r o h nb het) ≤ (Bits.atomWords r.mdl (mAtom r o (some 0) 0 0)).v3 := by
      rw [hv30]
      exact Nat.le_trans (Nat.le_trans Nat.left_le_or Nat.left_le_or) Nat.left_le_or
    have h3 := hf0.2.2.1
    omega
  have hf : (Bits.atomWords r.mdl (mAtom r o h nb het)).fit = true := by
    rw [fit_iff]
    refine ⟨hf0.1, hf0.2.1, ?_, hf0.2.2.2⟩
    rw [hv3]
    exact Nat.or_lt_two_pow (Nat.or_lt_two_pow (Nat.or_lt_two_pow hcore_lt hhfit) hnbfit) hhetfit
  have hA : Bits.encAtom r.mdl (mAtom r o h nb het) = .ok (Bits.atomWords r.mdl (mAtom r o h nb het)) :=
    (encAtom_ok _ _ _).mpr ⟨hs, hf, rfl⟩
  unfold accelFound
  rw [hq]
  simp only
  rw [hQq, hA]
  simp only [Option.some.injEq]
  simp only [Bits.rootOk, Bool.and_eq_true] at hroot
  obtain ⟨⟨⟨h1, h2⟩, _⟩, h4⟩ := hroot
  have t1 : ((Bits.qWords qmdl' (qAtom r q none) none).v1 &&& (Bits.atomWords r.mdl (mAtom r o h nb het)).v1 != 0) = true := h1
  have t2 : ((Bits.qWords qmdl' (qAtom r q none) none).v2 &&& (Bits.atomWords r.mdl (mAtom r o h nb het)).v2
      == (Bits.atomWords r.mdl (mAtom r o h nb het)).v2) = true := h2
  have t4 : ((Bits.qWords qmdl' (qAtom r q none) none).v4 &&& (Bits.atomWords r.mdl (mAtom r o h nb het)).v4 != 0) = true := h4
  simp only [Bits.rootOk, t1, t2, t4, Bool.true_and, Bool.and_true]
  rw [Bool.eq_iff_iff]
  simp only [beq_iff_eq, decide_eq_true_eq]
  show subBits (Bits.atomWords r.mdl (mAtom r o h nb het)).v3 (Bits.qWords qmdl' (qAtom r q none) none).v3 ↔ _
  have hm3 := qV3_split r qmdl' q
  rw [hv3, subBits_or, subBits_or, subBits_or]
  constructor
  · intro hx; exact hx.1.1.1
  · intro hc
    refine ⟨⟨⟨hc, ?_⟩, ?_⟩, ?_⟩
    · rw [hm3]; exact subBits_left _ _ _ (subBits_left _ _ _ (subBits_right _ _ _ hh))
    · rw [hm3]; exact subBits_right _ _ _ hnb
    · rw [hm3]; exact subBits_left _ _ _ (subBits_right _ _ _ hhet)

/-- the isotope clause of the documented rule -/
def isoSel (j i : Option Nat) : Bool := match j with | none => true | some k => i == some k

theorem core_sub_iff (mdl qmdl : Nat) (i j : Option Nat) (ro rq : Bool) (c qc : Int)
    (d1 : isoRadV3 mdl i ro &&& qRest qc = 0)
    (d2 : (qIsoRadV3 qmdl j rq).testBit (chargeBit c) = false)
    (d3 : (qRest qc).testBit (chargeBit c) = (qc == c))
    (d4 : decide (subBits (isoRadV3 mdl i ro) (qIsoRadV3 qmdl j rq)) = (isoSel j i && rq == ro)) :
    decide (subBits (isoRadV3 mdl i ro ||| (1 <<< chargeBit c)) (qIsoRadV3 qmdl j rq ||| qRest qc))
      = (isoSel j i && qc == c && rq == ro) := by
  have d4' : subBits (isoRadV3 mdl i ro) (qIsoRadV3 qmdl j rq) ↔ (isoSel j i = true ∧ (rq == ro) = true) := by
    rw [← Bool.and_eq_true, ← d4, decide_eq_true_eq]
  rw [Bool.eq_iff_iff]
  simp only [decide_eq_true_eq, Bool.and_eq_true]
  rw [subBits_or, subBits_disjoint _ _ _ d1, subBits_bit, Nat.testBit_or, d2, d3, d4', Bool.false_or]
  constructor
  · rintro ⟨⟨a, b⟩, c⟩; exact ⟨⟨a, c⟩, b⟩
  · rintro ⟨⟨a, c⟩, b⟩; exact ⟨⟨a, b⟩, c⟩

theorem selects_eq (q o : Obj) (h : Option Nat) :
    selects q none o h = (isoSel q.isotope o.isotope && q.charge == o.charge && q.radical == o.radical) := by
  obtain ⟨qi, qc, qr⟩ := q
  cases qi <;> simp [selects, isoSel]

end ChythonModel.Proofs.C18
