import ChythonModel.Model.C18Atom
/-!
Helper lemma for the matcher part of C18: the reference matcher (`QueryElement.__eq__`, C08's `pyEq`) at a one-atom state is the
documented selection rule — for every element row, every pair of states, every hydrogen / neighbour / heteroatom count.
-/
namespace ChythonModel.Proofs.C18
open ChythonModel.Gen ChythonModel.Model.C18 ChythonModel.Model

theorem pyFound_eq_selects (r : ElemRow) (q : Obj) (qh : Option Nat) (o : Obj) (h : Option Nat) (nb het : Nat)
    (hq : q.isotope ≠ some 0) : pyFound r q qh o h nb het = selects q qh o h := by
  obtain ⟨qi, qc, qr⟩ := q
  obtain ⟨oi, oc, orad⟩ := o
  simp only [pyFound, Query.pyEq, qAtom, mAtom, Query.extendedTail, Query.tupleRejects, Query.ringRejects, Query.hRejects,
    Query.isoRejects, selects]
  have fin1 : ∀ a b : Nat, decide (a = b) = (a == b) := fun a b => by rw [Bool.eq_iff_iff]; simp
  have fin2 : ∀ (i : Nat) (x : Option Nat), decide (some i = x) = (x == some i) := fun i x => by
    rw [Bool.eq_iff_iff]; simp only [decide_eq_true_eq, beq_iff_eq]; exact eq_comm
  cases qi with
  | none => cases qh <;> cases h <;> simp <;> (try (by_cases h1 : qc = oc <;> by_cases h2 : qr = orad <;> simp_all))
  | some i =>
    have : i ≠ 0 := fun h0 => hq (by rw [h0])
    cases qh <;> cases h <;> simp [this] <;> (try (by_cases h1 : qc = oc <;> by_cases h2 : qr = orad <;> simp_all))

/-- a state is selected by the query atom that describes it -/
theorem selects_self (o : Obj) (h : Option Nat) : selects o none o h = true := by
  obtain ⟨oi, oc, orad⟩ := o
  cases oi <;> simp [selects]

end ChythonModel.Proofs.C18
