import ChythonModel.Proofs.C09Rep
namespace ChythonModel.Proofs.C09
open ChythonModel.Model.Bits ChythonModel.Gen.Bits ChythonModel.Model.Query ChythonModel.Model

theorem filter_map_comm {α β} (f : α → β) (p : β → Bool) (l : List α) : (l.map f).filter p = (l.filter (p ∘ f)).map f := by
  induction l with
  | nil => rfl
  | cons a l ih => simp only [List.map_cons, List.filter_cons, Function.comp]; split <;> simp [ih]

theorem contains_map_inj (f : Nat → Nat) (N : Nat) (hinj : ∀ a b, a < N → b < N → f a = f b → a = b) (l : List Nat)
    (hl : ∀ x ∈ l, x < N) (y : Nat) (hy : y < N) : (l.map f).contains (f y) = l.contains y := by
  rw [Bool.eq_iff_iff, List.contains_iff_mem, List.contains_iff_mem, List.mem_map]
  constructor
  · rintro ⟨x, hx, he⟩; rw [← hinj x y (hl x hx) hy he]; exact hx
  · intro h; exact ⟨y, h, rfl⟩

theorem setEq_map_inj (f : Nat → Nat) (N : Nat) (hinj : ∀ a b, a < N → b < N → f a = f b → a = b) (A B : List Nat)
    (hA : ∀ x ∈ A, x < N) (hB : ∀ x ∈ B, x < N) : Iso.setEq (A.map f) (B.map f) = Iso.setEq A B := by
  unfold Iso.setEq
  congr 1
  · rw [List.all_map]; apply all_congr_mem; intro x hx
    exact contains_map_inj f N hinj B hB x (hA x hx)
  · rw [List.all_map]; apply all_congr_mem; intro x hx
    exact contains_map_inj f N hinj A hA x (hB x hx)

theorem hitsOf_eq (nb : List CBond) (path : List Nat) (n : Nat) :
    hitsOf nb (nb.map fun ib => path.contains ib.index) n = nb.filter (fun jb => jb.index != n && path.contains jb.index) := by
  unfold hitsOf
  induction nb with
  | nil => rfl
  | cons a nb ih =>
    simp only [List.map_cons, List.zip_cons_cons, List.filter_cons]
    by_cases hc : (a.index != n && path.contains a.index) = true
    · simp only [hc, if_true, List.map_cons, ih]
    · simp only [hc, Bool.false_eq_true, if_false, ih]

theorem flags_of_ind (N : Nat) (path : List Nat) (nb : List CBond) (h : ∀ ib ∈ nb, ib.index < N) :
    nb.mapM (fun jb => (ind N path)[jb.index]?) = some (nb.map fun ib => path.contains ib.index) := by
  induction nb with
  | nil => rfl
  | cons a nb ih =>
    rw [List.mapM_cons, ind_get _ _ _ (h a (by simp)), ih (fun x hx => h x (by simp [hx]))]
    rfl


theorem mapM_of_get {α β} (f : α → Option β) : ∀ (l : List α) (r : List β), r.length = l.length →
    (∀ (t : Nat) (x : α) (y : β), l[t]? = some x → r[t]? = some y → f x = some y) → l.mapM f = some r := by
  intro l
  induction l with
  | nil => intro r hl _; cases r with | nil => rfl | cons _ _ => simp at hl
  | cons a l ih =>
    intro r hl h
    cases r with
    | nil => simp at hl
    | cons b r =>
      rw [List.mapM_cons, h 0 a b (by simp) (by simp), ih r (by simpa using hl) (fun t x y hx hy => h (t + 1) x y (by simpa using hx) (by simpa using hy))]
      rfl

theorem all_zip_pointwise {α β γ δ} (l1 : List α) (l2 : List β) (r1 : List γ) (r2 : List δ) (p : α × β → Bool) (p' : γ × δ → Bool)
    (h1 : l1.length = r1.length) (h2 : l2.length = r2.length)
    (h : ∀ (t : Nat) (a : α) (b : β) (c : γ) (d : δ), l1[t]? = some a → l2[t]? = some b → r1[t]? = some c → r2[t]? = some d →
      p (a, b) = p' (c, d)) : (l1.zip l2).all p = (r1.zip r2).all p' := by
  induction l1 generalizing l2 r1 r2 with
  | nil => cases r1 with | nil => simp | cons _ _ => simp at h1
  | cons a l1 ih =>
    cases r1 with
    | nil => simp at h1
    | cons c r1 =>
      cases l2 with
      | nil => cases r2 with | nil => simp | cons _ _ => simp at h2
      | cons b l2 =>
        cases r2 with
        | nil => simp at h2
        | cons d r2 =>
          simp only [List.zip_cons_cons, List.all_cons]
          rw [h 0 a b c d (by simp) (by simp) (by simp) (by simp),
            ih l2 r1 r2 (by simpa using h1) (by simpa using h2)
              (fun t a' b' c' d' ha hb hc hd => h (t + 1) a' b' c' d' (by simpa using ha) (by simpa using hb) (by simpa using hc) (by simpa using hd))]


theorem bondOkPy_eq (q : LQuery) (m : LMol) (u v x y : Nat) (qb : QBond) (b : MBond) (h1 : q.bond? u v = some qb)
    (h2 : m.bond? x y = some b) : bondOkPy q m u v x y = bondEq qb b := by
  simp only [bondOkPy, h1, h2]

/-- images of the closure partners of step `j + 1`, renumbered: what `mapping[m] for m, _ in query_closures[s_n]` evaluates to -/
def wantOf (m : LMol) (qb : List CBond) (path' : List Nat) : List Nat :=
  (qb.map fun jb => path'.getD jb.index 0).map (numOf m)

/-- the closure block, index level (reference test on decoded bonds) vs number level (C07's closure part of `childPred`) -/
theorem closure_transport (q : LQuery) (m : LMol) (lq : List Iso.Step) (cl : Iso.Closures) (cm : CMol) (cq : CQuery)
    (hm : MolOK m) (hme : encStructure m = .ok cm)
    (j : Nat) (s : Iso.Step) (qa : CQAtom) (qb : List CBond)
    (hqb : slice? cq.bonds qa.from_ qa.to_ = some qb) (hqlen : qb.length = (Iso.Closures.get cl s.front).length)
    (hqrow : ∀ (t : Nat) (jb : CBond), qb[t]? = some jb →
      ∃ mq, (Iso.Closures.get cl s.front)[t]? = some mq ∧ Iso.orderDepth lq mq = some jb.index ∧ jb.index < j + 1 ∧
        q.bond? s.front mq = some ((decodeOf q m lq).qcb (j + 1) jb.index))
    (path' : List Nat) (hlt : ∀ x ∈ path', x < m.atoms.length) (hlen : path'.length = j + 1) :
    (Iso.Closures.get cl s.front).mapM (Iso.img lq (path'.map (numOf m))) = some (wantOf m qb path') ∧
    ∀ (mi n' : Nat) (mAtom : CAtom) (nb : List CBond), mi < m.atoms.length → n' < m.atoms.length → cm.atoms[mi]? = some mAtom →
      slice? cm.bonds mAtom.from_ mAtom.to_ = some nb →
      closureR (decodeOf q m lq) cm cq (j + 1) qa mi mAtom n' (ind cm.atoms.length path') path' =
        some (Iso.setEq (((m.graph.nbrs (numOf m mi)).filter fun y => (path'.map (numOf m)).contains y).filter (· != numOf m n'))
            (wantOf m qb path') &&
          ((Iso.Closures.get cl s.front).zip (wantOf m qb path')).all fun (mq, y) => bondOkPy q m s.front mq (numOf m mi) y) := by
  obtain ⟨hlenN, _⟩ := encStructure_layout m cm hme hm.keys hm.nodup
  have hinj : ∀ a b, a < m.atoms.length → b < m.atoms.length → numOf m a = numOf m b → a = b :=
    fun a b ha hb h => numOf_inj m hm.nodup a b ha hb h
  -- images
  have himg : qb.mapM (fun jb => path'[jb.index]?) = some (qb.map fun jb => path'.getD jb.index 0) := by
    apply mapM_of_get _ _ _ (by simp)
    intro t x y hx hy
    obtain ⟨_, _, _, hlt', _⟩ := hqrow t x hx
    simp only [List.getElem?_map, hx, Option.map_some, Option.some.injEq] at hy
    subst hy
    have : x.index < path'.length := by omega
    simp [List.getD, List.getElem?_eq_getElem this]
  let images := qb.map fun jb => path'.getD jb.index 0
  have himlt : ∀ x ∈ images, x < m.atoms.length := by
    intro x hx
    obtain ⟨jb, hjb, rfl⟩ := List.mem_map.mp hx
    obtain ⟨t, ht, rfl⟩ := List.mem_iff_getElem.mp hjb
    obtain ⟨_, _, _, hlt', _⟩ := hqrow t qb[t] (List.getElem?_eq_getElem ht)
    have : (qb[t]).index < path'.length := by omega
    simp only [List.getD, List.getElem?_eq_getElem this, Option.getD_some]
    exact hlt _ (List.getElem_mem _)
  refine ⟨?_, ?_⟩
  · -- the images looked up through the dict are the images of the path, renumbered
    rw [show wantOf m qb path' = images.map (numOf m) from rfl]
    apply mapM_of_get _ _ _ (by simp [images, hqlen])
    intro t mq y hmq hy
    have ht : t < qb.length := by rw [hqlen]; exact (List.getElem?_eq_some_iff.mp hmq).1
    obtain ⟨mq', e1, e2, e3, _⟩ := hqrow t qb[t] (List.getElem?_eq_getElem ht)
    rw [hmq] at e1; obtain rfl := Option.some.inj e1
    have hy' : y = numOf m (path'.getD (qb[t]).index 0) := by
      simp only [images, List.map_map, List.getElem?_map, List.getElem?_eq_getElem ht, Option.map_some, Function.comp,
        Option.some.injEq] at hy
      exact hy.symm
    have hpl : (qb[t]).index < path'.length := by omega
    unfold Iso.img
    simp only [e2, Option.bind_eq_bind, Option.bind_some, List.getElem?_map, List.getElem?_eq_getElem hpl, Option.map_some]
    rw [hy']; simp [List.getD, List.getElem?_eq_getElem hpl]
  · intro mi n' mAtom nb hmi hn' hma hnb
    rw [show wantOf m qb path' = images.map (numOf m) from rfl]
    obtain ⟨hnbrs, hnblt⟩ := mol_nbrs m cm hm hme mi mAtom nb hma hnb
    have hcl : closureR (decodeOf q m lq) cm cq (j + 1) qa mi mAtom n' (ind cm.atoms.length path') path' =
        some (refClosure (decodeOf q m lq) (j + 1) mi (hitsOf nb (nb.map fun ib => path'.contains ib.index) n') qb images) := by
      unfold closureR
      rw [hnb]; simp only
      rw [hlenN, flags_of_ind m.atoms.length path' nb hnblt]; simp only
      rw [hqb]; simp only
      rw [himg]
    rw [hcl]
    congr 1
    unfold refClosure
    rw [hitsOf_eq]
    -- the matched neighbours other than the parent, on both levels
    have hhave : ((m.graph.nbrs (numOf m mi)).filter fun y => (path'.map (numOf m)).contains y).filter (· != numOf m n') =
        ((nb.filter fun jb => jb.index != n' && path'.contains jb.index).map (·.index)).map (numOf m) := by
      rw [hnbrs, List.filter_filter]
      have : (nb.map fun ib => numOf m ib.index) = (nb.map (·.index)).map (numOf m) := by rw [List.map_map]; rfl
      rw [this, filter_map_comm, List.map_map, filter_map_comm, List.map_map]
      congr 1
      apply List.filter_congr
      intro jb hjb
      have hjl := hnblt jb hjb
      simp only [Function.comp]
      rw [contains_map_inj (numOf m) m.atoms.length hinj path' hlt jb.index hjl]
      have : (numOf m jb.index != numOf m n') = (jb.index != n') := by
        by_cases h : jb.index = n'
        · simp [h]
        · have h2 : numOf m jb.index ≠ numOf m n' := fun e => h (hinj _ _ hjl hn' e)
          have e1 : (numOf m jb.index != numOf m n') = true := by simp [bne, h2]
          have e2 : (jb.index != n') = true := by simp [bne, h]
          rw [e1, e2]
      rw [this, Bool.and_comm]
    rw [hhave]
    have hhl : ∀ x ∈ (nb.filter fun jb => jb.index != n' && path'.contains jb.index).map (·.index), x < m.atoms.length := by
      intro x hx
      obtain ⟨jb, hjb, rfl⟩ := List.mem_map.mp hx
      exact hnblt jb (List.mem_filter.mp hjb).1
    rw [setEq_map_inj (numOf m) m.atoms.length hinj _ images hhl himlt]
    cases hse : Iso.setEq ((nb.filter fun jb => jb.index != n' && path'.contains jb.index).map (·.index)) images
    · rfl
    · simp only [Bool.true_and]
      symm
      apply all_zip_pointwise _ _ _ _ _ _ hqlen.symm (by simp [images, hqlen])
      intro t mq y jb x hmq hy hjb hx
      obtain ⟨mq', e1, _, _, e4⟩ := hqrow t jb hjb
      rw [hmq] at e1; obtain rfl := Option.some.inj e1
      have hy' : y = numOf m x := by
        rw [List.getElem?_map, hx] at hy; simpa using hy.symm
      subst hy'
      -- `x` is a matched neighbour (set equality), so the molecule bond exists
      rw [Iso.setEq, Bool.and_eq_true, List.all_eq_true, List.all_eq_true] at hse
      have hxin := List.contains_iff_mem.mp (hse.2 x (List.mem_of_getElem? hx))
      obtain ⟨ib, hib, rfl⟩ := List.mem_map.mp hxin
      have hib' : ib ∈ nb := (List.mem_filter.mp hib).1
      simp only
      rw [bondOkPy_eq q m _ _ _ _ _ _ e4 (mol_bond q m lq cm hm hme mi mAtom nb hma hnb ib hib')]

end ChythonModel.Proofs.C09
