import ChythonModel.Proofs.C17Fuel
/-! C17: `_chains` returns exactly the canonical forms of the simple paths in the length window. -/
namespace ChythonModel.Proofs.C17
open ChythonModel.Model ChythonModel.Model.Fingerprint ChythonModel.Spec.Fingerprint

theorem grow_from_single_iff (m : Mol) (hcl : Closed m) (p : Path) :
    (∃ now ∈ m.ids.map (fun x => [x]), Grow m now p) ↔ SimplePath m p ∧ 2 ≤ p.length := by
  constructor
  · rintro ⟨now, hn, hg⟩
    obtain ⟨a, ha, rfl⟩ := List.mem_map.mp hn
    exact ⟨hg.simple hcl (simplePath_single m a ha), by have := hg.length_lt; simp at this; omega⟩
  · rintro ⟨hs, hl⟩
    match p, hs, hl with
    | a :: s, hs, hl =>
      refine ⟨[a], List.mem_map.mpr ⟨a, hs.atoms a (by simp), rfl⟩, ?_⟩
      have hne : s ≠ [] := by intro e; subst e; simp at hl
      exact grow_complete m s [a] (by simp) hne hs.nodup hs.walk

theorem mem_singles_iff (m : Mol) (x : Path) :
    x ∈ m.ids.map (fun a => [a]) ↔ ∃ p, SimplePath m p ∧ p.length = 1 ∧ x = canon p := by
  constructor
  · intro h
    obtain ⟨a, ha, rfl⟩ := List.mem_map.mp h
    exact ⟨[a], simplePath_single m a ha, rfl, (canon_single a).symm⟩
  · rintro ⟨p, hs, hl, rfl⟩
    match p, hs, hl with
    | [a], hs, _ =>
      rw [canon_single]
      exact List.mem_map.mpr ⟨a, hs.atoms a (by simp), rfl⟩

theorem chainsP_exact_aux (m : Mol) (hcl : Closed m) (lo hi : Int) (h1 : 1 ≤ lo) (h2 : lo ≤ hi) (r : List Path)
    (h : chainsP m lo hi = .ok r) (x : Path) :
    x ∈ r ↔ ∃ p, SimplePath m p ∧ lo ≤ (p.length : Int) ∧ (p.length : Int) ≤ hi ∧ x = canon p := by
  unfold chainsP at h
  simp only [] at h
  split at h
  · rename_i hlo
    subst hlo
    split at h
    · rename_i hhi
      subst hhi
      simp only [pure, Except.pure] at h
      cases h
      rw [mem_singles_iff]
      constructor
      · rintro ⟨p, hs, hl, rfl⟩; exact ⟨p, hs, by omega, by omega, rfl⟩
      · rintro ⟨p, hs, hl1, hl2, rfl⟩; exact ⟨p, hs, by omega, rfl⟩
    · rename_i hhi
      have hq : ∀ now ∈ m.ids.map (fun x => [x]), (now.length : Int) < hi := by
        intro now hn
        obtain ⟨a, _, rfl⟩ := List.mem_map.mp hn
        simp; omega
      rw [chainsLoop_spec m 1 hi _ _ _ r hq h x, mem_singles_iff]
      constructor
      · rintro (⟨p, hs, hl, rfl⟩ | ⟨now, hn, p, hg, hl1, hl2, rfl⟩)
        · exact ⟨p, hs, by omega, by omega, rfl⟩
        · exact ⟨p, ((grow_from_single_iff m hcl p).mp ⟨now, hn, hg⟩).1, hl1, hl2, rfl⟩
      · rintro ⟨p, hs, hl1, hl2, rfl⟩
        by_cases hone : p.length = 1
        · exact Or.inl ⟨p, hs, hone, rfl⟩
        · obtain ⟨now, hn, hg⟩ := (grow_from_single_iff m hcl p).mpr ⟨hs, by omega⟩
          exact Or.inr ⟨now, hn, p, hg, hl1, hl2, rfl⟩
  · rename_i hlo
    have hq : ∀ now ∈ m.ids.map (fun x => [x]), (now.length : Int) < hi := by
      intro now hn
      obtain ⟨a, _, rfl⟩ := List.mem_map.mp hn
      simp; omega
    rw [chainsLoop_spec m lo hi _ _ _ r hq h x]
    constructor
    · rintro (h0 | ⟨now, hn, p, hg, hl1, hl2, rfl⟩)
      · simp at h0
      · exact ⟨p, ((grow_from_single_iff m hcl p).mp ⟨now, hn, hg⟩).1, hl1, hl2, rfl⟩
    · rintro ⟨p, hs, hl1, hl2, rfl⟩
      obtain ⟨now, hn, hg⟩ := (grow_from_single_iff m hcl p).mpr ⟨hs, by omega⟩
      exact Or.inr ⟨now, hn, p, hg, hl1, hl2, rfl⟩

theorem nodup_map_single : ∀ (l : List Nat), l.Nodup → (l.map fun x => [x]).Nodup
  | [], _ => by simp
  | a :: l, h => by
    rw [List.nodup_cons] at h
    simp only [List.map_cons, List.nodup_cons]
    refine ⟨?_, nodup_map_single l h.2⟩
    intro hm
    obtain ⟨b, hb, e⟩ := List.mem_map.mp hm
    have : b = a := by simpa using e
    subst this; exact h.1 hb

theorem chainsP_nodup_aux (m : Mol) (hid : m.ids.Nodup) (lo hi : Int) (r : List Path) (h : chainsP m lo hi = .ok r) :
    r.Nodup := by
  have hs : (m.ids.map fun x => [x]).Nodup := nodup_map_single _ hid
  unfold chainsP at h
  simp only [] at h
  split at h
  · split at h
    · simp only [pure, Except.pure] at h; cases h; exact hs
    · exact chainsLoop_nodup m _ _ _ _ _ r hs h
  · exact chainsLoop_nodup m _ _ _ _ _ r (by simp) h

end ChythonModel.Proofs.C17
