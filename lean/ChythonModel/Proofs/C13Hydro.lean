import ChythonModel.Proofs.C13LabelsStep
/-!
# C13 — stored hydrogen counts: the hydrogen-relevant projection of the interpreter and the transaction exit

`HS` is the part of a configuration the hydrogen bookkeeping reads and writes (graph, stored environments, pending set,
graph + environments of the snapshot).  `interpH` is `interp` on that projection (`interp_proj`, all tables); events that
only touch the cache / labels are the identity there, so for today's table each method reduces to a list of at most
seven events (`*_hrel`, kernel evaluation).
-/
namespace ChythonModel.Proofs.C13
open ChythonModel.Model ChythonModel.Model.C13 ChythonModel.Gen.CacheEffects ChythonModel.Spec.Deps

abbrev HEnv := List (Nat × Env)

structure HS where
  mol : Mol
  hs : HEnv
  changed : Option (Option (List Nat))
  bk : Option (Option (Mol × HEnv))
  edited : Bool

def bkH : Option (Option Core) → Option (Option (Mol × HEnv))
  | none => none
  | some none => some none
  | some (some b) => some (some (b.mol, b.hs))

def proj (c : Cfg) : HS := ⟨c.o.mol, c.o.hs, c.o.changed, bkH c.o.backup, c.edited⟩

/-- stored environments after the raw edit (`applyEdit`) -/
def editHs (cx : Ctx) (m' : Mol) (hs : HEnv) : HEnv :=
  let hs1 := match cx.editMap with
    | some mp => remapKeys mp hs
    | none => hs
  let hs2 := match cx.editExtra with
    | some ex => hs1 ++ ex.hs
    | none => hs1
  hs2.filter fun p => m'.ids.contains p.1

def hcalcTargets (s : HS) : List Nat :=
  match s.changed with
  | some (some (x :: xs)) => x :: xs
  | _ => s.mol.ids

def hcalcHs (s : HS) : HEnv :=
  ((hcalcTargets s).filter s.mol.hasAtom).foldl (fun hs n => setHs hs n (envOf s.mol n)) s.hs

def attrDiff (bm m : Mol) : List Nat :=
  (m.atoms.filter fun p => match bm.atom? p.1 with
    | some a => a.charge != p.2.charge || a.radical != p.2.radical
    | none => false).map (·.1)

/-- one event on the projection (total: where `stepEv` raises, any value will do) -/
def stepH (cx : Ctx) (opt : Bool) (s : HS) : Ev → HS
  | .edit =>
      if s.edited then s else
      match cx.editMol with
      | none => { s with edited := true }
      | some m' => { s with mol := m', hs := editHs cx m' s.hs, edited := true }
  | .changedAdd =>
      if opt && cx.touched.isEmpty then s else
      match s.changed with
      | none => s
      | some none => { s with changed := some (some (unionNat [] cx.touched)) }
      | some (some l) => { s with changed := some (some (unionNat l cx.touched)) }
  | .changedDiscard =>
      match s.changed with
      | some (some l) => { s with changed := some (some (l.filter fun x => !cx.removed.contains x)) }
      | _ => s
  | .changedAttr =>
      match s.changed, s.bk with
      | some (some l), some (some b) => { s with changed := some (some (unionNat l (attrDiff b.1 s.mol))) }
      | _, _ => s
  | .changedNone => { s with changed := some none }
  | .backupCopy _ _ => { s with bk := some (some (s.mol, s.hs)) }
  | .backupNone => { s with bk := some none }
  | .restore slots =>
      match s.bk with
      | some (some b) =>
          { s with mol := ⟨if slots.contains "_atoms" then b.1.atoms else s.mol.atoms, if slots.contains "_bonds" then b.1.adj else s.mol.adj⟩
                   hs := if slots.contains "_atoms" then b.2 else s.hs }
      | _ => s
  | .hcalc =>
      match s.changed with
      | none => s
      | some _ => { s with hs := hcalcHs s }
  | _ => s

def guardsH (cx : Ctx) (bk : Option (Option (Mol × HEnv))) : List Guard → Option Bool
  | [] => some false
  | g :: gs =>
    match g with
    | .ifCalc =>
        if cx.skip then none else
        match bk with
        | some none => guardsH cx bk gs
        | _ => none
    | .ifParam _ _ => none
    | .notSpecial => if cx.special then none else guardsH cx bk gs
    | .isSpecial => if cx.special then guardsH cx bk gs else none
    | .inLoop | .cond => (guardsH cx bk gs).map fun _ => true

def interpH (cx : Ctx) : List GEv → HS → HS
  | [], s => s
  | ge :: rest, s =>
    match guardsH cx s.bk ge.gs with
    | none => interpH cx rest s
    | some opt => interpH cx rest (stepH cx opt s ge.e)

theorem guards_proj {cx : Ctx} {o : Obj} {gs : List Guard} {r : Option Bool} (h : decideGuards cx o gs = .ok r) :
    guardsH cx (bkH o.backup) gs = r := by
  induction gs generalizing r with
  | nil => simp [decideGuards] at h; simp [guardsH, h]
  | cons g rest ih =>
    cases g with
    | ifCalc =>
      simp only [decideGuards] at h
      simp only [guardsH]
      split at h
      · cases h; simp [*]
      · rename_i hs
        simp only [hs, if_false, Bool.false_eq_true]
        cases hb : o.backup with
        | none => simp [hb] at h
        | some b =>
          cases b with
          | none =>
            simp only [hb] at h
            have := ih h
            simp only [hb, bkH] at this ⊢
            exact this
          | some bk => simp only [hb] at h; cases h; simp [bkH]
    | ifParam p n => simp [decideGuards] at h
    | notSpecial =>
      simp only [decideGuards] at h
      simp only [guardsH]
      split at h
      · cases h; simp [*]
      · rename_i hs; simp only [hs, if_false, Bool.false_eq_true]; exact ih h
    | isSpecial =>
      simp only [decideGuards] at h
      simp only [guardsH]
      split at h
      · rename_i hs; simp only [hs, if_true]; exact ih h
      · cases h; simp [*]
    | inLoop =>
      simp only [decideGuards] at h
      simp only [guardsH]
      cases hd : decideGuards cx o rest with
      | error e => simp [hd, Except.map] at h
      | ok r' =>
        simp only [hd, Except.map, Except.ok.injEq] at h
        rw [ih hd, ← h]
    | cond =>
      simp only [decideGuards] at h
      simp only [guardsH]
      cases hd : decideGuards cx o rest with
      | error e => simp [hd, Except.map] at h
      | ok r' =>
        simp only [hd, Except.map, Except.ok.injEq] at h
        rw [ih hd, ← h]

theorem applyEdit_proj (cx : Ctx) (c : Cfg) : proj (applyEdit cx c) = stepH cx false (proj c) .edit := by
  unfold applyEdit
  simp only [stepH, proj]
  split
  · rename_i h; simp [h]
  · rename_i h
    simp only [h, if_false, Bool.false_eq_true]
    split
    · rename_i hm; simp [hm]
    · rename_i m' hm
      simp only [hm, editHs]
      cases cx.editMap <;> cases cx.editExtra <;> rfl

theorem readKey_proj (T : Tables) (o : Obj) (k : String) (obs : List String) (opt : Bool) :
    (readKey T o k obs opt).mol = o.mol ∧ (readKey T o k obs opt).hs = o.hs ∧ (readKey T o k obs opt).changed = o.changed ∧
      (readKey T o k obs opt).backup = o.backup := by
  unfold readKey; split <;> exact ⟨rfl, rfl, rfl, rfl⟩

/-- one event: the projection of the result of `stepEv` is `stepH` of the projection -/
theorem stepEv_proj {T : Tables} {cx : Ctx} {opt : Bool} {c c' : Cfg} {e : Ev} (h : stepEv T cx opt c e = .ok c') :
    proj c' = stepH cx opt (proj c) e := by
  cases e with
  | edit =>
    simp only [stepEv, Res.ok.injEq] at h
    subst h
    rw [applyEdit_proj]; simp [stepH]
  | call f a => simp [stepEv] at h
  | flushAll => simp only [stepEv, Res.ok.injEq] at h; subst h; rfl
  | flush a b =>
    simp only [stepEv] at h
    cases ha : flagBool a <;> cases hb : flagBool b <;> simp only [ha, hb] at h <;> try cases h
    cases opt <;> simp at h
    subst h; rfl
  | pop k =>
    simp only [stepEv] at h
    split at h <;> (simp only [Res.ok.injEq] at h; subst h; rfl)
  | dictSet k =>
    simp only [stepEv, Res.ok.injEq] at h; subst h
    obtain ⟨h1, h2, h3, h4⟩ := readKey_proj T c.o k cx.obs opt
    simp [proj, stepH, h1, h2, h3, h4]
  | readC k =>
    simp only [stepEv, Res.ok.injEq] at h; subst h
    obtain ⟨h1, h2, h3, h4⟩ := readKey_proj T c.o k cx.obs opt
    simp [proj, stepH, h1, h2, h3, h4]
  | changedAdd =>
    simp only [stepEv] at h
    simp only [stepH, proj]
    split at h
    · rename_i hc; simp only [Res.ok.injEq] at h; subst h; simp [hc]
    · rename_i hc
      simp only [hc, if_false, Bool.false_eq_true]
      split at h
      · cases h
      · rename_i hch; simp only [Res.ok.injEq] at h; subst h; simp [hch]
      · rename_i s hch; simp only [Res.ok.injEq] at h; subst h; simp [hch]
  | changedDiscard =>
    simp only [stepEv] at h
    simp only [stepH, proj]
    split at h
    · cases h
    · rename_i hch; simp only [Res.ok.injEq] at h; subst h; simp [hch]
    · rename_i s hch; simp only [Res.ok.injEq] at h; subst h; simp [hch]
  | changedAttr =>
    simp only [stepEv] at h
    simp only [stepH, proj]
    split at h
    · cases h
    · rename_i hch; simp only [Res.ok.injEq] at h; subst h; simp [hch]
    · rename_i s hch
      split at h
      · rename_i bk hb
        simp only [Res.ok.injEq] at h; subst h
        simp only [hch, hb, bkH, attrDiff]
        rfl
      · cases h
  | changedNone => simp only [stepEv, Res.ok.injEq] at h; subst h; rfl
  | changedRead =>
    simp only [stepEv] at h
    split at h
    · cases h
    · simp only [Res.ok.injEq] at h; subst h; rfl
  | backupRead =>
    simp only [stepEv] at h
    split at h
    · simp only [Res.ok.injEq] at h; subst h; rfl
    · cases h
  | backupCopy a b =>
    simp only [stepEv] at h
    cases ha : flagBool a <;> cases hb : flagBool b <;> simp only [ha, hb] at h <;> try cases h
    rename_i kS kC
    obtain ⟨hm, hh, _, _⟩ := copyCore_fields T c.o.toCore c.vecs kS kC
    simp only [proj, stepH, bkH, hm, hh]
  | backupNone => simp only [stepEv, Res.ok.injEq] at h; subst h; rfl
  | restore slots =>
    simp only [stepEv] at h
    split at h
    · rename_i bk hb
      simp only [Res.ok.injEq] at h; subst h
      simp [proj, stepH, hb, bkH]
    · cases h
  | hcalc =>
    simp only [stepH, proj]
    cases hch : c.o.changed with
    | none => simp [stepEv, hch] at h
    | some ch =>
      have fin : ∀ (b : Bool) (ca cb c1 : Cfg), (if b = true then Res.ok ca else Res.err cb Err.key) = Res.ok c1 → c1 = ca := by
        intro b ca cb c1 hc
        cases b <;> simp at hc
        exact hc.symm
      cases ch with
      | none =>
        simp only [stepEv, hch] at h
        have := fin _ _ _ _ h
        subst this
        simp only [hcalcHs, hcalcTargets]
      | some l =>
        cases l with
        | nil =>
          simp only [stepEv, hch] at h
          have := fin _ _ _ _ h
          subst this
          simp only [hcalcHs, hcalcTargets]
        | cons x xs =>
          simp only [stepEv, hch] at h
          have := fin _ _ _ _ h
          subst this
          simp only [hcalcHs, hcalcTargets]
  | labelsWrite => simp only [stepEv, Res.ok.injEq] at h; subst h; rfl
  | stereoWrite => simp only [stepEv, Res.ok.injEq] at h; subst h; rfl

/-- a whole event list: if `interp` succeeds, the projection of its result is `interpH` of the projection -/
theorem interp_proj {T : Tables} {cx : Ctx} :
    ∀ (es : List GEv) (c c' : Cfg), interp T cx es c = .ok c' → proj c' = interpH cx es (proj c) := by
  intro es
  induction es with
  | nil => intro c c' h; simp only [interp, Res.ok.injEq] at h; subst h; rfl
  | cons ge rest ih =>
    intro c c' h
    simp only [interp] at h
    simp only [interpH]
    cases hd : decideGuards cx c.o ge.gs with
    | error e => simp [hd] at h
    | ok r =>
      have hg := guards_proj hd
      have hb : (proj c).bk = bkH c.o.backup := rfl
      rw [hb, hg]
      cases r with
      | none => simp only [hd] at h; exact ih c c' h
      | some opt =>
        simp only [hd] at h
        cases hs : stepEv T cx opt c ge.e with
        | err c1 e1 => simp [hs] at h
        | ok c1 =>
          simp only [hs] at h
          show proj c' = interpH cx rest (stepH cx opt (proj c) ge.e)
          rw [← stepEv_proj hs]
          exact ih c1 c' h

/-! ## only nine kinds of events act on the projection -/

def hrel : Ev → Bool
  | .edit | .changedAdd | .changedDiscard | .changedAttr | .changedNone | .backupCopy _ _ | .backupNone | .restore _ | .hcalc => true
  | _ => false

theorem stepH_neutral {cx : Ctx} {opt : Bool} {s : HS} {e : Ev} (h : hrel e = false) : stepH cx opt s e = s := by
  cases e <;> simp [hrel] at h <;> rfl

theorem interpH_filter (cx : Ctx) : ∀ (es : List GEv) (s : HS), interpH cx es s = interpH cx (es.filter fun ge => hrel ge.e) s := by
  intro es
  induction es with
  | nil => intro s; rfl
  | cons ge rest ih =>
    intro s
    simp only [List.filter_cons]
    cases hr : hrel ge.e with
    | true =>
      simp only [if_true, interpH]
      split
      · exact ih s
      · exact ih _
    | false =>
      simp only [if_false, Bool.false_eq_true, interpH]
      split
      · exact ih s
      · rw [stepH_neutral hr]; exact ih s

end ChythonModel.Proofs.C13
