import ChythonModel.Model.Stereo
import ChythonModel.Spec.Parity
import ChythonModel.Proofs.C12Perm
/-!
# C07 — the sign-translation facts the stereo post-filter rests on

Verbatim copies of `translateTetra_perm4`, `translateTetra_take3`, `translateTetra_explicitH`, `translateTetra_implicitH`, `translateTetra_change_iff_odd`, `IsSlot`,
`EndsWF`, `translateEnds_slots` of `Props/C12.lean` (property C12 owns the sign algebra), repeated here so that building C07 does not
depend on another property's Props file.  They are statements about `Model/Stereo.lean`, which C07's driver links.
-/
set_option linter.unusedSimpArgs false
set_option linter.unusedTactic false
set_option linter.unreachableTactic false
set_option linter.unusedVariables false
namespace ChythonModel.Proofs.C07
open ChythonModel.Gen ChythonModel.Spec ChythonModel.Model.Stereo ChythonModel.Proofs.C12

/-- four explicit heavy neighbours, `env` any arrangement of them (24 × all atom numberings) -/
theorem translateTetra_perm4 (a b c d : Nat) (hnd : [a, b, c, d].Nodup) (env : List Nat) (hp : env.Perm [a, b, c, d])
    (isH : Nat → Bool) (st : Option Bool) (s : Bool) :
    translateTetra [a, b, c, d] env isH st (some s) = .ok (s ^^ relOdd [a, b, c, d] env) := by
  have D := distinct4_of_nodup hnd
  rcases perm4_cases hnd hp with h|h|h|h|h|h|h|h|h|h|h|h|h|h|h|h|h|h|h|h|h|h|h|h <;> subst h <;>
    simp [translateTetra, pickSign, tetraOrder, tetraLookup, index?, relOdd, bind, Except.bind, pure, Except.pure,
      getKey, pos, D.ab, D.ac, D.ad, D.bc, D.bd, D.cd, D.ba, D.ca, D.da, D.cb, D.db, D.dc] <;>
    cases s <;> decide

/-- `env[:3]`: with four neighbours only the first three entries of a 4-list are read, so passing the first three of an
arrangement gives the sign of the whole arrangement (the fourth is determined) -/
theorem translateTetra_take3 (order env : List Nat) (ho : order.length = 4) (he : env.length = 4)
    (isH : Nat → Bool) (st s : Option Bool) :
    translateTetra order (env.take 3) isH st s = translateTetra order env isH st s := by
  match env, he with
  | [w, x, y, z], _ =>
    have h3 : order.length ≠ 3 := by omega
    simp [translateTetra, tetraOrder, tetraLookup, h3]

/-- three heavy neighbours + explicit hydrogen `h` standing anywhere in `env`: hydrogen is appended last to the order -/
theorem translateTetra_explicitH (a b c h : Nat) (hnd : [a, b, c].Nodup) (ha : isH a = false) (hb : isH b = false)
    (hc : isH c = false) (hh : isH h = true) (env : List Nat) (hp : env.Perm [a, b, c, h])
    (st : Option Bool) (s : Bool) :
    translateTetra [a, b, c] env isH st (some s) = .ok (s ^^ relOdd [a, b, c, h] env) := by
  have hah : a ≠ h := fun e => by rw [e, hh] at ha; cases ha
  have hbh : b ≠ h := fun e => by rw [e, hh] at hb; cases hb
  have hch : c ≠ h := fun e => by rw [e, hh] at hc; cases hc
  have hnd4 : [a, b, c, h].Nodup := by
    simp only [List.nodup_cons, List.mem_cons, List.not_mem_nil, not_or, or_false, List.nodup_nil, and_true,
      not_false_eq_true] at hnd ⊢
    exact ⟨⟨hnd.1.1, hnd.1.2, hah⟩, ⟨hnd.2, hbh⟩, hch⟩
  have D := distinct4_of_nodup hnd4
  rcases perm4_cases hnd4 hp with e|e|e|e|e|e|e|e|e|e|e|e|e|e|e|e|e|e|e|e|e|e|e|e <;> subst e <;>
    simp [translateTetra, pickSign, tetraOrder, tetraLookup, index?, relOdd, bind, Except.bind, pure, Except.pure,
      getKey, pos, List.find?, ha, hb, hc, hh, D.ab, D.ac, D.ad, D.bc, D.bd, D.cd, D.ba, D.ca, D.da, D.cb, D.db, D.dc] <;>
    cases s <;> decide

/-- three heavy neighbours + implicit hydrogen: `env` any arrangement of the three -/
theorem translateTetra_implicitH (a b c : Nat) (hnd : [a, b, c].Nodup) (env : List Nat) (hp : env.Perm [a, b, c])
    (isH : Nat → Bool) (st : Option Bool) (s : Bool) :
    translateTetra [a, b, c] env isH st (some s) = .ok (s ^^ relOdd [a, b, c] env) := by
  simp only [List.nodup_cons, List.mem_cons, List.not_mem_nil, not_or, or_false, List.nodup_nil, and_true,
    not_false_eq_true] at hnd
  obtain ⟨⟨hab, hac⟩, hbc⟩ := hnd
  have hba := Ne.symm hab; have hca := Ne.symm hac; have hcb := Ne.symm hbc
  have hnd' : [a, b, c].Nodup := by simp [hab, hac, hbc]
  rcases perm3_cases hnd' hp with e|e|e|e|e|e <;> subst e <;>
    simp [translateTetra, pickSign, tetraOrder, tetraLookup, index?, relOdd, bind, Except.bind, pure, Except.pure,
      getKey, pos, hab, hac, hbc, hba, hca, hcb] <;>
    cases s <;> decide

/-- **the configuration reported changes exactly under odd permutations**: for two arrangements of the same four
neighbours the translated signs differ iff the second is an odd permutation of the first -/
theorem translateTetra_change_iff_odd (a b c d : Nat) (hnd : [a, b, c, d].Nodup) (e1 e2 : List Nat)
    (h1 : e1.Perm [a, b, c, d]) (h2 : e2.Perm [a, b, c, d]) (isH : Nat → Bool) (st : Option Bool) (s : Bool) :
    ∃ r1 r2, translateTetra [a, b, c, d] e1 isH st (some s) = .ok r1 ∧
             translateTetra [a, b, c, d] e2 isH st (some s) = .ok r2 ∧ ((r1 != r2) = relOdd e1 e2) := by
  refine ⟨_, _, translateTetra_perm4 a b c d hnd e1 h1 isH st s, translateTetra_perm4 a b c d hnd e2 h2 isH st s, ?_⟩
  have m1 := idx_mem_allPerms4 hnd h1
  have m2 := idx_mem_allPerms4 hnd h2
  have hc := oddPerm_comp _ m1 _ m2
  have hi := idx_comp [a, b, c, d] e1 e2 (fun x hx => h1.subset hx) (fun x hx => h2.subset hx)
  unfold relOdd at *
  rw [hi, ← hc]
  cases s <;> cases oddPerm (List.map (pos [a, b, c, d]) e1) <;> cases oddPerm (List.map (pos [a, b, c, d]) e2) <;> rfl

/-- `x` occupies slot `k` of the environment `(n0, n1, n2, n3)`; a `None` slot is occupied by any hydrogen -/
def IsSlot (e : Ends) (isH : Nat → Bool) : Nat → Nat → Prop
  | 0, x => x = e.n0
  | 1, x => x = e.n1
  | 2, x => e.n2 = some x ∨ (e.n2 = none ∧ isH x = true)
  | 3, x => e.n3 = some x ∨ (e.n3 = none ∧ isH x = true)
  | _, _ => False

/-- the environment as `stereogenic_cumulenes` builds it: heavy atoms only, pairwise distinct -/
structure EndsWF (e : Ends) (isH : Nat → Bool) : Prop where
  h0 : isH e.n0 = false
  h1 : isH e.n1 = false
  h2 : ∀ x, e.n2 = some x → isH x = false
  h3 : ∀ x, e.n3 = some x → isH x = false
  d01 : e.n0 ≠ e.n1
  d02 : e.n2 ≠ some e.n0
  d03 : e.n3 ≠ some e.n0
  d12 : e.n2 ≠ some e.n1
  d13 : e.n3 ≠ some e.n1
  d23 : ∀ x, e.n2 = some x → e.n3 ≠ some x

/-- documented call (`nn` at the first end, `nm` at the last end), every `None` placement, explicit hydrogens anywhere:
the sign is inverted iff exactly one of the two atoms is the second substituent of its end -/
theorem translateEnds_slots (e : Ends) (isH : Nat → Bool) (wf : EndsWF e isH) (k0 k1 nn nm : Nat)
    (hk0 : k0 = 0 ∨ k0 = 2) (hk1 : k1 = 1 ∨ k1 = 3) (s0 : IsSlot e isH k0 nn) (s1 : IsSlot e isH k1 nm) (s : Bool) :
    translateEnds e isH nn nm s = .ok (s ^^ endsFlip k0 k1) := by
  obtain ⟨n0, n1, n2, n3⟩ := e
  have ⟨h0, h1, h2, h3, d01, d02, d03, d12, d13, d23⟩ := wf
  simp only at h0 h1 h2 h3 d01 d02 d03 d12 d13 d23
  rcases hk0 with rfl | rfl <;> rcases hk1 with rfl | rfl <;> simp only [IsSlot] at s0 s1
  · subst nn; subst nm
    simp [translateEnds, endsSlots, bind, Except.bind, pure, Except.pure, getKey]
    cases s <;> decide
  · subst nn
    rcases s1 with s1 | ⟨s1, hH⟩
    · subst n3
      have : nm ≠ n1 := fun h => d13 (by rw [h])
      simp [translateEnds, endsSlots, matchOpt, bind, Except.bind, pure, Except.pure, getKey, this]
      cases s <;> decide
    · subst n3
      have : nm ≠ n1 := fun h => by rw [h, h1] at hH; cases hH
      simp [translateEnds, endsSlots, matchOpt, bind, Except.bind, pure, Except.pure, getKey, this, hH]
      cases s <;> decide
  · subst nm
    rcases s0 with s0 | ⟨s0, hH⟩
    · subst n2
      have a : nn ≠ n0 := fun h => d02 (by rw [h])
      have b : nn ≠ n1 := fun h => d12 (by rw [h])
      simp [translateEnds, endsSlots, matchOpt, bind, Except.bind, pure, Except.pure, getKey, a, b]
      cases s <;> decide
    · subst n2
      have a : nn ≠ n0 := fun h => by rw [h, h0] at hH; cases hH
      have b : nn ≠ n1 := fun h => by rw [h, h1] at hH; cases hH
      simp [translateEnds, endsSlots, matchOpt, bind, Except.bind, pure, Except.pure, getKey, a, b, hH]
      cases s <;> decide
  · rcases s0 with s0 | ⟨s0, hH⟩ <;> rcases s1 with s1 | ⟨s1, hH1⟩ <;> subst n2 <;> subst n3
    · have a : nn ≠ n0 := fun h => d02 (by rw [h])
      have b : nn ≠ n1 := fun h => d12 (by rw [h])
      have c : nm ≠ n1 := fun h => d13 (by rw [h])
      simp [translateEnds, endsSlots, matchOpt, bind, Except.bind, pure, Except.pure, getKey, a, b, c]
      cases s <;> decide
    · have a : nn ≠ n0 := fun h => d02 (by rw [h])
      have b : nn ≠ n1 := fun h => d12 (by rw [h])
      have c : nm ≠ n1 := fun h => by rw [h, h1] at hH1; cases hH1
      simp [translateEnds, endsSlots, matchOpt, bind, Except.bind, pure, Except.pure, getKey, a, b, c, hH1]
      cases s <;> decide
    · have a : nn ≠ n0 := fun h => by rw [h, h0] at hH; cases hH
      have b : nn ≠ n1 := fun h => by rw [h, h1] at hH; cases hH
      have c : nm ≠ n1 := fun h => d13 (by rw [h])
      simp [translateEnds, endsSlots, matchOpt, bind, Except.bind, pure, Except.pure, getKey, a, b, c, hH]
      cases s <;> decide
    · have a : nn ≠ n0 := fun h => by rw [h, h0] at hH; cases hH
      have b : nn ≠ n1 := fun h => by rw [h, h1] at hH; cases hH
      have c : nm ≠ n1 := fun h => by rw [h, h1] at hH1; cases hH1
      simp [translateEnds, endsSlots, matchOpt, bind, Except.bind, pure, Except.pure, getKey, a, b, c, hH, hH1]
      cases s <;> decide

end ChythonModel.Proofs.C07
