import ChythonModel.Proofs.C02RoundsDfs
import ChythonModel.Proofs.C02GFacts
import ChythonModel.Proofs.C02GAppend
import ChythonModel.Proofs.C02CycCount
/-!
# C02 — per-round facts in list form: closure atoms, cycle lists, closure events
-/
namespace ChythonModel.Proofs.C02
open ChythonModel.Model ChythonModel.Model.SmilesWriter ChythonModel.Model.C02RT

theorem DfsResult.gfacts {m : Mol} {S : List Nat} {start c0 : Nat} {d : Dfs} (hwf : m.WF = true)
    (h : DfsResult m S start c0 d) : GFacts m (vis d) (treeP d.edges) (cycT d.tokens) where
  vNodup := h.inv.visNodup
  tSnd := h.inv.treeSnd
  tMem := fun p c hpc => by
    obtain ⟨a1, a2, _, a4⟩ := h.inv.treeMem p c hpc
    exact ⟨a1, a2, a4⟩
  tAsym := h.inv.treeAsym
  cNodup := h.inv.cycNodup
  cMem := fun a b k hk => by
    obtain ⟨a1, _, _, a4⟩ := h.inv.cycMem a b k hk
    obtain ⟨b1, b2, b3, b4⟩ := h.inv.discMem a b a4
    exact ⟨a1, fun e => ((wf_nbrs hwf a).2 b b3).1 e.symm, b1, b2, b3, b4⟩
  cId := h.inv.cycId
  cPair := h.inv.cycPair
  cover := fun a ha b hb => by
    rcases h.covered a ha b hb with h1 | h1 | h1
    · exact Or.inl h1
    · exact Or.inr (Or.inl h1)
    · exact Or.inr (Or.inr (h.inv.discCyc a b h1))

theorem DfsResult.cycFacts {m : Mol} {S : List Nat} {start c0 : Nat} {d : Dfs} (hwf : m.WF = true)
    (h : DfsResult m S start c0 d) : CycFacts d.tokens where
  keys := h.tokKeys
  nodup := h.inv.cycNodup
  symm := fun a b k hk => ⟨((h.gfacts hwf).cMem a b k hk).1, ((h.gfacts hwf).cMem a b k hk).2.1⟩
  ident := h.inv.cycId

/-! ## closure atoms of a round -/

theorem closureAtoms_eq_filter (tokens : List (Nat × List (Nat × Nat))) : ∀ smi : List FTok,
    closureAtoms smi tokens = (fatoms smi).filter (alHas tokens) := by
  intro smi
  induction smi with
  | nil => rfl
  | cons t tl ih =>
    cases t with
    | atom n =>
      simp only [closureAtoms, fatoms, List.filterMap_cons, atomq_atom, List.filter_cons] at ih ⊢
      by_cases hn : alHas tokens n = true
      · simp [hn, ih]
      · simp [hn, ih]
    | bond a b => simpa [closureAtoms, fatoms, List.filterMap_cons] using ih
    | lpar => simpa [closureAtoms, fatoms, List.filterMap_cons] using ih
    | rpar => simpa [closureAtoms, fatoms, List.filterMap_cons] using ih

/-- facts about one round that the closure theorems need -/
structure RoundFacts (m : Mol) (r : Round) : Prop where
  cyc : CycFacts r.tokens
  atomsVis : fatoms r.smi = r.visited
  visNodup : r.visited.Nodup
  tokVis : ∀ k ∈ r.tokens.map (·.1), k ∈ r.visited
  bondsPerm : (fbonds r.smi).Perm (treeP r.edges)

theorem RoundDfs.facts {m : Mol} {S : List Nat} {c0 c1 : Nat} {r : Round} (hwf : m.WF = true) (h : RoundDfs m S c0 c1 r) :
    RoundFacts m r := by
  obtain ⟨d, hd, e1, e2, e3, _⟩ := h.ex
  refine ⟨e3 ▸ hd.cycFacts hwf, ?_, e1 ▸ hd.inv.visNodup, ?_, ?_⟩
  · rw [h.smi, e2, hd.atoms, e1]
  · rw [e3, e1]; exact hd.tokVis
  · rw [h.smi, e2]; exact hd.bonds

theorem RoundFacts.closureAtoms_nodup {m : Mol} {r : Round} (h : RoundFacts m r) : (closureAtoms r.smi r.tokens).Nodup := by
  rw [closureAtoms_eq_filter, h.atomsVis]
  exact h.visNodup.filter _

theorem RoundFacts.mem_closureAtoms {m : Mol} {r : Round} (h : RoundFacts m r) :
    ∀ a, a ∈ closureAtoms r.smi r.tokens ↔ a ∈ r.tokens.map (·.1) := by
  intro a
  rw [closureAtoms_eq_filter, h.atomsVis, List.mem_filter, alHas_iff]
  exact ⟨fun x => x.2, fun x => ⟨h.tokVis a x, x⟩⟩

theorem RoundFacts.closureAtoms_sublist {m : Mol} {r : Round} (h : RoundFacts m r) :
    (closureAtoms r.smi r.tokens).Sublist r.visited := by
  rw [closureAtoms_eq_filter, h.atomsVis]
  exact List.filter_sublist

theorem cycOf_perm (smi : List FTok) (tokens : List (Nat × List (Nat × Nat))) (a : Nat) :
    (cycOf smi tokens a).Perm ((alGet tokens a).map (·.2)) := by
  simp only [cycOf, sortByNat]
  exact (sortBy_perm _ _).map _

/-- the cycle lists handed to the allocator: every list duplicate-free, their ids = the ids of the closure records -/
theorem RoundFacts.roundCycles_nodup {m : Mol} {r : Round} (h : RoundFacts m r) : ∀ l ∈ roundCycles r, l.Nodup := by
  intro l hl
  simp only [roundCycles, List.mem_map] at hl
  obtain ⟨a, _, rfl⟩ := hl
  exact (cycOf_perm _ _ a).nodup_iff.2 (alGet_ids_nodup h.cyc a)

theorem RoundFacts.roundCycles_flatten {m : Mol} {r : Round} (h : RoundFacts m r) :
    (roundCycles r).flatten.Perm ((cycT r.tokens).map (·.2.2)) := by
  have e : (roundCycles r).flatten = (closureAtoms r.smi r.tokens).flatMap (cycOf r.smi r.tokens) := by
    simp [roundCycles, List.flatMap_def]
  rw [e]
  refine (List.Perm.flatMap_left _ (fun a _ => cycOf_perm r.smi r.tokens a)).trans ?_
  exact flatMap_alGet_perm h.cyc _ h.closureAtoms_nodup h.mem_closureAtoms

/-- the closure events of a round (atom, cycle id) are, up to order, the closure records without the partner -/
theorem RoundFacts.cycleEvents_perm {m : Mol} {opts : Opts} {r : Round} (h : RoundFacts m r) (hs : RoundSpec m opts r) :
    (cycleEvents r).Perm ((cycT r.tokens).map fun t => (t.1, t.2.2)) := by
  rw [cycleEvents_eq]
  have e1 : ((roundCAtoms r).flatMap fun t => evAtom t.n t.rd) =
      (closureAtoms r.smi r.tokens).flatMap fun n => (rdOf r n).map fun c => (n, c) := by
    simp [roundCAtoms, List.flatMap_map, evAtom, Function.comp_def]
  rw [e1]
  have p1 : ((closureAtoms r.smi r.tokens).flatMap fun n => (rdOf r n).map fun c => (n, c)).Perm
      ((closureAtoms r.smi r.tokens).flatMap fun n => ((alGet r.tokens n).map (·.2)).map fun c => (n, c)) := by
    apply List.Perm.flatMap_left
    intro n hn
    have := (roundCAtoms_wf m opts r hs ⟨n, cycOf r.smi r.tokens n, rdOf r n⟩
      (by simp only [roundCAtoms, List.mem_map]; exact ⟨n, hn, rfl⟩)).1
    exact (this.trans (cycOf_perm _ _ n)).map _
  refine p1.trans ?_
  have p2 : (closureAtoms r.smi r.tokens).Perm (r.tokens.map (·.1)) :=
    (List.perm_ext_iff_of_nodup h.closureAtoms_nodup h.cyc.keys).2 h.mem_closureAtoms
  refine (p2.flatMap_right _).trans ?_
  have e2 : ((r.tokens.map (·.1)).flatMap fun n => ((alGet r.tokens n).map (·.2)).map fun c => (n, c)) =
      (cycT r.tokens).map fun t => (t.1, t.2.2) := by
    unfold cycT
    rw [List.map_flatMap, List.flatMap_map]
    apply List.flatMap_congr
    rintro ⟨a, l⟩ hm
    simp only [List.map_map]
    rw [alGet_of_mem h.cyc.keys hm]
    rfl
  rw [e2]

/-! ## all rounds together -/

theorem roundsDfs_gfacts {m : Mol} (hwf : m.WF = true) : ∀ (rs : List Round) (S : List Nat) (c0 : Nat), RoundsDfs m S c0 rs →
    GFacts m (rs.flatMap (·.visited)) (rs.flatMap fun r => treeP r.edges) (rs.flatMap fun r => cycT r.tokens) ∧
    (∀ a, a ∈ rs.flatMap (·.visited) ↔ a ∈ S) ∧
    (∀ a b k, (a, b, k) ∈ (rs.flatMap fun r => cycT r.tokens) → c0 < k) ∧
    (∀ r ∈ rs, RoundFacts m r) := by
  intro rs
  induction rs with
  | nil =>
    intro S c0 h
    have : S = [] := h
    subst this
    exact ⟨GFacts.nil, by simp, by simp, by simp⟩
  | cons r rs ih =>
    intro S c0 h
    obtain ⟨c1, hr, hrest⟩ := h
    obtain ⟨G2, M2, K2, F2⟩ := ih _ c1 hrest
    obtain ⟨d, hd, e1, e2, e3, e4⟩ := hr.ex
    have G1 : GFacts m r.visited (treeP r.edges) (cycT r.tokens) := by
      rw [e1, e2, e3]; exact hd.gfacts hwf
    have hV : ∀ a, a ∈ r.visited → a ∉ rs.flatMap (·.visited) := by
      intro a ha hx
      have := (M2 a).1 hx
      simp only [List.mem_filter, Bool.not_eq_eq_eq_not, Bool.not_true, List.contains_eq_mem, decide_eq_false_iff_not] at this
      exact this.2 ha
    have hle : ∀ a b k, (a, b, k) ∈ cycT r.tokens → c0 < k ∧ k ≤ c1 := by
      intro a b k hk
      rw [e3] at hk
      have := hd.inv.cycMem a b k hk
      exact ⟨this.2.1, e4 ▸ this.2.2.1⟩
    have hK : ∀ a b k a' b', (a, b, k) ∈ cycT r.tokens → (a', b', k) ∉ rs.flatMap (fun r => cycT r.tokens) := by
      intro a b k a' b' hk hx
      have h1 := (hle a b k hk).2
      have h2 := K2 a' b' k hx
      omega
    refine ⟨by simpa [List.flatMap_cons] using G1.append G2 hV hK, ?_, ?_, ?_⟩
    · intro a
      simp only [List.flatMap_cons, List.mem_append]
      constructor
      · rintro (ha | ha)
        · exact hd.inv.visSub a (e1 ▸ ha)
        · exact (List.mem_filter.1 ((M2 a).1 ha)).1
      · intro ha
        by_cases hv : a ∈ r.visited
        · exact Or.inl hv
        · refine Or.inr ((M2 a).2 (List.mem_filter.2 ⟨ha, ?_⟩))
          simpa using hv
    · intro a b k hk
      simp only [List.flatMap_cons, List.mem_append] at hk
      rcases hk with hk | hk
      · exact (hle a b k hk).1
      · have := K2 a b k hk
        have := hd.inv.cycLe
        omega
    · intro r' hr'
      rcases List.mem_cons.1 hr' with rfl | hr'
      · exact hr.facts hwf
      · exact F2 r' hr'

/-- the three structural facts about the traversal that the closure theorems assume hold for every well-formed molecule -/
theorem flatten_flatMap {α β} (f : α → List (List β)) : ∀ l : List α, (l.flatMap f).flatten = l.flatMap fun x => (f x).flatten := by
  intro l
  induction l with
  | nil => rfl
  | cons x tl ih => simp [List.flatMap_cons, ih]

theorem sublist_flatMap {α β} (f g : α → List β) : ∀ l : List α, (∀ x ∈ l, (f x).Sublist (g x)) →
    (l.flatMap f).Sublist (l.flatMap g) := by
  intro l
  induction l with
  | nil => intro _; exact List.Sublist.refl _
  | cons x tl ih =>
    intro h
    simp only [List.flatMap_cons]
    exact (h x (by simp)).append (ih fun y hy => h y (List.mem_cons_of_mem _ hy))

theorem roundsDfs_structure {m : Mol} {opts : Opts} (hwf : m.WF = true) (rs : List Round) (S : List Nat) (c0 : Nat)
    (h : RoundsDfs m S c0 rs) (hs : ∀ r ∈ rs, RoundSpec m opts r) :
    cyclesWF [] [] (rs.flatMap roundCycles) = true ∧
    (rs.flatMap fun r => closureAtoms r.smi r.tokens).Nodup ∧
    (rs.flatMap cycleEvents).Perm ((rs.flatMap fun r => cycT r.tokens).map fun t => (t.1, t.2.2)) := by
  obtain ⟨G, _, _, F⟩ := roundsDfs_gfacts hwf rs S c0 h
  refine ⟨?_, ?_, ?_⟩
  · apply cyclesWF_of_counts
    · intro l hl
      obtain ⟨r, hr, hl⟩ := List.mem_flatMap.1 hl
      exact (F r hr).roundCycles_nodup l hl
    · intro c
      rw [flatten_flatMap]
      have p : (rs.flatMap fun r => (roundCycles r).flatten).Perm ((rs.flatMap fun r => cycT r.tokens).map (·.2.2)) := by
        rw [List.map_flatMap]
        exact List.Perm.flatMap_left _ fun r hr => (F r hr).roundCycles_flatten
      rw [p.count_eq]
      rcases G.ids_count c with h0 | h2 <;> omega
  · exact (sublist_flatMap _ _ rs fun r hr => (F r hr).closureAtoms_sublist).nodup G.vNodup
  · rw [List.map_flatMap]
    exact List.Perm.flatMap_left _ fun r hr => (F r hr).cycleEvents_perm (hs r hr)

end ChythonModel.Proofs.C02
