import ChythonModel.Proofs.C14Hydrogens
/-!
# C14 — `explicify_hydrogens`: closed form of the `for n in to_add` loop and what follows from it
-/
namespace ChythonModel.Proofs.C14
open ChythonModel.Model ChythonModel.Model.Std ChythonModel.Gen.Rules

/-- what the loop does to an old atom: its count becomes 0 iff it is named in `to_add` -/
def zeroIn (l : List Nat) (p : Nat × Atom) : Nat × Atom := if l.contains p.1 then (p.1, { p.2 with implH := some 0 }) else p

/-- the new atoms: `k, k+1, …`, all plain hydrogens with count 0 -/
def newHs (k cnt : Nat) : List (Nat × Atom) := (List.range cnt).map fun i => (k + i, hydrogen)

theorem zeroIn_nil (p : Nat × Atom) : zeroIn [] p = p := by simp [zeroIn]

theorem newHs_succ (k cnt : Nat) : newHs k (cnt + 1) = (k, hydrogen) :: newHs (k + 1) cnt := by
  unfold newHs
  rw [List.range_succ_eq_map]
  simp only [List.map_cons, List.map_map, Nat.add_zero, List.cons.injEq, true_and]
  apply List.map_congr_left
  intro i _
  simp only [Function.comp]
  congr 1; omega

theorem setAtomEntry_zero_then_zeroIn (n : Nat) (rest : List Nat) (p : Nat × Atom) :
    zeroIn rest (setAtomEntry n (fun a => { a with implH := some 0 }) p) = zeroIn (n :: rest) p := by
  unfold zeroIn setAtomEntry
  by_cases h1 : p.1 == n
  · have : (n :: rest).contains p.1 = true := by rw [List.contains_cons, h1]; rfl
    simp only [h1, if_true, this]
    split <;> rfl
  · have h1' : (p.1 == n) = false := by simpa using h1
    have : (n :: rest).contains p.1 = rest.contains p.1 := by rw [List.contains_cons, h1']; rfl
    simp only [h1', this]
    rfl

/-- **closed form** of the atoms after the loop, for fresh numbers `k, k+1, …` (all of `to_add` below `k`) -/
theorem addHLoop_atoms : ∀ (l : List Nat) (k : Nat) (m : Mol), (∀ n ∈ l, n < k) →
    (addHLoop l k m).atoms = m.atoms.map (zeroIn l) ++ newHs k l.length := by
  intro l
  induction l with
  | nil =>
    intro k m _
    simp only [addHLoop, newHs, List.length_nil, List.range_zero, List.map_nil, List.append_nil]
    rw [List.map_congr_left (fun p _ => zeroIn_nil p)]; simp
  | cons n rest ih =>
    intro k m hk
    have hn : n < k := hk n (List.mem_cons_self)
    have hrest : ∀ x ∈ rest, x < k + 1 := fun x hx => Nat.lt_succ_of_lt (hk x (List.mem_cons_of_mem _ hx))
    rw [addHLoop]
    simp only
    rw [ih (k + 1) _ hrest]
    simp only [zeroH, updAtom, List.map_append, List.map_map, List.map_cons, List.map_nil, List.length_cons]
    rw [newHs_succ, List.append_assoc]
    congr 1
    · apply List.map_congr_left
      intro p _
      exact setAtomEntry_zero_then_zeroIn n rest p
    · simp only [List.singleton_append, List.cons.injEq, and_true]
      -- the fresh hydrogen `(k, H)` is not renamed by later steps
      have h1 : setAtomEntry n (fun a => { a with implH := some 0 }) (k, hydrogen) = (k, hydrogen) := by
        unfold setAtomEntry
        have : (k == n) = false := by apply beq_false_of_ne; omega
        simp [this]
      have h2 : zeroIn rest (k, hydrogen) = (k, hydrogen) := by
        have : rest.contains k = false := by
          apply Bool.eq_false_iff.mpr
          intro hc
          have := hk k (List.mem_cons_of_mem _ (List.contains_iff_mem.mp hc))
          omega
        show (if rest.contains k then _ else _) = _
        rw [this]; rfl
      simp only [h1, h2]

/-! ## `to_add` -/

theorem toAdd_spec : ∀ (atoms : List (Nat × Atom)) (l : List Nat), toAdd atoms = .ok l →
    (∀ p ∈ atoms, p.2.implH.isSome = true) ∧
    (l.length : Int) = (atoms.map fun p => ((p.2.implH.getD 0 : Nat) : Int)).sum ∧
    (∀ n ∈ l, n ∈ atoms.map (·.1)) ∧
    (∀ p ∈ atoms, ∀ h, p.2.implH = some h → h > 0 → l.contains p.1 = true) := by
  intro atoms
  induction atoms with
  | nil => intro l h; simp only [toAdd, Except.ok.injEq] at h; subst h; simp
  | cons p tl ih =>
    obtain ⟨n, a⟩ := p
    intro l h
    rw [toAdd] at h
    cases hh : a.implH with
    | none => simp [hh] at h
    | some k =>
      simp only [hh] at h
      cases ht : toAdd tl with
      | error e => simp [ht] at h
      | ok tl' =>
        simp only [ht, Except.ok.injEq] at h
        subst h
        obtain ⟨i1, i2, i3, i4⟩ := ih tl' ht
        refine ⟨?_, ?_, ?_, ?_⟩
        · intro q hq
          rcases List.mem_cons.mp hq with rfl | hq
          · simp [hh]
          · exact i1 q hq
        · simp only [List.length_append, List.length_replicate, List.map_cons, List.sum_cons, hh, Option.getD_some]
          push_cast; omega
        · intro x hx
          rcases List.mem_append.mp hx with hx | hx
          · have := (List.mem_replicate.mp hx).2
            simp [this]
          · simp only [List.map_cons, List.mem_cons]; exact Or.inr (i3 x hx)
        · intro q hq h' hq' hpos
          rcases List.mem_cons.mp hq with rfl | hq
          · simp only [hh, Option.some.injEq] at hq'
            subst hq'
            apply List.contains_iff_mem.mpr
            exact List.mem_append.mpr (Or.inl (List.mem_replicate.mpr ⟨by omega, rfl⟩))
          · apply List.contains_iff_mem.mpr
            exact List.mem_append.mpr (Or.inr (List.contains_iff_mem.mp (i4 q hq h' hq' hpos)))

theorem foldl_max_ge (l : List Nat) : ∀ (acc : Nat), acc ≤ l.foldl max acc ∧ ∀ x ∈ l, x ≤ l.foldl max acc := by
  induction l with
  | nil => intro acc; simp
  | cons y tl ih =>
    intro acc
    simp only [List.foldl_cons]
    obtain ⟨h1, h2⟩ := ih (max acc y)
    refine ⟨by omega, ?_⟩
    intro x hx
    rcases List.mem_cons.mp hx with rfl | hx
    · omega
    · exact h2 x hx

theorem lt_nextNumber (m : Mol) (n : Nat) (h : n ∈ m.ids) : n < nextNumber m := by
  unfold nextNumber
  have := (foldl_max_ge m.ids 0).2 n h
  omega

/-! ## consequences of the closed form -/

theorem int_sum_eq_zero : ∀ (l : List Int), (∀ x ∈ l, x = 0) → l.sum = 0 := by
  intro l
  induction l with
  | nil => intro _; rfl
  | cons x tl ih =>
    intro h
    have hx := h x (List.mem_cons_self)
    have ht := ih (fun y hy => h y (List.mem_cons_of_mem _ hy))
    simp only [List.sum_cons]; omega

theorem zeroIn_fst (l : List Nat) (p : Nat × Atom) : (zeroIn l p).1 = p.1 := by unfold zeroIn; split <;> rfl
theorem zeroIn_charge (l : List Nat) (p : Nat × Atom) : (zeroIn l p).2.charge = p.2.charge := by unfold zeroIn; split <;> rfl
theorem zeroIn_z (l : List Nat) (p : Nat × Atom) : (zeroIn l p).2.z = p.2.z := by unfold zeroIn; split <;> rfl
theorem zeroIn_iso (l : List Nat) (p : Nat × Atom) : (zeroIn l p).2.isotope = p.2.isotope := by unfold zeroIn; split <;> rfl

/-- after `explicify_hydrogens` the old atoms are the old atoms (count set to 0 where hydrogens were added) followed by the
    new hydrogens; nothing else -/
theorem explicify_atoms (m m' : Mol) (cnt : Nat) (h : explicify m = .ok (m', cnt)) :
    ∃ l, toAdd m.atoms = .ok l ∧ cnt = l.length ∧ m'.atoms = m.atoms.map (zeroIn l) ++ newHs (nextNumber m) l.length := by
  unfold explicify at h
  cases ht : toAdd m.atoms with
  | error e => simp [ht] at h
  | ok l =>
    cases l with
    | nil =>
      simp only [ht, Except.ok.injEq, Prod.mk.injEq] at h
      obtain ⟨rfl, rfl⟩ := h
      refine ⟨[], rfl, rfl, ?_⟩
      simp only [newHs, List.length_nil, List.range_zero, List.map_nil, List.append_nil]
      rw [List.map_congr_left (fun p _ => zeroIn_nil p)]; simp
    | cons n rest =>
      simp only [ht, Except.ok.injEq, Prod.mk.injEq] at h
      obtain ⟨rfl, rfl⟩ := h
      refine ⟨n :: rest, rfl, rfl, ?_⟩
      apply addHLoop_atoms
      intro x hx
      exact lt_nextNumber m x ((toAdd_spec _ _ ht).2.2.1 x hx)

theorem explicify_spec (m m' : Mol) (cnt : Nat) (h : explicify m = .ok (m', cnt)) :
    heavyAtoms m' = heavyAtoms m ∧ netCharge m' = netCharge m ∧ hydrogens m' = hydrogens m ∧
    (∀ p ∈ m'.atoms, p.2.implH = some 0) ∧ m'.atoms.length = m.atoms.length + cnt := by
  obtain ⟨l, ht, hc, ha⟩ := explicify_atoms m m' cnt h
  obtain ⟨t1, t2, _, t4⟩ := toAdd_spec _ _ ht
  have hH : ∀ q ∈ newHs (nextNumber m) l.length, q.2 = hydrogen := by
    intro q hq; unfold newHs at hq; simp only [List.mem_map] at hq; obtain ⟨i, _, rfl⟩ := hq; rfl
  -- every atom of the result has count 0
  have hzero : ∀ p ∈ m'.atoms, p.2.implH = some 0 := by
    intro p hp
    rw [ha] at hp
    rcases List.mem_append.mp hp with hp | hp
    · simp only [List.mem_map] at hp
      obtain ⟨q, hq, rfl⟩ := hp
      unfold zeroIn
      split
      · rfl
      · rename_i hnc
        have hs := t1 q hq
        cases hq' : q.2.implH with
        | none => simp [hq'] at hs
        | some k =>
          cases k with
          | zero => rfl
          | succ k => exact absurd (t4 q hq (k + 1) hq' (by omega)) hnc
    · rw [hH p hp]; rfl
  have himpl : implSum m' = 0 := by
    unfold implSum
    apply int_sum_eq_zero
    intro x hx
    simp only [List.mem_map] at hx
    obtain ⟨p, hp, rfl⟩ := hx
    simp [hzero p hp]
  have hexp : (explicitH m' : Int) = explicitH m + l.length := by
    unfold explicitH skeleton
    rw [ha, List.map_append, List.filter_append, List.length_append]
    have e1 : (m.atoms.map (zeroIn l)).map (fun p => (p.1, p.2.z, p.2.isotope)) = m.atoms.map (fun p => (p.1, p.2.z, p.2.isotope)) := by
      rw [List.map_map]; apply List.map_congr_left; intro p _
      simp only [Function.comp, zeroIn_fst, zeroIn_z, zeroIn_iso]
    have e2 : (((newHs (nextNumber m) l.length).map (fun p => (p.1, p.2.z, p.2.isotope))).filter fun q => q.2.1 == 1).length = l.length := by
      rw [List.filter_eq_self.mpr]
      · simp [newHs]
      · intro q hq
        simp only [List.mem_map] at hq
        obtain ⟨p, hp, rfl⟩ := hq
        rw [hH p hp]; rfl
    rw [e1, e2]; push_cast; rfl
  refine ⟨?_, ?_, ?_, hzero, ?_⟩
  · unfold heavyAtoms
    rw [ha, List.filter_append, List.map_append]
    have e2 : (newHs (nextNumber m) l.length).filter (fun p => p.2.z != 1) = [] := by
      apply List.filter_eq_nil_iff.mpr
      intro q hq; rw [hH q hq]; simp [hydrogen]
    rw [e2, List.map_nil, List.append_nil, List.filter_map, List.map_map]
    have : ((fun p => p.2.z != 1) ∘ zeroIn l) = fun (p : Nat × Atom) => p.2.z != 1 := by
      funext p; simp only [Function.comp, zeroIn_z]
    rw [this]
    apply List.map_congr_left; intro p _
    simp only [Function.comp, zeroIn_fst, zeroIn_z, zeroIn_iso]
  · unfold netCharge
    rw [ha, List.map_append, List.sum_append, List.map_map]
    have e1 : m.atoms.map ((fun p => p.2.charge) ∘ zeroIn l) = m.atoms.map (fun p => p.2.charge) := by
      apply List.map_congr_left; intro p _; simp only [Function.comp, zeroIn_charge]
    have e2 : ((newHs (nextNumber m) l.length).map (fun p => p.2.charge)).sum = 0 := by
      apply int_sum_eq_zero
      intro x hx
      simp only [List.mem_map] at hx
      obtain ⟨p, hp, rfl⟩ := hx
      rw [hH p hp]; rfl
    rw [e1, e2]; omega
  · unfold hydrogens
    rw [himpl, hexp]
    unfold implSum
    omega
  · rw [ha, List.length_append, List.length_map, hc]; simp [newHs]

end ChythonModel.Proofs.C14
