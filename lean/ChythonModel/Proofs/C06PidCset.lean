import ChythonModel.Proofs.C06PidMake
import ChythonModel.Proofs.C06PidFilter
import ChythonModel.Proofs.C06PidKeys
/-!
# C06 — every ring `_c_set` generates is a closed trail of the graph (`cSet_trail`), and a simple cycle as soon as it has
three atoms
-/
namespace ChythonModel.Proofs.C06
open ChythonModel.Model.C06 ChythonModel.Spec.CycleBasis

theorem walk_pairs {g : Adj} : ∀ (l : List Nat) (x : Nat), Walk g (l ++ [x]) →
    ∀ ab ∈ l.zip (l.tail ++ [x]), ab.2 ∈ nbrsOf g ab.1
  | [], _, _, _, h => by simp at h
  | [a], x, hw, ab, h => by
    simp only [List.tail_cons, List.nil_append, List.zip_cons_cons, List.zip_nil_right, List.mem_singleton] at h
    subst h
    exact hw.1
  | a :: b :: tl, x, hw, ab, h => by
    simp only [List.tail_cons, List.cons_append, List.zip_cons_cons, List.mem_cons] at h
    rcases h with h | h
    · subst h; exact hw.1
    · exact walk_pairs (b :: tl) x hw.2 ab (by simpa using h)

theorem closedTrail_of_walk {g : Adj} {x : Nat} {tl : List Nat} (hw : Walk g ((x :: tl) ++ [x])) (hn : (x :: tl).Nodup)
    (hl : 2 ≤ (x :: tl).length) : IsClosedTrail g (x :: tl) :=
  ⟨hl, hn, fun ab h => walk_pairs (x :: tl) x hw ab (by simpa [cyclePairs] using h)⟩

theorem path_decompose {g : Adj} {i j : Nat} {p : List Nat} (h : PathFromTo g i j p) : ∃ M, p = i :: (M ++ [j]) := by
  obtain ⟨_, hl, hh, ht⟩ := h
  cases p with
  | nil => simp at hl
  | cons a tl =>
    have : a = i := by simpa using hh
    subst this
    obtain ⟨ys, hy⟩ := List.getLast?_eq_some_iff.1 ht
    cases ys with
    | nil =>
      simp only [List.nil_append, List.cons.injEq] at hy
      obtain ⟨_, e⟩ := hy
      subst e
      simp at hl
    | cons y ys =>
      simp only [List.cons_append, List.cons.injEq] at hy
      obtain ⟨_, e⟩ := hy
      exact ⟨ys, by rw [e]⟩

/-- `c1 + c2[-2:0:-1]` closes up: followed by `i` it is the walk `c1[:-1] + reversed(c2)` from `i` back to `i` -/
theorem closeRing_trail {g : Adj} (hs : Sym g) {i j : Nat} {c1 c2 : Path} (h1 : PathFromTo g i j c1)
    (h2 : PathFromTo g i j c2) {r : Ring} (hr : some r ∈ closeRing c1 c2) :
    ∃ c, canonicRing c = some r ∧ IsClosedTrail g c ∧ c.length + 2 = c1.length + c2.length := by
  unfold closeRing at hr
  simp only at hr
  split at hr
  · next hnd =>
    simp only [List.mem_singleton] at hr
    refine ⟨_, hr.symm, ?_, ?_⟩
    · obtain ⟨M, e2⟩ := path_decompose h2
      obtain ⟨A, e1⟩ := path_decompose h1
      have hw := (pathFromTo_compose h1 (pathFromTo_reverse hs h2)).1
      have eq : c1 ++ ((c2.drop 1).dropLast).reverse ++ [i] = c1.dropLast ++ c2.reverse := by
        subst e1 e2
        have : (i :: (A ++ [j])).dropLast = i :: A := by
          rw [show i :: (A ++ [j]) = (i :: A) ++ [j] by simp, List.dropLast_concat]
        rw [this]
        simp
      rw [← eq] at hw
      subst e1
      simp only [List.cons_append] at hw hnd ⊢
      refine closedTrail_of_walk hw hnd ?_
      simp only [List.length_cons, List.length_append]; omega
    · obtain ⟨M, e2⟩ := path_decompose h2
      subst e2
      simp
      omega
  · simp at hr

/-! ## where the entries of `_c_set` come from -/

/-- an entry `(c_num, p1ij, p2ij)` is read off a cell of `pid1` and the cell of `pid2` with the same indices -/
def EntryFrom (p1 : Pid1) (p2 : Pid2) (e : Nat × List Path × Option (List Path)) : Prop :=
  ∃ irow ∈ p1, ∃ jin ∈ irow.2, e.2.1 = jin.2.map (·.2) ∧
    ∀ q, e.2.2 = some q → q = (p2get p2 irow.1 jin.1).map (·.2)

theorem cSetRow_from {p1 : Pid1} {p2 : Pid2} {d : Dist} {seen : List Nat} {irow : Nat × List (Nat × Inner)}
    (hi : irow ∈ p1) {e : Nat × List Path × Option (List Path)} (he : e ∈ cSetRow p2 d seen irow.1 irow.2) :
    EntryFrom p1 p2 e := by
  unfold cSetRow at he
  simp only [List.mem_flatMap] at he
  obtain ⟨jp, hj, he⟩ := he
  refine ⟨irow, hi, jp, hj, ?_⟩
  split at he
  · simp at he
  · split at he
    · split at he
      · simp at he
      · simp only [List.mem_singleton] at he
        subst he
        exact ⟨rfl, fun q hq => by simpa using hq.symm⟩
    · split at he
      · simp only [List.mem_singleton] at he
        subst he
        exact ⟨rfl, fun q hq => by simp at hq⟩
      · simp only [List.mem_cons, List.not_mem_nil, or_false] at he
        rcases he with he | he
        · subst he
          exact ⟨rfl, fun q hq => by simp at hq⟩
        · subst he
          exact ⟨rfl, fun q hq => by simpa using hq.symm⟩

theorem cSetEntries_from {p1 : Pid1} {p2 : Pid2} {d : Dist} {e : Nat × List Path × Option (List Path)}
    (he : e ∈ cSetEntries p1 p2 d) : EntryFrom p1 p2 e := by
  unfold cSetEntries at he
  simp only [List.mem_flatMap, List.mem_range] at he
  obtain ⟨idx, _, he⟩ := he
  split at he
  · simp at he
  · next i row hidx =>
    exact cSetRow_from (irow := (i, row)) (List.mem_of_getElem? hidx) he

theorem mem_zip_drop_one {α : Type} : ∀ (l : List α) (a b : α), (a, b) ∈ l.zip (l.drop 1) → a ∈ l ∧ b ∈ l := by
  intro l a b h
  have := List.of_mem_zip h
  exact ⟨this.1, List.mem_of_mem_drop this.2⟩

/-- every ring `_c_set` generates is `_canonic_ring` of a closed trail built from two stored walks with the same ends -/
theorem cSet_trail {g : Adj} (hs : Sym g) {p1 : Pid1} {p2 : Pid2} {d : Dist} (hok : PidOK g p1 p2) {r : Ring}
    (hr : some r ∈ cSet p1 p2 d) : ∃ c, canonicRing c = some r ∧ IsClosedTrail g c := by
  unfold cSet at hr
  simp only [List.mem_flatMap] at hr
  obtain ⟨e, he, hr⟩ := hr
  have he' : e ∈ cSetEntries p1 p2 d := (isort_perm _ _).mem_iff.1 he
  obtain ⟨irow, hi, jin, hj, e1, e2⟩ := cSetEntries_from he'
  have hcell : ∀ c ∈ e.2.1, PathFromTo g irow.1 jin.1 c := by
    intro c hc
    rw [e1] at hc
    obtain ⟨kp, hk, rfl⟩ := List.mem_map.1 hc
    exact hok.1 irow hi jin hj kp hk
  unfold cSetExpand at hr
  split at hr
  · split at hr
    · simp at hr
    · next q hq =>
      simp only [List.mem_flatMap] at hr
      obtain ⟨c1, h1, c2, h2, hr⟩ := hr
      have hq2 : PathFromTo g irow.1 jin.1 c2 := by
        rw [e2 q hq] at h2
        obtain ⟨kp, hk, rfl⟩ := List.mem_map.1 h2
        exact p2get_ok hok.2 _ _ kp hk
      obtain ⟨c, hc, ht, _⟩ := closeRing_trail hs (hcell c1 h1) hq2 hr
      exact ⟨c, hc, ht⟩
  · simp only [List.mem_flatMap] at hr
    obtain ⟨cc, hcc, hr⟩ := hr
    obtain ⟨h1, h2⟩ := mem_zip_drop_one _ cc.1 cc.2 hcc
    obtain ⟨c, hc, ht, _⟩ := closeRing_trail hs (hcell _ h1) (hcell _ h2) hr
    exact ⟨c, hc, ht⟩

/-! ## three atoms at least -/

theorem two_filter_of_zip_drop {α : Type} (p : α → Bool) : ∀ (l : List α) (a b : α), (a, b) ∈ l.zip (l.drop 1) →
    p a = true → p b = true → 2 ≤ (l.filter p).length
  | [], _, _, h, _, _ => by simp at h
  | [_], _, _, h, _, _ => by simp at h
  | x :: y :: tl, a, b, h, ha, hb => by
    simp only [List.drop_succ_cons, List.drop_zero, List.zip_cons_cons, List.mem_cons, Prod.mk.injEq] at h
    rcases h with ⟨rfl, rfl⟩ | h
    · simp [ha, hb]
    · have ih := two_filter_of_zip_drop p (y :: tl) a b (by simpa using h) ha hb
      rw [List.filter_cons]
      split
      · simp only [List.length_cons]; omega
      · exact ih

/-- the two facts about `_make_pid` that exclude a "ring" made of one bond walked twice -/
def NoDoubleBond (p1 : Pid1) (p2 : Pid2) : Prop :=
  (∀ irow ∈ p1, ∀ jin ∈ irow.2, (jin.2.filter fun kp => kp.2.length == 2).length ≤ 1) ∧
  (∀ e ∈ p2, ∀ kp ∈ e.2, 3 ≤ kp.2.length)

/-- every ring `_c_set` generates is a simple cycle of the graph -/
theorem cSet_cycle {g : Adj} (hs : Sym g) {p1 : Pid1} {p2 : Pid2} {d : Dist} (hok : PidOK g p1 p2)
    (hnd : NoDoubleBond p1 p2) {r : Ring} (hr : some r ∈ cSet p1 p2 d) : IsSimpleCycle g r := by
  unfold cSet at hr
  simp only [List.mem_flatMap] at hr
  obtain ⟨e, he, hr⟩ := hr
  have he' : e ∈ cSetEntries p1 p2 d := (isort_perm _ _).mem_iff.1 he
  obtain ⟨irow, hi, jin, hj, e1, e2⟩ := cSetEntries_from he'
  have hcell : ∀ c ∈ e.2.1, PathFromTo g irow.1 jin.1 c := by
    intro c hc
    rw [e1] at hc
    obtain ⟨kp, hk, rfl⟩ := List.mem_map.1 hc
    exact hok.1 irow hi jin hj kp hk
  have fin : ∀ c, canonicRing c = some r → IsClosedTrail g c → 3 ≤ c.length → IsSimpleCycle g r :=
    fun c hc ht h3 => canonicRing_cycle hs ⟨h3, ht.2.1, ht.2.2⟩ hc
  unfold cSetExpand at hr
  split at hr
  · split at hr
    · simp at hr
    · next q hq =>
      simp only [List.mem_flatMap] at hr
      obtain ⟨c1, h1, c2, h2, hr⟩ := hr
      rw [e2 q hq] at h2
      obtain ⟨kp, hk, rfl⟩ := List.mem_map.1 h2
      have hq2 : PathFromTo g irow.1 jin.1 kp.2 := p2get_ok hok.2 _ _ kp hk
      have hlong : 3 ≤ kp.2.length := by
        unfold p2get at hk
        cases hl : p2.lookup (irow.1, jin.1) with
        | none => rw [hl] at hk; simp at hk
        | some inner =>
          rw [hl] at hk
          exact hnd.2 _ (lookup_mem hl) kp hk
      obtain ⟨c, hc, ht, hlen⟩ := closeRing_trail hs (hcell c1 h1) hq2 hr
      have := (hcell c1 h1).2.1
      exact fin c hc ht (by omega)
  · simp only [List.mem_flatMap] at hr
    obtain ⟨cc, hcc, hr⟩ := hr
    obtain ⟨h1, h2⟩ := mem_zip_drop_one _ cc.1 cc.2 hcc
    obtain ⟨c, hc, ht, hlen⟩ := closeRing_trail hs (hcell _ h1) (hcell _ h2) hr
    have l1 := (hcell _ h1).2.1
    have l2 := (hcell _ h2).2.1
    refine fin c hc ht ?_
    by_cases hb : cc.1.length = 2 ∧ cc.2.length = 2
    · exfalso
      have h2f := two_filter_of_zip_drop (fun c : Path => c.length == 2) e.2.1 cc.1 cc.2 hcc (by simp [hb.1]) (by simp [hb.2])
      rw [e1, List.filter_map, List.length_map] at h2f
      have := hnd.1 irow hi jin hj
      have e3 : (fun c : Path => c.length == 2) ∘ (fun x : (Nat × Nat) × Path => x.2) = fun kp => kp.2.length == 2 := rfl
      rw [e3] at h2f
      omega
    · omega

end ChythonModel.Proofs.C06
