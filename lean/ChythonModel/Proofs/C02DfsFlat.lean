import ChythonModel.Proofs.C02DfsRun
import Mathlib.Data.List.Induction
/-!
# C02 — flattening the DFS tree: the atoms come out in discovery order, every tree bond once, no fuel truncation
-/
namespace ChythonModel.Proofs.C02
open ChythonModel.Model ChythonModel.Model.SmilesWriter ChythonModel.Model.C02RT

def fbonds (l : List FTok) : List (Nat × Nat) := l.filterMap FTok.bond?
def fatoms (l : List FTok) : List Nat := l.filterMap FTok.atom?

@[simp] theorem bondq_atom (n : Nat) : FTok.bond? (.atom n) = none := rfl
@[simp] theorem bondq_bond (a b : Nat) : FTok.bond? (.bond a b) = some (a, b) := rfl
@[simp] theorem bondq_lpar : FTok.bond? .lpar = none := rfl
@[simp] theorem bondq_rpar : FTok.bond? .rpar = none := rfl
@[simp] theorem atomq_atom (n : Nat) : FTok.atom? (.atom n) = some n := rfl
@[simp] theorem atomq_bond (a b : Nat) : FTok.atom? (.bond a b) = none := rfl
@[simp] theorem atomq_lpar : FTok.atom? .lpar = none := rfl
@[simp] theorem atomq_rpar : FTok.atom? .rpar = none := rfl

/-- the bonds of `flat`, as a plain recursion -/
def B (edges : List (Nat × List Nat)) : Nat → Nat → List (Nat × Nat)
  | 0, _ => []
  | f + 1, tail => (alGet edges tail).flatMap fun c => (tail, c) :: B edges f c

theorem fbonds_flatKids (rec : Nat → List FTok) (tail : Nat) : ∀ cs : List Nat,
    fbonds (flatKids rec tail cs) = cs.flatMap fun c => (tail, c) :: fbonds (rec c) := by
  intro cs
  induction cs with
  | nil => rfl
  | cons c rest ih =>
    cases rest with
    | nil => simp [flatKids, fbonds, List.filterMap_cons]
    | cons d rest' =>
      simp only [flatKids, List.flatMap_cons]
      simp only [fbonds, List.filterMap_cons, bondq_atom, bondq_bond, bondq_lpar, bondq_rpar, List.filterMap_append] at ih ⊢
      rw [ih]
      simp

theorem fatoms_flatKids (rec : Nat → List FTok) (tail : Nat) : ∀ cs : List Nat,
    fatoms (flatKids rec tail cs) = cs.flatMap fun c => c :: fatoms (rec c) := by
  intro cs
  induction cs with
  | nil => rfl
  | cons c rest ih =>
    cases rest with
    | nil => simp [flatKids, fatoms, List.filterMap_cons]
    | cons d rest' =>
      simp only [flatKids, List.flatMap_cons]
      simp only [fatoms, List.filterMap_cons, atomq_atom, atomq_bond, atomq_lpar, atomq_rpar, List.filterMap_append] at ih ⊢
      rw [ih]
      simp

theorem fbonds_flat (edges : List (Nat × List Nat)) : ∀ (f tail : Nat), fbonds (flat edges f tail) = B edges f tail := by
  intro f
  induction f with
  | zero => intro tail; rfl
  | succ n ih =>
    intro tail
    simp only [flat, B, fbonds_flatKids]
    apply flatMap_congr'
    intro c _
    rw [ih]

theorem fatoms_flat (edges : List (Nat × List Nat)) : ∀ (f tail : Nat),
    fatoms (flat edges f tail) = (B edges f tail).map (·.2) := by
  intro f
  induction f with
  | zero => intro tail; rfl
  | succ n ih =>
    intro tail
    simp only [flat, B, fatoms_flatKids, List.map_flatMap]
    apply flatMap_congr'
    intro c _
    simp [ih]

theorem mem_B_treeP (edges : List (Nat × List Nat)) : ∀ (f tail : Nat) (x : Nat × Nat), x ∈ B edges f tail → x ∈ treeP edges := by
  intro f
  induction f with
  | zero => intro tail x h; simp [B] at h
  | succ n ih =>
    intro tail x h
    simp only [B, List.mem_flatMap, List.mem_cons] at h
    obtain ⟨c, hc, h | h⟩ := h
    · subst h; exact mem_alGet_treeP edges tail c hc
    · exact ih c x h

/-! ## appending a child on the rightmost path -/

/-- off the path nothing changes -/
theorem B_alAppend_off (edges : List (Nat × List Nat)) (p c : Nat) : ∀ (f x : Nat),
    p ∉ x :: (B edges f x).map (·.2) → B (alAppend edges p c) f x = B edges f x := by
  intro f
  induction f with
  | zero => intro x _; rfl
  | succ n ih =>
    intro x h
    have hx : x ≠ p := fun e => h (by simp [e])
    simp only [B, alGet_alAppend_ne edges p x c hx]
    apply flatMap_congr'
    intro d hd
    rw [ih d]
    intro hp
    apply h
    simp only [B, List.map_flatMap, List.mem_cons, List.mem_flatMap]
    refine Or.inr ⟨d, hd, ?_⟩
    simpa using hp

/-- consecutive elements of the stack (top first): the upper one is the last child of the lower one -/
def chainOk (edges : List (Nat × List Nat)) : List Nat → Prop
  | [] => True
  | [_] => True
  | x :: y :: rest => (alGet edges y).getLast? = some x ∧ chainOk edges (y :: rest)

theorem chainOk_snoc (edges : List (Nat × List Nat)) : ∀ (A : List Nat) (y x : Nat),
    chainOk edges (A ++ [y, x]) ↔ chainOk edges (A ++ [y]) ∧ (alGet edges x).getLast? = some y := by
  intro A
  induction A with
  | nil => intro y x; simp [chainOk]
  | cons a tl ih =>
    intro y x
    cases tl with
    | nil => simp [chainOk]
    | cons b tl' =>
      have := ih y x
      simp only [List.cons_append, chainOk] at this ⊢
      rw [this]; tauto

theorem B_nil_of_not_key (edges : List (Nat × List Nat)) (c : Nat) (h : c ∉ edges.map (·.1)) (f : Nat) : B edges f c = [] := by
  cases f with
  | zero => rfl
  | succ n =>
    have : alGet edges c = [] := alGet_of_not_alHas edges c ((alHas_false_iff _ _).2 h)
    simp [B, this]

/-- the key step: `edges[p].append(c)` for the top `p` of the stack appends `(p, c)` to the flattened bond list -/
theorem B_alAppend_chain (edges : List (Nat × List Nat)) (c : Nat) (hck : c ∉ edges.map (·.1)) :
    ∀ (abv : List Nat) (x p : Nat) (f : Nat), (abv ++ [x]).head? = some p → c ≠ p → chainOk edges (abv ++ [x]) →
      (abv ++ [x]).Nodup → abv.length < f → (x :: (B edges f x).map (·.2)).Nodup →
      B (alAppend edges p c) f x = B edges f x ++ [(p, c)] ∧ p ∈ x :: (B edges f x).map (·.2) := by
  intro abv
  induction abv using List.reverseRec with
  | nil =>
    intro x p f hh hcp _ _ hf hn
    have : x = p := by simpa using hh
    subst this
    obtain ⟨n, rfl⟩ : ∃ n, f = n + 1 := ⟨f - 1, by omega⟩
    refine ⟨?_, by simp⟩
    have hck' : c ∉ (alAppend edges x c).map (·.1) := by
      rw [alAppend_keys]
      split
      · exact hck
      · simp only [List.mem_append, List.mem_singleton, not_or]; exact ⟨hck, hcp⟩
    simp only [B, alGet_alAppend_eq, List.flatMap_append, List.flatMap_cons, List.flatMap_nil, List.append_nil,
      B_nil_of_not_key _ c hck' n]
    congr 1
    apply flatMap_congr'
    intro d hd
    rw [B_alAppend_off]
    intro hp
    have hn2 := (List.nodup_cons.1 hn).1
    apply hn2
    simp only [B, List.map_flatMap, List.mem_flatMap]
    exact ⟨d, hd, by simpa using hp⟩
  | append_singleton abv' y ih =>
    intro x p f hh hcp hch hnd hf hn
    obtain ⟨n, rfl⟩ : ∃ n, f = n + 1 := ⟨f - 1, by omega⟩
    have hch' : chainOk edges (abv' ++ [y]) ∧ (alGet edges x).getLast? = some y := by
      have := (chainOk_snoc edges abv' y x).1 (by simpa using hch)
      exact this
    have hpne : x ≠ p := by
      intro e
      subst e
      -- p is the head of abv' ++ [y] ++ [x] and also its last element: not Nodup
      have hh' : (abv' ++ [y]).head? = some x := by
        cases hA : abv' ++ [y] with
        | nil => simp at hA
        | cons a tl => rw [hA] at hh; simpa using hh
      have : x ∈ abv' ++ [y] := List.mem_of_mem_head? hh'
      rw [List.nodup_append] at hnd
      exact hnd.2.2 x this x (by simp) rfl
    have hhead : (abv' ++ [y]).head? = some p := by
      cases hA : abv' ++ [y] with
      | nil => simp at hA
      | cons a tl => rw [hA] at hh; simpa using hh
    obtain ⟨init, hinit⟩ : ∃ init, alGet edges x = init ++ [y] := by
      have := hch'.2
      rw [List.getLast?_eq_some_iff] at this
      exact this
    have hBx : B edges (n + 1) x = (init.flatMap fun d => (x, d) :: B edges n d) ++ (x, y) :: B edges n y := by
      simp [B, hinit]
    have hny : (y :: (B edges n y).map (·.2)).Nodup := by
      have := (List.nodup_cons.1 hn).2
      rw [hBx] at this
      simp only [List.map_append, List.map_cons] at this
      exact (List.nodup_append.1 this).2.1
    have hnd' : (abv' ++ [y]).Nodup := by
      rw [List.nodup_append] at hnd; exact hnd.1
    obtain ⟨ih1, ih2⟩ := ih y p n hhead hcp hch'.1 hnd' (by simp at hf; omega) hny
    refine ⟨?_, ?_⟩
    · simp only [B, alGet_alAppend_ne edges p x c hpne, hinit, List.flatMap_append, List.flatMap_cons, List.flatMap_nil,
        List.append_nil, ih1]
      have : (init.flatMap fun d => (x, d) :: B (alAppend edges p c) n d) = init.flatMap fun d => (x, d) :: B edges n d := by
        apply flatMap_congr'
        intro d hd
        rw [B_alAppend_off]
        intro hp
        -- p is in the part of y and in the part of d: contradiction with Nodup
        have := (List.nodup_cons.1 hn).2
        rw [hBx] at this
        simp only [List.map_append, List.map_cons] at this
        have hdis := (List.nodup_append.1 this).2.2
        refine hdis p ?_ p ih2 rfl
        simp only [List.map_flatMap, List.mem_flatMap]
        exact ⟨d, hd, by simpa using hp⟩
      rw [this]
      simp
    · rw [hBx]
      simp only [List.map_append, List.map_cons, List.mem_cons, List.mem_append]
      simp only [List.mem_cons] at ih2
      rcases ih2 with h | h
      · exact Or.inr (Or.inr (Or.inl h))
      · exact Or.inr (Or.inr (Or.inr h))

end ChythonModel.Proofs.C02
