import ChythonModel.Proofs.C11Lemmas
/-!
# C11 — the whole V2000 MOL block: `parseMol2000 (writeMol2000 g)` computed without the text
-/
namespace ChythonModel.Proofs.C11
open ChythonModel.Model.C11 ChythonModel.Gen.Mdl

/-! ## property lines -/

theorem setAt_setAt (l : List α) (i : Nat) (f g : α → α) : setAt (setAt l i f) i g = setAt l i (g ∘ f) := by
  unfold setAt
  induction l generalizing i with
  | nil => simp
  | cons a as ih =>
    cases i with
    | zero => simp
    | succ i => simp [ih]

theorem setAt_length (l : List α) (i : Nat) (f : α → α) : (setAt l i f).length = l.length := by
  simp [setAt]

theorem isPrefixOf_append_of_le : ∀ (p pre tl : Str), p.length ≤ pre.length →
    p.isPrefixOf (pre ++ tl) = p.isPrefixOf pre := by
  intro p
  induction p with
  | nil => intro pre tl _; simp
  | cons c cs ih =>
    intro pre tl h
    cases pre with
    | nil => simp at h
    | cons d ds =>
      simp only [List.cons_append, List.isPrefixOf]
      rw [ih ds tl (by simpa using h)]

theorem startsWith_append_of_le (p pre tl : Str) (h : p.length ≤ pre.length) :
    startsWith (pre ++ tl) p = startsWith pre p := isPrefixOf_append_of_le p pre tl h

def isoF (v : Int) (a : PAtom) : PAtom := { a with isotope := some v }
def radF (a : PAtom) : PAtom := { a with rad := true }
def chgF (v : Int) (a : PAtom) : PAtom := { a with charge := v }

/-- one `M  XXX  1 nnn vvv` line in front of the property block -/
theorem parseProps_ctf_line (kind : Char) (tag : Str) (k : Nat) (v : Int) (vtxt : Str) (rest : List Str) (ps : List PAtom)
    (htag : tag = sL "M  ISO" ∧ kind = 'I' ∨ tag = sL "M  RAD" ∧ kind = 'R' ∨ tag = sL "M  CHG" ∧ kind = 'C')
    (hk1 : 1 ≤ k) (hk : k ≤ ps.length) (hk9 : k ≤ 999) (hv : vtxt.length = 3) (hvi : pyInt? vtxt = some v) :
    parseProps ((tag ++ sL "  1 " ++ fmtD 3 (k : Int) ++ sL " " ++ vtxt ++ sL "\n") :: rest) ps =
      parseProps rest (setAt ps (k - 1) fun a =>
        if kind == 'C' then { a with charge := v } else if kind == 'I' then { a with isotope := some v }
        else { a with rad := true }) := by
  have happ := ctfLine_apply kind tag k v ps (by rcases htag with h | h | h <;> rw [h.1] <;> rfl) hk1 hk hk9 vtxt hv hvi _ rfl
  generalize hL : tag ++ sL "  1 " ++ fmtD 3 (k : Int) ++ sL " " ++ vtxt ++ sL "\n" = line at happ ⊢
  have hpre : ∃ tl, line = tag ++ sL "  1 " ++ tl := ⟨fmtD 3 (k : Int) ++ sL " " ++ vtxt ++ sL "\n", by rw [← hL]; simp [List.append_assoc]⟩
  obtain ⟨tl, htl⟩ := hpre
  have hcnt : pyInt? (slice line 6 9) = some 1 := by
    rw [htl]
    rcases htag with h | h | h <;> rw [h.1] <;> simp [slice, sL] <;> decide
  have hkind : (line[3]?).getD ' ' = kind := by
    rw [htl]
    rcases htag with h | h | h <;> rw [h.1, h.2] <;> simp [sL]
  have hsw : ∀ p : Str, p.length ≤ 6 → startsWith line p = startsWith tag p := by
    intro p hp
    rw [htl, List.append_assoc, startsWith_append_of_le]
    rcases htag with h | h | h <;> rw [h.1] <;> exact hp
  have hend : startsWith line (sL "M  END") = false := by
    rw [hsw _ (by decide)]; rcases htag with h | h | h <;> rw [h.1] <;> decide
  have hals : startsWith line (sL "M  ALS") = false := by
    rw [hsw _ (by decide)]; rcases htag with h | h | h <;> rw [h.1] <;> decide
  have hany : (startsWith line (sL "M  ISO") || startsWith line (sL "M  RAD") || startsWith line (sL "M  CHG")) = true := by
    rw [hsw _ (by decide), hsw _ (by decide), hsw _ (by decide)]; rcases htag with h | h | h <;> rw [h.1] <;> decide
  rw [parseProps]
  have hend' : startsWith line "M  END".toList = false := hend
  have hals' : startsWith line "M  ALS".toList = false := hals
  have hany' : (startsWith line "M  ISO".toList || startsWith line "M  RAD".toList || startsWith line "M  CHG".toList) = true := hany
  simp only [hend', hals', hany', Bool.false_eq_true, if_false, if_true, intE, hcnt, hkind, bind, Except.bind, pure, Except.pure]
  have h1 : Int.toNat 1 = 1 := rfl
  rw [h1, happ]

theorem setAt_id (l : List α) (i : Nat) : setAt l i (fun a => a) = l := by
  unfold setAt
  induction l generalizing i with
  | nil => simp
  | cons a as ih => cases i <;> simp [ih]

/-- an optional single property line -/
theorem parseProps_opt_line (c : Bool) (kind : Char) (tag : Str) (k : Nat) (v : Int) (vtxt : Str) (rest : List Str)
    (ps : List PAtom)
    (htag : tag = sL "M  ISO" ∧ kind = 'I' ∨ tag = sL "M  RAD" ∧ kind = 'R' ∨ tag = sL "M  CHG" ∧ kind = 'C')
    (hk1 : 1 ≤ k) (hk : k ≤ ps.length) (hk9 : k ≤ 999) (hv : vtxt.length = 3) (hvi : pyInt? vtxt = some v)
    (f : PAtom → PAtom)
    (hf : f = fun a => if kind == 'C' then { a with charge := v } else if kind == 'I' then { a with isotope := some v }
        else { a with rad := true }) :
    parseProps ((if c then [tag ++ sL "  1 " ++ fmtD 3 (k : Int) ++ sL " " ++ vtxt ++ sL "\n"] else []) ++ rest) ps =
      parseProps rest (setAt ps (k - 1) (if c then f else fun a => a)) := by
  cases c with
  | false => simp [setAt_id]
  | true =>
    simp only [if_true, List.singleton_append]
    rw [parseProps_ctf_line kind tag k v vtxt rest ps htag hk1 hk hk9 hv hvi, hf]

/-- all property lines written for atom number `k` set exactly its isotope / radical flag / ±4 charge -/
theorem parseProps_atom (k : Nat) (a : WAtom) (rest : List Str) (ps : List PAtom)
    (hk1 : 1 ≤ k) (hk : k ≤ ps.length) (hk9 : k ≤ 999) (hiso : a.iso ≤ 999) :
    parseProps (writePropLines k a ++ rest) ps = parseProps rest (setAt ps (k - 1) (withProps a)) := by
  have e1 : sL "M  ISO  1 " ++ fmtD 3 (k : Int) ++ sL " " ++ fmtD 3 (a.iso : Int) ++ sL "\n" =
      sL "M  ISO" ++ sL "  1 " ++ fmtD 3 (k : Int) ++ sL " " ++ fmtD 3 (a.iso : Int) ++ sL "\n" := by simp [sL]
  have e2 : sL "M  RAD  1 " ++ fmtD 3 (k : Int) ++ sL "   2\n" =
      sL "M  RAD" ++ sL "  1 " ++ fmtD 3 (k : Int) ++ sL " " ++ sL "  2" ++ sL "\n" := by simp [sL]
  have e3 : sL "M  CHG  1 " ++ fmtD 3 (k : Int) ++ sL " " ++ fmtD 3 a.charge ++ sL "\n" =
      sL "M  CHG" ++ sL "  1 " ++ fmtD 3 (k : Int) ++ sL " " ++ fmtD 3 a.charge ++ sL "\n" := by simp [sL]
  unfold writePropLines
  rw [e1, e2, e3, List.append_assoc, List.append_assoc]
  have hisoLen : (fmtD 3 (a.iso : Int)).length = 3 := fmtD3_length (by omega) (by omega)
  rw [parseProps_opt_line (a.iso != 0) 'I' (sL "M  ISO") k (a.iso : Int) (fmtD 3 (a.iso : Int)) _ ps (Or.inl ⟨rfl, rfl⟩)
    hk1 hk hk9 hisoLen (pyInt_fmtD 3 _) _ rfl]
  rw [parseProps_opt_line a.rad 'R' (sL "M  RAD") k 2 (sL "  2") _ _ (Or.inr (Or.inl ⟨rfl, rfl⟩))
    hk1 (by rw [setAt_length]; exact hk) hk9 rfl (by decide) _ rfl]
  by_cases hc : (a.charge == -4 || a.charge == 4) = true
  · have hcl : (fmtD 3 a.charge).length = 3 := by
      simp only [Bool.or_eq_true, beq_iff_eq] at hc
      rcases hc with h | h <;> rw [h] <;> decide
    rw [parseProps_opt_line (a.charge == -4 || a.charge == 4) 'C' (sL "M  CHG") k a.charge (fmtD 3 a.charge) _ _
      (Or.inr (Or.inr ⟨rfl, rfl⟩)) hk1 (by rw [setAt_length, setAt_length]; exact hk) hk9 hcl (pyInt_fmtD 3 _) _ rfl]
    rw [setAt_setAt, setAt_setAt]
    congr 2
    funext p
    simp only [Function.comp, withProps, hc, if_true]
    cases hi : (a.iso != 0) <;> cases hr : a.rad <;> simp
  · have hc' : (a.charge == -4 || a.charge == 4) = false := by simpa using hc
    rw [hc']
    simp only [Bool.false_eq_true, if_false, List.nil_append]
    rw [setAt_setAt]
    congr 2
    funext p
    simp only [Function.comp, withProps, hc', Bool.false_eq_true, if_false]
    cases hi : (a.iso != 0) <;> cases hr : a.rad <;> simp

theorem setAt_append_cons (pre : List α) (x : α) (tl : List α) (f : α → α) :
    setAt (pre ++ x :: tl) pre.length f = pre ++ f x :: tl := by
  unfold setAt
  induction pre with
  | nil => simp
  | cons p ps ih => simp [ih]

/-- the whole property block written by `writeMol2000` -/
theorem parseProps_all (e : WAtom → PAtom) :
    ∀ (atoms : List WAtom) (k : Nat) (pre : List PAtom), pre.length + 1 = k → k + atoms.length ≤ 1000 →
      (∀ a ∈ atoms, a.iso ≤ 999) →
      parseProps (((enumFromK k atoms).map fun p => writePropLines p.1 p.2).flatten ++ [sL "M  END\n"])
        (pre ++ atoms.map e) = .ok (pre ++ atoms.map fun a => withProps a (e a)) := by
  intro atoms
  induction atoms with
  | nil =>
    intro k pre _ _ _
    simp only [enumFromK, List.map_nil, List.flatten_nil, List.nil_append, List.append_nil]
    rw [parseProps]
    have : startsWith (sL "M  END\n") "M  END".toList = true := by decide
    simp only [this, if_true, pure, Except.pure]
  | cons a as ih =>
    intro k pre hk hlen hiso
    simp only [enumFromK, List.map_cons, List.flatten_cons, List.append_assoc]
    simp only [List.length_cons] at hlen
    rw [parseProps_atom k a _ _ (by omega) (by simp; omega) (by omega) (hiso a (by simp))]
    have hk' : k - 1 = pre.length := by omega
    rw [hk', setAt_append_cons]
    have := ih (k + 1) (pre ++ [withProps a (e a)]) (by simp; omega) (by omega) (fun x hx => hiso x (by simp [hx]))
    simpa [List.append_assoc] using this

/-! ## written property lines are not S-group lines -/

theorem hasSgroupLine_false : ∀ (ls : List Str), (∀ l ∈ ls, sgroupPrefixes.any (startsWith l) = false) →
    hasSgroupLine ls = false := by
  intro ls
  induction ls with
  | nil => intro _; rfl
  | cons l ls ih =>
    intro h
    simp only [hasSgroupLine]
    split
    · rfl
    · simp [h l (by simp), ih (fun x hx => h x (by simp [hx]))]

theorem propLines_noSgroup (k : Nat) (a : WAtom) : ∀ l ∈ writePropLines k a, sgroupPrefixes.any (startsWith l) = false := by
  intro l hl
  have key : ∀ (tag tl : Str), tag.length = 10 → sgroupPrefixes.any (startsWith tag) = false →
      sgroupPrefixes.any (startsWith (tag ++ tl)) = false := by
    intro tag tl hlen h
    simp only [sgroupPrefixes, List.map_cons, List.map_nil, List.any_cons, List.any_nil, Bool.or_false] at h ⊢
    rw [startsWith_append_of_le _ _ _ (by rw [hlen]; decide), startsWith_append_of_le _ _ _ (by rw [hlen]; decide),
      startsWith_append_of_le _ _ _ (by rw [hlen]; decide), startsWith_append_of_le _ _ _ (by rw [hlen]; decide),
      startsWith_append_of_le _ _ _ (by rw [hlen]; decide)]
    exact h
  unfold writePropLines at hl
  simp only [List.mem_append] at hl
  rcases hl with (hl | hl) | hl
  · split at hl
    · simp only [List.mem_singleton] at hl; subst hl
      simp only [List.append_assoc]
      exact key _ _ rfl (by decide)
    · cases hl
  · split at hl
    · simp only [List.mem_singleton] at hl; subst hl
      simp only [List.append_assoc]
      exact key _ _ rfl (by decide)
    · cases hl
  · split at hl
    · simp only [List.mem_singleton] at hl; subst hl
      simp only [List.append_assoc]
      exact key _ _ rfl (by decide)
    · cases hl

/-! ## generic glue -/

theorem mapM'_ok_length {w : α → R β} : ∀ {xs : List α} {ls : List β}, mapM' w xs = .ok ls → ls.length = xs.length := by
  intro xs
  induction xs with
  | nil => intro ls h; simp [mapM', pure, Except.pure] at h; subst h; rfl
  | cons x xs ih =>
    intro ls h
    simp only [mapM', bind, Except.bind] at h
    cases hx : w x with
    | error e => rw [hx] at h; cases h
    | ok l =>
      rw [hx] at h
      cases hr : mapM' w xs with
      | error e => rw [hr] at h; cases h
      | ok r =>
        rw [hr] at h
        simp only [pure, Except.pure, Except.ok.injEq] at h
        subst h
        simp [ih hr]

/-- if every written line parses to `e x`, the written block parses to `xs.map e` -/
theorem mapM'_write_parse {w : α → R Str} {p : Str → R β} {e : α → β} :
    ∀ {xs : List α} {ls : List Str}, mapM' w xs = .ok ls → (∀ x ∈ xs, ∀ l, w x = .ok l → p l = .ok (e x)) →
      mapM' p ls = .ok (xs.map e) := by
  intro xs
  induction xs with
  | nil => intro ls h _; simp [mapM', pure, Except.pure] at h; subst h; rfl
  | cons x xs ih =>
    intro ls h hp
    simp only [mapM', bind, Except.bind] at h
    cases hx : w x with
    | error e => rw [hx] at h; cases h
    | ok l =>
      rw [hx] at h
      cases hr : mapM' w xs with
      | error e => rw [hr] at h; cases h
      | ok r =>
        rw [hr] at h
        simp only [pure, Except.pure, Except.ok.injEq] at h
        subst h
        have h1 := hp x (by simp) l hx
        have h2 := ih hr (fun y hy => hp y (by simp [hy]))
        simp [mapM', h1, h2, bind, Except.bind, pure, Except.pure]

theorem mapM'_append {p : α → R β} : ∀ {a b : List α} {xa xb : List β}, mapM' p a = .ok xa → mapM' p b = .ok xb →
    mapM' p (a ++ b) = .ok (xa ++ xb) := by
  intro a
  induction a with
  | nil => intro b xa xb ha hb; simp [mapM', pure, Except.pure] at ha; subst ha; simpa using hb
  | cons x xs ih =>
    intro b xa xb ha hb
    simp only [mapM', bind, Except.bind] at ha
    cases hx : p x with
    | error e => rw [hx] at ha; cases ha
    | ok l =>
      rw [hx] at ha
      cases hr : mapM' p xs with
      | error e => rw [hr] at ha; cases ha
      | ok r =>
        rw [hr] at ha
        simp only [pure, Except.pure, Except.ok.injEq] at ha
        subst ha
        have := ih hr hb
        simp [mapM', hx, this, bind, Except.bind, pure, Except.pure]

theorem pySlice_of_le (l : List α) (a b : Int) (ha : 0 ≤ a) (hab : a ≤ b) (hb : b ≤ (l.length : Int)) :
    pySlice l a b = slice l a.toNat b.toNat := by
  unfold pySlice
  have h1 : ¬ a < 0 := by omega
  have h2 : ¬ a > (l.length : Int) := by omega
  have h3 : ¬ b < 0 := by omega
  have h4 : ¬ b > (l.length : Int) := by omega
  simp only [h1, h2, h3, h4, if_false]

theorem strip_snoc_newline (s : Str) : strip (s ++ ['\n']) = strip s := by
  unfold strip lstrip rstrip
  rw [List.dropWhile_append]
  cases hd : s.dropWhile isSpace with
  | nil => simp; decide
  | cons c cs =>
    simp only [List.isEmpty_cons, Bool.false_eq_true, if_false]
    rw [List.reverse_append]
    have : ['\n'].reverse = ['\n'] := rfl
    rw [this, List.singleton_append, List.dropWhile_cons]
    have hn : isSpace '\n' = true := by decide
    simp [hn]

/-! ## the expected parse result, computed from the molecule without any text -/

/-- 1-based position of atom number `n` (`{m: n for n, m in enumerate(g, start=1)}[n]`), 0 if absent -/
def idx (atoms : List WAtom) (n : Nat) : Nat :=
  match atoms.findIdx? (·.num == n) with | some i => i + 1 | none => 0

/-- `bonds[n][m].order`, 0 if absent -/
def ordOf (atoms : List WAtom) (n m : Nat) : Nat :=
  match atoms.find? (·.num == n) with
  | some a => (a.nbrs.lookup m).getD 0
  | none => 0

def expBond (atoms : List WAtom) (b : Nat × Nat × Nat) : (Int × Int × Int) × Option (Int × Int × Int) :=
  (((idx atoms b.1 : Int) - 1, (idx atoms b.2.1 : Int) - 1, (b.2.2 : Int)), none)

def expWedge (atoms : List WAtom) (w : Nat × Nat × Int) : (Int × Int × Int) × Option (Int × Int × Int) :=
  (((idx atoms w.1 : Int) - 1, (idx atoms w.2.1 : Int) - 1, (ordOf atoms w.1 w.2.1 : Int)),
   some ((idx atoms w.1 : Int) - 1, (idx atoms w.2.1 : Int) - 1, w.2.2))

theorem atomIndex_ok {atoms : List WAtom} {n i : Nat} (h : atomIndex atoms n = .ok i) :
    i = idx atoms n ∧ i ≤ atoms.length := by
  unfold atomIndex at h
  unfold idx
  cases hf : atoms.findIdx? (·.num == n) with
  | none => rw [hf] at h; cases h
  | some k =>
    rw [hf] at h
    simp only [pure, Except.pure, Except.ok.injEq] at h
    have := List.findIdx?_eq_some_iff_getElem.mp hf
    obtain ⟨hk, _⟩ := this
    exact ⟨h.symm, by omega⟩

theorem bondOrder_ok {atoms : List WAtom} {n m o : Nat} (h : bondOrder atoms n m = .ok o) :
    o = ordOf atoms n m ∧ ∃ a ∈ atoms, (m, o) ∈ a.nbrs := by
  unfold bondOrder at h
  unfold ordOf
  cases hf : atoms.find? (·.num == n) with
  | none => rw [hf] at h; cases h
  | some a =>
    rw [hf] at h
    simp only [] at h ⊢
    cases hl : a.nbrs.lookup m with
    | none => rw [hl] at h; cases h
    | some o' =>
      rw [hl] at h
      simp only [pure, Except.pure, Except.ok.injEq] at h
      subst h
      refine ⟨by simp, a, List.mem_of_find?_eq_some hf, ?_⟩
      have := List.lookup_eq_some_iff.mp hl
      obtain ⟨l1, l2, heq, _⟩ := this
      rw [heq]; simp

theorem writeBondLine_parse (atoms : List WAtom) (hlen : atoms.length ≤ 999) (b : Nat × Nat × Nat) (ho : b.2.2 ≤ 8)
    (l : Str) (h : writeBondLine atoms b = .ok l) : parseBondLine l = .ok (expBond atoms b) := by
  obtain ⟨n, m, o⟩ := b
  simp only [writeBondLine, bind, Except.bind] at h
  cases hi : atomIndex atoms n with
  | error e => rw [hi] at h; cases h
  | ok i =>
    rw [hi] at h
    cases hj : atomIndex atoms m with
    | error e => rw [hj] at h; cases h
    | ok j =>
      rw [hj] at h
      simp only [pure, Except.pure, Except.ok.injEq] at h
      subst h
      obtain ⟨hi1, hi2⟩ := atomIndex_ok hi
      obtain ⟨hj1, hj2⟩ := atomIndex_ok hj
      rw [bondline_roundtrip i j o (by omega) (by omega) ho]
      simp [expBond, hi1, hj1]

theorem writeWedgeLine_parse (atoms : List WAtom) (hlen : atoms.length ≤ 999)
    (hord : ∀ a ∈ atoms, ∀ nb ∈ a.nbrs, nb.2 ≤ 8) (w : Nat × Nat × Int) (hs : w.2.2 = 1 ∨ w.2.2 = -1)
    (l : Str) (h : writeWedgeLine atoms w = .ok l) : parseBondLine l = .ok (expWedge atoms w) := by
  obtain ⟨n, m, s⟩ := w
  simp only [writeWedgeLine, bind, Except.bind] at h
  cases hi : atomIndex atoms n with
  | error e => rw [hi] at h; cases h
  | ok i =>
    rw [hi] at h
    cases hj : atomIndex atoms m with
    | error e => rw [hj] at h; cases h
    | ok j =>
      rw [hj] at h
      cases ho : bondOrder atoms n m with
      | error e => rw [ho] at h; cases h
      | ok o =>
        rw [ho] at h
        simp only [pure, Except.pure, Except.ok.injEq] at h
        subst h
        obtain ⟨hi1, hi2⟩ := atomIndex_ok hi
        obtain ⟨hj1, hj2⟩ := atomIndex_ok hj
        obtain ⟨ho1, a, ha, hmem⟩ := bondOrder_ok ho
        have ho8 : o ≤ 8 := hord a ha (m, o) hmem
        rw [wedgeline_roundtrip i j o s (by omega) (by omega) ho8 hs]
        simp [expWedge, hi1, hj1, ho1]

/-! ## the block theorem -/

/-- bonds written as plain lines (those not already written as wedge lines) -/
def plainBonds (g : WMol) : List (Nat × Nat × Nat) :=
  (bondsIter g.atoms []).filter fun b => !inWedge g.wedge b.1 b.2.1

/-- molecules the V2000 writer can represent faithfully -/
structure WFMol (g : WMol) : Prop where
  atomsNe : g.atoms ≠ []
  atomsOk : ∀ a ∈ g.atoms, WFAtom a ∧ a.iso ≤ 999
  count : g.atoms.length ≤ 999
  ordersOk : ∀ a ∈ g.atoms, ∀ nb ∈ a.nbrs, nb.2 ≤ 8
  wedgeSign : ∀ w ∈ g.wedge, w.2.2 = 1 ∨ w.2.2 = -1
  /-- the counts line agrees with the number of bond lines (true for symmetric adjacency; not proved here) -/
  countsOk : bondsCount g.atoms = g.wedge.length + (plainBonds g).length
  bondsFit : bondsCount g.atoms ≤ 999

/-- what `parse_mol_v2000` returns for the block written from `g` -/
def expectedMol (mapping : Bool) (g : WMol) : PMol :=
  { title := if (strip g.name).isEmpty then none else some (strip g.name),
    atoms := g.atoms.map fun a => withProps a (expectedAtom mapping a),
    bonds := (g.wedge.map fun w => (expWedge g.atoms w).1) ++ ((plainBonds g).map fun b => (expBond g.atoms b).1),
    stereo := g.wedge.map fun w => ((idx g.atoms w.1 : Int) - 1, (idx g.atoms w.2.1 : Int) - 1, w.2.2) }

theorem bondsIter_orders (atoms : List WAtom) (hord : ∀ a ∈ atoms, ∀ nb ∈ a.nbrs, nb.2 ≤ 8) :
    ∀ seen, ∀ b ∈ bondsIter atoms seen, b.2.2 ≤ 8 := by
  induction atoms with
  | nil => intro seen b hb; simp [bondsIter] at hb
  | cons a as ih =>
    intro seen b hb
    simp only [bondsIter, List.mem_append, List.mem_filterMap] at hb
    rcases hb with ⟨nb, hnb, hb⟩ | hb
    · split at hb
      · cases hb
      · simp only [Option.some.injEq] at hb
        subst hb
        exact hord a (by simp) nb hnb
    · exact ih (fun x hx => hord x (by simp [hx])) _ b hb

theorem molblock_roundtrip (mapping : Bool) (g : WMol) (h : WFMol g) (ls : List Str)
    (hw : writeMol2000 mapping g = .ok ls) : parseMol2000 ls = .ok (expectedMol mapping g) := by
  have hne : g.atoms.isEmpty = false := by
    cases hg : g.atoms with
    | nil => exact absurd hg h.atomsNe
    | cons _ _ => rfl
  have hnum : (g.atoms.any fun a => decide (a.num > 999)) = false := by
    rw [List.any_eq_false]
    intro a ha
    have := (h.atomsOk a ha).1.numHi
    simp; omega
  simp only [writeMol2000, hne, hnum, Bool.false_eq_true, if_false, bind, Except.bind, pure, Except.pure] at hw
  cases hal : mapM' (writeAtomLine mapping) g.atoms with
  | error e => rw [hal] at hw; cases hw
  | ok al =>
    rw [hal] at hw
    cases hwl : mapM' (writeWedgeLine g.atoms) g.wedge with
    | error e => rw [hwl] at hw; cases hw
    | ok wl =>
      rw [hwl] at hw
      cases hbl : mapM' (writeBondLine g.atoms)
          (List.filter (fun b => !inWedge g.wedge b.1 b.2.1) (bondsIter g.atoms [])) with
      | error e => rw [hbl] at hw; cases hw
      | ok bl =>
        rw [hbl] at hw
        simp only [Except.ok.injEq] at hw
        -- lengths
        have hlal : al.length = g.atoms.length := mapM'_ok_length hal
        have hlwl : wl.length = g.wedge.length := mapM'_ok_length hwl
        have hlbl : bl.length = (plainBonds g).length := mapM'_ok_length hbl
        have hnb : bondsCount g.atoms = wl.length + bl.length := by rw [hlwl, hlbl]; exact h.countsOk
        -- parsed sub-blocks
        have hpa : mapM' parseAtomLine al = .ok (g.atoms.map (expectedAtom mapping)) :=
          mapM'_write_parse hal (fun a ha l hl => by
            have := atomline_roundtrip mapping a (h.atomsOk a ha).1
            rw [hl] at this
            simpa [bind, Except.bind] using this)
        have hpw : mapM' parseBondLine wl = .ok (g.wedge.map (expWedge g.atoms)) :=
          mapM'_write_parse hwl (fun w hw' l hl =>
            writeWedgeLine_parse g.atoms h.count h.ordersOk w (h.wedgeSign w hw') l hl)
        have hpb : mapM' parseBondLine bl = .ok ((plainBonds g).map (expBond g.atoms)) :=
          mapM'_write_parse hbl (fun b hb l hl =>
            writeBondLine_parse g.atoms h.count b
              (bondsIter_orders g.atoms h.ordersOk [] b (List.mem_filter.mp hb).1) l hl)
        have hpwb : mapM' parseBondLine (wl ++ bl) =
            .ok (g.wedge.map (expWedge g.atoms) ++ (plainBonds g).map (expBond g.atoms)) := by
          exact mapM'_append hpw hpb
        subst hw
        have hI := fmtD3_length (m := (g.atoms.length : Int)) (by omega) (by have := h.count; omega)
        have hJ := fmtD3_length (m := (bondsCount g.atoms : Int)) (by omega) (by have := h.bondsFit; omega)
        generalize hcl : fmtD 3 (g.atoms.length : Int) ++ fmtD 3 (bondsCount g.atoms : Int) ++
          sL "  0  0  0  0            999 V2000\n" = cline
        have c1 : slice cline 0 3 = fmtD 3 (g.atoms.length : Int) := by
          rw [← hcl]
          have := slice_at [] (fmtD 3 (g.atoms.length : Int))
            (fmtD 3 (bondsCount g.atoms : Int) ++ sL "  0  0  0  0            999 V2000\n") 0 3 rfl hI
          simpa [List.append_assoc] using this
        have c2 : slice cline 3 6 = fmtD 3 (bondsCount g.atoms : Int) := by
          rw [← hcl]
          have := slice_at (fmtD 3 (g.atoms.length : Int)) (fmtD 3 (bondsCount g.atoms : Int))
            (sL "  0  0  0  0            999 V2000\n") 3 3 hI hJ
          simpa [List.append_assoc] using this
        generalize hpl : (List.map (fun p => writePropLines p.fst p.snd) (enumFrom1 g.atoms)).flatten = pl
        have hnosg : hasSgroupLine (pl ++ [sL "M  END\n"]) = false := by
          apply hasSgroupLine_false
          intro l hl
          rw [← hpl] at hl
          simp only [List.mem_append, List.mem_flatten, List.mem_map, List.mem_singleton] at hl
          rcases hl with ⟨pls, ⟨p, _, rfl⟩, hl⟩ | hl
          · exact propLines_noSgroup p.1 p.2 l hl
          · subst hl; decide
        have hprops : parseProps (pl ++ [sL "M  END\n"]) (g.atoms.map (expectedAtom mapping)) =
            .ok (g.atoms.map fun a => withProps a (expectedAtom mapping a)) := by
          rw [← hpl]
          have := parseProps_all (expectedAtom mapping) g.atoms 1 [] rfl (by have := h.count; omega)
            (fun a ha => (h.atomsOk a ha).2)
          simpa [enumFrom1] using this
        generalize hn0 : g.name ++ sL "\n" = n0
        have hdata : [n0, sL "\n", sL "\n", cline] ++ al ++ wl ++ bl ++ pl ++ [sL "M  END\n"] =
            [n0, sL "\n", sL "\n", cline] ++ (al ++ ((wl ++ bl) ++ (pl ++ [sL "M  END\n"]))) := by
          simp [List.append_assoc]
        rw [hdata]
        generalize hD : [n0, sL "\n", sL "\n", cline] ++ (al ++ ((wl ++ bl) ++ (pl ++ [sL "M  END\n"]))) = data
        have hlen : data.length = 4 + g.atoms.length + bondsCount g.atoms + pl.length + 1 := by
          rw [← hD]; simp [hlal, hnb]; omega
        have d3 : data[3]? = some cline := by rw [← hD]; rfl
        have d0 : data[0]? = some n0 := by rw [← hD]; rfl
        have sA : pySlice data 4 (4 + (g.atoms.length : Int)) = al := by
          rw [pySlice_of_le _ _ _ (by omega) (by omega) (by rw [hlen]; omega)]
          have e1 : (4 : Int).toNat = 4 := rfl
          have e2 : ((4 : Int) + (g.atoms.length : Int)).toNat = 4 + al.length := by omega
          rw [e1, e2, ← hD]
          exact slice_at _ al _ 4 al.length rfl rfl
        have sB : pySlice data (4 + (g.atoms.length : Int)) (4 + (g.atoms.length : Int) + (bondsCount g.atoms : Int)) = wl ++ bl := by
          rw [pySlice_of_le _ _ _ (by omega) (by omega) (by rw [hlen]; omega)]
          have e1 : ((4 : Int) + (g.atoms.length : Int)).toNat = 4 + al.length := by omega
          have e2 : ((4 : Int) + (g.atoms.length : Int) + (bondsCount g.atoms : Int)).toNat = 4 + al.length + (wl ++ bl).length := by
            simp; omega
          rw [e1, e2, ← hD]
          have := slice_at ([n0, sL "\n", sL "\n", cline] ++ al) (wl ++ bl) (pl ++ [sL "M  END\n"]) (4 + al.length)
            (wl ++ bl).length (by simp; omega) rfl
          simpa [List.append_assoc] using this
        have sC : pySlice data (4 + (g.atoms.length : Int) + (bondsCount g.atoms : Int)) (data.length : Int) = pl ++ [sL "M  END\n"] := by
          rw [pySlice_of_le _ _ _ (by omega) (by rw [hlen]; omega) (by omega)]
          have e1 : ((4 : Int) + (g.atoms.length : Int) + (bondsCount g.atoms : Int)).toNat = 4 + al.length + (wl ++ bl).length := by
            simp; omega
          have e2 : ((data.length : Nat) : Int).toNat = 4 + al.length + (wl ++ bl).length + (pl ++ [sL "M  END\n"]).length := by
            rw [hlen]; simp; omega
          rw [e1, e2, ← hD]
          have := slice_at ([n0, sL "\n", sL "\n", cline] ++ al ++ (wl ++ bl)) (pl ++ [sL "M  END\n"]) []
            (4 + al.length + (wl ++ bl).length) (pl ++ [sL "M  END\n"]).length (by simp; omega) rfl
          simpa [List.append_assoc] using this
        have hz : (((g.atoms.length : Nat) : Int) == 0) = false := by
          have : g.atoms.length ≠ 0 := by
            intro h0; exact h.atomsNe (List.length_eq_zero_iff.mp h0)
          simp only [beq_eq_false_iff_ne, ne_eq]; omega
        have htitle : strip n0 = strip g.name := by rw [← hn0]; exact strip_snoc_newline g.name
        unfold parseMol2000
        simp only [lineAt, d3, d0, c1, c2, intE, pyInt_fmtD, bind, Except.bind, pure, Except.pure, hz,
          Bool.false_eq_true, if_false, sA, sB, sC, hpa, hpwb, hnosg, hprops, htitle]
        simp [expectedMol, List.map_append, List.filterMap_append, expWedge, expBond, List.filterMap_map, Function.comp_def]

/-! ## decidable versions of the well-formedness predicates (to exhibit instances) -/

def wfAtomB (a : WAtom) : Bool :=
  decide ((f4 a.x).length ≤ 10) && decide ((f4 a.y).length ≤ 10) && decide (a.sym.length ≤ 3) && !a.sym.isEmpty &&
  (a.sym.all fun c => !isSpace c) && !inAL a.sym && (a.sym != ['D']) && decide (-4 ≤ a.charge) && decide (a.charge ≤ 4) &&
  decide (a.num ≤ 999)

theorem wfAtom_of_B {a : WAtom} (h : wfAtomB a = true) : WFAtom a := by
  simp only [wfAtomB, Bool.and_eq_true, decide_eq_true_eq, Bool.not_eq_true', bne_iff_ne, ne_eq] at h
  obtain ⟨⟨⟨⟨⟨⟨⟨⟨⟨h1, h2⟩, h3⟩, h4⟩, h5⟩, h6⟩, h7⟩, h8⟩, h9⟩, h10⟩ := h
  exact ⟨h1, h2, h3, (by intro hs; rw [hs] at h4; cases h4), h5, ⟨h6, h7⟩, h8, h9, h10⟩

def wfMolB (g : WMol) : Bool :=
  !g.atoms.isEmpty && g.atoms.all (fun a => wfAtomB a && decide (a.iso ≤ 999)) && decide (g.atoms.length ≤ 999) &&
  g.atoms.all (fun a => a.nbrs.all fun nb => decide (nb.2 ≤ 8)) &&
  g.wedge.all (fun w => w.2.2 == 1 || w.2.2 == -1) &&
  decide (bondsCount g.atoms = g.wedge.length + (plainBonds g).length) && decide (bondsCount g.atoms ≤ 999)

theorem wfMol_of_B {g : WMol} (h : wfMolB g = true) : WFMol g := by
  simp only [wfMolB, Bool.and_eq_true, decide_eq_true_eq, Bool.not_eq_true', List.all_eq_true, Bool.or_eq_true,
    beq_iff_eq] at h
  obtain ⟨⟨⟨⟨⟨⟨h1, h2⟩, h3⟩, h4⟩, h5⟩, h6⟩, h7⟩ := h
  exact ⟨(by intro hs; rw [hs] at h1; cases h1), fun a ha => ⟨wfAtom_of_B (h2 a ha).1, (h2 a ha).2⟩, h3,
    fun a ha nb hnb => h4 a ha nb hnb, fun w hw => h5 w hw, h6, h7⟩

/-! ## the written chunks are exactly the lines a reader sees -/

/-- a chunk that is one text line: ends with its only newline -/
def IsLine (l : Str) : Prop := ∃ body, l = body ++ ['\n'] ∧ '\n' ∉ body

theorem splitLinesKeep_line_append (body : Str) (h : '\n' ∉ body) (rest : Str) :
    splitLinesKeep (body ++ '\n' :: rest) = (body ++ ['\n']) :: splitLinesKeep rest := by
  induction body with
  | nil => simp [splitLinesKeep]
  | cons c cs ih =>
    have hc : c ≠ '\n' := by intro hc; subst hc; simp at h
    have hcs : '\n' ∉ cs := by intro hm; exact h (by simp [hm])
    simp only [List.cons_append, splitLinesKeep]
    have : (c == '\n') = false := by simpa using hc
    simp only [this, Bool.false_eq_true, if_false, ih hcs]

/-- splitting the concatenated text of line chunks gives back the chunks -/
theorem splitLinesKeep_flatten : ∀ (ls : List Str), (∀ l ∈ ls, IsLine l) → splitLinesKeep ls.flatten = ls := by
  intro ls
  induction ls with
  | nil => intro _; rfl
  | cons l ls ih =>
    intro h
    obtain ⟨body, hb, hn⟩ := h l (by simp)
    subst hb
    simp only [List.flatten_cons, List.append_assoc, List.singleton_append]
    rw [splitLinesKeep_line_append body hn, ih (fun x hx => h x (by simp [hx]))]

end ChythonModel.Proofs.C11
