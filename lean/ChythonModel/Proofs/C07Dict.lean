import Mathlib.Data.List.Nodup
import Mathlib.Data.List.Basic
import Mathlib.Data.List.Zip
import ChythonModel.Model.Iso
import ChythonModel.Proofs.C07Compile
/-!
Dictionary facts for the stack machine: `mapping` / `reversed_mapping` are always the zip of the fronts with the current
path (and its mirror image); `truncate` (the `del mapping[reversed_mapping.pop(x)]` loop) restores that shape.
-/
namespace ChythonModel.Proofs.C07
open ChythonModel.Model.Iso

theorem dict_has_iff (d : Dict) (k : Nat) : d.has k = true ↔ k ∈ d.map (·.1) := by
  unfold Dict.has
  simp only [List.any_eq_true, beq_iff_eq, List.mem_map]

theorem dict_set_new (d : Dict) (k v : Nat) (h : k ∉ d.map (·.1)) : d.set k v = d ++ [(k, v)] := by
  unfold Dict.set
  have : d.any (·.1 == k) = false := by
    cases hc : d.any (·.1 == k) with
    | false => rfl
    | true => exact absurd ((dict_has_iff d k).1 hc) h
  simp [this]

theorem dict_del_present (d : Dict) (k : Nat) (h : k ∈ d.map (·.1)) : d.del? k = some (d.filter (·.1 != k)) := by
  unfold Dict.del?
  have : d.any (·.1 == k) = true := (dict_has_iff d k).2 h
  simp [this]

/-- removing the entries of the values `xs` from a pair list and from its mirror image -/
theorem truncate_spec : ∀ (xs : List Nat) (L : List (Nat × Nat)), (L.map (·.1)).Nodup → (L.map (·.2)).Nodup →
    xs.Nodup → (∀ x ∈ xs, x ∈ L.map (·.2)) →
    truncate xs L (L.map Prod.swap) = some (L.filter (fun p => !xs.contains p.2), (L.filter (fun p => !xs.contains p.2)).map Prod.swap) := by
  intro xs
  induction xs with
  | nil => intro L _ _ _ _; simp [truncate]
  | cons x tl ih =>
    intro L hk hv hnd hall
    rw [List.nodup_cons] at hnd
    obtain ⟨p, hp, hpx⟩ := List.mem_map.1 (hall x (by simp))
    obtain ⟨k, x'⟩ := p
    simp only at hpx
    subst hpx
    -- the entry of value x' is (k, x')
    have hlook : (L.map Prod.swap).lookup x' = some k := by
      apply lookup_of_mem_nodup
      · rw [List.map_map]
        have e : ((fun x : Nat × Nat => x.fst) ∘ Prod.swap) = (fun x => x.snd) := by funext x; rfl
        rw [e]; exact hv
      · exact List.mem_map.2 ⟨(k, x'), hp, rfl⟩
    have hkeyeq : ∀ p ∈ L, (p.1 = k ↔ p.2 = x') := by
      intro p hpL
      constructor
      · intro h1
        have := List.inj_on_of_nodup_map hk hpL hp h1
        rw [this]
      · intro h2
        have := List.inj_on_of_nodup_map hv hpL hp h2
        rw [this]
    have hdel1 : Dict.del? (L.map Prod.swap) x' = some ((L.filter fun p => p.2 != x').map Prod.swap) := by
      rw [dict_del_present _ _ (by
        rw [List.map_map]
        exact List.mem_map.2 ⟨(k, x'), hp, rfl⟩)]
      rw [List.filter_map]
      rfl
    have hdel2 : Dict.del? L k = some (L.filter fun p => p.2 != x') := by
      rw [dict_del_present _ _ (List.mem_map.2 ⟨(k, x'), hp, rfl⟩)]
      congr 1
      apply List.filter_congr
      intro p hpL
      have := hkeyeq p hpL
      by_cases h1 : p.1 = k
      · simp [h1, this.1 h1]
      · have h2 : p.2 ≠ x' := fun h => h1 (this.2 h)
        have a : (p.1 != k) = true := by simpa using h1
        have b : (p.2 != x') = true := by simpa using h2
        rw [a, b]
    unfold truncate
    simp only [hlook, hdel1, hdel2, Option.bind_eq_bind, Option.bind_some]
    set L' := L.filter fun p => p.2 != x' with hL'
    have hsub : List.Sublist L' L := List.filter_sublist
    rw [ih L' (List.Nodup.sublist (List.Sublist.map _ hsub) hk) (List.Nodup.sublist (List.Sublist.map _ hsub) hv)
      hnd.2 (by
        intro y hy
        obtain ⟨p, hp2, hpy⟩ := List.mem_map.1 (hall y (by simp [hy]))
        refine List.mem_map.2 ⟨p, ?_, hpy⟩
        rw [hL', List.mem_filter]
        refine ⟨hp2, ?_⟩
        have : p.2 ≠ x' := by
          rw [hpy]; intro h; exact hnd.1 (h ▸ hy)
        simpa using this)]
    have hfe : L'.filter (fun p => !tl.contains p.2) = L.filter (fun p => !(x' :: tl).contains p.2) := by
      rw [hL', List.filter_filter]
      apply List.filter_congr
      intro p _
      by_cases h1 : p.2 = x'
      · simp [h1]
      · simp [h1, List.contains_cons]
    rw [hfe]

/-! ### the canonical dictionaries of a path -/

theorem zip_prefix (F P : List Nat) (h : P.length ≤ F.length) : F.zip P = (F.take P.length).zip P := by
  have := @List.zip_eq_zip_take_min _ _ F P
  rw [Nat.min_eq_right h, List.take_length] at this
  exact this

theorem zip_keys (F P : List Nat) (h : P.length ≤ F.length) : (F.zip P).map (·.1) = F.take P.length := by
  rw [zip_prefix F P h]
  exact List.map_fst_zip (by simp [h])

theorem zip_vals (F P : List Nat) (h : P.length ≤ F.length) : (F.zip P).map (·.2) = P :=
  List.map_snd_zip h

theorem zip_snoc (F P : List Nat) (k n : Nat) (hk : F[P.length]? = some k) :
    F.zip (P ++ [n]) = F.zip P ++ [(k, n)] := by
  have hlt : P.length < F.length := by
    by_contra hc
    rw [List.getElem?_eq_none (by omega)] at hk
    simp at hk
  rw [zip_prefix F (P ++ [n]) (by simp; omega), zip_prefix F P (by omega)]
  have : F.take (P ++ [n]).length = F.take P.length ++ [k] := by
    rw [List.length_append, List.length_singleton, List.take_add_one, hk]
    rfl
  rw [this, List.zip_append (by simp; omega)]
  rfl

theorem zip_snoc' (F P : List Nat) (k n : Nat) (hk : F[P.length]? = some k) :
    (P ++ [n]).zip F = P.zip F ++ [(n, k)] := by
  have := congrArg (List.map Prod.swap) (zip_snoc F P k n hk)
  rw [List.map_append, List.zip_swap, List.zip_swap] at this
  exact this

end ChythonModel.Proofs.C07
