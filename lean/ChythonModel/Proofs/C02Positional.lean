import ChythonModel.Proofs.C02Final
/-!
# C02 — the positional reader on lexer tokens simulates the connection semantics on writer tokens

`readToks` knows the atom ids (they are carried by the writer's tokens); a real reader only sees the text: it numbers the
atoms in order of appearance (`readL` on lexer tokens).  Whenever `readToks` succeeds on writer tokens, `readL` succeeds on
their lexical images, reads the same number of atoms, and its bonds, mapped through the written order, are the same bonds.
-/
namespace ChythonModel.Proofs.C02
open ChythonModel.Model ChythonModel.Model.SmilesWriter ChythonModel.Model.C02RT

/-- the atom id at a written position -/
def atPos (seen : List Nat) (i : Nat) : Nat := seen.getD i 0

theorem atPos_append_lt (seen more : List Nat) (i : Nat) (h : i < seen.length) : atPos (seen ++ more) i = atPos seen i := by
  simp [atPos, List.getD_eq_getElem?_getD, List.getElem?_append_left h]

theorem atPos_append_length (seen : List Nat) (n : Nat) (more : List Nat) : atPos (seen ++ n :: more) seen.length = n := by
  simp [atPos, List.getD_eq_getElem?_getD]

structure Sim (seen : List Nat) (st : RState) (ps : PState) : Prop where
  count : ps.count = seen.length
  prev : st.prev = ps.prev.map (atPos seen)
  prevLt : ∀ i, ps.prev = some i → i < seen.length
  stack : st.stack = ps.stack.map (atPos seen)
  stackLt : ∀ i ∈ ps.stack, i < seen.length
  pending : ps.pending = true → st.pending.isSome = true
  afterDot : st.afterDot = ps.afterDot
  opened : st.opened.map (fun p => (p.1, p.2.1)) = ps.opened.map (fun p => (p.1, atPos seen p.2))
  openedLt : ∀ p ∈ ps.opened, p.2 < seen.length
  edges : st.edges.map (fun e => (e.a, e.b)) = ps.edges.map (fun p => (atPos seen p.1, atPos seen p.2))
  edgesLt : ∀ p ∈ ps.edges, p.1 < seen.length ∧ p.2 < seen.length

theorem Sim.grow {seen : List Nat} {st : RState} {ps : PState} (h : Sim seen st ps) (more : List Nat) (hc : ps.count = (seen ++ more).length) :
    Sim (seen ++ more) st ps where
  count := hc
  prev := by
    rw [h.prev]
    cases hp : ps.prev with
    | none => rfl
    | some i => simp [atPos_append_lt seen more i (h.prevLt i hp)]
  prevLt := fun i hi => by have := h.prevLt i hi; simp; omega
  stack := by
    rw [h.stack]
    apply List.map_congr_left
    intro i hi
    exact (atPos_append_lt seen more i (h.stackLt i hi)).symm
  stackLt := fun i hi => by have := h.stackLt i hi; simp; omega
  pending := h.pending
  afterDot := h.afterDot
  opened := by
    rw [h.opened]
    apply List.map_congr_left
    intro p hp
    rw [atPos_append_lt seen more p.2 (h.openedLt p hp)]
  openedLt := fun p hp => by have := h.openedLt p hp; simp; omega
  edges := by
    rw [h.edges]
    apply List.map_congr_left
    intro p hp
    rw [atPos_append_lt seen more p.1 (h.edgesLt p hp).1, atPos_append_lt seen more p.2 (h.edgesLt p hp).2]
  edgesLt := fun p hp => by have := h.edgesLt p hp; simp; omega

theorem lookup_map_fst_snd {α β} (f : α → β) (c : Nat) : ∀ (o : List (Nat × α)),
    (o.map fun p => (p.1, f p.2)).lookup c = (o.lookup c).map f := by
  intro o
  induction o with
  | nil => rfl
  | cons hd tl ih =>
    obtain ⟨k, v⟩ := hd
    simp only [List.map_cons, List.lookup]
    split <;> simp_all

theorem filter_map_fst_snd {α β} (f : α → β) (c : Nat) : ∀ (o : List (Nat × α)),
    (o.map fun p => (p.1, f p.2)).filter (fun p => p.1 != c) = (o.filter (fun p => p.1 != c)).map fun p => (p.1, f p.2) := by
  intro o
  induction o with
  | nil => rfl
  | cons hd tl ih =>
    obtain ⟨k, v⟩ := hd
    simp only [List.map_cons, List.filter_cons]
    split <;> simp_all

/-- one writer token: if the id-carrying reader accepts it, the positional reader accepts its lexical image (if any) -/
theorem sim_step {seen : List Nat} {st st' : RState} {ps : PState} (h : Sim seen st ps) (t : WTok)
    (hr : rstep st t = .ok st') :
    ∃ ps', (match toL t with | some l => pstep ps l | none => .ok ps) = .ok ps' ∧ Sim (seen ++ wAtoms [t]) st' ps' := by
  cases t with
  | atom n a =>
    simp only [rstep, Except.ok.injEq] at hr
    subst hr
    have htl : toL (WTok.atom n a) = some (if a.bracket then .bracket (ATok.inner a) else .plain a.symbol) := rfl
    have hps : pstep ps (if a.bracket then LTok.bracket (ATok.inner a) else LTok.plain a.symbol) = .ok (pAtom ps) := by
      split <;> rfl
    refine ⟨pAtom ps, by rw [htl]; exact hps, ?_⟩
    have hw : wAtoms [WTok.atom n a] = [n] := rfl
    rw [hw]
    exact {
      count := by simp [pAtom, h.count]
      prev := by simp [pAtom, h.count, atPos_append_length seen n []]
      prevLt := fun i hi => by
        simp only [pAtom, Option.some.injEq] at hi
        subst hi
        simp [h.count]
      stack := by
        simp only [pAtom]
        rw [h.stack]
        apply List.map_congr_left
        intro i hi
        exact (atPos_append_lt seen [n] i (h.stackLt i hi)).symm
      stackLt := fun i hi => by have := h.stackLt i (by simpa [pAtom] using hi); simp; omega
      pending := by simp [pAtom]
      afterDot := by simp [pAtom]
      opened := by
        simp only [pAtom]
        rw [h.opened]
        apply List.map_congr_left
        intro p hp
        rw [atPos_append_lt seen [n] p.2 (h.openedLt p hp)]
      openedLt := fun p hp => by have := h.openedLt p (by simpa [pAtom] using hp); simp; omega
      edges := by
        have hold : ps.edges.map (fun p => (atPos seen p.1, atPos seen p.2)) =
            ps.edges.map (fun p => (atPos (seen ++ [n]) p.1, atPos (seen ++ [n]) p.2)) := by
          apply List.map_congr_left
          intro p hp
          rw [atPos_append_lt seen [n] p.1 (h.edgesLt p hp).1, atPos_append_lt seen [n] p.2 (h.edgesLt p hp).2]
        have hprev := h.prev
        have had := h.afterDot
        cases hp : ps.prev with
        | none =>
          rw [hp] at hprev
          simp only [Option.map_none] at hprev
          simp only [pAtom, hp, hprev]
          rw [h.edges, hold]
        | some i =>
          rw [hp] at hprev
          simp only [Option.map_some] at hprev
          cases hd : ps.afterDot with
          | true =>
            rw [hd] at had
            simp only [pAtom, hp, hd, hprev, had]
            rw [h.edges, hold]
          | false =>
            rw [hd] at had
            simp only [pAtom, hp, hd, hprev, had, List.map_cons]
            rw [h.edges, hold, h.count, atPos_append_length seen n [], atPos_append_lt seen [n] i (h.prevLt i hp)]
      edgesLt := fun p hp => by
        simp only [pAtom] at hp
        have key : ∀ q ∈ ps.edges, q.1 < (seen ++ [n]).length ∧ q.2 < (seen ++ [n]).length := by
          intro q hq; have := h.edgesLt q hq; simp; omega
        cases hpp : ps.prev with
        | none => rw [hpp] at hp; exact key p hp
        | some i =>
          rw [hpp] at hp
          cases hd : ps.afterDot with
          | true => rw [hd] at hp; exact key p hp
          | false =>
            rw [hd] at hp
            rcases List.mem_cons.1 hp with rfl | hp
            · have := h.prevLt i hpp
              simp [h.count]; omega
            · exact key p hp }
  | bond s =>
    simp only [rstep] at hr
    split at hr
    · cases hr
    · rename_i hpend
      simp only [Except.ok.injEq] at hr
      subst hr
      have hw : wAtoms [WTok.bond s] = [] := rfl
      rw [hw, List.append_nil]
      have hnp : ps.pending = false := by
        cases hp : ps.pending with
        | false => rfl
        | true => exact absurd (h.pending hp) hpend
      cases s with
      | nil =>
        exact ⟨ps, rfl, { h with pending := fun _ => rfl }⟩
      | cons c cs =>
        refine ⟨{ ps with pending := true }, by simp [toL, pstep, hnp], { h with pending := fun _ => rfl }⟩
  | closure c =>
    simp only [rstep] at hr
    have hw : wAtoms [WTok.closure c] = [] := rfl
    rw [hw, List.append_nil]
    have htl : toL (WTok.closure c) = some (LTok.closure c) := rfl
    rw [htl]
    have hprev := h.prev
    cases hp : ps.prev with
    | none =>
      rw [hp] at hprev
      simp only [Option.map_none] at hprev
      rw [hprev] at hr
      cases hr
    | some cur =>
      rw [hp] at hprev
      simp only [Option.map_some] at hprev
      rw [hprev] at hr
      simp only at hr
      have hlk : (st.opened.lookup c).map (·.1) = (ps.opened.lookup c).map (atPos seen) := by
        have e1 := lookup_map_fst_snd (fun (x : Nat × Option Str) => x.1) c st.opened
        have e2 := lookup_map_fst_snd (atPos seen) c ps.opened
        rw [← e1, ← e2, h.opened]
      cases hlo : st.opened.lookup c with
      | some as1 =>
        obtain ⟨a, s1⟩ := as1
        rw [hlo] at hr hlk
        simp only at hr
        split at hr
        · cases hr
        · rename_i hne
          simp only [Except.ok.injEq] at hr
          subst hr
          cases hpo : ps.opened.lookup c with
          | none => rw [hpo] at hlk; simp at hlk
          | some i =>
            rw [hpo] at hlk
            simp only [Option.map_some, Option.some.injEq] at hlk
            have hne' : (i == cur) = false := by
              cases hic : i == cur with
              | false => rfl
              | true =>
                have : i = cur := by simpa using hic
                subst this
                exact absurd (by simp [hlk]) hne
            refine ⟨{ ps with opened := ps.opened.filter (·.1 != c), pending := false, edges := (i, cur) :: ps.edges },
              by simp [pstep, hp, hpo, hne'], ?_⟩
            have hilt : i < seen.length := by
              have : (c, i) ∈ ps.opened := lookup_mem' _ _ _ hpo
              exact h.openedLt _ this
            exact { h with
              prev := by simp [hp]
              pending := by simp
              opened := by
                have e1 := filter_map_fst_snd (fun (x : Nat × Option Str) => x.1) c st.opened
                have e2 := filter_map_fst_snd (atPos seen) c ps.opened
                simp only at e1 e2 ⊢
                rw [← e1, ← e2, h.opened]
              openedLt := fun p hp' => h.openedLt p (List.mem_filter.1 hp').1
              edges := by simp only [List.map_cons]; rw [h.edges, hlk]
              edgesLt := fun p hp' => by
                rcases List.mem_cons.1 hp' with rfl | hp'
                · exact ⟨hilt, h.prevLt cur hp⟩
                · exact h.edgesLt p hp' }
      | none =>
        rw [hlo] at hr hlk
        simp only [Except.ok.injEq] at hr
        subst hr
        cases hpo : ps.opened.lookup c with
        | some i => rw [hpo] at hlk; simp at hlk
        | none =>
          refine ⟨{ ps with opened := ps.opened ++ [(c, cur)], pending := false }, by simp [pstep, hp, hpo], ?_⟩
          exact { h with
            prev := by simp [hp]
            pending := by simp
            opened := by simp only [List.map_append, List.map_cons, List.map_nil]; rw [h.opened]
            openedLt := fun p hp' => by
              rcases List.mem_append.1 hp' with hp' | hp'
              · exact h.openedLt p hp'
              · simp only [List.mem_singleton] at hp'; subst hp'; exact h.prevLt cur hp }
  | lpar =>
    simp only [rstep] at hr
    have hw : wAtoms [WTok.lpar] = [] := rfl
    rw [hw, List.append_nil]
    have htl : toL WTok.lpar = some LTok.lpar := rfl
    rw [htl]
    have hprev := h.prev
    cases hp : ps.prev with
    | none =>
      rw [hp] at hprev
      simp only [Option.map_none] at hprev
      rw [hprev] at hr
      cases hr
    | some p =>
      rw [hp] at hprev
      simp only [Option.map_some] at hprev
      rw [hprev] at hr
      simp only at hr
      split at hr
      · cases hr
      · rename_i hpend
        simp only [Except.ok.injEq] at hr
        subst hr
        have hnp : ps.pending = false := by
          cases hpp : ps.pending with
          | false => rfl
          | true => exact absurd (h.pending hpp) hpend
        refine ⟨{ ps with stack := p :: ps.stack }, by simp [pstep, hp, hnp], ?_⟩
        exact { h with
          prev := by simp [hp]
          stack := by simp only [List.map_cons]; rw [h.stack]
          stackLt := fun i hi => by
            rcases List.mem_cons.1 hi with rfl | hi
            · exact h.prevLt _ hp
            · exact h.stackLt i hi }
  | rpar =>
    simp only [rstep] at hr
    have hw : wAtoms [WTok.rpar] = [] := rfl
    rw [hw, List.append_nil]
    have htl : toL WTok.rpar = some LTok.rpar := rfl
    rw [htl]
    have hstack := h.stack
    cases hs : ps.stack with
    | nil =>
      rw [hs] at hstack
      simp only [List.map_nil] at hstack
      rw [hstack] at hr
      cases hr
    | cons p tl =>
      rw [hs] at hstack
      simp only [List.map_cons] at hstack
      rw [hstack] at hr
      simp only at hr
      split at hr
      · cases hr
      · rename_i hpend
        simp only [Except.ok.injEq] at hr
        subst hr
        have hnp : ps.pending = false := by
          cases hpp : ps.pending with
          | false => rfl
          | true => exact absurd (h.pending hpp) hpend
        refine ⟨{ ps with prev := some p, stack := tl }, by simp [pstep, hs, hnp], ?_⟩
        exact { h with
          prev := by simp
          prevLt := fun i hi => by
            simp only [Option.some.injEq] at hi
            subst hi
            exact h.stackLt _ (by simp [hs])
          stack := rfl
          stackLt := fun i hi => h.stackLt i (by simp [hs, hi]) }
  | dot =>
    simp only [rstep, Except.ok.injEq] at hr
    subst hr
    have hw : wAtoms [WTok.dot] = [] := rfl
    rw [hw, List.append_nil]
    exact ⟨{ ps with afterDot := true }, rfl, { h with afterDot := rfl }⟩

theorem wAtoms_cons (t : WTok) (ts : List WTok) : wAtoms (t :: ts) = wAtoms [t] ++ wAtoms ts := by
  cases t <;> simp [wAtoms, List.filterMap_cons]

theorem sim_run : ∀ (ts : List WTok) (seen : List Nat) (st st' : RState) (ps : PState), Sim seen st ps →
    rrun st ts = .ok st' → ∃ ps', prun ps (ts.filterMap toL) = .ok ps' ∧ Sim (seen ++ wAtoms ts) st' ps' := by
  intro ts
  induction ts with
  | nil =>
    intro seen st st' ps h hr
    simp only [rrun, Except.ok.injEq] at hr
    subst hr
    exact ⟨ps, rfl, by simpa [wAtoms] using h⟩
  | cons t ts ih =>
    intro seen st st' ps h hr
    simp only [rrun] at hr
    split at hr
    · cases hr
    · rename_i st1 hst1
      obtain ⟨ps1, hp1, hs1⟩ := sim_step h t hst1
      obtain ⟨ps', hp', hs'⟩ := ih _ st1 st' ps1 hs1 hr
      refine ⟨ps', ?_, by rw [wAtoms_cons, ← List.append_assoc]; exact hs'⟩
      cases htl : toL t with
      | none =>
        rw [htl] at hp1
        simp only [Except.ok.injEq] at hp1
        subst hp1
        simpa [List.filterMap_cons, htl] using hp'
      | some l =>
        rw [htl] at hp1
        simp only [List.filterMap_cons, htl, prun, hp1]
        exact hp'

theorem sim_initial : Sim [] {} {} where
  count := rfl
  prev := rfl
  prevLt := fun i hi => by simp at hi
  stack := rfl
  stackLt := fun i hi => by simp at hi
  pending := fun hp => by simp at hp
  afterDot := rfl
  opened := rfl
  openedLt := fun p hp => by simp at hp
  edges := rfl
  edgesLt := fun p hp => by simp at hp

/-- whenever the id-carrying reader accepts the writer's tokens, the positional reader accepts their lexical images, counts
    the same atoms, and its bonds, mapped through the written order, are the same bonds in the same order -/
theorem readL_of_readToks (ts : List WTok) (es : List REdge) (h : readToks ts = .ok es) :
    ∃ pes, readL (ts.filterMap toL) = .ok ((wAtoms ts).length, pes) ∧
      pes.map (fun p => (atPos (wAtoms ts) p.1, atPos (wAtoms ts) p.2)) = es.map (fun e => (e.a, e.b)) ∧
      ∀ p ∈ pes, p.1 < (wAtoms ts).length ∧ p.2 < (wAtoms ts).length := by
  unfold readToks at h
  split at h
  · cases h
  · rename_i st hrun
    obtain ⟨ps, hp, hs⟩ := sim_run ts [] {} st {} sim_initial hrun
    simp only [List.nil_append] at hs
    split at h
    · cases h
    · rename_i h1
      split at h
      · cases h
      · rename_i h2
        split at h
        · cases h
        · rename_i h3
          simp only [Except.ok.injEq] at h
          subst h
          have e1 : ps.stack = [] := by
            have := hs.stack
            have hst : st.stack = [] := by simpa using h1
            rw [hst] at this
            simpa using this.symm
          have e2 : ps.opened = [] := by
            have := hs.opened
            have hst : st.opened = [] := by simpa using h2
            rw [hst] at this
            simpa using this.symm
          have e3 : ps.pending = false := by
            cases hpp : ps.pending with
            | false => rfl
            | true => exact absurd (hs.pending hpp) h3
          refine ⟨ps.edges.reverse, ?_, ?_, ?_⟩
          · simp [readL, hp, e1, e2, e3, hs.count]
          · rw [List.map_reverse, ← hs.edges, List.map_reverse]
          · intro p hp'
            exact hs.edgesLt p (List.mem_reverse.1 hp')

end ChythonModel.Proofs.C02
