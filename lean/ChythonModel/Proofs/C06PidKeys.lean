import ChythonModel.Proofs.C06PidMake
/-!
# C06 — a cell `pid1[i][j]` built by `_make_pid` stores at most one path of two atoms: `makePid_one_short`

Cell invariant carried along with `InnerOK` (every stored path is a `PathFromTo g i j`): the keys of the cell are
pairwise distinct and a stored path of exactly two atoms has the key `(j, i)` (`KeysOK`).  Two-atom paths are written
only by the first loop (`pidInitStep`: the chain `[n, nn]` under `(nn, n)`, its reverse under `(n, nn)`); `compose`
yields paths of at least three atoms; `aset` never duplicates a key.  `pid2` plays no role: nothing flows from `pid2`
back into `pid1`.
-/
namespace ChythonModel.Proofs.C06
open ChythonModel.Model.C06

/-! ## keys of `aset` -/

theorem nodup_keys_aset {α β : Type} [BEq α] [LawfulBEq α] : ∀ (d : List (α × β)) (k : α) (v : β),
    (d.map (·.1)).Nodup → ((aset d k v).map (·.1)).Nodup
  | [], k, v, _ => by simp [aset]
  | (k', v') :: tl, k, v, h => by
    unfold aset
    split
    · exact h
    · next hk =>
      have h' : k' ∉ tl.map (·.1) ∧ (tl.map (·.1)).Nodup := by simpa using h
      have ih := nodup_keys_aset tl k v h'.2
      rw [List.map_cons, List.nodup_cons]
      refine ⟨?_, ih⟩
      intro hm
      obtain ⟨x, hx, hxk⟩ := List.mem_map.1 hm
      rcases mem_aset hx with e | hx
      · subst e
        simp only at hxk
        subst hxk
        simp at hk
      · exact h'.1 (List.mem_map.2 ⟨x, hx, hxk⟩)

theorem filter_length_le_one {α β : Type} (f : α → β) (p : α → Bool) (c : β) : ∀ (l : List α),
    (l.map f).Nodup → (∀ x ∈ l, p x = true → f x = c) → (l.filter p).length ≤ 1
  | [], _, _ => by simp
  | x :: tl, hn, hc => by
    have hn' : f x ∉ tl.map f ∧ (tl.map f).Nodup := by simpa using hn
    have ih := filter_length_le_one f p c tl hn'.2 (fun y hy => hc y (List.mem_cons_of_mem _ hy))
    rw [List.filter_cons]
    split
    · next hpx =>
      have : tl.filter p = [] := by
        rw [List.filter_eq_nil_iff]
        intro y hy hpy
        apply hn'.1
        have e1 := hc x List.mem_cons_self hpx
        have e2 := hc y (List.mem_cons_of_mem _ hy) hpy
        exact List.mem_map.2 ⟨y, hy, by rw [e1, e2]⟩
      simp [this]
    · exact ih

/-! ## the cell invariant -/

/-- keys pairwise distinct; a stored path of two atoms has the key `(j, i)` -/
def KeysOK (i j : Nat) (inner : Inner) : Prop :=
  (inner.map (·.1)).Nodup ∧ ∀ kp ∈ inner, kp.2.length = 2 → kp.1 = (j, i)

def CellOK (g : Adj) (i j : Nat) (inner : Inner) : Prop := InnerOK g i j inner ∧ KeysOK i j inner

/-- the invariant of `pid1` -/
def M1OK (g : Adj) (p1 : Pid1) : Prop := ∀ irow ∈ p1, ∀ jin ∈ irow.2, CellOK g irow.1 jin.1 jin.2

theorem keysOK_nil {i j : Nat} : KeysOK i j [] := ⟨by simp, fun _ h => by simp at h⟩

theorem cellOK_nil {g : Adj} {i j : Nat} : CellOK g i j [] := ⟨innerOK_nil, keysOK_nil⟩

theorem keysOK_aset {i j : Nat} {inner : Inner} (h : KeysOK i j inner) {key : Nat × Nat} {c : Path}
    (hc : c.length = 2 → key = (j, i)) : KeysOK i j (aset inner key c) := by
  refine ⟨nodup_keys_aset _ _ _ h.1, ?_⟩
  intro kp hm hl
  rcases mem_aset hm with e | hm
  · subst e; exact hc hl
  · exact h.2 kp hm hl

theorem cellOK_aset {g : Adj} {i j : Nat} {inner : Inner} (h : CellOK g i j inner) {key : Nat × Nat} {c : Path}
    (hp : PathFromTo g i j c) (hc : c.length = 2 → key = (j, i)) : CellOK g i j (aset inner key c) :=
  ⟨inner_aset_ok h.1 hp, keysOK_aset h.2 hc⟩

theorem keysOK_innerUpdate {i j : Nat} : ∀ (new d : Inner), KeysOK i j d →
    (∀ kp ∈ new, kp.2.length = 2 → kp.1 = (j, i)) → KeysOK i j (innerUpdate d new)
  | [], _, hd, _ => hd
  | kv :: tl, d, hd, hn => by
    unfold innerUpdate
    rw [List.foldl_cons]
    exact keysOK_innerUpdate tl _ (keysOK_aset hd (hn kv List.mem_cons_self))
      (fun kp h => hn kp (List.mem_cons_of_mem _ h))

theorem cellOK_innerUpdate {g : Adj} {i j : Nat} {d new : Inner} (hd : CellOK g i j d) (hn : CellOK g i j new) :
    CellOK g i j (innerUpdate d new) :=
  ⟨innerUpdate_ok _ _ hd.1 hn.1, keysOK_innerUpdate _ _ hd.2 hn.2.2⟩

theorem keysOK_compose_fold {i j : Nat} : ∀ (zs : List (((Nat × Nat) × Path) × ((Nat × Nat) × Path))) (d : Inner),
    KeysOK i j d → (∀ xy ∈ zs, 2 ≤ xy.1.2.length ∧ 2 ≤ xy.2.2.length) →
    KeysOK i j (zs.foldl (fun d xy => aset d (xy.1.1.1, xy.2.1.2) (xy.1.2.dropLast ++ xy.2.2)) d)
  | [], _, hd, _ => hd
  | xy :: tl, d, hd, hz => by
    rw [List.foldl_cons]
    refine keysOK_compose_fold tl _ (keysOK_aset hd ?_) (fun z h => hz z (List.mem_cons_of_mem _ h))
    intro hl
    have := hz xy List.mem_cons_self
    simp only [List.length_append, List.length_dropLast] at hl
    omega

theorem cellOK_compose {g : Adj} {i k j : Nat} {a b : Inner} (ha : CellOK g i k a) (hb : CellOK g k j b) :
    CellOK g i j (compose a b) := by
  refine ⟨compose_ok ha.1 hb.1, ?_⟩
  unfold compose
  refine keysOK_compose_fold _ _ keysOK_nil ?_
  intro xy hm
  obtain ⟨x, y⟩ := xy
  have := List.of_mem_zip hm
  exact ⟨(ha.1 x this.1).2.1, (hb.1 y this.2).2.1⟩

/-! ## the matrix -/

theorem m1_row_lookup {g : Adj} {p1 : Pid1} (h : M1OK g p1) (i : Nat) :
    ∀ jin ∈ (p1.lookup i).getD [], CellOK g i jin.1 jin.2 := by
  cases hl : p1.lookup i with
  | none => intro _ hj; simp at hj
  | some row => exact h (i, row) (lookup_mem hl)

theorem m1_p1get {g : Adj} {p1 : Pid1} (h : M1OK g p1) (i j : Nat) : CellOK g i j (p1get p1 i j) := by
  unfold p1get
  cases hl : p1.lookup i with
  | none => exact cellOK_nil
  | some row =>
    simp only [Option.bind_some]
    cases hj : row.lookup j with
    | none => exact cellOK_nil
    | some inner => exact h (i, row) (lookup_mem hl) (j, inner) (lookup_mem hj)

theorem m1_p1set {g : Adj} {p1 : Pid1} (h : M1OK g p1) {i j : Nat} {v : Inner} (hv : CellOK g i j v) :
    M1OK g (p1set p1 i j v) := by
  intro irow hm
  rcases mem_aset hm with e | hm
  · subst e
    intro jin hj
    rcases mem_aset hj with e | hj
    · subst e; exact hv
    · exact m1_row_lookup h i jin hj
  · exact h irow hm

theorem m1_p1touch {g : Adj} {p1 : Pid1} (h : M1OK g p1) (i j : Nat) : M1OK g (p1touch p1 i j) := by
  unfold p1touch
  cases hl : p1.lookup i with
  | none =>
    intro irow hm
    rcases List.mem_append.1 hm with hm | hm
    · exact h irow hm
    · simp only [List.mem_singleton] at hm
      subst hm
      intro jin hj
      simp only [List.mem_singleton] at hj
      subst hj
      exact cellOK_nil
  | some row =>
    simp only
    split
    · exact h
    · intro irow hm
      rcases mem_aset hm with e | hm
      · subst e
        intro jin hj
        rcases List.mem_append.1 hj with hj | hj
        · exact h (i, row) (lookup_mem hl) jin hj
        · simp only [List.mem_singleton] at hj
          subst hj
          exact cellOK_nil
      · exact h irow hm

/-! ## the first loop -/

theorem chain_two {n nn : Nat} {tl : List Nat} (h : (n :: nn :: tl).length = 2) :
    (n :: nn :: tl).getD ((n :: nn :: tl).length - 2) n = n ∧ (n :: nn :: tl).getLast?.getD n = nn := by
  cases tl with
  | nil => simp
  | cons a tl' => simp at h

theorem pidInitStep_m1 {g : Adj} (hs : Sym g) {st st' : Pid1 × Pid2 × Dist} {c : Path} (hc : Walk g c)
    (h : pidInitStep st c = some st') (h1 : M1OK g st.1) : M1OK g st'.1 := by
  obtain ⟨p1, p2, d⟩ := st
  unfold pidInitStep at h
  split at h
  · cases h
  · cases h
  · next n nn tl =>
    have hp := pathFromTo_of_chain hc
    have hr := pathFromTo_reverse hs hp
    simp only at h
    have B1 := m1_p1set h1 (cellOK_aset (m1_p1get h1 n ((n :: nn :: tl).getLast?.getD n)) hp
      (key := (nn, (n :: nn :: tl).getD ((n :: nn :: tl).length - 2) n))
      (by intro hl; obtain ⟨e1, e2⟩ := chain_two hl; rw [e1, e2]))
    have B := m1_p1set B1 (cellOK_aset (m1_p1get B1 ((n :: nn :: tl).getLast?.getD n) n) hr
      (key := ((n :: nn :: tl).getD ((n :: nn :: tl).length - 2) n, nn))
      (by
        intro hl
        rw [List.length_reverse] at hl
        obtain ⟨e1, e2⟩ := chain_two hl
        rw [e1, e2]))
    split at h
    · split at h
      · simp only [Option.some.injEq] at h
        subst h
        exact h1
      · simp only [Option.some.injEq] at h
        subst h
        exact B
    · simp only [Bool.false_eq_true, if_false, Option.some.injEq] at h
      subst h
      exact B

theorem foldlM_pidInitStep_m1 {g : Adj} (hs : Sym g) : ∀ (cs : List Path) (st st' : Pid1 × Pid2 × Dist),
    (∀ c ∈ cs, Walk g c) → cs.foldlM pidInitStep st = some st' → M1OK g st.1 → M1OK g st'.1
  | [], st, st', _, h, h1 => by
    simp only [List.foldlM_nil] at h
    cases h
    exact h1
  | c :: cs, st, st', hc, h, h1 => by
    rw [List.foldlM_cons] at h
    cases hstep : pidInitStep st c with
    | none => rw [hstep] at h; cases h
    | some st1 =>
      rw [hstep] at h
      have a1 := pidInitStep_m1 hs (hc c List.mem_cons_self) hstep h1
      exact foldlM_pidInitStep_m1 hs cs st1 st' (fun x hx => hc x (List.mem_cons_of_mem _ hx)) h a1

theorem pidInit_m1 {g : Adj} (hs : Sym g) {paths : List Path} (hp : ∀ p ∈ paths, Walk g p)
    {st : Pid1 × Pid2 × Dist} (h : pidInit paths = some st) : M1OK g st.1 := by
  unfold pidInit at h
  refine foldlM_pidInitStep_m1 hs _ _ _ ?_ h (fun _ hm => by simp at hm)
  intro c hc
  exact hp c ((isort_perm _ _).mem_iff.1 hc)

/-! ## the triple loop -/

theorem pidJ_m1 {g : Adj} (k i : Nat) (dist : Dist) (st : Pid1 × Pid2 × List (Nat × Nat)) (j : Nat)
    (h1 : M1OK g st.1) : M1OK g (pidJ k i dist st j).1 := by
  obtain ⟨p1, p2, ndi⟩ := st
  unfold pidJ
  split
  · exact h1
  · simp only
    split
    · have t1 := m1_p1touch h1 i j
      have t3 := m1_p1touch (m1_p1touch t1 i k) k j
      exact m1_p1set t3 (cellOK_compose (m1_p1get t3 i k) (m1_p1get t3 k j))
    · split
      · have t3 := m1_p1touch (m1_p1touch h1 i k) k j
        exact m1_p1set t3 (cellOK_compose (m1_p1get t3 i k) (m1_p1get t3 k j))
      · split
        · have t3 := m1_p1touch (m1_p1touch (m1_p1touch h1 i j) i k) k j
          exact m1_p1set t3 (cellOK_innerUpdate (m1_p1get t3 i j)
            (cellOK_compose (m1_p1get t3 i k) (m1_p1get t3 k j)))
        · split
          · exact m1_p1touch (m1_p1touch h1 i k) k j
          · exact h1

theorem foldl_pidJ_m1 {g : Adj} (k i : Nat) (dist : Dist) : ∀ (js : List Nat) (st : Pid1 × Pid2 × List (Nat × Nat)),
    M1OK g st.1 → M1OK g (js.foldl (pidJ k i dist) st).1
  | [], _, h1 => h1
  | j :: js, st, h1 => by
    rw [List.foldl_cons]
    exact foldl_pidJ_m1 k i dist js _ (pidJ_m1 k i dist st j h1)

theorem pidI_m1 {g : Adj} (ks : List Nat) (k : Nat) (dist : Dist) (st : Pid1 × Pid2 × Dist) (i : Nat)
    (h1 : M1OK g st.1) : M1OK g (pidI ks k dist st i).1 := by
  obtain ⟨p1, p2, nd⟩ := st
  unfold pidI
  split
  · exact h1
  · simp only
    have := foldl_pidJ_m1 (g := g) k i dist ks (p1, p2, [(k, dget dist i k)]) h1
    generalize ks.foldl (pidJ k i dist) (p1, p2, [(k, dget dist i k)]) = r at this
    obtain ⟨q1, q2, q3⟩ := r
    exact this

theorem foldl_pidI_m1 {g : Adj} (ks : List Nat) (k : Nat) (dist : Dist) : ∀ (is : List Nat) (st : Pid1 × Pid2 × Dist),
    M1OK g st.1 → M1OK g (is.foldl (pidI ks k dist) st).1
  | [], _, h1 => h1
  | i :: is, st, h1 => by
    rw [List.foldl_cons]
    exact foldl_pidI_m1 ks k dist is _ (pidI_m1 ks k dist st i h1)

theorem pidK_m1 {g : Adj} (ks : List Nat) (st : Pid1 × Pid2 × Dist) (k : Nat)
    (h1 : M1OK g st.1) : M1OK g (pidK ks st k).1 := by
  obtain ⟨p1, p2, dist⟩ := st
  unfold pidK
  exact foldl_pidI_m1 ks k dist ks (p1, p2, []) h1

theorem foldl_pidK_m1 {g : Adj} (ks : List Nat) : ∀ (ks' : List Nat) (st : Pid1 × Pid2 × Dist),
    M1OK g st.1 → M1OK g (ks'.foldl (pidK ks) st).1
  | [], _, h1 => h1
  | k :: ks', st, h1 => by
    rw [List.foldl_cons]
    exact foldl_pidK_m1 ks ks' _ (pidK_m1 ks st k h1)

/-- every cell of the `pid1` built by `_make_pid` satisfies the cell invariant -/
theorem makePid_m1 (g : Adj) (hs : Sym g) (paths : List Path) (hp : ∀ p ∈ paths, Walk g p ∧ 2 ≤ p.length)
    {p1 : Pid1} {p2 : Pid2} {d : Dist} (h : makePid paths = some (p1, p2, d)) : M1OK g p1 := by
  unfold makePid at h
  cases hi : pidInit paths with
  | none => rw [hi] at h; cases h
  | some st =>
    rw [hi] at h
    simp only [Option.map_some, Option.some.injEq] at h
    have a1 := pidInit_m1 hs (fun p hm => (hp p hm).1) hi
    have := foldl_pidK_m1 (g := g) (st.1.map (·.1)) (st.1.map (·.1)) st a1
    rw [h] at this
    exact this

theorem keysOK_one_short {i j : Nat} {inner : Inner} (h : KeysOK i j inner) :
    (inner.filter fun kp => kp.2.length == 2).length ≤ 1 := by
  refine filter_length_le_one (·.1) _ (j, i) inner h.1 ?_
  intro kp hm hl
  exact h.2 kp hm (by simpa using hl)

/-- In every cell `pid1[i][j]` built by `_make_pid` at most one stored path has exactly two atoms
(it is the bond `[i, j]` itself): the keys of a cell are pairwise distinct and a two-atom path is stored
under the key `(j, i)`. -/
theorem makePid_one_short (g : Adj) (hs : Sym g) (paths : List Path) (hp : ∀ p ∈ paths, Walk g p ∧ 2 ≤ p.length)
    {p1 : Pid1} {p2 : Pid2} {d : Dist} (h : makePid paths = some (p1, p2, d)) :
    ∀ irow ∈ p1, ∀ jin ∈ irow.2, ((jin.2.filter fun kp => kp.2.length == 2).length ≤ 1) := by
  intro irow hi jin hj
  exact keysOK_one_short (makePid_m1 g hs paths hp h irow hi jin hj).2

end ChythonModel.Proofs.C06
