import ChythonModel.Proofs.C05SearchSound
import ChythonModel.Model.C05Full
/-!
# C05 — the search never yields the same Kekulé form twice (prepared components without ambiguous atoms)
-/
namespace ChythonModel.Proofs.C05S
open ChythonModel.Model ChythonModel.Model.C05 ChythonModel.Model.C05S

/-- two paths give some bond different orders -/
def Differ (p q : Path) : Prop := ∃ x ∈ p, ∃ y ∈ q, key x = key y ∧ x.2.2 ≠ y.2.2

theorem Differ.symm {p q : Path} (h : Differ p q) : Differ q p := by
  obtain ⟨x, hx, y, hy, h1, h2⟩ := h
  exact ⟨y, hy, x, hx, h1.symm, fun h => h2 h.symm⟩

/-- two continuations of one plan disagree about the order of some pushed bond -/
def Conflict (b b' : List Entry) : Prop := ∃ e ∈ b, ∃ e' ∈ b', e.atom = e'.atom ∧ e.prev = e'.prev ∧ e.bond ≠ e'.bond

theorem growStage_conflict {c : Ctx} {atom bond len : Nat} {ins0 i0 : Option Entry} {closures fs clos : List Nat}
    {brs : List (List Entry)} (h : growStage c atom bond len ins0 closures fs = .go i0 clos brs) :
    brs.Pairwise Conflict := by
  unfold growStage at h
  split at h
  · injection h with _ _ h3; subst h3; simp
  · split at h
    · repeat' split at h
      all_goals first
        | (injection h with _ _ h3; subst h3
           simp [Conflict, mk, mkT])
        | cases h
    · split at h
      · cases h
      · injection h with _ _ h3; subst h3; simp
    · repeat' split at h
      all_goals first
        | (injection h with _ _ h3; subst h3
           simp [Conflict, mk, mkT])
        | cases h
    · cases h

theorem plan_conflict {c : Ctx} {atom prev bond len : Nat} {hashed : Nat → Bool} {ins0 : Option Entry} {clos : List Nat}
    {brs : List (List Entry)} (h : plan c atom prev bond hashed len = .go ins0 clos brs) : brs.Pairwise Conflict := by
  unfold plan at h
  split at h
  · cases h
  · split at h
    · cases h
    · exact growStage_conflict h

theorem seqBranches_pairwise {β : Type} (f : β → Nat → Res) (D : Path → Path → Prop) :
    ∀ (bs : List β) (limit : Nat), (∀ b ∈ bs, ∀ lim, (f b lim).found.Pairwise D) →
      bs.Pairwise (fun b b' => ∀ lim lim', ∀ p ∈ (f b lim).found, ∀ q ∈ (f b' lim').found, D p q) →
      (seqBranches bs f limit).found.Pairwise D := by
  intro bs
  induction bs with
  | nil => intro limit _ _; simp [seqBranches]
  | cons b rest ih =>
    intro limit h1 h2
    simp only [seqBranches]
    rw [List.pairwise_cons] at h2
    split
    · exact h1 b List.mem_cons_self limit
    · simp only
      rw [List.pairwise_append]
      refine ⟨h1 b List.mem_cons_self limit, ih _ (fun b' hb' => h1 b' (List.mem_cons_of_mem _ hb')) h2.2, ?_⟩
      intro p hp q hq
      obtain ⟨b', hb', lim', hq'⟩ := seqBranches_found f rest _ q hq
      exact h2.1 b' hb' limit lim' p hp q hq'

/-- like `explore_found_inv`, for a relation `R` between the state the search is entered with and the paths found from
    it, and a relation `D` that holds between paths found in conflicting continuations -/
theorem explore_pairwise (c : Ctx) (Inv : Level → Path → Prop) (R : Level → Path → Path → Prop) (D : Path → Path → Prop)
    (hstart : ∀ level path e, Inv level path → level.getLast? = some e →
      (path ++ [(e.atom, e.prev, e.bond)]).length ≠ c.size → e.atom = c.start →
      Inv level.dropLast (path ++ [(e.atom, e.prev, e.bond)]))
    (hbranch : ∀ level path e ins0 clos branches base b, Inv level path → level.getLast? = some e →
      (path ++ [(e.atom, e.prev, e.bond)]).length ≠ c.size → e.atom ≠ c.start →
      plan c e.atom e.prev e.bond (hashedIn (path ++ [(e.atom, e.prev, e.bond)]))
        (path ++ [(e.atom, e.prev, e.bond)]).length = .go ins0 clos branches →
      removeAll e.atom (insert0 ins0 level.dropLast) clos = some base → b ∈ branches →
      Inv (base ++ b) ((path ++ [(e.atom, e.prev, e.bond)]) ++ clos.map fun x => (x, e.atom, 1)))
    (rdone : ∀ level path e, Inv level path → level.getLast? = some e →
      (path ++ [(e.atom, e.prev, e.bond)]).length = c.size → R level path (path ++ [(e.atom, e.prev, e.bond)]))
    (rstart : ∀ level path e p, Inv level path → level.getLast? = some e →
      (path ++ [(e.atom, e.prev, e.bond)]).length ≠ c.size → e.atom = c.start →
      R level.dropLast (path ++ [(e.atom, e.prev, e.bond)]) p → R level path p)
    (rbranch : ∀ level path e ins0 clos branches base b p, Inv level path → level.getLast? = some e →
      (path ++ [(e.atom, e.prev, e.bond)]).length ≠ c.size → e.atom ≠ c.start →
      plan c e.atom e.prev e.bond (hashedIn (path ++ [(e.atom, e.prev, e.bond)]))
        (path ++ [(e.atom, e.prev, e.bond)]).length = .go ins0 clos branches →
      removeAll e.atom (insert0 ins0 level.dropLast) clos = some base → b ∈ branches →
      R (base ++ b) ((path ++ [(e.atom, e.prev, e.bond)]) ++ clos.map fun x => (x, e.atom, 1)) p → R level path p)
    (rcross : ∀ (path2 : Path) (base b b' : Level) p q, Conflict b b' → R (base ++ b) path2 p → R (base ++ b') path2 q →
      D p q)
    (level : Level) (path : Path) (limit : Nat) (h0 : Inv level path) :
    (∀ p ∈ (explore c level path limit).found, R level path p) ∧ (explore c level path limit).found.Pairwise D := by
  fun_induction explore c level path limit with
  | case1 level path limit hl => simp
  | case2 level path limit e hl hsz =>
    refine ⟨?_, by simp⟩
    intro p hp
    simp only [List.mem_singleton] at hp
    subst hp
    exact rdone level path e h0 hl (by simpa using hsz)
  | case3 level path limit e hl hsz hs ih =>
    have hsz' : (path ++ [(e.atom, e.prev, e.bond)]).length ≠ c.size := by simpa using hsz
    obtain ⟨i1, i2⟩ := ih (hstart level path e h0 hl hsz' hs)
    exact ⟨fun p hp => rstart level path e p h0 hl hsz' hs (i1 p hp), i2⟩
  | case4 level path limit e hl hsz hs s hp => simp
  | case5 level path limit e hl hsz hs hp => simp
  | case6 level path limit e hl hsz hs ins0 clos branches hp hr => simp
  | case7 level path limit e hl hsz hs ins0 clos branches hp base hr ih =>
    have hsz' : (path ++ [(e.atom, e.prev, e.bond)]).length ≠ c.size := by simpa using hsz
    have hI : ∀ b : { x // x ∈ branches }, Inv (base ++ b.1)
        ((path ++ [(e.atom, e.prev, e.bond)]) ++ clos.map fun x => (x, e.atom, 1)) :=
      fun b => hbranch level path e ins0 clos branches base b.1 h0 hl hsz' hs hp hr b.2
    constructor
    · intro p hpf
      obtain ⟨b, _, lim, hb⟩ := seqBranches_found _ _ _ p hpf
      exact rbranch level path e ins0 clos branches base b.1 p h0 hl hsz' hs hp hr b.2 ((ih b lim (hI b)).1 p hb)
    · apply seqBranches_pairwise
      · intro b _ lim
        exact (ih b lim (hI b)).2
      · have hc := plan_conflict hp
        have : branches.attach.Pairwise (fun b b' => Conflict b.1 b'.1) := by
          rw [← List.pairwise_map (f := Subtype.val) (R := Conflict), List.attach_map_subtype_val]
          exact hc
        refine this.imp ?_
        intro b b' hbb lim lim' p hp' q hq'
        exact rcross _ base b.1 b'.1 p q hbb ((ih b lim (hI b)).1 p hp') ((ih b' lim' (hI b')).1 q hq')

/-- the found path carries every assignment made so far (path and pending entries) -/
def Ext (level : Level) (path : Path) (p : Path) : Prop :=
  ∀ x ∈ M level path, ∃ y ∈ p, key y = key x ∧ y.2.2 = x.2.2

/-- when a path is completed nothing is pending -/
theorem done_level_nil {c : Ctx} (D : Dom c) (D2 : Dom2 c) {init : PEntry} {level' : Level} {e : Entry} {path : Path}
    (I : Inv c init (level' ++ [e]) path) (hlen : (path ++ [pe e]).length = c.size) : level' = [] := by
  have hP := M_pop_perm level' e path
  have hsubM : ∀ x ∈ path ++ [pe e], x ∈ M (level' ++ [e]) path := fun x hx =>
    hP.subset (List.mem_append_left _ hx)
  have hnd' : ((M level' (path ++ [pe e])).map key).Nodup := ((hP.map key).nodup_iff).2 I.nodup
  have hnd : ((path ++ [pe e]).map key).Nodup := by
    simp only [M, List.map_append] at hnd'
    simpa using (List.nodup_append.1 hnd').1
  have hall := path_covers D2.keys D.nodup D.sym D.noself (fun x hx => (I.edges x (hsubM x hx)).1) hnd
    (by have := D2.size; omega)
  cases hl : level' with
  | nil => rfl
  | cons e' rest =>
    exfalso
    have he' : e' ∈ level' := by simp [hl]
    have h1 := (I.edges _ (mem_M_level (path := path) (List.mem_append_left [e] he'))).1
    have h2 : key (pe e') ∈ List.map key (path ++ [pe e]) := by
      have := hall _ _ h1
      rwa [ukey_comm] at this
    unfold M at hnd'
    rw [List.map_append] at hnd'
    exact (List.nodup_append.1 hnd').2.2 (key (pe e')) h2
      (key (pe e')) (List.mem_map_of_mem (List.mem_map_of_mem he')) rfl

theorem ext_done {c : Ctx} (D : Dom c) (D2 : Dom2 c) {init : PEntry} {level' : Level} {e : Entry} {path : Path}
    (I : Inv c init (level' ++ [e]) path) (hlen : (path ++ [pe e]).length = c.size) :
    Ext (level' ++ [e]) path (path ++ [pe e]) := by
  have := done_level_nil D D2 I hlen
  subst this
  intro x hx
  refine ⟨x, ?_, rfl, rfl⟩
  simpa [M] using hx

theorem ext_start {level' : Level} {e : Entry} {path p : Path} (h : Ext level' (path ++ [pe e]) p) :
    Ext (level' ++ [e]) path p :=
  fun x hx => h x ((M_pop_perm level' e path).symm.subset hx)

theorem ext_branch {a : Nat} {ins0 : Option Entry} {clos : List Nat} {level' base br : Level} {e : Entry}
    {path p : Path} (hr : removeAll a (insert0 ins0 level') clos = some base)
    (h : Ext (base ++ br) ((path ++ [pe e]) ++ clos.map fun x => (x, a, 1)) p) : Ext (level' ++ [e]) path p := by
  intro x hx
  rcases mem_step' (br := br) hr hx with h1 | ⟨y, hy, rfl⟩
  · exact h x h1
  · have hm : ((y, a, 1) : PEntry) ∈ M (base ++ br) ((path ++ [pe e]) ++ clos.map fun x => (x, a, 1)) := by
      unfold M
      simp only [List.mem_append, List.mem_map]
      exact Or.inl (Or.inr ⟨y, hy, rfl⟩)
    obtain ⟨z, hz, h1, h2⟩ := h _ hm
    exact ⟨z, hz, by rw [h1]; simp [key, ukey_comm], h2⟩

theorem ext_cross {path2 : Path} {base b b' : Level} {p q : Path} (hc : Conflict b b')
    (hp : Ext (base ++ b) path2 p) (hq : Ext (base ++ b') path2 q) : Differ p q := by
  obtain ⟨e, he, e', he', h1, h2, h3⟩ := hc
  obtain ⟨y, hy, k1, b1⟩ := hp (pe e) (mem_M_level (List.mem_append_right _ he))
  obtain ⟨z, hz, k2, b2⟩ := hq (pe e') (mem_M_level (List.mem_append_right _ he'))
  refine ⟨y, hy, z, hz, ?_, ?_⟩
  · rw [k1, k2]; simp [key, pe, h1, h2]
  · rw [b1, b2]; exact h3

/-- from one initial level the search finds pairwise different Kekulé forms, each extending the initial entry -/
theorem explore_nodup {c : Ctx} (D : Dom c) (D2 : Dom2 c) {db0 : List Nat} {e0 : Entry}
    (SO : StartOK c db0 (pe e0)) (hf : e0.atom ∈ nb c c.start) (hb : e0.bond = 1 ∨ e0.bond = 2)
    (hdb : e0.bond = 2 → c.db.contains e0.atom = false) (limit : Nat) :
    (∀ p ∈ (explore c [e0] [] limit).found, Ext [e0] [] p) ∧ (explore c [e0] [] limit).found.Pairwise Differ := by
  apply explore_pairwise c (Inv c (pe e0)) Ext Differ
  · intro level path e I hl _ hs
    obtain ⟨ys, rfl⟩ := List.getLast?_eq_some_iff.1 hl
    rw [List.dropLast_concat]
    exact inv_start I SO.prev hs
  · intro level path e ins0 clos brs base b I hl _ hs hp hr hb
    obtain ⟨ys, rfl⟩ := List.getLast?_eq_some_iff.1 hl
    rw [List.dropLast_concat] at hr
    exact inv_branch D (stepCtx_of D SO.prev I hs hp hr) hb
  · intro level path e I hl hlen
    obtain ⟨ys, rfl⟩ := List.getLast?_eq_some_iff.1 hl
    exact ext_done D D2 I hlen
  · intro level path e p I hl _ _ h
    obtain ⟨ys, rfl⟩ := List.getLast?_eq_some_iff.1 hl
    rw [List.dropLast_concat] at h
    exact ext_start h
  · intro level path e ins0 clos brs base b p I hl _ _ _ hr _ h
    obtain ⟨ys, rfl⟩ := List.getLast?_eq_some_iff.1 hl
    rw [List.dropLast_concat] at hr
    exact ext_branch hr h
  · intro path2 base b b' p q hc hp hq
    exact ext_cross hc hp hq
  · exact inv_init D SO.prev hf hb hdb

theorem dbl_ge_two {v : Nat} {p : Path} {x y : PEntry} (hx : x ∈ p) (hy : y ∈ p) (hxy : x ≠ y)
    (h1 : (x.1 = v ∨ x.2.1 = v) ∧ x.2.2 = 2) (h2 : (y.1 = v ∨ y.2.1 = v) ∧ y.2.2 = 2) : 2 ≤ dbl v p := by
  unfold dbl
  have hsub : [x, y].Subperm p := by
    apply List.subperm_of_subset
    · simp [hxy]
    · intro z hz
      simp only [List.mem_cons, List.not_mem_nil, or_false] at hz
      rcases hz with rfl | rfl <;> assumption
  have := hsub.countP_le (fun z => (z.1 == v || z.2.1 == v) && z.2.2 == 2)
  have h3 : List.countP (fun z => (z.1 == v || z.2.1 == v) && z.2.2 == 2) [x, y] = 2 := by
    have e1 : ((x.1 == v || x.2.1 == v) && x.2.2 == 2) = true := by
      simp only [Bool.and_eq_true, Bool.or_eq_true, beq_iff_eq]; exact h1
    have e2 : ((y.1 == v || y.2.1 == v) && y.2.2 == 2) = true := by
      simp only [Bool.and_eq_true, Bool.or_eq_true, beq_iff_eq]; exact h2
    simp [List.countP_cons, e1, e2]
  omega

/-- paths found from two different initial levels differ at the start atom -/
theorem cross_levels {c : Ctx} (D : Dom c) {db0 : List Nat} {e1 e2 : Entry}
    (S1 : StartOK c db0 (pe e1)) (S2 : StartOK c db0 (pe e2)) (hne : e1.atom ≠ e2.atom)
    (hf1 : e1.atom ∈ nb c c.start) (hf2 : e2.atom ∈ nb c c.start) (hb : e1.bond = e2.bond)
    (hs : db0.contains c.start = false) {p q : Path} (hp : PathSound c db0 p) (hq : PathSound c db0 q)
    (xp : Ext [e1] [] p) (xq : Ext [e2] [] q) : Differ p q := by
  have hp1 : e1.prev = c.start := S1.prev
  have hp2 : e2.prev = c.start := S2.prev
  obtain ⟨y1, hy1, k1', b1'⟩ := xp (pe e1) (by simp [M])
  obtain ⟨z2, hz2, k2', b2'⟩ := xq (pe e2) (by simp [M])
  have k1 : key y1 = ukey e1.atom c.start := by rw [k1']; simp [key, pe, hp1]
  have k2 : key z2 = ukey e2.atom c.start := by rw [k2']; simp [key, pe, hp2]
  have b1 : y1.2.2 = e1.bond := b1'
  have b2 : z2.2.2 = e2.bond := b2'
  have hne_s : nb c c.start ≠ [] := List.ne_nil_of_mem hf1
  have hdq := hq.matching c.start hne_s
  rw [hs] at hdq
  simp only [Bool.false_eq_true, if_false] at hdq
  -- the entry of `q` on the bond start–e1.atom
  obtain ⟨z1, hz1, kz1⟩ := List.mem_map.1 (hq.all c.start e1.atom hf1)
  have hkz1 : key z1 = ukey e1.atom c.start := by rw [kz1, ukey_comm]
  have hinc : ∀ {z : PEntry} {w : Nat}, key z = ukey w c.start → z.1 = c.start ∨ z.2.1 = c.start := by
    intro z w h
    rcases ukey_eq h with ⟨-, h⟩ | ⟨h, -⟩
    · exact Or.inr h
    · exact Or.inl h
  rcases S1.cases with ⟨-, -, h3⟩ | ⟨-, h2, -, h4⟩ | ⟨-, h2, -⟩
  · rw [hs] at h3; exact Bool.noConfusion h3
  · -- both first bonds single; the start atom has exactly these two ring bonds: `q` doubles start–e1.atom, `p` does not
    have hb1 : e1.bond = 1 := h2
    have hb2 : e2.bond = 1 := hb ▸ hb1
    have hpos : 0 < dbl c.start q := by omega
    obtain ⟨z, hz, hzp⟩ := List.countP_pos_iff.1 hpos
    simp only [Bool.and_eq_true, Bool.or_eq_true, beq_iff_eq] at hzp
    -- the other end of z is a ring neighbour of the start atom
    have hzedge := (hq.edges z hz).1
    obtain ⟨w, hw, hkz⟩ : ∃ w, w ∈ nb c c.start ∧ key z = ukey w c.start := by
      rcases hzp.1 with h | h
      · exact ⟨z.2.1, D.sym _ _ (h ▸ hzedge), by simp [key, h, ukey_comm]⟩
      · exact ⟨z.1, h ▸ hzedge, by simp [key, h]⟩
    have hw' : w = e1.atom ∨ w = e2.atom := by
      have hndn := D.nodup c.start
      match hnb : nb c c.start, h4, hndn, hw, hf1, hf2 with
      | [u, v], _, hnn, hw, hf1, hf2 =>
        simp only [List.mem_cons, List.not_mem_nil, or_false] at hw hf1 hf2
        rcases hw with hw | hw <;> rcases hf1 with hf1 | hf1 <;> rcases hf2 with hf2 | hf2 <;>
          first | (exact Or.inl (hw.trans hf1.symm)) | (exact Or.inr (hw.trans hf2.symm))
                | (exact absurd (hf1.trans hf2.symm) hne)
    rcases hw' with rfl | rfl
    · refine ⟨y1, hy1, z, hz, by rw [k1, hkz], ?_⟩
      rw [b1, hb1, hzp.2]; decide
    · have : z = z2 := eq_of_key_eq hq.once hz hz2 (by rw [hkz, k2])
      rw [this, b2, hb2] at hzp
      exact absurd hzp.2 (by decide)
  · -- both first bonds double: `q` cannot also double start–e1.atom
    have hb1 : e1.bond = 2 := h2
    have hb2 : e2.bond = 2 := hb ▸ hb1
    refine ⟨y1, hy1, z1, hz1, by rw [k1, hkz1], ?_⟩
    rw [b1, hb1]
    intro h
    have hz12 : z1 ≠ z2 := by
      intro h12
      have : key z1 = key z2 := by rw [h12]
      rw [hkz1, k2] at this
      rcases ukey_eq this with ⟨h, -⟩ | ⟨h, -⟩
      · exact hne h
      · exact D.noself _ (h ▸ hf1)
    have := dbl_ge_two (v := c.start) hz1 hz2 hz12 ⟨hinc hkz1, h.symm⟩ ⟨hinc k2, by rw [b2, hb2]⟩
    omega

/-- **no duplicates**: on a prepared component without ambiguous atoms any two complete paths (at different
    positions of the sequence) give some skeleton bond different orders -/
theorem searchRaw_nodup {rings : Adj} (G : GraphOK rings) (db0 : List Nat) (limit : Nat) :
    (searchRaw rings db0 [] limit).found.Pairwise Differ := by
  unfold searchRaw
  split
  · simp
  · rename_i c levels hinit
    have IO := initial_ok G hinit
    have Gc : GraphOK c.rings := IO.hr ▸ G
    have facts : ∀ l ∈ levels, ∃ e0, l = [e0] ∧ StartOK c db0 (pe e0) ∧ e0.atom ∈ nb c c.start ∧
        Dom c ∧ Dom2 c ∧ (e0.bond = 1 ∨ e0.bond = 2) ∧ (e0.bond = 2 → c.db.contains e0.atom = false) := by
      intro l hl
      obtain ⟨e0, rfl, SO, hf, hb, hdb⟩ := IO.lv l hl
      have hstart : nbr c.rings c.start ≠ [] := List.ne_nil_of_mem hf
      exact ⟨e0, rfl, SO, hf, dom_of Gc IO.pyr hstart, dom2_of Gc IO.size, hb, hdb⟩
    apply seqBranches_pairwise
    · intro l hl lim
      obtain ⟨e0, rfl, SO, hf, D, D2, hb, hdb⟩ := facts l hl
      exact (explore_nodup D D2 SO hf hb hdb lim).2
    · have hmem : levels.Pairwise fun l l' => l ∈ levels ∧ l' ∈ levels := by
        rw [List.pairwise_iff_forall_sublist]
        intro a b hab
        exact ⟨hab.subset (by simp), hab.subset (by simp)⟩
      refine (IO.cross.and hmem).imp ?_
      rintro l l' ⟨⟨hs, hx⟩, hl, hl'⟩ lim lim' p hp q hq
      obtain ⟨e1, rfl, S1, hf1, D, D2, hb1, hdb1⟩ := facts l hl
      obtain ⟨e2, rfl, S2, hf2, -, -, hb2, hdb2⟩ := facts l' hl'
      obtain ⟨hne, hbb⟩ := hx e1 e2 rfl rfl
      exact cross_levels D S1 S2 hne hf1 hf2 hbb hs
        (explore_sound D D2 S1 hf1 hb1 hdb1 lim p hp) (explore_sound D D2 S2 hf2 hb2 hdb2 lim' q hq)
        ((explore_nodup D D2 S1 hf1 hb1 hdb1 lim).1 p hp) ((explore_nodup D D2 S2 hf2 hb2 hdb2 lim').1 q hq)

/-- without ambiguous atoms the buffer is never used: the yields are the complete paths, in order -/
theorem component_yields_eq (rings : Adj) (db : List Nat) (buf limit : Nat) :
    (kekuleComponent rings db [] buf limit).1 = (searchRaw rings db [] limit).found := by
  have h : ∀ (ps : List Path) (b : Buf), b.held = [] → feedAll [] b ps = (b, ps) := by
    intro ps
    induction ps with
    | nil => intro b _; rfl
    | cons p ps ih =>
      intro b hb
      simp only [feedAll, feed, List.isEmpty_nil, Bool.not_true, Bool.false_and, Bool.false_eq_true, if_false]
      rw [ih b hb]
      rfl
  unfold kekuleComponent
  simp only [h _ ⟨buf, []⟩ rfl]
  split
  · rfl
  · split
    · rfl
    · split
      · rfl
      · simp

theorem component_nodup {rings : Adj} (G : GraphOK rings) (db0 : List Nat) (buf limit : Nat) :
    (kekuleComponent rings db0 [] buf limit).1.Pairwise Differ := by
  rw [component_yields_eq]
  exact searchRaw_nodup G db0 limit

/-- the paths `kekuleFull` writes into the molecule: one Kekulé form per component -/
theorem firstYields_sound (buf : Nat) : ∀ (cs : List C05F.Comp) (ys : List Path),
    (∀ c ∈ cs, GraphOK c.rings ∧ c.pyr = []) → C05F.firstYields buf cs = .ok ys →
    List.Forall₂ (fun c y => KekuleFormOf c.rings c.db y) cs ys := by
  intro cs
  induction cs with
  | nil =>
    intro ys _ h
    simp only [C05F.firstYields] at h
    cases h
    exact List.Forall₂.nil
  | cons c cs ih =>
    intro ys hc h
    simp only [C05F.firstYields] at h
    split at h
    · rename_i y tl st hk
      cases hrest : C05F.firstYields buf cs with
      | error o => simp [hrest, Except.map] at h
      | ok ys' =>
        simp only [hrest, Except.map] at h
        cases h
        obtain ⟨G, hp⟩ := hc c List.mem_cons_self
        refine List.Forall₂.cons ?_ (ih ys' (fun c' hc' => hc c' (List.mem_cons_of_mem _ hc')) hrest)
        have := component_sound G c.db buf (buf + 2) y
        rw [← hp] at this
        apply this
        rw [hk]
        exact List.mem_cons_self
    · cases h
    · cases h

end ChythonModel.Proofs.C05S
