import ChythonModel.Proofs.C02Chain
import ChythonModel.Proofs.C02Paren
import ChythonModel.Proofs.C02Heap
namespace ChythonModel.Proofs.C02
open ChythonModel.Model ChythonModel.Model.SmilesWriter ChythonModel.Model.C02RT

/-! ## what `smilesRounds` guarantees about each round (links the function-level theorems to the whole writer) -/

/-- one round as `finishRound` builds it -/
structure RoundSpec (m : Mol) (opts : Opts) (r : Round) : Prop where
  smi : r.smi = flatten r.edges (m.atoms.length + 1) r.start
  cast : castAll r.smi r.tokens (closureAtoms r.smi r.tokens) r.castedIn r.heapIn = .ok (r.castedOut, r.heapOut)
  emitted : ∃ order vb', emit m opts r.sc r.castedOut r.tokens r.smi r.vbIn = .ok (r.out, order, vb')

/-- consecutive rounds hand the closure table and the heap over -/
def Chained : List (Nat × Nat) → List Nat → List Round → Prop
  | _, _, [] => True
  | c, h, r :: rs => r.castedIn = c ∧ r.heapIn = h ∧ Chained r.castedOut r.heapOut rs

theorem finishRound_spec {m env opts g start seen d r order g'}
    (h : finishRound m env opts g start seen d = .ok (r, order, g')) :
    RoundSpec m opts r ∧ r.castedIn = g.casted ∧ r.heapIn = g.heap ∧ g'.casted = r.castedOut ∧ g'.heap = r.heapOut := by
  unfold finishRound at h
  simp only at h
  split at h
  · cases h
  · rename_i casted heap hc
    split at h
    · cases h
    · rename_i adjacency _
      split at h
      · cases h
      · rename_i out order' vb he
        simp only [Except.ok.injEq, Prod.mk.injEq] at h
        obtain ⟨rfl, _, rfl⟩ := h
        exact ⟨⟨rfl, hc, ⟨order', vb, he⟩⟩, rfl, rfl, rfl, rfl⟩

theorem rounds_spec (m : Mol) (env : Env) (opts : Opts) (groups : List (Int × Int)) :
    ∀ (fuel : Nat) (g : Global) rs order, rounds m env opts groups fuel g = .ok (rs, order) →
      (∀ r ∈ rs, RoundSpec m opts r) ∧ Chained g.casted g.heap rs := by
  intro fuel
  induction fuel with
  | zero => intro g rs order h; simp [rounds] at h
  | succ f ih =>
    intro g rs order h
    simp only [rounds] at h
    split at h
    · cases h
    · rename_i r order1 g' h1
      have hs : RoundSpec m opts r ∧ r.castedIn = g.casted ∧ r.heapIn = g.heap ∧ g'.casted = r.castedOut ∧ g'.heap = r.heapOut := by
        unfold oneRound at h1
        split at h1
        · cases h1
        · exact finishRound_spec h1
      split at h
      · simp only [Except.ok.injEq, Prod.mk.injEq] at h
        obtain ⟨rfl, _⟩ := h
        exact ⟨by intro r' hr'; simp at hr'; subst hr'; exact hs.1, ⟨hs.2.1, hs.2.2.1, trivial⟩⟩
      · split at h
        · cases h
        · rename_i rs' order' h2
          simp only [Except.ok.injEq, Prod.mk.injEq] at h
          obtain ⟨rfl, _⟩ := h
          obtain ⟨i1, i2⟩ := ih g' rs' order' h2
          refine ⟨?_, hs.2.1, hs.2.2.1, ?_⟩
          · intro r' hr'
            simp at hr'
            rcases hr' with rfl | hr'
            · exact hs.1
            · exact i1 r' hr'
          · rw [← hs.2.2.2.1, ← hs.2.2.2.2]; exact i2

theorem smilesRounds_spec (m : Mol) (env : Env) (opts : Opts) (rs : List Round) (order : List Nat)
    (h : smilesRounds m env opts = .ok (rs, order)) :
    (∀ r ∈ rs, RoundSpec m opts r) ∧ Chained [] initialHeap rs := by
  unfold smilesRounds at h
  split at h
  · simp only [Except.ok.injEq, Prod.mk.injEq] at h
    obtain ⟨rfl, _⟩ := h
    exact ⟨by simp, trivial⟩
  · split at h
    · cases h
    · exact rounds_spec m env opts _ _ _ _ _ h

theorem RoundSpec.emittedRound {m opts r} (h : RoundSpec m opts r) : RoundEmitted m opts r := by
  obtain ⟨order, vb', he⟩ := h.emitted
  exact ⟨r.castedOut, r.vbIn, order, vb', m.atoms.length + 1, h.smi, he⟩

@[simp] theorem pd_dot (d ts) : parenDepth d (WTok.dot :: ts) = if d == 0 then parenDepth 0 ts else none := rfl

theorem parenDepth_append : ∀ (a b : List WTok) (d : Nat),
    parenDepth d (a ++ b) = (parenDepth d a).bind fun d' => parenDepth d' b := by
  intro a
  induction a with
  | nil => intro b d; simp [parenDepth]
  | cons t tl ih =>
    intro b d
    cases t with
    | atom n a => simp [ih]
    | bond s => simp [ih]
    | closure c => simp [ih]
    | lpar => simp [ih]
    | rpar => simp only [List.cons_append, pd_rpar]; split <;> simp [ih]
    | dot => simp only [List.cons_append, pd_dot]; split <;> simp [ih]

theorem round_balanced {m opts r} (h : RoundSpec m opts r) : parenDepth 0 r.out = some 0 := by
  obtain ⟨order, vb', he⟩ := h.emitted
  rw [emit_parens m opts r.sc r.castedOut r.tokens _ r.vbIn r.out order vb' he 0, h.smi]
  simp only [flatten, fp_atom]
  have := flat_balanced r.edges (m.atoms.length + 1) r.start 0 []
  simpa [fparen] using this

theorem joinRounds_balanced (m : Mol) (opts : Opts) : ∀ (rs : List Round), (∀ r ∈ rs, RoundSpec m opts r) →
    parenDepth 0 (joinRounds rs) = some 0 := by
  intro rs
  induction rs with
  | nil => intro _; simp [joinRounds, parenDepth]
  | cons r tl ih =>
    intro h
    have hr := round_balanced (h r (by simp))
    cases tl with
    | nil => simpa [joinRounds] using hr
    | cons r2 tl2 =>
      simp only [joinRounds]
      rw [parenDepth_append, hr]
      simp only [Option.bind_some, pd_dot, beq_self_eq_true, if_true]
      exact ih (fun r' hr' => h r' (by simp [hr']))

theorem castSeq_append : ∀ (A B : List (List Nat)) (casted : List (Nat × Nat)) (heap : List Nat),
    castSeq (A ++ B) casted heap =
      match castSeq A casted heap with
      | .error e => .error e
      | .ok (c, h) => castSeq B c h := by
  intro A
  induction A with
  | nil => intro B casted heap; simp [castSeq]
  | cons a tl ih =>
    intro B casted heap
    simp only [List.cons_append, castSeq]
    split
    · rfl
    · exact ih B _ _

/-- the numbering of all rounds is one run of the allocator over the concatenated cycle lists -/
theorem chained_castSeq (m : Mol) (opts : Opts) : ∀ (rs : List Round) (c : List (Nat × Nat)) (h : List Nat),
    (∀ r ∈ rs, RoundSpec m opts r) → Chained c h rs →
    ∃ c' h', castSeq (rs.flatMap roundCycles) c h = .ok (c', h') := by
  intro rs
  induction rs with
  | nil => intro c h _ _; exact ⟨c, h, by simp [castSeq]⟩
  | cons r tl ih =>
    intro c h hs hc
    obtain ⟨rfl, rfl, hc'⟩ := hc
    have h1 := (hs r (by simp)).cast
    obtain ⟨c', h', h2⟩ := ih r.castedOut r.heapOut (fun r' hr' => hs r' (by simp [hr'])) hc'
    refine ⟨c', h', ?_⟩
    · simp only [List.flatMap_cons]
      rw [castSeq_append]
      have : castSeq (roundCycles r) r.castedIn r.heapIn = .ok (r.castedOut, r.heapOut) := by
        simpa [roundCycles, castAll] using h1
      rw [this]; exact h2

end ChythonModel.Proofs.C02
