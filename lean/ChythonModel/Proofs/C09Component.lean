import ChythonModel.Proofs.C09Cands
namespace ChythonModel.Proofs.C09
open ChythonModel.Model.Bits ChythonModel.Gen.Bits ChythonModel.Model.Query ChythonModel.Model

theorem candidatesR_range (D : Decode) (cm : CMol) (cq : CQuery) (scope : List Bool) (j : Nat) (qa : CQAtom) (n : Nat)
    (matched : List Bool) (path : List Nat) (row : List CBond) (cs : List Nat)
    (h : candidatesR D cm cq scope j qa n matched path row = some cs) :
    ∀ c ∈ cs, matched[c]? = some false ∧ c < cm.atoms.length := by
  induction row generalizing cs with
  | nil => simp [candidatesR] at h; subst h; intro c hc; simp at hc
  | cons ib rest ih =>
    simp only [candidatesR] at h
    cases htl : candidatesR D cm cq scope j qa n matched path rest with
    | none => rw [htl] at h; simp at h
    | some tl =>
      rw [htl] at h
      simp only at h
      cases hm : cm.atoms[ib.index]? with
      | none => rw [hm] at h; simp at h
      | some mAtom =>
        cases hs : scope[ib.index]? with
        | none => rw [hm, hs] at h; simp at h
        | some sc =>
          cases hmt : matched[ib.index]? with
          | none => rw [hm, hs, hmt] at h; simp at h
          | some mt =>
            rw [hm, hs, hmt] at h
            simp only at h
            by_cases hc : (sc && !mt && refNext D j n ib.index) = true
            · simp only [hc, if_true] at h
              cases hcl : closureR D cm cq j qa ib.index mAtom n matched path with
              | none => rw [hcl] at h; simp at h
              | some b =>
                rw [hcl] at h
                cases b
                · simp only [Option.some.injEq] at h; subst h; exact ih tl htl
                · simp only [Option.some.injEq] at h; subst h
                  intro c hc'
                  rcases List.mem_cons.mp hc' with rfl | hc'
                  · have : mt = false := by
                      simp only [Bool.and_eq_true, Bool.not_eq_true'] at hc; exact hc.1.2
                    exact ⟨by rw [hmt, this], (List.getElem?_eq_some_iff.mp hm).1⟩
                  · exact ih tl htl c hc'
            · have hc' : (sc && !mt && refNext D j n ib.index) = false := by simpa using hc
              simp only [hc', Bool.false_eq_true, if_false, Option.some.injEq] at h
              subst h; exact ih tl htl

theorem candsOfR_range (D : Decode) (cm : CMol) (cq : CQuery) (scope : List Bool) (d : Nat) (path' cs : List Nat)
    (h : candsOfR D cm cq scope d path' = some cs) : ∀ c ∈ cs, c < cm.atoms.length ∧ c ∉ path' := by
  unfold candsOfR at h
  split at h
  · simp at h
  · split at h
    · simp at h
    · unfold expandR at h
      split at h
      · simp at h
      · split at h
        · simp at h
        · split at h
          · simp at h
          · split at h
            · simp at h
            · intro c hc
              obtain ⟨h1, h2⟩ := candidatesR_range _ _ _ _ _ _ _ _ _ _ _ h c hc
              exact ⟨h2, mem_of_ind_false _ _ _ h1⟩

/-- renumbering: two instances of the generic search related by an injective renaming of the explored atoms -/
theorem runG_map (E1 E2 : GenEnv) (f : Nat → Nat) (N : Nat) (hs : E1.size = E2.size)
    (hc : ∀ d path', (∀ x ∈ path', x < N) → path'.length = d + 1 →
      E1.cands d (path'.map f) = (E2.cands d path').map (List.map f))
    (hy : ∀ path d n, (∀ x ∈ path, x < N) → n < N → d = E2.size → path.length = d →
      E1.yld (path.map f) d (f n) = E2.yld path d n)
    (hr : ∀ d path' cs, E2.cands d path' = some cs → ∀ c ∈ cs, c < N ∧ c ∉ path')
    (fuel : Nat) (stack : List (Nat × Nat)) (path : List Nat) (acc : List Iso.Dict) (hinv : InvS stack path)
    (hlt : ∀ x ∈ path, x < N) (hst : ∀ e ∈ stack, e.1 < N ∧ e.2 ≤ E2.size) (hlen : path.length ≤ E2.size) :
    runG E1 fuel (stack.map fun e => (f e.1, e.2)) (path.map f) acc = runG E2 fuel stack path acc := by
  induction fuel generalizing stack path acc with
  | zero => rfl
  | succ fuel ih =>
    cases stack with
    | nil => rfl
    | cons e stack =>
      obtain ⟨n, d⟩ := e
      have hent := hinv.entries (n, d) (by simp)
      have hd : d ≤ path.length := hent.1
      obtain ⟨hnN, hdS⟩ := hst (n, d) (by simp)
      simp only [List.map_cons, runG, hs]
      by_cases hsz : (d == E2.size) = true
      · simp only [hsz, if_true]
        have hde : d = E2.size := by simpa using hsz
        rw [hy path d n hlt hnN hde (by omega)]
        cases E2.yld path d n with
        | none => rfl
        | some mp => exact ih stack path _ hinv.pop hlt (fun e he => hst e (by simp [he])) hlen
      · simp only [hsz, Bool.false_eq_true, if_false]
        have hne : d ≠ E2.size := by simpa using hsz
        have hp' : (path.map f).take d ++ [f n] = (path.take d ++ [n]).map f := by
          rw [List.map_append, List.map_take]; rfl
        have hlt' : ∀ x ∈ path.take d ++ [n], x < N := by
          intro x hx
          rcases List.mem_append.mp hx with h | h
          · exact hlt x (List.mem_of_mem_take h)
          · simp only [List.mem_singleton] at h; rw [h]; exact hnN
        have hl' : (path.take d ++ [n]).length = d + 1 := by simp [List.length_take]; omega
        rw [hp', hc d _ hlt' hl']
        cases hcs : E2.cands d (path.take d ++ [n]) with
        | none => rfl
        | some cs =>
          simp only [Option.map_some]
          have hcr := hr d _ cs hcs
          have := ih (cs.reverse.map (·, d + 1) ++ stack) (path.take d ++ [n]) acc (hinv.step (fun c hc' => (hcr c hc').2)) hlt'
            (by
              intro e he
              rcases List.mem_append.mp he with h | h
              · obtain ⟨c, hc', rfl⟩ := List.mem_map.mp h
                exact ⟨(hcr c (List.mem_reverse.mp hc')).1, by simp only; omega⟩
              · exact hst e (by simp [h]))
            (by rw [hl']; omega)
          rw [← this]
          congr 1
          simp [List.map_append, List.map_map, Function.comp, List.map_reverse]


theorem foldl_set_nodup (pairs : List (Nat × Nat)) (hnd : (pairs.map (·.1)).Nodup) (init : Iso.Dict)
    (hdis : ∀ p ∈ pairs, ∀ q ∈ init, q.1 ≠ p.1) :
    pairs.foldl (fun d p => d.set p.1 p.2) init = init ++ pairs := by
  induction pairs generalizing init with
  | nil => simp
  | cons p rest ih =>
    have hnd' : p.1 ∉ rest.map (·.1) ∧ (rest.map (·.1)).Nodup := by
      rw [List.map_cons] at hnd; exact List.nodup_cons.mp hnd
    simp only [List.foldl_cons]
    rw [set_append init p.1 p.2 (fun q hq => hdis p (by simp) q hq)]
    rw [ih hnd'.2 _ (by
      intro p' hp' q hq
      rcases List.mem_append.mp hq with h | h
      · exact hdis p' (by simp [hp']) q h
      · simp only [List.mem_singleton] at h; subst h
        intro e; apply hnd'.1; simp only at e; rw [e]; exact List.mem_map.mpr ⟨p', hp', rfl⟩)]
    simp

/-- what is yielded at the last depth, on both levels -/
theorem yld_transport {q : LQuery} {m : LMol} {cl : Iso.Closures} {lq : List Iso.Step} {cm : CMol} {cq : CQuery}
    (c : Ctx q m cl lq cm cq) (cand : List Nat) (path : List Nat) (d n : Nat)
    (hlt : ∀ x ∈ path, x < m.atoms.length) (hn : n < m.atoms.length) (hd : d = cq.atoms.length - 1) (hlen : path.length = d) :
    (envP (envOfP q m cl lq cand)).yld (path.map (numOf m)) d (numOf m n) = buildMapping cm cq path d n := by
  have hN := c.natoms
  have hL := c.nq
  have hne := c.hcomp.ne
  have hLpos : 0 < lq.length := List.length_pos_iff.mpr hne
  have hdl : d < lq.length := by omega
  obtain ⟨_, hqlay⟩ := encComponent_layout q cl lq cq c.hqe c.hF c.hcl
  obtain ⟨_, hmlay⟩ := encStructure_layout m cm c.hme c.hm.keys c.hm.nodup
  have hcur : lq[d]? = some lq[d] := List.getElem?_eq_getElem hdl
  simp only [envP, envOfP, hcur]
  -- reference side: the zip plus the last pair
  have hkeys := mappingOf_keys lq c.hF (path.map (numOf m)) d (by simp [hlen]) lq[d] hcur
  rw [set_append _ _ _ hkeys]
  have hzip : mappingOf lq (path.map (numOf m)) ++ [((lq[d]).front, numOf m n)] = (lq.map (·.front)).zip ((path ++ [n]).map (numOf m)) := by
    unfold mappingOf frontsOf
    rw [List.map_append, List.map_cons, List.map_nil,
      zip_append_one _ _ (numOf m n) (lq[d]).front (by simp [hlen, hcur])]
  rw [hzip]
  -- compiled side
  unfold buildMapping
  have htake : path.take d = path := List.take_of_length_le (by omega)
  simp only [htake, Option.bind_eq_bind, bind, Option.pure_def, pure]
  have hlen' : ((path ++ [n]).length != d + 1) = false := by simp [hlen]
  simp only [hlen', Bool.false_eq_true, if_false]
  -- the pairs
  have hpairs : (path ++ [n]).zipIdx.mapM (fun (x : Nat × Nat) =>
        (cq.atoms[x.2]?).bind fun qa => (cm.atoms[x.1]?).bind fun a => some (qa.mapping, a.mapping)) =
      some ((lq.map (·.front)).zip ((path ++ [n]).map (numOf m))) := by
    apply mapM_of_get
    · simp [List.length_zip, hlen]; omega
    · intro t x y hx hy
      obtain ⟨ht, hxe⟩ := List.getElem?_eq_some_iff.mp hx
      simp only [List.length_zipIdx, List.length_append, List.length_cons, List.length_nil] at ht
      have hxv : x = ((path ++ [n])[t]'(by simp; omega), t) := by
        rw [← hxe]; simp [List.getElem_zipIdx]
      have htl : t < lq.length := by omega
      obtain ⟨qa, _, _, g1, _, _, g4, _⟩ := hqlay t lq[t] (List.getElem?_eq_getElem htl)
      have hxi : (path ++ [n])[t]'(by simp; omega) < m.atoms.length := by
        have : (path ++ [n])[t]'(by simp; omega) ∈ path ++ [n] := List.getElem_mem _
        rcases List.mem_append.mp this with h | h
        · exact hlt _ h
        · simp only [List.mem_singleton] at h; rw [h]; exact hn
      obtain ⟨nn, aa, ms, h1, h2⟩ := mol_row m c.hm.keys _ hxi
      obtain ⟨ca, _, _, _, k1, _, _, k4, _⟩ := hmlay _ nn aa ms h1 h2
      have hnum : numOf m ((path ++ [n])[t]'(by simp; omega)) = nn := by
        have := numOf_get m _ hxi
        have h' : m.ids[(path ++ [n])[t]'(by simp; omega)]? = some nn := by simp [LMol.ids, h1]
        rw [h'] at this; exact (Option.some.inj this).symm
      rw [hxv]
      simp only [g1, k1, Option.bind_some]
      have hy' : y = ((lq[t]).front, numOf m ((path ++ [n])[t]'(by simp; omega))) := by
        rw [List.getElem?_zip_eq_some] at hy
        have h1' : (lq.map (·.front))[t]? = some (lq[t]).front := by simp [List.getElem?_eq_getElem htl]
        have h2' : ((path ++ [n]).map (numOf m))[t]? = some (numOf m ((path ++ [n])[t]'(by simp; omega))) := by
          rw [List.getElem?_map, List.getElem?_eq_getElem (show t < (path ++ [n]).length by simp; omega)]; rfl
        rw [h1'] at hy; rw [h2'] at hy
        exact Prod.ext (Option.some.inj hy.1).symm (Option.some.inj hy.2).symm
      rw [hy', g4, k4, hnum]
  have hfun : (fun (x : Nat × Nat) => (cq.atoms[x.2]?).bind fun qa => (cm.atoms[x.1]?).bind fun a => some (qa.mapping, a.mapping)) =
      (fun (x : Nat × Nat) => match x with | (x, i) => (cq.atoms[i]?).bind fun qa => (cm.atoms[x]?).bind fun a => some (qa.mapping, a.mapping)) := by
    funext x; rfl
  rw [← hfun, hpairs]
  simp only [Option.bind_some]
  rw [foldl_set_nodup _ (by
      have : (((lq.map (·.front)).zip ((path ++ [n]).map (numOf m))).map (·.1)).Sublist (lq.map (·.front)) := zip_fst_sublist _ _
      exact c.hF.sublist this) [] (by intro p _ q hq; simp at hq)]
  simp


theorem zipIdx_filter_snd {α} (l : List α) (p : Nat → Bool) (k : Nat) :
    ((l.zipIdx k).filter fun x => p x.2).map (·.2) = (List.range' k l.length).filter p := by
  induction l generalizing k with
  | nil => rfl
  | cons a l ih =>
    simp only [List.zipIdx_cons, List.length_cons, List.range'_succ, List.filter_cons]
    split <;> simp [ih]

theorem ids_eq_range (m : LMol) : m.ids = (List.range m.atoms.length).map (numOf m) := by
  apply List.ext_getElem?
  intro i
  by_cases hi : i < m.atoms.length
  · rw [numOf_get m i hi, List.getElem?_map, List.getElem?_range hi]; rfl
  · have h1 : m.ids.length ≤ i := by simp [LMol.ids]; omega
    have h2 : ((List.range m.atoms.length).map (numOf m)).length ≤ i := by simp; omega
    rw [List.getElem?_eq_none h1, List.getElem?_eq_none h2]

theorem comp_root {q : LQuery} {m : LMol} {cl : Iso.Closures} {lq : List Iso.Step} {cm : CMol} {cq : CQuery}
    (c : Ctx q m cl lq cm cq) (s : Iso.Step) (hs : lq[0]? = some s) :
    (∃ qa, cq.atoms[0]? = some qa) ∧ q.atom? s.front = some ((decodeOf q m lq).qat 0) := by
  obtain ⟨_, hqlay⟩ := encComponent_layout q cl lq cq c.hqe c.hF c.hcl
  obtain ⟨qa, w, _, g1, g2, _⟩ := hqlay 0 s hs
  obtain ⟨a, _, _, k1, _⟩ := stepMask_ok q s w g2
  refine ⟨⟨qa, g1⟩, ?_⟩
  have : (decodeOf q m lq).qat 0 = a := by
    simp only [decodeOf]; rw [front_getD lq 0 s hs, k1]; rfl
  rw [this]; exact k1

theorem roots_transport {q : LQuery} {m : LMol} {cl : Iso.Closures} {lq : List Iso.Step} {cm : CMol} {cq : CQuery}
    (c : Ctx q m cl lq cm cq) (cand : List Nat) :
    ∃ R, rootsR (decodeOf q m lq) cm cq (scopeArray m cand) = some R ∧ Iso.roots (envOfP q m cl lq cand) = R.map (numOf m) ∧
      ∀ r ∈ R, r < m.atoms.length := by
  have hN := c.natoms
  have hne := c.hcomp.ne
  obtain ⟨s, rest, hlq⟩ := List.exists_cons_of_ne_nil hne
  subst hlq
  · have hs : (s :: rest)[0]? = some s := rfl
    obtain ⟨⟨qa, hqa⟩, hat⟩ := comp_root c s hs
    unfold rootsR
    rw [hqa]
    have hsl : ¬ (scopeArray m cand).length < cm.atoms.length := by simp [scopeArray, LMol.ids, hN]
    simp only [hsl, if_false]
    refine ⟨_, rfl, ?_, ?_⟩
    · have hz := zipIdx_filter_snd cm.atoms (fun i => (scopeArray m cand).getD i false &&
        pyEq ((decodeOf q m (s :: rest)).qat 0) ((decodeOf q m (s :: rest)).mat i)) 0
      rw [hz, ← List.range_eq_range', hN] -- indices 0 … N-1
      unfold Iso.roots
      simp only [envOfP]
      rw [ids_eq_range m, filter_map_comm]
      congr 1
      apply List.filter_congr
      intro i hi
      have hil : i < m.atoms.length := List.mem_range.mp hi
      simp only [Function.comp]
      rw [atomOkPy_eq q m s.front (numOf m i) _ _ hat (mol_atom q m (s :: rest) c.hm i hil)]
      have : (scopeArray m cand).getD i false = cand.contains (numOf m i) := by
        simp [List.getD, scopeArray_get m cand i hil]
      rw [this]
    · intro r hr
      obtain ⟨p, hp, rfl⟩ := List.mem_map.mp hr
      have := (List.mem_filter.mp hp).1
      have h2 := List.mem_zipIdx this
      simp only [Nat.zero_add] at h2
      omega


/-- **one component, one candidate target component**: the compiled matcher run on the encoders' outputs yields exactly — same
    dicts, same order — what the reference `_get_mapping` yields -/
theorem getMappingC_eq_python {q : LQuery} {m : LMol} {cl : Iso.Closures} {lq : List Iso.Step} {cm : CMol} {cq : CQuery}
    (c : Ctx q m cl lq cm cq) (cand : List Nat)
    (hpairs : ∀ p ∈ q.atoms, ∀ r ∈ m.atoms, NoHeavyClash p.2 r.2 ∧ HKnown p.2 r.2) :
    getMappingC cm cq (scopeArray m cand) = Iso.getMapping (envOfP q m cl lq cand) := by
  have hFa := encoders_faithful q m cl lq cm cq c.hm c.hq c.hme c.hqe c.hF c.hcl c.hcomp hpairs
  rw [getMappingC_eq_R _ cm cq hFa]
  have hN := c.natoms
  have hL := c.nq
  obtain ⟨R, hR, hroots, hRlt⟩ := roots_transport c cand
  unfold getMappingR
  rw [hR]
  simp only
  obtain ⟨s, rest, hlq⟩ := List.exists_cons_of_ne_nil c.hcomp.ne
  have hgm : Iso.getMapping (envOfP q m cl lq cand) =
      Iso.runLoop (envOfP q m cl lq cand) ((envOfP q m cl lq cand).lq.length - 1) (Iso.machineFuel (envOfP q m cl lq cand))
        ((Iso.roots (envOfP q m cl lq cand)).reverse.map (·, 0)) [] [] [] [] := by
    unfold Iso.getMapping
    have : (envOfP q m cl lq cand).lq = s :: rest := hlq
    rw [this]
  rw [hgm]
  have hB := runLoop_eq_runG (envOfP q m cl lq cand) c.hF (Iso.machineFuel (envOfP q m cl lq cand))
    ((Iso.roots (envOfP q m cl lq cand)).reverse.map (·, 0)) [] [] (invS_roots _) (by simp)
  have hm0 : mappingOf (envOfP q m cl lq cand).lq [] = [] := by simp [mappingOf]
  have hr0 : rmappingOf (envOfP q m cl lq cand).lq [] = [] := rfl
  rw [hm0, hr0] at hB
  rw [hB]
  have hfuel : Iso.machineFuel (envOfP q m cl lq cand) = fuelC cm cq := by
    simp only [Iso.machineFuel, fuelC, envOfP, hN, hL, LMol.ids, List.length_map]
  rw [hfuel, hroots]
  have hstack : ((R.map (numOf m)).reverse.map (·, 0)) = (R.reverse.map (·, 0)).map (fun e => (numOf m e.1, e.2)) := by
    simp [List.map_reverse, List.map_map, Function.comp]
  rw [hstack]
  have := runG_map (envP (envOfP q m cl lq cand)) (envR (decodeOf q m lq) cm cq (scopeArray m cand)) (numOf m) m.atoms.length
    (by simp only [envP, envR, envOfP, hL])
    (fun d path' hlt hlen => cands_transport c cand d path' hlt hlen)
    (fun path d n hlt hn hd hlen => yld_transport c cand path d n hlt hn hd hlen)
    (fun d path' cs h => by
      intro x hx
      have := candsOfR_range _ _ _ _ _ _ _ h x hx
      exact ⟨by rw [← hN]; exact this.1, this.2⟩)
    (fuelC cm cq) (R.reverse.map (·, 0)) [] [] (invS_roots _) (by simp)
    (by
      intro e he
      obtain ⟨r, hr, rfl⟩ := List.mem_map.mp he
      exact ⟨hRlt r (List.mem_reverse.mp hr), Nat.zero_le _⟩)
    (by simp)
  simpa using this.symm

end ChythonModel.Proofs.C09
