import ChythonModel.Model.C01Check
import ChythonModel.Proofs.C01Generic
/-! Soundness of the C01 relational checker. -/
namespace ChythonModel.Proofs.C01
open ChythonModel.Model ChythonModel.Model.Morgan ChythonModel.Model.C01Check ChythonModel.Spec.Renumbering
open List

theorem nodupB_sound : ∀ {l : List Nat}, nodupB l = true → l.Nodup := by
  intro l
  induction l with
  | nil => intro _; exact Pairwise.nil
  | cons x tl ih =>
    intro h
    simp only [nodupB, Bool.and_eq_true, Bool.not_eq_eq_eq_not, Bool.not_true] at h
    refine nodup_cons.mpr ⟨?_, ih h.2⟩
    intro hx
    have : tl.contains x = true := by simpa using hx
    rw [this] at h
    exact absurd h.1 (by simp)

theorem mem_of_lookup {β : Type} {d : List (Nat × β)} {n : Nat} {v : β} (h : d.lookup n = some v) : (n, v) ∈ d := by
  induction d with
  | nil => simp at h
  | cons kv tl ih =>
    obtain ⟨k, x⟩ := kv
    simp only [lookup_cons] at h
    by_cases hk : n = k
    · subst hk
      simp only [beq_self_eq_true, Option.some.injEq] at h
      subst h; exact mem_cons_self
    · have h2 : (n == k) = false := by simp [hk]
      simp only [h2] at h
      exact mem_cons_of_mem _ (ih h)

theorem le_foldl_max (l : List Nat) (init : Nat) : init ≤ l.foldl max init ∧ ∀ v ∈ l, v ≤ l.foldl max init := by
  induction l generalizing init with
  | nil => exact ⟨Nat.le_refl _, by simp⟩
  | cons a tl ih =>
    simp only [foldl_cons]
    have := ih (max init a)
    refine ⟨Nat.le_trans (Nat.le_max_left _ _) this.1, ?_⟩
    intro v hv
    rcases mem_cons.mp hv with rfl | hv
    · exact Nat.le_trans (Nat.le_max_right _ _) this.1
    · exact this.2 v hv

theorem key_unique_of_values_nodup {mp : List (Nat × Nat)} (hv : (mp.map (·.2)).Nodup) {n n' v : Nat}
    (h1 : (n, v) ∈ mp) (h2 : (n', v) ∈ mp) : n = n' := by
  induction mp with
  | nil => simp at h1
  | cons kv tl ih =>
    simp only [map_cons, nodup_cons, mem_map] at hv
    rcases mem_cons.mp h1 with rfl | h1' <;> rcases mem_cons.mp h2 with h2' | h2'
    · exact (Prod.mk.inj h2').1.symm ▸ rfl
    · exact absurd ⟨(n', v), h2', rfl⟩ hv.1
    · subst h2'; exact absurd ⟨(n, v), h1', rfl⟩ hv.1
    · exact ih hv.2 h1' h2'

theorem extend_injective {mp : List (Nat × Nat)} (hv : (mp.map (·.2)).Nodup) : Function.Injective (extend mp) := by
  intro n n' h
  unfold extend at h
  have hmax := (le_foldl_max (mp.map (·.2)) 0).2
  cases h1 : mp.lookup n with
  | some v =>
    cases h2 : mp.lookup n' with
    | some v' =>
      simp only [h1, h2] at h
      subst h
      exact key_unique_of_values_nodup hv (mem_of_lookup h1) (mem_of_lookup h2)
    | none =>
      simp only [h1, h2] at h
      have := hmax v (mem_map.mpr ⟨(n, v), mem_of_lookup h1, rfl⟩)
      omega
  | none =>
    cases h2 : mp.lookup n' with
    | some v' =>
      simp only [h1, h2] at h
      have := hmax v' (mem_map.mpr ⟨(n', v'), mem_of_lookup h2, rfl⟩)
      omega
    | none =>
      simp only [h1, h2] at h
      omega

theorem pointwise_of_all {α β : Type} {S : α → β → Prop} (f : α → β) (l : List α) (h : ∀ a ∈ l, S a (f a)) :
    Pointwise S l (l.map f) := by
  induction l with
  | nil => exact .nil
  | cons a tl ih => exact .cons (h a mem_cons_self) (ih fun x hx => h x (mem_cons_of_mem _ hx))

theorem checkSame_sound (mp : List (Nat × Nat)) (a b : MolView) (h : checkSame mp a b = true) :
    Function.Injective (extend mp) ∧ ((keys a.atoms).Nodup ∧ (keys a.bonds).Nodup) ∧
    DictEq (extend mp) a.atoms b.atoms ∧ AdjEq (extend mp) a.bonds b.bonds := by
  unfold checkSame at h
  simp only [Bool.and_eq_true, all_eq_true] at h
  obtain ⟨⟨⟨⟨⟨⟨_, hvals⟩, hka⟩, hkb⟩, hat⟩, hbb⟩, hrows⟩ := h
  refine ⟨extend_injective (nodupB_sound hvals), ⟨nodupB_sound hka, nodupB_sound hkb⟩, isPerm_iff.mp hat, ?_⟩
  refine ⟨_, isPerm_iff.mp hbb, ?_⟩
  apply pointwise_of_all
  intro row hrow
  exact ⟨rfl, isPerm_iff.mp (hrows row hrow)⟩

end ChythonModel.Proofs.C01
