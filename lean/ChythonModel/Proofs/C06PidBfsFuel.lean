import ChythonModel.Proofs.C06PidBfs
/-!
# C06 — the fuel of the model's `while True:` loop of `_bfs` always suffices: `bfsPaths_isSome`

Facts about one round `s = bfsRound g atoms stack term`:
* `s.front` is exactly the set of the keys of `stack` (`bfsRound_front`);
* every key of `s.next` is in `atoms` (`bfsRound_next_keys`): it was taken from `nbrsOf g tail` filtered by `atoms`.

Measure: a state `(atoms, stack)` is *fresh* if `stack` is empty or one of its keys is in `atoms`.
A fresh round either ends, restarts on a strictly shorter `atoms`, or continues with a strictly shorter `atoms`;
a stale round (no key of `stack` in `atoms`) removes nothing, so the keys of `s.next ≠ []` are all in the next `atoms`:
the following state is fresh.  Hence `2 * atoms.length + 2` iterations suffice (`+ 1` from a fresh state).
-/
namespace ChythonModel.Proofs.C06
open ChythonModel.Model.C06

/-! ## one round: `front` and the keys of `next` -/

def BfsKeysIn (atoms : List Nat) (d : List (Nat × Path)) : Prop := ∀ x ∈ d, x.1 ∈ atoms

/-- `front` is `f`, the keys of `next` are in `atoms` -/
def RoundInv (atoms f : List Nat) (s : BfsSt) : Prop := s.front = f ∧ BfsKeysIn atoms s.next

theorem bfsKeysIn_aset {atoms : List Nat} {d : List (Nat × Path)} {k : Nat} {v : Path}
    (h : BfsKeysIn atoms d) (hk : k ∈ atoms) : BfsKeysIn atoms (aset d k v) := by
  intro x hx
  rcases mem_aset_nat d k v x hx with e | hx
  · rw [e]; exact hk
  · exact h x hx

theorem bfsKeysIn_adel {atoms : List Nat} {d : List (Nat × Path)} {k : Nat}
    (h : BfsKeysIn atoms d) : BfsKeysIn atoms (adel d k) := by
  intro x hx
  exact h x (List.mem_filter.1 hx).1

theorem rinv_bfsEdge {atoms f : List Nat} (sk : List Nat) (tail n : Nat) (path : Path) (s : BfsSt)
    (hs : RoundInv atoms f s) (hn : n ∈ atoms) : RoundInv atoms f (bfsEdge sk tail n path s) := by
  unfold bfsEdge
  split
  · exact hs
  · split
    · split
      · exact ⟨hs.1, bfsKeysIn_aset hs.2 hn⟩
      · exact hs
    · exact ⟨hs.1, bfsKeysIn_aset hs.2 hn⟩

theorem rinv_bfsSingle {atoms f : List Nat} (sk : List Nat) (tail n : Nat) (path : Path) (s : BfsSt)
    (hs : RoundInv atoms f s) (hn : n ∈ atoms) : RoundInv atoms f (bfsSingle sk tail n path s) := by
  unfold bfsSingle
  split
  · split
    · exact ⟨hs.1, bfsKeysIn_aset hs.2 hn⟩
    · exact ⟨hs.1, bfsKeysIn_aset hs.2 hn⟩
  · exact rinv_bfsEdge sk tail n _ s hs hn

theorem rinv_bfsMultiStep {atoms f : List Nat} (sk : List Nat) (tail : Nat) (s : BfsSt) (n : Nat)
    (hs : RoundInv atoms f s) (hn : n ∈ atoms) : RoundInv atoms f (bfsMultiStep sk tail s n) := by
  unfold bfsMultiStep
  split
  · split
    · exact ⟨hs.1, bfsKeysIn_adel hs.2⟩
    · exact ⟨hs.1, bfsKeysIn_aset hs.2 hn⟩
  · exact rinv_bfsEdge sk tail n _ s hs hn

theorem rinv_foldl_multi {atoms f : List Nat} (sk : List Nat) (tail : Nat) (nb : List Nat)
    (hnb : ∀ x ∈ nb, x ∈ atoms) (s : BfsSt) (hs : RoundInv atoms f s) :
    RoundInv atoms f (nb.foldl (bfsMultiStep sk tail) s) := by
  induction nb generalizing s with
  | nil => exact hs
  | cons n tl ih =>
    rw [List.foldl_cons]
    exact ih (fun x hx => hnb x (List.mem_cons_of_mem _ hx)) _
      (rinv_bfsMultiStep sk tail s n hs (hnb n List.mem_cons_self))

theorem rinv_bfsVisit {f : List Nat} (g : Adj) (atoms sk : List Nat) (s : BfsSt) (tp : Nat × Path)
    (hs : RoundInv atoms f s) : RoundInv atoms (tp.1 :: f) (bfsVisit g atoms sk s tp) := by
  have hmem : ∀ x ∈ sortAsc ((nbrsOf g tp.1).filter fun x => atoms.contains x), x ∈ atoms := by
    intro x hx
    exact List.contains_iff_mem.1 (List.mem_filter.1 (mem_sortAsc.1 hx)).2
  unfold bfsVisit
  generalize sortAsc ((nbrsOf g tp.1).filter fun x => atoms.contains x) = nb at hmem
  have hs' : RoundInv atoms (tp.1 :: f) { s with front := tp.1 :: s.front } :=
    ⟨by rw [← hs.1], hs.2⟩
  match nb, hmem with
  | [], _ => exact hs'
  | [n], hmem => exact rinv_bfsSingle sk tp.1 n tp.2 _ hs' (hmem n List.mem_cons_self)
  | a :: b :: tl, hmem =>
    refine rinv_foldl_multi sk tp.1 _ hmem _ ?_
    split
    · exact hs'
    · exact hs'

theorem rinv_foldl_visit (g : Adj) (atoms sk : List Nat) (stack : List (Nat × Path)) (f : List Nat)
    (s : BfsSt) (hs : RoundInv atoms f s) :
    RoundInv atoms ((stack.map (·.1)).reverse ++ f) (stack.foldl (bfsVisit g atoms sk) s) := by
  induction stack generalizing s f with
  | nil => exact hs
  | cons tp tl ih =>
    rw [List.foldl_cons]
    have := ih (tp.1 :: f) _ (rinv_bfsVisit g atoms sk s tp hs)
    simpa using this

theorem rinv_bfsRound (g : Adj) (atoms : List Nat) (stack : List (Nat × Path)) (term : List Path) :
    RoundInv atoms ((stack.map (·.1)).reverse ++ []) (bfsRound g atoms stack term) := by
  unfold bfsRound
  exact rinv_foldl_visit g atoms _ stack [] _ ⟨rfl, fun x hx => by simp at hx⟩

/-- `next_front` of a round = the keys of its stack -/
theorem bfsRound_front (g : Adj) (atoms : List Nat) (stack : List (Nat × Path)) (term : List Path) (x : Nat) :
    x ∈ (bfsRound g atoms stack term).front ↔ ∃ tp ∈ stack, tp.1 = x := by
  rw [(rinv_bfsRound g atoms stack term).1]
  simp

/-- the keys of `next_stack` of a round are atoms not yet removed -/
theorem bfsRound_next_keys (g : Adj) (atoms : List Nat) (stack : List (Nat × Path)) (term : List Path) :
    BfsKeysIn atoms (bfsRound g atoms stack term).next :=
  (rinv_bfsRound g atoms stack term).2

theorem bfsRound_nil_next (g : Adj) (atoms : List Nat) (term : List Path) :
    (bfsRound g atoms [] term).next = [] := rfl

/-! ## the loop -/

/-- the stack is empty or one of its keys is still in `atoms` -/
def BfsFresh (atoms : List Nat) (stack : List (Nat × Path)) : Prop :=
  stack = [] ∨ ∃ tp ∈ stack, tp.1 ∈ atoms

theorem bfsFresh_bfsStart (atoms : List Nat) (t : Nat) (xs : List Nat) (h : ∀ x ∈ xs, x ∈ atoms) :
    BfsFresh atoms (bfsStart t xs) := by
  cases xs with
  | nil => exact Or.inl rfl
  | cons x tl => exact Or.inr ⟨(x, [t, x]), by simp [bfsStart], h x List.mem_cons_self⟩

theorem bfsLoop_isSome (g : Adj) : ∀ (fuel : Nat) (atoms : List Nat) (stack : List (Nat × Path)) (term : List Path),
    (2 * atoms.length + 1 < fuel ∨ (BfsFresh atoms stack ∧ 2 * atoms.length < fuel)) →
    (bfsLoop g fuel atoms stack term).isSome = true := by
  intro fuel
  induction fuel with
  | zero =>
    intro atoms stack term h
    rcases h with h | ⟨_, h⟩ <;> omega
  | succ fuel ih =>
    intro atoms stack term h
    have hfront := bfsRound_front g atoms stack term
    have hnext := bfsRound_next_keys g atoms stack term
    have hle := List.length_filter_le (fun a => !(bfsRound g atoms stack term).front.contains a) atoms
    have hfuel : 2 * atoms.length ≤ fuel := by rcases h with h | ⟨_, h⟩ <;> omega
    unfold bfsLoop
    simp only
    split
    · rfl
    · rename_i t rest heq
      rw [heq] at hle
      simp only [List.length_cons] at hle
      split
      · -- restart on `rest`
        apply ih
        right
        refine ⟨bfsFresh_bfsStart rest t _ ?_, by omega⟩
        intro x hx
        exact List.contains_iff_mem.1 (List.mem_filter.1 (mem_sortAsc.1 hx)).2
      · rename_i hne
        by_cases hG : BfsFresh atoms stack
        · rcases hG with hnil | ⟨tp, htp, hin⟩
          · subst hnil
            exact absurd rfl hne
          · have hlt : (atoms.filter fun a => !(bfsRound g atoms stack term).front.contains a).length
                < atoms.length := by
              rw [List.length_filter_lt_length_iff_exists]
              refine ⟨tp.1, hin, ?_⟩
              have : tp.1 ∈ (bfsRound g atoms stack term).front := (hfront tp.1).2 ⟨tp, htp, rfl⟩
              simp [this]
            apply ih
            left
            omega
        · have hstale : atoms.filter (fun a => !(bfsRound g atoms stack term).front.contains a) = atoms := by
            rw [List.filter_eq_self]
            intro a ha
            have : a ∉ (bfsRound g atoms stack term).front := by
              intro hm
              obtain ⟨tp, htp, e⟩ := (hfront a).1 hm
              exact hG (Or.inr ⟨tp, htp, e ▸ ha⟩)
            simp [this]
          rcases h with h | ⟨hG', _⟩
          · apply ih
            right
            refine ⟨Or.inr ?_, ?_⟩
            · cases hnx : (bfsRound g atoms stack term).next with
              | nil => rw [hnx] at hne; exact absurd rfl hne
              | cons x tl =>
                refine ⟨x, List.mem_cons_self, ?_⟩
                rw [hstale]
                exact hnext x (by rw [hnx]; exact List.mem_cons_self)
            · rw [hstale]; omega
          · exact absurd hG' hG

/-- the `while True:` loop of `_bfs` ends within the model's fuel: `bfsPaths` returns on every non-empty graph -/
theorem bfsPaths_isSome (g : Adj) (hne : g ≠ []) : (bfsPaths g).isSome = true := by
  have hlen : (sortAsc (keys g)).length = g.length := by
    have := (isort_perm (keys g) (fun a b => decide (a ≤ b))).length_eq
    simpa [sortAsc, keys] using this
  unfold bfsPaths
  split
  · rename_i heq
    rw [heq] at hlen
    cases g with
    | nil => exact absurd rfl hne
    | cons a tl => simp at hlen
  · rename_i t rest heq
    rw [heq] at hlen
    simp only [List.length_cons] at hlen
    apply bfsLoop_isSome
    left
    omega

end ChythonModel.Proofs.C06
