import ChythonModel.Proofs.C10Main
/-!
# C10: Python slices, reaction framing round trip
-/
namespace ChythonModel.Proofs.C10
open ChythonModel.Model.Pack

/-- arithmetic value of the three bytes that carry two 12-bit numbers -/
theorem pair12_arith (p q : Nat) (hp : p < 4096) (hq : q < 4096) :
    u8 (p >>> 4) = p / 16 ∧ u8 (p <<< 4 ||| q >>> 8) = (p % 16) * 16 + q / 256 ∧ u8 q = q % 256 := by
  refine ⟨?_, ?_, rfl⟩
  · simp only [u8, Nat.shiftRight_eq_div_pow, Nat.reducePow]; omega
  · rw [← u8_or_left]
    simp only [u8, Nat.shiftLeft_eq, Nat.shiftRight_eq_div_pow, Nat.reducePow]
    have e1 : p * 16 % 256 = (p % 16) * 16 := by omega
    rw [e1, or16 _ _ (by omega)]; omega

theorem and_fff (x : Nat) : x &&& 0x0fff = x % 4096 := Nat.and_two_pow_sub_one_eq_mod x 12

theorem be24 (p q : Nat) (hp : p < 4096) (hq : q < 4096) :
    fromBytesBE [u8 (p >>> 4), u8 (p <<< 4 ||| q >>> 8), u8 q] = p * 4096 + q := by
  obtain ⟨h1, h2, h3⟩ := pair12_arith p q hp hq
  rw [h1, h2, h3]; simp only [fromBytesBE, List.foldl]; omega

theorem pySlice_nat {α} (xs : List α) (lo hi : Nat) :
    pySlice xs (some (lo : Int)) (some (hi : Int)) = (xs.take hi).drop lo := by
  simp only [pySlice]
  have h1 : ¬ ((lo : Int) < 0) := by omega
  have h2 : ¬ ((hi : Int) < 0) := by omega
  simp only [if_neg h1, if_neg h2]
  have e1 : (min (lo : Int) (xs.length : Int)).toNat = min lo xs.length := by omega
  have e2 : (min (hi : Int) (xs.length : Int)).toNat = min hi xs.length := by omega
  rw [e1, e2]
  rw [← List.take_eq_take_min]
  by_cases hl : lo ≤ xs.length
  · rw [Nat.min_eq_left hl]
  · have hlen : (xs.take hi).length ≤ xs.length := by simp; omega
    rw [Nat.min_eq_right (by omega), List.drop_eq_nil_of_le hlen, List.drop_eq_nil_of_le (by omega)]

theorem pySlice_to {α} (xs : List α) (hi : Nat) : pySlice xs none (some (hi : Int)) = xs.take hi := by
  simp only [pySlice]
  have h2 : ¬ ((hi : Int) < 0) := by omega
  simp only [if_neg h2]
  have e2 : (min (hi : Int) (xs.length : Int)).toNat = min hi xs.length := by omega
  rw [e2, ← List.take_eq_take_min]; rfl

theorem pySlice_from {α} (xs : List α) (lo : Nat) : pySlice xs (some (lo : Int)) none = xs.drop lo := by
  simp only [pySlice]
  have h1 : ¬ ((lo : Int) < 0) := by omega
  simp only [if_neg h1]
  have e1 : (min (lo : Int) (xs.length : Int)).toNat = min lo xs.length := by omega
  rw [e1, List.take_length, ← List.drop_eq_drop_min]

/-- the role split of `unpack` / `pack_len` puts every molecule back into its own role, for all role sizes -/
theorem splitRoles_append {α} (r g p : List α) :
    splitRoles (r ++ g ++ p) r.length g.length = ⟨r, g, p⟩ := by
  simp only [splitRoles]
  have e : ((r.length : Int) + (g.length : Int)) = ((r.length + g.length : Nat) : Int) := by omega
  rw [e, pySlice_to, pySlice_nat, pySlice_from]
  have h1 : (r ++ g ++ p).take r.length = r := by rw [List.append_assoc]; exact List.take_left' rfl
  have h2 : ((r ++ g ++ p).take (r.length + g.length)).drop r.length = g := by
    rw [List.take_left' (by simp)]; exact List.drop_left' rfl
  have h3 : (r ++ g ++ p).drop (r.length + g.length) = p := List.drop_left' (by simp)
  rw [h1, h2, h3]

/-- what `unpack` returns for the pack of `m` (before cis/trans re-attachment) -/
def decodedOf (m : PMol) : Decoded :=
  ⟨m.atoms.map eraseSt, ctListOf m.terminals (firstSeen [] m.atoms), packSize m.atoms⟩

theorem encodeAll_decodeMany : ∀ (ms : List PMol), (∀ m ∈ ms, WF m) → ∀ rest : List Nat,
    ∃ bytes, encodeAll ms = .ok bytes ∧ decodeMany ms.length (bytes ++ rest) = .ok (ms.map decodedOf)
  | [], _, rest => ⟨[], rfl, by simp [decodeMany]⟩
  | m :: ms, h, rest => by
    obtain ⟨bs, i1, i2⟩ := encodeAll_decodeMany ms (fun x hx => h x (by simp [hx])) rest
    obtain ⟨b, e1, e2, e3⟩ := decode_encode_aux m (h m (by simp)) (bs ++ rest)
    refine ⟨b ++ bs, by simp only [encodeAll, e1, i1]; rfl, ?_⟩
    have hdrop : (b ++ bs ++ rest).drop b.length = bs ++ rest := by
      rw [List.append_assoc]; exact List.drop_left' rfl
    rw [List.append_assoc] at hdrop ⊢
    simp only [List.length_cons, decodeMany, e3]
    show (do
      let r ← decodeMany ms.length ((b ++ (bs ++ rest)).drop b.length)
      pure (_ :: r)) = _
    rw [hdrop, i2, e2]; rfl

structure RxnWF (r : PRxn) : Prop where
  mols : ∀ m ∈ r.molecules, WF m
  nonempty : r.molecules ≠ []
  reactants : r.reactants.length ≤ 255
  reagents : r.reagents.length ≤ 255
  products : r.products.length ≤ 255

/-- **reaction round trip**, any role sizes 0…255 (at least one molecule): every molecule comes back in its own role -/
theorem rxn_roundtrip_aux (r : PRxn) (h : RxnWF r) :
    ∃ bytes, rxnEncode r = .ok bytes ∧
      rxnDecode bytes = .ok ⟨r.reactants.map decodedOf, r.reagents.map decodedOf, r.products.map decodedOf⟩ := by
  obtain ⟨bs, e1, e2⟩ := encodeAll_decodeMany r.molecules h.mols []
  have hc : ¬ (r.reactants.length > 255 ∨ r.reagents.length > 255 ∨ r.products.length > 255) := by
    have := h.reactants; have := h.reagents; have := h.products; omega
  refine ⟨[1, r.reactants.length, r.reagents.length, r.products.length] ++ bs, ?_, ?_⟩
  · simp only [rxnEncode, if_neg hc, e1]; rfl
  · have hlen : r.molecules.length = r.reactants.length + r.reagents.length + r.products.length := by
      simp [PRxn.molecules]; omega
    have hne : (r.molecules.map decodedOf).isEmpty = false := by
      cases hm : r.molecules with
      | nil => exact absurd hm h.nonempty
      | cons _ _ => rfl
    rw [List.append_nil] at e2
    rw [hlen] at e2
    have h11 : ((1 : Nat) != 1) = false := rfl
    simp only [List.cons_append, List.nil_append, rxnDecode, h11, Bool.false_eq_true, ↓reduceIte, e2]
    show (if (r.molecules.map decodedOf).isEmpty = true then Except.error PErr.empty
      else pure (splitRoles (r.molecules.map decodedOf) r.reactants.length r.reagents.length)) = _
    rw [hne]
    have := splitRoles_append (r.reactants.map decodedOf) (r.reagents.map decodedOf) (r.products.map decodedOf)
    simp only [List.length_map] at this
    simp only [PRxn.molecules, List.map_append, Bool.false_eq_true, ↓reduceIte, this]
    rfl

end ChythonModel.Proofs.C10
