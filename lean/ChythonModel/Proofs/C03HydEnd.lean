import ChythonModel.Proofs.C03HydGraph
import ChythonModel.Proofs.C03HydSmiles
import ChythonModel.Proofs.C03Mapping
/-!
# C03 — hydrogens on the graph, for the molecule `smiles()` returns (assembly)
-/
set_option linter.unusedSimpArgs false
namespace ChythonModel.Proofs.C03
open ChythonModel.Model.C03 ChythonModel.Gen.C03 ChythonModel.Model.Valence

theorem smilesMol_parts (smi : Str) (rad : List Nat) (r : MolRec) (m : MolOut)
    (h : smilesMol smi rad = .ok (.mol r m)) :
    buildMol r = .ok m ∧ r.mapping.Nodup ∧ r.mapping.length = r.atoms.length := by
  unfold smilesMol at h
  split at h
  · cases h
  · split at h
    · cases h
    · split at h
      · cases h
      · rename_i hmap
        split at h
        · cases h
        · rename_i hb
          cases h
          obtain ⟨ha, hl, hnd, _, _⟩ := mapMolecule_spec _ _ hmap
          exact ⟨hb, hnd, by rw [hl, ha]⟩

theorem finishRxn_not_mol (R G P : List Str) (rad : List Nat) (r : MolRec) (m : MolOut) :
    finishRxn R G P rad ≠ .ok (.mol r m) := by
  intro h
  unfold finishRxn at h
  split at h
  · cases h
  · split at h
    · cases h
    · split at h
      · cases h
      · split at h
        · cases h
        · dsimp only at h
          split at h
          · cases h
          · split at h
            · cases h
            · cases h

theorem smilesRxn_not_mol (smi : Str) (rad : List Nat) (ct : Option (List (List Nat))) (r : MolRec) (m : MolOut) :
    smilesRxn smi rad ct ≠ .ok (.mol r m) := by
  intro h
  unfold smilesRxn at h
  split at h
  · dsimp only at h
    split at h
    · split at h
      · cases h
      · exact finishRxn_not_mol _ _ _ _ r m h
    · exact finishRxn_not_mol _ _ _ _ r m h
  · cases h

/-- the record and the molecule of a molecule result belong together, and the numbering is duplicate free -/
theorem smiles_mol_parts (s : Str) (r : MolRec) (m : MolOut) (h : smiles s = .ok (.mol r m)) :
    buildMol r = .ok m ∧ r.mapping.Nodup ∧ r.mapping.length = r.atoms.length := by
  unfold smiles at h
  split at h
  · cases h
  · split at h
    · cases h
    · dsimp only at h
      split at h
      · exact absurd h (smilesRxn_not_mol _ _ _ r m)
      · exact smilesMol_parts _ _ r m h

end ChythonModel.Proofs.C03
