import ChythonModel.Proofs.C02DfsFlat
/-!
# C02 — the flattening invariant along the DFS, the initial state, and what one DFS run guarantees
-/
namespace ChythonModel.Proofs.C02
open ChythonModel.Model ChythonModel.Model.SmilesWriter ChythonModel.Model.C02RT

/-- facts about the flattened tree that hold at every step of the DFS (`P` = parents on the stack, top first) -/
structure InvJ (N start : Nat) (edges : List (Nat × List Nat)) (V P : List Nat) : Prop where
  chain : chainOk edges P
  bottom : P ≠ [] → P.getLast? = some start
  atoms : start :: (B edges (N + 1) start).map (·.2) = V
  bonds : (B edges (N + 1) start).Perm (treeP edges)
  keys : ∀ k ∈ edges.map (·.1), k ∈ V

theorem chainOk_tail (edges : List (Nat × List Nat)) : ∀ P, chainOk edges P → chainOk edges P.tail := by
  intro P h
  cases P with
  | nil => exact h
  | cons x tl =>
    cases tl with
    | nil => trivial
    | cons y tl' => exact h.2

theorem chainOk_alAppend (edges : List (Nat × List Nat)) (p c : Nat) : ∀ P : List Nat, (∀ y ∈ P.tail, y ≠ p) →
    chainOk edges P → chainOk (alAppend edges p c) P := by
  intro P
  induction P with
  | nil => intro _ h; exact h
  | cons x tl ih =>
    intro hne h
    cases tl with
    | nil => trivial
    | cons y tl' =>
      refine ⟨?_, ih (fun z hz => hne z (List.mem_cons_of_mem _ hz)) h.2⟩
      rw [alGet_alAppend_ne edges p y c (hne y (by simp))]
      exact h.1

theorem InvJ.pop {N start edges V P} (h : InvJ N start edges V P) : InvJ N start edges V P.tail where
  chain := chainOk_tail edges P h.chain
  bottom := fun hne => by
    cases P with
    | nil => simp at hne
    | cons x tl =>
      have := h.bottom (by simp)
      simp only [List.tail_cons] at hne ⊢
      rw [List.getLast?_cons_of_ne_nil hne] at this
      exact this
  atoms := h.atoms
  bonds := h.bonds
  keys := h.keys

theorem InvJ.tree {N start edges V} {p c : Nat} {rest : List Nat} (h : InvJ N start edges V (p :: rest))
    (hV : V.Nodup) (hP : (p :: rest).Nodup) (hpV : p ∈ V) (hc : c ∉ V) (hlen : (p :: rest).length ≤ N) (push : Bool) :
    InvJ N start (alAppend edges p c) (V ++ [c]) (if push then c :: p :: rest else p :: rest) := by
  have hcp : c ≠ p := fun e => hc (e ▸ hpV)
  have hck : c ∉ edges.map (·.1) := fun x => hc (h.keys c x)
  obtain ⟨abv, habv⟩ : ∃ abv, p :: rest = abv ++ [start] := by
    have := h.bottom (by simp)
    rw [List.getLast?_eq_some_iff] at this
    exact this
  have hkey := (B_alAppend_chain edges c hck abv start p (N + 1) (by rw [← habv]; rfl) hcp (habv ▸ h.chain) (habv ▸ hP)
    (by
      have : (p :: rest).length = abv.length + 1 := by rw [habv]; simp
      omega)
    (by rw [h.atoms]; exact hV)).1
  have hch : chainOk (alAppend edges p c) (p :: rest) :=
    chainOk_alAppend edges p c (p :: rest) (fun y hy e => (List.nodup_cons.1 hP).1 (e ▸ hy)) h.chain
  exact {
    chain := by
      cases push with
      | false => exact hch
      | true =>
        refine ⟨?_, hch⟩
        rw [alGet_alAppend_eq]; simp
    bottom := fun _ => by
      cases push with
      | false => exact h.bottom (by simp)
      | true =>
        simp only [if_true]
        rw [List.getLast?_cons_of_ne_nil (by simp)]
        exact h.bottom (by simp)
    atoms := by rw [hkey, ← h.atoms]; simp
    bonds := by
      rw [hkey]
      exact (h.bonds.append_right _).trans (treeP_alAppend edges p c).symm
    keys := fun k hk => by
      rw [alAppend_keys] at hk
      split at hk
      · exact List.mem_append_left _ (h.keys k hk)
      · rcases List.mem_append.1 hk with hk | hk
        · exact List.mem_append_left _ (h.keys k hk)
        · simp only [List.mem_singleton] at hk; subst hk; exact List.mem_append_left _ hpV }

/-- shape of one step, as far as `edges`, `visited` and the parents on the stack are concerned -/
theorem dfsStep_shape {m : Mol} {env : Env} {opts : Opts} {groups seen} {s s' : Dfs}
    (h : dfsStep m env opts groups seen s = .ok s') :
    (s'.edges = s.edges ∧ s'.visited = s.visited ∧
      (s'.stack.map (·.parent) = s.stack.map (·.parent) ∨ s'.stack.map (·.parent) = (s.stack.map (·.parent)).tail)) ∨
    (∃ f rest child, s.stack = f :: rest ∧ alHas s.visited child = false ∧
      s'.edges = alAppend s.edges f.parent child ∧ s'.visited = s.visited ++ [(child, [f.parent])] ∧
      ∃ push : Bool, s'.stack.map (·.parent) = if push then child :: s.stack.map (·.parent) else s.stack.map (·.parent)) := by
  unfold dfsStep at h
  split at h
  · cases h; exact Or.inl ⟨rfl, rfl, Or.inl rfl⟩
  · rename_i f rest hs
    split at h
    · cases h; exact Or.inl ⟨rfl, rfl, Or.inr (by simp [hs])⟩
    · rename_i child cs hc
      simp only at h
      split at h
      · rename_i hv
        have hv : alHas s.visited child = false := by simpa using hv
        refine Or.inr ⟨f, rest, child, hs, hv, ?_⟩
        split at h
        · simp only [bind, Except.bind, pure, Except.pure] at h
          split at h
          · cases h
          · split at h
            · cases h; exact ⟨rfl, rfl, false, by simp [hs]⟩
            · split at h
              · cases h
              · cases h; exact ⟨rfl, rfl, true, by simp [hs]⟩
        · cases h; exact ⟨rfl, rfl, false, by simp [hs]⟩
      · split at h
        · cases h; exact Or.inl ⟨rfl, rfl, Or.inl (by simp [hs])⟩
        · cases h; exact Or.inl ⟨rfl, rfl, Or.inl (by simp [hs])⟩

def InvJs (N start : Nat) (s : Dfs) : Prop := InvJ N start s.edges (vis s) (s.stack.map (·.parent))

theorem dfsStep_invJ {m : Mol} {env : Env} {opts : Opts} {groups seen} {S : List Nat} {N start c0 : Nat} {s s' : Dfs}
    (hSN : S.length ≤ N) (hI : Inv m S start c0 s) (hJ : InvJs N start s)
    (h : dfsStep m env opts groups seen s = .ok s') : InvJs N start s' := by
  rcases dfsStep_shape h with ⟨e1, e2, e3 | e3⟩ | ⟨f, rest, child, hs, hv, e1, e2, push, e3⟩
  · unfold InvJs vis at *; rw [e1, e2, e3]; exact hJ
  · unfold InvJs vis at *; rw [e1, e2, e3]; exact hJ.pop
  · obtain ⟨hG, hSt, _⟩ := hI
    have hv' : child ∉ vis s := (alHas_false_iff _ _).1 hv
    have hP : (s.stack.map (·.parent)).Nodup := hSt.stackNodup
    have hlen : (s.stack.map (·.parent)).length ≤ N := by
      refine Nat.le_trans (nodup_subset_length_le hP ?_) hSN
      intro x hx
      obtain ⟨g, hg, rfl⟩ := List.mem_map.1 hx
      exact hG.visSub _ (hSt.stackVis g hg)
    have hpV : f.parent ∈ vis s := hSt.stackVis f (by simp [hs])
    unfold InvJs at hJ ⊢
    have e4 : vis s' = vis s ++ [child] := by simp [vis, e2]
    rw [e1, e3, e4]
    rw [hs] at hJ hP hlen ⊢
    simp only [List.map_cons] at hJ hP hlen ⊢
    have := hJ.tree hG.visNodup hP hpV hv' hlen push
    cases push <;> simpa using this

theorem dfsRun_invJ {m : Mol} {env : Env} {opts : Opts} {groups seen} {S : List Nat} {N start c0 : Nat}
    (hwf : m.WF = true) (hS : ∀ a ∈ S, ∀ b ∈ nk m a, b ∈ S) (hSN : S.length ≤ N) :
    ∀ (fuel : Nat) (s r : Dfs), Inv m S start c0 s → InvJs N start s → dfsRun m env opts groups seen fuel s = .ok r →
      InvJs N start r := by
  intro fuel
  induction fuel with
  | zero =>
    intro s r _ hJ h
    simp only [dfsRun] at h
    split at h
    · cases h; exact hJ
    · cases h
  | succ n ih =>
    intro s r hI hJ h
    simp only [dfsRun] at h
    split at h
    · cases h; exact hJ
    · split at h
      · cases h
      · rename_i s' hs'
        exact ih s' r (dfsStep_inv hwf hS hI hs') (dfsStep_invJ hSN hI hJ hs') h

/-! ## keys of `tokens` -/

def InvK (s : Dfs) : Prop := (s.tokens.map (·.1)).Nodup ∧ ∀ k ∈ s.tokens.map (·.1), k ∈ vis s

theorem dfsStep_tokens_shape {m : Mol} {env : Env} {opts : Opts} {groups seen} {s s' : Dfs}
    (h : dfsStep m env opts groups seen s = .ok s') :
    (s'.tokens = s.tokens ∧ ∀ a ∈ vis s, a ∈ vis s') ∨
    (∃ f rest child, s.stack = f :: rest ∧ alHas s.visited child = true ∧ s'.visited = s.visited ∧
      s'.tokens = alAppend (alAppend s.tokens f.parent (child, s.cycle + 1)) child (f.parent, s.cycle + 1)) := by
  unfold dfsStep at h
  split at h
  · cases h; exact Or.inl ⟨rfl, fun a ha => ha⟩
  · rename_i f rest hs
    split at h
    · cases h; exact Or.inl ⟨rfl, fun a ha => ha⟩
    · rename_i child cs hc
      simp only at h
      split at h
      · refine Or.inl ?_
        split at h
        · simp only [bind, Except.bind, pure, Except.pure] at h
          split at h
          · cases h
          · split at h
            · cases h; exact ⟨rfl, fun a ha => by simp [vis] at ha ⊢; exact Or.inl ha⟩
            · split at h
              · cases h
              · cases h; exact ⟨rfl, fun a ha => by simp [vis] at ha ⊢; exact Or.inl ha⟩
        · cases h; exact ⟨rfl, fun a ha => by simp [vis] at ha ⊢; exact Or.inl ha⟩
      · rename_i hv
        have hv : alHas s.visited child = true := by simpa using hv
        split at h
        · cases h; exact Or.inr ⟨f, rest, child, hs, hv, rfl, rfl⟩
        · cases h; exact Or.inl ⟨rfl, fun a ha => ha⟩

theorem dfsStep_invK {m : Mol} {env : Env} {opts : Opts} {groups seen} {S : List Nat} {start c0 : Nat} {s s' : Dfs}
    (hI : Inv m S start c0 s) (hK : InvK s) (h : dfsStep m env opts groups seen s = .ok s') : InvK s' := by
  rcases dfsStep_tokens_shape h with ⟨e1, e2⟩ | ⟨f, rest, child, hs, hv, e1, e2⟩
  · unfold InvK; rw [e1]; exact ⟨hK.1, fun k hk => e2 k (hK.2 k hk)⟩
  · have hpV : f.parent ∈ vis s := hI.2.1.stackVis f (by simp [hs])
    have hcV : child ∈ vis s := (alHas_iff _ _).1 hv
    have ev : vis s' = vis s := by simp [vis, e1]
    unfold InvK
    rw [e2, ev]
    refine ⟨alAppend_keys_nodup _ _ _ (alAppend_keys_nodup _ _ _ hK.1), ?_⟩
    intro k hk
    rw [alAppend_keys] at hk
    have h1 : ∀ k ∈ (alAppend s.tokens f.parent (child, s.cycle + 1)).map (·.1), k ∈ vis s := by
      intro k hk
      rw [alAppend_keys] at hk
      split at hk
      · exact hK.2 k hk
      · rcases List.mem_append.1 hk with hk | hk
        · exact hK.2 k hk
        · simp only [List.mem_singleton] at hk; subst hk; exact hpV
    split at hk
    · exact h1 k hk
    · rcases List.mem_append.1 hk with hk | hk
      · exact h1 k hk
      · simp only [List.mem_singleton] at hk; subst hk; exact hcV

theorem dfsRun_invK {m : Mol} {env : Env} {opts : Opts} {groups seen} {S : List Nat} {start c0 : Nat}
    (hwf : m.WF = true) (hS : ∀ a ∈ S, ∀ b ∈ nk m a, b ∈ S) :
    ∀ (fuel : Nat) (s r : Dfs), Inv m S start c0 s → InvK s → dfsRun m env opts groups seen fuel s = .ok r → InvK r := by
  intro fuel
  induction fuel with
  | zero =>
    intro s r _ hK h
    simp only [dfsRun] at h
    split at h
    · cases h; exact hK
    · cases h
  | succ n ih =>
    intro s r hI hK h
    simp only [dfsRun] at h
    split at h
    · cases h; exact hK
    · split at h
      · cases h
      · rename_i s' hs'
        exact ih s' r (dfsStep_inv hwf hS hI hs') (dfsStep_invK hI hK hs') h

/-! ## the initial state of `traverse` -/

theorem inv_initial {m : Mol} {S : List Nat} {start c0 : Nat} {ch : List Nat} {dr : List (Nat × Nat)}
    (hwf : m.WF = true) (hstart : start ∈ S) (hch : (nk m start).Perm ch) :
    Inv m S start c0 { stack := [{ parent := start, depth := S.length, children := ch }], visited := [(start, [])],
                       cycle := c0, draws := dr } := by
  refine ⟨?_, ?_, by simp⟩
  · exact {
      visNodup := by simp [vis]
      visSub := fun a ha => by simp [vis] at ha; subst ha; exact hstart
      startVis := by simp [vis]
      treeSnd := by simp [treeP]
      treeMem := fun p c h => by simp [treeP] at h
      visChild := fun a ha => by simp [vis] at ha; exact Or.inl ha
      treeAsym := fun a b h => by simp [treeP] at h
      discSymm := fun a b h => by simp at h
      discNodup := by simp
      discMem := fun a b h => by simp at h
      cycNodup := by simp [cycT]
      cycMem := fun a b c h => by simp [cycT] at h
      cycId := fun a b a' b' c h => by simp [cycT] at h
      cycPair := fun a b c c' h => by simp [cycT] at h
      discCyc := fun a b h => by simp at h
      cycLe := Nat.le_refl _ }
  · exact {
      stackNodup := by simp
      stackVis := fun f hf => by simp at hf; subst hf; simp [vis]
      stackDepth := ⟨by simp, trivial⟩
      frameCh := fun f hf => by
        simp only [List.mem_singleton] at hf
        subst hf
        refine ⟨hch.nodup_iff.1 (wf_nbrs hwf start).1, fun c hc => ⟨hch.mem_iff.2 hc, by simp [treeP], by simp [treeP]⟩⟩
      cover := fun a ha b hb => by
        simp [vis] at ha
        subst ha
        exact Or.inr ⟨{ parent := a, depth := S.length, children := ch }, by simp, rfl, hch.mem_iff.1 hb⟩ }

theorem invJ_initial {N start c0 : Nat} {D : Nat} {ch : List Nat} {dr : List (Nat × Nat)} :
    InvJs N start { stack := [{ parent := start, depth := D, children := ch }], visited := [(start, [])],
                    cycle := c0, draws := dr } where
  chain := trivial
  bottom := fun _ => rfl
  atoms := by simp [B, alGet, vis]
  bonds := by simp [B, alGet, treeP]
  keys := fun k hk => by simp at hk

/-! ## what one successful DFS run guarantees -/

/-- everything the later stages need to know about the result of the DFS of one component -/
structure DfsResult (m : Mol) (S : List Nat) (start c0 : Nat) (r : Dfs) : Prop where
  inv : InvG m S start c0 (vis r) (treeP r.edges) r.disconnected (cycT r.tokens) r.cycle
  covered : ∀ a ∈ vis r, ∀ b ∈ nk m a, (a, b) ∈ treeP r.edges ∨ (b, a) ∈ treeP r.edges ∨ (a, b) ∈ r.disconnected
  atoms : fatoms (flatten r.edges (m.atoms.length + 1) start) = vis r
  bonds : (fbonds (flatten r.edges (m.atoms.length + 1) start)).Perm (treeP r.edges)
  tokKeys : (r.tokens.map (·.1)).Nodup
  tokVis : ∀ k ∈ r.tokens.map (·.1), k ∈ vis r

theorem dfsRun_result {m : Mol} {env : Env} {opts : Opts} {groups seen} {S : List Nat} {start c0 fuel : Nat}
    {ch : List Nat} {dr : List (Nat × Nat)} {r : Dfs}
    (hwf : m.WF = true) (hS : ∀ a ∈ S, ∀ b ∈ nk m a, b ∈ S) (hSN : S.length ≤ m.atoms.length)
    (hstart : start ∈ S) (hch : (nk m start).Perm ch)
    (h : dfsRun m env opts groups seen fuel
      { stack := [{ parent := start, depth := S.length, children := ch }], visited := [(start, [])],
        cycle := c0, draws := dr } = .ok r) : DfsResult m S start c0 r := by
  have hI0 := inv_initial (c0 := c0) (dr := dr) hwf hstart hch
  obtain ⟨⟨hG, hSt, _⟩, hemp⟩ := dfsRun_inv hwf hS fuel _ r hI0 h
  have hJ := dfsRun_invJ hwf hS hSN fuel _ r hI0 invJ_initial h
  have hK := dfsRun_invK hwf hS fuel _ r hI0 (by simp [InvK]) h
  refine ⟨hG, ?_, ?_, ?_, hK.1, hK.2⟩
  · intro a ha b hb
    rcases hSt.cover a ha b hb with h1 | ⟨f, hf, _⟩
    · exact h1
    · rw [hemp] at hf; simp at hf
  · have := hJ.atoms
    simp only [flatten, fatoms, List.filterMap_cons, atomq_atom]
    rw [← this]
    congr 1
    exact fatoms_flat _ _ _
  · have := hJ.bonds
    have e : fbonds (flatten r.edges (m.atoms.length + 1) start) = B r.edges (m.atoms.length + 1) start := by
      rw [← fbonds_flat]
      simp [flatten, fbonds, List.filterMap_cons]
    rw [e]; exact this

end ChythonModel.Proofs.C02
