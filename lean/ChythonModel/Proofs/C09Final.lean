import ChythonModel.Proofs.C09TotalQ
import ChythonModel.Proofs.C09Top
namespace ChythonModel.Proofs.C09
open ChythonModel.Model.Bits ChythonModel.Gen.Bits ChythonModel.Model.Query ChythonModel.Model

/-- **`cython_search_eq_python_search`, unconditional form**: for every non-empty well-formed query and molecule in the shape the
    encoders expect, with sizes fitting the 32-bit buffer fields and all (query atom, atom) pairs inside the documented domain, for
    every list of target components, every scope and both `automorphism_filter` settings, the accelerated path neither raises nor
    differs: `cythonPath = pythonPath` (same mappings, same order). -/
theorem cythonPath_eq_pythonPath_total (q : LQuery) (m : LMol) (tComps : List (List Nat)) (scope : Option (List Nat)) (autoF : Bool)
    (hm : MolOK m) (hms : MolSmall m) (hq : QueryOK q) (hqwf : q.graph.WF = true) (hqne : q.atoms ≠ [])
    (hqs : ∀ comps cl, Iso.compileQuery q.graph = some (comps, cl) → QuerySmall q cl)
    (hpairs : ∀ p ∈ q.atoms, ∀ r ∈ m.atoms, NoHeavyClash p.2 r.2 ∧ HKnown p.2 r.2) :
    cythonPath q m tComps scope autoF = pythonPath q m tComps scope autoF := by
  obtain ⟨comps, cl, hcq⟩ := ChythonModel.Proofs.C07.compile_total q.graph hqwf
  have hcl := compile_closure_keys_nodup q.graph comps cl hcq
  have hCO := ChythonModel.Proofs.C07.compile_ok q.graph hqwf comps cl hcq
  obtain ⟨cqs, henq⟩ : ∃ cqs, encQuery q comps cl = .ok cqs :=
    mapM_except_total (encComponent q cl) comps (fun lq hlq => encComponent_total q hq hqwf comps cl hCO hcl (hqs comps cl hcq) lq hlq)
  obtain ⟨cm, hems⟩ := encStructure_total m hm hms
  exact cythonPath_eq_pythonPath q m tComps scope autoF hm hq hqwf hqne hpairs comps cl hcq hcl cqs henq cm hems

end ChythonModel.Proofs.C09
