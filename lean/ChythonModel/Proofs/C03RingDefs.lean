import ChythonModel.Proofs.C03SpecRing
import ChythonModel.Proofs.C03Reject
/-!
# C03 — vocabulary of the accept/reject characterisation with ring closures (definitions only)
-/
namespace ChythonModel.Proofs.C03
open ChythonModel.Model.C03 ChythonModel.Spec.Smiles

/-- tokens of the language with ring closures: the core tokens and ring-closure numbers -/
def ringTok : Tok → Bool
  | .cyc _ => true
  | t => coreTok t

/-- the token list starts with a written ring bond: `n`, `=n`, `/n` -/
def startsRing : List Tok → Bool
  | .cyc _ :: _ => true
  | .bond _ :: .cyc _ :: _ => true
  | .dir _ :: .cyc _ :: _ => true
  | _ => false

/-- no ring bond is written directly after a `)` (OpenSMILES: `branched_atom ::= atom ringbond* branch*`; the reader
    also accepts `C(C)1CC1`) -/
def noRingAfterClose : List Tok → Bool
  | [] => true
  | .rpar :: w => !startsRing w && noRingAfterClose w
  | _ :: w => noRingAfterClose w

/-- no bond from an atom to itself -/
def loopFree (bs : List (Nat × Nat × Nat)) : Prop := ∀ b ∈ bs, b.1 ≠ b.2.1

end ChythonModel.Proofs.C03
