import ChythonModel.Proofs.C13Graph
/-!
# C13 — well-formedness of the stored graph is preserved by every data operation of the model

`MolWF`: atom keys unique, `_bonds` keyed by exactly the atoms (same dict order), neighbour keys unique, no self-loops,
adjacency symmetric with the *same* bond on both sides.  It implies the executable `Mol.WF` of `Model/Graph.lean`.
Preserved by: `gAddAtom, gAddBond, gDelAtom, gDelBond, gRemap`, the induced sub-graph of `substructure`, the merge of
`union` (with and without renumbering), attribute writes.
-/
namespace ChythonModel.Proofs.C13
open ChythonModel.Model ChythonModel.Model.C13

structure MolWF (m : Mol) : Prop where
  nodup : m.ids.Nodup
  keys : m.adj.map (·.1) = m.ids
  nbrNodup : ∀ a la, (a, la) ∈ m.adj → (la.map (·.1)).Nodup
  noLoop : ∀ a la b bd, (a, la) ∈ m.adj → (b, bd) ∈ la → b ≠ a
  sym : AdjSym m.adj

/-! ## association lists -/

theorem mem_of_lookup {α} {l : List (Nat × α)} {a : Nat} {b : α} (h : l.lookup a = some b) : (a, b) ∈ l := by
  induction l with
  | nil => cases h
  | cons p rest ih =>
    obtain ⟨k, v⟩ := p
    simp only [List.lookup_cons] at h
    cases hk : a == k with
    | true =>
      simp only [hk] at h
      cases h
      have : a = k := beq_iff_eq.mp hk
      subst this
      exact List.mem_cons_self
    | false =>
      simp only [hk] at h
      exact List.mem_cons_of_mem _ (ih h)

theorem lookup_of_mem {α} {l : List (Nat × α)} {a : Nat} {b : α} (hn : (l.map (·.1)).Nodup) (h : (a, b) ∈ l) :
    l.lookup a = some b := by
  induction l with
  | nil => cases h
  | cons p rest ih =>
    obtain ⟨k, v⟩ := p
    simp only [List.map_cons, List.nodup_cons] at hn
    simp only [List.lookup_cons]
    rcases List.mem_cons.mp h with h1 | h1
    · cases h1; simp
    · have hne : (a == k) = false := by
        apply beq_false_of_ne
        rintro rfl
        exact hn.1 (List.mem_map.mpr ⟨(a, b), h1, rfl⟩)
      simp only [hne]
      exact ih hn.2 h1

theorem lookup_none_iff {α} {l : List (Nat × α)} {a : Nat} : l.lookup a = none ↔ a ∉ l.map (·.1) := by
  induction l with
  | nil => simp
  | cons p rest ih =>
    obtain ⟨k, v⟩ := p
    simp only [List.lookup_cons, List.map_cons, List.mem_cons, not_or]
    cases hk : a == k with
    | true => simp [beq_iff_eq.mp hk]
    | false =>
      have : a ≠ k := by intro h; rw [h] at hk; simp at hk
      simp only [ih]
      exact ⟨fun h => ⟨this, h⟩, fun h => h.2⟩

theorem any_fst_iff {α} {l : List (Nat × α)} {a : Nat} : (l.any (·.1 == a)) = true ↔ a ∈ l.map (·.1) := by
  simp only [List.any_eq_true, List.mem_map, beq_iff_eq]

theorem hasAtom_iff {m : Mol} {n : Nat} : m.hasAtom n = true ↔ n ∈ m.ids := any_fst_iff

theorem map_fst_filter {α} (l : List (Nat × α)) (P : Nat → Bool) :
    (l.filter fun p => P p.1).map (·.1) = (l.map (·.1)).filter P := by
  induction l with
  | nil => rfl
  | cons p rest ih =>
    simp only [List.filter_cons, List.map_cons]
    cases P p.1 <;> simp [ih]

theorem nodup_map_of_injOn {α β} {f : α → β} {l : List α} (hf : ∀ x ∈ l, ∀ y ∈ l, f x = f y → x = y) (hn : l.Nodup) :
    (l.map f).Nodup := by
  induction l with
  | nil => simp
  | cons a rest ih =>
    simp only [List.nodup_cons] at hn
    simp only [List.map_cons, List.nodup_cons, List.mem_map, not_exists, not_and]
    refine ⟨fun x hx hfx => ?_, ih (fun x hx y hy => hf x (List.mem_cons_of_mem _ hx) y (List.mem_cons_of_mem _ hy)) hn.2⟩
    have := hf x (List.mem_cons_of_mem _ hx) a List.mem_cons_self hfx
    subst this
    exact hn.1 hx

/-! ## consequences -/

theorem MolWF.key_mem {m : Mol} (h : MolWF m) {a : Nat} {la : List (Nat × Bond)} (ha : (a, la) ∈ m.adj) : a ∈ m.ids := by
  rw [← h.keys]; exact List.mem_map.mpr ⟨(a, la), ha, rfl⟩

theorem MolWF.adjNodup {m : Mol} (h : MolWF m) : (m.adj.map (·.1)).Nodup := by rw [h.keys]; exact h.nodup

theorem MolWF.nbr_mem {m : Mol} (h : MolWF m) {a b : Nat} {la : List (Nat × Bond)} {bd : Bond} (ha : (a, la) ∈ m.adj)
    (hb : (b, bd) ∈ la) : b ∈ m.ids := by
  obtain ⟨lb, hlb, _⟩ := h.sym a la b bd ha hb
  exact h.key_mem hlb

theorem MolWF.nbrs_eq {m : Mol} (h : MolWF m) {a : Nat} {la : List (Nat × Bond)} (ha : (a, la) ∈ m.adj) : m.nbrs a = la := by
  simp [Mol.nbrs, lookup_of_mem h.adjNodup ha]

theorem MolWF.congr {m m' : Mol} (hi : m'.ids = m.ids) (ha : m'.adj = m.adj) (h : MolWF m) : MolWF m' :=
  ⟨by rw [hi]; exact h.nodup, by rw [hi, ha]; exact h.keys, by rw [ha]; exact h.nbrNodup, by rw [ha]; exact h.noLoop,
   by rw [ha]; exact h.sym⟩

/-- the Prop-level well-formedness implies the executable check of `Model/Graph.lean` -/
theorem MolWF.toBool {m : Mol} (h : MolWF m) : m.WF = true := by
  simp only [Mol.WF, Bool.and_eq_true, decide_eq_true_eq, beq_iff_eq, List.all_eq_true]
  refine ⟨⟨h.nodup, h.keys⟩, ?_⟩
  rintro ⟨n, ms⟩ hn
  simp only [Bool.and_eq_true, decide_eq_true_eq, List.all_eq_true]
  refine ⟨h.nbrNodup n ms hn, ?_⟩
  rintro ⟨k, b⟩ hk
  simp only [Bool.and_eq_true, bne_iff_ne, ne_eq, beq_iff_eq]
  refine ⟨⟨h.noLoop n ms k b hn hk, hasAtom_iff.mpr (h.nbr_mem hn hk)⟩, ?_⟩
  obtain ⟨lb, hlb, hback⟩ := h.sym n ms k b hn hk
  simp only [Mol.bond?, h.nbrs_eq hlb]
  exact lookup_of_mem (h.nbrNodup k lb hlb) hback

/-- … and conversely: the executable check decides `MolWF` -/
theorem MolWF.ofBool {m : Mol} (h : m.WF = true) : MolWF m := by
  simp only [Mol.WF, Bool.and_eq_true, decide_eq_true_eq, beq_iff_eq, List.all_eq_true] at h
  obtain ⟨⟨hnd, hkeys⟩, hall⟩ := h
  have hrow : ∀ n ms, (n, ms) ∈ m.adj → (ms.map (·.1)).Nodup ∧
      ∀ k b, (k, b) ∈ ms → k ≠ n ∧ m.hasAtom k = true ∧ m.bond? k n = some b := by
    intro n ms hn
    have := hall (n, ms) hn
    simp only [Bool.and_eq_true, decide_eq_true_eq, List.all_eq_true] at this
    refine ⟨this.1, fun k b hk => ?_⟩
    have := this.2 (k, b) hk
    simp only [Bool.and_eq_true, bne_iff_ne, ne_eq, beq_iff_eq] at this
    exact ⟨this.1.1, this.1.2, this.2⟩
  refine ⟨hnd, hkeys, fun a la ha => (hrow a la ha).1, fun a la b bd ha hb => ((hrow a la ha).2 b bd hb).1, ?_⟩
  intro a la b bd ha hb
  have hbond := ((hrow a la ha).2 b bd hb).2.2
  simp only [Mol.bond?, Mol.nbrs] at hbond
  cases hl : m.adj.lookup b with
  | none => simp [hl] at hbond
  | some lb =>
    simp only [hl, Option.getD_some] at hbond
    exact ⟨lb, mem_of_lookup hl, mem_of_lookup hbond⟩

theorem MolWF_iff {m : Mol} : m.WF = true ↔ MolWF m := ⟨MolWF.ofBool, MolWF.toBool⟩

/-! ## add_atom -/

theorem addAtom_wf {m m' : Mol} {z : Nat} {n? : Option Nat} {k : Nat} (hg : gAddAtom m z n? = .ok (m', k)) (h : MolWF m) :
    MolWF m' := by
  have hs := addAtom_sym hg h.sym
  unfold gAddAtom at hg
  simp only at hg
  split at hg; · cases hg
  rename_i hna
  cases hg
  have hnot : (n?.getD (listMax m.ids + 1)) ∉ m.ids := fun hmem => hna (hasAtom_iff.mpr hmem)
  refine ⟨?_, ?_, ?_, ?_, hs⟩
  · simp only [Mol.ids, List.map_append, List.map_cons, List.map_nil]
    refine List.nodup_append.mpr ⟨h.nodup, by simp, ?_⟩
    intro a ha b hb
    simp only [List.mem_singleton] at hb
    subst hb
    rintro rfl
    exact hnot ha
  · simp only [Mol.ids, List.map_append, List.map_cons, List.map_nil]
    rw [h.keys]; rfl
  · intro a la ha
    simp only [List.mem_append, List.mem_singleton, Prod.mk.injEq] at ha
    rcases ha with ha | ⟨_, rfl⟩
    · exact h.nbrNodup a la ha
    · simp
  · intro a la b bd ha hb
    simp only [List.mem_append, List.mem_singleton, Prod.mk.injEq] at ha
    rcases ha with ha | ⟨_, rfl⟩
    · exact h.noLoop a la b bd ha hb
    · cases hb

/-! ## add_bond -/

theorem map_fst_insertNbr (adj : List (Nat × List (Nat × Bond))) (n k : Nat) (b : Bond) :
    (insertNbr adj n k b).map (·.1) = adj.map (·.1) := by
  induction adj with
  | nil => rfl
  | cons p rest ih =>
    simp only [insertNbr, List.map_cons] at ih ⊢
    rw [ih]
    split <;> rfl

theorem map_fst_eraseNbr (adj : List (Nat × List (Nat × Bond))) (n k : Nat) :
    (eraseNbr adj n k).map (·.1) = adj.map (·.1) := by
  induction adj with
  | nil => rfl
  | cons p rest ih =>
    simp only [eraseNbr, List.map_cons] at ih ⊢
    rw [ih]
    split <;> rfl

theorem addBond_wf {m m' : Mol} {a b order : Nat} (hg : gAddBond m a b order = .ok m') (h : MolWF m) : MolWF m' := by
  have hs := addBond_sym hg h.sym
  unfold gAddBond at hg
  split at hg; · cases hg
  split at hg; · cases hg
  rename_i hne
  split at hg; · cases hg
  split at hg; · cases hg
  rename_i hnb
  cases hg
  have hab : a ≠ b := by intro hab; apply hne; simp [hab]
  refine ⟨h.nodup, ?_, ?_, ?_, hs⟩
  · simp only [map_fst_insertNbr]; exact h.keys
  · intro x lx hx
    obtain ⟨l1, hl1, rfl⟩ := mem_insertNbr.mp hx
    obtain ⟨l0, hl0, rfl⟩ := mem_insertNbr.mp hl1
    have hn0 := h.nbrNodup x l0 hl0
    by_cases hxb : x = b
    · subst hxb
      have hxa : (x == a) = false := beq_false_of_ne (Ne.symm hab)
      simp only [hxa, beq_self_eq_true, if_true, if_false, Bool.false_eq_true, List.map_append, List.map_cons, List.map_nil]
      refine List.nodup_append.mpr ⟨hn0, by simp, ?_⟩
      intro y hy z hz
      simp only [List.mem_singleton] at hz
      subst hz
      rintro rfl
      apply hnb
      rw [h.nbrs_eq hl0]
      exact any_fst_iff.mpr hy
    · have hxb' : (x == b) = false := beq_false_of_ne hxb
      by_cases hxa : x = a
      · subst hxa
        simp only [hxb', beq_self_eq_true, if_true, if_false, Bool.false_eq_true, List.map_append, List.map_cons, List.map_nil]
        refine List.nodup_append.mpr ⟨hn0, by simp, ?_⟩
        intro y hy z hz
        simp only [List.mem_singleton] at hz
        subst hz
        rintro rfl
        obtain ⟨⟨y', bd⟩, hmem, rfl⟩ := List.mem_map.mp hy
        obtain ⟨lb, hlb, hback⟩ := h.sym x l0 y' bd hl0 hmem
        apply hnb
        rw [h.nbrs_eq hlb]
        exact any_fst_iff.mpr (List.mem_map.mpr ⟨(x, bd), hback, rfl⟩)
      · have hxa' : (x == a) = false := beq_false_of_ne hxa
        simp only [hxb', hxa', if_false, Bool.false_eq_true]
        exact hn0
  · intro x lx y bd hx hy
    obtain ⟨l1, hl1, rfl⟩ := mem_insertNbr.mp hx
    obtain ⟨l0, hl0, rfl⟩ := mem_insertNbr.mp hl1
    by_cases hxb : x = b
    · subst hxb
      have hxa : (x == a) = false := beq_false_of_ne (Ne.symm hab)
      simp only [hxa, beq_self_eq_true, if_true, if_false, Bool.false_eq_true, List.mem_append, List.mem_singleton,
        Prod.mk.injEq] at hy
      rcases hy with hy | ⟨rfl, _⟩
      · exact h.noLoop x l0 y bd hl0 hy
      · exact hab
    · have hxb' : (x == b) = false := beq_false_of_ne hxb
      by_cases hxa : x = a
      · subst hxa
        simp only [hxb', beq_self_eq_true, if_true, if_false, Bool.false_eq_true, List.mem_append, List.mem_singleton,
          Prod.mk.injEq] at hy
        rcases hy with hy | ⟨rfl, _⟩
        · exact h.noLoop x l0 y bd hl0 hy
        · exact Ne.symm hab
      · have hxa' : (x == a) = false := beq_false_of_ne hxa
        simp only [hxb', hxa', if_false, Bool.false_eq_true] at hy
        exact h.noLoop x l0 y bd hl0 hy

/-! ## induced sub-graph (`delete_atom`, `substructure`) -/

def restrictMol (m : Mol) (P : Nat → Bool) : Mol :=
  ⟨m.atoms.filter fun p => P p.1, (m.adj.filter fun p => P p.1).map fun p => (p.1, p.2.filter fun kb => P kb.1)⟩

theorem restrict_wf {m : Mol} (P : Nat → Bool) (h : MolWF m) : MolWF (restrictMol m P) := by
  refine ⟨?_, ?_, ?_, ?_, ?_⟩
  · simp only [restrictMol, Mol.ids, map_fst_filter]
    exact h.nodup.sublist List.filter_sublist
  · simp only [restrictMol, Mol.ids, List.map_map, map_fst_filter]
    have : ((fun p : Nat × List (Nat × Bond) => p.1) ∘ fun p : Nat × List (Nat × Bond) => (p.1, p.2.filter fun kb => P kb.1)) =
        fun p => p.1 := rfl
    rw [this, map_fst_filter, h.keys]; rfl
  · intro a la ha
    simp only [restrictMol, List.mem_map, List.mem_filter] at ha
    obtain ⟨⟨a0, l0⟩, ⟨hmem, _⟩, heq⟩ := ha
    simp only [Prod.mk.injEq] at heq
    obtain ⟨rfl, rfl⟩ := heq
    rw [map_fst_filter]
    exact (h.nbrNodup a0 l0 hmem).sublist List.filter_sublist
  · intro a la b bd ha hb
    simp only [restrictMol, List.mem_map, List.mem_filter] at ha
    obtain ⟨⟨a0, l0⟩, ⟨hmem, _⟩, heq⟩ := ha
    simp only [Prod.mk.injEq] at heq
    obtain ⟨rfl, rfl⟩ := heq
    exact h.noLoop a0 l0 b bd hmem (List.mem_filter.mp hb).1
  · intro a la b bd ha hb
    simp only [restrictMol, List.mem_map, List.mem_filter] at ha
    obtain ⟨⟨a0, l0⟩, ⟨hmem, hPa⟩, heq⟩ := ha
    simp only [Prod.mk.injEq] at heq
    obtain ⟨rfl, rfl⟩ := heq
    have hb' := List.mem_filter.mp hb
    obtain ⟨lb, hlb, hback⟩ := h.sym a0 l0 b bd hmem hb'.1
    refine ⟨lb.filter fun kb => P kb.1, ?_, ?_⟩
    · simp only [restrictMol, List.mem_map, List.mem_filter]
      exact ⟨(b, lb), ⟨hlb, hb'.2⟩, rfl⟩
    · exact List.mem_filter.mpr ⟨hback, hPa⟩

theorem delAtom_wf {m m' : Mol} {n : Nat} (hg : gDelAtom m n = .ok m') (h : MolWF m) : MolWF m' := by
  unfold gDelAtom at hg
  split at hg; · cases hg
  cases hg
  exact restrict_wf (fun x => x != n) h

/-! ## delete_bond -/

theorem delBond_wf {m m' : Mol} {a b : Nat} (hg : gDelBond m a b = .ok m') (h : MolWF m) : MolWF m' := by
  have hs := delBond_sym hg h.sym
  unfold gDelBond at hg
  split at hg; · cases hg
  split at hg; · cases hg
  cases hg
  have sub : ∀ x lx, (x, lx) ∈ eraseNbr (eraseNbr m.adj a b) b a → ∃ l0, (x, l0) ∈ m.adj ∧ lx.Sublist l0 := by
    intro x lx hx
    obtain ⟨l1, hl1, rfl⟩ := mem_eraseNbr.mp hx
    obtain ⟨l0, hl0, rfl⟩ := mem_eraseNbr.mp hl1
    refine ⟨l0, hl0, ?_⟩
    split <;> split <;> first | exact List.Sublist.refl _ | exact List.filter_sublist |
      exact List.Sublist.trans List.filter_sublist List.filter_sublist
  refine ⟨h.nodup, ?_, ?_, ?_, hs⟩
  · simp only [map_fst_eraseNbr]; exact h.keys
  · intro x lx hx
    obtain ⟨l0, hl0, hsub⟩ := sub x lx hx
    exact (h.nbrNodup x l0 hl0).sublist (hsub.map _)
  · intro x lx y bd hx hy
    obtain ⟨l0, hl0, hsub⟩ := sub x lx hx
    exact h.noLoop x l0 y bd hl0 (hsub.subset hy)

/-! ## renumbering -/

def mapMol (f : Nat → Nat) (m : Mol) : Mol :=
  ⟨m.atoms.map fun p => (f p.1, p.2), m.adj.map fun p => (f p.1, p.2.map fun kb => (f kb.1, kb.2))⟩

theorem mapMol_wf {m : Mol} (f : Nat → Nat) (hf : ∀ x ∈ m.ids, ∀ y ∈ m.ids, f x = f y → x = y) (h : MolWF m) :
    MolWF (mapMol f m) := by
  have hids : (mapMol f m).ids = m.ids.map f := by simp [mapMol, Mol.ids, List.map_map, Function.comp_def]
  refine ⟨?_, ?_, ?_, ?_, ?_⟩
  · rw [hids]; exact nodup_map_of_injOn hf h.nodup
  · rw [hids, ← h.keys]; simp [mapMol, List.map_map, Function.comp_def]
  · intro a la ha
    simp only [mapMol, List.mem_map] at ha
    obtain ⟨⟨a0, l0⟩, hmem, heq⟩ := ha
    simp only [Prod.mk.injEq] at heq
    obtain ⟨rfl, rfl⟩ := heq
    have : (l0.map fun kb => (f kb.1, kb.2)).map (·.1) = (l0.map (·.1)).map f := by simp [List.map_map, Function.comp_def]
    rw [this]
    refine nodup_map_of_injOn (fun x hx y hy => hf x ?_ y ?_) (h.nbrNodup a0 l0 hmem)
    · obtain ⟨⟨x', bd⟩, hm', rfl⟩ := List.mem_map.mp hx; exact h.nbr_mem hmem hm'
    · obtain ⟨⟨y', bd⟩, hm', rfl⟩ := List.mem_map.mp hy; exact h.nbr_mem hmem hm'
  · intro a la b bd ha hb
    simp only [mapMol, List.mem_map] at ha
    obtain ⟨⟨a0, l0⟩, hmem, heq⟩ := ha
    simp only [Prod.mk.injEq] at heq
    obtain ⟨rfl, rfl⟩ := heq
    obtain ⟨⟨b0, bd0⟩, hbm, heq⟩ := List.mem_map.mp hb
    simp only [Prod.mk.injEq] at heq
    obtain ⟨rfl, rfl⟩ := heq
    intro hfe
    exact h.noLoop a0 l0 b0 bd0 hmem hbm (hf b0 (h.nbr_mem hmem hbm) a0 (h.key_mem hmem) hfe)
  · intro a la b bd ha hb
    simp only [mapMol, List.mem_map] at ha
    obtain ⟨⟨a0, l0⟩, hmem, heq⟩ := ha
    simp only [Prod.mk.injEq] at heq
    obtain ⟨rfl, rfl⟩ := heq
    obtain ⟨⟨b0, bd0⟩, hbm, heq⟩ := List.mem_map.mp hb
    simp only [Prod.mk.injEq] at heq
    obtain ⟨rfl, rfl⟩ := heq
    obtain ⟨lb, hlb, hback⟩ := h.sym a0 l0 b0 bd0 hmem hbm
    refine ⟨lb.map fun kb => (f kb.1, kb.2), ?_, ?_⟩
    · simp only [mapMol, List.mem_map]; exact ⟨(b0, lb), hlb, rfl⟩
    · exact List.mem_map.mpr ⟨(a0, bd0), hback, rfl⟩

theorem lookup_inj_of_values_nodup {mp : List (Nat × Nat)} (hv : (mp.map (·.2)).Nodup) {x y v : Nat}
    (hx : mp.lookup x = some v) (hy : mp.lookup y = some v) : x = y := by
  induction mp with
  | nil => cases hx
  | cons p rest ih =>
    obtain ⟨k, w⟩ := p
    simp only [List.map_cons, List.nodup_cons] at hv
    simp only [List.lookup_cons] at hx hy
    have val_mem : ∀ {u}, rest.lookup u = some w → False := fun hu =>
      hv.1 (List.mem_map.mpr ⟨_, mem_of_lookup hu, rfl⟩)
    cases hxk : x == k <;> cases hyk : y == k <;> simp only [hxk, hyk] at hx hy
    · exact ih hv.2 hx hy
    · cases hy; exact (val_mem hx).elim
    · cases hx; exact (val_mem hy).elim
    · rw [beq_iff_eq.mp hxk, beq_iff_eq.mp hyk]

/-- `mapId mp` is injective on a set of numbers as soon as the new numbers are pairwise different and no unmapped
number of the set is among them (the two conditions `Graph.remap` checks) -/
theorem mapId_injOn {mp : List (Nat × Nat)} {ids : List Nat} (hv : (mp.map (·.2)).Nodup)
    (hun : ∀ n ∈ ids, mp.lookup n = none → n ∉ mp.map (·.2)) :
    ∀ x ∈ ids, ∀ y ∈ ids, mapId mp x = mapId mp y → x = y := by
  intro x hx y hy hxy
  simp only [mapId] at hxy
  cases hlx : mp.lookup x with
  | none =>
    cases hly : mp.lookup y with
    | none => simpa [hlx, hly] using hxy
    | some v =>
      simp only [hlx, hly, Option.getD_none, Option.getD_some] at hxy
      exact (hun x hx hlx (by rw [hxy]; exact List.mem_map.mpr ⟨_, mem_of_lookup hly, rfl⟩)).elim
  | some u =>
    cases hly : mp.lookup y with
    | none =>
      simp only [hlx, hly, Option.getD_none, Option.getD_some] at hxy
      exact (hun y hy hly (by rw [← hxy]; exact List.mem_map.mpr ⟨_, mem_of_lookup hlx, rfl⟩)).elim
    | some v =>
      simp only [hlx, hly, Option.getD_some] at hxy
      subst hxy
      exact lookup_inj_of_values_nodup hv hlx hly

theorem remap_wf {m m' : Mol} {mp : List (Nat × Nat)} (hg : gRemap m mp = .ok m') (h : MolWF m) : MolWF m' := by
  unfold gRemap at hg
  split at hg; · cases hg
  rename_i hok
  cases hg
  simp only [remapOk, Bool.not_eq_true, Bool.not_eq_false, Bool.and_eq_true, decide_eq_true_eq, List.all_eq_true,
    List.mem_filter, Bool.not_eq_true', and_imp] at hok
  refine mapMol_wf (mapId mp) (mapId_injOn hok.1 ?_) h
  intro n hn hnone hmem
  have h1 : (mp.any fun p => p.1 == n) = false := by
    cases hq : (mp.any fun p => p.1 == n) with
    | false => rfl
    | true => exact absurd (any_fst_iff.mp hq) (lookup_none_iff.mp hnone)
  have := hok.2 n hn h1
  obtain ⟨p, hp, rfl⟩ := List.mem_map.mp hmem
  have hc : (mp.any fun q => q.2 == p.2) = true := List.any_eq_true.mpr ⟨p, hp, by simp⟩
  rw [hc] at this; cases this

/-! ## union -/

theorem merge_wf {m om : Mol} (h : MolWF m) (ho : MolWF om) (hd : ∀ x ∈ m.ids, x ∉ om.ids) :
    MolWF ⟨m.atoms ++ om.atoms, m.adj ++ om.adj⟩ := by
  refine ⟨?_, ?_, ?_, ?_, ?_⟩
  · simp only [Mol.ids, List.map_append]
    exact List.nodup_append.mpr ⟨h.nodup, ho.nodup, fun a ha b hb hab => hd a ha (hab ▸ hb)⟩
  · simp only [Mol.ids, List.map_append]
    rw [h.keys, ho.keys]; rfl
  · intro a la ha
    rcases List.mem_append.mp ha with ha | ha
    · exact h.nbrNodup a la ha
    · exact ho.nbrNodup a la ha
  · intro a la b bd ha hb
    rcases List.mem_append.mp ha with ha | ha
    · exact h.noLoop a la b bd ha hb
    · exact ho.noLoop a la b bd ha hb
  · intro a la b bd ha hb
    rcases List.mem_append.mp ha with ha | ha
    · obtain ⟨lb, hlb, hback⟩ := h.sym a la b bd ha hb
      exact ⟨lb, List.mem_append_left _ hlb, hback⟩
    · obtain ⟨lb, hlb, hback⟩ := ho.sym a la b bd ha hb
      exact ⟨lb, List.mem_append_right _ hlb, hback⟩

theorem le_foldl_max (l : List Nat) (acc : Nat) : acc ≤ l.foldl max acc ∧ ∀ n ∈ l, n ≤ l.foldl max acc := by
  induction l generalizing acc with
  | nil => simp
  | cons a rest ih =>
    simp only [List.foldl_cons]
    obtain ⟨h1, h2⟩ := ih (max acc a)
    refine ⟨by omega, ?_⟩
    intro n hn
    rcases List.mem_cons.mp hn with rfl | hn
    · omega
    · exact h2 n hn

theorem le_listMax {l : List Nat} {n : Nat} (h : n ∈ l) : n ≤ listMax l := (le_foldl_max l 0).2 n h

end ChythonModel.Proofs.C13
