import ChythonModel.Proofs.C10Atoms
/-!
# C10 helper lemmas: the adjacency reconstruction loop returns the original neighbour dictionaries
-/
namespace ChythonModel.Proofs.C10
open ChythonModel.Model.Pack

def eraseNb (nb : PNbr) : PNbr := { nb with stereo := none }
def eraseSt (a : PAtom) : PAtom := { a with nbrs := a.nbrs.map eraseNb }

/-- graph-level well-formedness of `_atoms` / `_bonds` -/
structure GraphOK (all : List PAtom) : Prop where
  nodup : (all.map (·.num)).Nodup
  nbrNodup : ∀ a ∈ all, (a.nbrs.map (·.m)).Nodup
  noLoop : ∀ a ∈ all, ∀ nb ∈ a.nbrs, nb.m ≠ a.num
  sym : ∀ a ∈ all, ∀ nb ∈ a.nbrs, ∃ b ∈ all, b.num = nb.m ∧ (⟨a.num, nb.order, nb.stereo⟩ : PNbr) ∈ b.nbrs
  order : ∀ a ∈ all, ∀ nb ∈ a.nbrs, 1 ≤ nb.order ∧ nb.order ≤ 8

theorem find_of_mem_nodup {α : Type} (f : α → Nat) : ∀ (l : List α), (l.map f).Nodup → ∀ x ∈ l,
    l.find? (fun y => f y == f x) = some x
  | [], _, x, hx => by simp at hx
  | y :: l, hnd, x, hx => by
    simp only [List.map_cons, List.nodup_cons] at hnd
    rcases List.mem_cons.mp hx with rfl | hx'
    · simp
    · have hne : f y ≠ f x := by
        intro e; exact hnd.1 (e ▸ List.mem_map_of_mem hx')
      have : (f y == f x) = false := by simp [hne]
      rw [List.find?_cons, this]
      exact find_of_mem_nodup f l hnd.2 x hx'

theorem code_roundtrip {o : Nat} (h : 1 ≤ o ∧ o ≤ 8) : u8 (u8 o + 255) < 8 ∧ u8 (u8 (u8 o + 255)) + 1 = o := by
  simp only [u8]; omega


theorem eq_of_num_eq {all : List PAtom} (hnd : (all.map (·.num)).Nodup) {b b' : PAtom} (hb : b ∈ all) (hb' : b' ∈ all)
    (e : b.num = b'.num) : b = b' := by
  have h1 := find_of_mem_nodup (·.num) all hnd b hb
  have h2 := find_of_mem_nodup (·.num) all hnd b' hb'
  simp only [e] at h1
  rw [h1] at h2; exact Option.some.inj h2

theorem lookup_back {all pre suf : List PAtom} (g : GraphOK all) (hall : all = pre ++ suf)
    {a : PAtom} (ha : a ∈ suf) {nb : PNbr} (hnb : nb ∈ a.nbrs) (hseen : nb.m ∈ pre.map (·.num)) :
    (((pre.map eraseSt).find? fun b => b.num == nb.m).bind fun b => b.nbrs.find? fun x => x.m == a.num)
      = some ⟨a.num, nb.order, none⟩ := by
  obtain ⟨b', hb', hnum⟩ := List.mem_map.mp hseen
  have haall : a ∈ all := by rw [hall]; exact List.mem_append_right _ ha
  have hb'all : b' ∈ all := by rw [hall]; exact List.mem_append_left _ hb'
  obtain ⟨b, hb, hbn, hent⟩ := g.sym a haall nb hnb
  have hbb : b = b' := eq_of_num_eq g.nodup hb hb'all (by rw [hbn, hnum])
  subst hbb
  have hpre : (pre.map (·.num)).Nodup := by
    have := g.nodup; rw [hall, List.map_append] at this
    exact (List.nodup_append.mp this).1
  have hf := find_of_mem_nodup (·.num) pre hpre b hb'
  have h1 : (pre.map eraseSt).find? (fun b => b.num == nb.m) = some (eraseSt b) := by
    rw [List.find?_map]
    have : ((fun b : PAtom => b.num == nb.m) ∘ eraseSt) = fun y : PAtom => y.num == b.num := by
      funext y; simp [eraseSt, hbn]
    rw [this, hf]; rfl
  rw [h1, Option.bind_some]
  have hf2 := find_of_mem_nodup (·.m) b.nbrs (g.nbrNodup b hb) _ hent
  show (b.nbrs.map eraseNb).find? (fun x => x.m == a.num) = _
  rw [List.find?_map]
  have : ((fun x : PNbr => x.m == a.num) ∘ eraseNb) = fun y : PNbr => y.m == a.num := by
    funext y; simp [eraseNb]
  rw [this, hf2]; rfl

theorem nbrsOf_spec {all pre suf : List PAtom} (g : GraphOK all) (hall : all = pre ++ suf)
    {a : PAtom} (ha : a ∈ suf) (seen : List Nat) (hseen : ∀ x, x ∈ seen ↔ x ∈ pre.map (·.num)) :
    ∀ (ns : List PNbr), (∀ nb ∈ ns, nb ∈ a.nbrs) → ∀ rest : List Nat,
      nbrsOf a.num (a.num :: seen) (pre.map eraseSt) (ns.map (·.m))
        (((ns.filter fun nb => !(a.num :: seen).contains nb.m).map fun nb => u8 (u8 nb.order + 255)) ++ rest)
      = .ok (ns.map eraseNb, rest)
  | [], _, rest => by simp [nbrsOf]
  | nb :: ns, hsub, rest => by
    have haall : a ∈ all := by rw [hall]; exact List.mem_append_right _ ha
    have hnb : nb ∈ a.nbrs := hsub nb (by simp)
    have ih := nbrsOf_spec g hall ha seen hseen ns (fun x hx => hsub x (by simp [hx])) rest
    have hne : nb.m ≠ a.num := g.noLoop a haall nb hnb
    by_cases hs : nb.m ∈ seen
    · have hc : (a.num :: seen).contains nb.m = true := by simp [hs]
      have hb := lookup_back g hall ha hnb ((hseen _).mp hs)
      simp only [List.map_cons, nbrsOf, hc, ↓reduceIte, hb, List.filter_cons, Bool.not_true, Bool.false_eq_true, ih]
      rfl
    · have hc : (a.num :: seen).contains nb.m = false := by simp [hs, hne]
      obtain ⟨_, hcode⟩ := code_roundtrip (g.order a haall nb hnb)
      simp only [List.map_cons, nbrsOf, hc, Bool.false_eq_true, ↓reduceIte, List.filter_cons, Bool.not_false,
        List.cons_append, ih, hcode]
      rfl


def seenOf (pre : List PAtom) : List Nat := (pre.map (·.num)).reverse
def flatM (atoms : List PAtom) : List Nat := atoms.flatMap fun a => a.nbrs.map (·.m)
def codesFrom (seen : List Nat) (suf : List PAtom) : List Nat :=
  (firstSeen seen suf).map fun p => u8 (u8 p.2.order + 255)

theorem codesFrom_cons (seen : List Nat) (a : PAtom) (suf : List PAtom) :
    codesFrom seen (a :: suf) =
      ((a.nbrs.filter fun nb => !(a.num :: seen).contains nb.m).map fun nb => u8 (u8 nb.order + 255)) ++
        codesFrom (a.num :: seen) suf := by
  simp [codesFrom, firstSeen, List.map_append, List.map_map, Function.comp_def]

theorem rebuild_spec {all : List PAtom} (g : GraphOK all) : ∀ (suf pre : List PAtom) (pad : List Nat),
    all = pre ++ suf →
    rebuild (seenOf pre) (pre.map eraseSt) (suf.map stripNbrs) (flatM suf) (codesFrom (seenOf pre) suf ++ pad)
      = .ok (suf.map eraseSt)
  | [], pre, pad, _ => by simp [rebuild]
  | a :: suf, pre, pad, hall => by
    have ih := rebuild_spec g suf (pre ++ [a]) pad (by simp [hall])
    have hseen' : seenOf (pre ++ [a]) = a.num :: seenOf pre := by simp [seenOf]
    have hdone' : (pre ++ [a]).map eraseSt = pre.map eraseSt ++ [eraseSt a] := by simp
    rw [hseen', hdone'] at ih
    have hn := nbrsOf_spec g hall (a := a) (by simp) (seenOf pre) (by intro x; simp [seenOf]) a.nbrs (fun _ h => h)
      (codesFrom (a.num :: seenOf pre) suf ++ pad)
    have hflat : flatM (a :: suf) = a.nbrs.map (·.m) ++ flatM suf := by simp [flatM]
    have hlen : ¬ ((a.nbrs.map (·.m) ++ flatM suf).length < a.nbrs.length) := by simp
    have htake : (a.nbrs.map (·.m) ++ flatM suf).take a.nbrs.length = a.nbrs.map (·.m) :=
      List.take_left' (by simp)
    have hdrop : (a.nbrs.map (·.m) ++ flatM suf).drop a.nbrs.length = flatM suf :=
      List.drop_left' (by simp)
    simp only [List.map_cons, stripNbrs, rebuild, hflat, if_neg hlen, htake, hdrop, codesFrom_cons, List.append_assoc]
    rw [hn]
    show (do
      let r ← rebuild (a.num :: seenOf pre) (pre.map eraseSt ++ [eraseSt a]) (suf.map stripNbrs) (flatM suf)
        (codesFrom (a.num :: seenOf pre) suf ++ pad)
      pure (eraseSt a :: r)) = _
    rw [ih]; rfl

end ChythonModel.Proofs.C10
