import ChythonModel.Proofs.C09Word12
namespace ChythonModel.Proofs.C09
open ChythonModel.Model.Bits ChythonModel.Gen.Bits ChythonModel.Model.Query

/-- what the layout cannot distinguish: Lv/Ts/Og are one element, an unknown hydrogen count is zero -/
def normA (a : MAtom) : MAtom := { a with z := capS a.z, implH := some (hOr a.implH) }

def normKind : QKind → QKind
  | .element z iso => .element (capS z) iso
  | .list zs => .list (zs.map capS)
  | k => k

def normQ (q : QAtom) : QAtom := { q with kind := normKind q.kind }

theorem extendedTail_eq (q : QAtom) (iso : Option Nat) (a : MAtom) :
    extendedTail q iso a =
      ((q.charge == a.charge) && (q.radical == a.radical) && !isoRejects iso a.isotope &&
       !tupleRejects q.neighbors a.neighbors && !tupleRejects q.hybridization a.hybridization &&
       !ringRejects q.ringSizes a.ringSizes && !hRejects q.implH a.implH && !tupleRejects q.heteroatoms a.heteroatoms) := by
  unfold extendedTail
  have e1 : (q.charge != a.charge) = !(q.charge == a.charge) := rfl
  have e2 : (q.radical != a.radical) = !(q.radical == a.radical) := rfl
  rw [e1, e2]
  cases (q.charge == a.charge) <;> cases (q.radical == a.radical) <;> cases isoRejects iso a.isotope <;>
    cases tupleRejects q.neighbors a.neighbors <;> cases tupleRejects q.hybridization a.hybridization <;>
    cases ringRejects q.ringSizes a.ringSizes <;> cases hRejects q.implH a.implH <;>
    cases tupleRejects q.heteroatoms a.heteroatoms <;> rfl

/-- the mask tests on words (what `rootOk` / `nextOk` compute from the struct fields) -/
def rootW (w aw : Words) : Bool :=
  (w.v1 &&& aw.v1 != 0) && (w.v2 &&& aw.v2 == aw.v2) && (w.v3 &&& aw.v3 == aw.v3) && (w.v4 &&& aw.v4 != 0)

def nextW (w : Words) (bond : Nat) (aw : Words) : Bool :=
  (w.v1 &&& bond == bond) && (w.v2 &&& aw.v2 == aw.v2) && (w.v3 &&& aw.v3 == aw.v3) && (w.v4 &&& aw.v4 != 0)

theorem qWords_root (qmdl : Nat) (q : QAtom) :
    qWords qmdl q none =
      ⟨(qElemPart q.kind).1, (qElemPart q.kind).2 ||| hybPart q,
       (if isMetalKind q.kind then qMetalV3 else qV3ext qmdl q) ||| nbPart q,
       if isMetalKind q.kind then qMetalV4 else qV4ext q⟩ := rfl

theorem qWords_next (qmdl : Nat) (q : QAtom) (b : QBond) :
    qWords qmdl q (some b) =
      ⟨(qElemPart q.kind).1 ||| qBondBits b, (qElemPart q.kind).2 ||| hybPart q,
       (if isMetalKind q.kind then qMetalV3 else qV3ext qmdl q) ||| nbPart q,
       if isMetalKind q.kind then qMetalV4 else qV4ext q⟩ := rfl

theorem elemIn_kind (q : QAtom) (hq : QDom q) : ElemIn (qElemPart q.kind) := by
  have he := hq.elems
  cases hk : q.kind with
  | element z iso => rw [hk] at he; simp only [qElemPart, elemBits_q_eq]; exact elemIn_one z he.1 he.2
  | any => exact elemIn_any
  | list zs => rw [hk] at he; exact elemIn_list zs he
  | metal => exact elemIn_metal

/-- acceptance of the (capped) atomic number by the element part, kind by kind -/
def kindAccepts (k : QKind) (z : Nat) : Bool :=
  match k with
  | .element zq _ => capS zq == capS z
  | .any => true
  | .list zs => zs.any (fun zq => capS zq == capS z)
  | .metal => !notMetal (capS z)

theorem mem_range' (z : Nat) (h1 : 1 ≤ z) (h2 : z ≤ 118) : z ∈ List.range' 1 118 := by
  rw [List.mem_range'_1]; omega

theorem elemAcc_kind (q : QAtom) (hq : QDom q) (z : Nat) (h1 : 1 ≤ z) (h2 : z ≤ 118) :
    elemAcc (qElemPart q.kind) z = kindAccepts q.kind z := by
  have he := hq.elems
  cases hk : q.kind with
  | element zq iso =>
    rw [hk] at he; simp only [qElemPart, elemBits_q_eq, kindAccepts]; exact elemAcc_one zq z he.1 he.2 h1 h2
  | any => exact elemAcc_any z h1 h2
  | list zs => rw [hk] at he; exact elemAcc_list zs z ⟨h1, h2⟩ he
  | metal => exact elemAcc_metal z (mem_range' z h1 h2)

theorem test4_metal (a : MAtom) (ha : ∀ r ∈ a.ringSizes, 3 ≤ r ∧ r ≤ 65) : (qMetalV4 &&& atomV4 a != 0) = true := by
  rw [atomV4_eq a ha, meet_orShifts, qMetalV4_eq]
  unfold pos4
  cases har : a.ringSizes with
  | nil => simp only [List.isEmpty_nil, if_true, List.any_cons, List.any_nil, testBit_run]; decide
  | cons r rs =>
    have := ha r (by rw [har]; simp)
    simp only [List.isEmpty_cons, Bool.false_eq_true, if_false, List.map_cons, List.any_cons, testBit_run]
    have : (decide (0 ≤ 65 - r) && decide (65 - r - 0 < 64)) = true := by simp; omega
    rw [this]; rfl

theorem contains_map_capS (zs : List Nat) (z : Nat) :
    (zs.map capS).contains (capS z) = zs.any (fun zq => capS zq == capS z) := by
  induction zs with
  | nil => rfl
  | cons x xs ih =>
    simp only [List.map_cons, List.contains_cons, List.any_cons, ih]; congr 1
    rw [Bool.eq_iff_iff, beq_iff_eq, beq_iff_eq]; exact ⟨Eq.symm, Eq.symm⟩

/-- `pyEq` after normalisation, as a flat conjunction -/
theorem pyEq_norm (q : QAtom) (a : MAtom) :
    pyEq (normQ q) (normA a) =
      (kindAccepts q.kind a.z &&
        (if isMetalKind q.kind then
          (!tupleRejects q.neighbors a.neighbors && !tupleRejects q.hybridization a.hybridization)
        else
          ((q.charge == a.charge) && (q.radical == a.radical) && !isoRejects (kindIso q.kind) a.isotope &&
           !tupleRejects q.neighbors a.neighbors && !tupleRejects q.hybridization a.hybridization &&
           !ringRejects q.ringSizes a.ringSizes && !hRejects q.implH (some (hOr a.implH)) &&
           !tupleRejects q.heteroatoms a.heteroatoms))) := by
  unfold pyEq
  cases hk : q.kind with
  | element zq iso =>
    simp only [normQ, hk, normKind, normA, kindAccepts, isMetalKind, kindIso, extendedTail_eq, Bool.false_eq_true, if_false]
    cases h : (capS zq == capS a.z)
    · have : (capS zq != capS a.z) = true := by simp [bne, h]
      simp [this]
    · have : (capS zq != capS a.z) = false := by simp [bne, h]
      simp [this]
  | any =>
    simp only [normQ, hk, normKind, normA, kindAccepts, isMetalKind, kindIso, extendedTail_eq, Bool.false_eq_true, if_false, Bool.true_and]
  | list zs =>
    simp only [normQ, hk, normKind, normA, kindAccepts, isMetalKind, kindIso, extendedTail_eq, Bool.false_eq_true, if_false]
    have := contains_map_capS zs a.z
    rw [this]
    cases zs.any (fun zq => capS zq == capS a.z) <;> simp
  | metal =>
    simp only [normQ, hk, normKind, normA, kindAccepts, isMetalKind, if_true]
    cases notMetal (capS a.z) <;> cases tupleRejects q.neighbors a.neighbors <;>
      cases tupleRejects q.hybridization a.hybridization <;> rfl


theorem m3_def (qmdl : Nat) (q : QAtom) : qV3ext qmdl q ||| nbPart q = m3 qmdl q := rfl

/-- words III and IV together, given that the element part accepted -/
theorem test34 (mdl qmdl : Nat) (q : QAtom) (a : MAtom) (hq : QDom q) (ha : ADom mdl a)
    (hm : qIso q.kind ≠ none → qmdl = mdl) :
    ((((if isMetalKind q.kind then qMetalV3 else qV3ext qmdl q) ||| nbPart q) &&& atomV3 mdl a == atomV3 mdl a) &&
      ((if isMetalKind q.kind then qMetalV4 else qV4ext q) &&& atomV4 a != 0)) =
      (if isMetalKind q.kind then !tupleRejects q.neighbors a.neighbors
       else ((q.charge == a.charge) && (q.radical == a.radical) && !isoRejects (kindIso q.kind) a.isotope &&
         !tupleRejects q.neighbors a.neighbors && !hRejects q.implH (some (hOr a.implH)) &&
         !tupleRejects q.heteroatoms a.heteroatoms && !ringRejects q.ringSizes a.ringSizes)) := by
  cases hmk : isMetalKind q.kind
  · simp only [Bool.false_eq_true, if_false, m3_def, test3_ext mdl qmdl q a hq ha hm, test4_ext q a hq ha.rings]
  · simp only [if_true, test3_metal mdl q a hq ha, test4_metal a ha.rings, Bool.and_true]

/-- **first atom of a component**: the mask test on the encoded words equals the reference comparison of the normalised pair -/
theorem mask_root_norm (mdl qmdl : Nat) (q : QAtom) (a : MAtom) (hq : QDom q) (ha : ADom mdl a)
    (hm : qIso q.kind ≠ none → kindAccepts q.kind a.z = true → qmdl = mdl) :
    rootW (qWords qmdl q none) (atomWords mdl a) = pyEq (normQ q) (normA a) := by
  rw [qWords_root, pyEq_norm]
  unfold rootW atomWords
  simp only []
  have t12 := test12_root (qElemPart q.kind) q a mdl (elemIn_kind q hq) hq ha
  rw [elemAcc_kind q hq a.z ha.z_lo ha.z_hi] at t12
  rw [Bool.and_assoc, t12]
  cases hacc : kindAccepts q.kind a.z
  · simp
  · have t34 := test34 mdl qmdl q a hq ha (fun h => hm h hacc)
    rw [t34]
    cases isMetalKind q.kind
    · simp only [Bool.false_eq_true, if_false, Bool.true_and]
      cases (q.charge == a.charge) <;> cases (q.radical == a.radical) <;> cases isoRejects (kindIso q.kind) a.isotope <;>
        cases tupleRejects q.neighbors a.neighbors <;> cases tupleRejects q.hybridization a.hybridization <;>
        cases ringRejects q.ringSizes a.ringSizes <;> cases hRejects q.implH (some (hOr a.implH)) <;>
        cases tupleRejects q.heteroatoms a.heteroatoms <;> rfl
    · simp only [if_true, Bool.true_and]
      cases tupleRejects q.neighbors a.neighbors <;> cases tupleRejects q.hybridization a.hybridization <;> rfl

/-- **later atoms**: the same with the bond word (neighbour's word I, order bit, ring bit) -/
theorem mask_next_norm (mdl qmdl : Nat) (q : QAtom) (qb : QBond) (a : MAtom) (b : MBond) (hq : QDom q) (ha : ADom mdl a)
    (hb : BDom qb b) (hm : qIso q.kind ≠ none → kindAccepts q.kind a.z = true → qmdl = mdl) :
    nextW (qWords qmdl q (some qb)) (bondWord (atomV1 a) b) (atomWords mdl a) = (pyEq (normQ q) (normA a) && bondEq qb b) := by
  rw [qWords_next, pyEq_norm]
  unfold nextW atomWords
  simp only []
  have t12 := test12_next (qElemPart q.kind) q qb a b mdl (elemIn_kind q hq) hq ha hb
  rw [elemAcc_kind q hq a.z ha.z_lo ha.z_hi] at t12
  rw [Bool.and_assoc, t12]
  cases hacc : kindAccepts q.kind a.z
  · simp
  · have t34 := test34 mdl qmdl q a hq ha (fun h => hm h hacc)
    rw [t34]
    cases isMetalKind q.kind
    · simp only [Bool.false_eq_true, if_false, Bool.true_and]
      cases bondEq qb b <;>
      cases (q.charge == a.charge) <;> cases (q.radical == a.radical) <;> cases isoRejects (kindIso q.kind) a.isotope <;>
        cases tupleRejects q.neighbors a.neighbors <;> cases tupleRejects q.hybridization a.hybridization <;>
        cases ringRejects q.ringSizes a.ringSizes <;> cases hRejects q.implH (some (hOr a.implH)) <;>
        cases tupleRejects q.heteroatoms a.heteroatoms <;> rfl
    · simp only [if_true, Bool.true_and]
      cases bondEq qb b <;> cases tupleRejects q.neighbors a.neighbors <;> cases tupleRejects q.hybridization a.hybridization <;> rfl

end ChythonModel.Proofs.C09
