import ChythonModel.Proofs.C06PidBfs
import ChythonModel.Proofs.C06PidCset
import ChythonModel.Proofs.C06PidLong
import ChythonModel.Proofs.C06SkinCycles
import ChythonModel.Proofs.C06Count
/-!
# C06 — what `_sssr` (the model `sssrPid`) returns: simple cycles of the input graph, no repetition, as many as asked for
-/
namespace ChythonModel.Proofs.C06
open ChythonModel.Model.C06 ChythonModel.Spec.CycleBasis

theorem walk_mono {s g : Adj} (h : ∀ a b, b ∈ nbrsOf s a → b ∈ nbrsOf g a) : ∀ p : List Nat, Walk s p → Walk g p
  | [], _ => trivial
  | [_], _ => trivial
  | a :: b :: tl, hw => ⟨h a b hw.1, walk_mono h (b :: tl) hw.2⟩

theorem keys_nodup_of_wfAdj {g : Adj} (h : wfAdj g = true) : (keys g).Nodup := by
  unfold wfAdj at h
  simp only [Bool.and_eq_true, decide_eq_true_eq] at h
  exact h.1

theorem no_loop_of_wfAdj {g : Adj} (h : wfAdj g = true) (a : Nat) : a ∉ nbrsOf g a := by
  intro ha
  unfold nbrsOf at ha
  cases hl : g.lookup a with
  | none => simp [hl] at ha
  | some ms =>
    simp only [hl, Option.getD_some] at ha
    have hm := mem_of_lookup hl
    unfold wfAdj at h
    simp only [Bool.and_eq_true, List.all_eq_true, decide_eq_true_eq] at h
    have := (h.2 (a, ms) hm).2 a ha
    simp at this

/-- the hypothesis on `_make_pid` that `makePid_p2_long` discharges -/
def P2LongFor (g : Adj) : Prop :=
  ∀ (paths : List Path) (p1 : Pid1) (p2 : Pid2) (d : Dist), (∀ p ∈ paths, Walk g p ∧ 2 ≤ p.length) →
    makePid paths = some (p1, p2, d) → ∀ e ∈ p2, ∀ kp ∈ e.2, 3 ≤ kp.2.length

theorem sssrTrace_cands_cycles {g : Adj} (hwf : wfAdj g = true) (hsym : symAdj g = true) (hL : P2LongFor g) (n : Nat)
    {cands : List (Option Ring)} (h : (sssrTrace g n).cands = some cands) : ∀ r, some r ∈ cands → IsSimpleCycle g r := by
  have hs := sym_of_symAdj hsym
  unfold sssrTrace at h
  split at h
  · cases h
  · next s hskin =>
    split at h
    · cases h
    · next paths hbfs =>
      split at h
      · cases h
      · next p1 p2 d hpid =>
        simp only [Option.some.injEq] at h
        subst h
        have hw : ∀ p ∈ paths, Walk g p ∧ 2 ≤ p.length := fun p hp =>
          ⟨walk_mono (nbrsOf_sub_of_skin (keys_nodup_of_wfAdj hwf) hskin) p (bfsPaths_walks s paths hbfs p hp).1,
            (bfsPaths_walks s paths hbfs p hp).2⟩
        intro r hr
        exact cSet_cycle hs (makePid_ok g hs paths hw hpid)
          ⟨makePid_one_short g hs paths hw hpid, hL paths p1 p2 d hw hpid⟩ hr

theorem sssrPid_spec_of {g : Adj} (hwf : wfAdj g = true) (hsym : symAdj g = true) (hL : P2LongFor g) {n : Nat}
    {out : List Ring} (h : sssrPid g n = .ok out) :
    (∀ r ∈ out, IsSimpleCycle g r) ∧ out.Nodup ∧ (1 ≤ n → out.length = n) := by
  unfold sssrPid at h
  have hc := fun cands => sssrTrace_cands_cycles hwf hsym hL n (cands := cands)
  unfold sssrTrace at h hc
  cases hsk : skinGraph g with
  | none => rw [hsk] at h; cases h
  | some s =>
    rw [hsk] at h hc
    simp only at h hc
    cases hb : Model.C06.bfsPaths s with
    | none => rw [hb] at h; cases h
    | some paths =>
      rw [hb] at h hc
      simp only at h hc
      cases hp : makePid paths with
      | none => rw [hp] at h; cases h
      | some st =>
        obtain ⟨p1, p2, d⟩ := st
        rw [hp] at h hc
        simp only at h hc
        exact ⟨fun r hr => hc _ rfl r (ringsFilter_subset h r hr), ringsFilter_nodup h,
          fun hn => ringsFilter_length hn h⟩

theorem sssrPid_length {g : Adj} {n : Nat} {out : List Ring} (h : sssrPid g n = .ok out) : out.length = n := by
  unfold sssrPid sssrTrace at h
  split at h
  · cases h
  · split at h
    · cases h
    · split at h
      · cases h
      · exact ringsFilter_length_any h

theorem sssrModel_spec_of (m : ChythonModel.Model.Mol) (hwf : m.WF = true) (hL : P2LongFor (notSpecial m))
    {out : List Ring} (h : sssrModel m = .ok out) :
    (∀ r ∈ out, IsSimpleCycle (notSpecial m) r) ∧ out.Nodup ∧
      ∃ rc, ringsCount m = some rc ∧ out.length = rc.toNat := by
  unfold sssrModel sssrModelTrace at h
  cases hrc : ringsCount m with
  | none => rw [hrc] at h; cases h
  | some rc =>
    rw [hrc] at h
    simp only at h
    split at h
    · next h0 =>
      simp only [SssrRes.ok.injEq] at h
      subst h
      have : rc = 0 := by simpa using h0
      subst this
      exact ⟨fun _ hr => by simp at hr, List.nodup_nil, 0, rfl, rfl⟩
    · have hp : sssrPid (notSpecial m) rc.toNat = .ok out := h
      obtain ⟨hw, hs⟩ := notSpecial_wf m hwf
      obtain ⟨h1, h2, _⟩ := sssrPid_spec_of hw hs hL hp
      exact ⟨h1, h2, rc, rfl, sssrPid_length hp⟩

theorem p2LongFor_of_wf {g : Adj} (hwf : wfAdj g = true) (hsym : symAdj g = true) : P2LongFor g :=
  fun paths _ _ _ hp h => makePid_p2_long g (sym_of_symAdj hsym) (no_loop_of_wfAdj hwf) paths hp h

theorem sssrPid_spec {g : Adj} (hwf : wfAdj g = true) (hsym : symAdj g = true) {n : Nat} {out : List Ring}
    (h : sssrPid g n = .ok out) : (∀ r ∈ out, IsSimpleCycle g r) ∧ out.Nodup ∧ out.length = n :=
  ⟨(sssrPid_spec_of hwf hsym (p2LongFor_of_wf hwf hsym) h).1, (sssrPid_spec_of hwf hsym (p2LongFor_of_wf hwf hsym) h).2.1,
    sssrPid_length h⟩

theorem sssrModel_spec (m : ChythonModel.Model.Mol) (hwf : m.WF = true) {out : List Ring} (h : sssrModel m = .ok out) :
    (∀ r ∈ out, IsSimpleCycle (notSpecial m) r) ∧ out.Nodup ∧
      ∃ rc, ringsCount m = some rc ∧ out.length = rc.toNat :=
  sssrModel_spec_of m hwf (p2LongFor_of_wf (notSpecial_wf m hwf).1 (notSpecial_wf m hwf).2) h

end ChythonModel.Proofs.C06
