import ChythonModel.Proofs.C05Check
/-!
# C05 — soundness of `checkKekule` and `checkThiele`
-/
namespace ChythonModel.Proofs.C05
open ChythonModel.Model ChythonModel.Model.Valence ChythonModel.Spec.Kekule

theorem atomOk_key (a k : Mol) (x y : Nat × Atom) (h : atomOk a k x y = true) : x.1 = y.1 := by
  unfold atomOk at h
  simp only [Bool.and_eq_true, beq_iff_eq] at h
  exact h.1.1

theorem atomOk_core (a k : Mol) (x y : Nat × Atom) (h : atomOk a k x y = true) :
    (x.1, core x.2) = (y.1, core y.2) := by
  unfold atomOk at h
  simp only [Bool.and_eq_true, beq_iff_eq] at h
  rw [h.1.1, h.1.2]

theorem bondOk_key (p q : Nat × Bond) (h : bondOk p q = true) : p.1 = q.1 := by
  unfold bondOk at h
  simp only [Bool.and_eq_true, beq_iff_eq] at h
  exact h.1.1

theorem rowOk_key (r s : Nat × List (Nat × Bond)) (h : rowOk r s = true) : r.1 = s.1 := by
  unfold rowOk at h
  simp only [Bool.and_eq_true, beq_iff_eq] at h
  exact h.1

theorem rowOk_shape (r s : Nat × List (Nat × Bond)) (h : rowOk r s = true) :
    (r.1, r.2.map (·.1)) = (s.1, s.2.map (·.1)) := by
  unfold rowOk at h
  simp only [Bool.and_eq_true, beq_iff_eq] at h
  rw [h.1, map_eq_of_all2 (·.1) (·.1) bondOk_key h.2]

theorem nbrs_of_lookup {m : Mol} {n : Nat} {ms : List (Nat × Bond)} (h : m.adj.lookup n = some ms) : m.nbrs n = ms := by
  simp [Mol.nbrs, h]

/-- row-wise agreement lifted to `bond?` (left to right) -/
theorem bond_of_rows {f : Nat × List (Nat × Bond) → Nat × List (Nat × Bond) → Bool}
    {g : Nat → Nat × Bond → Nat × Bond → Bool}
    (hk : ∀ r s, f r s = true → r.1 = s.1) (hg : ∀ n p q, g n p q = true → p.1 = q.1)
    (hrow : ∀ n ms ms', f (n, ms) (n, ms') = true → all2 (g n) ms ms' = true)
    {a k : Mol} (h : all2 f a.adj k.adj = true) {n m : Nat} {b : Bond} (hb : a.bond? n m = some b) :
    ∃ b', k.bond? n m = some b' ∧ g n (m, b) (m, b') = true := by
  unfold Mol.bond? at hb
  cases hl : a.adj.lookup n with
  | none => simp [Mol.nbrs, hl] at hb
  | some ms =>
    rw [nbrs_of_lookup hl] at hb
    obtain ⟨ms', hms', hf⟩ := lookup_all2 hk h hl
    obtain ⟨b', hb', hgb⟩ := lookup_all2 (hg n) (hrow n ms ms' hf) hb
    exact ⟨b', by unfold Mol.bond?; rw [nbrs_of_lookup hms']; exact hb', hgb⟩

/-- … and right to left -/
theorem bond_of_rows_rev {f : Nat × List (Nat × Bond) → Nat × List (Nat × Bond) → Bool}
    {g : Nat → Nat × Bond → Nat × Bond → Bool}
    (hk : ∀ r s, f r s = true → r.1 = s.1) (hg : ∀ n p q, g n p q = true → p.1 = q.1)
    (hrow : ∀ n ms ms', f (n, ms) (n, ms') = true → all2 (g n) ms ms' = true)
    {a k : Mol} (h : all2 f a.adj k.adj = true) {n m : Nat} {b' : Bond} (hb : k.bond? n m = some b') :
    ∃ b, a.bond? n m = some b ∧ g n (m, b) (m, b') = true := by
  unfold Mol.bond? at hb
  cases hl : k.adj.lookup n with
  | none => simp [Mol.nbrs, hl] at hb
  | some ms' =>
    rw [nbrs_of_lookup hl] at hb
    obtain ⟨ms, hms, hf⟩ := lookup_all2_rev hk h hl
    obtain ⟨b, hb0, hgb⟩ := lookup_all2_rev (hg n) (hrow n ms ms' hf) hb
    exact ⟨b, by unfold Mol.bond?; rw [nbrs_of_lookup hms]; exact hb0, hgb⟩

theorem rowOk_rows (n : Nat) (ms ms' : List (Nat × Bond)) (h : rowOk (n, ms) (n, ms') = true) :
    all2 (fun p q => bondOk p q) ms ms' = true := by
  unfold rowOk at h
  simp only [Bool.and_eq_true] at h
  exact h.2

theorem checkKekule_sound (a k : Mol) (h : checkKekule a k = true) : IsKekuleOf a k := by
  unfold checkKekule at h
  simp only [Bool.and_eq_true] at h
  obtain ⟨hat, hbd⟩ := h
  unfold checkAtoms at hat
  unfold checkBonds at hbd
  refine ⟨⟨?_, ?_⟩, ?_, ?_, ?_⟩
  · exact map_eq_of_all2 _ _ (atomOk_core a k) hat
  · exact map_eq_of_all2 _ _ rowOk_shape hbd
  · intro n m b hb
    obtain ⟨b', hb', hg⟩ := bond_of_rows (g := fun _ p q => bondOk p q) rowOk_key (fun _ => bondOk_key)
      rowOk_rows hbd hb
    refine ⟨b', hb', ?_⟩
    unfold bondOk at hg
    simp only [Bool.and_eq_true] at hg
    exact (kekOrderB_iff _ _).mp hg.1.2
  · intro n m b' hb'
    obtain ⟨b, _, hg⟩ := bond_of_rows_rev (g := fun _ p q => bondOk p q) rowOk_key (fun _ => bondOk_key)
      rowOk_rows hbd hb'
    unfold bondOk at hg
    simp only [Bool.and_eq_true] at hg
    exact (localisedB_iff _).mp hg.2
  · intro n x y hx hy
    unfold Mol.atom? at hx hy
    obtain ⟨w, hw, hf⟩ := lookup_all2 (atomOk_key a k) hat hx
    rw [hy] at hw
    cases hw
    unfold atomOk at hf
    simp only [Bool.and_eq_true] at hf
    obtain ⟨_, hh⟩ := hf
    cases hyh : y.implH with
    | none => simp [hyh] at hh
    | some hv =>
      simp only [hyh, Bool.and_eq_true] at hh
      refine ⟨hv, rfl, ?_, ?_, ?_⟩
      · intro h0 hx0
        have := hh.1
        simp only [hx0, beq_iff_eq] at this
        exact this
      · intro ht
        have h2 := hh.2
        rw [if_pos ((touchedB_iff a n).mpr ht)] at h2
        simpa using h2
      · intro ht
        have h2 := hh.2
        have hf : touchedB a n = false := by
          cases hb : touchedB a n with
          | false => rfl
          | true => exact absurd ((touchedB_iff a n).mp hb) ht
        rw [hf] at h2
        simp only [Bool.false_eq_true, if_false, beq_iff_eq] at h2
        rw [h2]

/-- every atom of an accepted Kekulé form carries a hydrogen count: `check_valence` reports nothing -/
theorem checkKekule_no_valence_error (a k : Mol) (h : checkKekule a k = true) : checkValence k = [] := by
  unfold checkKekule at h
  simp only [Bool.and_eq_true] at h
  unfold checkValence
  rw [List.map_eq_nil_iff, List.filter_eq_nil_iff]
  intro y hy
  obtain ⟨x, _, hf⟩ := all2_mem_right h.1 y hy
  unfold atomOk at hf
  simp only [Bool.and_eq_true] at hf
  cases hyh : y.2.implH with
  | none => simp [hyh] at hf
  | some v => simp

/-- no aromatic bond is left anywhere in the neighbour dicts of an accepted Kekulé form -/
theorem checkKekule_no_aromatic (a k : Mol) (h : checkKekule a k = true) :
    ∀ r ∈ k.adj, ∀ q ∈ r.2, q.2.order ≠ 4 := by
  unfold checkKekule at h
  simp only [Bool.and_eq_true] at h
  intro r hr q hq
  obtain ⟨r0, _, hf⟩ := all2_mem_right h.2 r hr
  unfold rowOk at hf
  simp only [Bool.and_eq_true] at hf
  obtain ⟨p, _, hpq⟩ := all2_mem_right hf.2 q hq
  unfold bondOk at hpq
  simp only [Bool.and_eq_true] at hpq
  have := (localisedB_iff _).mp hpq.2
  unfold Localised at this
  omega

/-! ### thiele -/

theorem aromAtomOk_key (x y : Nat × Atom) (h : aromAtomOk x y = true) : x.1 = y.1 := by
  unfold aromAtomOk at h
  simp only [Bool.and_eq_true, beq_iff_eq] at h
  exact h.1.1

theorem aromAtomOk_core (x y : Nat × Atom) (h : aromAtomOk x y = true) : (x.1, core x.2) = (y.1, core y.2) := by
  unfold aromAtomOk at h
  simp only [Bool.and_eq_true, beq_iff_eq] at h
  rw [h.1.1, h.1.2]

theorem aromBondOk_key (t : Mol) (n : Nat) (p q : Nat × Bond) (h : aromBondOk t n p q = true) : p.1 = q.1 := by
  unfold aromBondOk at h
  simp only [Bool.and_eq_true, beq_iff_eq] at h
  exact h.1

theorem aromRowOk_key (t : Mol) (r s : Nat × List (Nat × Bond)) (h : aromRowOk t r s = true) : r.1 = s.1 := by
  unfold aromRowOk at h
  simp only [Bool.and_eq_true, beq_iff_eq] at h
  exact h.1

theorem aromRowOk_shape (t : Mol) (r s : Nat × List (Nat × Bond)) (h : aromRowOk t r s = true) :
    (r.1, r.2.map (·.1)) = (s.1, s.2.map (·.1)) := by
  unfold aromRowOk at h
  simp only [Bool.and_eq_true, beq_iff_eq] at h
  rw [h.1, map_eq_of_all2 (·.1) (·.1) (aromBondOk_key t r.1) h.2]

theorem aromRowOk_rows (t : Mol) (n : Nat) (ms ms' : List (Nat × Bond)) (h : aromRowOk t (n, ms) (n, ms') = true) :
    all2 (aromBondOk t n) ms ms' = true := by
  unfold aromRowOk at h
  simp only [Bool.and_eq_true] at h
  exact h.2

theorem checkThiele_sound (k t : Mol) (h : checkThiele k t = true) : IsAromFormOf k t := by
  unfold checkThiele at h
  simp only [Bool.and_eq_true] at h
  obtain ⟨⟨hat, hbd⟩, hcl⟩ := h
  refine ⟨⟨?_, ?_⟩, ?_, ?_, ?_⟩
  · exact map_eq_of_all2 _ _ aromAtomOk_core hat
  · exact map_eq_of_all2 _ _ (aromRowOk_shape t) hbd
  · intro n m b hb
    obtain ⟨b', hb', hg⟩ := bond_of_rows (g := fun n p q => aromBondOk t n p q) (aromRowOk_key t)
      (fun n => aromBondOk_key t n) (aromRowOk_rows t) hbd hb
    refine ⟨b', hb', ?_⟩
    unfold aromBondOk at hg
    simp only [Bool.and_eq_true, Bool.or_eq_true, beq_iff_eq] at hg
    rcases hg.2 with h1 | h2
    · exact Or.inl ((aromOrderB_iff _ _).mp h1)
    · exact Or.inr ⟨h2.1.1.1, h2.1.1.2, (touchedB_iff t n).mp h2.1.2, (touchedB_iff t m).mp h2.2⟩
  · intro n x y hx hy
    unfold Mol.atom? at hx hy
    obtain ⟨w, hw, hf⟩ := lookup_all2 aromAtomOk_key hat hx
    rw [hy] at hw
    cases hw
    unfold aromAtomOk at hf
    simp only [Bool.and_eq_true, beq_iff_eq] at hf
    exact hf.2
  · intro r hr
    have := List.all_eq_true.mp hcl r hr
    simpa using this

end ChythonModel.Proofs.C05
