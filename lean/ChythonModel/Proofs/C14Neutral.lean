import ChythonModel.Proofs.C14Charges
/-!
# C14 — helper lemmas: `_neutralize` atom by atom; one `standardize_charges` step and the net charge
-/
namespace ChythonModel.Proofs.C14
open ChythonModel.Model ChythonModel.Model.Std ChythonModel.Gen.Rules

/-- `a'` is `a` with `k` protons more (or fewer): the hydrogen count and the charge moved by the same `k`, nothing else changed.
    (`a' = a` covers atoms without a hydrogen count, which no proton move may touch.) -/
def ProtonShift (a a' : Atom) : Prop :=
  a' = a ∨ ∃ h h' : Nat, a.implH = some h ∧ a' = { a with implH := some h', charge := a.charge + ((h' : Int) - h) }

theorem ProtonShift.refl (a : Atom) : ProtonShift a a := Or.inl rfl

theorem ProtonShift.trans {a b c : Atom} (h1 : ProtonShift a b) (h2 : ProtonShift b c) : ProtonShift a c := by
  rcases h1 with rfl | ⟨h, h', ha, rfl⟩
  · exact h2
  · rcases h2 with rfl | ⟨k, k', hb, rfl⟩
    · exact Or.inr ⟨h, h', ha, rfl⟩
    · simp only [Option.some.injEq] at hb
      subst hb
      refine Or.inr ⟨h, k', ha, ?_⟩
      simp only [Atom.mk.injEq, true_and, and_true]
      omega

/-- what a proton shift conserves, spelled out -/
theorem ProtonShift.conserves {a a' : Atom} (h : ProtonShift a a') :
    a'.z = a.z ∧ a'.isotope = a.isotope ∧ a'.radical = a.radical ∧ a'.stereo = a.stereo ∧
    (a'.implH.isSome = a.implH.isSome) ∧
    a'.charge - ((a'.implH.getD 0 : Nat) : Int) = a.charge - ((a.implH.getD 0 : Nat) : Int) := by
  rcases h with rfl | ⟨k, k', ha, rfl⟩
  · simp
  · simp [ha]; omega

/-- the molecule-level relation: same bonds, same atom keys in the same order, every atom a proton shift of itself -/
def ProtonMove (m m' : Mol) : Prop :=
  m'.adj = m.adj ∧ m'.ids = m.ids ∧ ∀ x a, m.atom? x = some a → ∃ a', m'.atom? x = some a' ∧ ProtonShift a a'

theorem ProtonMove.refl (m : Mol) : ProtonMove m m := ⟨rfl, rfl, fun _ a h => ⟨a, h, .refl a⟩⟩

theorem ProtonMove.trans {a b c : Mol} (h1 : ProtonMove a b) (h2 : ProtonMove b c) : ProtonMove a c := by
  refine ⟨h2.1.trans h1.1, h2.2.1.trans h1.2.1, ?_⟩
  intro x a0 ha0
  obtain ⟨bt, hbt, s1⟩ := h1.2.2 x a0 ha0
  obtain ⟨ct, hct, s2⟩ := h2.2.2 x bt hbt
  exact ⟨ct, hct, s1.trans s2⟩

theorem updAtom_protonMove (m : Mol) (n : Nat) (f : Atom → Atom) (hf : ∀ a, m.atom? n = some a → ProtonShift a (f a)) :
    ProtonMove m (updAtom m n f) := by
  refine ⟨rfl, updAtom_ids _ _ _, ?_⟩
  intro x a ha
  rw [atom?_updAtom, ha]
  simp only [Option.map_some]
  by_cases hx : x = n
  · subst hx
    simp only [beq_self_eq_true, if_true]
    exact ⟨_, rfl, hf a ha⟩
  · have : (x == n) = false := beq_false_of_ne hx
    simp only [this, Bool.false_eq_true, if_false]
    exact ⟨_, rfl, .refl a⟩

theorem protonate_protonMove (m m' : Mol) (n : Nat) (h : protonate m n = some m') : ProtonMove m m' := by
  unfold protonate at h
  cases ha : m.atom? n with
  | none => simp [ha, bind] at h
  | some a =>
    cases hh : a.implH with
    | none => simp [ha, hh, bind] at h
    | some k =>
      simp only [ha, hh, bind, Option.bind, pure, Option.some.injEq] at h
      subst h
      apply updAtom_protonMove
      intro b hb
      rw [ha] at hb
      simp only [Option.some.injEq] at hb
      subst hb
      refine Or.inr ⟨k, k + 1, hh, ?_⟩
      simp only [Atom.mk.injEq, true_and, and_true]
      omega

theorem deprotonate_protonMove (m m' : Mol) (n : Nat) (h : deprotonate m n = some m') : ProtonMove m m' := by
  unfold deprotonate at h
  cases ha : m.atom? n with
  | none => simp [ha, bind] at h
  | some a =>
    cases hh : a.implH with
    | none => simp [ha, hh, bind] at h
    | some k =>
      simp only [ha, hh, bind, Option.bind, pure] at h
      split at h
      · simp at h
      · rename_i hk
        simp only [Option.some.injEq] at h
        subst h
        have hk' : k ≠ 0 := by simpa using hk
        apply updAtom_protonMove
        intro b hb
        rw [ha] at hb
        simp only [Option.some.injEq] at hb
        subst hb
        refine Or.inr ⟨k, k - 1, hh, ?_⟩
        simp only [Atom.mk.injEq, true_and, and_true]
        omega

theorem foldOpt_protonMove (f : Mol → Nat → Option Mol) (hf : ∀ m m' n, f m n = some m' → ProtonMove m m') :
    ∀ (ns : List Nat) (m m' : Mol), foldOpt f ns m = some m' → ProtonMove m m' := by
  intro ns
  induction ns with
  | nil => intro m m' h; simp only [foldOpt, Option.some.injEq] at h; subst h; exact .refl m
  | cons n ns ih =>
    intro m m' h
    rw [foldOpt] at h
    cases h1 : f m n with
    | none => simp [h1] at h
    | some m1 =>
      simp only [h1, Option.bind] at h
      exact (hf _ _ _ h1).trans (ih _ _ h)

theorem neutralizeWith_protonMove (m o : Mol) (ds as : List Nat) (h : neutralizeWith m ds as = some o) : ProtonMove m o := by
  unfold neutralizeWith at h
  cases h1 : foldOpt deprotonate ds m with
  | none => simp [h1] at h
  | some m1 =>
    simp only [h1, Option.bind] at h
    exact (foldOpt_protonMove _ deprotonate_protonMove ds m m1 h1).trans (foldOpt_protonMove _ protonate_protonMove as m1 o h)

theorem mem_of_lookup_eq_some {α : Type} : ∀ (l : List (Nat × α)) (k : Nat) (v : α), l.lookup k = some v → (k, v) ∈ l := by
  intro l
  induction l with
  | nil => intro k v h; simp at h
  | cons p tl ih =>
    intro k v h
    obtain ⟨k', v'⟩ := p
    by_cases hk : k = k'
    · subst hk
      simp only [List.lookup, beq_self_eq_true, Option.some.injEq] at h
      subst h
      exact List.mem_cons_self
    · have : (k == k') = false := beq_false_of_ne hk
      simp only [List.lookup, this] at h
      exact List.mem_cons_of_mem _ (ih k v h)

/-! ## one step of the `fixed_rules` loop and the net charge -/

theorem netCharge_setCharge {m m' : Mol} {n : Nat} {c : Int} (a : Atom) (hnd : m.ids.Nodup) (ha : m.atom? n = some a)
    (h : setCharge m n c = some m') : netCharge m' = netCharge m + (c - a.charge) := by
  unfold setCharge at h
  rw [ha] at h
  simp only [Option.some.injEq] at h
  subst h
  rw [netCharge_updAtom m n _ a hnd ha]

theorem atom?_setCharge_ne {m m' : Mol} {n x : Nat} {c : Int} (hx : x ≠ n) (h : setCharge m n c = some m') :
    m'.atom? x = m.atom? x := by
  unfold setCharge at h
  split at h
  · simp at h
  · simp only [Option.some.injEq] at h
    subst h
    rw [atom?_updAtom]
    have : (x == n) = false := beq_false_of_ne hx
    cases m.atom? x <;> simp [this]

/-- the `fixed_rules` body on a mapping: either it leaves the molecule alone, or it wrote `0` to the source atom (`mapping[3]`
    if `fix` else `mapping[1]`) and `1` to `mapping[2]` -/
theorem chargeBody_fixed_cases (fix : Bool) (st : CState) (mp : Iso.Dict) (st' : CState)
    (h : chargeBody false fix st mp = some st') :
    st'.mol = st.mol ∨ ∃ s t m1, mp.lookup (if fix then 3 else 1) = some s ∧ mp.lookup 2 = some t ∧
      setCharge st.mol s 0 = some m1 ∧ setCharge m1 t 1 = some st'.mol := by
  unfold chargeBody at h
  simp only at h
  split at h
  · simp only [Option.some.injEq] at h; subst h; exact Or.inl rfl
  · split at h
    · rename_i a1 a2 h1 h2
      split at h
      · simp at h
      · simp only [Option.some.injEq] at h; subst h; exact Or.inl rfl
      · split at h
        · simp at h
        · simp only [Option.some.injEq] at h; subst h; exact Or.inl rfl
        · split at h
          · rename_i hfix
            split at h
            · simp at h
            · rename_i a3 h3
              split at h
              · simp at h
              · rename_i m1 hm1
                simp only [Bool.false_eq_true, if_false] at h
                obtain ⟨m2, hm2, rfl⟩ := Option.map_eq_some_iff.mp h
                exact Or.inr ⟨a3, a2, m1, by simp [hfix, h3], h2, hm1, hm2⟩
          · rename_i hfix
            split at h
            · simp at h
            · rename_i m1 hm1
              simp only [Bool.false_eq_true, if_false] at h
              obtain ⟨m2, hm2, rfl⟩ := Option.map_eq_some_iff.mp h
              exact Or.inr ⟨a1, a2, m1, by simp [hfix, h1], h2, hm1, hm2⟩
    · simp at h

/-! ## one `morgan_rules` application and its deferred `+1` -/

/-- the `morgan_rules` body on a mapping: either nothing happens, or it wrote `0` to the source atom (`mapping[3]` if `fix` else
    `mapping[1]`) and queued the pair `(mapping[1], mapping[2], fix)` -/
theorem chargeBody_morgan_cases (fix : Bool) (st : CState) (mp : Iso.Dict) (st' : CState)
    (h : chargeBody true fix st mp = some st') :
    (st'.mol = st.mol ∧ st'.pairs = st.pairs) ∨ ∃ s a1 a2, mp.lookup (if fix then 3 else 1) = some s ∧ mp.lookup 1 = some a1 ∧
      mp.lookup 2 = some a2 ∧ setCharge st.mol s 0 = some st'.mol ∧ st'.pairs = st.pairs ++ [(a1, a2, fix)] := by
  unfold chargeBody at h
  simp only at h
  split at h
  · simp only [Option.some.injEq] at h; subst h; exact Or.inl ⟨rfl, rfl⟩
  · split at h
    · rename_i a1 a2 h1 h2
      split at h
      · simp at h
      · simp only [Option.some.injEq] at h; subst h; exact Or.inl ⟨rfl, rfl⟩
      · split at h
        · simp at h
        · simp only [Option.some.injEq] at h; subst h; exact Or.inl ⟨rfl, rfl⟩
        · split at h
          · rename_i hfix
            split at h
            · simp at h
            · rename_i a3 h3
              split at h
              · simp at h
              · rename_i m1 hm1
                simp only [if_true, Option.some.injEq] at h
                subst h
                exact Or.inr ⟨a3, a1, a2, by simp [hfix, h3], h1, h2, hm1, by simp [hfix]⟩
          · rename_i hfix
            split at h
            · simp at h
            · rename_i m1 hm1
              simp only [if_true, Option.some.injEq] at h
              subst h
              have hf : fix = false := by simpa using hfix
              exact Or.inr ⟨a1, a1, a2, by simp [hf, h1], h1, h2, hm1, by simp [hf]⟩
    · simp at h

/-- `applyPairs` on one pair: `+1` goes to `a2` or to `a1`, by the ranking -/
theorem applyPairs_one (order : List (Nat × Nat)) (a1 a2 : Nat) (fix : Bool) (m m' : Mol) (ch ch' : List Nat)
    (h : applyPairs order [(a1, a2, fix)] m ch = some (m', ch')) :
    setCharge m a2 1 = some m' ∨ setCharge m a1 1 = some m' := by
  rw [applyPairs] at h
  split at h
  · split at h
    · split at h
      · simp at h
      · rename_i m1 h1
        simp only [applyPairs, Option.some.injEq, Prod.mk.injEq] at h
        exact Or.inl (h.1 ▸ h1)
    · split at h
      · simp at h
      · rename_i m1 h1
        simp only [applyPairs, Option.some.injEq, Prod.mk.injEq] at h
        exact Or.inr (h.1 ▸ h1)
  · simp at h


theorem atom?_setCharge_self {m m' : Mol} {n : Nat} {c : Int} (h : setCharge m n c = some m') :
    ∃ a, m.atom? n = some a ∧ m'.atom? n = some { a with charge := c } := by
  unfold setCharge at h
  split at h
  · simp at h
  · rename_i a ha
    simp only [Option.some.injEq] at h
    subst h
    exact ⟨a, ha, by rw [atom?_updAtom, ha]; simp⟩

/-- writing `+1` on an atom whose current charge is `0` after `0` was written on an atom whose charge was `+1` -/
theorem move_one_charge {m m1 m2 : Mol} {s t : Nat} (hnd : m.ids.Nodup) (as : Atom) (has : m.atom? s = some as) (hs1 : as.charge = 1)
    (h1 : setCharge m s 0 = some m1) (h2 : setCharge m1 t 1 = some m2)
    (ht : t = s ∨ ∃ at', m.atom? t = some at' ∧ at'.charge = 0) : netCharge m2 = netCharge m := by
  have e1 := netCharge_setCharge as hnd has h1
  have hnd1 : m1.ids.Nodup := by rw [setCharge_ids h1]; exact hnd
  by_cases hts : t = s
  · subst hts
    obtain ⟨a, ha, ha1⟩ := atom?_setCharge_self h1
    have e2 := netCharge_setCharge _ hnd1 ha1 h2
    rw [e2, e1, hs1]; simp only; omega
  · rcases ht with rfl | ⟨at', hat, hat0⟩
    · exact absurd rfl hts
    · have hat1 : m1.atom? t = some at' := by rw [atom?_setCharge_ne hts h1]; exact hat
      have e2 := netCharge_setCharge at' hnd1 hat1 h2
      rw [e2, e1, hs1, hat0]; omega

end ChythonModel.Proofs.C14
