import ChythonModel.Proofs.C09SearchR
import ChythonModel.Proofs.C09Layout
import ChythonModel.Proofs.C07Check
namespace ChythonModel.Proofs.C09
open ChythonModel.Model.Bits ChythonModel.Gen.Bits ChythonModel.Model.Query ChythonModel.Model

/-- the objects a structure buffer and a component buffer encode, by array index / by depth in the linearised component -/
def decodeOf (q : LQuery) (m : LMol) (lq : List Iso.Step) : Decode :=
  { mat := fun i => (m.atoms.map Prod.snd).getD i default,
    mdl := fun i => (mdlOf ((m.atoms.map Prod.snd).getD i default).z).getD 0,
    mbd := fun i k => (m.bond? (m.ids.getD i 0) (m.ids.getD k 0)).getD default,
    qat := fun j => (q.atom? ((lq.map Iso.Step.front).getD j 0)).getD default,
    qmdl := fun j => match qmdlFor ((q.atom? ((lq.map Iso.Step.front).getD j 0)).getD default) with | .ok v => v | .error _ => 0,
    qbd := fun j => (q.bond? (((lq[j]?).bind (·.back)).getD 0) ((lq.map Iso.Step.front).getD j 0)).getD default,
    qcb := fun j j' => (q.bond? ((lq.map Iso.Step.front).getD j 0) ((lq.map Iso.Step.front).getD j' 0)).getD default }

theorem getD_of_get {α} (l : List α) (i : Nat) (x d : α) (h : l[i]? = some x) : l.getD i d = x := by
  simp [List.getD, h]

theorem lookup_of_get_nodup {β} (l : List (Nat × β)) (hnd : (l.map (·.1)).Nodup) (i : Nat) (k : Nat) (v : β)
    (h : l[i]? = some (k, v)) : l.lookup k = some v := by
  induction l generalizing i with
  | nil => simp at h
  | cons e rest ih =>
    have hnd' : e.1 ∉ rest.map (·.1) ∧ (rest.map (·.1)).Nodup := by
      rw [List.map_cons] at hnd; exact List.nodup_cons.mp hnd
    cases i with
    | zero => simp at h; subst h; simp [List.lookup_cons]
    | succ i =>
      simp only [List.getElem?_cons_succ] at h
      obtain ⟨k', v'⟩ := e
      have hne : k' ≠ k := by
        intro e'; apply hnd'.1; simp only; rw [e']
        exact List.mem_map.mpr ⟨(k, v), List.mem_of_getElem? h, rfl⟩
      have hb : (k == k') = false := by simp [Ne.symm hne]
      simp only [List.lookup_cons, hb]
      exact ih hnd'.2 i h

/-- a molecule in the shape the encoder expects -/
structure MolOK (m : LMol) : Prop where
  keys : m.adj.map (·.1) = m.ids
  nodup : m.ids.Nodup
  nbrs_nodup : ∀ r ∈ m.adj, (r.2.map (·.1)).Nodup
  nbrs_atoms : ∀ r ∈ m.adj, ∀ kb ∈ r.2, kb.1 ∈ m.ids
  orders : ∀ r ∈ m.adj, ∀ kb ∈ r.2, OrderOk kb.2.order
  dom : ∀ p ∈ m.atoms, ∃ mdl, mdlOf p.2.z = some mdl ∧ ADom mdl p.2

theorem mol_row (m : LMol) (hk : m.adj.map (·.1) = m.ids) (i : Nat) (hi : i < m.atoms.length) :
    ∃ n a ms, m.atoms[i]? = some (n, a) ∧ m.adj[i]? = some (n, ms) := by
  have hlen : m.adj.length = m.atoms.length := by
    have := congrArg List.length hk; simpa [LMol.ids] using this
  have hi' : i < m.adj.length := by omega
  refine ⟨(m.atoms[i]).1, (m.atoms[i]).2, (m.adj[i]).2, List.getElem?_eq_getElem hi, ?_⟩
  have h1 : (m.adj.map (·.1))[i]? = some (m.adj[i]).1 := by simp [List.getElem?_eq_getElem hi']
  have h2 : m.ids[i]? = some (m.atoms[i]).1 := by simp [LMol.ids, List.getElem?_eq_getElem hi]
  rw [hk, h2] at h1
  rw [List.getElem?_eq_getElem hi']
  have := Option.some.inj h1
  rw [this]


theorem mat_eq (q : LQuery) (m : LMol) (lq : List Iso.Step) (i n : Nat) (a : MAtom) (h : m.atoms[i]? = some (n, a)) :
    (decodeOf q m lq).mat i = a := by
  simp only [decodeOf]
  exact getD_of_get _ _ _ _ (by simp [h])

theorem ids_getD (m : LMol) (i n : Nat) (a : MAtom) (h : m.atoms[i]? = some (n, a)) : m.ids.getD i 0 = n :=
  getD_of_get _ _ _ _ (by simp [LMol.ids, h])

theorem rowBonds_get (ids bits1 : List Nat) (ms : List (Nat × MBond)) (bs : List CBond) (h : rowBonds ids bits1 ms = .ok bs) :
    bs.length = ms.length ∧
    ∀ (t : Nat) (ib : CBond), bs[t]? = some ib →
      ∃ k b v, ms[t]? = some (k, b) ∧ indexOf? ids k = some ib.index ∧ bits1[ib.index]? = some v ∧ ib.bond = bondWord v b := by
  unfold rowBonds at h
  refine ⟨mapM_except_length _ _ _ h, ?_⟩
  intro t ib hib
  have hl := mapM_except_length _ _ _ h
  have ht : t < ms.length := by rw [← hl]; exact (List.getElem?_eq_some_iff.mp hib).1
  obtain ⟨y, hy, hr⟩ := mapM_except_get _ _ _ h t ms[t] (List.getElem?_eq_getElem ht)
  rw [hib] at hr
  obtain rfl := Option.some.inj hr
  refine ⟨(ms[t]).1, (ms[t]).2, ?_⟩
  cases hi : indexOf? ids (ms[t]).1 with
  | none => rw [hi] at hy; simp at hy
  | some x =>
    rw [hi] at hy
    simp only at hy
    cases hv : bits1[x]? with
    | none => rw [hv] at hy; simp at hy
    | some v =>
      rw [hv] at hy
      simp only [Except.ok.injEq] at hy
      subst hy
      exact ⟨v, List.getElem?_eq_getElem ht, rfl, hv, rfl⟩

theorem faithful_mol (q : LQuery) (m : LMol) (lq : List Iso.Step) (cm : CMol) (hm : MolOK m) (henc : encStructure m = .ok cm) :
    (∀ i ca, cm.atoms[i]? = some ca →
      wordsOfC ca = atomWords ((decodeOf q m lq).mdl i) ((decodeOf q m lq).mat i) ∧
      ADom ((decodeOf q m lq).mdl i) ((decodeOf q m lq).mat i) ∧
      mdlOf ((decodeOf q m lq).mat i).z = some ((decodeOf q m lq).mdl i)) ∧
    (∀ i ca row, cm.atoms[i]? = some ca → slice? cm.bonds ca.from_ ca.to_ = some row →
      (row.map (·.index)).Nodup ∧
      ∀ ib ∈ row, ib.bond = bondWord (atomV1 ((decodeOf q m lq).mat ib.index)) ((decodeOf q m lq).mbd i ib.index) ∧
        OrderOk ((decodeOf q m lq).mbd i ib.index).order ∧ ib.index < cm.atoms.length) := by
  obtain ⟨hlen, hlay⟩ := encStructure_layout m cm henc hm.keys hm.nodup
  -- per index: the data of atom i
  have hdata : ∀ (i : Nat) (ca : CAtom), cm.atoms[i]? = some ca →
      ∃ (n : Nat) (a : MAtom) (ms : List (Nat × MBond)) (mdl : Nat) (ws : List Words) (bs : List CBond), m.atoms[i]? = some (n, a) ∧ m.adj[i]? = some (n, ms) ∧ mdlOf a.z = some mdl ∧
        wordsOfC ca = atomWords mdl a ∧ molWords m = .ok ws ∧ rowBonds m.ids (ws.map (·.v1)) ms = .ok bs ∧
        slice? cm.bonds ca.from_ ca.to_ = some bs := by
    intro i ca hca
    have hi : i < m.atoms.length := by rw [← hlen]; exact (List.getElem?_eq_some_iff.mp hca).1
    obtain ⟨n, a, ms, h1, h2⟩ := mol_row m hm.keys i hi
    obtain ⟨ca', mdl, ws, bs, g1, g2, g3, _, g5, g6, g7⟩ := hlay i n a ms h1 h2
    rw [hca] at g1; obtain rfl := Option.some.inj g1
    exact ⟨n, a, ms, mdl, ws, bs, h1, h2, g2, g3, g5, g6, g7⟩
  constructor
  · intro i ca hca
    obtain ⟨n, a, ms, mdl, ws, bs, h1, h2, g2, g3, _, _, _⟩ := hdata i ca hca
    have hmat := mat_eq q m lq i n a h1
    have hmdl : (decodeOf q m lq).mdl i = mdl := by
      have : (decodeOf q m lq).mdl i = (mdlOf ((decodeOf q m lq).mat i).z).getD 0 := rfl
      rw [this, hmat, g2]; rfl
    obtain ⟨mdl', hm1, hm2⟩ := hm.dom (n, a) (List.mem_of_getElem? h1)
    simp only at hm1 hm2
    rw [g2] at hm1; obtain rfl := Option.some.inj hm1
    rw [hmat, hmdl]
    exact ⟨g3, hm2, g2⟩
  · intro i ca row hca hrow
    obtain ⟨n, a, ms, mdl, ws, bs, h1, h2, g2, g3, g5, g6, g7⟩ := hdata i ca hca
    rw [hrow] at g7; obtain rfl := Option.some.inj g7
    obtain ⟨hbl, hget⟩ := rowBonds_get m.ids (ws.map (·.v1)) ms row g6
    have hrowmem : (n, ms) ∈ m.adj := List.mem_of_getElem? h2
    have hmsnd := hm.nbrs_nodup (n, ms) hrowmem
    obtain ⟨hwl, hwg⟩ := molWords_get m ws g5
    constructor
    · -- indices are the positions of pairwise distinct neighbour numbers
      rw [List.nodup_iff_injective_getElem]
      intro t1 t2 heq
      obtain ⟨i1, hi1⟩ := t1
      obtain ⟨i2, hi2⟩ := t2
      simp only [List.length_map] at hi1 hi2
      have heq' : (row[i1]'hi1).index = (row[i2]'hi2).index := by simpa using heq
      obtain ⟨k1, b1, _, e1, f1, _, _⟩ := hget i1 (row[i1]'hi1) (List.getElem?_eq_getElem hi1)
      obtain ⟨k2, b2, _, e2, f2, _, _⟩ := hget i2 (row[i2]'hi2) (List.getElem?_eq_getElem hi2)
      have g1 := indexOf_get _ _ _ f1
      have g2 := indexOf_get _ _ _ f2
      rw [heq'] at g1; rw [g1] at g2
      obtain rfl := Option.some.inj g2
      have hk1 : (ms.map (·.1))[i1]? = some k1 := by simp [e1]
      have hk2 : (ms.map (·.1))[i2]? = some k1 := by simp [e2]
      obtain ⟨hl1, g1'⟩ := List.getElem?_eq_some_iff.mp hk1
      obtain ⟨hl2, g2'⟩ := List.getElem?_eq_some_iff.mp hk2
      have := (List.Nodup.getElem_inj_iff hmsnd).mp (g1'.trans g2'.symm)
      exact Fin.ext this
    · intro ib hib
      obtain ⟨t, ht, rfl⟩ := List.mem_iff_getElem.mp hib
      obtain ⟨k, b, v, e1, f1, f2, f3⟩ := hget t row[t] (List.getElem?_eq_getElem ht)
      have hidx := indexOf_get _ _ _ f1
      have hxl : (row[t]).index < m.atoms.length := by
        have := (List.getElem?_eq_some_iff.mp hidx).1; simpa [LMol.ids] using this
      obtain ⟨nx, ax, hax⟩ : ∃ nx ax, m.atoms[(row[t]).index]? = some (nx, ax) :=
        ⟨_, _, List.getElem?_eq_getElem hxl⟩
      have hnx : nx = k := by
        have : m.ids[(row[t]).index]? = some nx := by simp [LMol.ids, hax]
        rw [hidx] at this; exact (Option.some.inj this).symm
      subst hnx
      obtain ⟨mdlx, _, hwx⟩ := hwg _ _ _ hax
      have hv : v = atomV1 ax := by
        have : (ws.map (·.v1))[(row[t]).index]? = some (atomWords mdlx ax).v1 := by simp [hwx]
        rw [f2] at this; exact Option.some.inj this
      have hbd : (decodeOf q m lq).mbd i (row[t]).index = b := by
        simp only [decodeOf]
        rw [ids_getD m i n a h1, ids_getD m _ nx ax hax]
        unfold LMol.bond?
        have hkn : (m.adj.map (·.1)).Nodup := by rw [hm.keys]; exact hm.nodup
        rw [lookup_of_get_nodup m.adj hkn i n ms h2]
        simp only [Option.bind_some]
        rw [lookup_of_get_nodup ms hmsnd t nx b e1]; rfl
      refine ⟨?_, ?_, by rw [hlen]; exact hxl⟩
      · rw [f3, hv, mat_eq q m lq _ nx ax hax, hbd]
      · rw [hbd]; exact hm.orders (n, ms) hrowmem (nx, b) (List.mem_of_getElem? e1)


/-- a query in the shape the encoder expects -/
structure QueryOK (q : LQuery) : Prop where
  dom : ∀ p ∈ q.atoms, QDom p.2
  orders : ∀ r ∈ q.adj, ∀ kb ∈ r.2, ∀ x ∈ kb.2.orders, OrderOk x

theorem lookup_mem' {β} (l : List (Nat × β)) (k : Nat) (v : β) (h : l.lookup k = some v) : (k, v) ∈ l := by
  induction l with
  | nil => simp at h
  | cons e rest ih =>
    obtain ⟨k', v'⟩ := e
    simp only [List.lookup_cons] at h
    by_cases hk : k = k'
    · subst hk; simp at h; subst h; simp
    · have hb : (k == k') = false := by simp [hk]
      simp only [hb] at h
      exact List.mem_cons_of_mem _ (ih h)

theorem qbond_orders (q : LQuery) (hq : QueryOK q) (n k : Nat) (b : QBond) (h : q.bond? n k = some b) : ∀ x ∈ b.orders, OrderOk x := by
  unfold LQuery.bond? at h
  cases hl : q.adj.lookup n with
  | none => rw [hl] at h; simp at h
  | some ms =>
    rw [hl] at h; simp only [Option.bind_some] at h
    exact hq.orders (n, ms) (lookup_mem' _ _ _ hl) (k, b) (lookup_mem' _ _ _ h)

theorem stepMask_ok (q : LQuery) (s : Iso.Step) (w : Words) (h : stepMask q s = .ok w) :
    ∃ (a : QAtom) (b : Option QBond) (qmdl : Nat), q.atom? s.front = some a ∧
      (s.back = none → b = none) ∧ (∀ k, s.back = some k → ∃ qb, q.bond? k s.front = some qb ∧ b = some qb) ∧
      qmdlFor a = .ok qmdl ∧ w = qWords qmdl a b := by
  unfold stepMask at h
  simp only [bind, Except.bind, pure, Except.pure] at h
  cases ha : q.atom? s.front with
  | none => simp [ha] at h
  | some a =>
    simp only [ha] at h
    cases hb : s.back with
    | none =>
      simp only [hb] at h
      cases hm : qmdlFor a with
      | error e => simp [hm] at h
      | ok qmdl =>
        simp only [hm] at h
        split at h
        · simp at h
        · simp only [Except.ok.injEq] at h
          exact ⟨a, none, qmdl, rfl, fun _ => rfl, by intro k hk; simp at hk, hm, h.symm⟩
    | some k =>
      simp only [hb] at h
      cases hqb : q.bond? k s.front with
      | none => simp [hqb] at h
      | some qb =>
        simp only [hqb] at h
        cases hm : qmdlFor a with
        | error e => simp [hm] at h
        | ok qmdl =>
          simp only [hm] at h
          split at h
          · simp at h
          · simp only [Except.ok.injEq] at h
            refine ⟨a, some qb, qmdl, rfl, by intro hk; simp at hk, ?_, hm, h.symm⟩
            intro k' hk'; obtain rfl := Option.some.inj hk'; exact ⟨qb, hqb, rfl⟩


theorem front_getD (lq : List Iso.Step) (j : Nat) (s : Iso.Step) (h : lq[j]? = some s) : (lq.map Iso.Step.front).getD j 0 = s.front :=
  getD_of_get _ _ _ _ (by simp [h])

theorem closureBonds_get (q : LQuery) (fronts : List Nat) (n : Nat) (ms : List Nat) (qb : List CBond)
    (h : closureBonds q fronts n ms = .ok qb) :
    qb.length = ms.length ∧
    ∀ (t : Nat) (jb : CBond), qb[t]? = some jb →
      ∃ mq b, ms[t]? = some mq ∧ q.bond? n mq = some b ∧ indexOf? fronts mq = some jb.index ∧ jb.bond = closureWord b := by
  unfold closureBonds at h
  have hl := mapM_except_length _ _ _ h
  refine ⟨hl, ?_⟩
  intro t jb hjb
  have ht : t < ms.length := by rw [← hl]; exact (List.getElem?_eq_some_iff.mp hjb).1
  obtain ⟨y, hy, hr⟩ := mapM_except_get _ _ _ h t ms[t] (List.getElem?_eq_getElem ht)
  rw [hjb] at hr
  obtain rfl := Option.some.inj hr
  refine ⟨ms[t], ?_⟩
  cases hb : q.bond? n ms[t] with
  | none => rw [hb] at hy; simp at hy
  | some b =>
    cases hi : indexOf? fronts ms[t] with
    | none => rw [hb, hi] at hy; simp at hy
    | some jj =>
      rw [hb, hi] at hy
      simp only [Except.ok.injEq] at hy
      subst hy
      exact ⟨b, List.getElem?_eq_getElem ht, rfl, rfl, rfl⟩

/-- **the encoders produce faithful buffers**: for a molecule and a linearised query component in the shape the encoders expect
    (`MolOK`, `QueryOK`, an accepted linearisation `CompOK` with distinct fronts and closure keys) and pairs inside the documented
    domain, the outputs of `_cython_compiled_structure` and `_cython_compiled_query` encode exactly `decodeOf q m lq` -/
theorem encoders_faithful (q : LQuery) (m : LMol) (cl : Iso.Closures) (lq : List Iso.Step) (cm : CMol) (cq : CQuery)
    (hm : MolOK m) (hq : QueryOK q) (hme : encStructure m = .ok cm) (hqe : encComponent q cl lq = .ok cq)
    (hF : (lq.map (·.front)).Nodup) (hcl : (cl.map (·.1)).Nodup)
    (hcomp : ChythonModel.Proofs.C07.CompOK q.graph cl lq)
    (hpairs : ∀ p ∈ q.atoms, ∀ r ∈ m.atoms, NoHeavyClash p.2 r.2 ∧ HKnown p.2 r.2) :
    Faithful (decodeOf q m lq) cm cq := by
  obtain ⟨hma, hmr⟩ := faithful_mol q m lq cm hm hme
  obtain ⟨hql, hqlay⟩ := encComponent_layout q cl lq cq hqe hF hcl
  -- per depth: the data of step j
  have hstep : ∀ (j : Nat) (qa : CQAtom), cq.atoms[j]? = some qa →
      ∃ (s : Iso.Step) (a : QAtom) (b : Option QBond) (qmdl : Nat) (qb : List CBond),
        lq[j]? = some s ∧ q.atom? s.front = some a ∧ (s.back = none → b = none) ∧
        (∀ k, s.back = some k → ∃ qbd, q.bond? k s.front = some qbd ∧ b = some qbd) ∧
        qmdlFor a = .ok qmdl ∧ wordsOfQ qa = qWords qmdl a b ∧
        slice? cq.bonds qa.from_ qa.to_ = some qb ∧ qb.length = qa.closure ∧
        (∀ ms, cl.lookup s.front = some ms → ms ≠ [] → closureBonds q (lq.map (·.front)) s.front ms = .ok qb) ∧
        ((cl.lookup s.front = none ∨ cl.lookup s.front = some []) → qb = []) := by
    intro j qa hqa
    have hj : j < lq.length := by rw [← hql]; exact (List.getElem?_eq_some_iff.mp hqa).1
    obtain ⟨qa', w, qb, g1, g2, g3, _, _, _, g7, g8, g9, g10⟩ := hqlay j lq[j] (List.getElem?_eq_getElem hj)
    rw [hqa] at g1; obtain rfl := Option.some.inj g1
    obtain ⟨a, b, qmdl, k1, k2, k3, k4, k5⟩ := stepMask_ok q lq[j] w g2
    exact ⟨lq[j], a, b, qmdl, qb, List.getElem?_eq_getElem hj, k1, k2, k3, k4, by rw [← k5]; exact g3, g7, g8, g9, g10⟩
  have hqat : ∀ (j : Nat) (s : Iso.Step) (a : QAtom), lq[j]? = some s → q.atom? s.front = some a → (decodeOf q m lq).qat j = a := by
    intro j s a hs ha
    simp only [decodeOf]; rw [front_getD lq j s hs, ha]; rfl
  have hqmdl : ∀ (j : Nat) (s : Iso.Step) (a : QAtom) (qmdl : Nat), lq[j]? = some s → q.atom? s.front = some a →
      qmdlFor a = .ok qmdl → (decodeOf q m lq).qmdl j = qmdl := by
    intro j s a qmdl hs ha hmm
    simp only [decodeOf]; rw [front_getD lq j s hs, ha]; simp only [Option.getD_some, hmm]
  have hqdomA : ∀ (n : Nat) (a : QAtom), q.atom? n = some a → QDom a := by
    intro n a ha; exact hq.dom (n, a) (lookup_mem' _ _ _ ha)
  constructor
  · exact hma
  · exact hmr
  · -- qatoms
    intro j qa hqa
    obtain ⟨s, a, b, qmdl, qb, h1, h2, h3, h4, h5, h6, _⟩ := hstep (j + 1) qa hqa
    have hst := hcomp.step (j + 1) s h1
    cases hb : s.back with
    | none =>
      have h0 := congrArg List.length (hst.back_none hb)
      have hj : j + 1 < lq.length := (List.getElem?_eq_some_iff.mp h1).1
      simp only [List.length_map, List.length_take, List.length_nil] at h0
      omega
    | some k =>
      obtain ⟨qbd, hk1, hk2⟩ := h4 k hb
      have hqbd : (decodeOf q m lq).qbd (j + 1) = qbd := by
        simp only [decodeOf]
        rw [front_getD lq (j + 1) s h1, h1]
        simp only [Option.bind_some, hb, Option.getD_some, hk1]
      rw [hqat (j + 1) s a h1 h2, hqmdl (j + 1) s a qmdl h1 h2 h5, hqbd, h6, hk2]
      exact ⟨rfl, qbond_orders q hq _ _ _ hk1⟩
  · -- qroot
    intro qa hqa
    obtain ⟨s, a, b, qmdl, qb, h1, h2, h3, h4, h5, h6, _⟩ := hstep 0 qa hqa
    have hst := hcomp.step 0 s h1
    cases hb : s.back with
    | none =>
      rw [hqat 0 s a h1 h2, hqmdl 0 s a qmdl h1 h2 h5, h6, h3 hb]
    | some k =>
      have := (hst.back_some k hb).1
      simp at this
  · -- qdom
    intro j hj
    have hqa : cq.atoms[j]? = some cq.atoms[j] := List.getElem?_eq_getElem hj
    obtain ⟨s, a, b, qmdl, qb, h1, h2, _, _, h5, _⟩ := hstep j _ hqa
    rw [hqat j s a h1 h2, hqmdl j s a qmdl h1 h2 h5]
    exact ⟨hqdomA _ a h2, h5⟩
  · -- qrows
    intro j qa hqa
    obtain ⟨s, a, b, qmdl, qb, h1, h2, _, _, _, _, h7, h8, h9, h10⟩ := hstep j qa hqa
    have hst := hcomp.step j s h1
    refine ⟨qb, h7, h8, ?_⟩
    cases hlk : cl.lookup s.front with
    | none =>
      have := h10 (Or.inl hlk); subst this
      exact ⟨by simp, by intro jb hjb; simp at hjb⟩
    | some ms =>
      by_cases hemp : ms = []
      · subst hemp
        have := h10 (Or.inr hlk); subst this
        exact ⟨by simp, by intro jb hjb; simp at hjb⟩
      · have hcb := h9 ms hlk hemp
        obtain ⟨hl, hget⟩ := closureBonds_get q _ _ ms qb hcb
        have hclget : Iso.Closures.get cl s.front = ms := by simp [Iso.Closures.get, hlk]
        have hmsnd : ms.Nodup := by rw [← hclget]; exact hst.nodup
        have hearlier : ∀ mq ∈ ms, mq ∈ (lq.take j).map (·.front) := by
          intro mq hmq
          have := (hst.cls mq).mp (List.mem_append.mpr (Or.inr (by rw [hclget]; exact hmq)))
          exact this.2
        have hidxlt : ∀ (mq jj : Nat), mq ∈ ms → indexOf? (lq.map (·.front)) mq = some jj → jj < j := by
          intro mq jj hmq hjj
          obtain ⟨t, ht, hte⟩ := List.mem_iff_getElem.mp (hearlier mq hmq)
          simp only [List.length_map, List.length_take] at ht
          have hft : (lq.map (·.front))[t]? = some mq := by
            have : ((lq.take j).map (·.front))[t]? = some mq := by rw [List.getElem?_eq_getElem (by simpa using ht)]; rw [hte]
            rw [List.map_take, List.getElem?_take] at this
            simp only [show t < j by omega, if_true] at this
            exact this
          have := indexOf_nodup _ hF t mq hft
          rw [this] at hjj; obtain rfl := Option.some.inj hjj; omega
        constructor
        · rw [List.nodup_iff_injective_getElem]
          intro t1 t2 heq
          obtain ⟨i1, hi1⟩ := t1
          obtain ⟨i2, hi2⟩ := t2
          simp only [List.length_map] at hi1 hi2
          have heq' : (qb[i1]'hi1).index = (qb[i2]'hi2).index := by simpa using heq
          obtain ⟨m1, _, e1, _, f1, _⟩ := hget i1 (qb[i1]'hi1) (List.getElem?_eq_getElem hi1)
          obtain ⟨m2, _, e2, _, f2, _⟩ := hget i2 (qb[i2]'hi2) (List.getElem?_eq_getElem hi2)
          have g1 := indexOf_get _ _ _ f1
          have g2 := indexOf_get _ _ _ f2
          rw [heq'] at g1; rw [g1] at g2
          obtain rfl := Option.some.inj g2
          obtain ⟨hl1, g1'⟩ := List.getElem?_eq_some_iff.mp e1
          obtain ⟨hl2, g2'⟩ := List.getElem?_eq_some_iff.mp e2
          exact Fin.ext ((List.Nodup.getElem_inj_iff hmsnd).mp (g1'.trans g2'.symm))
        · intro jb hjb
          obtain ⟨t, ht, rfl⟩ := List.mem_iff_getElem.mp hjb
          obtain ⟨mq, bq, e1, e2, e3, e4⟩ := hget t qb[t] (List.getElem?_eq_getElem ht)
          have hmq : mq ∈ ms := List.mem_of_getElem? e1
          have hcb' : (decodeOf q m lq).qcb j (qb[t]).index = bq := by
            simp only [decodeOf]
            rw [front_getD lq j s h1]
            have := indexOf_get _ _ _ e3
            rw [getD_of_get _ _ mq 0 this, e2]; rfl
          exact ⟨hidxlt mq _ hmq e3, by rw [e4, hcb'], by rw [hcb']; exact qbond_orders q hq _ _ _ e2⟩
  · -- pairs
    intro j i hj hi
    have hqa : cq.atoms[j]? = some cq.atoms[j] := List.getElem?_eq_getElem hj
    obtain ⟨s, a, b, qmdl, qb, h1, h2, _⟩ := hstep j _ hqa
    obtain ⟨hlen, _⟩ := encStructure_layout m cm hme hm.keys hm.nodup
    have hi' : i < m.atoms.length := by omega
    have hat : m.atoms[i]? = some (m.atoms[i]) := List.getElem?_eq_getElem hi'
    rw [hqat j s a h1 h2, mat_eq q m lq i (m.atoms[i]).1 (m.atoms[i]).2 hat]
    exact hpairs (s.front, a) (lookup_mem' _ _ _ h2) (m.atoms[i]) (List.getElem_mem _)

end ChythonModel.Proofs.C09
