import ChythonModel.Model.C05Search
import Mathlib.Data.List.Nodup
import Mathlib.Data.List.Perm.Basic
import Mathlib.Data.List.Perm.Subperm
/-!
# C05 — facts about the model of `_kekule_component` (`Model/C05Search.lean`)
-/
namespace ChythonModel.Proofs.C05S
open ChythonModel.Model ChythonModel.Model.C05 ChythonModel.Model.C05S

/-! ## the buffer only reorders -/

theorem feed_perm (pyr : List Nat) (b : Buf) (p : Path) :
    ((feed pyr b p).2 ++ (feed pyr b p).1.held).Perm (b.held ++ [p]) := by
  unfold feed
  split
  · split
    · split
      · simp
      · simp
    · simp only [List.append_nil]
      exact (List.perm_append_comm (l₁ := [p]) (l₂ := b.held))
  · exact List.perm_append_comm

theorem feedAll_perm (pyr : List Nat) : ∀ (ps : List Path) (b : Buf),
    ((feedAll pyr b ps).2 ++ (feedAll pyr b ps).1.held).Perm (b.held ++ ps) := by
  intro ps
  induction ps with
  | nil => intro b; simp [feedAll]
  | cons p ps ih =>
    intro b
    simp only [feedAll]
    have h1 := feed_perm pyr b p
    have h2 := ih (feed pyr b p).1
    -- y1 ++ y2 ++ held2 ~ y1 ++ (held1 ++ ps) ~ (y1 ++ held1) ++ ps ~ held ++ [p] ++ ps
    calc ((feed pyr b p).2 ++ (feedAll pyr (feed pyr b p).1 ps).2) ++ (feedAll pyr (feed pyr b p).1 ps).1.held
        = (feed pyr b p).2 ++ ((feedAll pyr (feed pyr b p).1 ps).2 ++ (feedAll pyr (feed pyr b p).1 ps).1.held) := by
          simp
      _ |>.Perm ((feed pyr b p).2 ++ ((feed pyr b p).1.held ++ ps)) := List.Perm.append_left _ h2
      _ = ((feed pyr b p).2 ++ (feed pyr b p).1.held) ++ ps := by simp
      _ |>.Perm ((b.held ++ [p]) ++ ps) := List.Perm.append_right _ h1
      _ = b.held ++ p :: ps := by simp

/-- everything that was yielded while feeding is one of the complete paths (or was held before) -/
theorem feedAll_sub (pyr : List Nat) (ps : List Path) (b : Buf) :
    ∀ y ∈ (feedAll pyr b ps).2, y ∈ b.held ∨ y ∈ ps := by
  intro y hy
  have := (feedAll_perm pyr ps b).subset (List.mem_append_left _ hy)
  simpa using this

/-! ## a generic induction principle for the search -/

theorem seqBranches_found {β : Type} (f : β → Nat → Res) :
    ∀ (bs : List β) (limit : Nat), ∀ p ∈ (seqBranches bs f limit).found, ∃ b ∈ bs, ∃ lim, p ∈ (f b lim).found := by
  intro bs
  induction bs with
  | nil => intro limit p hp; simp [seqBranches] at hp
  | cons b rest ih =>
    intro limit p hp
    simp only [seqBranches] at hp
    split at hp
    · exact ⟨b, List.mem_cons_self, limit, hp⟩
    · simp only [List.mem_append] at hp
      rcases hp with hp | hp
      · exact ⟨b, List.mem_cons_self, limit, hp⟩
      · obtain ⟨b', hb', lim, h⟩ := ih _ p hp
        exact ⟨b', List.mem_cons_of_mem _ hb', lim, h⟩

/-- If `Inv` holds of the level and path the search is entered with, is kept by the two kinds of recursive call, and
    implies `Q` of a path at the moment it is completed, then every path found satisfies `Q`. -/
theorem explore_found_inv (c : Ctx) (Inv : Level → Path → Prop) (Q : Path → Prop)
    (hdone : ∀ level path e, Inv level path → level.getLast? = some e →
      (path ++ [(e.atom, e.prev, e.bond)]).length = c.size → Q (path ++ [(e.atom, e.prev, e.bond)]))
    (hstart : ∀ level path e, Inv level path → level.getLast? = some e →
      (path ++ [(e.atom, e.prev, e.bond)]).length ≠ c.size → e.atom = c.start →
      Inv level.dropLast (path ++ [(e.atom, e.prev, e.bond)]))
    (hbranch : ∀ level path e ins0 clos branches base b, Inv level path → level.getLast? = some e →
      (path ++ [(e.atom, e.prev, e.bond)]).length ≠ c.size → e.atom ≠ c.start →
      plan c e.atom e.prev e.bond (hashedIn (path ++ [(e.atom, e.prev, e.bond)]))
        (path ++ [(e.atom, e.prev, e.bond)]).length = .go ins0 clos branches →
      removeAll e.atom (insert0 ins0 level.dropLast) clos = some base → b ∈ branches →
      Inv (base ++ b) ((path ++ [(e.atom, e.prev, e.bond)]) ++ clos.map fun x => (x, e.atom, 1)))
    (level : Level) (path : Path) (limit : Nat) (h0 : Inv level path) :
    ∀ p ∈ (explore c level path limit).found, Q p := by
  fun_induction explore c level path limit with
  | case1 level path limit hl => intro p hp; simp at hp
  | case2 level path limit e hl hsz =>
    intro p hp
    simp only [List.mem_singleton] at hp
    subst hp
    exact hdone level path e h0 hl (by simpa using hsz)
  | case3 level path limit e hl hsz hs ih =>
    exact ih (hstart level path e h0 hl (by simpa using hsz) hs)
  | case4 level path limit e hl hsz hs s hp => intro p hp; simp at hp
  | case5 level path limit e hl hsz hs hp => intro p hp; simp at hp
  | case6 level path limit e hl hsz hs ins0 clos branches hp hr => intro p hp; simp at hp
  | case7 level path limit e hl hsz hs ins0 clos branches hp base hr ih =>
    intro p hpf
    obtain ⟨b, _, lim, hb⟩ := seqBranches_found _ _ _ p hpf
    exact ih b lim (hbranch level path e ins0 clos branches base b.1 h0 hl (by simpa using hsz) hs hp hr b.2) p hb

/-- every complete path has exactly `size` entries -/
theorem explore_found_length (c : Ctx) (level : Level) (path : Path) (limit : Nat) :
    ∀ p ∈ (explore c level path limit).found, p.length = c.size :=
  explore_found_inv c (fun _ _ => True) (fun p => p.length = c.size)
    (fun _ _ _ _ _ h => h) (fun _ _ _ _ _ _ _ => trivial) (fun _ _ _ _ _ _ _ _ _ _ _ _ _ _ _ => trivial)
    level path limit trivial

end ChythonModel.Proofs.C05S
