import ChythonModel.Proofs.C03Lenient
/-!
# C03 — the lenient grammar `atom (ringbond | branch)*` (`Spec.L`): acceptance ⇔ membership

* `parse_unprintL` : whatever `parser` accepts (over ring-language tokens, no `((` / `()`) is the printing of a tree
  of the lenient grammar — no condition on ring bonds after `)`.
* `denoteL_of_parse` : a tree whose printing is accepted without a bond from an atom to itself has a denotation.
* shape of printings, and the assembly `accept_iff_lenient` / `accepted_is_denotationL`.
-/
set_option linter.unusedSimpArgs false
set_option linter.unusedVariables false
namespace ChythonModel.Proofs.C03
open ChythonModel.Model.C03 ChythonModel.Spec.Smiles

/-! ## A. inversion -/

/-- continuations of the atoms on the branch stack, innermost first, separated by `)` (lenient grammar) -/
def printStackL : List (L B) → List (Sym B)
  | [] => []
  | [k] => printL k
  | k :: tl => printL k ++ .rpar :: printStackL tl

theorem printStackL_cons (k : L B) (k2 : L B) (tl : List (L B)) :
    printStackL (k :: k2 :: tl) = printL k ++ .rpar :: printStackL (k2 :: tl) := rfl

theorem printStackL_head (pre : List (Sym B)) (k k' : L B) (tl : List (L B))
    (h : printL k' = pre ++ printL k) :
    printStackL (k' :: tl) = pre ++ printStackL (k :: tl) := by
  cases tl with
  | nil => simpa [printStackL] using h
  | cons k2 tl2 => simp [printStackL, h]

theorem nextL_toks (l : Link) (ty : Nat) (a : AtomTok) (k : L B) (tl : List (L B))
    (hty : coreTok (.atom ty a) = true) :
    toToksB (printStackL (.next l (atomOf ty a, []) k :: tl)) =
      toToksB (printLink l) ++ Tok.atom ty a :: toToksB (printStackL (k :: tl)) := by
  rw [printStackL_head (printLink l ++ [.atom (atomOf ty a, [])]) k _ tl (by simp [printL])]
  simp [toToksB, symTokB, tyOf_atomOf ty a hty, atomOf_snd]

theorem sideL_toks (l : Link) (ty : Nat) (a : AtomTok) (ki k0 : L B) (tl : List (L B))
    (hty : coreTok (.atom ty a) = true) :
    toToksB (printStackL (.side l (atomOf ty a, []) ki k0 :: tl)) =
      Tok.lpar :: (toToksB (printLink l) ++ Tok.atom ty a :: toToksB (printStackL (ki :: k0 :: tl))) := by
  rw [printStackL_head (.lpar :: printLink l ++ .atom (atomOf ty a, []) :: printL ki ++ [.rpar])
    k0 _ tl (by simp [printL]), printStackL_cons]
  simp [toToksB, symTokB, tyOf_atomOf ty a hty, atomOf_snd]

theorem ringL_toks (rb : RingBond) (k : L B) (tl : List (L B)) :
    toToksB (printStackL (.ring rb k :: tl)) = toToksB (printRing rb) ++ toToksB (printStackL (k :: tl)) := by
  rw [printStackL_head (printRing rb) k _ tl (by simp [printL])]
  simp [toToksB]

/-- a ring bond in front of the continuation of the innermost atom -/
theorem build_ringL (n : Nat) (rb : RingBond) (pre w : List Tok) (ks : List (L B))
    (hpre : toToksB (printRing rb : List (Sym B)) = pre)
    (hlen : ks.length = n + 1) (hw : w = toToksB (printStackL ks)) :
    ∃ ks' : List (L B), ks'.length = n + 1 ∧ pre ++ w = toToksB (printStackL ks') := by
  match ks, hlen with
  | k :: rest, hlen =>
    refine ⟨.ring rb k :: rest, by simpa using hlen, ?_⟩
    rw [ringL_toks, hw, hpre]

/-- `link atom` in front of the continuation of the new atom -/
theorem build_nextL (n : Nat) (l : Link) (ty : Nat) (a : AtomTok) (pre w : List Tok) (ks : List (L B))
    (hty : coreTok (.atom ty a) = true) (hpre : toToksB (printLink l : List (Sym B)) = pre)
    (hlen : ks.length = n + 1) (hw : w = toToksB (printStackL ks)) :
    ∃ ks' : List (L B), ks'.length = n + 1 ∧ pre ++ Tok.atom ty a :: w = toToksB (printStackL ks') := by
  match ks, hlen with
  | k :: rest, hlen =>
    refine ⟨.next l (atomOf ty a, []) k :: rest, by simpa using hlen, ?_⟩
    rw [nextL_toks l ty a k rest hty, hw, hpre]

/-- `( link atom …` once the rest has been inverted -/
theorem build_sideL (n : Nat) (l : Link) (ty : Nat) (a : AtomTok) (pre : List Tok) (w3 : List Tok)
    (ks : List (L B))
    (hty : coreTok (.atom ty a) = true) (hpre : toToksB (printLink l : List (Sym B)) = pre)
    (hlen : ks.length = (n + 1) + 1) (hw : w3 = toToksB (printStackL ks)) :
    ∃ ks' : List (L B), ks'.length = n + 1 ∧
      Tok.lpar :: (pre ++ Tok.atom ty a :: w3) = toToksB (printStackL ks') := by
  match ks, hlen with
  | ki :: k0 :: rest, hlen =>
    refine ⟨.side l (atomOf ty a, []) ki k0 :: rest, by simpa using hlen, ?_⟩
    rw [sideL_toks l ty a ki k0 rest hty, hw, hpre]

/-- **inversion of the parser for the lenient grammar**: an accepted run from a state between two tokens, ending with
    empty stack and no pending bond, reads one continuation per open branch -/
theorem unprintL (strong : Bool) : ∀ (w : List Tok) (st st' : PState), st.atoms ≠ [] → st.previous = none →
    (∀ t ∈ w, ringTok t = true) → noEmptyOpen w = true →
    prun strong st w = .ok st' → st'.stack = [] → st'.previous = none →
    ∃ ks : List (L B), ks.length = st.stack.length + 1 ∧ w = toToksB (printStackL ks)
  | [], st, st', _, _, _, _, hrun, hst, _ => by
    simp only [prun] at hrun
    cases hrun
    exact ⟨[.done], by simp [hst], rfl⟩
  | t :: w, st, st', hne, hp, hring, hneo, hrun, hst, hpv => by
    obtain ⟨st1, h1, hrun1⟩ := prun_cons_ok hrun
    have hring' : ∀ u ∈ w, ringTok u = true := fun u hu => hring u (by simp [hu])
    have hneo' := noEmptyOpen_tail hneo
    cases t with
    | other ty v => have := hring (.other ty v) (by simp); simp [ringTok, coreTok] at this
    | cyc n =>
      obtain ⟨c1, c2, c3⟩ := pstep_cyc_facts h1
      obtain ⟨ks, hlen, hw⟩ := unprintL strong w st1 st' (by rw [c3]; exact hne) c1 hring' hneo' hrun1 hst hpv
      obtain ⟨ks', hl', hw'⟩ := build_ringL st.stack.length ⟨.none, n⟩ [.cyc n] w ks rfl (by rw [hlen, c2]) hw
      exact ⟨ks', hl', by simpa using hw'⟩
    | rpar =>
      simp only [pstep, hp, Option.isSome_none, Bool.false_eq_true, if_false] at h1
      split at h1
      · cases h1
      · rename_i x tl hstk
        cases h1
        obtain ⟨ks, hlen, hw⟩ := unprintL strong w { st with lastNum := x, stack := tl, previous := none } st' hne rfl
          hring' hneo' hrun1 hst hpv
        refine ⟨.done :: ks, by simp [hlen, hstk], ?_⟩
        cases ks with
        | nil => simp at hlen
        | cons k ktl => rw [printStackL_cons, hw]; simp [printL, toToksB, symTokB]
    | atom ty a =>
      obtain ⟨f1, f2, f3⟩ := pstep_atom_facts hne h1
      obtain ⟨ks, hlen, hw⟩ := unprintL strong w st1 st' f3 f1 hring' hneo' hrun1 hst hpv
      have hty := ringTok_atom (hring (.atom ty a) (by simp))
      obtain ⟨ks', hl', hw'⟩ := build_nextL st.stack.length .implicit ty a [] w ks hty rfl (by rw [hlen, f2]) hw
      exact ⟨ks', hl', by simpa using hw'⟩
    | bond o =>
      simp only [pstep, hp, Option.isSome_none, Bool.false_eq_true, if_false] at h1
      split at h1
      · cases h1
      · cases h1
        cases w with
        | nil => simp only [prun] at hrun1; cases hrun1; cases hpv
        | cons u w2 =>
          obtain ⟨st2, h2, hrun2⟩ := prun_cons_ok hrun1
          have hu := hring' u (by simp)
          have hring2 : ∀ v ∈ w2, ringTok v = true := fun v hv => hring' v (by simp [hv])
          cases u with
          | other ty v => simp [ringTok, coreTok] at hu
          | atom ty a =>
            obtain ⟨f1, f2, f3⟩ := pstep_atom_facts (st := { st with previous := some (.bond o) }) hne h2
            obtain ⟨ks, hlen, hw⟩ := unprintL strong w2 st2 st' f3 f1 hring2 (noEmptyOpen_tail hneo') hrun2 hst hpv
            obtain ⟨ks', hl', hw'⟩ := build_nextL st.stack.length (.explicit o) ty a [.bond o] w2 ks
              (ringTok_atom hu) rfl (by rw [hlen, f2]) hw
            exact ⟨ks', hl', by simpa using hw'⟩
          | cyc n =>
            obtain ⟨c1, c2, c3⟩ := pstep_cyc_facts h2
            obtain ⟨ks, hlen, hw⟩ := unprintL strong w2 st2 st' (by rw [c3]; exact hne) c1 hring2
              (noEmptyOpen_tail hneo') hrun2 hst hpv
            obtain ⟨ks', hl', hw'⟩ := build_ringL st.stack.length ⟨.order o, n⟩ [.bond o, .cyc n] w2 ks rfl
              (by rw [hlen, c2]) hw
            exact ⟨ks', hl', by simpa using hw'⟩
          | _ => simp [pstep] at h2
    | dir b =>
      simp only [pstep, hp, Option.isSome_none, Bool.false_eq_true, if_false] at h1
      split at h1
      · cases h1
      · cases h1
        cases w with
        | nil => simp only [prun] at hrun1; cases hrun1; cases hpv
        | cons u w2 =>
          obtain ⟨st2, h2, hrun2⟩ := prun_cons_ok hrun1
          have hu := hring' u (by simp)
          have hring2 : ∀ v ∈ w2, ringTok v = true := fun v hv => hring' v (by simp [hv])
          cases u with
          | other ty v => simp [ringTok, coreTok] at hu
          | atom ty a =>
            obtain ⟨f1, f2, f3⟩ := pstep_atom_facts (st := { st with previous := some (.dir b) }) hne h2
            obtain ⟨ks, hlen, hw⟩ := unprintL strong w2 st2 st' f3 f1 hring2 (noEmptyOpen_tail hneo') hrun2 hst hpv
            obtain ⟨ks', hl', hw'⟩ := build_nextL st.stack.length (.dir b) ty a [.dir b] w2 ks
              (ringTok_atom hu) rfl (by rw [hlen, f2]) hw
            exact ⟨ks', hl', by simpa using hw'⟩
          | cyc n =>
            obtain ⟨c1, c2, c3⟩ := pstep_cyc_facts h2
            obtain ⟨ks, hlen, hw⟩ := unprintL strong w2 st2 st' (by rw [c3]; exact hne) c1 hring2
              (noEmptyOpen_tail hneo') hrun2 hst hpv
            obtain ⟨ks', hl', hw'⟩ := build_ringL st.stack.length ⟨.dir b, n⟩ [.dir b, .cyc n] w2 ks rfl
              (by rw [hlen, c2]) hw
            exact ⟨ks', hl', by simpa using hw'⟩
          | _ => simp [pstep] at h2
    | dot =>
      simp only [pstep, hp, Option.isSome_none, Bool.false_eq_true, if_false] at h1
      split at h1
      · cases h1
      · cases h1
        cases w with
        | nil => simp only [prun] at hrun1; cases hrun1; cases hpv
        | cons u w2 =>
          obtain ⟨st2, h2, hrun2⟩ := prun_cons_ok hrun1
          have hu := hring' u (by simp)
          have hring2 : ∀ v ∈ w2, ringTok v = true := fun v hv => hring' v (by simp [hv])
          cases u with
          | other ty v => simp [ringTok, coreTok] at hu
          | atom ty a =>
            obtain ⟨f1, f2, f3⟩ := pstep_atom_facts (st := { st with previous := some .dot }) hne h2
            obtain ⟨ks, hlen, hw⟩ := unprintL strong w2 st2 st' f3 f1 hring2 (noEmptyOpen_tail hneo') hrun2 hst hpv
            obtain ⟨ks', hl', hw'⟩ := build_nextL st.stack.length .dot ty a [.dot] w2 ks
              (ringTok_atom hu) rfl (by rw [hlen, f2]) hw
            exact ⟨ks', hl', by simpa using hw'⟩
          | _ => simp [pstep] at h2
    | lpar =>
      simp only [pstep, hp, Option.isSome_none, Bool.false_eq_true, if_false] at h1
      cases h1
      cases w with
      | nil => simp only [prun] at hrun1; cases hrun1; simp at hst
      | cons u w2 =>
        obtain ⟨st2, h2, hrun2⟩ := prun_cons_ok hrun1
        have hu := hring' u (by simp)
        have hring2 : ∀ v ∈ w2, ringTok v = true := fun v hv => hring' v (by simp [hv])
        cases u with
        | other ty v => simp [ringTok, coreTok] at hu
        | cyc n => simp [pstep, hp] at h2
        | lpar => simp [noEmptyOpen, pairOK] at hneo
        | rpar => simp [noEmptyOpen, pairOK] at hneo
        | atom ty a =>
          obtain ⟨f1, f2, f3⟩ := pstep_atom_facts
            (st := { st with stack := st.lastNum :: st.stack, opened := true, previous := none }) hne h2
          obtain ⟨ks, hlen, hw⟩ := unprintL strong w2 st2 st' f3 f1 hring2 (noEmptyOpen_tail hneo') hrun2 hst hpv
          obtain ⟨ks', hl', hw'⟩ := build_sideL st.stack.length .implicit ty a [] w2 ks (ringTok_atom hu) rfl
            (by rw [hlen, f2]; rfl) hw
          exact ⟨ks', hl', by simpa using hw'⟩
        | bond o =>
          simp only [pstep, hp, Option.isSome_none, Bool.false_eq_true, if_false] at h2
          split at h2
          · cases h2
          · cases h2
            cases w2 with
            | nil => simp only [prun] at hrun2; cases hrun2; cases hpv
            | cons u3 w3 =>
              obtain ⟨st3, h3, hrun3⟩ := prun_cons_ok hrun2
              have hu3 := hring2 u3 (by simp)
              cases u3 with
              | other ty v => simp [ringTok, coreTok] at hu3
              | atom ty a =>
                obtain ⟨f1, f2, f3⟩ := pstep_atom_facts
                  (st := { st with stack := st.lastNum :: st.stack, opened := true, previous := some (.bond o) }) hne h3
                obtain ⟨ks, hlen, hw⟩ := unprintL strong w3 st3 st' f3 f1 (fun v hv => hring2 v (by simp [hv]))
                  (noEmptyOpen_tail (noEmptyOpen_tail hneo')) hrun3 hst hpv
                obtain ⟨ks', hl', hw'⟩ := build_sideL st.stack.length (.explicit o) ty a [.bond o] w3 ks
                  (ringTok_atom hu3) rfl (by rw [hlen, f2]; rfl) hw
                exact ⟨ks', hl', by simpa using hw'⟩
              | _ => simp [pstep] at h3
        | dir b =>
          simp only [pstep, hp, Option.isSome_none, Bool.false_eq_true, if_false] at h2
          split at h2
          · cases h2
          · cases h2
            cases w2 with
            | nil => simp only [prun] at hrun2; cases hrun2; cases hpv
            | cons u3 w3 =>
              obtain ⟨st3, h3, hrun3⟩ := prun_cons_ok hrun2
              have hu3 := hring2 u3 (by simp)
              cases u3 with
              | other ty v => simp [ringTok, coreTok] at hu3
              | atom ty a =>
                obtain ⟨f1, f2, f3⟩ := pstep_atom_facts
                  (st := { st with stack := st.lastNum :: st.stack, opened := true, previous := some (.dir b) }) hne h3
                obtain ⟨ks, hlen, hw⟩ := unprintL strong w3 st3 st' f3 f1 (fun v hv => hring2 v (by simp [hv]))
                  (noEmptyOpen_tail (noEmptyOpen_tail hneo')) hrun3 hst hpv
                obtain ⟨ks', hl', hw'⟩ := build_sideL st.stack.length (.dir b) ty a [.dir b] w3 ks
                  (ringTok_atom hu3) rfl (by rw [hlen, f2]; rfl) hw
                exact ⟨ks', hl', by simpa using hw'⟩
              | _ => simp [pstep] at h3
        | dot =>
          simp only [pstep, hp, Option.isSome_none, Bool.false_eq_true, if_false] at h2
          split at h2
          · cases h2
          · cases h2
            cases w2 with
            | nil => simp only [prun] at hrun2; cases hrun2; cases hpv
            | cons u3 w3 =>
              obtain ⟨st3, h3, hrun3⟩ := prun_cons_ok hrun2
              have hu3 := hring2 u3 (by simp)
              cases u3 with
              | other ty v => simp [ringTok, coreTok] at hu3
              | atom ty a =>
                obtain ⟨f1, f2, f3⟩ := pstep_atom_facts
                  (st := { st with stack := st.lastNum :: st.stack, opened := true, previous := some .dot }) hne h3
                obtain ⟨ks, hlen, hw⟩ := unprintL strong w3 st3 st' f3 f1 (fun v hv => hring2 v (by simp [hv]))
                  (noEmptyOpen_tail (noEmptyOpen_tail hneo')) hrun3 hst hpv
                obtain ⟨ks', hl', hw'⟩ := build_sideL st.stack.length .dot ty a [.dot] w3 ks
                  (ringTok_atom hu3) rfl (by rw [hlen, f2]; rfl) hw
                exact ⟨ks', hl', by simpa using hw'⟩
              | _ => simp [pstep] at h3
termination_by w => w.length

/-- **whatever the parser accepts is in the lenient grammar**: a token sequence over atoms, bonds, direction marks,
    dots, parentheses and ring-closure numbers that starts with an atom, has no `((` / `()`, and is accepted by
    `parser`, is the printing of a syntax tree of `atom (ringbond | branch)*` -/
theorem parse_unprintL_gen (strong : Bool) (ty : Nat) (a : AtomTok) (rest : List Tok) (st : PState)
    (hring : ∀ t ∈ Tok.atom ty a :: rest, ringTok t = true)
    (hneo : noEmptyOpen (Tok.atom ty a :: rest) = true)
    (h : parse strong (Tok.atom ty a :: rest) = .ok st) :
    ∃ c : ChainL B, Tok.atom ty a :: rest = toToksB (printChainL c) := by
  unfold parse at h
  simp only [startCheck, Tok.isAtom, if_true] at h
  cases hrun : prun strong {} (Tok.atom ty a :: rest) with
  | error e => rw [hrun] at h; cases h
  | ok st2 =>
    rw [hrun] at h
    dsimp only at h
    obtain ⟨heq, hstk, hprev⟩ := endCheck_ok h
    obtain ⟨st1, h1, hrun1⟩ := prun_cons_ok hrun
    have hfirst : st1.atoms ≠ [] ∧ st1.previous = none ∧ st1.stack = [] := by
      have : pstep strong {} (Tok.atom ty a) = .ok st1 := h1
      simp only [pstep] at this
      cases this
      exact ⟨by simp, rfl, rfl⟩
    obtain ⟨ks, hlen, hw⟩ := unprintL strong rest st1 st2 hfirst.1 hfirst.2.1
      (fun t ht => hring t (by simp [ht])) (noEmptyOpen_tail hneo) hrun1 hstk hprev
    have hty := ringTok_atom (hring (.atom ty a) (by simp))
    match ks, hlen with
    | [k], _ =>
      refine ⟨⟨(atomOf ty a, []), k⟩, ?_⟩
      rw [hw]
      simp [printChainL, toToksB, symTokB, printStackL, tyOf_atomOf ty a hty, atomOf_snd]
    | [], hlen => simp at hlen
    | _ :: _ :: _, hlen => simp [hfirst.2.2] at hlen

theorem parse_unprintL (ty : Nat) (a : AtomTok) (rest : List Tok) (st : PState)
    (hring : ∀ t ∈ Tok.atom ty a :: rest, ringTok t = true)
    (hneo : noEmptyOpen (Tok.atom ty a :: rest) = true)
    (h : parse false (Tok.atom ty a :: rest) = .ok st) :
    ∃ c : ChainL B, Tok.atom ty a :: rest = toToksB (printChainL c) :=
  parse_unprintL_gen false ty a rest st hring hneo h

/-! ## B. completeness -/

theorem toksL_ring (rb : RingBond) (k : L B) :
    toToksB (printL (.ring rb k)) = toToks (printRing rb) ++ toToksB (printL k) := by
  have := toToksB_printRing rb
  simp only [toToksB, toToks] at this
  simp [printL, toToksB, toToks, this]

theorem toksL_next (l : Link) (a : B) (k : L B) :
    toToksB (printL (.next l a k)) = toToksB (printLink l ++ [Sym.atom a]) ++ toToksB (printL k) := by
  simp [printL, toToksB]

theorem toksL_side (l : Link) (a : B) (inner k : L B) :
    toToksB (printL (.side l a inner k)) =
      [Tok.lpar] ++ (toToksB (printLink l ++ [Sym.atom a]) ++ (toToksB (printL inner) ++
        ([Tok.rpar] ++ toToksB (printL k)))) := by
  simp [printL, toToksB, symTokB]

/-- **total simulation for the lenient grammar**: a continuation the spec refuses makes the parser fail or build a
    self-loop -/
theorem prun_printL_none : ∀ (k : L B) (st : PState) (pa : B) (tbl : List (OpenRing B)),
    Ready st pa.1 → PInv st → st.opened = false → CycRel st.cycles tbl → TypesOK st tbl →
    denoteL aromB st.lastNum pa st.atomNum tbl k = none →
    Rejected (prun false st (toToksB (printL k)))
  | .done, st, pa, tbl, hR, hI, hop, hC, hT, hd => by
    simp [denoteL] at hd
  | .ring rb k, st, pa, tbl, hR, hI, hop, hC, hT, hd => by
    rw [toksL_ring]
    unfold denoteL at hd
    cases h1 : ringOne aromB tbl st.lastNum pa rb with
    | none => exact rejected_append st _ _ (ring_one_none st pa rb tbl hR hI hop hC h1)
    | some p1 =>
      obtain ⟨tbl1, b1⟩ := p1
      rw [h1] at hd
      dsimp only at hd
      cases h2 : denoteL aromB st.lastNum pa st.atomNum tbl1 k with
      | some p2 => rw [h2] at hd; cases hd
      | none =>
        obtain ⟨stA, eA, fb, fa, ft, fn, fl, fs, fp, fo, fc⟩ := ring_one_run st pa rb tbl tbl1 b1 hR hI hop hC hT h1
        have hIA : PInv stA := pinv_of_run hI (toToks_noOther _) eA
        have hRA : Ready stA pa.1 := ⟨fp, by rw [fa, fn]; exact hR.alen, by rw [ft, fn]; exact hR.tlen,
          by rw [fl, fn]; exact hR.last, by rw [fl, ft]; exact hR.lty⟩
        have hTA : TypesOK stA tbl1 := by
          intro o ho
          rw [ft]
          exact ringOne_typesOK st pa rb tbl tbl1 b1 hR.lty hT h1 o ho
        have h2' : denoteL aromB stA.lastNum pa stA.atomNum tbl1 k = none := by
          rw [fl, fn]; exact h2
        exact rejected_after st stA _ _ eA (prun_printL_none k stA pa tbl1 hRA hIA fo fc hTA h2')
  | .next l a k, st, pa, tbl, hR, hI, hop, hC, hT, hd => by
    rw [toksL_next]
    unfold denoteL at hd
    cases h2 : denoteL aromB st.atomNum a (st.atomNum + 1) tbl k with
    | some p2 => rw [h2] at hd; cases hd
    | none =>
      obtain ⟨st1, e1, a1, hl1, hR1⟩ := link_atom_plain_run st pa a l tbl hR hI hC hT
      have hn1 : st1.atomNum = st.atomNum + 1 := by rw [a1.num]; rfl
      have h2' : denoteL aromB st1.lastNum a st1.atomNum tbl k = none := by
        rw [hl1, hn1]; exact h2
      exact rejected_after st st1 _ _ e1 (prun_printL_none k st1 a tbl hR1 a1.inv a1.opened a1.cyc a1.tys h2')
  | .side l a inner k, st, pa, tbl, hR, hI, hop, hC, hT, hd => by
    rw [toksL_side]
    -- '('
    obtain ⟨st0, hst0⟩ : ∃ st0 : PState, st0 = { st with stack := st.lastNum :: st.stack, opened := true } := ⟨_, rfl⟩
    have e0 : prun false st [Tok.lpar] = .ok st0 := by
      rw [hst0]; simp [prun, pstep, hR.prev]
    have hI0 : PInv st0 := pinv_of_run hI (by intro t ht; simp at ht; subst ht; rfl) e0
    have n0 : st0.atomNum = st.atomNum := by rw [hst0]
    have l0 : st0.lastNum = st.lastNum := by rw [hst0]
    have a0 : st0.atoms = st.atoms := by rw [hst0]
    have t0 : st0.types = st.types := by rw [hst0]
    have b0 : st0.bonds = st.bonds := by rw [hst0]
    have s0 : st0.stack = st.lastNum :: st.stack := by rw [hst0]
    have c0 : st0.cycles = st.cycles := by rw [hst0]
    have hR0 : Ready st0 pa.1 := by rw [hst0]; exact ⟨hR.prev, hR.alen, hR.tlen, hR.last, hR.lty⟩
    clear hst0
    have hC0 : CycRel st0.cycles tbl := by rw [c0]; exact hC
    have hT0 : TypesOK st0 tbl := by intro o ho; rw [t0]; exact hT o ho
    refine rejected_after st st0 _ _ e0 ?_
    unfold denoteL at hd
    obtain ⟨st1, e1, a1, hl1, hR1⟩ := link_atom_plain_run st0 pa a l tbl hR0 hI0 hC0 hT0
    have hn1 : st1.atomNum = st.atomNum + 1 := by rw [a1.num, n0]; rfl
    rw [n0] at hl1
    refine rejected_after st0 st1 _ _ e1 ?_
    cases h2 : denoteL aromB st.atomNum a (st.atomNum + 1) tbl inner with
    | none =>
      have h2' : denoteL aromB st1.lastNum a st1.atomNum tbl inner = none := by
        rw [hl1, hn1]; exact h2
      exact rejected_append st1 _ _ (prun_printL_none inner st1 a tbl hR1 a1.inv a1.opened a1.cyc a1.tys h2')
    | some p2 =>
      obtain ⟨as1, bs1, tbl2⟩ := p2
      rw [h2] at hd
      dsimp only at hd
      have h2' : denoteL aromB st1.lastNum a st1.atomNum tbl inner = some (as1, bs1, tbl2) := by
        rw [hl1, hn1]; exact h2
      obtain ⟨st2, e2, a2, _⟩ := prun_printL inner st1 a tbl as1 bs1 tbl2 hR1 a1.inv a1.opened a1.cyc a1.tys h2'
      refine rejected_after st1 st2 _ _ e2 ?_
      cases h3 : denoteL aromB st.lastNum pa (st.atomNum + 1 + as1.length) tbl2 k with
      | some p3 => rw [h3] at hd; cases hd
      | none =>
        -- ')'
        have hstack : st2.stack = st.lastNum :: st.stack := by rw [a2.stack, a1.stack, s0]
        obtain ⟨st3, hst3⟩ : ∃ st3 : PState, st3 = { st2 with lastNum := st.lastNum, stack := st.stack } := ⟨_, rfl⟩
        have e3 : prun false st2 [Tok.rpar] = .ok st3 := by
          rw [hst3]; simp [prun, pstep, a2.prev, hstack]
        have hI3 : PInv st3 := pinv_of_run a2.inv (by intro t ht; simp at ht; subst ht; rfl) e3
        have n3 : st3.atomNum = st2.atomNum := by rw [hst3]
        have l3 : st3.lastNum = st.lastNum := by rw [hst3]
        have a3 : st3.atoms = st2.atoms := by rw [hst3]
        have t3 : st3.types = st2.types := by rw [hst3]
        have c3 : st3.cycles = st2.cycles := by rw [hst3]
        have p3 : st3.previous = st2.previous := by rw [hst3]
        have o3 : st3.opened = st2.opened := by rw [hst3]
        clear hst3
        have a12 := a1.trans a2
        have hnum2 : st2.atomNum = st.atomNum + 1 + as1.length := by rw [a12.num, n0]; simp; omega
        have hty2 : st2.types = st.types ++ (tyOf a.1 :: as1.map (fun b => tyOf b.1)) := by rw [a12.types, t0]; simp
        have hat2 : st2.atoms = st.atoms ++ (strip a.1 :: as1.map (fun b => strip b.1)) := by rw [a12.atoms, a0]; simp
        have hR3 : Ready st3 pa.1 := by
          refine ⟨by rw [p3]; exact a2.prev, ?_, ?_, ?_, ?_⟩
          · rw [a3, n3, hat2, hnum2]; simp [hR.alen]; omega
          · rw [t3, n3, hty2, hnum2]; simp [hR.tlen]; omega
          · rw [l3, n3, hnum2]; have := hR.last; omega
          · rw [l3, t3, hty2]; exact getElem?_append_left' _ _ _ _ hR.lty
        have hC3 : CycRel st3.cycles tbl2 := by rw [c3]; exact a2.cyc
        have hT3 : TypesOK st3 tbl2 := by intro o ho; rw [t3]; exact a2.tys o ho
        have h3' : denoteL aromB st3.lastNum pa st3.atomNum tbl2 k = none := by
          rw [l3, n3, hnum2]; exact h3
        exact rejected_after st2 st3 _ _ e3
          (prun_printL_none k st3 pa tbl2 hR3 hI3 (by rw [o3]; exact a2.opened) hC3 hT3 h3')

/-- a tree without a denotation: the run over its printing fails, builds a self-loop, or leaves a ring open -/
theorem denoteL_none_run (c : ChainL B) (hd : denoteChainL aromB c = none) :
    Rejected (prun false {} (toToksB (printChainL c))) ∨
      ∃ st, prun false {} (toToksB (printChainL c)) = .ok st ∧ st.cycles ≠ [] := by
  obtain ⟨a0, k⟩ := c
  have htoks : toToksB (printChainL ⟨a0, k⟩) = [Tok.atom (tyOf a0.1) a0.1.2] ++ toToksB (printL k) := by
    simp [printChainL, toToksB, symTokB]
  rw [htoks]
  -- first atom
  obtain ⟨st1, hst1⟩ : ∃ st1 : PState, pstep false {} (Tok.atom (tyOf a0.1) a0.1.2) = .ok st1 ∧
      st1.atoms = [strip a0.1] ∧ st1.types = [tyOf a0.1] ∧ st1.bonds = [] ∧ st1.atomNum = 1 ∧ st1.lastNum = 0 ∧
      st1.stack = [] ∧ st1.cycles = [] ∧ st1.previous = none ∧ st1.opened = false :=
    ⟨_, rfl, rfl, rfl, rfl, rfl, rfl, rfl, rfl, rfl, rfl⟩
  obtain ⟨e1, a1, t1, b1, n1, l1, s1, c1, p1, o1⟩ := hst1
  have hI1 : PInv st1 := by
    obtain ⟨st1', h1', hinv⟩ := first_atom_inv false (tyOf a0.1) a0.1.2 [] false (by simp)
    have : st1' = st1 := by
      have e1' : pstep false { stack := [], opened := false } (Tok.atom (tyOf a0.1) a0.1.2) = .ok st1 := e1
      rw [h1'] at e1'; cases e1'; rfl
    rw [← this]; exact hinv
  have hR1 : Ready st1 a0.1 := ⟨p1, by rw [a1, n1]; rfl, by rw [t1, n1]; rfl, by rw [l1, n1]; exact Nat.one_pos,
    by rw [l1, t1]; rfl⟩
  have hC1 : CycRel st1.cycles ([] : List (OpenRing B)) := by rw [c1]; trivial
  have hT1 : TypesOK st1 [] := by intro o ho; cases ho
  have er1 : prun false {} [Tok.atom (tyOf a0.1) a0.1.2] = .ok st1 := by simp only [prun, e1]
  unfold denoteChainL at hd
  dsimp only at hd
  cases h1 : denoteL aromB 0 a0 1 [] k with
  | none =>
    left
    have h1' : denoteL aromB st1.lastNum a0 st1.atomNum [] k = none := by
      rw [l1, n1]; exact h1
    exact rejected_after _ st1 _ _ er1 (prun_printL_none k st1 a0 [] hR1 hI1 o1 hC1 hT1 h1')
  | some q1 =>
    obtain ⟨as, bs, tbl⟩ := q1
    rw [h1] at hd
    dsimp only at hd
    have h1' : denoteL aromB st1.lastNum a0 st1.atomNum [] k = some (as, bs, tbl) := by
      rw [l1, n1]; exact h1
    obtain ⟨st2, e2, a2, _⟩ := prun_printL k st1 a0 [] as bs tbl hR1 hI1 o1 hC1 hT1 h1'
    right
    refine ⟨st2, ?_, ?_⟩
    · rw [prun_append, er1]
      exact e2
    · intro hcy
      have hcr := a2.cyc
      rw [hcy] at hcr
      have htbl := cycRel_nil_left tbl hcr
      rw [htbl] at hd
      simp at hd

/-- **the converse of `parse_printL`**: if the parser accepts the printing of a tree of the lenient grammar and built
    no bond from an atom to itself, the tree has a denotation -/
theorem denoteL_of_parse (c : ChainL B) (st : PState)
    (h : parse false (toToksB (printChainL c)) = .ok st) (hl : loopFree st.bonds) :
    ∃ g, denoteChainL aromB c = some g := by
  cases hd : denoteChainL aromB c with
  | some g => exact ⟨g, rfl⟩
  | none =>
    exfalso
    obtain ⟨hr, hc⟩ := parse_ok_run _ st h
    rcases denoteL_none_run c hd with hrej | ⟨st', hr', hne⟩
    · rw [hr] at hrej
      obtain ⟨b, hb, e⟩ := hrej
      exact hl b hb e
    · rw [hr] at hr'
      cases hr'
      exact hne hc

/-! ## C. shape of the printings -/

theorem toksL_done : toToksB (printL (.done : L B)) = [] := rfl

theorem toksL_ring' (rb : RingBond) (k : L B) :
    toToksB (printL (.ring rb k)) = toToksB (printRing rb : List (Sym B)) ++ toToksB (printL k) := by
  simp [printL, toToksB]

theorem toksL_next' (l : Link) (a : B) (rest : L B) :
    toToksB (printL (.next l a rest)) =
      toToksB (printLink l) ++ Tok.atom (tyOf a.1) a.1.2 :: toToksB (printL rest) := by
  simp [printL, toToksB, symTokB]

theorem toksL_side' (l : Link) (a : B) (inner rest : L B) :
    toToksB (printL (.side l a inner rest)) =
      Tok.lpar :: (toToksB (printLink l) ++ Tok.atom (tyOf a.1) a.1.2 ::
        (toToksB (printL inner) ++ Tok.rpar :: toToksB (printL rest))) := by
  simp [printL, toToksB, symTokB]

theorem toksChainL (c : ChainL B) :
    toToksB (printChainL c) = Tok.atom (tyOf c.start.1) c.start.1.2 :: toToksB (printL c.k) := by
  simp [printChainL, toToksB, symTokB]

theorem printChainL_starts_atom (c : ChainL B) : ∃ ty a rest, toToksB (printChainL c) = Tok.atom ty a :: rest :=
  ⟨_, _, _, toksChainL c⟩

theorem printChainL_ringTok (c : ChainL B) : ∀ t ∈ toToksB (printChainL c), ringTok t = true :=
  toToksB_ringTok _

theorem toksRing_ne_lpar (rb : RingBond) : ∀ t ∈ toToksB (printRing rb : List (Sym B)), t ≠ Tok.lpar := by
  intro t ht
  rcases toksRing_cases rb with h | ⟨o, h⟩ | ⟨b, h⟩ <;> rw [h] at ht <;> simp at ht <;>
    rcases ht with rfl | rfl <;> simp

theorem printL_noEmptyOpen : ∀ (k : L B) (tail : List Tok), noEmptyOpen tail = true →
    noEmptyOpen (toToksB (printL k) ++ tail) = true
  | .done, tail, h => by simpa [toksL_done] using h
  | .ring rb rest, tail, h => by
    rw [toksL_ring', List.append_assoc, noEmptyOpen_append_ne _ (toksRing_ne_lpar rb)]
    exact printL_noEmptyOpen rest tail h
  | .next l a rest, tail, h => by
    rw [toksL_next']
    simp only [List.append_assoc, List.cons_append]
    rw [noEmptyOpen_append_ne _ (toksLink_ne_lpar l), noEmptyOpen_cons_ne (by simp)]
    exact printL_noEmptyOpen rest tail h
  | .side l a inner rest, tail, h => by
    rw [toksL_side']
    simp only [List.append_assoc, List.cons_append]
    have e := noEmptyOpen_lpar_link_atom l (tyOf a.1) a.1.2 []
      (toToksB (printL inner) ++ Tok.rpar :: (toToksB (printL rest) ++ tail))
    have e0 : toToksB (printRings [] : List (Sym B)) = [] := rfl
    rw [e0, List.nil_append] at e
    rw [e]
    apply printL_noEmptyOpen inner
    rw [noEmptyOpen_cons_ne (by simp)]
    exact printL_noEmptyOpen rest tail h

theorem printChainL_noEmptyOpen (c : ChainL B) : noEmptyOpen (toToksB (printChainL c)) = true := by
  rw [toksChainL, noEmptyOpen_cons_ne (by simp)]
  simpa using printL_noEmptyOpen c.k [] rfl

/-! ## D. assembly -/

/-- the language of the lenient grammar: printings of trees that have a denotation which is a simple graph with valid
    bond orders -/
def InLanguageL (toks : List Tok) : Prop :=
  ∃ (c : ChainL B) (g : Graph B), toks = toToksB (printChainL c) ∧ denoteChainL aromB c = some g ∧
    simpleBonds g.bonds = true ∧ ∀ b ∈ g.bonds, validOrder b.2.2 = true

/-- **acceptance ⇔ lenient grammar + ring-closure discipline** (no condition on ring bonds after `)`) -/
theorem accept_iff_lenient (ty : Nat) (a : AtomTok) (rest : List Tok)
    (hring : ∀ t ∈ Tok.atom ty a :: rest, ringTok t = true)
    (hneo : noEmptyOpen (Tok.atom ty a :: rest) = true) :
    (∃ st, parse false (Tok.atom ty a :: rest) = .ok st ∧ bondsBuild st) ↔
      InLanguageL (Tok.atom ty a :: rest) := by
  have hn : ∀ t ∈ Tok.atom ty a :: rest, noOther t = true := fun t ht => ringTok_noOther (hring t ht)
  constructor
  · rintro ⟨st, h, hb⟩
    obtain ⟨hs, hv⟩ := (bondsBuild_iff _ st (by simp) hn h).mp hb
    have hl : loopFree st.bonds := fun b hb => ((simpleBonds_iff st.bonds).mp hs).1 b hb
    obtain ⟨c, hc⟩ := parse_unprintL ty a rest st hring hneo h
    have h' : parse false (toToksB (printChainL c)) = .ok st := by rw [← hc]; exact h
    obtain ⟨g, hg⟩ := denoteL_of_parse c st h' hl
    obtain ⟨st2, e2, _, _, eb⟩ := parse_printL c g hg
    rw [h'] at e2; cases e2
    exact ⟨c, g, hc, hg, by rw [← eb]; exact hs, by rw [← eb]; exact hv⟩
  · rintro ⟨c, g, hc, hg, hs, hv⟩
    obtain ⟨st, e, _, _, eb⟩ := parse_printL c g hg
    rw [← hc] at e
    refine ⟨st, e, (bondsBuild_iff _ st (by simp) hn e).mpr ⟨by rw [eb]; exact hs, by rw [eb]; exact hv⟩⟩

/-- and then the graph built is the denoted one -/
theorem accepted_is_denotationL (ty : Nat) (a : AtomTok) (rest : List Tok) (st : PState)
    (hring : ∀ t ∈ Tok.atom ty a :: rest, ringTok t = true)
    (hneo : noEmptyOpen (Tok.atom ty a :: rest) = true)
    (h : parse false (Tok.atom ty a :: rest) = .ok st) (hb : bondsBuild st) :
    ∃ (c : ChainL B) (g : Graph B), Tok.atom ty a :: rest = toToksB (printChainL c) ∧
      denoteChainL aromB c = some g ∧ st.atoms = g.atoms.map (fun b => strip b.1) ∧
      st.types = g.atoms.map (fun b => tyOf b.1) ∧ st.bonds = g.bonds := by
  have hn : ∀ t ∈ Tok.atom ty a :: rest, noOther t = true := fun t ht => ringTok_noOther (hring t ht)
  obtain ⟨hs, _⟩ := (bondsBuild_iff _ st (by simp) hn h).mp hb
  have hl : loopFree st.bonds := fun b hb => ((simpleBonds_iff st.bonds).mp hs).1 b hb
  obtain ⟨c, hc⟩ := parse_unprintL ty a rest st hring hneo h
  have h' : parse false (toToksB (printChainL c)) = .ok st := by rw [← hc]; exact h
  obtain ⟨g, hg⟩ := denoteL_of_parse c st h' hl
  obtain ⟨st2, e2, ea, et, eb⟩ := parse_printL c g hg
  rw [h'] at e2; cases e2
  exact ⟨c, g, hc, hg, ea, et, eb⟩

end ChythonModel.Proofs.C03
