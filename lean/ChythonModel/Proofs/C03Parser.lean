import ChythonModel.Proofs.C03Tokenize
import ChythonModel.Model.C03Parser
/-!
# C03 — invariants of `parser` (helper lemmas)
-/
set_option linter.unusedSimpArgs false
namespace ChythonModel.Proofs.C03
open ChythonModel.Model.C03 ChythonModel.Gen.C03

/-! ## the `order` table -/

theorem orderGet_append_len (o : Order) (k k' : Nat) (v : Option Nat) :
    (orderGet (orderAppend o k v) k').length = (orderGet o k').length + (if k = k' then 1 else 0) := by
  induction o with
  | nil =>
    by_cases h : k = k' <;> simp [orderAppend, orderGet, lookupNat, h]
  | cons p tl ih =>
    obtain ⟨a, l⟩ := p
    unfold orderAppend
    by_cases ha : a = k
    · subst ha
      by_cases h : a = k' <;> simp [orderGet, lookupNat, h]
    · have : (a == k) = false := by simpa using ha
      simp only [this, Bool.false_eq_true, if_false]
      by_cases h : a = k'
      · subst h
        have hk : ¬ k = a := fun e => ha e.symm
        simp [orderGet, lookupNat, hk]
      · have h2 : (a == k') = false := by simpa using h
        simp only [orderGet, lookupNat, h2, Bool.false_eq_true, if_false] at ih ⊢
        exact ih

theorem orderGet_append_le (o : Order) (k k' : Nat) (v : Option Nat) :
    (orderGet o k').length ≤ (orderGet (orderAppend o k v) k').length := by
  rw [orderGet_append_len]; omega

theorem orderSet_some (o : Order) (k i : Nat) (v : Option Nat) (h : i < (orderGet o k).length) :
    ∃ o', orderSet o k i v = some o' ∧ ∀ k', (orderGet o' k').length = (orderGet o k').length := by
  induction o with
  | nil => simp [orderGet, lookupNat] at h
  | cons p tl ih =>
    obtain ⟨a, l⟩ := p
    unfold orderSet
    by_cases ha : a = k
    · subst ha
      simp only [orderGet, lookupNat, beq_self_eq_true, if_true, Option.getD_some] at h
      simp only [beq_self_eq_true, if_true, h]
      refine ⟨_, rfl, ?_⟩
      intro k'
      by_cases h2 : a = k' <;> simp [orderGet, lookupNat, h2]
    · have hf : (a == k) = false := by simpa using ha
      simp only [orderGet, lookupNat, hf, Bool.false_eq_true, if_false] at h ⊢
      obtain ⟨o', ho, hl⟩ := ih h
      rw [ho]
      refine ⟨_, rfl, ?_⟩
      intro k'
      by_cases h2 : a = k'
      · simp [orderGet, lookupNat, h2]
      · have h3 : (a == k') = false := by simpa using h2
        simpa [orderGet, lookupNat, h3] using hl k'

/-! ## the parser invariant (at least one atom read) -/

structure PInv (st : PState) : Prop where
  pos : 0 < st.atoms.length
  types : st.types.length = st.atoms.length
  num : st.atomNum = st.atoms.length
  last : st.lastNum < st.atoms.length
  stack : ∀ x ∈ st.stack, x < st.atoms.length
  bonds : ∀ b ∈ st.bonds, b.1 < st.atoms.length ∧ b.2.1 < st.atoms.length
  cycles : ∀ p ∈ st.cycles, p.2.atom < st.atoms.length ∧ p.2.ind < (orderGet st.order p.2.atom).length ∧
    p.2.bond ≠ some .dot

/-- result of a parser step: a state satisfying the invariant or a library error -/
def PGood : Except Err PState → Prop
  | .ok st => PInv st
  | .error e => e.isCrash = false

theorem pgood_lib (c m : String) : PGood (.error (.lib c m)) := rfl

theorem lookupNat_mem {β} (k : Nat) (l : List (Nat × β)) (v : β) (h : lookupNat k l = some v) : (k, v) ∈ l := by
  induction l with
  | nil => simp [lookupNat] at h
  | cons p tl ih =>
    obtain ⟨a, b⟩ := p
    unfold lookupNat at h
    split at h
    · rename_i hab
      simp only [beq_iff_eq] at hab
      cases h; simp [hab]
    · simp [ih h]

theorem eraseKey_sub {β} (k : Nat) (l : List (Nat × β)) : ∀ p ∈ eraseKey k l, p ∈ l := by
  induction l with
  | nil => simp [eraseKey]
  | cons q tl ih =>
    obtain ⟨a, b⟩ := q
    intro p hp
    unfold eraseKey at hp
    split at hp
    · simp [hp]
    · simp only [List.mem_cons] at hp ⊢
      rcases hp with rfl | hp
      · exact Or.inl rfl
      · exact Or.inr (ih p hp)

theorem getElem?_some_of_lt {α} (l : List α) (i : Nat) (h : i < l.length) : ∃ x, l[i]? = some x :=
  ⟨l[i], by simp [h]⟩

/-- closing a ring never raises a non-library exception -/
theorem closeBond_nocrash (st : PState) (strong : Bool) (c : Cyc) (h : PInv st) (ha : c.atom < st.atoms.length)
    (hb : c.bond ≠ some .dot) (hp : st.previous ≠ some .dot) :
    (∃ r, closeBond st strong c = .ok r) ∨ (∃ cl m, closeBond st strong c = .error (.lib cl m)) := by
  obtain ⟨x, hx⟩ := getElem?_some_of_lt st.types st.lastNum (by rw [h.types]; exact h.last)
  obtain ⟨y, hy⟩ := getElem?_some_of_lt st.types c.atom (by rw [h.types]; exact ha)
  unfold closeBond
  dsimp only
  cases hcb : c.bond with
  | none =>
    cases hpv : st.previous with
    | none => simp [hx, hy]
    | some pv =>
      cases pv with
      | bond b => by_cases hs : strong = true <;> simp [hs, notEqual, smilesErr]
      | dot => exact absurd hpv hp
      | dir b => simp [hx, hy]
  | some ob =>
    cases ob with
    | dot => exact absurd hcb hb
    | bond o =>
      cases hpv : st.previous with
      | none => by_cases hs : strong = true <;> simp [hs, notEqual, smilesErr]
      | some pv =>
        cases pv with
        | bond b => by_cases hbo : b = o <;> simp [hbo, notEqual, smilesErr]
        | dot => exact absurd hpv hp
        | dir b => by_cases ho : o = 1 <;> simp [ho, notEqual, smilesErr]
    | dir o =>
      cases hpv : st.previous with
      | none => simp [hx, hy]
      | some pv =>
        cases pv with
        | bond b => by_cases hb1 : b = 1 <;> simp [hb1, notEqual, smilesErr]
        | dot => exact absurd hpv hp
        | dir b => simp [hx, hy]

theorem mem_append_single {α} {l : List α} {x y : α} (h : y ∈ l ++ [x]) : y ∈ l ∨ y = x := by
  simpa using h

/-- **one parser step preserves the invariant and never reaches a non-library exception** -/
theorem pstep_inv (strong : Bool) (st : PState) (t : Tok) (h : PInv st) (hn : noOther t = true) :
    PGood (pstep strong st t) := by
  cases t with
  | other ty v => cases hn
  | lpar =>
    simp only [pstep]
    split
    · exact pgood_lib _ _
    · refine ⟨h.pos, h.types, h.num, h.last, ?_, h.bonds, h.cycles⟩
      intro x hx
      simp only [List.mem_cons] at hx
      rcases hx with rfl | hx
      · exact h.last
      · exact h.stack x hx
  | rpar =>
    simp only [pstep]
    split
    · exact pgood_lib _ _
    · split
      · exact pgood_lib _ _
      · rename_i x tl heq
        exact ⟨h.pos, h.types, h.num, h.stack x (by simp [heq]), fun y hy => h.stack y (by simp [heq, hy]),
          h.bonds, h.cycles⟩
  | bond o =>
    simp only [pstep]
    split
    · exact pgood_lib _ _
    · split
      · exact pgood_lib _ _
      · exact ⟨h.pos, h.types, h.num, h.last, h.stack, h.bonds, h.cycles⟩
  | dot =>
    simp only [pstep]
    split
    · exact pgood_lib _ _
    · split
      · exact pgood_lib _ _
      · exact ⟨h.pos, h.types, h.num, h.last, h.stack, h.bonds, h.cycles⟩
  | dir b =>
    simp only [pstep]
    split
    · exact pgood_lib _ _
    · split
      · exact pgood_lib _ _
      · exact ⟨h.pos, h.types, h.num, h.last, h.stack, h.bonds, h.cycles⟩
  | cyc n =>
    simp only [pstep]
    split
    · exact pgood_lib _ _
    · rename_i hpd
      have hpd' : st.previous ≠ some .dot := by simpa using hpd
      split
      · exact pgood_lib _ _
      split
      · -- open
        refine ⟨h.pos, h.types, h.num, h.last, h.stack, h.bonds, ?_⟩
        intro p hp
        rcases mem_append_single hp with hp | rfl
        · obtain ⟨h1, h2, h3⟩ := h.cycles p hp
          exact ⟨h1, Nat.lt_of_lt_of_le h2 (orderGet_append_le _ _ _ _), h3⟩
        · refine ⟨h.last, ?_, hpd'⟩
          dsimp only
          rw [orderGet_append_len]; simp
      · -- close
        rename_i c hc
        have hmem := lookupNat_mem n st.cycles c hc
        obtain ⟨hca, hci, hcb⟩ := h.cycles _ hmem
        rcases closeBond_nocrash st strong c h hca hcb hpd' with ⟨r, hr⟩ | ⟨cl, m, hr⟩
        · rw [hr]
          obtain ⟨b, sb, pv, lg⟩ := r
          dsimp only
          obtain ⟨o', ho, hlen⟩ := orderSet_some st.order c.atom c.ind (some st.lastNum) hci
          rw [ho]
          dsimp only
          refine ⟨h.pos, h.types, h.num, h.last, h.stack, ?_, ?_⟩
          · intro x hx
            rcases mem_append_single hx with hx | rfl
            · exact h.bonds x hx
            · exact ⟨h.last, hca⟩
          · intro p hp
            obtain ⟨h1, h2, h3⟩ := h.cycles p (eraseKey_sub n st.cycles p hp)
            refine ⟨h1, ?_, h3⟩
            dsimp only
            refine Nat.lt_of_lt_of_le ?_ (orderGet_append_le _ _ _ _)
            rw [hlen]; exact h2
        · rw [hr]; exact pgood_lib _ _
  | atom ty tok =>
    have hne : st.atoms.isEmpty = false := by
      have := h.pos
      cases hk : st.atoms with
      | nil => simp [hk] at this
      | cons _ _ => rfl
    obtain ⟨tl, htl⟩ := getElem?_some_of_lt st.types st.lastNum (by rw [h.types]; exact h.last)
    have key : ∀ (bs : List (Nat × Nat × Nat)) (ord : Order) (sb : SBonds) (pv : Option PB) (sa : List (Nat × Bool)) (ss : List Nat) (op : Bool),
        (∀ b ∈ bs, b.1 < st.atoms.length + 1 ∧ b.2.1 < st.atoms.length + 1) →
        (∀ k', (orderGet st.order k').length ≤ (orderGet ord k').length) →
        PInv { st with bonds := bs, order := ord, stereoBonds := sb, previous := pv, stereoAtoms := sa, starts := ss, opened := op,
                       atoms := st.atoms ++ [{ tok with stereo := none }], types := st.types ++ [ty],
                       lastNum := st.atomNum, atomNum := st.atomNum + 1 } := by
      intro bs ord sb pv sa ss op hbs hord
      refine ⟨by simp, by simp [h.types], by simp [h.num], by simp [h.num], ?_, ?_, ?_⟩
      · intro x hx; have := h.stack x hx; simp; omega
      · intro b hb; simpa using hbs b hb
      · intro p hp
        obtain ⟨h1, h2, h3⟩ := h.cycles p hp
        exact ⟨by simp; omega, Nat.lt_of_lt_of_le h2 (hord _), h3⟩
    have hlink : ∀ b : Nat, ∀ x ∈ st.bonds ++ [(st.atomNum, st.lastNum, b)],
        x.1 < st.atoms.length + 1 ∧ x.2.1 < st.atoms.length + 1 := by
      intro b x hx
      rcases mem_append_single hx with hx | rfl
      · have := h.bonds x hx; omega
      · have := h.last; simp [h.num]; omega
    have hord2 : ∀ a b k', (orderGet st.order k').length ≤
        (orderGet (orderAppend (orderAppend st.order st.lastNum a) st.atomNum b) k').length := by
      intro a b k'
      exact Nat.le_trans (orderGet_append_le _ _ _ _) (orderGet_append_le _ _ _ _)
    have hold : ∀ x ∈ st.bonds, x.1 < st.atoms.length + 1 ∧ x.2.1 < st.atoms.length + 1 := by
      intro x hx; have := h.bonds x hx; omega
    simp only [pstep, hne, Bool.false_eq_true, if_false, htl]
    cases hpv : st.previous with
    | none => exact key _ _ _ _ _ _ _ (hlink _) (hord2 _ _)
    | some pv =>
      cases pv with
      | bond o => exact key _ _ _ _ _ _ _ (hlink _) (hord2 _ _)
      | dot => exact key _ _ _ _ _ _ _ hold (fun _ => Nat.le_refl _)
      | dir b => exact key _ _ _ _ _ _ _ (hlink _) (hord2 _ _)

theorem prun_inv (strong : Bool) : ∀ (ts : List Tok) (st : PState), PInv st → (∀ t ∈ ts, noOther t = true) →
    PGood (prun strong st ts)
  | [], st, h, _ => h
  | t :: ts, st, h, hn => by
    unfold prun
    have := pstep_inv strong st t h (hn t (by simp))
    cases hk : pstep strong st t with
    | ok st' => rw [hk] at this; exact prun_inv strong ts st' this (fun u hu => hn u (by simp [hu]))
    | error e => rw [hk] at this; exact this

/-- first atom read from the initial state (possibly after one leading `(`) -/
theorem first_atom_inv (strong : Bool) (ty : Nat) (tok : AtomTok) (stk : List Nat) (op : Bool) (hs : ∀ x ∈ stk, x < 1) :
    ∃ st, pstep strong { stack := stk, opened := op } (.atom ty tok) = .ok st ∧ PInv st := by
  refine ⟨_, rfl, ?_⟩
  refine ⟨by simp, by simp, by simp, by simp, ?_, by simp, by simp⟩
  intro x hx
  simpa using hs x hx

/-- what `parser` returns: a final state satisfying the invariant with empty stack / closure table / no pending bond,
    or a library error -/
def ParseGood : Except Err PState → Prop
  | .ok st => PInv st ∧ st.stack = [] ∧ st.cycles = [] ∧ st.previous = none
  | .error e => e.isCrash = false

theorem endCheck_good (st : PState) (h : PInv st) : ParseGood (endCheck st) := by
  unfold endCheck
  split
  · rfl
  · split
    · rfl
    · split
      · rfl
      · rename_i h1 h2 h3
        refine ⟨h, ?_, ?_, ?_⟩
        · cases hk : st.stack <;> simp_all
        · cases hk : st.cycles <;> simp_all
        · cases hk : st.previous <;> simp_all

theorem parse_good (strong : Bool) (toks : List Tok) (hne : toks ≠ []) (hn : ∀ t ∈ toks, noOther t = true) :
    ParseGood (parse strong toks) := by
  have finishRun : ∀ (st : PState) (rest : List Tok), PInv st → (∀ t ∈ rest, noOther t = true) →
      ParseGood (match prun strong st rest with
        | .error e => .error e
        | .ok st' => endCheck st') := by
    intro st rest hst hrest
    have := prun_inv strong rest st hst hrest
    cases hk : prun strong st rest with
    | ok st' => rw [hk] at this; exact endCheck_good st' this
    | error e => rw [hk] at this; exact this
  unfold parse
  cases toks with
  | nil => exact absurd rfl hne
  | cons t rest =>
    cases t with
    | atom ty tok =>
      obtain ⟨st1, h1, hinv⟩ := first_atom_inv strong ty tok [] false (by simp)
      simp only [startCheck, Tok.isAtom, if_true, prun]
      have h1' : pstep strong {} (Tok.atom ty tok) = .ok st1 := h1
      rw [h1']
      exact finishRun st1 rest hinv (fun u hu => hn u (by simp [hu]))
    | lpar =>
      cases rest with
      | nil => simp [startCheck, ParseGood, smilesErr, Err.isCrash]
      | cons t2 rest2 =>
        cases t2 with
        | atom ty tok =>
          obtain ⟨st1, h1, hinv⟩ := first_atom_inv strong ty tok [0] true (by simp)
          have h0 : pstep strong {} Tok.lpar = .ok { stack := [0], opened := true } := rfl
          simp only [startCheck, Tok.isAtom, if_true, prun, h0, h1]
          exact finishRun st1 rest2 hinv (fun u hu => hn u (by simp [hu]))
        | _ => simp [startCheck, Tok.isAtom, ParseGood, smilesErr, Err.isCrash]
    | _ => simp [startCheck, Tok.isAtom, ParseGood, smilesErr, Err.isCrash]

end ChythonModel.Proofs.C03
