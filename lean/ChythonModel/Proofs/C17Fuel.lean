import ChythonModel.Proofs.C17Chains
/-! C17: the `popleft` bound `chainsFuel` always suffices (the queue loop terminates). -/
namespace ChythonModel.Proofs.C17
open ChythonModel.Model ChythonModel.Model.Fingerprint ChythonModel.Spec.Fingerprint

/-- number of `popleft`s caused by one queue member that may still grow `d` times -/
def budget (m : Mol) : Nat → Path → Nat
  | 0, _ => 1
  | d + 1, now => 1 + ((extendP m now).map (budget m d)).sum

theorem budget_pos (m : Mol) (d : Nat) (now : Path) : 1 ≤ budget m d now := by
  cases d <;> simp [budget] <;> omega

theorem sum_map_le {α : Type} (f : α → Nat) (B : Nat) : ∀ (l : List α), (∀ x ∈ l, f x ≤ B) → (l.map f).sum ≤ l.length * B
  | [], _ => by simp
  | a :: l, h => by
    have := sum_map_le f B l (fun x hx => h x (List.mem_cons_of_mem _ hx))
    have ha := h a (by simp)
    simp only [List.map_cons, List.sum_cons, List.length_cons, Nat.add_mul, Nat.one_mul]
    omega

theorem le_foldl_max : ∀ (l : List Nat) (init : Nat), init ≤ l.foldl max init ∧ ∀ x ∈ l, x ≤ l.foldl max init
  | [], init => by simp
  | a :: l, init => by
    have ih := le_foldl_max l (max init a)
    simp only [List.foldl_cons]
    refine ⟨Nat.le_trans (Nat.le_max_left _ _) ih.1, ?_⟩
    intro x hx
    rcases List.mem_cons.mp hx with rfl | hx
    · exact Nat.le_trans (Nat.le_max_right _ _) ih.1
    · exact ih.2 x hx

theorem lookup_mem {β : Type} : ∀ (l : List (Nat × β)) (k : Nat) (v : β), l.lookup k = some v → (k, v) ∈ l
  | [], _, _, h => by simp at h
  | (k', v') :: l, k, v, h => by
    rw [List.lookup_cons] at h
    split at h
    · rename_i e; cases h; have : k = k' := by simpa using e
      subst this; simp
    · exact List.mem_cons_of_mem _ (lookup_mem l k v h)

theorem nbrs_length_le (m : Mol) (x : Nat) : (m.nbrs x).length ≤ maxDeg m := by
  unfold Mol.nbrs
  cases h : m.adj.lookup x with
  | none => simp
  | some ms =>
    simp only [Option.getD_some]
    have hm := lookup_mem _ _ _ h
    exact (le_foldl_max (m.adj.map (·.2.length)) 0).2 _ (List.mem_map.mpr ⟨(x, ms), hm, rfl⟩)

theorem extend_length_le (m : Mol) (now : Path) : (extendP m now).length ≤ maxDeg m := by
  unfold extendP
  cases now.getLast? with
  | none => simp
  | some l =>
    simp only [List.length_map]
    exact Nat.le_trans (List.length_filter_le _ _) (by simpa using nbrs_length_le m l)

theorem budget_le (m : Mol) : ∀ (d : Nat) (now : Path), budget m d now ≤ (maxDeg m + 1) ^ d
  | 0, _ => by simp [budget]
  | d + 1, now => by
    have h1 := sum_map_le (budget m d) ((maxDeg m + 1) ^ d) (extendP m now) (fun x _ => budget_le m d x)
    have h2 := extend_length_le m now
    have h3 : (extendP m now).length * (maxDeg m + 1) ^ d ≤ maxDeg m * (maxDeg m + 1) ^ d := Nat.mul_le_mul_right _ h2
    have h4 : 1 ≤ (maxDeg m + 1) ^ d := Nat.pow_pos (by omega)
    simp only [budget, Nat.pow_succ, Nat.mul_add, Nat.mul_one]
    rw [Nat.mul_comm ((maxDeg m + 1) ^ d) (maxDeg m)]
    omega

/-- remaining growth allowed for a queue member -/
def depthOf (hi : Int) (now : Path) : Nat := (hi - 1 - (now.length : Int)).toNat

theorem chainsLoop_ok (m : Mol) (lo hi : Int) : ∀ (fuel : Nat) (q arr : List Path),
    (q.map fun now => budget m (depthOf hi now) now).sum < fuel → ∃ r, chainsLoopP m lo hi fuel q arr = .ok r
  | 0, _, _, h => by omega
  | f + 1, [], arr, _ => ⟨arr, rfl⟩
  | f + 1, now :: q, arr, h => by
    rw [chainsLoopP]
    simp only [List.map_cons, List.sum_cons] at h
    have hb := budget_pos m (depthOf hi now) now
    cases hvar : extendP m now with
    | nil => exact chainsLoop_ok m lo hi f q arr (by omega)
    | cons v0 vs =>
      simp only []
      apply chainsLoop_ok
      have hlen : ∀ c ∈ v0 :: vs, c.length = now.length + 1 := fun c hc =>
        length_of_mem_extend m now c (by rw [hvar]; exact hc)
      split
      · rename_i hlt
        rw [hlen v0 (by simp)] at hlt
        have hd : depthOf hi now = (hi - 1 - ((now.length + 1 : Nat) : Int)).toNat + 1 := by
          unfold depthOf; push_cast at hlt ⊢; omega
        rw [hd, budget, hvar] at h
        rw [List.map_append, List.sum_append]
        have : ((v0 :: vs).map fun n => budget m (depthOf hi n) n)
            = (v0 :: vs).map (budget m (hi - 1 - ((now.length + 1 : Nat) : Int)).toNat) := by
          apply List.map_congr_left
          intro c hc
          unfold depthOf; rw [hlen c hc]
        rw [this]
        omega
      · omega

theorem chainsP_ok (m : Mol) (lo hi : Int) : ∃ r, chainsP m lo hi = .ok r := by
  have key : ∀ arr, ∃ r, chainsLoopP m lo hi (chainsFuel m hi) (m.ids.map fun x => [x]) arr = .ok r := by
    intro arr
    apply chainsLoop_ok
    have h1 := sum_map_le (fun now => budget m (depthOf hi now) now) ((maxDeg m + 1) ^ hi.toNat)
      (m.ids.map fun x => [x]) (by
        intro now hn
        obtain ⟨x, _, rfl⟩ := List.mem_map.mp hn
        refine Nat.le_trans (budget_le m _ _) (Nat.pow_le_pow_right (by omega) ?_)
        unfold depthOf; simp; omega)
    simp only [List.length_map, Mol.ids] at h1
    unfold chainsFuel
    simp only [Mol.ids]
    omega
  unfold chainsP
  split
  · split
    · exact ⟨_, rfl⟩
    · exact key _
  · exact key _

end ChythonModel.Proofs.C17
