import ChythonModel.Proofs.C10Dict
/-!
# C10: the perception does not read stereo marks

`unpack` perceives `_stereo_cis_trans_centers` on the decoded molecule, whose bond marks are still erased; the packer
perceived the terminals on the marked molecule. Both see the same chains: every function of `Model/PackStereo.lean` reads
only atom numbers, atomic numbers, neighbour keys and bond orders.
-/
namespace ChythonModel.Proofs.C10
open ChythonModel.Model.Pack ChythonModel.Gen

theorem atomAt_erase (atoms : List PAtom) (n : Nat) : atomAt (atoms.map eraseSt) n = (atomAt atoms n).map eraseSt := by
  unfold atomAt
  rw [List.find?_map]
  rfl

theorem zAt_erase (atoms : List PAtom) (n : Nat) : zAt (atoms.map eraseSt) n = zAt atoms n := by
  unfold zAt; rw [atomAt_erase]; cases atomAt atoms n <;> rfl

theorem degAt_erase (atoms : List PAtom) (n : Nat) : degAt (atoms.map eraseSt) n = degAt atoms n := by
  unfold degAt; rw [atomAt_erase]
  cases atomAt atoms n with
  | none => rfl
  | some a => simp [eraseSt]

theorem fdb_erase (atoms : List PAtom) : fdb (atoms.map eraseSt) = fdb atoms := by
  funext n; unfold fdb; rw [zAt_erase]

theorem fsb_erase (atoms : List PAtom) : fsb (atoms.map eraseSt) = fsb atoms := by
  funext n; unfold fsb; rw [zAt_erase]

theorem dblOfAtom_erase (atoms : List PAtom) (a : PAtom) :
    dblOfAtom (atoms.map eraseSt) (eraseSt a) = dblOfAtom atoms a := by
  unfold dblOfAtom
  rw [fdb_erase]
  simp only [eraseSt, List.filter_map, List.map_map]
  rfl

theorem dblAdj_erase (atoms : List PAtom) : dblAdj (atoms.map eraseSt) = dblAdj atoms := by
  funext n
  unfold dblAdj
  rw [atomAt_erase]
  cases atomAt atoms n with
  | none => rfl
  | some a =>
    simp only [Option.map_some]
    rw [dblOfAtom_erase]; rfl

theorem terminals0_erase (atoms : List PAtom) : terminals0 (atoms.map eraseSt) = terminals0 atoms := by
  unfold terminals0
  rw [List.filter_map, List.map_map]
  have : ((fun a => formsDouble.contains a.z && (dblOfAtom (atoms.map eraseSt) a).length == 1) ∘ eraseSt) =
      fun a => formsDouble.contains a.z && (dblOfAtom atoms a).length == 1 := by
    funext a; simp only [Function.comp, dblOfAtom_erase]; rfl
  rw [this]; rfl

theorem walk_erase (atoms : List PAtom) (terms : List Nat) : ∀ (f n m : Nat) (p : List Nat),
    walk (atoms.map eraseSt) terms f n m p = walk atoms terms f n m p
  | 0, _, _, _ => rfl
  | f + 1, n, m, p => by
    simp only [walk, degAt_erase, dblAdj_erase]
    split
    · rfl
    · split
      · rfl
      · split
        · rfl
        · exact walk_erase atoms terms f _ _ _

theorem cumLoop_erase (atoms : List PAtom) : ∀ (f : Nat) (terms : List Nat),
    cumLoop (atoms.map eraseSt) f terms = cumLoop atoms f terms
  | _, [] => by simp [cumLoop]
  | 0, _ :: _ => rfl
  | f + 1, n :: terms => by
    simp only [cumLoop, dblAdj_erase, walk_erase, List.length_map, cumLoop_erase atoms f]

theorem cumulenes_erase (atoms : List PAtom) : cumulenes (atoms.map eraseSt) = cumulenes atoms := by
  simp only [cumulenes, cumulenesTagged, terminals0_erase, cumLoop_erase]

theorem nbrsAt_erase (atoms : List PAtom) (n : Nat) : nbrsAt (atoms.map eraseSt) n = (nbrsAt atoms n).map eraseNb := by
  unfold nbrsAt; rw [atomAt_erase]
  cases atomAt atoms n <;> rfl

theorem endBlocked_erase (atoms : List PAtom) (env : List PNbr) (x : Nat) :
    endBlocked (atoms.map eraseSt) (env.map eraseNb) x = endBlocked atoms env x := by
  unfold endBlocked
  rw [fsb_erase, List.any_map]
  rfl

theorem substituents_erase (atoms : List PAtom) (env : List PNbr) (x : Nat) :
    substituents (atoms.map eraseSt) (env.map eraseNb) x = substituents atoms env x := by
  unfold substituents
  simp only [List.filter_map, List.map_map, zAt_erase]
  rfl

theorem stereoEnv_erase (atoms : List PAtom) (path : List Nat) :
    stereoEnv (atoms.map eraseSt) path = stereoEnv atoms path := by
  unfold stereoEnv
  simp only [nbrsAt_erase, endBlocked_erase, substituents_erase]

theorem perceive_erase (atoms : List PAtom) : perceive (atoms.map eraseSt) = perceive atoms := by
  unfold perceive stereogenicOf
  simp only [cumulenes_erase, stereoEnv_erase]

end ChythonModel.Proofs.C10
