import ChythonModel.Proofs.C13Hydro
/-!
# C13 — stored hydrogen counts through a transaction (today's table)

`TxH o bk`: the invariant of an object inside a transaction that the exit relies on — every atom that is **not pending**
carries the hydrogen environment of the present graph *with the snapshot's charge / radical values* (`envRef`), and every
atom the snapshot does not know is pending.  Established by `__enter__` on a settled object, preserved by direct
attribute writes, by `add_bond` / `delete_bond` and by every operation that does not touch the hydrogen bookkeeping; the
successful `__exit__` turns it into "all stored hydrogens fresh".  A public `fix_structure()` inside the block is what
breaks it (it recomputes for the *present* attribute values and empties the pending set): the two known findings.
-/
namespace ChythonModel.Proofs.C13
open ChythonModel.Model ChythonModel.Model.C13 ChythonModel.Gen.CacheEffects ChythonModel.Spec.Deps

def nbrPart (m : Mol) (n : Nat) : Env :=
  ((m.nbrs n).filter (·.2.order != 8)).flatMap fun kb => [(kb.2.order : Int), (((m.atom? kb.1).map (·.z)).getD 0 : Nat)]

theorem envOf_eq (m : Mol) (n : Nat) :
    envOf m n = match m.atom? n with
      | none => []
      | some a => [(a.z : Int), a.charge, if a.radical then 1 else 0] ++ nbrPart m n := rfl

/-- the environment `calc_implicit(n)` would see if atom `n` had the charge / radical state recorded in the snapshot `bm`
(atoms the snapshot does not know: their present state) -/
def envRef (bm m : Mol) (n : Nat) : Env :=
  match m.atom? n with
  | none => []
  | some a => [(a.z : Int), ((bm.atom? n).getD a).charge, if ((bm.atom? n).getD a).radical then 1 else 0] ++ nbrPart m n

def pend (o : Obj) : List Nat :=
  match o.changed with
  | some (some l) => l
  | _ => []

def AllFresh (m : Mol) (hs : HEnv) : Prop := ∀ n ∈ m.ids, hs.lookup n = some (envOf m n)

structure TxH (o : Obj) (bk : Core) : Prop where
  hbk : o.backup = some (some bk)
  chg : o.changed ≠ none
  ref : ∀ n ∈ o.mol.ids, n ∉ pend o → o.hs.lookup n = some (envRef bk.mol o.mol n)
  new : ∀ n ∈ o.mol.ids, bk.mol.atom? n = none → n ∈ pend o

theorem allFresh_iff (c : Core) : hStale c = [] ↔ AllFresh c.mol c.hs := by
  simp only [hStale, List.filter_eq_nil_iff, hFresh, Bool.not_eq_true, Bool.not_eq_false', beq_iff_eq, AllFresh]

theorem envRef_self (m : Mol) (n : Nat) : envRef m m n = envOf m n := by
  simp only [envRef, envOf_eq]
  cases h : m.atom? n with
  | none => rfl
  | some a => simp

theorem mem_unionNat {a b : List Nat} {x : Nat} : x ∈ unionNat a b ↔ x ∈ a ∨ x ∈ b := by
  unfold unionNat
  induction b generalizing a with
  | nil => simp
  | cons y rest ih =>
    simp only [List.foldl_cons]
    rw [ih]
    by_cases hc : a.contains y = true
    · simp only [hc, if_true, List.mem_cons]
      have : y ∈ a := by simpa using hc
      constructor
      · rintro (h | h); exact Or.inl h; exact Or.inr (Or.inr h)
      · rintro (h | h | h); exact Or.inl h; exact Or.inl (h ▸ this); exact Or.inr h
    · have hy : y ∉ a := by simpa using hc
      simp only [hc, if_false, Bool.false_eq_true, List.mem_append, List.mem_cons, List.not_mem_nil, or_false, or_assoc]

theorem lookup_mapUpdate (l : HEnv) (k n : Nat) (e : Env) :
    (l.map fun p => if p.1 == k then (k, e) else p).lookup n =
      if n == k then (if l.any (·.1 == k) then some e else none) else l.lookup n := by
  induction l with
  | nil => simp
  | cons p rest ih =>
    obtain ⟨a, v⟩ := p
    simp only [List.map_cons, List.any_cons]
    by_cases hak : a = k
    · subst hak
      simp only [beq_self_eq_true, if_true, Bool.true_or, List.lookup_cons]
      by_cases hna : n = a
      · subst hna; simp
      · have h1 : (n == a) = false := beq_false_of_ne hna
        simp only [h1, if_false, Bool.false_eq_true]
        rw [ih]; simp [h1]
    · have hak' : (a == k) = false := beq_false_of_ne hak
      simp only [hak', if_false, Bool.false_eq_true, Bool.false_or, List.lookup_cons]
      by_cases hna : n = a
      · subst hna
        have : (n == k) = false := beq_false_of_ne hak
        simp [this]
      · have h1 : (n == a) = false := beq_false_of_ne hna
        simp only [h1]
        exact ih

theorem lookup_setHs (hs : HEnv) (k n : Nat) (e : Env) :
    (setHs hs k e).lookup n = if n == k then some e else hs.lookup n := by
  unfold setHs
  split
  · rename_i hany
    rw [lookup_mapUpdate]
    simp [hany]
  · rename_i hany
    have hnone : hs.lookup k = none := by
      apply lookup_none_iff.mpr
      intro hmem
      exact hany (any_fst_iff.mpr hmem)
    rw [List.lookup_append]
    by_cases hnk : n = k
    · subst hnk; simp [hnone]
    · have : (n == k) = false := beq_false_of_ne hnk
      simp only [this, List.lookup_cons, List.lookup_nil]
      cases hs.lookup n <;> simp

theorem lookup_foldl_setHs (m : Mol) (l : List Nat) (hs : HEnv) (n : Nat) :
    (l.foldl (fun hs k => setHs hs k (envOf m k)) hs).lookup n = if n ∈ l then some (envOf m n) else hs.lookup n := by
  induction l generalizing hs with
  | nil => simp
  | cons k rest ih =>
    simp only [List.foldl_cons]
    rw [ih, lookup_setHs]
    by_cases hr : n ∈ rest
    · simp [hr]
    · by_cases hnk : n = k
      · subst hnk; simp [hr]
      · have : (n == k) = false := beq_false_of_ne hnk
        simp [hr, hnk, this]

/-- an atom whose charge / radical state equals the snapshot's (or that the snapshot does not know) sees the same
environment either way -/
theorem envRef_of_not_diff {bm m : Mol} {n : Nat} (h : n ∉ attrDiff bm m) : envRef bm m n = envOf m n := by
  simp only [envRef, envOf_eq]
  cases ha : m.atom? n with
  | none => rfl
  | some a =>
    have hmem : (n, a) ∈ m.atoms := mem_of_lookup ha
    simp only
    cases hb : bm.atom? n with
    | none => simp
    | some b =>
      have : ¬ ((b.charge != a.charge || b.radical != a.radical) = true) := by
        intro hd
        apply h
        simp only [attrDiff, List.mem_map, List.mem_filter]
        exact ⟨(n, a), ⟨hmem, by simp only [hb]; exact hd⟩, rfl⟩
      simp only [Bool.or_eq_true, bne_iff_ne, ne_eq, not_or, Decidable.not_not] at this
      simp [this.1, this.2]

theorem exitOk_hrel :
    (expand current.fns expandFuel "MoleculeContainer.__exit__#ok" []).filter (fun ge => hrel ge.e) =
      [⟨[], .changedAttr⟩, ⟨[], .hcalc⟩, ⟨[], .changedNone⟩, ⟨[], .backupNone⟩] := by decide +kernel

/-- **the successful exit**: from `TxH` to "every stored hydrogen count is fresh, nothing pending, no snapshot" -/
theorem exitOk_fresh {w : World} {i : Nat} {o : Obj} {bk : Core} {obs : List String} (hget : w.objs[i]? = some o)
    (h : TxH o bk) (herr : (step current w (.exitOk i) obs).err = none) :
    ∃ o', (step current w (.exitOk i) obs).w.objs[i]? = some o' ∧ o'.mol = o.mol ∧ o'.backup = some none ∧
      o'.changed = some none ∧ AllFresh o'.mol o'.hs := by
  unfold step at herr ⊢
  simp only [Op.target, hget] at herr ⊢
  obtain ⟨c, hi⟩ := runFn_ok herr
  have hp := interp_proj _ _ _ hi
  rw [interpH_filter, exitOk_hrel] at hp
  rw [runFn_world, hi]
  refine ⟨c.o, getElem?_setObj_self _ hget, ?_⟩
  -- evaluate the four events on the projection
  simp only [interpH, guardsH, proj] at hp
  obtain ⟨l?, hch⟩ : ∃ l?, o.changed = some l? := by
    cases hc : o.changed with
    | none => exact absurd hc h.chg
    | some l? => exact ⟨l?, rfl⟩
  have hbk : bkH o.backup = some (some (bk.mol, bk.hs)) := by rw [h.hbk]; rfl
  simp only [hbk] at hp
  cases l? with
  | none =>
    simp only [stepH, hch, hcalcHs, hcalcTargets, HS.mk.injEq] at hp
    obtain ⟨h1, h2, h3, h4, _⟩ := hp
    have hb' : c.o.backup = some none := by
      cases hb : c.o.backup with
      | none => rw [hb] at h4; cases h4
      | some b => cases b with
        | none => rfl
        | some x => rw [hb] at h4; cases h4
    refine ⟨h1, hb', h3, ?_⟩
    intro n hn
    rw [h1] at hn ⊢
    rw [h2, lookup_foldl_setHs]
    have : n ∈ o.mol.ids.filter o.mol.hasAtom := List.mem_filter.mpr ⟨hn, hasAtom_iff.mpr hn⟩
    simp [this]
  | some l =>
    simp only [stepH, hch, hcalcHs, hcalcTargets, HS.mk.injEq] at hp
    obtain ⟨h1, h2, h3, h4, _⟩ := hp
    have hb' : c.o.backup = some none := by
      cases hb : c.o.backup with
      | none => rw [hb] at h4; cases h4
      | some b => cases b with
        | none => rfl
        | some x => rw [hb] at h4; cases h4
    refine ⟨h1, hb', h3, ?_⟩
    intro n hn
    rw [h1] at hn ⊢
    have hpend : pend o = l := by simp [pend, hch]
    cases hu : unionNat l (attrDiff bk.mol o.mol) with
    | nil =>
      simp only [hu] at h2
      rw [h2, lookup_foldl_setHs]
      have : n ∈ o.mol.ids.filter o.mol.hasAtom := List.mem_filter.mpr ⟨hn, hasAtom_iff.mpr hn⟩
      simp [this]
    | cons x xs =>
      simp only [hu] at h2
      rw [h2, lookup_foldl_setHs]
      by_cases hin : n ∈ (x :: xs).filter o.mol.hasAtom
      · simp [hin]
      · simp only [hin, if_false]
        have hnot : n ∉ unionNat l (attrDiff bk.mol o.mol) := by
          rw [hu]; intro hm; exact hin (List.mem_filter.mpr ⟨hm, hasAtom_iff.mpr hn⟩)
        rw [mem_unionNat, not_or] at hnot
        rw [h.ref n hn (by rw [hpend]; exact hnot.1), envRef_of_not_diff hnot.2]

/-! ## establishing and preserving `TxH` -/

theorem enter_hrel :
    (expand current.fns expandFuel "MoleculeContainer.__enter__" []).filter (fun ge => hrel ge.e) =
      [⟨[], .backupCopy .yes .yes⟩] := by decide +kernel

/-- `__enter__` on a settled object establishes the transaction invariant (nothing pending, snapshot = present state) -/
theorem enter_txh {w : World} {i : Nat} {o : Obj} {obs : List String} (hget : w.objs[i]? = some o)
    (hch : o.changed = some none) (hf : AllFresh o.mol o.hs) (herr : (step current w (.enter i) obs).err = none) :
    ∃ o' bk, (step current w (.enter i) obs).w.objs[i]? = some o' ∧ TxH o' bk ∧ o'.mol = o.mol ∧ bk.mol = o.mol ∧ bk.hs = o.hs := by
  unfold step at herr ⊢
  simp only [Op.target, hget] at herr ⊢
  obtain ⟨c, hi⟩ := runFn_ok herr
  have hp := interp_proj _ _ _ hi
  rw [interpH_filter, enter_hrel] at hp
  rw [runFn_world, hi]
  simp only [interpH, guardsH, proj, stepH, HS.mk.injEq] at hp
  obtain ⟨h1, h2, h3, h4, _⟩ := hp
  obtain ⟨bk, hb, hbm, hbh⟩ : ∃ bk, c.o.backup = some (some bk) ∧ bk.mol = o.mol ∧ bk.hs = o.hs := by
    cases hb : c.o.backup with
    | none => rw [hb] at h4; cases h4
    | some b => cases b with
      | none => rw [hb] at h4; cases h4
      | some x =>
        rw [hb] at h4
        simp only [bkH, Option.some.injEq, Prod.mk.injEq] at h4
        exact ⟨x, rfl, h4.1, h4.2⟩
  refine ⟨c.o, bk, getElem?_setObj_self _ hget, ⟨hb, by rw [h3, hch]; simp, ?_, ?_⟩, h1, hbm, hbh⟩
  · intro n hn _
    rw [h1] at hn
    rw [h2, hbm, h1, envRef_self]
    exact hf n hn
  · intro n hn hnone
    rw [h1] at hn
    rw [hbm] at hnone
    exact absurd hn (lookup_none_iff.mp hnone)

theorem lookup_update {α} (l : List (Nat × α)) (n k : Nat) (g : α → α) :
    (l.map fun p => if p.1 == n then (p.1, g p.2) else p).lookup k = (l.lookup k).map fun a => if k == n then g a else a := by
  induction l with
  | nil => rfl
  | cons p rest ih =>
    obtain ⟨a, v⟩ := p
    simp only [List.map_cons, List.lookup_cons]
    by_cases han : a = n
    · subst han
      simp only [beq_self_eq_true, if_true, List.lookup_cons]
      by_cases hka : k = a
      · subst hka; simp
      · have hk1 : (k == a) = false := beq_false_of_ne hka
        rw [ih]; simp only [hk1]
    · have han' : (a == n) = false := beq_false_of_ne han
      simp only [han', if_false, Bool.false_eq_true, List.lookup_cons]
      by_cases hka : k = a
      · subst hka; simp [han']
      · have : (k == a) = false := beq_false_of_ne hka
        simp only [this]; exact ih

def updAtoms (m : Mol) (n : Nat) (g : Atom → Atom) : Mol :=
  { m with atoms := m.atoms.map fun p => if p.1 == n then (p.1, g p.2) else p }

theorem atom_updAtoms (m : Mol) (n k : Nat) (g : Atom → Atom) :
    (updAtoms m n g).atom? k = (m.atom? k).map fun a => if k == n then g a else a := lookup_update m.atoms n k g

theorem nbrPart_updAtoms (m : Mol) (n k : Nat) (g : Atom → Atom) (hz : ∀ a, (g a).z = a.z) :
    nbrPart (updAtoms m n g) k = nbrPart m k := by
  simp only [nbrPart]
  have h1 : (updAtoms m n g).nbrs k = m.nbrs k := rfl
  rw [h1]
  congr 1
  funext kb
  rw [atom_updAtoms]
  cases m.atom? kb.1 with
  | none => rfl
  | some a => by_cases hq : (kb.1 == n) = true <;> simp [hq, hz]

/-- a direct charge / radical write does not change what the snapshot-relative environment of any atom is, except for
an atom the snapshot does not know -/
theorem envRef_updAtoms (bm m : Mol) (n k : Nat) (g : Atom → Atom) (hz : ∀ a, (g a).z = a.z)
    (hk : k ≠ n ∨ bm.atom? n ≠ none) : envRef bm (updAtoms m n g) k = envRef bm m k := by
  simp only [envRef, atom_updAtoms, nbrPart_updAtoms m n k g hz]
  cases ha : m.atom? k with
  | none => rfl
  | some a =>
    simp only [Option.map_some]
    by_cases hkn : k = n
    · subst hkn
      rcases hk with hk | hk
      · exact absurd rfl hk
      · cases hb : bm.atom? k with
        | none => exact absurd hb hk
        | some b => simp [hz]
    · have : (k == n) = false := beq_false_of_ne hkn
      simp [this]

theorem ids_updAtoms (m : Mol) (n : Nat) (g : Atom → Atom) : (updAtoms m n g).ids = m.ids := map_fst_update m.atoms n g

theorem txh_updAtoms {o : Obj} {bk : Core} (n : Nat) (g : Atom → Atom) (hz : ∀ a, (g a).z = a.z) (h : TxH o bk) :
    TxH { o with mol := updAtoms o.mol n g } bk := by
  refine ⟨h.hbk, h.chg, ?_, ?_⟩
  · intro k hk hp
    have hk' : k ∈ o.mol.ids := by rw [ids_updAtoms] at hk; exact hk
    have hp' : k ∉ pend o := hp
    show o.hs.lookup k = some (envRef bk.mol (updAtoms o.mol n g) k)
    rw [envRef_updAtoms _ _ _ _ _ hz, h.ref k hk' hp']
    by_cases hkn : k = n
    · subst hkn
      right
      intro hnone
      exact hp' (h.new k hk' hnone)
    · exact Or.inl hkn
  · intro k hk hnone
    have hk' : k ∈ o.mol.ids := by rw [ids_updAtoms] at hk; exact hk
    exact h.new k hk' hnone

theorem txh_congr {o o' : Obj} {bk : Core} (hm : o'.mol = o.mol) (hh : o'.hs = o.hs) (hc : o'.changed = o.changed)
    (hb : o'.backup = o.backup) (h : TxH o bk) : TxH o' bk := by
  have hp : pend o' = pend o := by simp [pend, hc]
  refine ⟨by rw [hb]; exact h.hbk, by rw [hc]; exact h.chg, ?_, ?_⟩
  · intro n hn hnp
    rw [hm] at hn ⊢
    rw [hh]
    exact h.ref n hn (by rw [← hp]; exact hnp)
  · intro n hn hnone
    rw [hm] at hn
    rw [hp]
    exact h.new n hn hnone

theorem neutral_hrel :
    (expand current.fns expandFuel "MoleculeStereo.fix_stereo" []).filter (fun ge => hrel ge.e) = [] ∧
    (expand current.fns expandFuel "MoleculeStereo.clean_stereo" []).filter (fun ge => hrel ge.e) = [] ∧
    (expand current.fns expandFuel "MoleculeContainer.calc_labels" []).filter (fun ge => hrel ge.e) = [] := by decide +kernel

/-- a method whose event list contains no hydrogen-relevant event keeps the invariant -/
theorem runFn_txh_neutral {w : World} {i : Nat} {o : Obj} {bk : Core} {cx : Ctx} {f : String} {env : List (String × Bool)}
    (hget : w.objs[i]? = some o) (hrel0 : (expand current.fns expandFuel f env).filter (fun ge => hrel ge.e) = [])
    (hno : noBkWrites (expand current.fns expandFuel f env) = true) (h : TxH o bk)
    (herr : (runFn current w i o cx f env).err = none) :
    ∃ o', (runFn current w i o cx f env).w.objs[i]? = some o' ∧ TxH o' bk := by
  obtain ⟨c, hi⟩ := runFn_ok herr
  have hp := interp_proj _ _ _ hi
  rw [interpH_filter, hrel0] at hp
  have hb := interp_backup (T := current) (cx := cx) _ { o := o, vecs := w.vecs } hno
  rw [hi] at hb
  rw [runFn_world, hi]
  simp only [interpH, proj, HS.mk.injEq] at hp
  exact ⟨c.o, getElem?_setObj_self _ hget, txh_congr hp.1 hp.2.1 hp.2.2.1 hb h⟩

/-! ## ordinary bond edits inside the block -/

theorem envRef_congr {bm m m' : Mol} {k : Nat} (ha : m'.atoms = m.atoms) (hn : m'.adj.lookup k = m.adj.lookup k) :
    envRef bm m' k = envRef bm m k := by
  simp [envRef, nbrPart, Mol.atom?, Mol.nbrs, ha, hn]

theorem lookup_filter_key {α} (l : List (Nat × α)) (P : Nat → Bool) (k : Nat) (hk : P k = true) :
    (l.filter fun p => P p.1).lookup k = l.lookup k := by
  induction l with
  | nil => rfl
  | cons p rest ih =>
    obtain ⟨a, v⟩ := p
    simp only [List.filter_cons]
    by_cases hka : k = a
    · subst hka; simp [hk]
    · have h1 : (k == a) = false := beq_false_of_ne hka
      split
      · simp only [List.lookup_cons, h1]; exact ih
      · simp only [List.lookup_cons, h1]; exact ih

theorem gAddBond_frame {m m' : Mol} {a b order : Nat} (h : gAddBond m a b order = .ok m') :
    m'.atoms = m.atoms ∧ ∀ k, k ≠ a → k ≠ b → m'.adj.lookup k = m.adj.lookup k := by
  unfold gAddBond at h
  split at h; · cases h
  split at h; · cases h
  split at h; · cases h
  split at h; · cases h
  cases h
  refine ⟨rfl, fun k hka hkb => ?_⟩
  simp only
  rw [lookup_insertNbr_ne _ _ _ _ _ hkb, lookup_insertNbr_ne _ _ _ _ _ hka]

theorem gDelBond_frame {m m' : Mol} {a b : Nat} (h : gDelBond m a b = .ok m') :
    m'.atoms = m.atoms ∧ ∀ k, k ≠ a → k ≠ b → m'.adj.lookup k = m.adj.lookup k := by
  unfold gDelBond at h
  split at h; · cases h
  split at h; · cases h
  cases h
  refine ⟨rfl, fun k hka hkb => ?_⟩
  simp only
  rw [lookup_eraseNbr_ne _ _ _ _ hkb, lookup_eraseNbr_ne _ _ _ _ hka]

theorem bond_hrel :
    (expand current.fns expandFuel "MoleculeContainer.add_bond" []).filter (fun ge => hrel ge.e) =
      [⟨[], .edit⟩, ⟨[.notSpecial], .changedAdd⟩, ⟨[.notSpecial, .ifCalc], .hcalc⟩, ⟨[.notSpecial, .ifCalc], .changedNone⟩] ∧
    (expand current.fns expandFuel "MoleculeContainer.delete_bond" []).filter (fun ge => hrel ge.e) =
      [⟨[], .edit⟩, ⟨[.notSpecial], .changedAdd⟩, ⟨[.ifCalc], .hcalc⟩, ⟨[.ifCalc], .changedNone⟩] := by decide +kernel

/-- an ordinary (not order-8) bond added or deleted inside the block: the two end atoms become pending, every other atom
keeps its snapshot-relative environment -/
theorem runFn_txh_bond {w : World} {i : Nat} {o : Obj} {bk : Core} {skip : Bool} {m' : Mol} {a b : Nat} {obs : List String}
    {f : String} (hget : w.objs[i]? = some o) (h : TxH o bk)
    (hlist : (expand current.fns expandFuel f []).filter (fun ge => hrel ge.e) =
        [⟨[], .edit⟩, ⟨[.notSpecial], .changedAdd⟩, ⟨[.notSpecial, .ifCalc], .hcalc⟩, ⟨[.notSpecial, .ifCalc], .changedNone⟩] ∨
      (expand current.fns expandFuel f []).filter (fun ge => hrel ge.e) =
        [⟨[], .edit⟩, ⟨[.notSpecial], .changedAdd⟩, ⟨[.ifCalc], .hcalc⟩, ⟨[.ifCalc], .changedNone⟩])
    (hno : noBkWrites (expand current.fns expandFuel f []) = true)
    (hfr : m'.atoms = o.mol.atoms ∧ ∀ k, k ≠ a → k ≠ b → m'.adj.lookup k = o.mol.adj.lookup k)
    (herr : (runFn current w i o { skip := skip, special := false, touched := [a, b], editMol := some m', obs := obs } f []).err = none) :
    ∃ o', (runFn current w i o { skip := skip, special := false, touched := [a, b], editMol := some m', obs := obs } f []).w.objs[i]? =
      some o' ∧ TxH o' bk := by
  obtain ⟨c, hi⟩ := runFn_ok herr
  have hp := interp_proj _ _ _ hi
  have hb := interp_backup (T := current) (cx := { skip := skip, special := false, touched := [a, b], editMol := some m', obs := obs })
    _ { o := o, vecs := w.vecs } hno
  rw [hi] at hb
  rw [runFn_world, hi]
  refine ⟨c.o, getElem?_setObj_self _ hget, ?_⟩
  have hbk : bkH o.backup = some (some (bk.mol, bk.hs)) := by rw [h.hbk]; rfl
  obtain ⟨l?, hch⟩ : ∃ l?, o.changed = some l? := by
    cases hc : o.changed with
    | none => exact absurd hc h.chg
    | some l? => exact ⟨l?, rfl⟩
  have hfinal : c.o.mol = m' ∧ c.o.hs = o.hs.filter (fun p => m'.ids.contains p.1) ∧
      c.o.changed = some (some (unionNat (l?.getD []) [a, b])) := by
    rw [interpH_filter] at hp
    rcases hlist with hl | hl <;> rw [hl] at hp <;>
      simp only [interpH, guardsH, proj, hbk, stepH, editHs, hch, if_false, Bool.false_eq_true, Bool.and_false,
        List.isEmpty_cons, HS.mk.injEq] at hp <;>
      cases l? <;> cases skip <;> simp only [if_true, if_false, Bool.false_eq_true, HS.mk.injEq, Option.getD] at hp ⊢ <;>
      exact ⟨hp.1, hp.2.1, hp.2.2.1⟩
  obtain ⟨hm, hh, hc⟩ := hfinal
  have hids : m'.ids = o.mol.ids := by simp [Mol.ids, hfr.1]
  have hpend : ∀ k, k ∈ pend c.o ↔ (k ∈ pend o ∨ k = a ∨ k = b) := by
    intro k
    simp only [pend, hc, hch, mem_unionNat, List.mem_cons, List.not_mem_nil, or_false]
    cases l? <;> simp
  have hb' : c.o.backup = o.backup := hb
  refine ⟨by rw [hb']; exact h.hbk, by rw [hc]; simp, ?_, ?_⟩
  · intro k hk hnp
    rw [hm] at hk ⊢
    rw [hpend] at hnp
    simp only [not_or] at hnp
    have hk' : k ∈ o.mol.ids := by rw [← hids]; exact hk
    rw [hh, lookup_filter_key _ (fun x => m'.ids.contains x) k (by simpa using hk), h.ref k hk' hnp.1,
      envRef_congr hfr.1 (hfr.2 k hnp.2.1 hnp.2.2)]
  · intro k hk hnone
    rw [hm, hids] at hk
    rw [hpend]
    exact Or.inl (h.new k hk hnone)

/-- operations inside the block that the hydrogen theorem covers when applied to the object in the transaction: direct
charge / radical writes, every read, cache flushes, coordinates, metadata, `fix_stereo`, `clean_stereo`, `calc_labels`
(operations on *other* objects are unrestricted) -/
def blockOp : Op → Bool
  | .setCharge .. | .setRadical .. | .read .. | .flush .. | .setXY .. | .setMeta .. | .fixStereo _ | .cleanStereo _
  | .calcLabels _ => true
  | _ => false

/-- … plus, depending on the present graph: adding an ordinary bond, deleting an ordinary bond (order-8 "any" bonds are
not covered) -/
def blockOpS (o : Obj) : Op → Bool
  | .addBond _ _ _ order _ => order != 8
  | .delBond _ a b _ => ((o.mol.bond? a b).map (·.order)) != some 8
  | op => blockOp op

theorem step_txh {w : World} {i : Nat} {o : Obj} {bk : Core} {op : Op} {obs : List String} (hget : w.objs[i]? = some o)
    (h : TxH o bk) (hop : op.target = i → blockOpS o op = true) (herr : (step current w op obs).err = none) :
    ∃ o', (step current w op obs).w.objs[i]? = some o' ∧ TxH o' bk := by
  have hlt : i < w.objs.length := by
    rcases Nat.lt_or_ge i w.objs.length with hl | hl
    · exact hl
    · rw [List.getElem?_eq_none hl] at hget; cases hget
  by_cases hti : i = op.target
  · subst hti
    have hb := hop rfl
    unfold step at herr ⊢
    simp only [hget] at herr ⊢
    cases op with
    | setCharge oi n c =>
      simp only at herr ⊢
      split at herr
      · simp at herr
      · split at herr
        · simp at herr
        · rename_i h1 h2
          simp only [h1, h2, if_false, Bool.false_eq_true]
          exact ⟨_, getElem?_setObj_self' hget, txh_updAtoms n (fun a => { a with charge := c }) (fun _ => rfl) h⟩
    | setRadical oi n r =>
      simp only at herr ⊢
      split at herr
      · simp at herr
      · rename_i h1
        simp only [h1, if_false, Bool.false_eq_true]
        exact ⟨_, getElem?_setObj_self' hget, txh_updAtoms n (fun a => { a with radical := r }) (fun _ => rfl) h⟩
    | read oi k =>
      refine ⟨_, getElem?_setObj_self' hget, txh_congr (readKey_proj _ _ _ _ _).1 (readKey_proj _ _ _ _ _).2.1
        (readKey_proj _ _ _ _ _).2.2.1 (readKey_proj _ _ _ _ _).2.2.2 h⟩
    | flush oi kS kC => exact ⟨_, getElem?_setObj_self' hget, txh_congr (o := o) rfl rfl rfl rfl h⟩
    | setMeta oi k v => exact ⟨_, getElem?_setObj_self' hget, txh_congr (o := o) rfl rfl rfl rfl h⟩
    | setXY oi n x y =>
      simp only at herr ⊢
      split
      · exact ⟨o, hget, h⟩
      · exact ⟨o, hget, h⟩
    | fixStereo oi => exact runFn_txh_neutral hget neutral_hrel.1 (by decide +kernel) h herr
    | cleanStereo oi => exact runFn_txh_neutral hget neutral_hrel.2.1 (by decide +kernel) h herr
    | calcLabels oi => exact runFn_txh_neutral hget neutral_hrel.2.2 (by decide +kernel) h herr
    | addAtom _ _ _ _ => simp [blockOpS, blockOp] at hb
    | addBond oi a b order skip =>
      have hsp : (order == 8) = false := by simpa [blockOpS] using hb
      simp only at herr ⊢
      cases hg : gAddBond o.mol a b order with
      | error e => simp [hg] at herr
      | ok m' =>
        simp only [hg, hsp, if_false, Bool.false_eq_true] at herr ⊢
        exact runFn_txh_bond hget h (Or.inl bond_hrel.1) (by decide +kernel) (gAddBond_frame hg) herr
    | delAtom _ _ _ => simp [blockOpS, blockOp] at hb
    | delBond oi a b skip =>
      have hsp : (Option.map (fun x => x.order) (o.mol.bond? a b) == some 8) = false := by
        simpa [blockOpS, bne] using hb
      simp only at herr ⊢
      cases hg : gDelBond o.mol a b with
      | error e => simp [hg] at herr
      | ok m' =>
        simp only [hg, hsp, if_false, Bool.false_eq_true] at herr ⊢
        exact runFn_txh_bond hget h (Or.inr bond_hrel.2) (by decide +kernel) (gDelBond_frame hg) herr
    | remap _ _ => simp [blockOpS, blockOp] at hb
    | copy _ _ _ => simp [blockOpS, blockOp] at hb
    | substructure _ _ _ => simp [blockOpS, blockOp] at hb
    | union _ _ _ _ => simp [blockOpS, blockOp] at hb
    | fixStructure _ _ => simp [blockOpS, blockOp] at hb
    | enter _ => simp [blockOpS, blockOp] at hb
    | exitOk _ => simp [blockOpS, blockOp] at hb
    | exitExc _ => simp [blockOpS, blockOp] at hb
  · refine ⟨o, ?_, h⟩
    rw [step_frame current w op obs i hti hlt]
    exact hget

end ChythonModel.Proofs.C13
