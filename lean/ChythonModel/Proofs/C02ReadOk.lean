import ChythonModel.Proofs.C02Closures
import ChythonModel.Proofs.C02Shape
namespace ChythonModel.Proofs.C02
open ChythonModel.Model ChythonModel.Model.SmilesWriter ChythonModel.Model.C02RT

/-- what the hypotheses of the closure theorems give about the events of the written text -/
theorem writer_facts (m : Mol) (env : Env) (opts : Opts) (rs : List Round) (order : List Nat)
    (h : smilesRounds m env opts = .ok (rs, order))
    (hwf : cyclesWF [] [] (rs.flatMap roundCycles) = true) :
    ∃ f : Nat → Nat,
      tokenEvents none [] (joinRounds rs) = (rs.flatMap cycleEvents).map (fun e => (e.1, f e.2)) ∧
      InjRun f [] (rs.flatMap cycleEvents) ∧
      (∀ t ∈ rs.flatMap roundCAtoms, t.rd.Nodup) ∧
      (rs.flatMap roundCAtoms).flatMap (fun t => evAtom t.n t.rd) = rs.flatMap cycleEvents := by
  obtain ⟨hs, hch⟩ := smilesRounds_spec m env opts rs order h
  obtain ⟨cF, hF, hc⟩ := chained_castSeq m opts rs [] initialHeap hs hch
  obtain ⟨_, hstab⟩ := chained_stable m opts rs [] initialHeap cF hF hs hch hc
  refine ⟨fun c => (cF.lookup c).getD 0, ?_, ?_, ?_, ?_⟩
  · rw [tokenEvents_rounds m opts rs hs none []]
    rw [List.map_flatMap]
    apply flatMap_congr'
    intro r hr
    rw [smiEvents_closureAtoms, cycleEvents_eq, List.map_flatMap, roundCAtoms, List.flatMap_map]
    apply flatMap_congr'
    intro n hn
    rw [atomEvents_eq]
    apply List.map_congr_left
    intro e he
    simp only [evAtom, List.mem_map] at he
    obtain ⟨c, hc', rfl⟩ := he
    obtain ⟨_, hk⟩ := roundCAtoms_wf m opts r (hs r hr) ⟨n, cycOf r.smi r.tokens n, rdOf r n⟩
      (by simp only [roundCAtoms, List.mem_map]; exact ⟨n, hn, rfl⟩)
    obtain ⟨k, hk'⟩ := hk c hc'
    simp only [hk', hstab r hr c k hk', Option.getD_some]
  · have hnd : ∀ (L : List (List Nat)) (O S : List Nat), cyclesWF O S L = true → ∀ l ∈ L, l.Nodup := by
      intro L
      induction L with
      | nil => intro _ _ _ l hl; simp at hl
      | cons c tl ih =>
        intro O S hw l hl
        simp only [cyclesWF, Bool.and_eq_true, decide_eq_true_eq] at hw
        simp at hl
        rcases hl with rfl | hl
        · exact hw.1.1
        · exact ih _ _ hw.2 l hl
    have hI := castSeq_injAll ((rs.flatMap roundCAtoms).map (·.alloc)) [] initialHeap [] [] cF hF held_initial
      (by intro c hc; simp at hc) (by rw [roundCAtoms_alloc]; exact hwf) (by rw [roundCAtoms_alloc]; exact hc)
    have hrun := injRun_atoms cF (rs.flatMap roundCAtoms) [] [] hI (by
      intro t ht
      have ht' := ht
      simp only [List.mem_flatMap] at ht
      obtain ⟨r, hr, htr⟩ := ht
      obtain ⟨hp, _⟩ := roundCAtoms_wf m opts r (hs r hr) t htr
      have ha : t.alloc.Nodup := by
        refine hnd _ _ _ hwf t.alloc ?_
        rw [← roundCAtoms_alloc]
        simp only [List.mem_map]
        exact ⟨t, ht', rfl⟩
      exact ⟨ha, hp.nodup_iff.mpr ha, fun c => hp.mem_iff⟩) (by simp [keysOf])
    have hce : (rs.flatMap roundCAtoms).flatMap (fun t => evAtom t.n t.rd) = rs.flatMap cycleEvents := by
      rw [flatMap_flatMap']
      apply flatMap_congr'
      intro r _
      rw [cycleEvents_eq]
    rw [hce] at hrun
    exact hrun
  · intro t ht
    have ht' := ht
    simp only [List.mem_flatMap] at ht
    obtain ⟨r, hr, htr⟩ := ht
    obtain ⟨hp, _⟩ := roundCAtoms_wf m opts r (hs r hr) t htr
    have hnd : ∀ (L : List (List Nat)) (O S : List Nat), cyclesWF O S L = true → ∀ l ∈ L, l.Nodup := by
      intro L
      induction L with
      | nil => intro _ _ _ l hl; simp at hl
      | cons c tl ih =>
        intro O S hw l hl
        simp only [cyclesWF, Bool.and_eq_true, decide_eq_true_eq] at hw
        simp at hl
        rcases hl with rfl | hl
        · exact hw.1.1
        · exact ih _ _ hw.2 l hl
    have ha : t.alloc.Nodup := by
      refine hnd _ _ _ hwf t.alloc ?_
      rw [← roundCAtoms_alloc]
      simp only [List.mem_map]
      exact ⟨t, ht', rfl⟩
    exact hp.nodup_iff.mpr ha
  · rw [flatMap_flatMap']
    apply flatMap_congr'
    intro r _
    rw [cycleEvents_eq]

/-! ### no closure closes on the atom that opened it -/

def NoSelf : List (Nat × Nat) → List (Nat × Nat) → Prop
  | _, [] => True
  | opened, ev :: evs => (∀ a, opened.lookup ev.2 = some a → a ≠ ev.1) ∧ NoSelf (pairStep opened ev).1 evs

theorem noSelf_append : ∀ (A B opened : List (Nat × Nat)),
    NoSelf opened A → NoSelf (pairAll opened A).1 B → NoSelf opened (A ++ B) := by
  intro A
  induction A with
  | nil => intro B opened _ h; simpa [pairAll] using h
  | cons a tl ih =>
    intro B opened h1 h2
    exact ⟨h1.1, ih B _ h1.2 (by simpa [pairAll] using h2)⟩

theorem lookup_mem_pair : ∀ (l : List (Nat × Nat)) (k a : Nat), l.lookup k = some a → (k, a) ∈ l := by
  intro l
  induction l with
  | nil => intro k a h; simp at h
  | cons p tl ih =>
    intro k a h
    simp only [List.lookup] at h
    split at h
    · rename_i heq
      simp only [Option.some.injEq] at h
      have : k = p.1 := by simpa using heq
      subst this; subst h; simp
    · exact List.mem_cons_of_mem _ (ih k a h)

theorem mem_pairStep (opened : List (Nat × Nat)) (ev : Nat × Nat) (p : Nat × Nat) :
    p ∈ (pairStep opened ev).1 → p ∈ opened ∨ p = (ev.2, ev.1) := by
  simp only [pairStep]
  cases opened.lookup ev.2 with
  | none => simp
  | some a => simp only [List.mem_filter]; intro h; exact Or.inl h.1

/-- one atom: entries opened by this atom carry cycles that are not among the remaining ones -/
theorem noSelf_atom (n : Nat) : ∀ (rd : List Nat) (opened : List (Nat × Nat)), rd.Nodup →
    (∀ p ∈ opened, p.2 = n → p.1 ∉ rd) → NoSelf opened (evAtom n rd) := by
  intro rd
  induction rd with
  | nil => intro _ _ _; trivial
  | cons c tl ih =>
    intro opened hnd hinv
    have hnd' := List.nodup_cons.mp hnd
    refine ⟨?_, ?_⟩
    · intro a ha e
      have := lookup_mem_pair opened c a ha
      exact hinv (c, a) this e (by simp)
    · apply ih _ hnd'.2
      intro p hp hpn
      rcases mem_pairStep opened (n, c) p hp with h1 | h1
      · intro hin; exact hinv p h1 hpn (by simp [hin])
      · subst h1; exact hnd'.1

theorem mem_pairAll_atom (n : Nat) : ∀ (rd : List Nat) (opened : List (Nat × Nat)) (p : Nat × Nat),
    p ∈ (pairAll opened (evAtom n rd)).1 → p ∈ opened ∨ p.2 = n := by
  intro rd
  induction rd with
  | nil => intro opened p h; exact Or.inl (by simpa [evAtom, pairAll] using h)
  | cons c tl ih =>
    intro opened p h
    simp only [evAtom, List.map_cons, pairAll] at h
    rcases ih _ p (by simpa [evAtom] using h) with h1 | h1
    · rcases mem_pairStep opened (n, c) p h1 with h2 | h2
      · exact Or.inl h2
      · exact Or.inr (by rw [h2])
    · exact Or.inr h1

theorem noSelf_atoms : ∀ (As : List CAtom) (opened : List (Nat × Nat)), (As.map (·.n)).Nodup →
    (∀ t ∈ As, t.rd.Nodup) → (∀ p ∈ opened, p.2 ∉ As.map (·.n)) →
    NoSelf opened (As.flatMap fun t => evAtom t.n t.rd) := by
  intro As
  induction As with
  | nil => intros; trivial
  | cons t tl ih =>
    intro opened hnd hrd hop
    simp only [List.map_cons] at hnd
    have hnd' := List.nodup_cons.mp hnd
    simp only [List.flatMap_cons]
    apply noSelf_append
    · apply noSelf_atom t.n t.rd opened (hrd t (by simp))
      intro p hp hpn
      exact absurd (by simp [hpn]) (hop p hp)
    · apply ih _ hnd'.2 (fun t' ht' => hrd t' (by simp [ht']))
      intro p hp
      rcases mem_pairAll_atom t.n t.rd opened p hp with h1 | h1
      · intro hin; exact hop p h1 (by simp [hin])
      · rw [h1]; exact hnd'.1

theorem noSelf_mapKeys (f : Nat → Nat) : ∀ (evs opened : List (Nat × Nat)), InjRun f opened evs → NoSelf opened evs →
    NoSelf (mapKeys f opened) (evs.map fun e => (e.1, f e.2)) := by
  intro evs
  induction evs with
  | nil => intros; trivial
  | cons ev tl ih =>
    intro opened hi hn
    refine ⟨?_, ?_⟩
    · intro a ha
      simp only at ha
      rw [lookup_mapKeys f ev.2 opened hi.1] at ha
      exact hn.1 a ha
    · simp only [List.map_cons]
      rw [pairStep_mapKeys f opened ev hi.1]
      exact ih _ hi.2 hn.2

/-! ### the reader succeeds -/

theorem rrun_ok : ∀ (ts : List WTok) (st : RState) (sf : Sh),
    wShape (st.prev, st.pending.isSome, st.stack) ts = some sf →
    NoSelf (openPairs st.opened) (tokenEvents st.prev st.stack ts) →
    ∃ st', rrun st ts = .ok st' ∧ (st'.prev, st'.pending.isSome, st'.stack) = sf := by
  intro ts
  induction ts with
  | nil =>
    intro st sf h _
    simp only [wShape, Option.some.injEq] at h
    exact ⟨st, rfl, h⟩
  | cons t tl ih =>
    intro st sf h hn
    simp only [wShape] at h
    cases hw : wStep (st.prev, st.pending.isSome, st.stack) t with
    | none => rw [hw] at h; cases h
    | some s1 =>
      rw [hw] at h
      simp only at h
      cases t with
      | atom n a =>
        simp only [wStep, Option.some.injEq] at hw
        subst hw
        simp only [te_atom] at hn
        simp only [rrun, rstep]
        exact ih _ sf (by simpa using h) (by simpa using hn)
      | bond s =>
        simp only [wStep] at hw
        split at hw
        · cases hw
        · rename_i hp
          simp only [Option.some.injEq] at hw
          subst hw
          have hpend : st.pending.isSome = false := by simpa using hp
          simp only [te_bond] at hn
          simp only [rrun, rstep, hpend, Bool.false_eq_true, if_false]
          exact ih _ sf (by simpa using h) (by simpa using hn)
      | closure c =>
        simp only [wStep] at hw
        split at hw
        · rename_i hp
          simp only [Option.some.injEq] at hw
          subst hw
          cases hpv : st.prev with
          | none => rw [hpv] at hp; simp at hp
          | some cur =>
            simp only [hpv] at h hn
            simp only [te_closure] at hn
            obtain ⟨hn1, hn2⟩ := hn
            simp only [rrun, rstep, hpv]
            cases hl : st.opened.lookup c with
            | none =>
              simp only [pairStep, lookup_openPairs, hl, Option.map_none] at hn2
              have e : openPairs st.opened ++ [(c, cur)] = openPairs (st.opened ++ [(c, cur, st.pending)]) := by
                simp [openPairs]
              rw [e] at hn2
              exact ih _ sf (by simpa [hpv] using h) (by simpa [hpv] using hn2)
            | some as =>
              obtain ⟨a, s1⟩ := as
              have hne : a ≠ cur := hn1 a (by rw [lookup_openPairs, hl]; rfl)
              have hb : (a == cur) = false := by simp [hne]
              simp only [hb, Bool.false_eq_true, if_false]
              simp only [pairStep, lookup_openPairs, hl, Option.map_some, filter_openPairs] at hn2
              exact ih _ sf (by simpa [hpv] using h) (by simpa [hpv] using hn2)
        · cases hw
      | lpar =>
        simp only [wStep] at hw
        cases hpv : st.prev with
        | none => simp [hpv] at hw
        | some p =>
          simp only [hpv] at hw h hn
          split at hw
          · cases hw
          · rename_i hp
            simp only [Option.some.injEq] at hw
            subst hw
            have hpend : st.pending.isSome = false := by simpa using hp
            simp only [rrun, rstep, hpv, hpend, Bool.false_eq_true, if_false]
            exact ih _ sf (by simpa [hpv, hpend] using h) (by simpa [hpv, te_lpar_some] using hn)
      | rpar =>
        simp only [wStep] at hw
        cases hs : st.stack with
        | nil => simp [hs] at hw
        | cons p stk =>
          simp only [hs] at hw h hn
          split at hw
          · cases hw
          · rename_i hp
            simp only [Option.some.injEq] at hw
            subst hw
            have hpend : st.pending.isSome = false := by simpa using hp
            simp only [rrun, rstep, hs, hpend, Bool.false_eq_true, if_false]
            exact ih _ sf (by simpa [hpend] using h) (by simpa [te_rpar_cons] using hn)
      | dot =>
        simp only [wStep, Option.some.injEq] at hw
        subst hw
        simp only [rrun, rstep]
        exact ih _ sf (by simpa using h) (by simpa using hn)

/-- **the reader raises no error on the writer's text** (given a well-formed traversal in which every closure atom is
    written once and every cycle has its two ends) -/
theorem writer_readToks_ok (m : Mol) (env : Env) (opts : Opts) (rs : List Round) (order : List Nat)
    (h : smilesRounds m env opts = .ok (rs, order))
    (hwf : cyclesWF [] [] (rs.flatMap roundCycles) = true)
    (honce : ((rs.flatMap roundCAtoms).map (·.n)).Nodup)
    (hclosed : (pairAll [] (rs.flatMap cycleEvents)).1 = []) :
    ∃ es, readToks (joinRounds rs) = .ok es := by
  obtain ⟨hs, _⟩ := smilesRounds_spec m env opts rs order h
  obtain ⟨f, hev, hinj, hrd, hce⟩ := writer_facts m env opts rs order h hwf
  obtain ⟨p', hshape⟩ := wShape_rounds m opts rs hs none
  have hns : NoSelf [] (rs.flatMap cycleEvents) := by
    rw [← hce]
    exact noSelf_atoms _ [] honce hrd (by simp)
  have hns' := noSelf_mapKeys f _ [] hinj hns
  rw [← hev] at hns'
  obtain ⟨st', hrun, hfin⟩ := rrun_ok (joinRounds rs) {} (p', false, []) (by simpa using hshape)
    (by simpa [openPairs, mapKeys] using hns')
  obtain ⟨new, _, hp⟩ := rrun_events (joinRounds rs) {} st' hrun
  simp only [openPairs, List.map_nil] at hp
  have hpm := pairAll_mapKeys f _ [] hinj
  simp only [mapKeys, List.map_nil] at hpm
  rw [hev, hpm, hclosed] at hp
  simp only [List.map_nil, Prod.mk.injEq] at hp
  have hop : st'.opened = [] := by
    have := hp.1
    cases ho : st'.opened with
    | nil => rfl
    | cons x xs => rw [ho] at this; simp [openPairs] at this
  simp only [Prod.mk.injEq] at hfin
  refine ⟨st'.edges.reverse, ?_⟩
  unfold readToks
  rw [hrun]
  have hstk : st'.stack = [] := hfin.2.2
  have hpend : st'.pending.isSome = false := hfin.2.1
  simp [hstk, hop, hpend]

end ChythonModel.Proofs.C02
