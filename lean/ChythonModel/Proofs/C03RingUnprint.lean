import ChythonModel.Proofs.C03RingDefs
/-!
# C03 — whatever `parser` accepts (ring-closure tokens included) is the printing `printR` of a syntax tree whose atoms
carry their ring bonds
-/
set_option linter.unusedSimpArgs false
namespace ChythonModel.Proofs.C03
open ChythonModel.Model.C03 ChythonModel.Spec.Smiles

/-- continuations of the atoms on the branch stack, innermost first, separated by `)` (ring bonds printed) -/
def printStackB : List (K B) → List (Sym B)
  | [] => []
  | [k] => printKR (·.2) k
  | k :: tl => printKR (·.2) k ++ .rpar :: printStackB tl

theorem printStackB_cons (k : K B) (k2 : K B) (tl : List (K B)) :
    printStackB (k :: k2 :: tl) = printKR (·.2) k ++ .rpar :: printStackB (k2 :: tl) := rfl

theorem printStackB_head (pre : List (Sym B)) (k k' : K B) (tl : List (K B))
    (h : printKR (·.2) k' = pre ++ printKR (·.2) k) :
    printStackB (k' :: tl) = pre ++ printStackB (k :: tl) := by
  cases tl with
  | nil => simpa [printStackB] using h
  | cons k2 tl2 => simp [printStackB, h]

theorem toToksB_append (x y : List (Sym B)) : toToksB (x ++ y) = toToksB x ++ toToksB y := by
  simp [toToksB]

theorem next_toks (l : Link) (ty : Nat) (a : AtomTok) (r : List RingBond) (k : K B) (tl : List (K B))
    (hty : coreTok (.atom ty a) = true) :
    toToksB (printStackB (.next l (atomOf ty a, r) k :: tl)) =
      toToksB (printLink l) ++ Tok.atom ty a :: (toToksB (printRings r) ++ toToksB (printStackB (k :: tl))) := by
  rw [printStackB_head (printLink l ++ .atom (atomOf ty a, r) :: printRings r) k _ tl
    (by simp [printKR, printAtomR])]
  simp [toToksB, symTokB, tyOf_atomOf ty a hty, atomOf_snd]

theorem side_toks (l : Link) (ty : Nat) (a : AtomTok) (r : List RingBond) (ki k0 : K B) (tl : List (K B))
    (hty : coreTok (.atom ty a) = true) :
    toToksB (printStackB (.side l (atomOf ty a, r) ki k0 :: tl)) =
      Tok.lpar :: (toToksB (printLink l) ++ Tok.atom ty a ::
        (toToksB (printRings r) ++ toToksB (printStackB (ki :: k0 :: tl)))) := by
  rw [printStackB_head (.lpar :: printLink l ++ .atom (atomOf ty a, r) :: printRings r ++ printKR (·.2) ki ++ [.rpar])
    k0 _ tl (by simp [printKR, printAtomR]), printStackB_cons]
  simp [toToksB, symTokB, tyOf_atomOf ty a hty, atomOf_snd]

/-- closing a ring never leaves a pending bond -/
theorem closeBond_pv {st : PState} {strong : Bool} {c : Cyc} {b : Nat} {sb : SBonds} {pv : Option PB}
    {lg : List String} (h : closeBond st strong c = .ok (b, sb, pv, lg)) : pv = none := by
  unfold closeBond at h
  dsimp only at h
  repeat' (split at h)
  all_goals first
    | (cases h; rfl)
    | cases h

theorem pstep_cyc_facts {strong : Bool} {st st1 : PState} {n : Nat} (h : pstep strong st (.cyc n) = .ok st1) :
    st1.previous = none ∧ st1.stack = st.stack ∧ st1.atoms = st.atoms := by
  simp only [pstep] at h
  split at h
  · cases h
  · split at h
    · cases h
    · split at h
      · cases h; exact ⟨rfl, rfl, rfl⟩
      · split at h
        · cases h
        · rename_i hcb
          split at h
          · cases h
          · cases h
            exact ⟨closeBond_pv hcb, rfl, rfl⟩

theorem noRingAfterClose_tail {t : Tok} {w : List Tok} (h : noRingAfterClose (t :: w) = true) :
    noRingAfterClose w = true := by
  cases t <;> simp [noRingAfterClose] at h <;> first | exact h | exact h.2

theorem ringTok_atom {ty : Nat} {a : AtomTok} (h : ringTok (.atom ty a) = true) : coreTok (.atom ty a) = true := h

/-- shape of the result for `( link atom ringbond* …` once the rest has been inverted -/
theorem build_side (n : Nat) (l : Link) (ty : Nat) (a : AtomTok) (pre : List Tok) (w3 : List Tok)
    (rbs : List RingBond) (ks : List (K B))
    (hty : coreTok (.atom ty a) = true) (hpre : toToksB (printLink l : List (Sym B)) = pre)
    (hlen : ks.length = (n + 1) + 1) (hw : w3 = toToksB (printRings rbs) ++ toToksB (printStackB ks)) :
    ∃ ks' : List (K B), ks'.length = n + 1 ∧
      Tok.lpar :: (pre ++ Tok.atom ty a :: w3) = toToksB (printStackB ks') := by
  match ks, hlen with
  | ki :: k0 :: rest, hlen =>
    refine ⟨.side l (atomOf ty a, rbs) ki k0 :: rest, by simpa using hlen, ?_⟩
    rw [side_toks l ty a rbs ki k0 rest hty, hw, hpre]

/-- **inversion of the parser, ring closures included**: an accepted run from a state between two tokens, ending with
    empty stack and no pending bond, reads the ring bonds of the preceding atom and then one continuation per open
    branch -/
theorem unprintR (strong : Bool) : ∀ (w : List Tok) (st st' : PState), st.atoms ≠ [] → st.previous = none →
    (∀ t ∈ w, ringTok t = true) → noEmptyOpen w = true → noRingAfterClose w = true →
    prun strong st w = .ok st' → st'.stack = [] → st'.previous = none →
    ∃ (rbs : List RingBond) (ks : List (K B)), ks.length = st.stack.length + 1 ∧
      w = toToksB (printRings rbs) ++ toToksB (printStackB ks) ∧ (rbs ≠ [] → startsRing w = true)
  | [], st, st', _, _, _, _, _, hrun, hst, _ => by
    simp only [prun] at hrun
    cases hrun
    exact ⟨[], [.done], by simp [hst], rfl, fun h => absurd rfl h⟩
  | t :: w, st, st', hne, hp, hring, hneo, hnrac, hrun, hst, hpv => by
    obtain ⟨st1, h1, hrun1⟩ := prun_cons_ok hrun
    have hring' : ∀ u ∈ w, ringTok u = true := fun u hu => hring u (by simp [hu])
    have hneo' := noEmptyOpen_tail hneo
    have hnrac' := noRingAfterClose_tail hnrac
    cases t with
    | other ty v => have := hring (.other ty v) (by simp); simp [ringTok, coreTok] at this
    | cyc n =>
      obtain ⟨c1, c2, c3⟩ := pstep_cyc_facts h1
      obtain ⟨rbs, ks, hlen, hw, _⟩ := unprintR strong w st1 st' (by rw [c3]; exact hne) c1 hring' hneo' hnrac' hrun1 hst hpv
      refine ⟨⟨.none, n⟩ :: rbs, ks, by rw [hlen, c2], ?_, fun _ => rfl⟩
      rw [hw]
      simp [printRings, printRing, toToksB, symTokB]
    | rpar =>
      simp only [pstep, hp, Option.isSome_none, Bool.false_eq_true, if_false] at h1
      split at h1
      · cases h1
      · rename_i x tl hstk
        cases h1
        obtain ⟨rbs, ks, hlen, hw, hsr⟩ := unprintR strong w { st with lastNum := x, stack := tl, previous := none } st' hne rfl
          hring' hneo' hnrac' hrun1 hst hpv
        have hnr : startsRing w = false := by
          simp only [noRingAfterClose, Bool.and_eq_true, Bool.not_eq_true'] at hnrac
          exact hnrac.1
        have hrbs : rbs = [] := by
          cases rbs with
          | nil => rfl
          | cons r rs => have := hsr (by simp); rw [hnr] at this; cases this
        subst hrbs
        refine ⟨[], .done :: ks, by simp [hlen, hstk], ?_, fun h => absurd rfl h⟩
        cases ks with
        | nil => simp at hlen
        | cons k ktl => rw [printStackB_cons, hw]; simp [printRings, printKR, toToksB, symTokB]
    | atom ty a =>
      obtain ⟨f1, f2, f3⟩ := pstep_atom_facts hne h1
      obtain ⟨rbs, ks, hlen, hw, _⟩ := unprintR strong w st1 st' f3 f1 hring' hneo' hnrac' hrun1 hst hpv
      have hty := ringTok_atom (hring (.atom ty a) (by simp))
      cases ks with
      | nil => simp at hlen
      | cons k ktl =>
        refine ⟨[], .next .implicit (atomOf ty a, rbs) k :: ktl, by simpa [f2] using hlen, ?_, fun h => absurd rfl h⟩
        rw [next_toks _ ty a rbs k ktl hty, hw]
        simp [printRings, printLink, toToksB]
    | bond o =>
      simp only [pstep, hp, Option.isSome_none, Bool.false_eq_true, if_false] at h1
      split at h1
      · cases h1
      · cases h1
        cases w with
        | nil => simp only [prun] at hrun1; cases hrun1; cases hpv
        | cons u w2 =>
          obtain ⟨st2, h2, hrun2⟩ := prun_cons_ok hrun1
          have hu := hring' u (by simp)
          have hring2 : ∀ v ∈ w2, ringTok v = true := fun v hv => hring' v (by simp [hv])
          cases u with
          | other ty v => simp [ringTok, coreTok] at hu
          | atom ty a =>
            obtain ⟨f1, f2, f3⟩ := pstep_atom_facts (st := { st with previous := some (.bond o) }) hne h2
            obtain ⟨rbs, ks, hlen, hw, _⟩ := unprintR strong w2 st2 st' f3 f1 hring2
              (noEmptyOpen_tail hneo') (noRingAfterClose_tail hnrac') hrun2 hst hpv
            have hty := ringTok_atom hu
            cases ks with
            | nil => simp at hlen
            | cons k ktl =>
              refine ⟨[], .next (.explicit o) (atomOf ty a, rbs) k :: ktl, by simpa [f2] using hlen, ?_,
                fun h => absurd rfl h⟩
              rw [next_toks _ ty a rbs k ktl hty, hw]
              simp [printRings, printLink, toToksB, symTokB]
          | cyc n =>
            obtain ⟨c1, c2, c3⟩ := pstep_cyc_facts h2
            obtain ⟨rbs, ks, hlen, hw, _⟩ := unprintR strong w2 st2 st' (by rw [c3]; exact hne) c1 hring2
              (noEmptyOpen_tail hneo') (noRingAfterClose_tail hnrac') hrun2 hst hpv
            refine ⟨⟨.order o, n⟩ :: rbs, ks, by rw [hlen, c2], ?_, fun _ => rfl⟩
            rw [hw]
            simp [printRings, printRing, toToksB, symTokB]
          | _ => simp [pstep] at h2
    | dir b =>
      simp only [pstep, hp, Option.isSome_none, Bool.false_eq_true, if_false] at h1
      split at h1
      · cases h1
      · cases h1
        cases w with
        | nil => simp only [prun] at hrun1; cases hrun1; cases hpv
        | cons u w2 =>
          obtain ⟨st2, h2, hrun2⟩ := prun_cons_ok hrun1
          have hu := hring' u (by simp)
          have hring2 : ∀ v ∈ w2, ringTok v = true := fun v hv => hring' v (by simp [hv])
          cases u with
          | other ty v => simp [ringTok, coreTok] at hu
          | atom ty a =>
            obtain ⟨f1, f2, f3⟩ := pstep_atom_facts (st := { st with previous := some (.dir b) }) hne h2
            obtain ⟨rbs, ks, hlen, hw, _⟩ := unprintR strong w2 st2 st' f3 f1 hring2
              (noEmptyOpen_tail hneo') (noRingAfterClose_tail hnrac') hrun2 hst hpv
            have hty := ringTok_atom hu
            cases ks with
            | nil => simp at hlen
            | cons k ktl =>
              refine ⟨[], .next (.dir b) (atomOf ty a, rbs) k :: ktl, by simpa [f2] using hlen, ?_,
                fun h => absurd rfl h⟩
              rw [next_toks _ ty a rbs k ktl hty, hw]
              simp [printRings, printLink, toToksB, symTokB]
          | cyc n =>
            obtain ⟨c1, c2, c3⟩ := pstep_cyc_facts h2
            obtain ⟨rbs, ks, hlen, hw, _⟩ := unprintR strong w2 st2 st' (by rw [c3]; exact hne) c1 hring2
              (noEmptyOpen_tail hneo') (noRingAfterClose_tail hnrac') hrun2 hst hpv
            refine ⟨⟨.dir b, n⟩ :: rbs, ks, by rw [hlen, c2], ?_, fun _ => rfl⟩
            rw [hw]
            simp [printRings, printRing, toToksB, symTokB]
          | _ => simp [pstep] at h2
    | dot =>
      simp only [pstep, hp, Option.isSome_none, Bool.false_eq_true, if_false] at h1
      split at h1
      · cases h1
      · cases h1
        cases w with
        | nil => simp only [prun] at hrun1; cases hrun1; cases hpv
        | cons u w2 =>
          obtain ⟨st2, h2, hrun2⟩ := prun_cons_ok hrun1
          have hu := hring' u (by simp)
          have hring2 : ∀ v ∈ w2, ringTok v = true := fun v hv => hring' v (by simp [hv])
          cases u with
          | other ty v => simp [ringTok, coreTok] at hu
          | atom ty a =>
            obtain ⟨f1, f2, f3⟩ := pstep_atom_facts (st := { st with previous := some .dot }) hne h2
            obtain ⟨rbs, ks, hlen, hw, _⟩ := unprintR strong w2 st2 st' f3 f1 hring2
              (noEmptyOpen_tail hneo') (noRingAfterClose_tail hnrac') hrun2 hst hpv
            have hty := ringTok_atom hu
            cases ks with
            | nil => simp at hlen
            | cons k ktl =>
              refine ⟨[], .next .dot (atomOf ty a, rbs) k :: ktl, by simpa [f2] using hlen, ?_,
                fun h => absurd rfl h⟩
              rw [next_toks _ ty a rbs k ktl hty, hw]
              simp [printRings, printLink, toToksB, symTokB]
          | _ => simp [pstep] at h2
    | lpar =>
      simp only [pstep, hp, Option.isSome_none, Bool.false_eq_true, if_false] at h1
      cases h1
      cases w with
      | nil => simp only [prun] at hrun1; cases hrun1; simp at hst
      | cons u w2 =>
        obtain ⟨st2, h2, hrun2⟩ := prun_cons_ok hrun1
        have hu := hring' u (by simp)
        have hring2 : ∀ v ∈ w2, ringTok v = true := fun v hv => hring' v (by simp [hv])
        cases u with
        | other ty v => simp [ringTok, coreTok] at hu
        | cyc n => simp [pstep, hp] at h2
        | lpar => simp [noEmptyOpen, pairOK] at hneo
        | rpar => simp [noEmptyOpen, pairOK] at hneo
        | atom ty a =>
          obtain ⟨f1, f2, f3⟩ := pstep_atom_facts
            (st := { st with stack := st.lastNum :: st.stack, opened := true, previous := none }) hne h2
          obtain ⟨rbs, ks, hlen, hw, _⟩ := unprintR strong w2 st2 st' f3 f1 hring2
            (noEmptyOpen_tail hneo') (noRingAfterClose_tail hnrac') hrun2 hst hpv
          obtain ⟨ks', hl', hw'⟩ := build_side st.stack.length .implicit ty a [] w2 rbs ks (ringTok_atom hu) rfl
            (by rw [hlen, f2]; rfl) hw
          exact ⟨[], ks', hl', by simpa [printRings, toToksB] using hw', fun h => absurd rfl h⟩
        | bond o =>
          simp only [pstep, hp, Option.isSome_none, Bool.false_eq_true, if_false] at h2
          split at h2
          · cases h2
          · cases h2
            cases w2 with
            | nil => simp only [prun] at hrun2; cases hrun2; cases hpv
            | cons u3 w3 =>
              obtain ⟨st3, h3, hrun3⟩ := prun_cons_ok hrun2
              have hu3 := hring2 u3 (by simp)
              cases u3 with
              | other ty v => simp [ringTok, coreTok] at hu3
              | atom ty a =>
                obtain ⟨f1, f2, f3⟩ := pstep_atom_facts
                  (st := { st with stack := st.lastNum :: st.stack, opened := true, previous := some (.bond o) }) hne h3
                obtain ⟨rbs, ks, hlen, hw, _⟩ := unprintR strong w3 st3 st' f3 f1 (fun v hv => hring2 v (by simp [hv]))
                  (noEmptyOpen_tail (noEmptyOpen_tail hneo')) (noRingAfterClose_tail (noRingAfterClose_tail hnrac'))
                  hrun3 hst hpv
                obtain ⟨ks', hl', hw'⟩ := build_side st.stack.length (.explicit o) ty a [.bond o] w3 rbs ks
                  (ringTok_atom hu3) rfl (by rw [hlen, f2]; rfl) hw
                exact ⟨[], ks', hl', by simpa [printRings, toToksB] using hw', fun h => absurd rfl h⟩
              | _ => simp [pstep] at h3
        | dir b =>
          simp only [pstep, hp, Option.isSome_none, Bool.false_eq_true, if_false] at h2
          split at h2
          · cases h2
          · cases h2
            cases w2 with
            | nil => simp only [prun] at hrun2; cases hrun2; cases hpv
            | cons u3 w3 =>
              obtain ⟨st3, h3, hrun3⟩ := prun_cons_ok hrun2
              have hu3 := hring2 u3 (by simp)
              cases u3 with
              | other ty v => simp [ringTok, coreTok] at hu3
              | atom ty a =>
                obtain ⟨f1, f2, f3⟩ := pstep_atom_facts
                  (st := { st with stack := st.lastNum :: st.stack, opened := true, previous := some (.dir b) }) hne h3
                obtain ⟨rbs, ks, hlen, hw, _⟩ := unprintR strong w3 st3 st' f3 f1 (fun v hv => hring2 v (by simp [hv]))
                  (noEmptyOpen_tail (noEmptyOpen_tail hneo')) (noRingAfterClose_tail (noRingAfterClose_tail hnrac'))
                  hrun3 hst hpv
                obtain ⟨ks', hl', hw'⟩ := build_side st.stack.length (.dir b) ty a [.dir b] w3 rbs ks
                  (ringTok_atom hu3) rfl (by rw [hlen, f2]; rfl) hw
                exact ⟨[], ks', hl', by simpa [printRings, toToksB] using hw', fun h => absurd rfl h⟩
              | _ => simp [pstep] at h3
        | dot =>
          simp only [pstep, hp, Option.isSome_none, Bool.false_eq_true, if_false] at h2
          split at h2
          · cases h2
          · cases h2
            cases w2 with
            | nil => simp only [prun] at hrun2; cases hrun2; cases hpv
            | cons u3 w3 =>
              obtain ⟨st3, h3, hrun3⟩ := prun_cons_ok hrun2
              have hu3 := hring2 u3 (by simp)
              cases u3 with
              | other ty v => simp [ringTok, coreTok] at hu3
              | atom ty a =>
                obtain ⟨f1, f2, f3⟩ := pstep_atom_facts
                  (st := { st with stack := st.lastNum :: st.stack, opened := true, previous := some .dot }) hne h3
                obtain ⟨rbs, ks, hlen, hw, _⟩ := unprintR strong w3 st3 st' f3 f1 (fun v hv => hring2 v (by simp [hv]))
                  (noEmptyOpen_tail (noEmptyOpen_tail hneo')) (noRingAfterClose_tail (noRingAfterClose_tail hnrac'))
                  hrun3 hst hpv
                obtain ⟨ks', hl', hw'⟩ := build_side st.stack.length .dot ty a [.dot] w3 rbs ks
                  (ringTok_atom hu3) rfl (by rw [hlen, f2]; rfl) hw
                exact ⟨[], ks', hl', by simpa [printRings, toToksB] using hw', fun h => absurd rfl h⟩
              | _ => simp [pstep] at h3
termination_by w => w.length

/-- **whatever the parser accepts is in the grammar, ring closures included**: a token sequence over atoms, bonds,
    direction marks, dots, parentheses and ring-closure numbers that starts with an atom, has no `((` / `()`, no ring
    bond directly after a `)`, and is accepted by `parser`, is the printing of a syntax tree whose atoms carry their
    ring bonds -/
theorem parse_unprintR_gen (strong : Bool) (ty : Nat) (a : AtomTok) (rest : List Tok) (st : PState)
    (hring : ∀ t ∈ Tok.atom ty a :: rest, ringTok t = true)
    (hneo : noEmptyOpen (Tok.atom ty a :: rest) = true)
    (hnrac : noRingAfterClose (Tok.atom ty a :: rest) = true)
    (h : parse strong (Tok.atom ty a :: rest) = .ok st) :
    ∃ c : Chain B, Tok.atom ty a :: rest = toToksB (printR (·.2) c) := by
  unfold parse at h
  simp only [startCheck, Tok.isAtom, if_true] at h
  cases hrun : prun strong {} (Tok.atom ty a :: rest) with
  | error e => rw [hrun] at h; cases h
  | ok st2 =>
    rw [hrun] at h
    dsimp only at h
    obtain ⟨heq, hstk, hprev⟩ := endCheck_ok h
    obtain ⟨st1, h1, hrun1⟩ := prun_cons_ok hrun
    have hfirst : st1.atoms ≠ [] ∧ st1.previous = none ∧ st1.stack = [] := by
      have : pstep strong {} (Tok.atom ty a) = .ok st1 := h1
      simp only [pstep] at this
      cases this
      exact ⟨by simp, rfl, rfl⟩
    obtain ⟨rbs, ks, hlen, hw, _⟩ := unprintR strong rest st1 st2 hfirst.1 hfirst.2.1
      (fun t ht => hring t (by simp [ht])) (noEmptyOpen_tail hneo) (noRingAfterClose_tail hnrac) hrun1 hstk hprev
    have hty := ringTok_atom (hring (.atom ty a) (by simp))
    match ks, hlen with
    | [k], _ =>
      refine ⟨⟨(atomOf ty a, rbs), k⟩, ?_⟩
      rw [hw]
      simp [printR, printAtomR, toToksB, symTokB, printStackB, tyOf_atomOf ty a hty, atomOf_snd]
    | [], hlen => simp at hlen
    | _ :: _ :: _, hlen => simp [hfirst.2.2] at hlen

theorem parse_unprintR (ty : Nat) (a : AtomTok) (rest : List Tok) (st : PState)
    (hring : ∀ t ∈ Tok.atom ty a :: rest, ringTok t = true)
    (hneo : noEmptyOpen (Tok.atom ty a :: rest) = true)
    (hnrac : noRingAfterClose (Tok.atom ty a :: rest) = true)
    (h : parse false (Tok.atom ty a :: rest) = .ok st) :
    ∃ c : Chain B, Tok.atom ty a :: rest = toToksB (printR (·.2) c) :=
  parse_unprintR_gen false ty a rest st hring hneo hnrac h

end ChythonModel.Proofs.C03
