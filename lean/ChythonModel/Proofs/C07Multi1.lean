import ChythonModel.Proofs.C07Top
import ChythonModel.Proofs.C07Product
/-!
The multi-component branch of `Isomorphism._get_mapping` as a plain list:
`permutations(connected_components, k)`, one `_get_mapping` generator per (pattern component, target component) pair,
`lazy_product`, dict merge.
-/
namespace ChythonModel.Proofs.C07
open ChythonModel.Model.Iso ChythonModel.Spec.Embedding

/-- the per-pair results of one assignment of target components to pattern components -/
def mapperList (p : Problem) (cl : Closures) (comps : List (List Step)) (cands : List (List Nat)) : List (List Dict) :=
  List.zipWith (fun lq cand => recMapping (mkEnv p cl lq (restrict p.scope cand))) comps cands

/-- `mapping = match[0].copy(); for m in match[1:]: mapping.update(m)` made total -/
def mergeD (ms : List Dict) : Dict := (mergeDicts ms).getD []

theorem mappersFor_eq (p : Problem) (cl : Closures) :
    ∀ (comps : List (List Step)), (∀ lq ∈ comps, ∀ cand, getMapping (mkEnv p cl lq (restrict p.scope cand)) =
      some (recMapping (mkEnv p cl lq (restrict p.scope cand)))) → ∀ (cands : List (List Nat)),
      mappersFor p cl comps cands = some (some (mapperList p cl comps cands)) ∨
      (mappersFor p cl comps cands = some none ∧ [] ∈ mapperList p cl comps cands) := by
  intro comps
  induction comps with
  | nil => intro _ cands; left; simp [mappersFor, mapperList]
  | cons lq lqs ih =>
    intro hgm cands
    have ih := ih (fun l hl => hgm l (by simp [hl]))
    cases cands with
    | nil => left; simp [mappersFor, mapperList]
    | cons cand cands =>
      unfold mappersFor
      by_cases hc : (scopeActive p.scope && (restrict p.scope cand).isEmpty) = true
      · right
        simp only [hc, if_true, true_and]
        have hemp : (restrict p.scope cand) = [] := by
          simp only [Bool.and_eq_true, List.isEmpty_iff] at hc
          exact hc.2
        have : recMapping (mkEnv p cl lq (restrict p.scope cand)) = [] := by
          apply recMapping_empty_scope
          intro n
          simp [mkEnv, hemp]
        simp [mapperList, this]
      · have hc' : (scopeActive p.scope && (restrict p.scope cand).isEmpty) = false := by simpa using hc
        simp only [hc', Bool.false_eq_true, if_false, hgm lq (by simp) cand, Option.bind_eq_bind, Option.bind_some]
        rcases ih cands with h | ⟨h, hmem⟩
        · left
          rw [h]
          simp [mapperList]
        · right
          rw [h]
          refine ⟨by simp, ?_⟩
          simp only [mapperList, List.zipWith_cons_cons, List.mem_cons]
          right
          exact hmem

theorem mapM_mergeDicts (l : List (List Dict)) (h : ∀ ms ∈ l, ms ≠ []) : l.mapM mergeDicts = some (l.map mergeD) := by
  apply mapM_option_of_forall
  intro ms hms
  cases ms with
  | nil => exact absurd rfl (h [] hms)
  | cons a r => simp [mergeD, mergeDicts]

theorem lazyProduct_mem {α} (args : List (List α)) (x : List α) :
    x ∈ lazyProduct args ↔ List.Forall₂ (· ∈ ·) x args := by
  rw [(lazyProduct_perm args).mem_iff, mem_cartesian]

theorem lazyProduct_nil_of_mem {α} (args : List (List α)) (h : [] ∈ args) : lazyProduct args = [] := by
  have hp := lazyProduct_perm args
  have : cartesian args = [] := (cartesian_eq_nil_iff args).2 ⟨[], h, rfl⟩
  rw [this] at hp
  exact List.Perm.eq_nil hp

/-- the result of one assignment -/
def tupleResult (p : Problem) (cl : Closures) (comps : List (List Step)) (cands : List (List Nat)) : List Dict :=
  (lazyProduct (mapperList p cl comps cands)).map mergeD

/-- the unfiltered result of `Isomorphism._get_mapping` for a pattern with several components, as a plain list -/
theorem isoUnfiltered_multi (p : Problem) (cl : Closures) (comps : List (List Step)) (hne : comps ≠ [])
    (hk : ∀ lq, comps ≠ [lq])
    (hgm : ∀ lq ∈ comps, ∀ cand, getMapping (mkEnv p cl lq (restrict p.scope cand)) =
      some (recMapping (mkEnv p cl lq (restrict p.scope cand)))) :
    isoUnfiltered p comps cl =
      some ((permutations p.tComps comps.length).flatMap (tupleResult p cl comps)) := by
  -- every element of `permutations l r` has length r
  have hpl : ∀ (r : Nat) (l : List (List Nat)) (x : List (List Nat)), x ∈ permutations l r → x.length = r := by
    intro r
    induction r with
    | zero => intro l x hx; simp [permutations] at hx; simp [hx]
    | succ r ih =>
      intro l x hx
      simp only [permutations, List.mem_flatMap, List.mem_map] at hx
      obtain ⟨⟨y, rest⟩, _, tl, htl, rfl⟩ := hx
      simp [ih rest tl htl]
  -- the tuples have as many entries as there are components (≥ 1)
  have hlen : ∀ cands : List (List Nat), cands.length = comps.length →
      ∀ ms ∈ lazyProduct (mapperList p cl comps cands), ms ≠ [] := by
    intro cands hl ms hms
    rw [lazyProduct_mem] at hms
    have := hms.length_eq
    intro h
    rw [h] at this
    simp only [List.length_nil, mapperList, List.length_zipWith] at this
    have : comps.length = 0 := by omega
    exact hne (List.eq_nil_of_length_eq_zero this)
  unfold isoUnfiltered
  split
  · rename_i lq
    exact absurd rfl (hk lq)
  · rw [foldlM_append _ (tupleResult p cl comps)]
    · simp
    · intro cands hcands acc
      have hcl : cands.length = comps.length := hpl _ _ _ hcands
      rcases mappersFor_eq p cl comps hgm cands with h | ⟨h, hmem⟩
      · rw [h]
        simp only [Option.bind_eq_bind, Option.bind_some]
        rw [mapM_mergeDicts _ (hlen cands hcl)]
        rfl
      · rw [h]
        simp only [Option.bind_eq_bind, Option.bind_some]
        simp [tupleResult, lazyProduct_nil_of_mem _ hmem]

end ChythonModel.Proofs.C07
