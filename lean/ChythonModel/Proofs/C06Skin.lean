import ChythonModel.Model.C06Rings
/-!
# `_skin_graph` computes the 2-core

* `skinLoop_fuel`     : the fuel given by `skinGraph` always suffices (the Python loop terminates).
* `skin_min_degree`   : every surviving atom keeps ≥ 2 neighbours.
* `skin_sub`          : the result is a subgraph of the input (keys and neighbour lists only shrink).
* `skin_keeps`        : any atom set `S` in which every atom has ≥ 2 neighbours inside `S` survives untouched —
                        the result is the *largest* subgraph of minimum degree 2, so in particular every cycle survives.
-/
namespace ChythonModel.Proofs.C06
open ChythonModel.Model.C06

/-! ## association-list helpers -/

theorem mem_of_lookup {g : Adj} {a : Nat} {ms : List Nat} (h : g.lookup a = some ms) : (a, ms) ∈ g := by
  induction g with
  | nil => simp at h
  | cons p g ih =>
    obtain ⟨k, v⟩ := p
    rw [List.lookup_cons] at h
    split at h
    · next hk =>
      have : a = k := by simpa using hk
      subst this
      simp only [Option.some.injEq] at h; subst h
      exact List.mem_cons_self ..
    · exact List.mem_cons_of_mem _ (ih h)

theorem lookup_of_mem {g : Adj} (hn : (keys g).Nodup) {a : Nat} {ms : List Nat} (h : (a, ms) ∈ g) :
    g.lookup a = some ms := by
  induction g with
  | nil => cases h
  | cons p g ih =>
    obtain ⟨k, v⟩ := p
    simp only [keys, List.map_cons, List.nodup_cons] at hn
    rw [List.lookup_cons]
    rcases List.mem_cons.1 h with h1 | h2
    · cases h1; simp
    · have hk : a ≠ k := by
        intro e; subst e
        exact hn.1 (List.mem_map.2 ⟨(a, ms), h2, rfl⟩)
      have : (a == k) = false := by simpa using hk
      rw [this]
      exact ih hn.2 h2

theorem nbrsOf_of_mem {g : Adj} (hn : (keys g).Nodup) {a : Nat} {ms : List Nat} (h : (a, ms) ∈ g) :
    nbrsOf g a = ms := by
  simp [nbrsOf, lookup_of_mem hn h]

/-! ## one step -/

/-- the explicit form of a successful step -/
theorem skinStep_some {g g' : Adj} (h : skinStep g = some g') :
    ∃ n popped, (n, popped) ∈ g ∧ popped.length ≤ 1 ∧
      g' = (g.filter fun p => p.1 != n).map fun p =>
        (p.1, if popped.contains p.1 then p.2.filter (· != n) else p.2) := by
  unfold skinStep at h
  split at h
  · cases h
  · next n popped hf =>
    simp only [Option.some.injEq] at h
    refine ⟨n, popped, List.mem_of_find?_eq_some hf, ?_, h.symm⟩
    simpa using List.find?_some hf

theorem skinStep_none {g : Adj} (h : skinStep g = none) : ∀ p ∈ g, 2 ≤ p.2.length := by
  unfold skinStep at h
  split at h
  · next hf =>
    intro p hp
    have := List.find?_eq_none.1 hf p hp
    simp only [decide_eq_true_eq] at this
    omega
  · cases h

theorem skinStep_length {g g' : Adj} (h : skinStep g = some g') : g'.length < g.length := by
  obtain ⟨n, popped, hmem, _, rfl⟩ := skinStep_some h
  rw [List.length_map]
  exact List.length_filter_lt_length_iff_exists.2 ⟨(n, popped), hmem, by simp⟩

theorem skinStep_keys_sublist {g g' : Adj} (h : skinStep g = some g') : (keys g').Sublist (keys g) := by
  obtain ⟨n, popped, _, _, rfl⟩ := skinStep_some h
  simp only [keys, List.map_map]
  have : ((fun p : Nat × List Nat => p.1) ∘ fun p : Nat × List Nat =>
      (p.1, if popped.contains p.1 then p.2.filter (· != n) else p.2)) = fun p => p.1 := by
    funext p; rfl
  rw [this]
  exact List.Sublist.map _ List.filter_sublist

/-- subgraph relation on adjacency dicts -/
def Sub (s g : Adj) : Prop := ∀ p ∈ s, ∃ q ∈ g, q.1 = p.1 ∧ ∀ k ∈ p.2, k ∈ q.2

theorem Sub.refl (g : Adj) : Sub g g := fun p hp => ⟨p, hp, rfl, fun _ h => h⟩

theorem Sub.trans {a b c : Adj} (h1 : Sub a b) (h2 : Sub b c) : Sub a c := by
  intro p hp
  obtain ⟨q, hq, e1, s1⟩ := h1 p hp
  obtain ⟨r, hr, e2, s2⟩ := h2 q hq
  exact ⟨r, hr, e2.trans e1, fun k hk => s2 k (s1 k hk)⟩

theorem skinStep_sub {g g' : Adj} (h : skinStep g = some g') : Sub g' g := by
  obtain ⟨n, popped, _, _, rfl⟩ := skinStep_some h
  intro p hp
  obtain ⟨q, hq, rfl⟩ := List.mem_map.1 hp
  refine ⟨q, (List.mem_filter.1 hq).1, rfl, ?_⟩
  intro k hk
  dsimp only at hk
  split at hk
  · exact (List.mem_filter.1 hk).1
  · exact hk

/-! ## the loop -/

theorem skinLoop_fuel : ∀ (f : Nat) (g : Adj), g.length ≤ f → (skinLoop f g).isSome = true
  | 0, g, h => by
    have : g = [] := List.eq_nil_of_length_eq_zero (by omega)
    subst this; rfl
  | f + 1, g, h => by
    unfold skinLoop
    cases hs : skinStep g with
    | none => rfl
    | some g' =>
      have := skinStep_length hs
      exact skinLoop_fuel f g' (by omega)

theorem skinLoop_induct (P : Adj → Prop) (hstep : ∀ g g', P g → skinStep g = some g' → P g') :
    ∀ (f : Nat) (g s : Adj), P g → skinLoop f g = some s → P s ∧ skinStep s = none
  | 0, g, s, hP, h => by
    unfold skinLoop at h
    cases hs : skinStep g with
    | none => rw [hs] at h; simp only [Option.some.injEq] at h; subst h; exact ⟨hP, hs⟩
    | some g' => rw [hs] at h; cases h
  | f + 1, g, s, hP, h => by
    unfold skinLoop at h
    cases hs : skinStep g with
    | none => rw [hs] at h; simp only [Option.some.injEq] at h; subst h; exact ⟨hP, hs⟩
    | some g' => rw [hs] at h; exact skinLoop_induct P hstep f g' s (hstep g g' hP hs) h

theorem skinGraph_isSome (g : Adj) : (skinGraph g).isSome = true :=
  skinLoop_fuel _ _ (Nat.le_refl _)

theorem skin_min_degree {g s : Adj} (h : skinGraph g = some s) : ∀ p ∈ s, 2 ≤ p.2.length :=
  skinStep_none (skinLoop_induct (fun _ => True) (fun _ _ _ _ => trivial) _ _ _ trivial h).2

theorem skin_sub {g s : Adj} (h : skinGraph g = some s) : Sub s g := by
  have h0 : Sub (g.filter fun p => !p.2.isEmpty) g := fun p hp => ⟨p, (List.mem_filter.1 hp).1, rfl, fun _ h => h⟩
  exact (skinLoop_induct (fun x => Sub x g) (fun a b ha hs => (skinStep_sub hs).trans ha) _ _ _ h0 h).1

theorem skin_keys_nodup {g s : Adj} (hn : (keys g).Nodup) (h : skinGraph g = some s) : (keys s).Nodup := by
  have h0 : (keys (g.filter fun p => !p.2.isEmpty)).Nodup :=
    List.Nodup.sublist (List.Sublist.map _ List.filter_sublist) hn
  exact (skinLoop_induct (fun x => (keys x).Nodup)
    (fun a b ha hs => List.Nodup.sublist (skinStep_keys_sublist hs) ha) _ _ _ h0 h).1

/-! ## maximality -/

/-- every atom of `S` is still present in `cur` with its `S`-neighbours exactly as in `g0` -/
def Keeps (S : List Nat) (g0 cur : Adj) : Prop :=
  (keys cur).Nodup ∧ ∀ a ∈ S, ∃ ms, (a, ms) ∈ cur ∧ ms.filter (S.contains ·) = (nbrsOf g0 a).filter (S.contains ·)

theorem filter_ne_filter_contains {S : List Nat} {n : Nat} (hn : n ∉ S) (ms : List Nat) :
    (ms.filter (· != n)).filter (S.contains ·) = ms.filter (S.contains ·) := by
  rw [List.filter_filter]
  apply List.filter_congr
  intro x _
  by_cases hx : x = n
  · subst hx; simp [hn]
  · simp [hx]

theorem keeps_step {S : List Nat} {g0 g g' : Adj}
    (hS : ∀ a ∈ S, 2 ≤ ((nbrsOf g0 a).filter (S.contains ·)).length)
    (hk : Keeps S g0 g) (hs : skinStep g = some g') : Keeps S g0 g' := by
  obtain ⟨hnd, hk⟩ := hk
  refine ⟨List.Nodup.sublist (skinStep_keys_sublist hs) hnd, ?_⟩
  obtain ⟨n, popped, hmem, hlen, rfl⟩ := skinStep_some hs
  have hnS : n ∉ S := by
    intro hn
    obtain ⟨ms, hms, hf⟩ := hk n hn
    have e1 := lookup_of_mem hnd hms
    have e2 := lookup_of_mem hnd hmem
    rw [e1] at e2; simp only [Option.some.injEq] at e2; subst e2
    have h2 := hS n hn
    rw [← hf] at h2
    have := List.length_filter_le (fun x => S.contains x) ms
    omega
  intro a ha
  obtain ⟨ms, hms, hf⟩ := hk a ha
  have han : a ≠ n := fun e => hnS (e ▸ ha)
  refine ⟨if popped.contains a then ms.filter (· != n) else ms, ?_, ?_⟩
  · refine List.mem_map.2 ⟨(a, ms), List.mem_filter.2 ⟨hms, by simpa using han⟩, rfl⟩
  · split
    · rw [filter_ne_filter_contains hnS, hf]
    · exact hf

theorem keeps_init {S : List Nat} {g : Adj} (hn : (keys g).Nodup)
    (hS : ∀ a ∈ S, 2 ≤ ((nbrsOf g a).filter (S.contains ·)).length) :
    Keeps S g (g.filter fun p => !p.2.isEmpty) := by
  refine ⟨List.Nodup.sublist (List.Sublist.map _ List.filter_sublist) hn, ?_⟩
  intro a ha
  have h2 := hS a ha
  cases hl : g.lookup a with
  | none => simp [nbrsOf, hl] at h2
  | some ms =>
    have e : nbrsOf g a = ms := by simp [nbrsOf, hl]
    refine ⟨ms, List.mem_filter.2 ⟨mem_of_lookup hl, ?_⟩, by rw [e]⟩
    rw [e] at h2
    cases ms with
    | nil => simp at h2
    | cons _ _ => rfl

/-- **maximality**: an atom set in which everybody has ≥ 2 neighbours inside the set survives `_skin_graph`,
and so do all bonds inside the set -/
theorem skin_keeps {g s : Adj} (hn : (keys g).Nodup) (h : skinGraph g = some s) (S : List Nat)
    (hS : ∀ a ∈ S, 2 ≤ ((nbrsOf g a).filter (S.contains ·)).length) :
    ∀ a ∈ S, a ∈ keys s ∧ ∀ b ∈ S, b ∈ nbrsOf g a → b ∈ nbrsOf s a := by
  have hk := (skinLoop_induct (Keeps S g) (fun a b ha hs => keeps_step hS ha hs) _ _ _ (keeps_init hn hS) h).1
  obtain ⟨hnd, hk⟩ := hk
  intro a ha
  obtain ⟨ms, hms, hf⟩ := hk a ha
  refine ⟨List.mem_map.2 ⟨(a, ms), hms, rfl⟩, ?_⟩
  intro b hb hab
  rw [nbrsOf_of_mem hnd hms]
  have : b ∈ (nbrsOf g a).filter (S.contains ·) := List.mem_filter.2 ⟨hab, by simpa using hb⟩
  rw [← hf] at this
  exact (List.mem_filter.1 this).1

end ChythonModel.Proofs.C06
