import ChythonModel.Proofs.C07Stereo
import ChythonModel.Proofs.C07Sign
/-!
# C07 — what one step of the stereo post-filter computes, in terms of permutation parity / the flip rule

`atomStep` on a tetrahedral image = `label xor (listed neighbour order is an odd permutation of the reference order) == mark`;
`atomStep` on an allene image and `bondStep` = `label xor (exactly one chosen substituent is the second one of its end) == mark`.
-/
namespace ChythonModel.Proofs.C07
open ChythonModel.Gen ChythonModel.Spec ChythonModel.Model.Iso ChythonModel.Model.Stereo

/-- on a labelled tetrahedral image the step is the sign translation of the stored label into the listed neighbour order -/
theorem atomStep_tetra (q : Graph) (tl : TLabels) (mapping : Dict) (n m : Nat) (mark s : Bool) (order env : List Nat)
    (hm : mapping.lookup n = some m) (hl : tl.atom m = some s) (ht : tl.tetra.lookup m = some order)
    (he : imagesOf mapping (q.nbrs n) = .ok env) :
    atomStep q tl mapping n mark =
      (match translateTetra order env tl.isH none (some s) with
       | .ok r => .ok (r == mark)
       | .error e => .error e) := by
  have h1 : translateTetra order env tl.isH (some s) none = translateTetra order env tl.isH none (some s) := by
    simp [translateTetra, pickSign, bind, Except.bind]
  simp only [atomStep, getKey, hm, hl, ht, he, bind, Except.bind, pure, Except.pure, h1]
  cases translateTetra order env tl.isH none (some s) <;> rfl

/-- an unlabelled image rejects the mapping (`break`) -/
theorem atomStep_unlabelled (q : Graph) (tl : TLabels) (mapping : Dict) (n m : Nat) (mark : Bool)
    (hm : mapping.lookup n = some m) (hl : tl.atom m = none) : atomStep q tl mapping n mark = .ok false := by
  simp [atomStep, getKey, hm, hl, bind, Except.bind, pure, Except.pure]

/-- on a labelled allene centre -/
theorem atomStep_allene (q : Graph) (tl : TLabels) (mapping : Dict) (n m : Nat) (mark s : Bool) (ot1 ot2 n1 m1 : Nat) (e : Ends)
    (hm : mapping.lookup n = some m) (hl : tl.atom m = some s) (ht : tl.tetra.lookup m = none)
    (hterm : tl.alleneTerm.lookup m = some (ot1, ot2)) (hal : tl.allenes.lookup m = some e)
    (hpick : pickNeighbours q mapping (reverseDict mapping) e ot1 ot2 = .ok (n1, m1)) :
    atomStep q tl mapping n mark =
      (match translateEnds e tl.isH n1 m1 s with
       | .ok r => .ok (r == mark)
       | .error e => .error e) := by
  simp only [atomStep, getKey, hm, hl, ht, hterm, hal, hpick, bind, Except.bind, pure, Except.pure, translateAllene, pickSign]
  cases translateEnds e tl.isH n1 m1 s <;> rfl

/-- on a labelled double bond whose terminal pair is a key of `stereogenic_cis_trans` -/
theorem bondStep_labelled (q : Graph) (tl : TLabels) (mapping : Dict) (n k on om : Nat) (mark s l : Bool) (ot1 ot2 n1 m1 : Nat)
    (e : Ends) (hn : mapping.lookup n = some on) (hk : mapping.lookup k = some om) (hb : tl.bond on om = some (some l))
    (hterm : tl.ctTerm.lookup on = some (ot1, ot2)) (hct : tl.cisTrans.lookup (ot1, ot2) = some e)
    (hc : centralLabel tl ot1 = some s)
    (hpick : pickNeighbours q mapping (reverseDict mapping) e ot1 ot2 = .ok (n1, m1)) :
    bondStep q tl mapping n k mark =
      (match translateEnds e tl.isH n1 m1 s with
       | .ok r => .ok (r == mark)
       | .error e => .error e) := by
  simp only [bondStep, getKey, hn, hk, hb, hterm, hct, hpick, hc, bind, Except.bind, pure, Except.pure, translateCisTrans,
    pickSign]
  cases translateEnds e tl.isH n1 m1 s <;> rfl

theorem bondStep_unlabelled (q : Graph) (tl : TLabels) (mapping : Dict) (n k on om : Nat) (mark : Bool)
    (hn : mapping.lookup n = some on) (hk : mapping.lookup k = some om) (hb : tl.bond on om = some none) :
    bondStep q tl mapping n k mark = .ok false := by
  simp [bondStep, getKey, hn, hk, hb, bind, Except.bind, pure, Except.pure]

end ChythonModel.Proofs.C07
