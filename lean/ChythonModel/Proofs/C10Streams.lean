import ChythonModel.Proofs.C10Bits
/-!
# C10 helper lemmas: the 12-bit pair stream and the 3-bit order stream, for every length
-/
namespace ChythonModel.Proofs.C10
open ChythonModel.Model.Pack

/-! ## connection table -/

theorem pairDec_pairEnc : ∀ (l : List Nat) (buf : Nat), (∀ m ∈ l, m < 4096) → l.length % 2 = 0 →
    pairDec (pairEnc true buf l) = l
  | [], _, _, _ => by simp [pairEnc, pairDec]
  | [_], _, _, h => by simp at h
  | p :: q :: rest, buf, hb, hl => by
    have hp : p < 4096 := hb p (by simp)
    have hq : q < 4096 := hb q (by simp)
    have ih := pairDec_pairEnc rest (u8 (p <<< 4)) (fun m hm => hb m (by simp [hm])) (by simp at hl; omega)
    obtain ⟨h1, h2⟩ := pair12 p q hp hq
    simp only [pairEnc, pairDec]
    rw [ih, h1, h2]

theorem pairEnc_length : ∀ (l : List Nat) (buf : Nat), l.length % 2 = 0 →
    (pairEnc true buf l).length = 3 * (l.length / 2)
  | [], _, _ => by simp [pairEnc]
  | [_], _, h => by simp at h
  | p :: q :: rest, buf, hl => by
    have ih := pairEnc_length rest (u8 (p <<< 4)) (by simp at hl; omega)
    simp only [pairEnc, List.length_cons, ih]; omega

theorem pairEnc_lt : ∀ (l : List Nat) (b : Bool) (buf : Nat), ∀ x ∈ pairEnc b buf l, x < 256
  | [], b, buf => by cases b <;> simp [pairEnc]
  | m :: rest, true, buf => by
    intro x hx
    simp only [pairEnc, List.mem_cons] at hx
    rcases hx with rfl | hx
    · exact u8_lt _
    · exact pairEnc_lt rest false _ x hx
  | m :: rest, false, buf => by
    intro x hx
    simp only [pairEnc, List.mem_cons] at hx
    rcases hx with rfl | rfl | hx
    · exact u8_lt _
    · exact u8_lt _
    · exact pairEnc_lt rest true _ x hx

/-! ## bond orders: per-byte facts over the whole 3-bit domain -/

theorem orderByteA : ∀ o0 < 8, ∀ o1 < 8, ∀ o2 < 8,
    let B0 := u8 (u8 (u8 (o0 <<< 5) ||| o1 <<< 2) ||| o2 >>> 1)
    B0 >>> 5 = o0 ∧ (B0 >>> 2 &&& 7) = o1 ∧ (B0 &&& 3) <<< 1 = (o2 >>> 1) <<< 1 := by decide +kernel

theorem orderByteB : ∀ o2 < 8, ∀ o3 < 8, ∀ o4 < 8, ∀ o5 < 8,
    let B1 := u8 (u8 (u8 (u8 (o2 <<< 7) ||| o3 <<< 4) ||| o4 <<< 1) ||| o5 >>> 2)
    ((o2 >>> 1) <<< 1 ||| B1 >>> 7) = o2 ∧ (B1 >>> 4 &&& 7) = o3 ∧ (B1 >>> 1 &&& 7) = o4 ∧
      (B1 &&& 1) <<< 2 = (o5 >>> 2) <<< 2 := by decide +kernel

theorem orderByteC : ∀ o5 < 8, ∀ o6 < 8, ∀ o7 < 8,
    let B2 := u8 (u8 (u8 (o5 <<< 6) ||| o6 <<< 3) ||| o7)
    ((o5 >>> 2) <<< 2 ||| B2 >>> 6) = o5 ∧ (B2 >>> 3 &&& 7) = o6 ∧ (B2 &&& 7) = o7 := by decide +kernel

/-- flushed buffers are the full-byte expressions with the missing orders equal to 0 -/
theorem flushA1 (o0 : Nat) : u8 (o0 <<< 5) = u8 (u8 (u8 (o0 <<< 5) ||| 0 <<< 2) ||| 0 >>> 1) := by
  simp [u8]
theorem flushA2 (o0 o1 : Nat) : u8 (u8 (o0 <<< 5) ||| o1 <<< 2) = u8 (u8 (u8 (o0 <<< 5) ||| o1 <<< 2) ||| 0 >>> 1) := by
  simp [u8]
theorem flushB3 (o2 : Nat) : u8 (o2 <<< 7) = u8 (u8 (u8 (u8 (o2 <<< 7) ||| 0 <<< 4) ||| 0 <<< 1) ||| 0 >>> 2) := by
  simp [u8]
theorem flushB4 (o2 o3 : Nat) :
    u8 (u8 (o2 <<< 7) ||| o3 <<< 4) = u8 (u8 (u8 (u8 (o2 <<< 7) ||| o3 <<< 4) ||| 0 <<< 1) ||| 0 >>> 2) := by
  simp [u8]
theorem flushB5 (o2 o3 o4 : Nat) :
    u8 (u8 (u8 (o2 <<< 7) ||| o3 <<< 4) ||| o4 <<< 1) =
      u8 (u8 (u8 (u8 (o2 <<< 7) ||| o3 <<< 4) ||| o4 <<< 1) ||| 0 >>> 2) := by
  simp [u8]
theorem flushC6 (o5 : Nat) : u8 (o5 <<< 6) = u8 (u8 (u8 (o5 <<< 6) ||| 0 <<< 3) ||| 0) := by
  simp [u8]
theorem flushC7 (o5 o6 : Nat) : u8 (u8 (o5 <<< 6) ||| o6 <<< 3) = u8 (u8 (u8 (o5 <<< 6) ||| o6 <<< 3) ||| 0) := by
  simp [u8]


/-! ## bond orders: decoding one, two, three bytes of the stream -/

abbrev byteA (o0 o1 o2 : Nat) : Nat := u8 (u8 (u8 (o0 <<< 5) ||| o1 <<< 2) ||| o2 >>> 1)
abbrev byteB (o2 o3 o4 o5 : Nat) : Nat := u8 (u8 (u8 (u8 (o2 <<< 7) ||| o3 <<< 4) ||| o4 <<< 1) ||| o5 >>> 2)
abbrev byteC (o5 o6 o7 : Nat) : Nat := u8 (u8 (u8 (o5 <<< 6) ||| o6 <<< 3) ||| o7)

theorem dec1 {o0 o1 o2 : Nat} (h0 : o0 < 8) (h1 : o1 < 8) (h2 : o2 < 8) (b : Nat) :
    orderDec 0 b [byteA o0 o1 o2] = [o0, o1] := by
  obtain ⟨a0, a1, _⟩ := orderByteA o0 h0 o1 h1 o2 h2
  simp only [orderDec, byteA]; rw [a0, a1]

theorem dec2 {o0 o1 o2 o3 o4 o5 : Nat} (h0 : o0 < 8) (h1 : o1 < 8) (h2 : o2 < 8) (h3 : o3 < 8) (h4 : o4 < 8)
    (h5 : o5 < 8) (b : Nat) :
    orderDec 0 b [byteA o0 o1 o2, byteB o2 o3 o4 o5] = [o0, o1, o2, o3, o4] := by
  obtain ⟨a0, a1, a2⟩ := orderByteA o0 h0 o1 h1 o2 h2
  obtain ⟨b2, b3, b4, _⟩ := orderByteB o2 h2 o3 h3 o4 h4 o5 h5
  simp only [orderDec, byteA, byteB]; rw [a0, a1, a2, b2, b3, b4]

theorem dec3 {o0 o1 o2 o3 o4 o5 o6 o7 : Nat} (h0 : o0 < 8) (h1 : o1 < 8) (h2 : o2 < 8) (h3 : o3 < 8) (h4 : o4 < 8)
    (h5 : o5 < 8) (h6 : o6 < 8) (h7 : o7 < 8) (b : Nat) (r : List Nat) :
    orderDec 0 b (byteA o0 o1 o2 :: byteB o2 o3 o4 o5 :: byteC o5 o6 o7 :: r) =
      o0 :: o1 :: o2 :: o3 :: o4 :: o5 :: o6 :: o7 :: orderDec 0 ((byteB o2 o3 o4 o5 &&& 1) <<< 2) r := by
  obtain ⟨a0, a1, a2⟩ := orderByteA o0 h0 o1 h1 o2 h2
  obtain ⟨b2, b3, b4, b5⟩ := orderByteB o2 h2 o3 h3 o4 h4 o5 h5
  obtain ⟨c5, c6, c7⟩ := orderByteC o5 h5 o6 h6 o7 h7
  simp only [orderDec, byteA, byteB, byteC]; rw [a0, a1, a2, b2, b3, b4, b5, c5, c6, c7]

/-- **order stream round trip, every bond count**: decoding the encoder's bytes gives back the codes (followed by
    at most two padding codes). -/
theorem orderDec_orderEnc : ∀ (codes : List Nat) (b b' : Nat), (∀ c ∈ codes, c < 8) →
    ∃ pad, orderDec 0 b (orderEnc 0 b' codes) = codes ++ pad
  | [], b, b', _ => ⟨[], by simp [orderEnc, orderDec]⟩
  | [o0], b, b', h => by
    have h0 := h o0 (by simp)
    refine ⟨[0], ?_⟩
    simp only [orderEnc, Nat.reduceBNe, ↓reduceIte]
    rw [flushA1]; exact dec1 h0 (by decide) (by decide) b
  | [o0, o1], b, b', h => by
    have h0 := h o0 (by simp); have h1 := h o1 (by simp)
    refine ⟨[], ?_⟩
    simp only [orderEnc, Nat.reduceBNe, ↓reduceIte]
    rw [flushA2]; exact dec1 h0 h1 (by decide) b
  | [o0, o1, o2], b, b', h => by
    have h0 := h o0 (by simp); have h1 := h o1 (by simp); have h2 := h o2 (by simp)
    refine ⟨[0, 0], ?_⟩
    simp only [orderEnc, Nat.reduceBNe, ↓reduceIte]
    rw [flushB3]; exact dec2 h0 h1 h2 (by decide) (by decide) (by decide) b
  | [o0, o1, o2, o3], b, b', h => by
    have h0 := h o0 (by simp); have h1 := h o1 (by simp); have h2 := h o2 (by simp); have h3 := h o3 (by simp)
    refine ⟨[0], ?_⟩
    simp only [orderEnc, Nat.reduceBNe, ↓reduceIte]
    rw [flushB4]; exact dec2 h0 h1 h2 h3 (by decide) (by decide) b
  | [o0, o1, o2, o3, o4], b, b', h => by
    have h0 := h o0 (by simp); have h1 := h o1 (by simp); have h2 := h o2 (by simp); have h3 := h o3 (by simp)
    have h4 := h o4 (by simp)
    refine ⟨[], ?_⟩
    simp only [orderEnc, Nat.reduceBNe, ↓reduceIte]
    rw [flushB5]; exact dec2 h0 h1 h2 h3 h4 (by decide) b
  | [o0, o1, o2, o3, o4, o5], b, b', h => by
    have h0 := h o0 (by simp); have h1 := h o1 (by simp); have h2 := h o2 (by simp); have h3 := h o3 (by simp)
    have h4 := h o4 (by simp); have h5 := h o5 (by simp)
    refine ⟨[0, 0], ?_⟩
    simp only [orderEnc, Nat.reduceBNe, ↓reduceIte]
    rw [flushC6]
    have := dec3 h0 h1 h2 h3 h4 h5 (show 0 < 8 by decide) (show 0 < 8 by decide) b []
    simp only [byteA, byteB, byteC, orderDec] at this
    simpa [orderDec] using this
  | [o0, o1, o2, o3, o4, o5, o6], b, b', h => by
    have h0 := h o0 (by simp); have h1 := h o1 (by simp); have h2 := h o2 (by simp); have h3 := h o3 (by simp)
    have h4 := h o4 (by simp); have h5 := h o5 (by simp); have h6 := h o6 (by simp)
    refine ⟨[0], ?_⟩
    simp only [orderEnc, Nat.reduceBNe, ↓reduceIte]
    rw [flushC7]
    have := dec3 h0 h1 h2 h3 h4 h5 h6 (show 0 < 8 by decide) b []
    simp only [byteA, byteB, byteC, orderDec] at this
    simpa [orderDec] using this
  | o0 :: o1 :: o2 :: o3 :: o4 :: o5 :: o6 :: o7 :: rest, b, b', h => by
    have h0 := h o0 (by simp); have h1 := h o1 (by simp); have h2 := h o2 (by simp); have h3 := h o3 (by simp)
    have h4 := h o4 (by simp); have h5 := h o5 (by simp); have h6 := h o6 (by simp); have h7 := h o7 (by simp)
    obtain ⟨pad, ih⟩ := orderDec_orderEnc rest ((byteB o2 o3 o4 o5 &&& 1) <<< 2) (u8 (u8 (o5 <<< 6) ||| o6 <<< 3))
      (fun c hc => h c (by simp [hc]))
    refine ⟨pad, ?_⟩
    simp only [orderEnc]
    have := dec3 h0 h1 h2 h3 h4 h5 h6 h7 b (orderEnc 0 (u8 (u8 (o5 <<< 6) ||| o6 <<< 3)) rest)
    simp only [byteA, byteB, byteC] at this
    rw [this, ih]; simp

theorem order_stream_roundtrip (codes : List Nat) (b b' : Nat) (h : ∀ c ∈ codes, c < 8) :
    (orderDec 0 b (orderEnc 0 b' codes)).take codes.length = codes := by
  obtain ⟨pad, hp⟩ := orderDec_orderEnc codes b b' h
  rw [hp]; simp

/-- length of the order block: `⌈3·n / 8⌉` bytes -/
theorem orderEnc_length : ∀ (codes : List Nat) (b : Nat), (orderEnc 0 b codes).length = (3 * codes.length + 7) / 8
  | [], b => by simp [orderEnc]
  | [_], b => by simp [orderEnc]
  | [_, _], b => by simp [orderEnc]
  | [_, _, _], b => by simp [orderEnc]
  | [_, _, _, _], b => by simp [orderEnc]
  | [_, _, _, _, _], b => by simp [orderEnc]
  | [_, _, _, _, _, _], b => by simp [orderEnc]
  | [_, _, _, _, _, _, _], b => by simp [orderEnc]
  | o0 :: o1 :: o2 :: o3 :: o4 :: o5 :: o6 :: o7 :: rest, b => by
    have ih := orderEnc_length rest (u8 (u8 (o5 <<< 6) ||| o6 <<< 3))
    simp only [orderEnc, List.length_cons, ih]; omega

end ChythonModel.Proofs.C10
