import ChythonModel.Py.IntSet
/-!
# C19 — lemmas about the probe scans of `Py/IntSet.lean`

Everything here is independent of the probing arithmetic: `PS.next`/`PS.idx` are never unfolded, so the results hold for
any probe sequence.  `look` only looks at the *class* of a slot with respect to the searched key (`kclass`).
-/
namespace ChythonModel.Py.IntSet

theorem get_set! (t : Array Slot) (i j : Nat) (v : Slot) :
    (t.set! i v)[j]? = if i = j then (if i < t.size then some v else none) else t[j]? := by
  simp [Array.getElem?_setIfInBounds]

theorem get_set!_ne (t : Array Slot) {i j : Nat} (v : Slot) (h : i ≠ j) : (t.set! i v)[j]? = t[j]? := by
  rw [get_set!]; simp [h]

theorem get_set!_self (t : Array Slot) {i : Nat} (v : Slot) (h : i < t.size) : (t.set! i v)[i]? = some v := by
  rw [get_set!]; simp [h]

theorem size_set! (t : Array Slot) (i : Nat) (v : Slot) : (t.set! i v).size = t.size := by simp

theorem lt_size_of_get {t : Array Slot} {j : Nat} {v : Slot} (h : t[j]? = some v) : j < t.size := by
  by_cases hj : j < t.size
  · exact hj
  · simp [Array.getElem?_eq_none (Nat.le_of_not_lt hj)] at h

/-! ### one-step equations -/
section steps
variable (t : Array Slot) (mask : Nat) (k : Int) (f : Nat) (s : PS)

theorem look_none (h : t[s.idx]? = none) : look t mask k (f + 1) s = none := by
  conv => lhs; unfold look
  rw [h]
theorem look_empty (h : t[s.idx]? = some .empty) : look t mask k (f + 1) s = some s.idx := by
  conv => lhs; unfold look
  rw [h]
theorem look_hit (h : t[s.idx]? = some (.active k)) : look t mask k (f + 1) s = some s.idx := by
  conv => lhs; unfold look
  rw [h]; simp
theorem look_miss {k' : Int} (h : t[s.idx]? = some (.active k')) (hk : k' ≠ k) :
    look t mask k (f + 1) s = look t mask k f (s.next mask) := by
  conv => lhs; unfold look
  rw [h]; simp [hk]
theorem look_dummy (h : t[s.idx]? = some .dummy) : look t mask k (f + 1) s = look t mask k f (s.next mask) := by
  conv => lhs; unfold look
  rw [h]

theorem addScan_none (fr : Option Nat) (h : t[s.idx]? = none) : addScan t mask k (f + 1) s fr = none := by
  unfold addScan; rw [h]
theorem addScan_empty (fr : Option Nat) (h : t[s.idx]? = some .empty) :
    addScan t mask k (f + 1) s fr = some (.slot fr s.idx) := by
  conv => lhs; unfold addScan
  rw [h]
theorem addScan_hit (fr : Option Nat) (h : t[s.idx]? = some (.active k)) :
    addScan t mask k (f + 1) s fr = some .present := by
  conv => lhs; unfold addScan
  rw [h]; simp
theorem addScan_miss (fr : Option Nat) {k' : Int} (h : t[s.idx]? = some (.active k')) (hk : k' ≠ k) :
    addScan t mask k (f + 1) s fr = addScan t mask k f (s.next mask) fr := by
  conv => lhs; unfold addScan
  rw [h]; simp [hk]
theorem addScan_dummy (fr : Option Nat) (h : t[s.idx]? = some .dummy) :
    addScan t mask k (f + 1) s fr = addScan t mask k f (s.next mask) (some s.idx) := by
  conv => lhs; unfold addScan
  rw [h]

theorem lookEmpty_none (h : t[s.idx]? = none) : lookEmpty t mask (f + 1) s = none := by
  conv => lhs; unfold lookEmpty
  rw [h]
theorem lookEmpty_empty (h : t[s.idx]? = some .empty) : lookEmpty t mask (f + 1) s = some s.idx := by
  conv => lhs; unfold lookEmpty
  rw [h]
theorem lookEmpty_active {k' : Int} (h : t[s.idx]? = some (.active k')) :
    lookEmpty t mask (f + 1) s = lookEmpty t mask f (s.next mask) := by
  conv => lhs; unfold lookEmpty
  rw [h]
theorem lookEmpty_dummy (h : t[s.idx]? = some .dummy) :
    lookEmpty t mask (f + 1) s = lookEmpty t mask f (s.next mask) := by
  conv => lhs; unfold lookEmpty
  rw [h]
end steps

/-- the four things a slot can be for the search of `k` -/
theorem slot_cases (k : Int) (o : Option Slot) :
    o = none ∨ o = some .empty ∨ o = some (.active k) ∨ (∃ k', k' ≠ k ∧ o = some (.active k')) ∨ o = some .dummy := by
  rcases o with _ | (_ | _ | k')
  · exact Or.inl rfl
  · exact Or.inr (Or.inl rfl)
  · exact Or.inr (Or.inr (Or.inr (Or.inr rfl)))
  · by_cases h : k' = k
    · subst h; exact Or.inr (Or.inr (Or.inl rfl))
    · exact Or.inr (Or.inr (Or.inr (Or.inl ⟨k', h, rfl⟩)))

/-- `look` returns an unused slot or the slot of the key -/
theorem look_spec {t : Array Slot} {mask : Nat} {k : Int} : ∀ {f : Nat} {s : PS} {j : Nat},
    look t mask k f s = some j → t[j]? = some .empty ∨ t[j]? = some (.active k) := by
  intro f
  induction f with
  | zero => intro s j h; simp [look] at h
  | succ f ih =>
    intro s j h
    rcases slot_cases k t[s.idx]? with he | he | he | ⟨k', hk, he⟩ | he
    · rw [look_none _ _ _ _ _ he] at h; simp at h
    · rw [look_empty _ _ _ _ _ he] at h; simp at h; subst h; exact Or.inl he
    · rw [look_hit _ _ _ _ _ he] at h; simp at h; subst h; exact Or.inr he
    · rw [look_miss _ _ _ _ _ he hk] at h; exact ih h
    · rw [look_dummy _ _ _ _ _ he] at h; exact ih h

/-- two slots look the same to the search of `k` -/
def SameFor (k : Int) (a b : Option Slot) : Prop :=
  (a = none ↔ b = none) ∧ (a = some .empty ↔ b = some .empty) ∧ (a = some (.active k) ↔ b = some (.active k))

/-- `look` depends only on the classes of the slots -/
theorem look_congr {t t' : Array Slot} {mask : Nat} {k : Int} (hc : ∀ i : Nat, SameFor k t'[i]? t[i]?) :
    ∀ (f : Nat) (s : PS), look t' mask k f s = look t mask k f s := by
  intro f
  induction f with
  | zero => intro s; simp [look]
  | succ f ih =>
    intro s
    obtain ⟨c1, c2, c3⟩ := hc s.idx
    rcases slot_cases k t[s.idx]? with he | he | he | ⟨k', hk, he⟩ | he
    · rw [look_none _ _ _ _ _ he, look_none _ _ _ _ _ (c1.2 he)]
    · rw [look_empty _ _ _ _ _ he, look_empty _ _ _ _ _ (c2.2 he)]
    · rw [look_hit _ _ _ _ _ he, look_hit _ _ _ _ _ (c3.2 he)]
    · rw [look_miss _ _ _ _ _ he hk]
      rcases slot_cases k t'[s.idx]? with he' | he' | he' | ⟨k'', hk', he'⟩ | he'
      · rw [c1.1 he'] at he; simp at he
      · rw [c2.1 he'] at he; simp at he
      · rw [c3.1 he'] at he; simp at he; exact absurd he.symm hk
      · rw [look_miss _ _ _ _ _ he' hk']; exact ih _
      · rw [look_dummy _ _ _ _ _ he']; exact ih _
    · rw [look_dummy _ _ _ _ _ he]
      rcases slot_cases k t'[s.idx]? with he' | he' | he' | ⟨k'', hk', he'⟩ | he'
      · rw [c1.1 he'] at he; simp at he
      · rw [c2.1 he'] at he; simp at he
      · rw [c3.1 he'] at he; simp at he
      · rw [look_miss _ _ _ _ _ he' hk']; exact ih _
      · rw [look_dummy _ _ _ _ _ he']; exact ih _

/-- writing to an unused slot the search does not end in leaves the search unchanged -/
theorem look_set_unvisited {t : Array Slot} {mask : Nat} {k : Int} {j : Nat} (v : Slot) (hj : t[j]? = some .empty) :
    ∀ {f : Nat} {s : PS} {j' : Nat}, look t mask k f s = some j' → j ≠ j' → look (t.set! j v) mask k f s = some j' := by
  intro f
  induction f with
  | zero => intro s j' h; simp [look] at h
  | succ f ih =>
    intro s j' h hne
    by_cases hi : j = s.idx
    · subst hi
      rw [look_empty _ _ _ _ _ hj] at h
      simp at h
      exact absurd h hne
    · have hg := get_set!_ne t v hi
      rcases slot_cases k t[s.idx]? with he | he | he | ⟨k', hk, he⟩ | he
      · rw [look_none _ _ _ _ _ he] at h; simp at h
      · rw [look_empty _ _ _ _ _ he] at h; rw [look_empty _ _ _ _ _ (hg.trans he)]; exact h
      · rw [look_hit _ _ _ _ _ he] at h; rw [look_hit _ _ _ _ _ (hg.trans he)]; exact h
      · rw [look_miss _ _ _ _ _ he hk] at h; rw [look_miss _ _ _ _ _ (hg.trans he) hk]; exact ih h hne
      · rw [look_dummy _ _ _ _ _ he] at h; rw [look_dummy _ _ _ _ _ (hg.trans he)]; exact ih h hne

/-- storing the key in the slot its search ended in: the search now ends there with the key -/
theorem look_set_self {t : Array Slot} {mask : Nat} {k : Int} :
    ∀ {f : Nat} {s : PS} {j : Nat}, look t mask k f s = some j → look (t.set! j (.active k)) mask k f s = some j := by
  intro f
  induction f with
  | zero => intro s j h; simp [look] at h
  | succ f ih =>
    intro s j h
    have hsz : j < t.size := by
      rcases look_spec h with h' | h' <;> exact lt_size_of_get h'
    by_cases hi : j = s.idx
    · subst hi
      exact look_hit _ _ _ _ _ (get_set!_self t _ hsz)
    · have hg := get_set!_ne t (.active k) hi
      rcases slot_cases k t[s.idx]? with he | he | he | ⟨k', hk, he⟩ | he
      · rw [look_none _ _ _ _ _ he] at h; simp at h
      · rw [look_empty _ _ _ _ _ he] at h; simp at h; exact absurd h.symm hi
      · rw [look_hit _ _ _ _ _ he] at h; simp at h; exact absurd h.symm hi
      · rw [look_miss _ _ _ _ _ he hk] at h; rw [look_miss _ _ _ _ _ (hg.trans he) hk]; exact ih h
      · rw [look_dummy _ _ _ _ _ he] at h; rw [look_dummy _ _ _ _ _ (hg.trans he)]; exact ih h

/-- a key that is nowhere in a table without dummies: `set_insert_clean`'s scan is `set_lookkey`'s -/
theorem lookEmpty_eq_look {t : Array Slot} {mask : Nat} {k : Int} (hk : ∀ j : Nat, t[j]? ≠ some (Slot.active k))
    (hd : ∀ j : Nat, t[j]? ≠ some Slot.dummy) :
    ∀ (f : Nat) (s : PS), lookEmpty t mask f s = look t mask k f s := by
  intro f
  induction f with
  | zero => intro s; simp [look, lookEmpty]
  | succ f ih =>
    intro s
    rcases slot_cases k t[s.idx]? with he | he | he | ⟨k', hk', he⟩ | he
    · rw [look_none _ _ _ _ _ he, lookEmpty_none _ _ _ _ he]
    · rw [look_empty _ _ _ _ _ he, lookEmpty_empty _ _ _ _ he]
    · exact absurd he (hk _)
    · rw [look_miss _ _ _ _ _ he hk', lookEmpty_active _ _ _ _ he]; exact ih _
    · exact absurd he (hd _)

/-- relation of the insertion scan to the lookup scan: key found -/
theorem addScan_present {t : Array Slot} {mask : Nat} {k : Int} : ∀ {f : Nat} {s : PS} {free : Option Nat},
    addScan t mask k f s free = some .present → ∃ j, look t mask k f s = some j ∧ t[j]? = some (.active k) := by
  intro f
  induction f with
  | zero => intro s free h; simp [addScan] at h
  | succ f ih =>
    intro s free h
    rcases slot_cases k t[s.idx]? with he | he | he | ⟨k', hk, he⟩ | he
    · rw [addScan_none _ _ _ _ _ _ he] at h; simp at h
    · rw [addScan_empty _ _ _ _ _ _ he] at h; simp at h
    · exact ⟨s.idx, look_hit _ _ _ _ _ he, he⟩
    · rw [addScan_miss _ _ _ _ _ _ he hk] at h; rw [look_miss _ _ _ _ _ he hk]; exact ih h
    · rw [addScan_dummy _ _ _ _ _ _ he] at h; rw [look_dummy _ _ _ _ _ he]; exact ih h

/-- relation of the insertion scan to the lookup scan: key absent; the free slot (the last dummy passed), once it holds
the key, is where the lookup ends -/
theorem addScan_slot {t : Array Slot} {mask : Nat} {k : Int} : ∀ {f : Nat} {s : PS} {free fr : Option Nat} {j : Nat},
    addScan t mask k f s free = some (.slot fr j) →
      look t mask k f s = some j ∧ t[j]? = some .empty ∧
      (fr = free ∨ ∃ f0, fr = some f0 ∧ t[f0]? = some .dummy ∧ look (t.set! f0 (.active k)) mask k f s = some f0) := by
  intro f
  induction f with
  | zero => intro s free fr j h; simp [addScan] at h
  | succ f ih =>
    intro s free fr j h
    rcases slot_cases k t[s.idx]? with he | he | he | ⟨k', hk, he⟩ | he
    · rw [addScan_none _ _ _ _ _ _ he] at h; simp at h
    · rw [addScan_empty _ _ _ _ _ _ he] at h
      simp at h
      obtain ⟨h1, h2⟩ := h
      subst h1 h2
      exact ⟨look_empty _ _ _ _ _ he, he, Or.inl rfl⟩
    · rw [addScan_hit _ _ _ _ _ _ he] at h; simp at h
    · rw [addScan_miss _ _ _ _ _ _ he hk] at h
      obtain ⟨h1, h2, h3⟩ := ih h
      refine ⟨by rw [look_miss _ _ _ _ _ he hk]; exact h1, h2, ?_⟩
      rcases h3 with h3 | ⟨f0, h3, h4, h5⟩
      · exact Or.inl h3
      · refine Or.inr ⟨f0, h3, h4, ?_⟩
        have hne : f0 ≠ s.idx := by
          intro e; rw [e, he] at h4; simp at h4
        rw [look_miss _ _ _ _ _ ((get_set!_ne t _ hne).trans he) hk]
        exact h5
    · rw [addScan_dummy _ _ _ _ _ _ he] at h
      obtain ⟨h1, h2, h3⟩ := ih h
      refine ⟨by rw [look_dummy _ _ _ _ _ he]; exact h1, h2, Or.inr ?_⟩
      have hsz := lt_size_of_get he
      rcases h3 with h3 | ⟨f0, h3, h4, h5⟩
      · exact ⟨s.idx, h3, he, look_hit _ _ _ _ _ (get_set!_self t _ hsz)⟩
      · refine ⟨f0, h3, h4, ?_⟩
        by_cases hne : f0 = s.idx
        · rw [hne]; exact look_hit _ _ _ _ _ (get_set!_self t _ hsz)
        · rw [look_dummy _ _ _ _ _ ((get_set!_ne t _ hne).trans he)]
          exact h5

end ChythonModel.Py.IntSet
