import ChythonModel.Proofs.C02GAppend
import Mathlib.Data.List.Perm.Basic
import Mathlib.Data.List.Nodup
/-!
# C02 — the ring-closure digits of a traversal pair up into exactly the closure records

`evs` is any ordering of the closure digits `(atom, cycle id)`, one per closure record of `C`.  Reading them with
`pairAll` leaves no ring open (`closure_all_closed`), every bond it produces is a closure record
(`closure_bond_is_record`), every closure record is produced in one of its two orientations
(`record_is_closure_bond`), and no bond is produced twice (`closure_bonds_nodup`).
-/
namespace ChythonModel.Proofs.C02
open ChythonModel.Model ChythonModel.Model.SmilesWriter ChythonModel.Model.C02RT

section
variable {m : Mol} {V : List Nat} {T : List (Nat × Nat)} {C : List (Nat × Nat × Nat)}

theorem closure_events_map_nodup (h : GFacts m V T C) : (C.map fun t => (t.1, t.2.2)).Nodup := by
  refine h.cNodup.map_on ?_
  rintro ⟨a, b, k⟩ hx ⟨a', b', k'⟩ hy he
  simp only [Prod.mk.injEq] at he
  obtain ⟨rfl, rfl⟩ := he
  rcases h.cId a b a b' k hx hy with ⟨_, e⟩ | ⟨e, _⟩
  · rw [e]
  · exact absurd e (h.cMem _ _ _ hx).2.1

theorem closure_events_nodup (h : GFacts m V T C) (evs : List (Nat × Nat))
    (hp : evs.Perm (C.map fun t => (t.1, t.2.2))) : evs.Nodup :=
  hp.nodup_iff.2 (closure_events_map_nodup h)

theorem closure_events_mem (evs : List (Nat × Nat))
    (hp : evs.Perm (C.map fun t => (t.1, t.2.2))) (a k : Nat) :
    (a, k) ∈ evs ↔ ∃ b, (a, b, k) ∈ C := by
  rw [hp.mem_iff, List.mem_map]
  constructor
  · rintro ⟨⟨a', b, k'⟩, hm, he⟩
    simp only [Prod.mk.injEq] at he
    obtain ⟨rfl, rfl⟩ := he
    exact ⟨b, hm⟩
  · rintro ⟨b, hm⟩
    exact ⟨(a, b, k), hm, rfl⟩

theorem closure_events_keys_perm (evs : List (Nat × Nat))
    (hp : evs.Perm (C.map fun t => (t.1, t.2.2))) :
    (evs.map (·.2)).Perm (C.map (·.2.2)) := by
  have := hp.map (·.2)
  rwa [List.map_map] at this

theorem closure_events_counts (h : GFacts m V T C) (evs : List (Nat × Nat))
    (hp : evs.Perm (C.map fun t => (t.1, t.2.2))) :
    ∀ k, (evs.map (·.2)).count k = 0 ∨ (evs.map (·.2)).count k = 2 := by
  intro k
  rw [(closure_events_keys_perm evs hp).count_eq k]
  exact h.ids_count k

/-- a ring closed by the events `(a, k)` … `(b, k)` is the closure record `(a, b, k)` -/
theorem closure_split_record (h : GFacts m V T C) (evs : List (Nat × Nat))
    (hp : evs.Perm (C.map fun t => (t.1, t.2.2))) (a b k : Nat) (pre mid post : List (Nat × Nat))
    (he : evs = pre ++ (a, k) :: mid ++ (b, k) :: post) : (a, b, k) ∈ C := by
  have hnd := closure_events_nodup h evs hp
  have ha : (a, k) ∈ evs := by rw [he]; simp
  have hb : (b, k) ∈ evs := by rw [he]; simp
  obtain ⟨p, hpa⟩ := (closure_events_mem evs hp a k).1 ha
  obtain ⟨q, hqb⟩ := (closure_events_mem evs hp b k).1 hb
  rcases h.cId a p b q k hpa hqb with ⟨e, _⟩ | ⟨e, _⟩
  · exfalso
    subst e
    rw [he] at hnd
    have h1 := (List.nodup_append.1 hnd).2.2
    exact h1 (b, k) (by simp) (b, k) (by simp) rfl
  · subst e; exact hpa

/-- 1. every ring opened by a closure digit is closed again -/
theorem closure_all_closed (h : GFacts m V T C) (evs : List (Nat × Nat))
    (hp : evs.Perm (C.map fun t => (t.1, t.2.2))) : (pairAll [] evs).1 = [] :=
  pairAll_closed_of_counts evs (closure_events_counts h evs hp)

/-- 2. every bond the closure digits produce is a closure record -/
theorem closure_bond_is_record (h : GFacts m V T C) (evs : List (Nat × Nat))
    (hp : evs.Perm (C.map fun t => (t.1, t.2.2))) :
    ∀ a b, (a, b) ∈ (pairAll [] evs).2 → ∃ k, (a, b, k) ∈ C := by
  intro a b hab
  obtain ⟨tr, hE, _, _, hsplit⟩ := pairAll_edges_of_counts evs (closure_events_counts h evs hp)
  rw [← hE] at hab
  obtain ⟨⟨a', b', k⟩, ht, he⟩ := List.mem_map.1 hab
  simp only [Prod.mk.injEq] at he
  obtain ⟨rfl, rfl⟩ := he
  obtain ⟨pre, mid, post, hs⟩ := hsplit _ ht
  exact ⟨k, closure_split_record h evs hp _ _ _ pre mid post hs⟩

/-- 3. every closure record is produced, in one of its two orientations -/
theorem record_is_closure_bond (h : GFacts m V T C) (evs : List (Nat × Nat))
    (hp : evs.Perm (C.map fun t => (t.1, t.2.2))) :
    ∀ a b k, (a, b, k) ∈ C → (a, b) ∈ (pairAll [] evs).2 ∨ (b, a) ∈ (pairAll [] evs).2 := by
  intro a b k hc
  obtain ⟨tr, hE, _, hcov, hsplit⟩ := pairAll_edges_of_counts evs (closure_events_counts h evs hp)
  have hk : k ∈ evs.map (·.2) :=
    List.mem_map.2 ⟨(a, k), (closure_events_mem evs hp a k).2 ⟨b, hc⟩, rfl⟩
  obtain ⟨⟨a', b', k'⟩, ht, he⟩ := List.mem_map.1 (hcov k hk)
  simp only at he
  subst he
  obtain ⟨pre, mid, post, hs⟩ := hsplit _ ht
  have hrec := closure_split_record h evs hp _ _ _ pre mid post hs
  have hmem : (a', b') ∈ (pairAll [] evs).2 := by
    rw [← hE]; exact List.mem_map.2 ⟨_, ht, rfl⟩
  rcases h.cId a b a' b' k' hc hrec with ⟨e1, e2⟩ | ⟨e1, e2⟩
  · subst e1; subst e2; exact Or.inl hmem
  · subst e1; subst e2; exact Or.inr hmem

/-- 4. no bond is produced twice, not even in the other orientation -/
theorem closure_bonds_nodup (h : GFacts m V T C) (evs : List (Nat × Nat))
    (hp : evs.Perm (C.map fun t => (t.1, t.2.2))) :
    ((pairAll [] evs).2.map fun p => undirected p.1 p.2).Nodup := by
  obtain ⟨tr, hE, hknd, _, hsplit⟩ := pairAll_edges_of_counts evs (closure_events_counts h evs hp)
  rw [← hE, List.map_map]
  have htr : tr.Nodup := hknd.of_map _
  refine htr.map_on ?_
  rintro ⟨a, b, k⟩ hx ⟨a', b', k'⟩ hy he
  simp only [Function.comp] at he
  obtain ⟨pre, mid, post, hs⟩ := hsplit _ hx
  obtain ⟨pre', mid', post', hs'⟩ := hsplit _ hy
  have r1 : (a, b, k) ∈ C := closure_split_record h evs hp _ _ _ pre mid post hs
  have r2 : (a', b', k') ∈ C := closure_split_record h evs hp _ _ _ pre' mid' post' hs'
  have hkk : k = k' := by
    rcases (undirected_eq_iff a b a' b').1 he with ⟨e1, e2⟩ | ⟨e1, e2⟩
    · subst e1; subst e2; exact h.cPair _ _ _ _ r1 r2
    · subst e1; subst e2; exact h.cPair _ _ _ _ r1 (h.cMem _ _ _ r2).1
  exact List.inj_on_of_nodup_map hknd hx hy hkk

end

end ChythonModel.Proofs.C02
