import Mathlib.Data.List.Nodup
import Mathlib.Data.List.Basic
import ChythonModel.Model.Iso
/-!
Generic facts about the recursive enumerator `extend` (independent of what `children` tests):
membership = "every further element is a child of its prefix", and duplicate-freeness.
-/
namespace ChythonModel.Proofs.C07
open ChythonModel.Model.Iso

theorem extend_sound (e : Env) : ∀ (k : Nat) (path p : List Nat), p ∈ extend e k path →
    ∃ suf, p = path ++ suf ∧ suf.length = k ∧
      ∀ j c, suf[j]? = some c → c ∈ children e (path.length + j) (path ++ suf.take j) := by
  intro k
  induction k with
  | zero =>
    intro path p h
    simp [extend] at h
    exact ⟨[], by simp [h], rfl, by simp⟩
  | succ k ih =>
    intro path p h
    simp only [extend, List.mem_flatMap, List.mem_reverse] at h
    obtain ⟨c, hc, hp⟩ := h
    obtain ⟨suf, hp, hlen, hall⟩ := ih _ _ hp
    refine ⟨c :: suf, by simp [hp], by simp [hlen], ?_⟩
    intro j c' hj
    cases j with
    | zero =>
      simp at hj
      subst hj
      simpa using hc
    | succ j =>
      simp at hj
      have := hall j c' hj
      simpa [Nat.add_assoc, Nat.add_comm 1 j] using this

theorem extend_complete (e : Env) : ∀ (k : Nat) (path suf : List Nat), suf.length = k →
    (∀ j c, suf[j]? = some c → c ∈ children e (path.length + j) (path ++ suf.take j)) →
    path ++ suf ∈ extend e k path := by
  intro k
  induction k with
  | zero =>
    intro path suf hlen _
    have : suf = [] := List.eq_nil_of_length_eq_zero hlen
    simp [extend, this]
  | succ k ih =>
    intro path suf hlen hall
    match suf, hlen with
    | c :: suf', hlen =>
      simp only [extend, List.mem_flatMap, List.mem_reverse]
      refine ⟨c, ?_, ?_⟩
      · simpa using hall 0 c (by simp)
      · have := ih (path ++ [c]) suf' (by simpa using hlen) (by
          intro j c' hj
          have := hall (j + 1) c' (by simpa using hj)
          simpa [Nat.add_assoc, Nat.add_comm 1 j] using this)
        simpa using this

/-- every complete path has the current path as a prefix and the announced length -/
theorem extend_length (e : Env) (k : Nat) (path p : List Nat) (h : p ∈ extend e k path) :
    p.length = path.length + k := by
  obtain ⟨suf, hp, hlen, _⟩ := extend_sound e k path p h
  simp [hp, hlen]

theorem extend_nodup (e : Env) (hc : ∀ d path, (children e d path).Nodup) :
    ∀ (k : Nat) (path : List Nat), (extend e k path).Nodup := by
  intro k
  induction k with
  | zero => intro path; simp [extend]
  | succ k ih =>
    intro path
    simp only [extend]
    rw [List.nodup_flatMap]
    refine ⟨fun c _ => ih _, ?_⟩
    have hnd : (children e path.length path).reverse.Nodup := List.nodup_reverse.mpr (hc _ _)
    refine List.Pairwise.imp_of_mem ?_ hnd
    intro a b _ _ hab
    simp only [Function.onFun]
    intro p hpa hpb
    obtain ⟨s1, h1, _, _⟩ := extend_sound e k _ p hpa
    obtain ⟨s2, h2, _, _⟩ := extend_sound e k _ p hpb
    rw [h1] at h2
    simp at h2
    exact hab h2.1

end ChythonModel.Proofs.C07
