import ChythonModel.Model.Half
/-!
# C10: every finite half-precision bit pattern survives decode → encode (kernel evaluation, 2 × 31 744 patterns)

Excluded are exactly the patterns `double_to_float16` never produces from what `double_from_bytes` returns:
exponent field 31 (decoded as values ≥ 65536, which the encoder maps to 0) and `0x8000` (−0.0 is encoded as 0).
-/
namespace ChythonModel.Proofs.C10
open ChythonModel.Model.Pack

theorem f16_pos : ∀ e < 31, ∀ fh < 32, ∀ fl < 32,
    toF16 (ofF16 (e * 1024 + fh * 32 + fl)) = e * 1024 + fh * 32 + fl := by decide +kernel

theorem f16_neg : ∀ e < 31, ∀ fh < 32, ∀ fl < 32, e * 1024 + fh * 32 + fl ≠ 0 →
    toF16 (ofF16 (32768 + e * 1024 + fh * 32 + fl)) = 32768 + e * 1024 + fh * 32 + fl := by decide +kernel

end ChythonModel.Proofs.C10
