import ChythonModel.Model.PackWF
import ChythonModel.Proofs.C10RxnLen
/-!
# C10: the executable limit test `wfb` implies the hypothesis `WF`
-/
namespace ChythonModel.Proofs.C10
open ChythonModel.Model.Pack ChythonModel.Gen

theorem atomOKb_sound (a : PAtom) (h : atomOKb a = true) : AtomOK a := by
  simp only [atomOKb, Bool.and_eq_true, decide_eq_true_eq] at h
  obtain ⟨⟨⟨⟨⟨⟨⟨⟨⟨h1, h2⟩, h3⟩, h4⟩, h5⟩, h6⟩, h7⟩, h8⟩, h9⟩, h10⟩ := h
  refine ⟨h1, h2, ⟨h3, h4⟩, ?_, h6, h7, ?_, ⟨h9, h10⟩⟩
  · intro i hi
    rw [hi] at h5
    cases hc : commonAt packCommon a.z with
    | none => simp [hc] at h5
    | some c =>
      simp only [hc, Bool.and_eq_true, decide_eq_true_eq] at h5
      exact ⟨c, rfl, h5.1, h5.2⟩
  · intro k hk
    rw [hk] at h8
    simpa using h8

theorem graphOKb_sound (all : List PAtom) (h : graphOKb all = true) : GraphOK all := by
  simp only [graphOKb, Bool.and_eq_true, decide_eq_true_eq, List.all_eq_true, List.any_eq_true, bne_iff_ne, ne_eq,
    beq_iff_eq, List.contains_iff_mem] at h
  obtain ⟨⟨⟨⟨h1, h2⟩, h3⟩, h4⟩, h5⟩ := h
  exact ⟨h1, h2, h3, fun a ha nb hnb => by
    obtain ⟨b, hb, e, hm⟩ := h4 a ha nb hnb
    exact ⟨b, hb, e, hm⟩, h5⟩

theorem wfb_sound (m : PMol) (h : wfb m = true) : WF m := by
  simp only [wfb, Bool.and_eq_true, decide_eq_true_eq, List.all_eq_true, Bool.not_eq_true', Bool.or_eq_true] at h
  obtain ⟨⟨⟨⟨⟨h1, h2⟩, h3⟩, h4⟩, h7⟩, h8⟩ := h
  refine ⟨?_, h2, fun a ha => atomOKb_sound a (h3 a ha), graphOKb_sound _ h4, h7, ?_⟩
  · intro e; rw [e] at h1; simp at h1
  · intro p hp hs
    rcases h8 p hp with hn | ht
    · rw [hs] at hn; simp at hn
    · cases hl : m.terminals.lookup p.1 with
      | none => simp [hl] at ht
      | some v =>
        obtain ⟨tn, tm⟩ := v
        simp only [hl, Bool.and_eq_true, decide_eq_true_eq] at ht
        exact ⟨tn, tm, rfl, ht.1, ht.2⟩

end ChythonModel.Proofs.C10
