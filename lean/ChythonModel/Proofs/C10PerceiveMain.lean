import ChythonModel.Proofs.C10PerceiveErase
/-!
# C10: pack → unpack with the perception inside the model restores every cis/trans mark
-/
namespace ChythonModel.Proofs.C10
open ChythonModel.Model.Pack ChythonModel.Gen

theorem perceive_fields {atoms : List PAtom} {p : Perceived} (hp : perceive atoms = .ok p) :
    p.terminals = ctTerminals (p.stereogenic.map (·.1)) ∧ p.centers = ctCenters (p.stereogenic.map (·.1)) ∧
    p.allenes = alleneTerminals (p.stereogenic.map (·.1)) ∧ cumulenes atoms = .ok p.cumulenes ∧
    p.stereogenic = stereogenicOf atoms p.cumulenes := by
  unfold perceive at hp
  cases hc : cumulenes atoms with
  | error e => simp [hc] at hp
  | ok paths =>
    simp only [hc, Except.ok.injEq] at hp
    subst hp
    exact ⟨rfl, rfl, rfl, rfl, rfl⟩

/-- the hypothesis of the re-attachment theorem holds for the model's own perception -/
theorem perceived_centersOK' {atoms : List PAtom} {p : Perceived} (hp : perceive atoms = .ok p)
    (hm : MarksOK atoms (p.stereogenic.map (·.1))) (hd : KeysDisjoint (p.stereogenic.map (·.1))) :
    CentersOK ⟨atoms, p.terminals⟩ p.centers := by
  obtain ⟨ht, hc, _⟩ := perceive_fields hp
  rw [hc]
  exact perceived_centersOK ⟨atoms, p.terminals⟩ _ ht hm hd

theorem pack_unpack_full_aux (atoms : List PAtom) (p : Perceived) (hp : perceive atoms = .ok p)
    (h : WF ⟨atoms, p.terminals⟩) (hm : MarksOK atoms (p.stereogenic.map (·.1)))
    (hd : KeysDisjoint (p.stereogenic.map (·.1))) (rest : List Nat) :
    ∃ bytes, packFull atoms = .ok bytes ∧
      unpackFull (bytes ++ rest) = .ok ⟨atoms, ctListOf p.terminals (firstSeen [] atoms), bytes.length⟩ := by
  obtain ⟨bytes, e1, _, e3⟩ := decode_encode_aux ⟨atoms, p.terminals⟩ h rest
  have hco := perceived_centersOK' hp hm hd
  have hatt := attach_roundtrip_aux ⟨atoms, p.terminals⟩ h p.centers hco
  refine ⟨bytes, ?_, ?_⟩
  · unfold packFull
    unfold encode at e1
    cases hcl : checkLimits atoms with
    | error e => simp [hcl, bind, Except.bind] at e1
    | ok u =>
      simp only [hcl, bind, Except.bind] at e1
      simp only [hp, e1]
  · unfold unpackFull
    simp only at e3 hatt
    rw [e3]
    simp only
    cases hct : ctListOf p.terminals (firstSeen [] atoms) with
    | nil =>
      simp only
      rw [hct] at hatt
      simp only [attach] at hatt
      rw [hatt]
    | cons c r =>
      simp only [perceive_erase, hp]
      rw [← hct, hatt]

end ChythonModel.Proofs.C10
