import ChythonModel.Proofs.C09Component
namespace ChythonModel.Proofs.C09
open ChythonModel.Model.Bits ChythonModel.Gen.Bits ChythonModel.Model.Query ChythonModel.Model

theorem mapM_except_ok {ε α β} (f : α → Except ε β) (g : α → β) : ∀ (l : List α), (∀ x ∈ l, f x = .ok (g x)) →
    l.mapM f = .ok (l.map g) := by
  intro l
  induction l with
  | nil => intro _; rfl
  | cons a l ih =>
    intro h
    rw [List.mapM_cons, h a (by simp), ih (fun x hx => h x (by simp [hx]))]
    rfl

/-- sizes fit the 32-bit fields of the buffers -/
structure MolSmall (m : LMol) : Prop where
  natoms : m.atoms.length < two32
  nbonds : (m.adj.map (·.2.length)).sum < two32
  numbers : ∀ p ∈ m.atoms, p.1 < two32

theorem molWords_total (m : LMol) (hm : MolOK m) :
    ∃ ws, molWords m = .ok ws := by
  unfold molWords
  have : ∀ p ∈ m.atoms, (fun (x : Nat × MAtom) =>
      match mdlOf x.2.z with
      | none => (Except.error EncErr.keyError : Except EncErr Words)
      | some mdl => if !atomShiftsOk mdl x.2 then Except.error EncErr.valueError else Except.ok (atomWords mdl x.2)) p =
      .ok (atomWords ((mdlOf p.2.z).getD 0) p.2) := by
    intro p hp
    obtain ⟨mdl, h1, h2⟩ := hm.dom p hp
    simp only [h1, (atom_ok mdl p.2 h2).1, Bool.not_true, Bool.false_eq_true, if_false, Option.getD_some]
  exact ⟨_, mapM_except_ok _ _ m.atoms this⟩


theorem indexOf_some_of_mem (ids : List Nat) (k : Nat) (h : k ∈ ids) : ∃ x, indexOf? ids k = some x ∧ x < ids.length := by
  unfold indexOf?
  cases hf : ids.findIdx? (· == k) with
  | none =>
    rw [List.findIdx?_eq_none_iff] at hf
    have := hf k h; simp at this
  | some x =>
    refine ⟨x, rfl, ?_⟩
    rw [List.findIdx?_eq_some_iff_getElem] at hf
    exact hf.1

theorem rowBonds_total (ids bits1 : List Nat) (hb : bits1.length = ids.length) (ms : List (Nat × MBond))
    (h : ∀ kb ∈ ms, kb.1 ∈ ids) : ∃ bs, rowBonds ids bits1 ms = .ok bs := by
  unfold rowBonds
  induction ms with
  | nil => exact ⟨[], rfl⟩
  | cons kb ms ih =>
    obtain ⟨bs, hbs⟩ := ih (fun x hx => h x (by simp [hx]))
    obtain ⟨x, hx, hxl⟩ := indexOf_some_of_mem ids kb.1 (h kb (by simp))
    have hv : bits1[x]? = some bits1[x] := List.getElem?_eq_getElem (by omega)
    refine ⟨⟨bondWord bits1[x] kb.2, x⟩ :: bs, ?_⟩
    rw [List.mapM_cons, hbs]
    simp only [hx, hv]
    rfl

theorem molBonds_total (ids bits1 : List Nat) (hb : bits1.length = ids.length) :
    ∀ (adj : List (Nat × List (Nat × MBond))) (start : Nat), (∀ r ∈ adj, r.1 ∈ ids ∧ ∀ kb ∈ r.2, kb.1 ∈ ids) →
      ∃ res, molBonds ids bits1 adj start = .ok res := by
  intro adj
  induction adj with
  | nil => intro start _; exact ⟨([], []), rfl⟩
  | cons r rest ih =>
    intro start h
    obtain ⟨n, ms⟩ := r
    obtain ⟨h1, h2⟩ := h (n, ms) (by simp)
    obtain ⟨i, hi, _⟩ := indexOf_some_of_mem ids n h1
    obtain ⟨bs, hbs⟩ := rowBonds_total ids bits1 hb ms h2
    obtain ⟨res, hres⟩ := ih (start + ms.length) (fun x hx => h x (by simp [hx]))
    refine ⟨((i, start, start + ms.length) :: res.1, bs ++ res.2), ?_⟩
    simp only [molBonds, hi, hbs, hres, bind, Except.bind, pure, Except.pure]


theorem rowBonds_mem (ids bits1 : List Nat) (ms : List (Nat × MBond)) (bs : List CBond) (h : rowBonds ids bits1 ms = .ok bs) :
    ∀ b ∈ bs, ∃ (mb : MBond) (v : Nat), bits1[b.index]? = some v ∧ b.bond = bondWord v mb ∧ b.index < ids.length := by
  intro b hb
  obtain ⟨t, ht, rfl⟩ := List.mem_iff_getElem.mp hb
  obtain ⟨_, hget⟩ := rowBonds_get ids bits1 ms bs h
  obtain ⟨k, mb, v, _, f1, f2, f3⟩ := hget t bs[t] (List.getElem?_eq_getElem ht)
  exact ⟨mb, v, f2, f3, (List.getElem?_eq_some_iff.mp (indexOf_get _ _ _ f1)).1⟩

theorem molBonds_mem (ids bits1 : List Nat) :
    ∀ (adj : List (Nat × List (Nat × MBond))) (start : Nat) (offs : List (Nat × Nat × Nat)) (bonds : List CBond),
      molBonds ids bits1 adj start = .ok (offs, bonds) →
      bonds.length = (adj.map (·.2.length)).sum ∧
      (∀ b ∈ bonds, ∃ (mb : MBond) (v : Nat), bits1[b.index]? = some v ∧ b.bond = bondWord v mb ∧ b.index < ids.length) ∧
      (∀ e ∈ offs, e.2.1 ≤ e.2.2 ∧ e.2.2 ≤ start + bonds.length) := by
  intro adj
  induction adj with
  | nil =>
    intro start offs bonds h
    simp [molBonds] at h
    obtain ⟨rfl, rfl⟩ := h
    exact ⟨rfl, by intro b hb; simp at hb, by intro e he; simp at he⟩
  | cons row rest ih =>
    intro start offs bonds h
    obtain ⟨n, ms⟩ := row
    simp only [molBonds, bind, Except.bind] at h
    cases hi : indexOf? ids n with
    | none => simp [hi] at h
    | some i =>
      simp only [hi, pure, Except.pure] at h
      cases hb : rowBonds ids bits1 ms with
      | error e => simp [hb] at h
      | ok bs =>
        simp only [hb] at h
        cases hr : molBonds ids bits1 rest (start + ms.length) with
        | error e => simp [hr] at h
        | ok res =>
          obtain ⟨offs', tl⟩ := res
          simp only [hr, Except.ok.injEq, Prod.mk.injEq] at h
          obtain ⟨rfl, rfl⟩ := h
          obtain ⟨h1, h2, h3⟩ := ih (start + ms.length) offs' tl hr
          have hbl : bs.length = ms.length := mapM_except_length _ ms bs hb
          refine ⟨by simp [h1, hbl], ?_, ?_⟩
          · intro b hb'
            rcases List.mem_append.mp hb' with h' | h'
            · exact rowBonds_mem ids bits1 ms bs hb b h'
            · exact h2 b h'
          · intro e he
            rcases List.mem_cons.mp he with rfl | he'
            · simp [hbl]
            · have := h3 e he'
              simp only [List.length_append, hbl]; omega

theorem atomV1_lt (a : MAtom) (h1 : 1 ≤ a.z) : atomV1 a < 2 ^ 57 := by
  have : Within (atomV1 a) 0 57 := by
    rw [atomV1_eq]; apply within_orShifts0; intro p hp
    simp only [List.mem_singleton] at hp; subst hp
    unfold pos1; by_cases hz : a.z > 56
    · simp [hz]
    · simp only [hz, if_false]; omega
  exact lt_of_within this

theorem bondWord_lt (v : Nat) (b : MBond) (hv : v < 2 ^ 57) : bondWord v b < two64 := by
  have wv : Within v 0 64 := by
    intro p hp
    refine ⟨Nat.zero_le _, ?_⟩
    by_contra hc
    have : v < 2 ^ p := Nat.lt_of_lt_of_le hv (Nat.pow_le_pow_right (by omega) (by omega))
    rw [Nat.testBit_lt_two_pow this] at hp; simp at hp
  have wo : Within (sOrderBit b.order) 0 64 := by
    rw [sOrderBit_eq]; have := orderPos_range b.order
    exact within_mono (within_shl1 _) (by omega) (by omega)
  have wr : Within (if b.inRing then sRingYes else sRingNo) 0 64 := by
    have : (if b.inRing then sRingYes else sRingNo) = 1 <<< ringPos b.inRing := by
      cases b.inRing <;> simp [ringPos, sRingYes, sRingNo]
    rw [this]
    have : ringPos b.inRing ≤ 58 := by cases b.inRing <;> simp [ringPos]
    exact within_mono (within_shl1 _) (by omega) (by omega)
  exact lt_of_within (within_or (within_or wv wo) wr)


theorem offOf_cases (offs : List (Nat × Nat × Nat)) (i : Nat) :
    offOf offs i = (0, 0) ∨ ∃ e ∈ offs, offOf offs i = (e.2.1, e.2.2) := by
  unfold offOf
  cases hf : offs.reverse.find? (·.1 == i) with
  | none => left; rfl
  | some e =>
    right
    exact ⟨e, List.mem_reverse.mp (List.mem_of_find?_eq_some hf), rfl⟩

theorem ws_words (m : LMol) (hm : MolOK m) (ws : List Words) (hw : molWords m = .ok ws) :
    ∀ w ∈ ws, w.fit = true ∧ w.v1 < 2 ^ 57 := by
  intro w hwm
  obtain ⟨hl, hget⟩ := molWords_get m ws hw
  obtain ⟨i, hi, rfl⟩ := List.mem_iff_getElem.mp hwm
  have hia : i < m.atoms.length := by omega
  obtain ⟨mdl, h1, h2⟩ := hget i (m.atoms[i]).1 (m.atoms[i]).2 (List.getElem?_eq_getElem hia)
  rw [List.getElem?_eq_getElem hi] at h2
  have h2' := Option.some.inj h2
  obtain ⟨mdl', g1, g2⟩ := hm.dom (m.atoms[i]) (List.getElem_mem _)
  rw [h1] at g1; obtain rfl := Option.some.inj g1
  rw [h2']
  exact ⟨(atom_ok mdl _ g2).2, atomV1_lt _ g2.z_lo⟩

/-- **`_cython_compiled_structure` does not raise** on a molecule in the shape `MolOK` whose sizes fit the 32-bit fields -/
theorem encStructure_total (m : LMol) (hm : MolOK m) (hs : MolSmall m) : ∃ cm, encStructure m = .ok cm := by
  obtain ⟨ws, hw⟩ := molWords_total m hm
  obtain ⟨hwl, _⟩ := molWords_get m ws hw
  have hidl : m.ids.length = m.atoms.length := by simp [LMol.ids]
  obtain ⟨res, hres⟩ := molBonds_total m.ids (ws.map (·.v1)) (by simp [hwl, hidl]) m.adj 0 (by
    intro r hr
    refine ⟨?_, hm.nbrs_atoms r hr⟩
    rw [← hm.keys]; exact List.mem_map.mpr ⟨r, hr, rfl⟩)
  obtain ⟨offs, bonds⟩ := res
  obtain ⟨hbl, hbm, hoff⟩ := molBonds_mem m.ids (ws.map (·.v1)) m.adj 0 offs bonds hres
  have hwf := ws_words m hm ws hw
  have hbsmall : bonds.length < two32 := by rw [hbl]; exact hs.nbonds
  unfold encStructure
  simp only [hw, hres, bind, Except.bind]
  have hfit : (decide (m.ids.length < two32) &&
      ((ws.zip m.ids).zipIdx.map fun (x : (Words × Nat) × Nat) =>
        (⟨x.1.1.v1, x.1.1.v2, x.1.1.v3, x.1.1.v4, (offOf offs x.2).1, (offOf offs x.2).2, x.1.2⟩ : CAtom)).all CAtom.fit &&
      bonds.all CBond.fit) = true := by
    rw [Bool.and_eq_true, Bool.and_eq_true]
    refine ⟨⟨decide_eq_true (by rw [hidl]; exact hs.natoms), ?_⟩, ?_⟩
    · rw [List.all_eq_true]
      intro ca hca
      obtain ⟨x, hx, rfl⟩ := List.mem_map.mp hca
      have hx' := (List.mem_zipIdx hx)
      have hxz : x.1 ∈ ws.zip m.ids := by
        have := hx'.2.2; rw [this]; exact List.getElem_mem _
      obtain ⟨hw1, hn1⟩ := List.of_mem_zip hxz
      obtain ⟨hf, _⟩ := hwf x.1.1 hw1
      simp only [Words.fit, Bool.and_eq_true, decide_eq_true_eq] at hf
      obtain ⟨p, hp, hpe⟩ := List.mem_map.mp (show x.1.2 ∈ m.atoms.map (·.1) from hn1)
      have hnum := hs.numbers p hp
      rw [hpe] at hnum
      have hft : (offOf offs x.2).1 < two32 ∧ (offOf offs x.2).2 < two32 := by
        rcases offOf_cases offs x.2 with h0 | ⟨e, he, h0⟩
        · rw [h0]; exact ⟨by decide, by decide⟩
        · rw [h0]; have := hoff e he; simp only; omega
      simp only [CAtom.fit, Bool.and_eq_true, decide_eq_true_eq]
      exact ⟨⟨⟨⟨⟨⟨hf.1.1.1, hf.1.1.2⟩, hf.1.2⟩, hf.2⟩, hft.1⟩, hft.2⟩, hnum⟩
    · rw [List.all_eq_true]
      intro b hb
      obtain ⟨mb, v, h1, h2, h3⟩ := hbm b hb
      have hv : v < 2 ^ 57 := by
        rw [List.getElem?_map] at h1
        cases hwb : ws[b.index]? with
        | none => rw [hwb] at h1; simp at h1
        | some w =>
          rw [hwb] at h1; simp only [Option.map_some, Option.some.injEq] at h1
          rw [← h1]; exact (hwf w (List.mem_of_getElem? hwb)).2
      simp only [CBond.fit, Bool.and_eq_true, decide_eq_true_eq]
      refine ⟨by rw [h2]; exact bondWord_lt v mb hv, ?_⟩
      have := hs.natoms; omega
  exact ⟨_, by simp only [hfit, if_true]; rfl⟩

end ChythonModel.Proofs.C09
