import Mathlib.Tactic.SplitIfs
import ChythonModel.Model.C05Rules
import ChythonModel.Spec.AromaticAtoms
/-!
# C05 — facts about the classification decision table (`classify`) proved by case analysis
-/
namespace ChythonModel.Proofs.C05
open ChythonModel.Model ChythonModel.Model.C05

theorem classify_foreign (a : RingAtom)
    (h : a.z ≠ 5 ∧ a.z ≠ 6 ∧ a.z ≠ 7 ∧ a.z ≠ 8 ∧ a.z ≠ 15 ∧ a.z ≠ 16 ∧ a.z ≠ 33 ∧ a.z ≠ 34 ∧ a.z ≠ 52) :
    classify a = none := by
  obtain ⟨h5, h6, h7, h8, h15, h16, h33, h34, h52⟩ := h
  simp [classify, h5, h6, h7, h8, h15, h16, h33, h34, h52]

/-- the element case split every proof below starts with -/
theorem z_cases (a : RingAtom) :
    a.z = 5 ∨ a.z = 6 ∨ a.z = 7 ∨ a.z = 8 ∨ a.z = 15 ∨ a.z = 16 ∨ a.z = 33 ∨ a.z = 34 ∨ a.z = 52 ∨
    (a.z ≠ 5 ∧ a.z ≠ 6 ∧ a.z ≠ 7 ∧ a.z ≠ 8 ∧ a.z ≠ 15 ∧ a.z ≠ 16 ∧ a.z ≠ 33 ∧ a.z ≠ 34 ∧ a.z ≠ 52) := by
  omega

theorem classifyAtom_charge (a : RingAtom) (c : Cls) (h : classifyAtom a = some c) :
    a.charge = -1 ∨ a.charge = 0 ∨ a.charge = 1 := by
  by_cases c1 : a.charge = -1
  · exact Or.inl c1
  by_cases c2 : a.charge = 0
  · exact Or.inr (Or.inl c2)
  by_cases c3 : a.charge = 1
  · exact Or.inr (Or.inr c3)
  exfalso
  have : classifyAtom a = none := by
    rcases z_cases a with hz | hz | hz | hz | hz | hz | hz | hz | hz | hz
    all_goals first
      | (cases he : a.exo <;> simp [classifyAtom, quinoneOk, classify, hz, he, c1, c2, c3])
      | (obtain ⟨h5, h6, h7, h8, h15, h16, h33, h34, h52⟩ := hz
         simp [classifyAtom, classify, h5, h6, h7, h8, h15, h16, h33, h34, h52])
  rw [this] at h
  cases h

theorem classify_neighbors (a : RingAtom) (c : Cls) (h : classify a = some c) (hb : a.z ≠ 5) (he : a.exo = false) :
    2 ≤ a.neighbors ∧ a.neighbors ≤ 4 := by
  by_cases n2 : a.neighbors = 2
  · omega
  by_cases n3 : a.neighbors = 3
  · omega
  by_cases n4 : a.neighbors = 4
  · omega
  exfalso
  have : classify a = none := by
    rcases z_cases a with hz | hz | hz | hz | hz | hz | hz | hz | hz | hz
    · exact absurd hz hb
    all_goals first
      | (simp [classify, hz, he, n2, n3, n4]; done)
      | (obtain ⟨h5, h6, h7, h8, h15, h16, h33, h34, h52⟩ := hz
         simp [classify, h5, h6, h7, h8, h15, h16, h33, h34, h52])
  rw [this] at h
  cases h

/-- an atom is put into both sets only when it already carried an exocyclic double bond -/
theorem classify_disjoint (a : RingAtom) (c : Cls) (h : classify a = some c) (hd : c.db = true) (hp : c.pyr = true) :
    a.exo = true := by
  cases he : a.exo with
  | true => rfl
  | false =>
    exfalso
    rcases z_cases a with hz | hz | hz | hz | hz | hz | hz | hz | hz | hz
    all_goals first
      | (simp only [classify, hz, he] at h
         simp only [Nat.reduceBEq, Bool.false_eq_true, if_false, if_true, Bool.or_false, Bool.or_true, Bool.false_or,
           Bool.true_or, Bool.not_false, Bool.not_true] at h
         split_ifs at h
         all_goals first
           | (cases h; done)
           | (simp only [Option.some.injEq] at h; subst h; simp at hd hp; done)
           | (split at h <;> first | (cases h; done) | (simp only [Option.some.injEq] at h; subst h; simp at hd hp; done)))
      | (obtain ⟨h5, h6, h7, h8, h15, h16, h33, h34, h52⟩ := hz
         simp [classify, h5, h6, h7, h8, h15, h16, h33, h34, h52] at h)

end ChythonModel.Proofs.C05
