import ChythonModel.Model.C02RoundTrip
/-! # C02 — parenthesis structure of the flattened DFS tree and of the emitted tokens -/
namespace ChythonModel.Proofs.C02
open ChythonModel.Model ChythonModel.Model.SmilesWriter ChythonModel.Model.C02RT


/-- parenthesis depth scan on the flattened graph tokens -/
def fparen : Nat → List FTok → Option Nat
  | d, [] => some d
  | d, .lpar :: ts => fparen (d + 1) ts
  | d, .rpar :: ts => if d == 0 then none else fparen (d - 1) ts
  | d, _ :: ts => fparen d ts

theorem fparen_append_balanced {l : List FTok} (hl : ∀ d rest, fparen d (l ++ rest) = fparen d rest)
    (d : Nat) (rest : List FTok) : fparen d (.lpar :: (l ++ .rpar :: rest)) = fparen d rest := by
  simp [fparen, hl]

theorem flatKids_balanced (rec : Nat → List FTok) (hrec : ∀ c d rest, fparen d (rec c ++ rest) = fparen d rest)
    (tail : Nat) (kids : List Nat) : ∀ d rest, fparen d (flatKids rec tail kids ++ rest) = fparen d rest := by
  induction kids with
  | nil => intro d rest; simp [flatKids]
  | cons c tl ih =>
    intro d rest
    cases tl with
    | nil => simp [flatKids, fparen, hrec]
    | cons c2 tl2 =>
      simp only [flatKids, List.cons_append, List.append_assoc, fparen]
      rw [hrec]
      simp only [List.cons_append, fparen]
      simpa using ih d rest

theorem flat_balanced (edges : List (Nat × List Nat)) (fuel : Nat) :
    ∀ tail d rest, fparen d (flat edges fuel tail ++ rest) = fparen d rest := by
  induction fuel with
  | zero => intro tail d rest; simp [flat]
  | succ f ih =>
    intro tail d rest
    simp only [flat]
    exact flatKids_balanced _ ih _ _ d rest

@[simp] theorem pd_atom (d n a ts) : parenDepth d (WTok.atom n a :: ts) = parenDepth d ts := rfl
@[simp] theorem pd_bond (d s ts) : parenDepth d (WTok.bond s :: ts) = parenDepth d ts := rfl
@[simp] theorem pd_closure (d c ts) : parenDepth d (WTok.closure c :: ts) = parenDepth d ts := rfl
@[simp] theorem pd_lpar (d ts) : parenDepth d (WTok.lpar :: ts) = parenDepth (d + 1) ts := rfl
@[simp] theorem pd_rpar (d ts) : parenDepth d (WTok.rpar :: ts) = if d == 0 then none else parenDepth (d - 1) ts := rfl
@[simp] theorem fp_atom (d n ts) : fparen d (FTok.atom n :: ts) = fparen d ts := rfl
@[simp] theorem fp_bond (d a b ts) : fparen d (FTok.bond a b :: ts) = fparen d ts := rfl

theorem closureBond_shape {m opts sc n k vb bt vb1} (h : closureBond m opts sc n k vb = .ok (bt, vb1)) :
    bt = [] ∨ ∃ s, bt = [WTok.bond s] := by
  unfold closureBond at h
  split at h
  · split at h
    · simp only [Except.ok.injEq, Prod.mk.injEq] at h; exact Or.inl h.1.symm
    · split at h
      · cases h
      · simp only [Except.ok.injEq, Prod.mk.injEq] at h; exact Or.inr ⟨_, h.1.symm⟩
  · split at h
    · cases h
    · simp only [Except.ok.injEq, Prod.mk.injEq] at h; exact Or.inr ⟨_, h.1.symm⟩

theorem emitClosures_noparen (m : Mol) (opts : Opts) (sc : SCtx) (casted : List (Nat × Nat)) (n : Nat) :
    ∀ (cl vb : List (Nat × Nat)) cts vb', emitClosures m opts sc casted n cl vb = .ok (cts, vb') →
      ∀ d rest, parenDepth d (cts ++ rest) = parenDepth d rest := by
  intro cl
  induction cl with
  | nil => intro vb cts vb' h d rest; simp [emitClosures] at h; simp [h.1]
  | cons kc tl ih =>
    intro vb cts vb' h d rest
    obtain ⟨k, c⟩ := kc
    simp only [emitClosures] at h
    split at h
    · cases h
    · split at h
      · cases h
      · rename_i bt vb1 hb
        split at h
        · cases h
        · rename_i rest' vb2 hr
          simp only [Except.ok.injEq, Prod.mk.injEq] at h
          rw [← h.1]
          have := ih vb1 rest' vb2 hr d rest
          rcases closureBond_shape hb with hbt | ⟨s, hbt⟩ <;> subst hbt <;> simp [this]

theorem emit_parens (m : Mol) (opts : Opts) (sc : SCtx) (casted : List (Nat × Nat)) (tokens : List (Nat × List (Nat × Nat))) :
    ∀ (smi : List FTok) vb out order vb', emit m opts sc casted tokens smi vb = .ok (out, order, vb') →
      ∀ d, parenDepth d out = fparen d smi := by
  intro smi
  induction smi with
  | nil => intro vb out order vb' h d; simp [emit] at h; simp [h.1, parenDepth, fparen]
  | cons t tl ih =>
    intro vb out order vb' h d
    cases t with
    | atom n =>
      simp only [emit] at h
      split at h
      · cases h
      · split at h
        · cases h
        · split at h
          · cases h
          · rename_i cts vb1 hc
            split at h
            · cases h
            · rename_i rest order' vb2 hr
              simp only [Except.ok.injEq, Prod.mk.injEq] at h
              rw [← h.1]
              simp only [pd_atom, fp_atom]
              rw [emitClosures_noparen m opts sc casted n _ _ _ _ hc]
              exact ih _ _ _ _ hr d
    | bond a b =>
      simp only [emit] at h
      split at h
      · cases h
      · split at h
        · cases h
        · rename_i rest order' vb2 hr
          simp only [Except.ok.injEq, Prod.mk.injEq] at h
          rw [← h.1]
          simp only [pd_bond, fp_bond]
          exact ih _ _ _ _ hr d
    | lpar =>
      simp only [emit] at h
      split at h
      · cases h
      · rename_i rest order' vb2 hr
        simp only [Except.ok.injEq, Prod.mk.injEq] at h
        rw [← h.1]
        simp only [pd_lpar, fparen]
        exact ih _ _ _ _ hr (d + 1)
    | rpar =>
      simp only [emit] at h
      split at h
      · cases h
      · rename_i rest order' vb2 hr
        simp only [Except.ok.injEq, Prod.mk.injEq] at h
        rw [← h.1]
        simp only [pd_rpar, fparen]
        split
        · rfl
        · exact ih _ _ _ _ hr (d - 1)


end ChythonModel.Proofs.C02
