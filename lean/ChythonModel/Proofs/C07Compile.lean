import ChythonModel.Proofs.C07Check
import ChythonModel.Proofs.C07WF
/-!
`_compile_query` (model `compileQuery`) always produces a linearisation with the properties the matcher theorems need
(`CompiledOK`): DFS invariants of the inner `while stack:` loop and of the outer component loop.
-/
namespace ChythonModel.Proofs.C07
open ChythonModel.Model.Iso

/-! ### `closures[front].append` as an association list -/

theorem get_append_ne (cl : Closures) (f k : Nat) (c : List Nat) (h : k ≠ f) :
    Closures.get (cl ++ [(f, c)]) k = Closures.get cl k := by
  unfold Closures.get
  rw [List.lookup_append]
  have : (k == f) = false := beq_false_of_ne h
  simp [List.lookup, this]

theorem lookup_none_of_not_key (cl : Closures) (f : Nat) (h : f ∉ cl.map (·.1)) : cl.lookup f = none := by
  induction cl with
  | nil => rfl
  | cons a cl ih =>
    obtain ⟨a1, a2⟩ := a
    simp only [List.map_cons, List.mem_cons, not_or] at h
    rw [List.lookup_cons]
    have : (f == a1) = false := beq_false_of_ne h.1
    simp [this, ih h.2]

theorem get_append_new (cl : Closures) (f : Nat) (c : List Nat) (h : f ∉ cl.map (·.1)) :
    Closures.get (cl ++ [(f, c)]) f = c := by
  unfold Closures.get
  rw [List.lookup_append, lookup_none_of_not_key cl f h]
  simp [List.lookup]

theorem get_of_not_key (cl : Closures) (f : Nat) (h : f ∉ cl.map (·.1)) : Closures.get cl f = [] := by
  unfold Closures.get
  rw [lookup_none_of_not_key cl f h]
  rfl

/-! ### per-step facts without the component-closedness clause -/

structure StepCore (q : Graph) (cl : Closures) (earlier : List Nat) (s : Step) : Prop where
  back_none : s.back = none → earlier = []
  back_some : ∀ b, s.back = some b → b ∈ earlier ∧ b ∈ q.nbrs s.front ∧ b ∉ cl.get s.front
  nodup : (cl.get s.front).Nodup
  cls : ∀ m, m ∈ s.back.toList ++ cl.get s.front ↔ (m ∈ q.nbrs s.front ∧ m ∈ earlier)

theorem StepCore.congr {q : Graph} {cl cl' : Closures} {earlier : List Nat} {s : Step}
    (h : cl'.get s.front = cl.get s.front) (hc : StepCore q cl earlier s) : StepCore q cl' earlier s := by
  refine ⟨hc.back_none, ?_, ?_, ?_⟩
  · intro b hb; rw [h]; exact hc.back_some b hb
  · rw [h]; exact hc.nodup
  · intro m; rw [h]; exact hc.cls m

theorem StepOK.congr {q : Graph} {cl cl' : Closures} {CF earlier : List Nat} {s : Step}
    (h : cl'.get s.front = cl.get s.front) (hc : StepOK q cl CF earlier s) : StepOK q cl' CF earlier s := by
  refine ⟨hc.closed, hc.back_none, ?_, ?_, ?_⟩
  · intro b hb; rw [h]; exact hc.back_some b hb
  · rw [h]; exact hc.nodup
  · intro m; rw [h]; exact hc.cls m

/-! ### the inner loop -/

structure DfsInv (g : Graph) (S0 : List Nat) (stack : List (Nat × Nat)) (seen : List Nat) (order : List Step)
    (cl : Closures) : Prop where
  seen_eq : seen = (order.map (·.front)).reverse ++ S0
  seen_nodup : seen.Nodup
  s0_closed : ∀ u ∈ S0, ∀ v ∈ g.nbrs u, v ∈ S0
  keys : ∀ k ∈ cl.map (·.1), k ∈ seen
  ne : order ≠ []
  order_atoms : ∀ u ∈ order.map (·.front), u ∈ g.atoms
  stack_ok : ∀ e ∈ stack, e.2 ∈ order.map (·.front) ∧ e.1 ∈ g.nbrs e.2
  steps : ∀ i s, order[i]? = some s → StepCore g cl ((order.take i).map (·.front)) s
  frontier : ∀ u ∈ order.map (·.front), ∀ v ∈ g.nbrs u, v ∈ seen ∨ ∃ b, (v, b) ∈ stack

theorem dfsLoop_nil (g : Graph) (fuel : Nat) (seen : List Nat) (order : List Step) (cl : Closures) :
    dfsLoop g (fuel + 1) [] seen order cl = some (seen, order, cl) := by
  simp [dfsLoop]

theorem dfsLoop_seen (g : Graph) (fuel front back : Nat) (stack : List (Nat × Nat)) (seen : List Nat) (order : List Step)
    (cl : Closures) (h : seen.contains front = true) :
    dfsLoop g (fuel + 1) ((front, back) :: stack) seen order cl = dfsLoop g fuel stack seen order cl := by
  rw [dfsLoop]; simp only [h, if_true]

theorem dfsLoop_new (g : Graph) (fuel front back : Nat) (stack : List (Nat × Nat)) (seen : List Nat) (order : List Step)
    (cl : Closures) (h : seen.contains front = false) :
    dfsLoop g (fuel + 1) ((front, back) :: stack) seen order cl =
      dfsLoop g fuel
        (((g.nbrs front).filter fun n => n != back && !seen.contains n).map (fun n => (n, front)) ++ stack)
        (front :: seen) (order ++ [⟨front, some back⟩])
        (cl ++ [(front, (g.nbrs front).reverse.filter fun n => n != back && seen.contains n)]) := by
  rw [dfsLoop]; simp only [h, Bool.false_eq_true, if_false]

theorem dfs_step_new (g : Graph) (hg : GraphOK g) (S0 : List Nat) (front back : Nat) (stack : List (Nat × Nat))
    (seen : List Nat) (order : List Step) (cl : Closures)
    (inv : DfsInv g S0 ((front, back) :: stack) seen order cl) (h : seen.contains front = false) :
    DfsInv g S0
      (((g.nbrs front).filter fun n => n != back && !seen.contains n).map (fun n => (n, front)) ++ stack)
      (front :: seen) (order ++ [⟨front, some back⟩])
      (cl ++ [(front, (g.nbrs front).reverse.filter fun n => n != back && seen.contains n)]) := by
  have hfs : front ∉ seen := by
    intro hm
    rw [List.contains_iff_mem.2 hm] at h
    exact Bool.noConfusion h
  obtain ⟨hbF, hfb⟩ := inv.stack_ok (front, back) (by simp)
  have hbf : back ∈ g.nbrs front := hg.symm _ _ hfb
  have hFseen : ∀ u ∈ order.map (·.front), u ∈ seen := by
    intro u hu; rw [inv.seen_eq]; simp [hu]
  have hfk : front ∉ cl.map (·.1) := fun hk => hfs (inv.keys front hk)
  -- a seen neighbour of `front` lies in the current component
  have hseenF : ∀ m ∈ g.nbrs front, m ∈ seen → m ∈ order.map (·.front) := by
    intro m hm hms
    rw [inv.seen_eq] at hms
    rcases List.mem_append.1 hms with h1 | h1
    · simpa using h1
    · exfalso
      have := inv.s0_closed m h1 front (hg.symm _ _ hm)
      apply hfs
      rw [inv.seen_eq]
      exact List.mem_append_right _ this
  refine ⟨?_, ?_, inv.s0_closed, ?_, by simp, ?_, ?_, ?_, ?_⟩
  · rw [inv.seen_eq]; simp
  · exact List.nodup_cons.2 ⟨hfs, inv.seen_nodup⟩
  · intro k hk
    simp only [List.map_append, List.map_cons, List.map_nil, List.mem_append, List.mem_singleton] at hk
    rcases hk with hk | hk
    · exact List.mem_cons_of_mem _ (inv.keys k hk)
    · rw [hk]; simp
  · intro u hu
    simp only [List.map_append, List.map_cons, List.map_nil, List.mem_append, List.mem_singleton] at hu
    rcases hu with hu | hu
    · exact inv.order_atoms u hu
    · rw [hu]; exact hg.closed _ _ hfb
  · intro e he
    rcases List.mem_append.1 he with he | he
    · obtain ⟨n, hn, rfl⟩ := List.mem_map.1 he
      simp only [List.mem_filter] at hn
      exact ⟨by simp, hn.1⟩
    · have := inv.stack_ok e (List.mem_cons_of_mem _ he)
      exact ⟨by simp [this.1], this.2⟩
  · intro i s hi
    rcases Nat.lt_trichotomy i order.length with hlt | heq | hgt
    · rw [List.getElem?_append_left hlt] at hi
      rw [List.take_append_of_le_length (by omega)]
      have hsF : s.front ∈ order.map (·.front) := List.mem_map.2 ⟨s, List.mem_of_getElem? hi, rfl⟩
      have hne : s.front ≠ front := fun hh => hfs (hh ▸ hFseen _ hsF)
      exact StepCore.congr (get_append_ne cl front s.front _ hne) (inv.steps i s hi)
    · subst heq
      rw [List.getElem?_append_right (by omega)] at hi
      simp at hi
      subst hi
      rw [List.take_append_of_le_length (by omega), List.take_length]
      have hget := get_append_new cl front
        ((g.nbrs front).reverse.filter fun n => n != back && seen.contains n) hfk
      refine ⟨by simp, ?_, ?_, ?_⟩
      · intro b hb
        simp at hb
        subst hb
        refine ⟨hbF, hbf, ?_⟩
        dsimp only
        rw [hget]
        simp [List.mem_filter]
      · dsimp only
        rw [hget]
        exact List.Nodup.filter _ (List.nodup_reverse.2 (hg.nbrs_nodup front))
      · intro m
        dsimp only
        rw [hget]
        simp only [Option.toList_some, List.cons_append, List.nil_append, List.mem_cons, List.mem_filter,
          List.mem_reverse, Bool.and_eq_true, bne_iff_ne, ne_eq, List.contains_iff_mem]
        constructor
        · rintro (rfl | ⟨hm, _, hms⟩)
          · exact ⟨hbf, hbF⟩
          · exact ⟨hm, hseenF m hm hms⟩
        · rintro ⟨hm, hmF⟩
          by_cases hmb : m = back
          · left; exact hmb
          · right; exact ⟨hm, hmb, hFseen m hmF⟩
    · rw [List.getElem?_eq_none (by simp; omega)] at hi
      simp at hi
  · intro u hu v hv
    simp only [List.map_append, List.map_cons, List.map_nil, List.mem_append, List.mem_singleton] at hu
    rcases hu with hu | hu
    · rcases inv.frontier u hu v hv with h1 | ⟨b, hb⟩
      · left; exact List.mem_cons_of_mem _ h1
      · rcases List.mem_cons.1 hb with hb | hb
        · left
          have : v = front := (Prod.mk.inj hb).1
          rw [this]; simp
        · right; exact ⟨b, List.mem_append_right _ hb⟩
    · subst hu
      by_cases hvb : v = back
      · left; rw [hvb]; exact List.mem_cons_of_mem _ (hFseen _ hbF)
      · by_cases hvs : v ∈ seen
        · left; exact List.mem_cons_of_mem _ hvs
        · right
          refine ⟨u, List.mem_append_left _ (List.mem_map.2 ⟨v, ?_, rfl⟩)⟩
          simp only [List.mem_filter, Bool.and_eq_true, bne_iff_ne, ne_eq, Bool.not_eq_true']
          refine ⟨hv, hvb, ?_⟩
          cases hc : seen.contains v with
          | false => rfl
          | true => exact absurd (List.contains_iff_mem.1 hc) hvs

theorem dfs_inv (g : Graph) (hg : GraphOK g) (S0 : List Nat) : ∀ (fuel : Nat) (stack : List (Nat × Nat)) (seen : List Nat)
    (order : List Step) (cl : Closures), DfsInv g S0 stack seen order cl →
    ∀ seen' order' cl', dfsLoop g fuel stack seen order cl = some (seen', order', cl') →
      DfsInv g S0 [] seen' order' cl' ∧ ∀ k ∈ seen, cl'.get k = cl.get k := by
  intro fuel
  induction fuel with
  | zero => intro stack seen order cl _ seen' order' cl' h; simp [dfsLoop] at h
  | succ fuel ih =>
    intro stack seen order cl inv seen' order' cl' h
    match stack, inv with
    | [], inv =>
      rw [dfsLoop_nil] at h
      simp only [Option.some.injEq, Prod.mk.injEq] at h
      obtain ⟨rfl, rfl, rfl⟩ := h
      exact ⟨inv, fun _ _ => rfl⟩
    | (front, back) :: stack, inv =>
      by_cases hc : seen.contains front = true
      · rw [dfsLoop_seen g fuel front back stack seen order cl hc] at h
        have inv' : DfsInv g S0 stack seen order cl := by
          refine ⟨inv.seen_eq, inv.seen_nodup, inv.s0_closed, inv.keys, inv.ne, inv.order_atoms, ?_, inv.steps, ?_⟩
          · intro e he; exact inv.stack_ok e (List.mem_cons_of_mem _ he)
          · intro u hu v hv
            rcases inv.frontier u hu v hv with h1 | ⟨b, hb⟩
            · left; exact h1
            · rcases List.mem_cons.1 hb with hb | hb
              · left
                have : v = front := (Prod.mk.inj hb).1
                rw [this]; exact List.contains_iff_mem.1 hc
              · right; exact ⟨b, hb⟩
        exact ih stack seen order cl inv' seen' order' cl' h
      · have hc' : seen.contains front = false := by simpa using hc
        rw [dfsLoop_new g fuel front back stack seen order cl hc'] at h
        have inv' := dfs_step_new g hg S0 front back stack seen order cl inv hc'
        obtain ⟨r1, r2⟩ := ih _ _ _ _ inv' seen' order' cl' h
        refine ⟨r1, ?_⟩
        intro k hk
        rw [r2 k (List.mem_cons_of_mem _ hk)]
        apply get_append_ne
        intro hkf
        rw [hkf] at hk
        rw [List.contains_iff_mem.2 hk] at hc'
        exact Bool.noConfusion hc'

theorem dfs_seen_grows (g : Graph) : ∀ (fuel : Nat) (stack : List (Nat × Nat)) (seen : List Nat) (order : List Step)
    (cl : Closures) (seen' : List Nat) (order' : List Step) (cl' : Closures),
    dfsLoop g fuel stack seen order cl = some (seen', order', cl') → ∀ w ∈ seen, w ∈ seen' := by
  intro fuel
  induction fuel with
  | zero => intro stack seen order cl seen' order' cl' h; simp [dfsLoop] at h
  | succ fuel ih =>
    intro stack seen order cl seen' order' cl' h w hw
    match stack with
    | [] =>
      rw [dfsLoop_nil] at h
      simp only [Option.some.injEq, Prod.mk.injEq] at h
      obtain ⟨rfl, _, _⟩ := h
      exact hw
    | (front, back) :: stack =>
      by_cases hc : seen.contains front = true
      · rw [dfsLoop_seen g fuel front back stack seen order cl hc] at h
        exact ih _ _ _ _ _ _ _ h w hw
      · have hc' : seen.contains front = false := by simpa using hc
        rw [dfsLoop_new g fuel front back stack seen order cl hc'] at h
        exact ih _ _ _ _ _ _ _ h w (List.mem_cons_of_mem _ hw)

/-! ### the outer loop -/

structure CompInv (g : Graph) (seen : List Nat) (comps : List (List Step)) (cl : Closures) : Prop where
  seen_eq : seen = (comps.flatten.map (·.front)).reverse
  seen_nodup : seen.Nodup
  seen_sub : ∀ u ∈ seen, u ∈ g.atoms
  closed : ∀ u ∈ seen, ∀ v ∈ g.nbrs u, v ∈ seen
  keys : ∀ k ∈ cl.map (·.1), k ∈ seen
  comps_ok : ∀ c ∈ comps, CompOK g cl c

theorem CompOK.congr {g : Graph} {cl cl' : Closures} {c : List Step}
    (h : ∀ s ∈ c, cl'.get s.front = cl.get s.front) (hc : CompOK g cl c) : CompOK g cl' c :=
  ⟨hc.ne, fun i s hi => StepOK.congr (h s (List.mem_of_getElem? hi)) (hc.step i s hi)⟩

theorem compile_inv (g : Graph) (hg : GraphOK g) (fuel : Nat) : ∀ (rest seen : List Nat) (comps : List (List Step))
    (cl : Closures), CompInv g seen comps cl → (∀ u ∈ rest, u ∈ g.atoms) →
    ∀ comps' cl', compileLoop g fuel rest seen comps cl = some (comps', cl') →
      ∃ seen', CompInv g seen' comps' cl' ∧ (∀ u ∈ seen, u ∈ seen') ∧ (∀ u ∈ rest, u ∈ seen') := by
  intro rest
  induction rest with
  | nil =>
    intro seen comps cl inv _ comps' cl' h
    simp only [compileLoop, Option.some.injEq, Prod.mk.injEq] at h
    obtain ⟨rfl, rfl⟩ := h
    exact ⟨seen, inv, fun _ h => h, by simp⟩
  | cons x rest ih =>
    intro seen comps cl inv hrest comps' cl' h
    by_cases hc : seen.contains x = true
    · rw [compileLoop] at h
      simp only [hc, if_true] at h
      obtain ⟨seen', i1, i2, i3⟩ := ih seen comps cl inv (fun u hu => hrest u (by simp [hu])) comps' cl' h
      refine ⟨seen', i1, i2, ?_⟩
      intro u hu
      rcases List.mem_cons.1 hu with rfl | hu
      · exact i2 _ (List.contains_iff_mem.1 hc)
      · exact i3 u hu
    · have hxs : x ∉ seen := fun hm => hc (List.contains_iff_mem.2 hm)
      have hc' : seen.contains x = false := by simpa using hc
      rw [compileLoop] at h
      simp only [hc', Bool.false_eq_true, if_false] at h
      cases hd : dfsLoop g fuel ((g.nbrs x).map fun n => (n, x)) (x :: seen) [⟨x, none⟩] cl with
      | none => rw [hd] at h; simp at h
      | some r =>
        obtain ⟨seen1, order1, cl1⟩ := r
        rw [hd] at h
        simp only at h
        have hxk : x ∉ cl.map (·.1) := fun hk => hxs (inv.keys x hk)
        have dinv : DfsInv g seen ((g.nbrs x).map fun n => (n, x)) (x :: seen) [⟨x, none⟩] cl := by
          refine ⟨by simp, List.nodup_cons.2 ⟨hxs, inv.seen_nodup⟩, inv.closed, ?_, by simp, ?_, ?_, ?_, ?_⟩
          · intro k hk; exact List.mem_cons_of_mem _ (inv.keys k hk)
          · intro u hu; simp at hu; rw [hu]; exact hrest x (by simp)
          · intro e he
            obtain ⟨n, hn, rfl⟩ := List.mem_map.1 he
            exact ⟨by simp, hn⟩
          · intro i s hi
            cases i with
            | zero =>
              simp at hi
              subst hi
              simp only [List.take_zero, List.map_nil]
              have hget : Closures.get cl x = [] := get_of_not_key cl x hxk
              refine ⟨fun _ => rfl, by simp, ?_, ?_⟩
              · show (Closures.get cl x).Nodup
                rw [hget]; simp
              · intro m
                show m ∈ (none : Option Nat).toList ++ Closures.get cl x ↔ _
                rw [hget]; simp
            | succ i => simp at hi
          · intro u hu v hv
            simp at hu
            subst hu
            right
            exact ⟨u, List.mem_map.2 ⟨v, hv, rfl⟩⟩
        obtain ⟨d1, d2⟩ := dfs_inv g hg seen fuel _ _ _ _ dinv seen1 order1 cl1 hd
        -- the finished component
        have hF1 : ∀ u ∈ order1.map (·.front), u ∈ seen1 := by
          intro u hu; rw [d1.seen_eq]; simp [hu]
        have hdisj : ∀ u ∈ order1.map (·.front), u ∉ seen := by
          intro u hu hus
          have := d1.seen_nodup
          rw [d1.seen_eq, List.nodup_append] at this
          exact this.2.2 u (by simpa using hu) u hus rfl
        have hcomp : CompOK g cl1 order1 := by
          refine ⟨d1.ne, ?_⟩
          intro i s hi
          have core := d1.steps i s hi
          have hsF : s.front ∈ order1.map (·.front) := List.mem_map.2 ⟨s, List.mem_of_getElem? hi, rfl⟩
          refine ⟨?_, core.back_none, core.back_some, core.nodup, core.cls⟩
          intro v hv
          rcases d1.frontier s.front hsF v hv with h1 | ⟨b, hb⟩
          · rw [d1.seen_eq] at h1
            rcases List.mem_append.1 h1 with h2 | h2
            · simpa using h2
            · exfalso
              exact hdisj _ hsF (d1.s0_closed v h2 s.front (hg.symm _ _ hv))
          · simp at hb
        have inv1 : CompInv g seen1 (comps ++ [order1]) cl1 := by
          refine ⟨?_, d1.seen_nodup, ?_, ?_, d1.keys, ?_⟩
          · rw [d1.seen_eq, inv.seen_eq]; simp
          · intro u hu
            rw [d1.seen_eq] at hu
            rcases List.mem_append.1 hu with h2 | h2
            · exact d1.order_atoms u (by simpa using h2)
            · exact inv.seen_sub u h2
          · intro u hu v hv
            rw [d1.seen_eq] at hu
            rcases List.mem_append.1 hu with h2 | h2
            · have hu' : u ∈ order1.map (·.front) := by simpa using h2
              rcases d1.frontier u hu' v hv with h1 | ⟨b, hb⟩
              · exact h1
              · simp at hb
            · rw [d1.seen_eq]
              exact List.mem_append_right _ (inv.closed u h2 v hv)
          · intro c hcm
            rcases List.mem_append.1 hcm with hcm | hcm
            · refine CompOK.congr ?_ (inv.comps_ok c hcm)
              intro s hs
              apply d2
              refine List.mem_cons_of_mem _ ?_
              rw [inv.seen_eq]
              simp only [List.mem_reverse, List.mem_map, List.mem_flatten]
              exact ⟨s, ⟨c, hcm, hs⟩, rfl⟩
            · simp at hcm
              rw [hcm]; exact hcomp
        obtain ⟨seen', i1, i2, i3⟩ := ih seen1 (comps ++ [order1]) cl1 inv1 (fun u hu => hrest u (by simp [hu])) comps' cl' h
        have hsub : ∀ u ∈ x :: seen, u ∈ seen1 := fun w hw => dfs_seen_grows g fuel _ _ _ _ _ _ _ hd w hw
        refine ⟨seen', i1, fun u hu => i2 u (hsub u (List.mem_cons_of_mem _ hu)), ?_⟩
        intro u hu
        rcases List.mem_cons.1 hu with hux | hu
        · exact i2 _ (hsub _ (by simp [hux]))
        · exact i3 u hu

/-- **`compile_covers`**: whatever `_compile_query` returns for a well-formed pattern is a valid DFS linearisation —
    every atom exactly once; every component starts with a back-less step, every other step hangs on an earlier atom of
    its component by a pattern bond; for every step, parent + recorded closures = exactly the earlier-visited neighbours
    (so every pattern bond is a tree edge or a recorded closure exactly once); no bond leaves a component. -/
theorem compile_ok (g : Graph) (hwf : g.WF = true) (comps : List (List Step)) (cl : Closures)
    (h : compileQuery g = some (comps, cl)) : CompiledOK g comps cl := by
  have hg := wf_ok g hwf
  unfold compileQuery at h
  have inv0 : CompInv g [] [] [] := ⟨by simp, by simp, by simp, by simp, by simp, by simp⟩
  obtain ⟨seen', inv, _, hall⟩ := compile_inv g hg (fuelFor g) g.atoms [] [] [] inv0 (fun _ h => h) comps cl h
  refine ⟨?_, ?_, ?_, inv.comps_ok⟩
  · have := inv.seen_nodup
    rw [inv.seen_eq, List.nodup_reverse] at this
    exact this
  · intro u hu
    apply inv.seen_sub
    rw [inv.seen_eq]
    simpa using hu
  · intro u hu
    have := hall u hu
    rw [inv.seen_eq] at this
    simpa using this

/-! ### the fuel always suffices -/

/-- sum of the degrees of the atoms not yet seen -/
def remDeg (g : Graph) (seen : List Nat) : Nat :=
  ((g.atoms.filter fun u => !seen.contains u).map fun u => (g.nbrs u).length).sum

theorem sum_filter_split (d : Nat → Nat) (x : Nat) (seen : List Nat) (hx : x ∉ seen) :
    ∀ (l : List Nat), l.Nodup → x ∈ l →
      ((l.filter fun u => !seen.contains u).map d).sum = ((l.filter fun u => !(x :: seen).contains u).map d).sum + d x := by
  intro l
  induction l with
  | nil => intro _ h; simp at h
  | cons a l ih =>
    intro hnd hmem
    rw [List.nodup_cons] at hnd
    by_cases hax : a = x
    · subst hax
      have h1 : (!seen.contains a) = true := by
        cases hc : seen.contains a with
        | false => rfl
        | true => exact absurd (List.contains_iff_mem.1 hc) hx
      have h2 : (!(a :: seen).contains a) = false := by simp
      have hcongr : l.filter (fun u => !(a :: seen).contains u) = l.filter (fun u => !seen.contains u) := by
        apply List.filter_congr
        intro b hb
        have hba : b ≠ a := fun h => hnd.1 (h ▸ hb)
        simp [List.contains_cons, hba]
      simp only [List.filter_cons, h1, h2, if_true, Bool.false_eq_true, if_false, List.map_cons, List.sum_cons, hcongr]
      omega
    · have hxl : x ∈ l := by
        rcases List.mem_cons.1 hmem with h | h
        · exact absurd h.symm hax
        · exact h
      have hsame : (!(x :: seen).contains a) = (!seen.contains a) := by
        simp [List.contains_cons, hax]
      have := ih hnd.2 hxl
      by_cases hp : (!seen.contains a) = true
      · simp only [List.filter_cons, hsame, hp, if_true, List.map_cons, List.sum_cons]
        omega
      · have hp' : (!seen.contains a) = false := by simpa using hp
        simp only [List.filter_cons, hsame, hp', Bool.false_eq_true, if_false]
        exact this

theorem remDeg_split (g : Graph) (hnd : g.atoms.Nodup) (x : Nat) (seen : List Nat) (hx : x ∉ seen) (hxa : x ∈ g.atoms) :
    remDeg g seen = remDeg g (x :: seen) + (g.nbrs x).length :=
  sum_filter_split (fun u => (g.nbrs u).length) x seen hx g.atoms hnd hxa

theorem sum_filter_le (d : Nat → Nat) (p : Nat → Bool) : ∀ (l : List Nat), ((l.filter p).map d).sum ≤ (l.map d).sum := by
  intro l
  induction l with
  | nil => simp
  | cons a l ih =>
    by_cases hp : p a = true
    · simp only [List.filter_cons, hp, if_true, List.map_cons, List.sum_cons]; omega
    · have hp' : p a = false := by simpa using hp
      simp only [List.filter_cons, hp', Bool.false_eq_true, if_false, List.map_cons, List.sum_cons]; omega

theorem lookup_of_mem_nodup {β} : ∀ (l : List (Nat × β)), (l.map (·.1)).Nodup → ∀ k v, (k, v) ∈ l → l.lookup k = some v := by
  intro l
  induction l with
  | nil => intro _ k v h; simp at h
  | cons a l ih =>
    intro hnd k v hm
    obtain ⟨a1, a2⟩ := a
    simp only [List.map_cons, List.nodup_cons] at hnd
    rw [List.lookup_cons]
    rcases List.mem_cons.1 hm with h | h
    · cases h
      simp
    · have hne : (k == a1) = false := by
        apply beq_false_of_ne
        intro hk
        apply hnd.1
        rw [← hk]
        exact List.mem_map.2 ⟨(k, v), h, rfl⟩
      simp [hne, ih hnd.2 k v h]

theorem remDeg_le (g : Graph) (hwf : g.WF = true) (seen : List Nat) : remDeg g seen ≤ degreeSum g := by
  simp only [Graph.WF, Bool.and_eq_true, decide_eq_true_eq, beq_iff_eq] at hwf
  obtain ⟨⟨h1, h2⟩, _⟩ := hwf
  unfold remDeg degreeSum
  refine Nat.le_trans (sum_filter_le _ _ _) ?_
  rw [← h2, List.map_map]
  apply Nat.le_of_eq
  congr 1
  apply List.map_congr_left
  intro p hp
  obtain ⟨k, v⟩ := p
  simp only [Function.comp, Graph.nbrs]
  rw [lookup_of_mem_nodup g.adj (h2 ▸ h1) k v hp]
  rfl

theorem dfs_total (g : Graph) (hg : GraphOK g) : ∀ (fuel : Nat) (stack : List (Nat × Nat)) (seen : List Nat)
    (order : List Step) (cl : Closures), (∀ e ∈ stack, e.1 ∈ g.atoms) → stack.length + remDeg g seen + 1 ≤ fuel →
    ∃ r, dfsLoop g fuel stack seen order cl = some r := by
  intro fuel
  induction fuel with
  | zero => intro stack seen order cl _ h; omega
  | succ fuel ih =>
    intro stack seen order cl hst hf
    match stack, hst, hf with
    | [], _, _ => exact ⟨_, dfsLoop_nil g fuel seen order cl⟩
    | (front, back) :: stack, hst, hf =>
      by_cases hc : seen.contains front = true
      · rw [dfsLoop_seen g fuel front back stack seen order cl hc]
        exact ih _ _ _ _ (fun e he => hst e (List.mem_cons_of_mem _ he)) (by simp at hf; omega)
      · have hc' : seen.contains front = false := by simpa using hc
        rw [dfsLoop_new g fuel front back stack seen order cl hc']
        have hfs : front ∉ seen := fun hm => hc (List.contains_iff_mem.2 hm)
        have hfa : front ∈ g.atoms := hst (front, back) (by simp)
        have hsplit := remDeg_split g hg.atoms_nodup front seen hfs hfa
        apply ih
        · intro e he
          rcases List.mem_append.1 he with he | he
          · obtain ⟨n, hn, rfl⟩ := List.mem_map.1 he
            exact hg.closed front n (List.mem_filter.1 hn).1
          · exact hst e (List.mem_cons_of_mem _ he)
        · have hlen : (((g.nbrs front).filter fun n => n != back && !seen.contains n).map fun n => (n, front)).length
              ≤ (g.nbrs front).length := by
            rw [List.length_map]; exact List.length_filter_le _ _
          simp only [List.length_append, List.length_cons] at hf ⊢
          omega

theorem compileLoop_total (g : Graph) (hwf : g.WF = true) (fuel : Nat) (hfuel : degreeSum g + 1 ≤ fuel) :
    ∀ (rest seen : List Nat) (comps : List (List Step)) (cl : Closures), (∀ u ∈ rest, u ∈ g.atoms) →
      ∃ r, compileLoop g fuel rest seen comps cl = some r := by
  have hg := wf_ok g hwf
  intro rest
  induction rest with
  | nil => intro seen comps cl _; exact ⟨_, rfl⟩
  | cons x rest ih =>
    intro seen comps cl hrest
    rw [compileLoop]
    by_cases hc : seen.contains x = true
    · simp only [hc, if_true]
      exact ih _ _ _ (fun u hu => hrest u (by simp [hu]))
    · have hc' : seen.contains x = false := by simpa using hc
      simp only [hc', Bool.false_eq_true, if_false]
      have hxs : x ∉ seen := fun hm => hc (List.contains_iff_mem.2 hm)
      have hxa : x ∈ g.atoms := hrest x (by simp)
      have hsplit := remDeg_split g hg.atoms_nodup x seen hxs hxa
      have hle := remDeg_le g hwf seen
      obtain ⟨r, hr⟩ := dfs_total g hg fuel ((g.nbrs x).map fun n => (n, x)) (x :: seen) [⟨x, none⟩] cl
        (by
          intro e he
          obtain ⟨n, hn, rfl⟩ := List.mem_map.1 he
          exact hg.closed x n hn)
        (by rw [List.length_map]; omega)
      rw [hr]
      obtain ⟨s1, o1, c1⟩ := r
      exact ih _ _ _ (fun u hu => hrest u (by simp [hu]))

/-- **`compile_total`**: on a well-formed pattern `_compile_query` never runs out of the fuel the model gives it. -/
theorem compile_total (g : Graph) (hwf : g.WF = true) : ∃ comps cl, compileQuery g = some (comps, cl) := by
  obtain ⟨r, hr⟩ := compileLoop_total g hwf (fuelFor g) (Nat.le_refl _) g.atoms [] [] [] (fun _ h => h)
  exact ⟨r.1, r.2, hr⟩

end ChythonModel.Proofs.C07
