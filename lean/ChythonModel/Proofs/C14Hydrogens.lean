import ChythonModel.Proofs.C14Charge
/-!
# C14 — helper lemmas: proton bookkeeping of `_neutralize`, explicit hydrogens
-/
namespace ChythonModel.Proofs.C14
open ChythonModel.Model ChythonModel.Model.Std ChythonModel.Gen.Rules

/-- Σ of the implicit hydrogen counts, a missing count read as 0 (only used together with `AllCounted`) -/
def implSum (m : Mol) : Int := (m.atoms.map fun p => ((p.2.implH.getD 0 : Nat) : Int)).sum

/-- every atom has a hydrogen count (no valence error) -/
def AllCounted (m : Mol) : Prop := ∀ p ∈ m.atoms, p.2.implH.isSome = true

theorem implSum_updAtom (m : Mol) (n : Nat) (f : Atom → Atom) (a : Atom) (hnd : m.ids.Nodup) (ha : m.atom? n = some a) :
    implSum (updAtom m n f) = implSum m + ((((f a).implH.getD 0 : Nat) : Int) - ((a.implH.getD 0 : Nat) : Int)) := by
  unfold implSum updAtom
  exact sum_map_setAtomEntry (fun x => ((x.implH.getD 0 : Nat) : Int)) m.atoms n f a hnd ha

theorem allCounted_updAtom (m : Mol) (n : Nat) (f : Atom → Atom) (hc : AllCounted m) (hf : ∀ a, (f a).implH.isSome = true) :
    AllCounted (updAtom m n f) := by
  intro p hp
  unfold updAtom at hp
  simp only [List.mem_map] at hp
  obtain ⟨q, hq, rfl⟩ := hp
  unfold setAtomEntry
  split
  · exact hf _
  · exact hc q hq

/-- one proton more: charge +1, hydrogens +1, same atoms -/
theorem protonate_spec (m m' : Mol) (n : Nat) (h : protonate m n = some m') (hnd : m.ids.Nodup) (hc : AllCounted m) :
    m'.ids = m.ids ∧ skeleton m' = skeleton m ∧ AllCounted m' ∧
    netCharge m' = netCharge m + 1 ∧ implSum m' = implSum m + 1 := by
  unfold protonate at h
  cases ha : m.atom? n with
  | none => simp [ha, bind] at h
  | some a =>
    cases hh : a.implH with
    | none => simp [ha, hh, bind] at h
    | some k =>
      simp only [ha, hh, bind, Option.bind, pure, Option.some.injEq] at h
      subst h
      refine ⟨updAtom_ids _ _ _, skeleton_updAtom _ _ _ (fun _ => rfl) (fun _ => rfl),
        allCounted_updAtom _ _ _ hc (fun _ => rfl), ?_, ?_⟩
      · rw [netCharge_updAtom m n _ a hnd ha]; simp only; omega
      · rw [implSum_updAtom m n _ a hnd ha]; simp only [hh, Option.getD_some]; push_cast; omega

/-- one proton less: charge −1, hydrogens −1, same atoms -/
theorem deprotonate_spec (m m' : Mol) (n : Nat) (h : deprotonate m n = some m') (hnd : m.ids.Nodup) (hc : AllCounted m) :
    m'.ids = m.ids ∧ skeleton m' = skeleton m ∧ AllCounted m' ∧
    netCharge m' = netCharge m - 1 ∧ implSum m' = implSum m - 1 := by
  unfold deprotonate at h
  cases ha : m.atom? n with
  | none => simp [ha, bind] at h
  | some a =>
    cases hh : a.implH with
    | none => simp [ha, hh, bind] at h
    | some k =>
      simp only [ha, hh, bind, Option.bind, pure] at h
      split at h
      · simp at h
      · rename_i hk
        simp only [Option.some.injEq] at h
        subst h
        have hk' : k ≠ 0 := by simpa using hk
        refine ⟨updAtom_ids _ _ _, skeleton_updAtom _ _ _ (fun _ => rfl) (fun _ => rfl),
          allCounted_updAtom _ _ _ hc (fun _ => rfl), ?_, ?_⟩
        · rw [netCharge_updAtom m n _ a hnd ha]; simp only; omega
        · rw [implSum_updAtom m n _ a hnd ha]; simp only [hh, Option.getD_some]; omega

/-- a fold of proton moves: `δ` per atom on both the charge and the hydrogen count -/
theorem foldOpt_spec (f : Mol → Nat → Option Mol) (δ : Int)
    (hf : ∀ m m' n, f m n = some m' → m.ids.Nodup → AllCounted m →
      m'.ids = m.ids ∧ skeleton m' = skeleton m ∧ AllCounted m' ∧ netCharge m' = netCharge m + δ ∧ implSum m' = implSum m + δ) :
    ∀ (ns : List Nat) (m m' : Mol), foldOpt f ns m = some m' → m.ids.Nodup → AllCounted m →
      m'.ids = m.ids ∧ skeleton m' = skeleton m ∧ AllCounted m' ∧
      netCharge m' = netCharge m + δ * ns.length ∧ implSum m' = implSum m + δ * ns.length := by
  intro ns
  induction ns with
  | nil => intro m m' h _ hc; simp only [foldOpt, Option.some.injEq] at h; subst h; simp [hc]
  | cons n ns ih =>
    intro m m' h hnd hc
    rw [foldOpt] at h
    cases h1 : f m n with
    | none => simp [h1] at h
    | some m1 =>
      simp only [h1, Option.bind] at h
      obtain ⟨a1, b1, c1, d1, e1⟩ := hf _ _ _ h1 hnd hc
      obtain ⟨a2, b2, c2, d2, e2⟩ := ih _ _ h (a1 ▸ hnd) c1
      refine ⟨a2.trans a1, b2.trans b1, c2, ?_, ?_⟩
      · rw [d2, d1, List.length_cons]; push_cast; rw [Int.mul_add]; omega
      · rw [e2, e1, List.length_cons]; push_cast; rw [Int.mul_add]; omega

end ChythonModel.Proofs.C14

namespace ChythonModel.Proofs.C14
open ChythonModel.Model ChythonModel.Model.Std ChythonModel.Gen.Rules

/-- number of explicit hydrogen atoms — a function of the skeleton -/
def explicitH (m : Mol) : Nat := ((skeleton m).filter fun q => q.2.1 == 1).length

/-- total hydrogen count: implicit counts + explicit hydrogen atoms -/
def hydrogens (m : Mol) : Int := implSum m + explicitH m

/-- heavy atoms (id, Z, isotope) — a function of the skeleton -/
theorem heavyAtoms_eq_of_skeleton {m m' : Mol} (h : skeleton m' = skeleton m) : heavyAtoms m' = heavyAtoms m := by
  have key : ∀ (l : List (Nat × Atom)),
      (l.filter (fun p => p.2.z != 1)).map (fun p => (p.1, p.2.z, p.2.isotope)) =
      (l.map fun p => (p.1, p.2.z, p.2.isotope)).filter (fun q => q.2.1 != 1) := by
    intro l
    induction l with
    | nil => rfl
    | cons p tl ih =>
      simp only [List.filter_cons, List.map_cons]
      split <;> simp [ih]
  unfold heavyAtoms
  rw [key, key]
  unfold skeleton at h
  rw [h]

theorem neutralizeWith_spec (m o : Mol) (ds as : List Nat) (h : neutralizeWith m ds as = some o)
    (hnd : m.ids.Nodup) (hc : AllCounted m) :
    skeleton o = skeleton m ∧ AllCounted o ∧
    netCharge o - netCharge m = (as.length : Int) - ds.length ∧
    hydrogens o - hydrogens m = (as.length : Int) - ds.length := by
  unfold neutralizeWith at h
  cases h1 : foldOpt deprotonate ds m with
  | none => simp [h1] at h
  | some m1 =>
    simp only [h1, Option.bind] at h
    obtain ⟨a1, b1, c1, d1, e1⟩ := foldOpt_spec deprotonate (-1)
      (fun m m' n hh hn hcc => by
        obtain ⟨x1, x2, x3, x4, x5⟩ := deprotonate_spec m m' n hh hn hcc
        exact ⟨x1, x2, x3, by omega, by omega⟩) ds m m1 h1 hnd hc
    obtain ⟨a2, b2, c2, d2, e2⟩ := foldOpt_spec protonate 1
      (fun m m' n hh hn hcc => protonate_spec m m' n hh hn hcc) as m1 o h (a1 ▸ hnd) c1
    have hs : skeleton o = skeleton m := b2.trans b1
    refine ⟨hs, c2, by omega, ?_⟩
    unfold hydrogens explicitH
    rw [hs]; omega

end ChythonModel.Proofs.C14
