import ChythonModel.Model.CacheCheck
/-!
# C13 — soundness of the static analysis for the interpreter (helper lemmas)

`Gamma A o`: the concrete object `o` is described by the abstract state `A`.
`stepEv_sound`: one event; `interp_sound`: a whole flattened event list.
-/
namespace ChythonModel.Proofs.C13
open ChythonModel.Model ChythonModel.Model.C13 ChythonModel.Gen.CacheEffects ChythonModel.Spec.Deps

/-! ## concretisation -/

def noKind (K : Kind) (cache : List Entry) : Prop := ∀ e ∈ cache, kindOf e.key ≠ K
def freshKind (K : Kind) (c : Core) : Prop := ∀ e ∈ c.cache, kindOf e.key = K → e.fresh c = true
def BackupGood (o : Obj) : Prop := ∀ bk, o.backup = some (some bk) → coherent bk = true

def bkRel : BkA → Option (Option Core) → Prop
  | .unset, b => b = none
  | .none, b => b = some none
  | .set, b => ∃ bk, b = some (some bk)

structure Gamma (A : Abs) (o : Obj) : Prop where
  np : ∀ K, A.p.get K = false → noKind K o.cache
  fr : ∀ K, A.d.get K = false → freshKind K o.toCore
  lab : A.lab = false → labelsFresh o.toCore = true
  bk : bkRel A.bk o.backup
  chg : A.chgSet = true → o.changed ≠ none
  good : BackupGood o

/-! ## views depend only on `mol`, `hs`, `labels` -/

theorem viewOf_congr {c1 c2 : Core} (k : Kind) (hm : c1.mol = c2.mol) (hh : c1.hs = c2.hs) (hl : c1.labels = c2.labels) :
    viewOf k c1 = viewOf k c2 := by
  cases k <;> simp [viewOf, fullView, hm, hh, hl]

theorem viewOf_adj_congr {c1 c2 : Core} (k : Kind) (hk : k ≠ .full) (hm : c1.mol = c2.mol) :
    viewOf k c1 = viewOf k c2 := by
  cases k <;> simp_all [viewOf]

theorem fresh_congr {c1 c2 : Core} (e : Entry) (hm : c1.mol = c2.mol) (hh : c1.hs = c2.hs) (hl : c1.labels = c2.labels) :
    e.fresh c1 = e.fresh c2 := by
  simp [Entry.fresh, viewOf_congr (kindOf e.key) hm hh hl]

theorem fresh_adj_congr {c1 c2 : Core} (e : Entry) (hk : kindOf e.key ≠ .full) (hm : c1.mol = c2.mol) :
    e.fresh c1 = e.fresh c2 := by
  simp [Entry.fresh, viewOf_adj_congr (kindOf e.key) hk hm]

theorem labelsFresh_congr {c1 c2 : Core} (hm : c1.mol = c2.mol) (hl : c1.labels = c2.labels) :
    labelsFresh c1 = labelsFresh c2 := by
  simp [labelsFresh, hm, hl]

theorem coherent_iff (c : Core) : coherent c = true ↔ ∀ e ∈ c.cache, e.fresh c = true := by
  simp [coherent, List.all_eq_true]

/-- all dirty flags false ⇒ every entry fresh -/
theorem coherent_of_gamma {A : Abs} {o : Obj} (h : Gamma A o) (hc : cleanAbs A = true) : coherent o.toCore = true := by
  rw [coherent_iff]
  intro e he
  have hd : A.d.get (kindOf e.key) = false := by
    simp [cleanAbs, anyDirty] at hc
    cases hk : kindOf e.key <;> simp [K3.get, hc]
  exact h.fr _ hd e he rfl

/-! ## subsets of the cache -/

theorem noKind_sub {K : Kind} {l l' : List Entry} (hs : ∀ e ∈ l', e ∈ l) (h : noKind K l) : noKind K l' :=
  fun e he => h e (hs e he)

/-- Gamma is preserved when only the cache shrinks -/
theorem gamma_shrink {A : Abs} {o : Obj} (cache' : List Entry) (hs : ∀ e ∈ cache', e ∈ o.cache) (h : Gamma A o) :
    Gamma A { o with cache := cache' } where
  np := fun K hK => noKind_sub hs (h.np K hK)
  fr := fun K hK e he hk => by
    have := h.fr K hK e (hs e he) hk
    rwa [fresh_congr e (c1 := { o.toCore with cache := cache' }) (c2 := o.toCore) rfl rfl rfl]
  lab := fun hl => by
    have := h.lab hl
    rwa [labelsFresh_congr (c1 := { o.toCore with cache := cache' }) (c2 := o.toCore) rfl rfl]
  bk := h.bk
  chg := h.chg
  good := h.good

/-- Gamma only looks at cache, mol, hs, labels, backup, changed -/
theorem gamma_congr {A : Abs} {o o' : Obj} (hc : o'.cache = o.cache) (hm : o'.mol = o.mol) (hh : o'.hs = o.hs)
    (hl : o'.labels = o.labels) (hb : o'.backup = o.backup) (hch : o.changed ≠ none → o'.changed ≠ none)
    (h : Gamma A o) : Gamma A o' where
  np := fun K hK => by rw [hc]; exact h.np K hK
  fr := fun K hK e he hk => by
    rw [hc] at he
    have := h.fr K hK e he hk
    rwa [fresh_congr e (c1 := o'.toCore) (c2 := o.toCore) hm hh hl]
  lab := fun hl' => by
    have := h.lab hl'
    rwa [labelsFresh_congr (c1 := o'.toCore) (c2 := o.toCore) hm hl]
  bk := by rw [hb]; exact h.bk
  chg := fun hs => hch (h.chg hs)
  good := fun bk hbk => h.good bk (by rw [← hb]; exact hbk)

/-! ## monotonicity (weaker flags describe more objects) -/

theorem gamma_join_left {A B J : Abs} {o : Obj} (hj : Abs.join A B = some J) (h : Gamma A o) : Gamma J o := by
  unfold Abs.join at hj
  split at hj
  · cases hj
    refine ⟨?_, ?_, ?_, h.bk, ?_, h.good⟩
    · intro K hK; simp at hK; exact h.np K hK.1
    · intro K hK; simp at hK; exact h.fr K hK.1
    · intro hl; simp at hl; exact h.lab hl.1
    · intro hc; simp at hc; exact h.chg hc.1
  · cases hj

theorem gamma_join_right {A B J : Abs} {o : Obj} (hj : Abs.join A B = some J) (h : Gamma B o) : Gamma J o := by
  unfold Abs.join at hj
  split at hj
  · rename_i hbk
    cases hj
    refine ⟨?_, ?_, ?_, ?_, ?_, h.good⟩
    · intro K hK; simp at hK; exact h.np K hK.2
    · intro K hK; simp at hK; exact h.fr K hK.2
    · intro hl; simp at hl; exact h.lab hl.2
    · simpa [hbk] using h.bk
    · intro hc; simp at hc; exact h.chg hc.2
  · cases hj

/-! ## events -/

theorem applyEdit_cache (cx : Ctx) (c : Cfg) : (applyEdit cx c).o.cache = c.o.cache := by
  unfold applyEdit; split; · rfl
  split <;> rfl
theorem applyEdit_backup (cx : Ctx) (c : Cfg) : (applyEdit cx c).o.backup = c.o.backup := by
  unfold applyEdit; split; · rfl
  split <;> rfl
theorem applyEdit_changed (cx : Ctx) (c : Cfg) : (applyEdit cx c).o.changed = c.o.changed := by
  unfold applyEdit; split; · rfl
  split <;> rfl

/-- edit: the cache is untouched; afterwards anything present may be stale -/
theorem edit_sound {A : Abs} (cx : Ctx) (c : Cfg) (h : Gamma A c.o) :
    Gamma { A with d := K3.of fun K => A.d.get K || A.p.get K, lab := true } (applyEdit cx c).o where
  np := fun K hK => by rw [applyEdit_cache]; exact h.np K hK
  fr := fun K hK e he hk => by
    simp at hK
    have hn : noKind K c.o.cache := h.np K hK.2
    have he' : e ∈ c.o.cache := by
      have := applyEdit_cache cx c
      simpa [this] using he
    exact absurd hk (hn e he')
  lab := fun hl => by simp at hl
  bk := by rw [applyEdit_backup]; exact h.bk
  chg := fun hs => by rw [applyEdit_changed]; exact h.chg hs
  good := fun bk hbk => h.good bk (by rw [← applyEdit_backup cx c]; exact hbk)

/-- entries kept by a flush have the kind their list promises -/
theorem flushKeep_kind {T : Tables} (hK : keepOK T = true) (kS kC : Bool) (cache : List Entry) :
    ∀ e ∈ flushKeep T kS kC cache, e ∈ cache ∧ ((kS = true ∧ kindOf e.key = .skel) ∨ (kC = true ∧ kindOf e.key = .conn)) := by
  intro e he
  simp [flushKeep, List.mem_filter] at he
  refine ⟨he.1, ?_⟩
  simp [keepOK, List.all_eq_true] at hK
  rcases he.2 with ⟨h1, h2⟩ | ⟨h1, h2⟩
  · exact Or.inl ⟨h1, hK.1.1.1 _ h2⟩
  · exact Or.inr ⟨h1, hK.1.1.2 _ h2⟩

theorem flush_sound {T : Tables} (hK : keepOK T = true) {A : Abs} (o : Obj) (kS kC : Bool) (h : Gamma A o) :
    Gamma { A with p := K3.of fun K => A.p.get K && (match K with | .skel => kS | .conn => kC | .full => false),
                   d := K3.of fun K => A.d.get K && (match K with | .skel => kS | .conn => kC | .full => false) }
          { o with cache := flushKeep T kS kC o.cache } := by
  have hk := flushKeep_kind hK kS kC o.cache
  have hsub : ∀ e ∈ flushKeep T kS kC o.cache, e ∈ o.cache := fun e he => (hk e he).1
  have base := gamma_shrink (flushKeep T kS kC o.cache) hsub h
  refine ⟨?_, ?_, base.lab, base.bk, base.chg, base.good⟩
  · intro K hKK
    simp at hKK
    intro e he hek
    cases hp : A.p.get K
    · exact h.np K hp e (hsub e he) hek
    · have hkeep := hKK hp
      rcases (hk e he).2 with ⟨h1, h2⟩ | ⟨h1, h2⟩ <;> subst hek <;> simp_all
  · intro K hKK e he hek
    simp at hKK
    cases hd : A.d.get K
    · exact base.fr K hd e he hek
    · have hkeep := hKK hd
      rcases (hk e he).2 with ⟨h1, h2⟩ | ⟨h1, h2⟩ <;> subst hek <;> simp_all

/-- weaker flags, same shape facts -/
theorem gamma_weaken {A A' : Abs} {o : Obj} (hp : ∀ K, A'.p.get K = false → A.p.get K = false)
    (hd : ∀ K, A'.d.get K = false → A.d.get K = false) (hl : A'.lab = false → A.lab = false)
    (hb : A'.bk = A.bk) (hc : A'.chgSet = true → A.chgSet = true) (h : Gamma A o) : Gamma A' o where
  np := fun K hK => h.np K (hp K hK)
  fr := fun K hK => h.fr K (hd K hK)
  lab := fun h' => h.lab (hl h')
  bk := by rw [hb]; exact h.bk
  chg := fun h' => h.chg (hc h')
  good := h.good

theorem absRead_weaker {T : Tables} {A : Abs} {o : Obj} (k : String) (h : Gamma A o) : Gamma (absRead T A k) o := by
  refine gamma_weaken (A := A) (A' := absRead T A k) ?_ ?_ (fun h => h) rfl (fun h => h) h
  · intro K hK; simp [absRead] at hK; exact hK.1
  · intro K hK; simp [absRead] at hK; exact hK.1

theorem newEntry_fresh (T : Tables) (c c' : Core) (x : String) (hm : c'.mol = c.mol) (hh : c'.hs = c.hs)
    (hl : c'.labels = c.labels)
    (hbad : (c.cache.any fun e' => (closure T.keyReads x).contains e'.key && !e'.fresh c) = false) :
    (newEntry T c x).fresh c' = true := by
  have h1 : (newEntry T c x).fresh c' =
      (!(c.cache.any fun e' => (closure T.keyReads x).contains e'.key && !e'.fresh c) &&
        (viewOf (kindOf x) c == viewOf (kindOf x) c')) := rfl
  rw [h1, hbad, viewOf_congr (kindOf x) hm hh hl]
  simp

theorem read_sound {T : Tables} {A : Abs} (o : Obj) (k : String) (obs : List String) (opt : Bool) (h : Gamma A o) :
    Gamma (absRead T A k) (readKey T o k obs opt) := by
  unfold readKey
  split
  · exact absRead_weaker k h
  · -- miss: new entries for a subset of k :: closure k
    generalize hnk : ((if (opt && !obs.contains k) = true then [] else [k]) ++
        (closure T.keyReads k).filter fun d => obs.contains d && !hasKey o.toCore d) = newKeys
    have hsub : ∀ x ∈ newKeys, x ∈ k :: closure T.keyReads k := by
      intro x hx
      subst hnk
      simp only [List.mem_append, List.mem_filter] at hx
      rcases hx with hx | hx
      · split at hx
        · simp at hx
        · simp at hx; simp [hx]
      · simp [hx.1]
    simp only
    rw [hnk]
    refine ⟨?_, ?_, ?_, h.bk, h.chg, h.good⟩
    · intro K hK e he hek
      simp [absRead] at hK
      simp only [List.mem_append, List.mem_map] at he
      rcases he with he | ⟨x, hx, rfl⟩
      · exact h.np K hK.1 e he hek
      · have := hsub x hx
        simp at this
        rcases this with rfl | hx'
        · exact hK.2.1 hek
        · exact hK.2.2 x hx' hek
    · intro K hK e he hek
      simp [absRead] at hK
      simp only [List.mem_append, List.mem_map] at he
      rcases he with he | ⟨x, hx, rfl⟩
      · exact (fresh_congr e (c2 := o.toCore) rfl rfl rfl).trans (h.fr K hK.1 e he hek)
      · -- the new entry for x is fresh: nothing it is computed from is stale
        have hpo : poison T A x = false := by
          have := hsub x hx
          simp at this
          rcases this with rfl | hx'
          · cases hp : poison T A x
            · rfl
            · exact absurd hp (by simpa [newEntry] using hK.2.1 hek)
          · cases hp : poison T A x
            · rfl
            · exact absurd hp (by simpa [newEntry] using hK.2.2 x hx' hek)
        have hbad : (o.cache.any fun e' => (closure T.keyReads x).contains e'.key && !e'.fresh o.toCore) = false := by
          rw [List.any_eq_false]
          intro e' he'
          simp only [Bool.and_eq_true, Bool.not_eq_true', not_and]
          intro hc
          have hd : A.d.get (kindOf e'.key) = false := by
            simp [poison, List.any_eq_false] at hpo
            have := hpo e'.key (by simpa using hc)
            simpa using this
          simpa using h.fr _ hd e' he' rfl
        exact newEntry_fresh T o.toCore _ x rfl rfl rfl hbad
    · intro hl
      exact (labelsFresh_congr (c2 := o.toCore) rfl rfl).trans (h.lab hl)

/-- entries kept by a copy have the kind their list promises -/
theorem copyKeep_kind {T : Tables} (hK : keepOK T = true) (kS kC : Bool) (cache : List Entry) :
    ∀ e ∈ copyKeep T kS kC cache, e ∈ cache ∧ ((kS = true ∧ kindOf e.key = .skel) ∨ (kC = true ∧ kindOf e.key = .conn)) := by
  intro e he
  simp [copyKeep, List.mem_filter] at he
  refine ⟨he.1, ?_⟩
  simp [keepOK, List.all_eq_true] at hK
  rcases he.2 with ⟨h1, h2⟩ | ⟨h1, h2⟩
  · exact Or.inl ⟨h1, hK.1.2 _ h2⟩
  · exact Or.inr ⟨h1, hK.2 _ h2⟩

theorem copyCore_fields (T : Tables) (c : Core) (vecs : List (Int × Int)) (kS kC : Bool) :
    (copyCore T c vecs kS kC).1.mol = c.mol ∧ (copyCore T c vecs kS kC).1.hs = c.hs ∧
    (copyCore T c vecs kS kC).1.labels = c.labels ∧ (copyCore T c vecs kS kC).1.cache = copyKeep T kS kC c.cache := by
  simp [copyCore]

/-- a snapshot of an object whose kept entries are fresh is coherent -/
theorem copyCore_coherent {T : Tables} (hK : keepOK T = true) {A : Abs} {o : Obj} (h : Gamma A o) (vecs : List (Int × Int))
    (kS kC : Bool) (hS : kS = true → A.d.skel = false) (hC : kC = true → A.d.conn = false) :
    coherent (copyCore T o.toCore vecs kS kC).1 = true := by
  obtain ⟨hm, hh, hl, hc⟩ := copyCore_fields T o.toCore vecs kS kC
  rw [coherent_iff]
  intro e he
  rw [hc] at he
  obtain ⟨hmem, hkind⟩ := copyKeep_kind hK kS kC _ e he
  rw [fresh_congr e hm hh hl]
  rcases hkind with ⟨h1, h2⟩ | ⟨h1, h2⟩
  · exact h.fr .skel (by simpa [K3.get] using hS h1) e hmem h2
  · exact h.fr .conn (by simpa [K3.get] using hC h1) e hmem h2

/-- hydrogens recomputed: only `hs` changes; entries that do not look at hydrogens stay fresh -/
theorem hs_sound {A : Abs} (o : Obj) (hs' : List (Nat × Env)) (h : Gamma A o) :
    Gamma { A with d := { A.d with full := A.d.full || A.p.full } } { o with hs := hs' } where
  np := h.np
  fr := fun K hK e he hk => by
    cases K with
    | full =>
      simp [K3.get] at hK
      exact absurd hk (h.np .full (by simpa [K3.get] using hK.2) e he)
    | skel =>
      have := h.fr .skel (by simpa [K3.get] using hK) e he hk
      exact (fresh_adj_congr e (c1 := ({ o with hs := hs' } : Obj).toCore) (c2 := o.toCore) (by rw [hk]; decide) rfl).trans this
    | conn =>
      have := h.fr .conn (by simpa [K3.get] using hK) e he hk
      exact (fresh_adj_congr e (c1 := ({ o with hs := hs' } : Obj).toCore) (c2 := o.toCore) (by rw [hk]; decide) rfl).trans this
  lab := fun hl => (labelsFresh_congr (c1 := ({ o with hs := hs' } : Obj).toCore) (c2 := o.toCore) rfl rfl).trans (h.lab hl)
  bk := h.bk
  chg := h.chg
  good := h.good

/-- labels rewritten: only `labels` changes -/
theorem labels_sound {A : Abs} (o : Obj) (snap : LSnap) (hsnap : A.d.skel = false → snap = ⟨labelView o.mol, skelView o.mol, false⟩)
    (h : Gamma A o) :
    Gamma { A with d := { A.d with full := A.d.full || A.p.full }, lab := A.d.skel } { o with labels := some snap } where
  np := h.np
  fr := fun K hK e he hk => by
    cases K with
    | full =>
      simp [K3.get] at hK
      exact absurd hk (h.np .full (by simpa [K3.get] using hK.2) e he)
    | skel =>
      have := h.fr .skel (by simpa [K3.get] using hK) e he hk
      exact (fresh_adj_congr e (c1 := ({ o with labels := some snap } : Obj).toCore) (c2 := o.toCore) (by rw [hk]; decide) rfl).trans this
    | conn =>
      have := h.fr .conn (by simpa [K3.get] using hK) e he hk
      exact (fresh_adj_congr e (c1 := ({ o with labels := some snap } : Obj).toCore) (c2 := o.toCore) (by rw [hk]; decide) rfl).trans this
  lab := fun hl => by
    have := hsnap hl
    simp [labelsFresh, this]
  bk := h.bk
  chg := h.chg
  good := h.good

/-- the snapshot `calc_labels` stores, as a function of the object -/
def labelSnap (o : Obj) : LSnap :=
  match o.cache.find? (·.key == "atoms_rings_sizes") with
  | some e => (match e.val with
      | .adj v => ⟨labelView o.mol, v, e.bad⟩
      | .full _ => ⟨labelView o.mol, [], true⟩)
  | none => ⟨labelView o.mol, skelView o.mol, false⟩

theorem labelSnap_fresh {A : Abs} {o : Obj} (h : Gamma A o) (hd : A.d.skel = false) :
    labelSnap o = ⟨labelView o.mol, skelView o.mol, false⟩ := by
  unfold labelSnap
  split
  · rename_i e he
    have hmem := List.mem_of_find?_eq_some he
    have hkey : e.key = "atoms_rings_sizes" := by
      have := List.find?_some he
      simpa using this
    have hk : kindOf e.key = .skel := by rw [hkey]; decide
    have hf := h.fr .skel (by simpa [K3.get] using hd) e hmem hk
    simp [Entry.fresh, hk, viewOf] at hf
    simp [hf.1, hf.2]
  · rfl

theorem gamma_changed {A : Abs} (o : Obj) (ch : Option (List Nat)) (h : Gamma A o) :
    Gamma { A with chgSet := true } { o with changed := some ch } where
  np := h.np
  fr := h.fr
  lab := h.lab
  bk := h.bk
  chg := fun _ => by simp
  good := h.good

theorem stepEv_sound {T : Tables} (hK : keepOK T = true) {A A' : Abs} {cx : Ctx} {opt : Bool} {c c' : Cfg} {e : Ev}
    (h : Gamma A c.o) (ha : absEv T A e = some A') (hs : stepEv T cx opt c e = .ok c') : Gamma A' c'.o := by
  cases e with
  | edit =>
    simp only [absEv, Option.some.injEq] at ha; subst ha
    simp only [stepEv, Res.ok.injEq] at hs; subst hs
    exact edit_sound cx c h
  | call f args => simp [absEv] at ha
  | flushAll =>
    simp only [absEv, Option.some.injEq] at ha; subst ha
    simp only [stepEv, Res.ok.injEq] at hs; subst hs
    have := gamma_shrink (o := c.o) [] (by simp) h
    refine ⟨fun K _ => by simp [noKind], fun K _ => by simp [freshKind], this.lab, this.bk, this.chg, this.good⟩
  | flush a b =>
    simp only [absEv] at ha
    simp only [stepEv] at hs
    cases ha' : flagBool a <;> cases hb' : flagBool b <;> simp [ha', hb'] at ha hs
    rename_i kS kC
    subst ha
    split at hs
    · cases hs
    · cases hs
      exact flush_sound hK c.o kS kC h
  | pop k =>
    simp only [absEv, Option.some.injEq] at ha; subst ha
    simp only [stepEv] at hs
    split at hs
    · cases hs; exact h
    · cases hs
      exact gamma_shrink _ (fun e he => (List.mem_filter.mp he).1) h
  | dictSet k =>
    simp only [absEv, Option.some.injEq] at ha; subst ha
    simp only [stepEv, Res.ok.injEq] at hs; subst hs
    exact read_sound c.o k cx.obs opt h
  | readC k =>
    simp only [absEv, Option.some.injEq] at ha; subst ha
    simp only [stepEv, Res.ok.injEq] at hs; subst hs
    exact read_sound c.o k cx.obs opt h
  | changedAdd =>
    simp only [absEv] at ha
    split at ha <;> cases ha
    simp only [stepEv] at hs
    split at hs
    · cases hs; exact h
    · split at hs
      · cases hs
      · cases hs
        have := gamma_changed c.o (some (unionNat [] cx.touched)) h
        exact gamma_weaken (A := { A with chgSet := true }) (A' := A) (fun _ hK => hK) (fun _ hK => hK) (fun hl => hl) rfl (fun _ => rfl) this
      · cases hs
        have := gamma_changed c.o (some (unionNat ‹List Nat› cx.touched)) h
        exact gamma_weaken (A := { A with chgSet := true }) (A' := A) (fun _ hK => hK) (fun _ hK => hK) (fun hl => hl) rfl (fun _ => rfl) this
  | changedDiscard =>
    simp only [absEv] at ha
    split at ha <;> cases ha
    simp only [stepEv] at hs
    split at hs
    · cases hs
    · cases hs; exact h
    · cases hs
      have := gamma_changed c.o (some (‹List Nat›.filter fun x => !cx.removed.contains x)) h
      exact gamma_weaken (A := { A with chgSet := true }) (A' := A) (fun _ hK => hK) (fun _ hK => hK) (fun hl => hl) rfl (fun _ => rfl) this
  | changedAttr =>
    simp only [absEv] at ha
    split at ha <;> cases ha
    simp only [stepEv] at hs
    split at hs
    · cases hs
    · cases hs; exact h
    · split at hs
      · cases hs
        exact gamma_weaken (A := { A with chgSet := true }) (A' := A) (fun _ hK => hK) (fun _ hK => hK) (fun hl => hl) rfl
          (fun _ => rfl) (gamma_changed c.o _ h)
      · cases hs
  | changedNone =>
    simp only [absEv, Option.some.injEq] at ha; subst ha
    simp only [stepEv, Res.ok.injEq] at hs; subst hs
    exact gamma_changed c.o none h
  | changedRead =>
    simp only [absEv] at ha
    split at ha <;> cases ha
    simp only [stepEv] at hs
    split at hs <;> cases hs
    exact h
  | backupRead =>
    simp only [absEv] at ha
    split at ha <;> cases ha
    simp only [stepEv] at hs
    split at hs <;> cases hs
    exact h
  | backupCopy a b =>
    simp only [absEv] at ha
    simp only [stepEv] at hs
    cases ha' : flagBool a <;> cases hb' : flagBool b <;> simp [ha', hb'] at ha hs
    rename_i kS kC
    obtain ⟨hcond, rfl⟩ := ha
    subst hs
    have hco := copyCore_coherent hK h c.vecs kS kC
      (fun hk => by cases hd : A.d.skel <;> simp_all)
      (fun hk => by cases hd : A.d.conn <;> simp_all)
    refine ⟨h.np, h.fr, h.lab, ⟨_, rfl⟩, h.chg, ?_⟩
    intro bk hbk
    simp at hbk
    subst hbk
    exact hco
  | backupNone =>
    simp only [absEv, Option.some.injEq] at ha; subst ha
    simp only [stepEv, Res.ok.injEq] at hs; subst hs
    exact ⟨h.np, h.fr, h.lab, rfl, h.chg, fun bk hbk => by simp at hbk⟩
  | restore slots =>
    simp only [absEv] at ha
    split at ha <;> cases ha
    rename_i hcond
    simp only [Bool.and_eq_true, decide_eq_true_eq] at hcond
    simp only [stepEv] at hs
    split at hs
    · rename_i bk hbk
      cases hs
      have hgood := h.good bk hbk
      rw [coherent_iff] at hgood
      simp only [hcond.1.1.2, hcond.1.2, hcond.2, if_true]
      refine ⟨fun K hK => by simp [K3.get] at hK; cases K <;> simp at hK, ?_, fun hl => by simp at hl, ?_, h.chg, ?_⟩
      · intro K _ e he _
        exact (fresh_congr e (c2 := bk) (by simp) rfl rfl).trans (hgood e he)
      · have := h.bk
        simp only [hcond.1.1.1] at this ⊢
        simpa [hbk] using this
      · intro bk' hbk'
        exact h.good bk' hbk'
    · cases hs
  | hcalc =>
    simp only [absEv] at ha
    split at ha <;> cases ha
    simp only [stepEv] at hs
    split at hs
    · cases hs
    · split at hs <;> (split at hs <;> first | (cases hs; exact hs_sound c.o _ h) | cases hs)
  | labelsWrite =>
    simp only [stepEv, Res.ok.injEq] at hs; subst hs
    have hsn : ∀ hd : A.d.skel = false, labelSnap c.o = ⟨labelView c.o.mol, skelView c.o.mol, false⟩ :=
      fun hd => labelSnap_fresh h hd
    simp only [absEv] at ha
    split at ha
    · rename_i hcond
      cases ha
      simp only [Bool.and_eq_true, Bool.not_eq_true'] at hcond
      -- labels already fresh and the ring data fresh: the write stores what is there
      have hl := h.lab hcond.1
      simp only [labelsFresh, beq_iff_eq] at hl
      have : ({ c.o with labels := some (labelSnap c.o) } : Obj) = c.o := by
        rw [hsn hcond.2, ← hl]
      show Gamma A ({ c.o with labels := some (labelSnap c.o) } : Obj)
      rw [this]; exact h
    · cases ha
      exact labels_sound c.o (labelSnap c.o) hsn h
  | stereoWrite =>
    simp only [absEv, Option.some.injEq] at ha; subst ha
    simp only [stepEv, Res.ok.injEq] at hs; subst hs
    exact h
/-! ## guards and whole event lists -/

def toMode : Except Err (Option Bool) → GMode
  | .error _ => .bad
  | .ok none => .skip
  | .ok (some b) => .run b

theorem guards_agree' {A : Abs} {cx : Ctx} {o : Obj} (h : Gamma A o) (skip special : Bool) (hsk : cx.skip = skip)
    (hsp : cx.special = special) :
    ∀ gs, absGuards skip special A gs ≠ .bad → toMode (decideGuards cx o gs) = absGuards skip special A gs := by
  intro gs
  induction gs with
  | nil => intro _; rfl
  | cons g gs ih =>
    intro hb
    cases g with
    | ifCalc =>
      simp only [absGuards, decideGuards, hsk] at hb ⊢
      cases skip with
      | true => simp [toMode]
      | false =>
        simp only [if_false, Bool.false_eq_true] at hb ⊢
        have hbk := h.bk
        cases hA : A.bk with
        | unset => simp [hA] at hb
        | set =>
          rw [hA] at hbk
          obtain ⟨bk, hbk⟩ := hbk
          simp [hbk, toMode]
        | none =>
          rw [hA] at hbk
          simp only [bkRel] at hbk
          simp only [hA] at hb
          simp only [hbk]
          exact ih hb
    | ifParam p neg => simp [absGuards] at hb
    | notSpecial =>
      simp only [absGuards, decideGuards, hsp] at hb ⊢
      cases special with
      | true => simp [toMode]
      | false =>
        simp only [if_false, Bool.false_eq_true] at hb ⊢
        exact ih hb
    | isSpecial =>
      simp only [absGuards, decideGuards, hsp] at hb ⊢
      cases special with
      | true =>
        simp only [if_true] at hb ⊢
        exact ih hb
      | false => simp [toMode]
    | inLoop =>
      simp only [absGuards, decideGuards] at hb ⊢
      have hne : absGuards skip special A gs ≠ .bad := by
        intro hbad; simp [hbad] at hb
      have := ih hne
      cases hd : decideGuards cx o gs with
      | error e => simp [hd, toMode] at this; exact absurd this.symm hne
      | ok r =>
        cases r with
        | none => simp [hd, toMode] at this ⊢; rw [← this]; rfl
        | some b => simp [hd, toMode] at this ⊢; rw [← this]; rfl
    | cond =>
      simp only [absGuards, decideGuards] at hb ⊢
      have hne : absGuards skip special A gs ≠ .bad := by
        intro hbad; simp [hbad] at hb
      have := ih hne
      cases hd : decideGuards cx o gs with
      | error e => simp [hd, toMode] at this; exact absurd this.symm hne
      | ok r =>
        cases r with
        | none => simp [hd, toMode] at this ⊢; rw [← this]; rfl
        | some b => simp [hd, toMode] at this ⊢; rw [← this]; rfl

theorem guards_agree {A : Abs} {cx : Ctx} {o : Obj} (h : Gamma A o) :
    ∀ gs, absGuards cx.skip cx.special A gs ≠ .bad → toMode (decideGuards cx o gs) = absGuards cx.skip cx.special A gs :=
  guards_agree' h cx.skip cx.special rfl rfl

theorem interp_sound {T : Tables} (hK : keepOK T = true) {cx : Ctx} :
    ∀ (es : List GEv) (A : Abs) (c : Cfg) (A' : Abs) (c' : Cfg), Gamma A c.o →
      absRun T cx.skip cx.special es A = some A' → interp T cx es c = .ok c' → Gamma A' c'.o := by
  intro es
  induction es with
  | nil =>
    intro A c A' c' h ha hi
    simp only [absRun, Option.some.injEq] at ha
    simp only [interp, Res.ok.injEq] at hi
    subst ha; subst hi; exact h
  | cons ge rest ih =>
    intro A c A' c' h ha hi
    simp only [absRun] at ha
    simp only [interp] at hi
    cases hm : absGuards cx.skip cx.special A ge.gs with
    | bad => simp [hm] at ha
    | skip =>
      have hg := guards_agree (cx := cx) h ge.gs (by rw [hm]; simp)
      rw [hm] at hg
      simp only [hm] at ha
      cases hd : decideGuards cx c.o ge.gs with
      | error e => simp [hd, toMode] at hg
      | ok r =>
        cases r with
        | some b => simp [hd, toMode] at hg
        | none =>
          simp only [hd] at hi
          exact ih A c A' c' h ha hi
    | run opt =>
      have hg := guards_agree (cx := cx) h ge.gs (by rw [hm]; simp)
      rw [hm] at hg
      simp only [hm] at ha
      cases hd : decideGuards cx c.o ge.gs with
      | error e => simp [hd, toMode] at hg
      | ok r =>
        cases r with
        | none => simp [hd, toMode] at hg
        | some b =>
          simp [hd, toMode] at hg
          subst hg
          simp only [hd] at hi
          cases hse : stepEv T cx b c ge.e with
          | err c1 e1 => simp [hse] at hi
          | ok c1 =>
            simp only [hse] at hi
            cases b with
            | false =>
              simp only at ha
              cases hae : absEv T A ge.e with
              | none => simp [hae] at ha
              | some A1 =>
                simp only [hae, Option.bind_some] at ha
                exact ih A1 c1 A' c' (stepEv_sound hK h hae hse) ha hi
            | true =>
              simp only at ha
              split at ha
              · cases hae : absEv T A ge.e with
                | none => simp [hae] at ha
                | some A1 =>
                  simp only [hae, Option.bind_some] at ha
                  cases hj : Abs.join A A1 with
                  | none => simp [hj] at ha
                  | some J =>
                    simp only [hj, Option.bind_some] at ha
                    exact ih J c1 A' c' (gamma_join_right hj (stepEv_sound hK h hae hse)) ha hi
              · cases ha
end ChythonModel.Proofs.C13
