import ChythonModel.Proofs.C05Totals
/-!
# C05 — the Kekulé form an aromatic form was made from is one of its Kekulé forms
-/
namespace ChythonModel.Proofs.C05
open ChythonModel.Model ChythonModel.Model.Valence ChythonModel.Spec.Kekule

theorem lookup_isSome_of_keys {α β : Type} :
    ∀ {xs : List (Nat × α)} {ys : List (Nat × β)}, xs.map (·.1) = ys.map (·.1) → ∀ n,
      (xs.lookup n).isSome = (ys.lookup n).isSome := by
  intro xs
  induction xs with
  | nil => intro ys h n; cases ys with
    | nil => rfl
    | cons _ _ => simp at h
  | cons x xs ih =>
    intro ys h n
    cases ys with
    | nil => simp at h
    | cons y ys =>
      simp only [List.map_cons, List.cons.injEq] at h
      obtain ⟨xk, xv⟩ := x
      obtain ⟨yk, yv⟩ := y
      simp only at h
      obtain ⟨hk, ht⟩ := h
      subst hk
      by_cases hn : n = xk
      · subst hn; simp
      · have hne : (n == xk) = false := by simpa using hn
        simp only [List.lookup_cons, hne]
        exact ih ht n

/-- rows with the same keys and the same neighbour keys: the neighbour look-ups succeed together -/
theorem bond_isSome_of_skeleton {a k : Mol} (h : SameSkeleton a k) (n m : Nat) :
    (a.bond? n m).isSome = (k.bond? n m).isSome := by
  have hadj := h.2
  unfold Mol.bond? Mol.nbrs
  have key : ∀ {xs ys : List (Nat × List (Nat × Bond))},
      xs.map (fun p => (p.1, p.2.map (·.1))) = ys.map (fun p => (p.1, p.2.map (·.1))) →
      (((xs.lookup n).getD []).lookup m).isSome = (((ys.lookup n).getD []).lookup m).isSome := by
    intro xs
    induction xs with
    | nil => intro ys h; cases ys with
      | nil => rfl
      | cons _ _ => simp at h
    | cons x xs ih =>
      intro ys h
      cases ys with
      | nil => simp at h
      | cons y ys =>
        simp only [List.map_cons, List.cons.injEq, Prod.mk.injEq] at h
        obtain ⟨xk, xv⟩ := x
        obtain ⟨yk, yv⟩ := y
        simp only at h
        obtain ⟨⟨hk, hv⟩, ht⟩ := h
        subst hk
        by_cases hn : n = xk
        · subst hn
          simp only [List.lookup_cons_self, Option.getD_some]
          exact lookup_isSome_of_keys hv m
        · have hne : (n == xk) = false := by simpa using hn
          simp only [List.lookup_cons, hne]
          exact ih ht
  exact key hadj

theorem sameSkeleton_symm {a k : Mol} (h : SameSkeleton a k) : SameSkeleton k a := ⟨h.1.symm, h.2.symm⟩

/-- `k` is valence-consistent: every atom carries the hydrogen count the valence rules compute for it -/
def HConsistent (k : Mol) : Prop :=
  ∀ n y, k.atom? n = some y → ∃ h, y.implH = some h ∧ calcImplicitMol k n = some (some h)

/-- If `t` is the aromatic form of the localised, valence-consistent molecule `k` and no double bond was reset
    (no ring condensed over a four-membered ring), then `k` is a Kekulé form of `t`: the two conversions are
    inverse to each other at the level of the relations. -/
theorem kekule_of_aromatic_form (k t : Mol) (h : IsAromFormOf k t)
    (hno : ∀ n m b b', k.bond? n m = some b → t.bond? n m = some b' → AromOrder b.order b'.order)
    (hloc : ∀ n m b, k.bond? n m = some b → Localised b.order) (hc : HConsistent k) : IsKekuleOf t k := by
  refine ⟨sameSkeleton_symm h.skeleton, ?_, hloc, ?_⟩
  · intro n m b hb
    have hs := bond_isSome_of_skeleton h.skeleton n m
    rw [hb] at hs
    cases hk : k.bond? n m with
    | none => rw [hk] at hs; cases hs
    | some b0 =>
      refine ⟨b0, rfl, ?_⟩
      have har := hno n m b0 b hk hb
      have hl := hloc n m b0 hk
      unfold KekOrder
      unfold AromOrder at har
      unfold Localised at hl
      by_cases h4 : b.order = 4
      · rw [if_pos h4]
        rcases har with e | ⟨_, e⟩
        · omega
        · exact e
      · rw [if_neg h4]
        rcases har with e | ⟨e, _⟩
        · exact e.symm
        · exact absurd e h4
  · intro n x y hx hy
    obtain ⟨hv, hyh, hcalc⟩ := hc n y hy
    have heq := h.hydrogens n y x hy hx
    refine ⟨hv, hyh, ?_, fun _ => hcalc, fun _ => heq.symm⟩
    intro h0 hx0
    rw [← heq, hyh] at hx0
    cases hx0
    rfl

theorem lookup_five {α : Type} (a b c d e : α) (n : Nat) (y : α)
    (h : [(1, a), (2, b), (3, c), (4, d), (5, e)].lookup n = some y) :
    (n = 1 ∧ y = a) ∨ (n = 2 ∧ y = b) ∨ (n = 3 ∧ y = c) ∨ (n = 4 ∧ y = d) ∨ (n = 5 ∧ y = e) := by
  simp only [List.lookup_cons, List.lookup_nil] at h
  by_cases h1 : n = 1
  · subst h1; simp at h; exact Or.inl ⟨rfl, h.symm⟩
  have e1 : (n == 1) = false := by simpa using h1
  rw [e1] at h
  by_cases h2 : n = 2
  · subst h2; simp at h; exact Or.inr (Or.inl ⟨rfl, h.symm⟩)
  have e2 : (n == 2) = false := by simpa using h2
  rw [e2] at h
  by_cases h3 : n = 3
  · subst h3; simp at h; exact Or.inr (Or.inr (Or.inl ⟨rfl, h.symm⟩))
  have e3 : (n == 3) = false := by simpa using h3
  rw [e3] at h
  by_cases h4 : n = 4
  · subst h4; simp at h; exact Or.inr (Or.inr (Or.inr (Or.inl ⟨rfl, h.symm⟩)))
  have e4 : (n == 4) = false := by simpa using h4
  rw [e4] at h
  by_cases h5 : n = 5
  · subst h5; simp at h; exact Or.inr (Or.inr (Or.inr (Or.inr ⟨rfl, h.symm⟩)))
  have e5 : (n == 5) = false := by simpa using h5
  rw [e5] at h
  simp at h

end ChythonModel.Proofs.C05
