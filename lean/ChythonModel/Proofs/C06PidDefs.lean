import ChythonModel.Model.C06Pid
import ChythonModel.Spec.CycleBasis
import ChythonModel.Proofs.C06Components
/-!
# C06 — predicates used by the proofs about the PID stage (`Model/C06Pid.lean`)
-/
namespace ChythonModel.Proofs.C06
open ChythonModel.Model.C06 ChythonModel.Spec.CycleBasis

/-- consecutive atoms of `p` are bonded in `g` -/
def Walk (g : Adj) : List Nat → Prop
  | [] => True
  | [_] => True
  | a :: b :: tl => b ∈ nbrsOf g a ∧ Walk g (b :: tl)

/-- a walk of `g` with at least two atoms that starts at `i` and ends at `j` -/
def PathFromTo (g : Adj) (i j : Nat) (p : List Nat) : Prop :=
  Walk g p ∧ 2 ≤ p.length ∧ p.head? = some i ∧ p.getLast? = some j

/-- every path stored in the two PID matrices under `[i][j]` is a walk of `g` from `i` to `j`
(stated on the association lists themselves, whatever `lookup` would return) -/
def PidOK (g : Adj) (p1 : Pid1) (p2 : Pid2) : Prop :=
  (∀ irow ∈ p1, ∀ jin ∈ irow.2, ∀ kp ∈ jin.2, PathFromTo g irow.1 jin.1 kp.2) ∧
  (∀ e ∈ p2, ∀ kp ∈ e.2, PathFromTo g e.1.1 e.1.2 kp.2)

/-- closed walk without repeated atom: what `_c_set` guarantees by construction + its `len(c) == len(set(c))` test -/
def IsClosedTrail (g : Adj) (r : List Nat) : Prop :=
  2 ≤ r.length ∧ r.Nodup ∧ ∀ ab ∈ cyclePairs r, ab.2 ∈ nbrsOf g ab.1

/-! ## the model's stable insertion sort -/

theorem insertBy_perm {α : Type} (le : α → α → Bool) (x : α) : ∀ l : List α, (insertBy le x l).Perm (x :: l)
  | [] => List.Perm.refl _
  | y :: ys => by
    unfold insertBy
    split
    · exact List.Perm.refl _
    · exact ((insertBy_perm le x ys).cons y).trans (List.Perm.swap x y ys)

theorem isort_perm {α : Type} : ∀ (l : List α) (le : α → α → Bool), (isort le l).Perm l
  | [], _ => List.Perm.refl _
  | x :: xs, le => (insertBy_perm le x (isort le xs)).trans ((isort_perm xs le).cons x)

theorem pairwise_insertBy {α : Type} {le : α → α → Bool} (trans : ∀ a b c : α, le a b = true → le b c = true → le a c = true)
    (total : ∀ a b : α, (le a b || le b a) = true) (x : α) :
    ∀ l : List α, l.Pairwise (fun a b => le a b = true) → (insertBy le x l).Pairwise (fun a b => le a b = true)
  | [], _ => List.pairwise_singleton _ _
  | y :: ys, h => by
    unfold insertBy
    have hy := List.pairwise_cons.1 h
    split
    · next hxy =>
      refine List.pairwise_cons.2 ⟨?_, h⟩
      intro z hz
      rcases List.mem_cons.1 hz with rfl | hz
      · exact hxy
      · exact trans _ _ _ hxy (hy.1 z hz)
    · next hxy =>
      have hyx : le y x = true := by
        have := total x y
        simp only [Bool.or_eq_true] at this
        rcases this with h1 | h1
        · exact absurd h1 hxy
        · exact h1
      refine List.pairwise_cons.2 ⟨?_, pairwise_insertBy trans total x ys hy.2⟩
      intro z hz
      rcases List.mem_cons.1 ((insertBy_perm le x ys).mem_iff.1 hz) with rfl | hz
      · exact hyx
      · exact hy.1 z hz

theorem pairwise_isort {α : Type} {le : α → α → Bool} (trans : ∀ a b c : α, le a b = true → le b c = true → le a c = true)
    (total : ∀ a b : α, (le a b || le b a) = true) : ∀ l : List α, (isort le l).Pairwise (fun a b => le a b = true)
  | [] => List.Pairwise.nil
  | x :: xs => pairwise_insertBy trans total x _ (pairwise_isort trans total xs)

end ChythonModel.Proofs.C06
