import ChythonModel.Model.C06Pid
import ChythonModel.Spec.CycleBasis
import ChythonModel.Proofs.C06Components
/-!
# C06 — predicates used by the proofs about the PID stage (`Model/C06Pid.lean`)
-/
namespace ChythonModel.Proofs.C06
open ChythonModel.Model.C06 ChythonModel.Spec.CycleBasis

/-- consecutive atoms of `p` are bonded in `g` -/
def Walk (g : Adj) : List Nat → Prop
  | [] => True
  | [_] => True
  | a :: b :: tl => b ∈ nbrsOf g a ∧ Walk g (b :: tl)

/-- a walk of `g` with at least two atoms that starts at `i` and ends at `j` -/
def PathFromTo (g : Adj) (i j : Nat) (p : List Nat) : Prop :=
  Walk g p ∧ 2 ≤ p.length ∧ p.head? = some i ∧ p.getLast? = some j

/-- every path stored in the two PID matrices under `[i][j]` is a walk of `g` from `i` to `j`
(stated on the association lists themselves, whatever `lookup` would return) -/
def PidOK (g : Adj) (p1 : Pid1) (p2 : Pid2) : Prop :=
  (∀ irow ∈ p1, ∀ jin ∈ irow.2, ∀ kp ∈ jin.2, PathFromTo g irow.1 jin.1 kp.2) ∧
  (∀ e ∈ p2, ∀ kp ∈ e.2, PathFromTo g e.1.1 e.1.2 kp.2)

/-- closed walk without repeated atom: what `_c_set` guarantees by construction + its `len(c) == len(set(c))` test -/
def IsClosedTrail (g : Adj) (r : List Nat) : Prop :=
  2 ≤ r.length ∧ r.Nodup ∧ ∀ ab ∈ cyclePairs r, ab.2 ∈ nbrsOf g ab.1

end ChythonModel.Proofs.C06
