import ChythonModel.Proofs.C02Closures
namespace ChythonModel.Proofs.C02
open ChythonModel.Model ChythonModel.Model.SmilesWriter ChythonModel.Model.C02RT

/-! ## the reader raises no error on the writer's text -/

/-- the part of the reader state that decides the shape errors: previous atom, "a bond token is pending", branch stack -/
abbrev Sh := Option Nat × Bool × List Nat

def wStep (s : Sh) : WTok → Option Sh
  | .atom n _ => some (some n, false, s.2.2)
  | .bond _ => if s.2.1 then none else some (s.1, true, s.2.2)
  | .closure _ => if s.1.isSome then some (s.1, false, s.2.2) else none
  | .lpar => match s.1 with
    | some p => if s.2.1 then none else some (s.1, false, p :: s.2.2)
    | none => none
  | .rpar => match s.2.2 with
    | p :: tl => if s.2.1 then none else some (some p, false, tl)
    | [] => none
  | .dot => some s

def wShape : Sh → List WTok → Option Sh
  | s, [] => some s
  | s, t :: ts => match wStep s t with
    | some s' => wShape s' ts
    | none => none

def fStep (s : Sh) : FTok → Option Sh
  | .atom n => some (some n, false, s.2.2)
  | .bond _ _ => if s.2.1 then none else some (s.1, true, s.2.2)
  | .lpar => match s.1 with
    | some p => if s.2.1 then none else some (s.1, false, p :: s.2.2)
    | none => none
  | .rpar => match s.2.2 with
    | p :: tl => if s.2.1 then none else some (some p, false, tl)
    | [] => none

def fShape : Sh → List FTok → Option Sh
  | s, [] => some s
  | s, t :: ts => match fStep s t with
    | some s' => fShape s' ts
    | none => none

theorem wShape_append : ∀ (a b : List WTok) (s : Sh), wShape s (a ++ b) = (wShape s a).bind fun s' => wShape s' b := by
  intro a
  induction a with
  | nil => intro b s; simp [wShape]
  | cons t tl ih =>
    intro b s
    simp only [List.cons_append, wShape]
    cases wStep s t with
    | none => simp
    | some s' => exact ih b s'

theorem fShape_append : ∀ (a b : List FTok) (s : Sh), fShape s (a ++ b) = (fShape s a).bind fun s' => fShape s' b := by
  intro a
  induction a with
  | nil => intro b s; simp [fShape]
  | cons t tl ih =>
    intro b s
    simp only [List.cons_append, fShape]
    cases fStep s t with
    | none => simp
    | some s' => exact ih b s'

theorem fShape_flatKids (rec : Nat → List FTok) (recEnd : Nat → Nat)
    (hrec : ∀ c stk, fShape (some c, false, stk) (rec c) = some (some (recEnd c), false, stk))
    (tail : Nat) (kids : List Nat) : ∀ stk,
    fShape (some tail, false, stk) (flatKids rec tail kids) = some (some (chainEndKids recEnd tail kids), false, stk) := by
  induction kids with
  | nil => intro stk; simp [flatKids, chainEndKids, fShape]
  | cons c tl ih =>
    intro stk
    cases tl with
    | nil => simp [flatKids, chainEndKids, fShape, fStep, hrec]
    | cons c2 tl2 =>
      have h1 := hrec c (tail :: stk)
      have h2 := ih stk
      simp only [flatKids, chainEndKids, fShape, fStep, Bool.false_eq_true, if_false]
      rw [fShape_append, h1]
      simp only [Option.bind_some, fShape, fStep, Bool.false_eq_true, if_false]
      exact h2

theorem fShape_flat (edges : List (Nat × List Nat)) (fuel : Nat) : ∀ tail stk,
    fShape (some tail, false, stk) (flat edges fuel tail) = some (some (chainEnd edges fuel tail), false, stk) := by
  induction fuel with
  | zero => intro tail stk; simp [flat, chainEnd, fShape]
  | succ f ih =>
    intro tail stk
    simp only [flat, chainEnd]
    exact fShape_flatKids _ _ ih tail _ stk

theorem emitClosures_shape (m : Mol) (opts : Opts) (sc : SCtx) (casted : List (Nat × Nat)) (n : Nat) :
    ∀ (cl vb : List (Nat × Nat)) cts vb', emitClosures m opts sc casted n cl vb = .ok (cts, vb') →
      ∀ stk, wShape (some n, false, stk) cts = some (some n, false, stk) := by
  intro cl
  induction cl with
  | nil => intro vb cts vb' h stk; simp [emitClosures] at h; simp [h.1, wShape]
  | cons kc tl ih =>
    intro vb cts vb' h stk
    obtain ⟨k, c⟩ := kc
    simp only [emitClosures] at h
    split at h
    · cases h
    · split at h
      · cases h
      · rename_i bt vb1 hb
        split at h
        · cases h
        · rename_i rest' vb2 hr
          simp only [Except.ok.injEq, Prod.mk.injEq] at h
          rw [← h.1]
          have := ih vb1 rest' vb2 hr stk
          rcases closureBond_shape hb with hbt | ⟨s, hbt⟩ <;> subst hbt <;> simp [wShape, wStep, this]

theorem emit_shape (m : Mol) (opts : Opts) (sc : SCtx) (casted : List (Nat × Nat)) (tokens : List (Nat × List (Nat × Nat))) :
    ∀ (smi : List FTok) vb out order vb', emit m opts sc casted tokens smi vb = .ok (out, order, vb') →
      ∀ s, wShape s out = fShape s smi := by
  intro smi
  induction smi with
  | nil => intro vb out order vb' h s; simp [emit] at h; simp [h.1, wShape, fShape]
  | cons t tl ih =>
    intro vb out order vb' h s
    cases t with
    | atom n =>
      simp only [emit] at h
      split at h
      · cases h
      · split at h
        · cases h
        · split at h
          · cases h
          · rename_i cts vb1 hc
            split at h
            · cases h
            · rename_i rest order' vb2 hr
              simp only [Except.ok.injEq, Prod.mk.injEq] at h
              rw [← h.1]
              simp only [wShape, wStep, fShape, fStep]
              rw [wShape_append, emitClosures_shape m opts sc casted n _ _ _ _ hc]
              simp only [Option.bind_some]
              exact ih _ _ _ _ hr _
    | bond a b =>
      simp only [emit] at h
      split at h
      · cases h
      · split at h
        · cases h
        · rename_i rest order' vb2 hr
          simp only [Except.ok.injEq, Prod.mk.injEq] at h
          rw [← h.1]
          simp only [wShape, fShape]
          have e : ∀ x, wStep s (WTok.bond x) = fStep s (FTok.bond a b) := fun _ => rfl
          rw [e]
          cases fStep s (FTok.bond a b) with
          | none => rfl
          | some s' => exact ih _ _ _ _ hr s'
    | lpar =>
      simp only [emit] at h
      split at h
      · cases h
      · rename_i rest order' vb2 hr
        simp only [Except.ok.injEq, Prod.mk.injEq] at h
        rw [← h.1]
        simp only [wShape, fShape]
        have e : wStep s WTok.lpar = fStep s FTok.lpar := rfl
        rw [e]
        cases fStep s FTok.lpar with
        | none => rfl
        | some s' => exact ih _ _ _ _ hr s'
    | rpar =>
      simp only [emit] at h
      split at h
      · cases h
      · rename_i rest order' vb2 hr
        simp only [Except.ok.injEq, Prod.mk.injEq] at h
        rw [← h.1]
        simp only [wShape, fShape]
        have e : wStep s WTok.rpar = fStep s FTok.rpar := rfl
        rw [e]
        cases fStep s FTok.rpar with
        | none => rfl
        | some s' => exact ih _ _ _ _ hr s'

/-- the shape state after all components: no pending bond, empty branch stack -/
theorem wShape_rounds (m : Mol) (opts : Opts) : ∀ (rs : List Round), (∀ r ∈ rs, RoundSpec m opts r) →
    ∀ prev, ∃ prev', wShape (prev, false, []) (joinRounds rs) = some (prev', false, []) := by
  intro rs
  induction rs with
  | nil => intro _ prev; exact ⟨prev, by simp [joinRounds, wShape]⟩
  | cons r tl ih =>
    intro hall prev
    obtain ⟨order, vb', he⟩ := (hall r (by simp)).emitted
    have hs := emit_shape m opts r.sc r.castedOut r.tokens r.smi r.vbIn r.out order vb' he
    have hf : fShape (prev, false, []) r.smi = some (some (chainEnd r.edges (m.atoms.length + 1) r.start), false, []) := by
      rw [(hall r (by simp)).smi]
      simp only [flatten, fShape, fStep]
      exact fShape_flat _ _ _ _
    cases tl with
    | nil => exact ⟨_, by simp only [joinRounds]; rw [hs, hf]⟩
    | cons r2 tl2 =>
      obtain ⟨p', hp'⟩ := ih (fun r' hr' => hall r' (by simp [hr'])) (some (chainEnd r.edges (m.atoms.length + 1) r.start))
      refine ⟨p', ?_⟩
      simp only [joinRounds]
      rw [wShape_append, hs, hf]
      simp only [Option.bind_some, wShape, wStep]
      exact hp'

end ChythonModel.Proofs.C02
