import ChythonModel.Model.C05Thiele
import ChythonModel.Proofs.C05Sound
/-!
# C05 — facts about the ring-eligibility model of `thiele()`
-/
namespace ChythonModel.Proofs.C05
open ChythonModel.Model ChythonModel.Model.C05T

/-- a ring that is not skipped has 4 to 7 atoms, all of them B, C, N, O, P or S with at most three
    non-special neighbours -/
theorem ringKind_not_skip (m : Mol) (ring : List Nat) (h : ringKind m ring ≠ .skip) :
    4 ≤ ring.length ∧ ring.length ≤ 7 ∧
    ∀ n ∈ ring, [6, 7, 8, 16, 5, 15].contains (zOf m n) = true ∧ nsc m n ≤ 3 := by
  unfold ringKind at h
  simp only at h
  split at h
  · exact absurd rfl h
  · rename_i hsize
    split at h
    · exact absurd rfl h
    · rename_i hel
      simp only [Bool.not_eq_true, Bool.not_eq_false', Bool.and_eq_true, decide_eq_true_eq] at hsize
      simp only [Bool.not_eq_true, List.any_eq_false, Bool.or_eq_false_iff, Bool.not_eq_false',
        decide_eq_false_iff_not, Nat.not_lt] at hel
      refine ⟨by omega, by omega, ?_⟩
      intro n hn
      have := hel n hn
      exact ⟨by simpa using this.1, this.2⟩

theorem donorOk_charge (m : Mol) (lr n : Nat) (h : donorOk m lr n = true) :
    chargeOf m n = 0 ∨ (chargeOf m n = -1 ∧ zOf m n = 6 ∧ lr = 5) := by
  unfold donorOk at h
  simp only at h
  by_cases hc : chargeOf m n = -1
  · right
    simp only [hc, beq_self_eq_true, if_true, Bool.not_eq_true', Bool.or_eq_false_iff, bne_eq_false_iff_eq] at h
    exact ⟨hc, h.1, h.2⟩
  · left
    have hne : (chargeOf m n == -1) = false := by simpa using hc
    rw [hne] at h
    simp only [Bool.false_eq_true, if_false] at h
    by_cases h0 : chargeOf m n = 0
    · exact h0
    · have hne0 : (chargeOf m n != 0) = true := by simpa using h0
      rw [hne0] at h
      simp at h

/-- the donor atom reported for a pyrrole-like ring is a ring atom whose bonds are all single; it is neutral, or the
    carbanion of a five-membered ring -/
theorem ringKind_pyrrole (m : Mol) (ring : List Nat) (n : Nat) (h : ringKind m ring = .pyrrole n) :
    n ∈ ring ∧ hybridization m n = 1 ∧ (chargeOf m n = 0 ∨ (chargeOf m n = -1 ∧ zOf m n = 6 ∧ ring.length = 5)) := by
  unfold ringKind at h
  simp only at h
  split at h
  · cases h
  · split at h
    · cases h
    · split at h
      · split at h <;> cases h
      · split at h
        · split at h
          · cases h
          · rename_i k hk
            split at h
            · rename_i hok
              cases h
              have hf := List.find?_some hk
              have hmem := List.mem_of_find?_eq_some hk
              exact ⟨hmem, by simpa using hf, donorOk_charge m ring.length n hok⟩
            · cases h
        · split at h <;> cases h

/-- soundness of the at-scale check: a bond that became aromatic lies on a candidate ring of the ring list -/
theorem aromatisedOnlyEligible_sound (k t : Mol) (sssr : List (List Nat)) (h : aromatisedOnlyEligible k t sssr = true)
    (n m : Nat) (b b' : Bond) (hb : k.bond? n m = some b) (hb' : t.bond? n m = some b') (h4 : b'.order = 4)
    (hn4 : b.order ≠ 4) : ∃ r ∈ sssr, onRing r n m = true ∧ candidate (ringKind k r) = true := by
  unfold aromatisedOnlyEligible at h
  simp only [List.all_eq_true] at h
  unfold Mol.bond? at hb
  cases hl : k.adj.lookup n with
  | none => simp [Mol.nbrs, hl] at hb
  | some ms =>
    have hrow := h (n, ms) (mem_of_lookup hl)
    simp only [Mol.nbrs, hl, Option.getD_some] at hb
    have hent := hrow (m, b) (mem_of_lookup hb)
    simp only [hb'] at hent
    have h1 : (b'.order == 4 && b.order != 4) = true := by simp [h4, hn4]
    simp only [h1, Bool.not_true, Bool.false_or] at hent
    unfold eligibleBond at hent
    rw [List.any_eq_true] at hent
    obtain ⟨r, hr, hc⟩ := hent
    simp only [Bool.and_eq_true] at hc
    exact ⟨r, hr, hc.1, hc.2⟩

end ChythonModel.Proofs.C05

namespace ChythonModel.Proofs.C05
open ChythonModel.Model ChythonModel.Model.C05T

theorem setOrderT_atoms (m : Mol) (a b o : Nat) : (setOrderT m a b o).atoms = m.atoms := rfl

theorem setOrderT_keys (m : Mol) (a b o : Nat) :
    (setOrderT m a b o).adj.map (fun p => (p.1, p.2.map (·.1))) = m.adj.map (fun p => (p.1, p.2.map (·.1))) := by
  unfold setOrderT
  simp only [List.map_map]
  apply List.map_congr_left
  intro p _
  simp only [Function.comp]
  split
  · simp only [List.map_map, Prod.mk.injEq, true_and]
    apply List.map_congr_left
    intro q _
    simp only [Function.comp]
    split <;> rfl
  · split
    · simp only [List.map_map, Prod.mk.injEq, true_and]
      apply List.map_congr_left
      intro q _
      simp only [Function.comp]
      split <;> rfl
    · rfl

/-- what every sequence of bond-order assignments preserves -/
def SameFrame (m t : Mol) : Prop :=
  t.atoms = m.atoms ∧ t.adj.map (fun p => (p.1, p.2.map (·.1))) = m.adj.map (fun p => (p.1, p.2.map (·.1)))

theorem sameFrame_refl (m : Mol) : SameFrame m m := ⟨rfl, rfl⟩

theorem sameFrame_foldl_edges (o : Nat) : ∀ (es : List (Nat × Nat)) (m t : Mol), SameFrame m t →
    SameFrame m (es.foldl (fun m e => setOrderT m e.1 e.2 o) t) := by
  intro es
  induction es with
  | nil => intro m t h; exact h
  | cons e es ih =>
    intro m t h
    simp only [List.foldl_cons]
    apply ih
    exact ⟨by rw [setOrderT_atoms]; exact h.1, by rw [setOrderT_keys]; exact h.2⟩

theorem sameFrame_foldl_rings (o : Nat) : ∀ (rs : List (List Nat)) (m t : Mol), SameFrame m t →
    SameFrame m (rs.foldl (fun m r => (ringEdges r).foldl (fun m e => setOrderT m e.1 e.2 o) m) t) := by
  intro rs
  induction rs with
  | nil => intro m t h; exact h
  | cons r rs ih =>
    intro m t h
    simp only [List.foldl_cons]
    exact ih m _ (sameFrame_foldl_edges o (ringEdges r) m t h)

/-- the functional model of `thiele(fix_tautomers=False)` never touches an atom (element, charge, radical, hydrogens,
    …) nor the neighbour structure: it only assigns bond orders -/
theorem thieleNoFix_frame (m : Mol) (sssr : List (List Nat)) (r : Bool) (t : Mol)
    (h : thieleNoFix m sssr = some (r, t)) : SameFrame m t := by
  unfold thieleNoFix at h
  simp only at h
  split at h
  · cases h
  · split at h
    · simp only [Option.some.injEq, Prod.mk.injEq] at h; rw [← h.2]; exact sameFrame_refl m
    · split at h
      · simp only [Option.some.injEq, Prod.mk.injEq] at h; rw [← h.2]; exact sameFrame_refl m
      · split at h
        · simp only [Option.some.injEq, Prod.mk.injEq] at h; rw [← h.2]; exact sameFrame_refl m
        · simp only [Option.some.injEq, Prod.mk.injEq] at h
          rw [← h.2]
          apply sameFrame_foldl_edges
          apply sameFrame_foldl_rings
          exact sameFrame_refl m

/-- when the model answers `False` ("no aromatic ring found") the molecule is returned unchanged -/
theorem thieleNoFix_false_unchanged (m : Mol) (sssr : List (List Nat)) (t : Mol)
    (h : thieleNoFix m sssr = some (false, t)) : t = m := by
  unfold thieleNoFix at h
  simp only at h
  split at h
  · cases h
  · split at h
    · simp only [Option.some.injEq, Prod.mk.injEq] at h; exact h.2.symm
    · split at h
      · simp only [Option.some.injEq, Prod.mk.injEq] at h; exact h.2.symm
      · split at h
        · simp only [Option.some.injEq, Prod.mk.injEq] at h; exact h.2.symm
        · simp only [Option.some.injEq, Prod.mk.injEq] at h
          exact absurd h.1 (by decide)

end ChythonModel.Proofs.C05

namespace ChythonModel.Proofs.C05
open ChythonModel.Model ChythonModel.Model.C05T ChythonModel.Spec.Kekule

/-- positional: same keys, every order is the old one or one of `S` -/
def ordersIn (S : List Nat) (m t : Mol) : Bool :=
  all2 (fun r s => r.1 == s.1 && all2 (fun p q => p.1 == q.1 && (q.2.order == p.2.order || S.contains q.2.order)) r.2 s.2)
    m.adj t.adj

theorem all2_refl {α : Type} {f : α → α → Bool} (h : ∀ x, f x x = true) : ∀ l : List α, all2 f l l = true := by
  intro l
  induction l with
  | nil => rfl
  | cons x xs ih => simp [all2, h x, ih]

theorem all2_map_right {α β : Type} {f : α → β → Bool} (g : β → β) (hg : ∀ x y, f x y = true → f x (g y) = true) :
    ∀ {xs : List α} {ys : List β}, all2 f xs ys = true → all2 f xs (ys.map g) = true := by
  intro xs
  induction xs with
  | nil => intro ys h; rw [all2_nil_left h]; rfl
  | cons x xs ih =>
    intro ys h
    obtain ⟨y, ys', rfl, hxy, hrest⟩ := all2_cons h
    simp only [List.map_cons, all2, hg x y hxy, ih hrest, Bool.and_self]

theorem ordersIn_refl (S : List Nat) (m : Mol) : ordersIn S m m = true := by
  unfold ordersIn
  apply all2_refl
  intro r
  simp only [beq_self_eq_true, Bool.true_and]
  apply all2_refl
  intro p
  simp

/-- one assignment `bonds[a][b]._order = o` with `o ∈ S` keeps `ordersIn S` -/
theorem ordersIn_setOrderT (S : List Nat) (m t : Mol) (a b o : Nat) (ho : S.contains o = true)
    (h : ordersIn S m t = true) : ordersIn S m (setOrderT t a b o) = true := by
  unfold ordersIn at h ⊢
  unfold setOrderT
  simp only
  apply all2_map_right _ _ h
  intro r s hrs
  simp only [Bool.and_eq_true, beq_iff_eq] at hrs
  have inner : ∀ (c : Nat), all2 (fun p q => p.1 == q.1 && (q.2.order == p.2.order || S.contains q.2.order)) r.2
      (s.2.map fun q => if q.1 == c then (q.1, { q.2 with order := o }) else q) = true := by
    intro c
    apply all2_map_right _ _ hrs.2
    intro p q hpq
    split
    · simp only [Bool.and_eq_true, beq_iff_eq] at hpq
      simp only [Bool.and_eq_true, beq_iff_eq, hpq.1, ho, Bool.or_true, and_self]
    · exact hpq
  have hk : (r.1 == s.1) = true := by simp [hrs.1]
  split
  · rw [Bool.and_eq_true]
    exact ⟨hk, inner b⟩
  · split
    · rw [Bool.and_eq_true]
      exact ⟨hk, inner a⟩
    · rw [Bool.and_eq_true]
      exact ⟨hk, hrs.2⟩

theorem ordersIn_foldl_edges (S : List Nat) (o : Nat) (ho : S.contains o = true) :
    ∀ (es : List (Nat × Nat)) (m t : Mol), ordersIn S m t = true →
      ordersIn S m (es.foldl (fun m e => setOrderT m e.1 e.2 o) t) = true := by
  intro es
  induction es with
  | nil => intro m t h; exact h
  | cons e es ih =>
    intro m t h
    simp only [List.foldl_cons]
    exact ih m _ (ordersIn_setOrderT S m t e.1 e.2 o ho h)

theorem ordersIn_foldl_rings (S : List Nat) (o : Nat) (ho : S.contains o = true) :
    ∀ (rs : List (List Nat)) (m t : Mol), ordersIn S m t = true →
      ordersIn S m (rs.foldl (fun m r => (ringEdges r).foldl (fun m e => setOrderT m e.1 e.2 o) m) t) = true := by
  intro rs
  induction rs with
  | nil => intro m t h; exact h
  | cons r rs ih =>
    intro m t h
    simp only [List.foldl_cons]
    exact ih m _ (ordersIn_foldl_edges S o ho (ringEdges r) m t h)

/-- the model of `thiele(fix_tautomers=False)` only ever writes "single" or "aromatic" -/
theorem thieleNoFix_orders (m : Mol) (sssr : List (List Nat)) (r : Bool) (t : Mol)
    (h : thieleNoFix m sssr = some (r, t)) : ordersIn [1, 4] m t = true := by
  unfold thieleNoFix at h
  simp only at h
  split at h
  · cases h
  · split at h
    · simp only [Option.some.injEq, Prod.mk.injEq] at h; rw [← h.2]; exact ordersIn_refl _ m
    · split at h
      · simp only [Option.some.injEq, Prod.mk.injEq] at h; rw [← h.2]; exact ordersIn_refl _ m
      · split at h
        · simp only [Option.some.injEq, Prod.mk.injEq] at h; rw [← h.2]; exact ordersIn_refl _ m
        · simp only [Option.some.injEq, Prod.mk.injEq] at h
          rw [← h.2]
          apply ordersIn_foldl_edges [1, 4] 4 (by decide)
          apply ordersIn_foldl_rings [1, 4] 1 (by decide)
          exact ordersIn_refl _ m

/-- … in terms of the public look-up: every bond of the input is still there, unchanged or single or aromatic -/
theorem thieleNoFix_bonds (m : Mol) (sssr : List (List Nat)) (r : Bool) (t : Mol)
    (h : thieleNoFix m sssr = some (r, t)) (n k : Nat) (b : Bond) (hb : m.bond? n k = some b) :
    ∃ b', t.bond? n k = some b' ∧ (b'.order = b.order ∨ b'.order = 1 ∨ b'.order = 4) := by
  have ho := thieleNoFix_orders m sssr r t h
  unfold ordersIn at ho
  obtain ⟨b', hb', hg⟩ := bond_of_rows
    (f := fun r s => r.1 == s.1 && all2 (fun p q => p.1 == q.1 && (q.2.order == p.2.order || [1, 4].contains q.2.order)) r.2 s.2)
    (g := fun _ p q => p.1 == q.1 && (q.2.order == p.2.order || [1, 4].contains q.2.order))
    (fun r s h => by simp only [Bool.and_eq_true, beq_iff_eq] at h; exact h.1)
    (fun _ p q h => by simp only [Bool.and_eq_true, beq_iff_eq] at h; exact h.1)
    (fun n ms ms' h => by simp only [Bool.and_eq_true] at h; exact h.2) ho hb
  refine ⟨b', hb', ?_⟩
  simp only [Bool.and_eq_true, Bool.or_eq_true, beq_iff_eq, List.contains_iff_mem, List.mem_cons, List.mem_nil_iff,
    or_false] at hg
  rcases hg.2 with e | e | e
  · exact Or.inl e
  · exact Or.inr (Or.inl e)
  · exact Or.inr (Or.inr e)

end ChythonModel.Proofs.C05
