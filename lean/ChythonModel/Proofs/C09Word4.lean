import ChythonModel.Proofs.C09Word3
namespace ChythonModel.Proofs.C09
open ChythonModel.Model.Bits ChythonModel.Gen.Bits ChythonModel.Model.Query

theorem qMetalV3_at (p : Nat) : qMetalV3.testBit p = (decide (p < 15) || (decide (30 ≤ p) && decide (p < 64))) := by
  rw [qMetalV3_eq, Nat.testBit_or, testBit_run, testBit_run]
  rw [Bool.eq_iff_iff]; simp; omega

/-- word III for `AnyMetal`: only the neighbour count is tested -/
theorem test3_metal (mdl : Nat) (q : QAtom) (a : MAtom) (hq : QDom q) (ha : ADom mdl a) :
    ((qMetalV3 ||| nbPart q) &&& atomV3 mdl a == atomV3 mdl a) = !tupleRejects q.neighbors a.neighbors := by
  have hp := isoPos_range mdl a ha.iso
  have w5 := within_nbPart q hq
  have hc1 := ha.chg_lo; have hc2 := ha.chg_hi
  have hh := ha.h; have hn := ha.nb; have he := ha.het
  rw [atomV3_eq, sub_orShifts]
  simp only [pos3, List.all_cons, List.all_nil, Bool.and_true, Nat.testBit_or, qMetalV3_at]
  rw [w5.out (p := isoPos mdl a) (by omega), w5.out (p := if a.radical then 45 else 44) (by split <;> omega),
    w5.out (p := (a.charge + 39).toNat) (by omega), w5.out (p := hOr a.implH + 30) (by omega),
    w5.out (p := a.heteroatoms) (by omega), nb_at q _ hn]
  have e1 : (decide (isoPos mdl a < 15) || (decide (30 ≤ isoPos mdl a) && decide (isoPos mdl a < 64))) = true := by
    simp; omega
  have e2 : (decide ((if a.radical then 45 else 44) < 15) || (decide (30 ≤ (if a.radical then 45 else 44)) && decide ((if a.radical then 45 else 44) < 64))) = true := by
    cases a.radical <;> simp
  have e3 : (decide ((a.charge + 39).toNat < 15) || (decide (30 ≤ (a.charge + 39).toNat) && decide ((a.charge + 39).toNat < 64))) = true := by
    simp; omega
  have e4 : (decide (hOr a.implH + 30 < 15) || (decide (30 ≤ hOr a.implH + 30) && decide (hOr a.implH + 30 < 64))) = true := by
    simp; omega
  have e5 : (decide (a.neighbors + 15 < 15) || (decide (30 ≤ a.neighbors + 15) && decide (a.neighbors + 15 < 64))) = false := by
    simp; omega
  have e6 : (decide (a.heteroatoms < 15) || (decide (30 ≤ a.heteroatoms) && decide (a.heteroatoms < 64))) = true := by
    simp; omega
  rw [e1, e2, e3, e4, e5, e6]
  simp


theorem ringBits_eq (rs : List Nat) (h : ∀ r ∈ rs, r ≤ 65) : ringBits 65 65 rs = orShifts 0 (rs.map (65 - ·)) := by
  induction rs with
  | nil => rfl
  | cons r rs ih =>
    have hr : ¬ r > 65 := by have := h r (by simp); omega
    simp only [ringBits, List.map_cons, orShifts, hr, if_false, Nat.add_zero]
    rw [ih (fun x hx => h x (by simp [hx]))]

theorem orShifts_ne_zero (off : Nat) (x : Nat) (xs : List Nat) : orShifts off (x :: xs) ≠ 0 := by
  intro h
  have : (orShifts off (x :: xs)).testBit (x + off) = true := by
    rw [testBit_orShifts]; simp
  rw [h] at this; simp at this

theorem ringWord_eq (rmax rbase om : Nat) (hm : rmax = 65) (hb : rbase = 65) (r : Nat) (rs : List Nat)
    (h : ∀ x ∈ r :: rs, x ≤ 65) :
    (if (ringBits rmax rbase (r :: rs) == 0) = true then om else ringBits rmax rbase (r :: rs)) =
      orShifts 0 ((r :: rs).map (65 - ·)) := by
  subst hm; subst hb
  have e := ringBits_eq (r :: rs) h
  have hne := orShifts_ne_zero 0 (65 - r) (rs.map (65 - ·))
  simp only [e, List.map_cons] at hne ⊢
  have : (orShifts 0 ((65 - r) :: rs.map (65 - ·)) == 0) = false := by simpa using hne
  simp only [this, Bool.false_eq_true, if_false]

theorem any_congr_mem {α} (l : List α) (f g : α → Bool) (h : ∀ x ∈ l, f x = g x) : l.any f = l.any g := by
  induction l with
  | nil => rfl
  | cons a t ih =>
    simp only [List.any_cons, h a (by simp)]
    rw [ih (fun x hx => h x (by simp [hx]))]

def pos4 (a : MAtom) : List Nat := if a.ringSizes.isEmpty then [63] else a.ringSizes.map (65 - ·)

theorem atomV4_eq (a : MAtom) (h : ∀ r ∈ a.ringSizes, 3 ≤ r ∧ r ≤ 65) : atomV4 a = orShifts 0 (pos4 a) := by
  unfold atomV4 pos4
  cases hrs : a.ringSizes with
  | nil => simp [sNoRing, orShifts]
  | cons r rs =>
    have hb : ∀ x ∈ r :: rs, x ≤ 65 := fun x hx => (h x (by rw [hrs]; exact hx)).2
    simp only [List.isEmpty_cons, Bool.not_false, if_true, Bool.false_eq_true, if_false]
    exact ringWord_eq sRingMax sRingBase sOnlyBig rfl rfl r rs hb

theorem test4_ext (q : QAtom) (a : MAtom) (hq : QDom q) (ha : ∀ r ∈ a.ringSizes, 3 ≤ r ∧ r ≤ 65) :
    (qV4ext q &&& atomV4 a != 0) = !ringRejects q.ringSizes a.ringSizes := by
  rw [atomV4_eq a ha, meet_orShifts]
  unfold qV4ext ringRejects
  cases hqr : q.ringSizes with
  | nil =>
    simp only [qAnyRing_eq, testBit_run, Bool.not_false]
    unfold pos4
    cases har : a.ringSizes with
    | nil => simp
    | cons r rs =>
      have := ha r (by rw [har]; simp)
      simp; left; omega
  | cons r0 qs =>
    by_cases h0 : r0 = 0
    · subst h0
      simp only [bne_self_eq_false, Bool.false_eq_true, if_false]
      have e : qNoRing = 1 <<< 63 := by decide
      simp only [e, testBit_shl1]
      unfold pos4
      cases har : a.ringSizes with
      | nil => simp
      | cons r rs =>
        simp only [List.isEmpty_cons, Bool.false_eq_true, if_false, Bool.not_false, Bool.not_true]
        rw [List.any_eq_false]
        intro p hp
        simp only [List.mem_map] at hp
        obtain ⟨x, hx, rfl⟩ := hp
        have := ha x (by rw [har]; exact hx)
        simp; omega
    · have hq' : ∀ r ∈ r0 :: qs, 3 ≤ r ∧ r ≤ 65 := by
        rcases hq.rings with h | h
        · rw [hqr] at h; simp at h; exact absurd h h0
        · intro r hr; exact h r (by rw [hqr]; exact hr)
      have hne : (r0 != 0) = true := by simp [h0]
      simp only [hne, if_true]
      rw [ringWord_eq qRingMax qRingBase qOnlyBig rfl rfl r0 qs (fun x hx => (hq' x hx).2)]
      simp only [Bool.not_not]
      unfold pos4
      cases har : a.ringSizes with
      | nil =>
        simp only [List.isEmpty_nil, if_true, List.any_cons, List.any_nil, Bool.or_false, testBit_orShifts]
        rw [List.any_eq_false]
        intro p hp
        simp only [List.mem_map] at hp
        obtain ⟨x, hx, rfl⟩ := hp
        have := hq' x hx
        simp; omega
      | cons r rs =>
        simp only [List.isEmpty_cons, Bool.false_eq_true, if_false, List.any_map]
        apply any_congr_mem
        intro x hx
        have hx' := ha x (by rw [har]; exact hx)
        simp only [Function.comp, testBit_orShifts, List.any_map, Nat.add_zero]
        rw [Bool.eq_iff_iff]
        simp only [List.any_eq_true, Function.comp, beq_iff_eq, List.contains_iff_mem]
        constructor
        · rintro ⟨s, hs, h⟩
          have := hq' s hs
          have : s = x := by omega
          subst this; exact hs
        · intro h; exact ⟨x, h, rfl⟩

end ChythonModel.Proofs.C09
