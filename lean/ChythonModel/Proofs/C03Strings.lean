import ChythonModel.Proofs.C03Lexer
import ChythonModel.Proofs.C03SpecRing
/-!
# C03 — from strings to graphs for the organic subset: spelling of a syntax tree, and the composition of the lexer
round trip with the parser/denotation theorem (helper lemmas)
-/
set_option linter.unusedSimpArgs false
namespace ChythonModel.Proofs.C03
open ChythonModel.Model.C03 ChythonModel.Gen.C03 ChythonModel.Spec.Smiles

/-- atoms of the organic subset as they are spelled -/
inductive SAtom
  | org (c : Nat) | aro (c : Nat) | cC | cB | cCl | cBr
  deriving DecidableEq, Repr

def SAtom.ltok : SAtom → LTok
  | .org c => .org c
  | .aro c => .aro c
  | .cC => .cC
  | .cB => .cB
  | .cCl => .cCl
  | .cBr => .cBr

/-- the atom token it denotes: (aromatic?, `{'element': …}`) -/
def SAtom.toA : SAtom → A
  | .org c => (false, { element := [c] })
  | .aro c => (true, { element := [c - 32] })
  | .cC => (false, { element := [67] })
  | .cB => (false, { element := [66] })
  | .cCl => (false, { element := [67, 108] })
  | .cBr => (false, { element := [66, 114] })

def SAtom.wf : SAtom → Prop
  | .org c => c ∈ organicChars
  | .aro c => c ∈ aromaticChars
  | _ => True

/-- what is spelled between two atoms -/
inductive SLink
  | implicit | bond (c : Nat) | dir (up : Bool) | dot
  deriving DecidableEq, Repr

def orderOf (c : Nat) : Nat := (lookupNat c replaceDict).getD 0

def SLink.toLink : SLink → Link
  | .implicit => .implicit
  | .bond c => .explicit (orderOf c)
  | .dir b => .dir b
  | .dot => .dot

def SLink.ltoks : SLink → List LTok
  | .implicit => []
  | .bond c => [.bond c]
  | .dir b => [.dir b]
  | .dot => [.dot]

def SLink.wf : SLink → Prop
  | .bond c => c ∈ bondChars
  | _ => True

inductive SRSym
  | none | bond (c : Nat) | dir (up : Bool)
  deriving DecidableEq, Repr

/-- a spelled ring bond: optional bond symbol and a ring number 1…99 (`d` below 10, `%dd` from 10 on) -/
structure SRing where
  sym : SRSym
  num : Nat
  deriving DecidableEq, Repr

def SRing.toRB (r : SRing) : RingBond :=
  ⟨match r.sym with
    | .none => .none
    | .bond c => .order (orderOf c)
    | .dir b => .dir b, r.num⟩

def SRing.ltoks (r : SRing) : List LTok :=
  (match r.sym with
    | .none => []
    | .bond c => [.bond c]
    | .dir b => [.dir b]) ++
  [if r.num < 10 then .ring1 (r.num + 48) else .ring2 (r.num / 10 + 48) (r.num % 10 + 48)]

def SRing.wf (r : SRing) : Prop :=
  1 ≤ r.num ∧ r.num ≤ 99 ∧ match r.sym with
    | .bond c => c ∈ bondChars
    | _ => True

/-- spelled syntax tree (continuation form, like `Spec.K`) -/
inductive KS
  | done
  | side (l : SLink) (a : SAtom) (r : List SRing) (inner rest : KS)
  | next (l : SLink) (a : SAtom) (r : List SRing) (rest : KS)
  deriving Repr

structure SChain where
  start : SAtom
  rings : List SRing
  k : KS

def payload (a : SAtom) (r : List SRing) : B := (a.toA, r.map SRing.toRB)

def KS.toK : KS → K B
  | .done => .done
  | .side l a r inner rest => .side l.toLink (payload a r) inner.toK rest.toK
  | .next l a r rest => .next l.toLink (payload a r) rest.toK

def SChain.toChain (c : SChain) : Chain B := ⟨payload c.start c.rings, c.k.toK⟩

def ringsToks (r : List SRing) : List LTok := r.flatMap SRing.ltoks

def KS.spell : KS → List LTok
  | .done => []
  | .side l a r inner rest => .lpar :: (l.ltoks ++ (a.ltok :: (ringsToks r ++ (inner.spell ++ (.rpar :: rest.spell)))))
  | .next l a r rest => l.ltoks ++ (a.ltok :: (ringsToks r ++ rest.spell))

def SChain.spell (c : SChain) : List LTok := c.start.ltok :: (ringsToks c.rings ++ c.k.spell)

/-- the characters -/
def SChain.text (c : SChain) : Str := c.spell.flatMap LTok.render

def KS.wf : KS → Prop
  | .done => True
  | .side l a r inner rest => l.wf ∧ a.wf ∧ (∀ x ∈ r, x.wf) ∧ inner.wf ∧ rest.wf
  | .next l a r rest => l.wf ∧ a.wf ∧ (∀ x ∈ r, x.wf) ∧ rest.wf

def SChain.wf (c : SChain) : Prop := c.start.wf ∧ (∀ x ∈ c.rings, x.wf) ∧ c.k.wf

/-! ## the spelled tokens are the printed symbols of the spec tree -/

theorem tok_atom (a : SAtom) (r : List SRing) : symTokB (.atom (payload a r)) = a.ltok.tok := by
  cases a <;> rfl

theorem tok_link (l : SLink) : toToksB (printLink l.toLink) = l.ltoks.map LTok.tok := by
  cases l <;> rfl

theorem ring_num (n : Nat) : n = n / 10 * 10 + n % 10 := by
  have := Nat.div_add_mod n 10
  omega

theorem tok_ring (r : SRing) : toToksB (printRing r.toRB) = r.ltoks.map LTok.tok := by
  obtain ⟨sym, num⟩ := r
  by_cases h : num < 10
  · cases sym <;> simp [SRing.toRB, SRing.ltoks, printRing, toToksB, symTokB, LTok.tok, h, orderOf]
  · cases sym <;> simp [SRing.toRB, SRing.ltoks, printRing, toToksB, symTokB, LTok.tok, h, orderOf] <;> exact ring_num num

theorem tok_rings : ∀ (r : List SRing), toToksB (printRings (r.map SRing.toRB)) = (ringsToks r).map LTok.tok
  | [] => rfl
  | x :: tl => by
    have ih := tok_rings tl
    have hx := tok_ring x
    simp only [toToksB, ringsToks, List.map_cons, printRings, List.map_append, List.flatMap_cons] at ih hx ⊢
    rw [hx, ih]

theorem tok_atomR (a : SAtom) (r : List SRing) :
    toToksB (printAtomR (·.2) (payload a r)) = (a.ltok :: ringsToks r).map LTok.tok := by
  have h := tok_rings r
  have ha := tok_atom a r
  simp only [toToksB] at h
  simp only [printAtomR, toToksB, List.map_cons, ha]
  rw [show (payload a r).2 = r.map SRing.toRB from rfl, h]

theorem tok_spell : ∀ (k : KS), toToksB (printKR (·.2) k.toK) = k.spell.map LTok.tok
  | .done => rfl
  | .side l a r inner rest => by
    have h1 := tok_link l
    have h2 := tok_atomR a r
    have h3 := tok_spell inner
    have h4 := tok_spell rest
    simp only [toToksB] at h1 h2 h3 h4
    simp only [KS.toK, KS.spell, printKR, toToksB, List.map_cons, List.map_append]
    rw [h1, h2, h3, h4]
    simp [symTokB, LTok.tok]
  | .next l a r rest => by
    have h1 := tok_link l
    have h2 := tok_atomR a r
    have h4 := tok_spell rest
    simp only [toToksB] at h1 h2 h4
    simp only [KS.toK, KS.spell, printKR, toToksB, List.map_append]
    rw [h1, h2, h4]
    simp

theorem tok_chain (c : SChain) : toToksB (printR (·.2) c.toChain) = c.spell.map LTok.tok := by
  have h2 := tok_atomR c.start c.rings
  have h4 := tok_spell c.k
  simp only [toToksB] at h2 h4
  simp only [SChain.toChain, SChain.spell, printR, toToksB, List.map_append]
  rw [h2, h4]
  simp

/-! ## the spelling is a token list the tokenizer accepts -/

/-- whether the last token is `(` (`b` for the empty list) -/
def endsOpen : Bool → List LTok → Bool
  | b, [] => b
  | _, t :: tl => endsOpen (t == .lpar) tl

theorem lexOK_append : ∀ (xs ys : List LTok) (b : Bool), LexOK b (xs ++ ys) ↔ LexOK b xs ∧ LexOK (endsOpen b xs) ys
  | [], ys, b => by simp [LexOK, endsOpen]
  | t :: tl, ys, b => by
    simp only [List.cons_append, LexOK, endsOpen, lexOK_append tl ys (t == .lpar)]
    constructor
    · rintro ⟨h1, h2, h3, h4⟩; exact ⟨⟨h1, h2, h3⟩, h4⟩
    · rintro ⟨⟨h1, h2, h3⟩, h4⟩; exact ⟨h1, h2, h3, h4⟩

theorem endsOpen_append : ∀ (xs ys : List LTok) (b : Bool), endsOpen b (xs ++ ys) = endsOpen (endsOpen b xs) ys
  | [], _, _ => rfl
  | t :: tl, ys, b => by simp only [List.cons_append, endsOpen, endsOpen_append tl ys]

theorem lex_link (l : SLink) (h : l.wf) (b : Bool) : LexOK b l.ltoks ∧ (endsOpen b l.ltoks = true → b = true) := by
  cases l with
  | implicit => exact ⟨trivial, fun h => h⟩
  | bond c => exact ⟨⟨h, fun _ => rfl, trivial⟩, fun h => by simp [SLink.ltoks, endsOpen] at h⟩
  | dir u => exact ⟨⟨trivial, fun _ => rfl, trivial⟩, fun h => by simp [SLink.ltoks, endsOpen] at h⟩
  | dot => exact ⟨⟨trivial, fun _ => rfl, trivial⟩, fun h => by simp [SLink.ltoks, endsOpen] at h⟩

theorem atom_ltok_facts (a : SAtom) (h : a.wf) : a.ltok.wf ∧ a.ltok.afterOpenOK = true ∧ (a.ltok == LTok.lpar) = false := by
  cases a <;> exact ⟨h, rfl, rfl⟩

theorem digit_mem : ∀ n, n < 10 → n + 48 ∈ digitChars := by decide

theorem lex_ring (r : SRing) (h : r.wf) : LexOK false r.ltoks ∧ endsOpen false r.ltoks = false := by
  obtain ⟨sym, num⟩ := r
  obtain ⟨h1, h2, h3⟩ := h
  dsimp only at h1 h2 h3
  have hring : (if num < 10 then LTok.ring1 (num + 48) else LTok.ring2 (num / 10 + 48) (num % 10 + 48)).wf := by
    by_cases hn : num < 10
    · simp only [hn, if_true, LTok.wf]
      exact ⟨digit_mem num hn, by omega⟩
    · simp only [hn, if_false, LTok.wf]
      exact ⟨digit_mem _ (by omega), by omega, digit_mem _ (Nat.mod_lt _ (by decide))⟩
  have hnl : ∀ b, endsOpen b [if num < 10 then LTok.ring1 (num + 48) else LTok.ring2 (num / 10 + 48) (num % 10 + 48)] = false := by
    intro b
    by_cases hn : num < 10 <;> simp [hn, endsOpen]
  have hno : ∀ (P : Prop), (false = true → P) := fun _ h => by cases h
  cases sym with
  | none =>
    refine ⟨⟨hring, hno _, trivial⟩, ?_⟩
    simp only [SRing.ltoks, List.nil_append]
    exact hnl false
  | bond c =>
    have hb : (LTok.bond c == LTok.lpar) = false := rfl
    refine ⟨⟨h3, hno _, ?_⟩, ?_⟩
    · show LexOK (LTok.bond c == LTok.lpar) [_]
      rw [hb]; exact ⟨hring, hno _, trivial⟩
    · simp only [SRing.ltoks, List.cons_append, List.nil_append, endsOpen]
      exact hnl (LTok.bond c == LTok.lpar)
  | dir u =>
    have hb : (LTok.dir u == LTok.lpar) = false := rfl
    refine ⟨⟨trivial, hno _, ?_⟩, ?_⟩
    · show LexOK (LTok.dir u == LTok.lpar) [_]
      rw [hb]; exact ⟨hring, hno _, trivial⟩
    · simp only [SRing.ltoks, List.cons_append, List.nil_append, endsOpen]
      exact hnl (LTok.dir u == LTok.lpar)

theorem lex_rings : ∀ (r : List SRing), (∀ x ∈ r, x.wf) → LexOK false (ringsToks r) ∧ endsOpen false (ringsToks r) = false
  | [], _ => ⟨trivial, rfl⟩
  | x :: tl, h => by
    obtain ⟨h1, h2⟩ := lex_ring x (h x (by simp))
    obtain ⟨h3, h4⟩ := lex_rings tl (fun y hy => h y (by simp [hy]))
    simp only [ringsToks, List.flatMap_cons] at h3 h4 ⊢
    exact ⟨(lexOK_append _ _ _).mpr ⟨h1, by rw [h2]; exact h3⟩, by rw [endsOpen_append, h2]; exact h4⟩

/-- `atom ringbond*` after a token that may be `(` -/
theorem lex_atom_rings (a : SAtom) (r : List SRing) (ha : a.wf) (hr : ∀ x ∈ r, x.wf) (b : Bool) (rest : List LTok)
    (hrest : LexOK false rest) : LexOK b (a.ltok :: (ringsToks r ++ rest)) := by
  obtain ⟨f1, f2, f3⟩ := atom_ltok_facts a ha
  obtain ⟨g1, g2⟩ := lex_rings r hr
  refine ⟨f1, fun _ => f2, ?_⟩
  rw [f3]
  exact (lexOK_append _ _ _).mpr ⟨g1, by rw [g2]; exact hrest⟩

theorem endsOpen_atom_rings (a : SAtom) (r : List SRing) (ha : a.wf) (hr : ∀ x ∈ r, x.wf) (b : Bool) :
    endsOpen b (a.ltok :: ringsToks r) = false := by
  obtain ⟨_, _, f3⟩ := atom_ltok_facts a ha
  obtain ⟨_, g2⟩ := lex_rings r hr
  simp only [endsOpen, f3]
  exact g2

theorem lex_spell : ∀ (k : KS), k.wf → LexOK false k.spell ∧ endsOpen false k.spell = false
  | .done, _ => ⟨trivial, rfl⟩
  | .next l a r rest, h => by
    obtain ⟨hl, ha, hr, hrest⟩ := h
    obtain ⟨i1, i2⟩ := lex_spell rest hrest
    obtain ⟨l1, l2⟩ := lex_link l hl false
    have hE : endsOpen false l.ltoks = false := by
      cases hk : endsOpen false l.ltoks with
      | false => rfl
      | true => exact absurd (l2 hk) (by decide)
    refine ⟨?_, ?_⟩
    · simp only [KS.spell]
      exact (lexOK_append _ _ _).mpr ⟨l1, lex_atom_rings a r ha hr _ _ i1⟩
    · simp only [KS.spell]
      rw [endsOpen_append, show a.ltok :: (ringsToks r ++ rest.spell) = (a.ltok :: ringsToks r) ++ rest.spell from rfl,
        endsOpen_append, endsOpen_atom_rings a r ha hr]
      exact i2
  | .side l a r inner rest, h => by
    obtain ⟨hl, ha, hr, hinner, hrest⟩ := h
    obtain ⟨i1, i2⟩ := lex_spell inner hinner
    obtain ⟨j1, j2⟩ := lex_spell rest hrest
    obtain ⟨l1, _⟩ := lex_link l hl true
    have hclose : LexOK false (inner.spell ++ (LTok.rpar :: rest.spell)) :=
      (lexOK_append _ _ _).mpr ⟨i1, by rw [i2]; exact ⟨trivial, (fun h => by cases h), j1⟩⟩
    refine ⟨?_, ?_⟩
    · simp only [KS.spell]
      refine ⟨trivial, (fun h => by cases h), ?_⟩
      exact (lexOK_append _ _ _).mpr ⟨l1, lex_atom_rings a r ha hr _ _ hclose⟩
    · simp only [KS.spell, endsOpen]
      rw [endsOpen_append,
        show a.ltok :: (ringsToks r ++ (inner.spell ++ (LTok.rpar :: rest.spell))) =
          (a.ltok :: ringsToks r) ++ (inner.spell ++ (LTok.rpar :: rest.spell)) from rfl,
        endsOpen_append, endsOpen_atom_rings a r ha hr, endsOpen_append, i2]
      simp only [endsOpen]
      exact j2

theorem lex_chain (c : SChain) (h : c.wf) : LexOK false c.spell := by
  obtain ⟨ha, hr, hk⟩ := h
  exact lex_atom_rings c.start c.rings ha hr false _ (lex_spell c.k hk).1

/-- **from the characters to the graph** (organic subset): the spelling of a well-formed tree whose ring bonds the spec
    accepts is tokenized to the printed symbols and parsed to exactly the denoted graph -/
theorem text_to_graph (c : SChain) (h : c.wf) (g : Graph B) (hd : denoteR aromB (·.2) c.toChain = some g) :
    ∃ toks st, smilesTokenize c.text = .ok toks ∧ parse false toks = .ok st ∧
      st.atoms = g.atoms.map (fun b => strip b.1) ∧ st.types = g.atoms.map (fun b => tyOf b.1) ∧ st.bonds = g.bonds := by
  obtain ⟨st, hp, h1, h2, h3⟩ := parse_printR c.toChain g hd
  refine ⟨c.spell.map LTok.tok, st, smilesTokenize_render c.spell (lex_chain c h), ?_, h1, h2, h3⟩
  rw [← tok_chain c]; exact hp

end ChythonModel.Proofs.C03
