import ChythonModel.Model.IsoStereo
/-!
# C07 — lemmas about the stereo post-filter (`Model/IsoStereo.lean`)

Loop characterisations: the `for … else` loops of the filter pass exactly when every marked element passes its own step;
the filter over a list is `List.filter` as long as nothing raises.
-/
namespace ChythonModel.Proofs.C07
open ChythonModel.Model.Iso ChythonModel.Model.Stereo

/-- the mapping is yielded -/
def keeps (q : Graph) (qm : QMarks) (tl : TLabels) (m : Dict) : Bool :=
  match keepMapping q qm tl m with
  | .ok true => true
  | _ => false

theorem keeps_iff (q : Graph) (qm : QMarks) (tl : TLabels) (m : Dict) :
    keeps q qm tl m = true ↔ keepMapping q qm tl m = .ok true := by
  unfold keeps
  split
  · simp [*]
  · rename_i h
    constructor
    · intro h'; cases h'
    · intro h'; exact absurd h' (h)

theorem atomsPass_true_iff (q : Graph) (qm : QMarks) (tl : TLabels) (m : Dict) (l : List Nat) :
    atomsPass q qm tl m l = .ok true ↔
      ∀ n ∈ l, ∀ mark, qm.atom n = some mark → atomStep q tl m n mark = .ok true := by
  induction l with
  | nil => simp [atomsPass]
  | cons n rest ih =>
    unfold atomsPass
    cases hq : qm.atom n with
    | none => simp [ih, hq]
    | some mark =>
      simp only [List.mem_cons, forall_eq_or_imp, hq, Option.some.injEq, forall_eq']
      cases hs : atomStep q tl m n mark with
      | error e => simp
      | ok b => cases b <;> simp [ih]

theorem bondsPass_true_iff (q : Graph) (qm : QMarks) (tl : TLabels) (m : Dict) (l : List (Nat × Nat)) :
    bondsPass q qm tl m l = .ok true ↔
      ∀ b ∈ l, ∀ mark, qm.bond b.1 b.2 = some mark → bondStep q tl m b.1 b.2 mark = .ok true := by
  induction l with
  | nil => simp [bondsPass]
  | cons b rest ih =>
    obtain ⟨n, k⟩ := b
    unfold bondsPass
    cases hq : qm.bond n k with
    | none => simp [ih, hq]
    | some mark =>
      simp only [List.mem_cons, forall_eq_or_imp, hq, Option.some.injEq, forall_eq']
      cases hs : bondStep q tl m n k mark with
      | error e => simp
      | ok b => cases b <;> simp [ih]

theorem keepMapping_true_iff' (q : Graph) (qm : QMarks) (tl : TLabels) (m : Dict) :
    keepMapping q qm tl m = .ok true ↔
      (∀ n ∈ q.atoms, ∀ mark, qm.atom n = some mark → atomStep q tl m n mark = .ok true) ∧
      (∀ b ∈ bondsOf q, ∀ mark, qm.bond b.1 b.2 = some mark → bondStep q tl m b.1 b.2 mark = .ok true) := by
  rw [← atomsPass_true_iff, ← bondsPass_true_iff]
  unfold keepMapping
  cases atomsPass q qm tl m q.atoms with
  | error e => simp
  | ok b => cases b <;> simp

theorem atomsPass_no_marks (q : Graph) (qm : QMarks) (tl : TLabels) (m : Dict) (l : List Nat)
    (h : ∀ n ∈ l, qm.atom n = none) : atomsPass q qm tl m l = .ok true := by
  rw [atomsPass_true_iff]
  intro n hn mark hm
  rw [h n hn] at hm
  cases hm

theorem bondsPass_no_marks (q : Graph) (qm : QMarks) (tl : TLabels) (m : Dict) (l : List (Nat × Nat))
    (h : ∀ b ∈ l, qm.bond b.1 b.2 = none) : bondsPass q qm tl m l = .ok true := by
  rw [bondsPass_true_iff]
  intro b hb mark hm
  rw [h b hb] at hm
  cases hm

/-- as long as no mapping raises, the post-filter is `List.filter` -/
theorem stereoFilter_ok (q : Graph) (qm : QMarks) (tl : TLabels) (ms r : List Dict)
    (h : stereoFilter q qm tl ms = .ok r) :
    r = ms.filter (keeps q qm tl) ∧ ∀ m ∈ ms, ∃ b, keepMapping q qm tl m = .ok b := by
  induction ms generalizing r with
  | nil => simp [stereoFilter] at h; simp [h]
  | cons m rest ih =>
    unfold stereoFilter at h
    cases hk : keepMapping q qm tl m with
    | error e => simp [hk] at h
    | ok b =>
      simp only [hk] at h
      cases hr : stereoFilter q qm tl rest with
      | error e => simp [hr] at h
      | ok r' =>
        simp only [hr, Except.ok.injEq] at h
        obtain ⟨e1, e2⟩ := ih r' hr
        refine ⟨?_, ?_⟩
        · rw [← h, List.filter_cons]
          cases b <;> simp [keeps, hk, e1]
        · intro x hx
          rcases List.mem_cons.1 hx with rfl | hx
          · exact ⟨b, hk⟩
          · exact e2 x hx

/-- the post-filter ends normally iff no mapping of the underlying search makes a step raise -/
theorem stereoFilter_total (q : Graph) (qm : QMarks) (tl : TLabels) (ms : List Dict)
    (h : ∀ m ∈ ms, ∃ b, keepMapping q qm tl m = .ok b) : ∃ r, stereoFilter q qm tl ms = .ok r := by
  induction ms with
  | nil => exact ⟨[], rfl⟩
  | cons m rest ih =>
    obtain ⟨b, hb⟩ := h m (List.mem_cons_self ..)
    obtain ⟨r, hr⟩ := ih (fun x hx => h x (List.mem_cons_of_mem _ hx))
    exact ⟨if b then m :: r else r, by simp [stereoFilter, hb, hr]⟩

/-- the first raising mapping decides the exception -/
theorem stereoFilter_error (q : Graph) (qm : QMarks) (tl : TLabels) (ms : List Dict) (e : PyErr)
    (h : stereoFilter q qm tl ms = .error e) : ∃ m ∈ ms, ∃ e', keepMapping q qm tl m = .error e' := by
  induction ms generalizing e with
  | nil => simp [stereoFilter] at h
  | cons m rest ih =>
    unfold stereoFilter at h
    cases hk : keepMapping q qm tl m with
    | error e' => exact ⟨m, List.mem_cons_self .., e', hk⟩
    | ok b =>
      simp only [hk] at h
      cases hr : stereoFilter q qm tl rest with
      | error e'' =>
        obtain ⟨x, hx, e', he'⟩ := ih _ hr
        exact ⟨x, List.mem_cons_of_mem _ hx, e', he'⟩
      | ok r' => simp [hr] at h

end ChythonModel.Proofs.C07
