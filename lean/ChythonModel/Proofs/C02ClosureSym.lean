import ChythonModel.Proofs.C02ChainSym
import ChythonModel.Proofs.C02ReadOk
/-!
# C02 — the bond symbols read at the two ends of a ring closure are `_format_bond(a, b)` and `_format_bond(b, a)`

* `tokenEventsS` / `pairAllS`: the closure events of a token list with the bond symbol pending in front of the digit, and
  the reader's closure table on them (`rrun_eventsS`, `readToks_closuresS`);
* `pairAllS_mapKeys`: renaming the keys by a function that never confuses a key with an open one keeps pairs and symbols;
* `pairAllS_mem`: both ends of a pair carry the same key;
* writer side (`emit_eventsS`, `tokenEventsS_rounds`): the events of the written text are, atom by atom, the sorted closure
  entries `(partner, cycle)` with `formatBond atom partner` in front (symmetric closures);
* `closure_symbols_sym`.
-/
namespace ChythonModel.Proofs.C02
open ChythonModel.Model ChythonModel.Model.SmilesWriter ChythonModel.Model.C02RT

/-! ## reader side -/

abbrev SEv := Nat × Nat × Option Str

def pairStepS (opened : List (Nat × Nat × Option Str)) (ev : SEv) :
    List (Nat × Nat × Option Str) × List (Nat × Nat × Option Str × Option Str) :=
  match opened.lookup ev.2.1 with
  | some (a, s1) => (opened.filter (fun p => p.1 != ev.2.1), [(a, ev.1, s1, ev.2.2)])
  | none => (opened ++ [(ev.2.1, ev.1, ev.2.2)], [])

def pairAllS : List (Nat × Nat × Option Str) → List SEv →
    List (Nat × Nat × Option Str) × List (Nat × Nat × Option Str × Option Str)
  | opened, [] => (opened, [])
  | opened, ev :: evs =>
    let r1 := pairStepS opened ev
    let r2 := pairAllS r1.1 evs
    (r2.1, r1.2 ++ r2.2)

/-- closure events with the bond symbol pending in front of the digit (`pending` as in `rstep`) -/
def tokenEventsS : Option Nat → List Nat → Option Str → List WTok → List SEv
  | _, _, _, [] => []
  | _, stk, _, .atom n _ :: ts => tokenEventsS (some n) stk none ts
  | prev, stk, pend, .closure c :: ts =>
    (match prev with | some p => [(p, c, pend)] | none => []) ++ tokenEventsS prev stk none ts
  | prev, stk, pend, .lpar :: ts => tokenEventsS prev (match prev with | some p => p :: stk | none => stk) pend ts
  | prev, stk, pend, .rpar :: ts =>
    match stk with
    | p :: tl => tokenEventsS (some p) tl pend ts
    | [] => tokenEventsS prev [] pend ts
  | prev, stk, _, .bond s :: ts => tokenEventsS prev stk (some s) ts
  | prev, stk, pend, .dot :: ts => tokenEventsS prev stk pend ts

def closureEdgesS (es : List REdge) : List (Nat × Nat × Option Str × Option Str) :=
  (es.filter (·.closure)).map fun e => (e.a, e.b, e.s1, e.s2)

theorem rrun_eventsS : ∀ (ts : List WTok) (st st' : RState), rrun st ts = .ok st' →
    ∃ new, st'.edges = new.reverse ++ st.edges ∧
      pairAllS st.opened (tokenEventsS st.prev st.stack st.pending ts) = (st'.opened, closureEdgesS new) := by
  intro ts
  induction ts with
  | nil =>
    intro st st' h
    simp only [rrun, Except.ok.injEq] at h
    subst h
    exact ⟨[], by simp, by simp [tokenEventsS, pairAllS, closureEdgesS]⟩
  | cons t tl ih =>
    intro st st' h
    simp only [rrun] at h
    split at h
    · cases h
    · rename_i st1 hstep
      obtain ⟨new, hnew, hp⟩ := ih st1 st' h
      cases t with
      | atom n a =>
        simp only [rstep, Except.ok.injEq] at hstep
        subst hstep
        simp only at hnew hp
        cases hpv : st.prev with
        | none =>
          simp only [hpv] at hnew
          exact ⟨new, hnew, by simpa [tokenEventsS] using hp⟩
        | some p =>
          cases had : st.afterDot with
          | true => simp only [hpv, had] at hnew; exact ⟨new, hnew, by simpa [tokenEventsS] using hp⟩
          | false =>
            simp only [hpv, had] at hnew
            refine ⟨{ a := p, b := n, closure := false, s1 := none, s2 := st.pending } :: new, by simp [hnew], ?_⟩
            simp only [tokenEventsS]
            rw [hp]; simp [closureEdgesS]
      | bond s =>
        simp only [rstep] at hstep
        split at hstep
        · cases hstep
        · simp only [Except.ok.injEq] at hstep
          subst hstep
          exact ⟨new, hnew, by simpa [tokenEventsS] using hp⟩
      | closure c =>
        simp only [rstep] at hstep
        split at hstep
        · cases hstep
        · rename_i cur hcur
          split at hstep
          · rename_i a s1 hl
            split at hstep
            · cases hstep
            · simp only [Except.ok.injEq] at hstep
              subst hstep
              simp only at hnew hp
              rw [hcur] at hp
              refine ⟨{ a := a, b := cur, closure := true, s1 := s1, s2 := st.pending } :: new, by simp [hnew], ?_⟩
              simp only [tokenEventsS, hcur, List.singleton_append, pairAllS, pairStepS, hl]
              rw [hp]; simp [closureEdgesS]
          · rename_i hl
            simp only [Except.ok.injEq] at hstep
            subst hstep
            simp only at hnew hp
            rw [hcur] at hp
            refine ⟨new, hnew, ?_⟩
            simp only [tokenEventsS, hcur, List.singleton_append, pairAllS, pairStepS, hl]
            rw [hp]; simp
      | lpar =>
        simp only [rstep] at hstep
        split at hstep
        · cases hstep
        · rename_i p hpv
          split at hstep
          · cases hstep
          · simp only [Except.ok.injEq] at hstep
            subst hstep
            exact ⟨new, hnew, by simpa [tokenEventsS, hpv] using hp⟩
      | rpar =>
        simp only [rstep] at hstep
        split at hstep
        · cases hstep
        · rename_i p stk hs
          split at hstep
          · cases hstep
          · simp only [Except.ok.injEq] at hstep
            subst hstep
            exact ⟨new, hnew, by simpa [tokenEventsS, hs] using hp⟩
      | dot =>
        simp only [rstep, Except.ok.injEq] at hstep
        subst hstep
        exact ⟨new, hnew, by simpa [tokenEventsS] using hp⟩

/-- the closure bonds read by `readToks`, with the symbols of both ends, are what `pairAllS` makes of the events -/
theorem readToks_closuresS (ts : List WTok) (es : List REdge) (h : readToks ts = .ok es) :
    pairAllS [] (tokenEventsS none [] none ts) = ([], closureEdgesS es) := by
  unfold readToks at h
  split at h
  · cases h
  · rename_i st hrun
    split at h
    · cases h
    · split at h
      · cases h
      · rename_i hop
        split at h
        · cases h
        · simp only [Except.ok.injEq] at h
          obtain ⟨new, hnew, hp⟩ := rrun_eventsS ts {} st hrun
          have hop' : st.opened = [] := by simpa using hop
          simp only [hop'] at hp
          simp only at hnew
          rw [hp, ← h, hnew]; simp

/-! ## both ends of a pair carry the same key -/

theorem lookup_mem_S : ∀ (o : List (Nat × Nat × Option Str)) (c : Nat) (v : Nat × Option Str),
    o.lookup c = some v → (c, v) ∈ o := by
  intro o
  induction o with
  | nil => intro c v h; simp at h
  | cons p tl ih =>
    intro c v h
    obtain ⟨k, w⟩ := p
    simp only [List.lookup] at h
    split at h
    · rename_i heq
      have : c = k := by simpa using heq
      simp only [Option.some.injEq] at h
      subst h; subst this; simp
    · exact List.mem_cons_of_mem _ (ih c v h)

theorem pairAllS_mem : ∀ (evs : List SEv) (opened : List (Nat × Nat × Option Str))
    (x : Nat × Nat × Option Str × Option Str), x ∈ (pairAllS opened evs).2 →
      ∃ c, ((c, x.1, x.2.2.1) ∈ opened ∨ (x.1, c, x.2.2.1) ∈ evs) ∧ (x.2.1, c, x.2.2.2) ∈ evs := by
  intro evs
  induction evs with
  | nil => intro opened x h; simp [pairAllS] at h
  | cons ev tl ih =>
    intro opened x h
    obtain ⟨n, c, s⟩ := ev
    simp only [pairAllS, List.mem_append] at h
    rcases h with h | h
    · simp only [pairStepS] at h
      split at h
      · rename_i a s1 hl
        simp only [List.mem_singleton] at h
        subst h
        exact ⟨c, Or.inl (lookup_mem_S _ _ _ hl), by simp⟩
      · simp at h
    · obtain ⟨c', h1, h2⟩ := ih _ x h
      refine ⟨c', ?_, List.mem_cons_of_mem _ h2⟩
      rcases h1 with h1 | h1
      · simp only [pairStepS] at h1
        split at h1
        · exact Or.inl (List.mem_filter.1 h1).1
        · rcases List.mem_append.1 h1 with h1 | h1
          · exact Or.inl h1
          · simp only [List.mem_singleton, Prod.mk.injEq] at h1
            obtain ⟨rfl, e1, e2⟩ := h1
            exact Or.inr (by rw [e1, e2]; simp)
      · exact Or.inr (List.mem_cons_of_mem _ h1)

/-! ## renaming the keys -/

def mapKeysS (f : Nat → Nat) (o : List (Nat × Nat × Option Str)) : List (Nat × Nat × Option Str) :=
  o.map fun p => (f p.1, p.2)

def forgetS (e : SEv) : Nat × Nat := (e.1, e.2.1)

theorem keysOf_openPairs (o : List (Nat × Nat × Option Str)) : keysOf (openPairs o) = o.map (·.1) := by
  simp [keysOf, openPairs]

theorem lookup_mapKeysS (f : Nat → Nat) (c : Nat) : ∀ (opened : List (Nat × Nat × Option Str)),
    (∀ k ∈ opened.map (·.1), f k = f c → k = c) → (mapKeysS f opened).lookup (f c) = opened.lookup c := by
  intro opened
  induction opened with
  | nil => intro _; rfl
  | cons p tl ih =>
    intro h
    have ih' := ih (fun k hk => h k (by simp at hk ⊢; exact Or.inr hk))
    simp only [mapKeysS, List.map_cons, List.lookup] at ih' ⊢
    by_cases hc : c = p.1
    · subst hc; simp
    · have : f c ≠ f p.1 := by
        intro e; exact hc (h p.1 (by simp) e.symm).symm
      have e1 : (f c == f p.1) = false := by simp [this]
      have e2 : (c == p.1) = false := by simp [hc]
      simp only [e1, e2]
      exact ih'

theorem filter_mapKeysS (f : Nat → Nat) (c : Nat) : ∀ (opened : List (Nat × Nat × Option Str)),
    (∀ k ∈ opened.map (·.1), f k = f c → k = c) →
    (mapKeysS f opened).filter (fun p => p.1 != f c) = mapKeysS f (opened.filter (fun p => p.1 != c)) := by
  intro opened
  induction opened with
  | nil => intro _; rfl
  | cons p tl ih =>
    intro h
    have ih' := ih (fun k hk => h k (by simp at hk ⊢; exact Or.inr hk))
    simp only [mapKeysS, List.map_cons, List.filter_cons] at ih' ⊢
    by_cases hc : p.1 = c
    · simp [hc, ih']
    · have : f p.1 ≠ f c := fun e => hc (h p.1 (by simp) e)
      simp [hc, this, ih']

theorem pairStepS_mapKeys (f : Nat → Nat) (opened : List (Nat × Nat × Option Str)) (ev : SEv)
    (h : ∀ k ∈ opened.map (·.1), f k = f ev.2.1 → k = ev.2.1) :
    pairStepS (mapKeysS f opened) (ev.1, f ev.2.1, ev.2.2) =
      (mapKeysS f (pairStepS opened ev).1, (pairStepS opened ev).2) := by
  simp only [pairStepS, lookup_mapKeysS f ev.2.1 opened h]
  cases opened.lookup ev.2.1 with
  | none => simp [mapKeysS]
  | some a => simp [filter_mapKeysS f ev.2.1 opened h]

theorem openPairs_pairStepS (opened : List (Nat × Nat × Option Str)) (ev : SEv) :
    openPairs (pairStepS opened ev).1 = (pairStep (openPairs opened) (forgetS ev)).1 := by
  simp only [pairStepS, pairStep, forgetS, lookup_openPairs]
  cases opened.lookup ev.2.1 with
  | none => simp [openPairs]
  | some a => simp [filter_openPairs]

theorem pairAllS_mapKeys (f : Nat → Nat) : ∀ (evs : List SEv) (opened : List (Nat × Nat × Option Str)),
    InjRun f (openPairs opened) (evs.map forgetS) →
    pairAllS (mapKeysS f opened) (evs.map fun e => (e.1, f e.2.1, e.2.2)) =
      (mapKeysS f (pairAllS opened evs).1, (pairAllS opened evs).2) := by
  intro evs
  induction evs with
  | nil => intro opened _; rfl
  | cons ev tl ih =>
    intro opened h
    simp only [List.map_cons, InjRun] at h
    obtain ⟨h1, h2⟩ := h
    rw [keysOf_openPairs] at h1
    simp only [List.map_cons, pairAllS, pairStepS_mapKeys f opened ev h1]
    rw [← openPairs_pairStepS] at h2
    rw [ih _ h2]

/-- forgetting the symbols gives the plain events and the plain pairing -/
theorem tokenEventsS_forget : ∀ (ts : List WTok) prev stk pend,
    (tokenEventsS prev stk pend ts).map forgetS = tokenEvents prev stk ts := by
  intro ts
  induction ts with
  | nil => intro _ _ _; rfl
  | cons t tl ih =>
    intro prev stk pend
    cases t with
    | atom n a => simp [tokenEventsS, tokenEvents, ih]
    | bond s => simp [tokenEventsS, tokenEvents, ih]
    | closure c => cases prev <;> simp [tokenEventsS, tokenEvents, ih, forgetS]
    | lpar => cases prev <;> simp [tokenEventsS, tokenEvents, ih]
    | rpar => cases stk <;> simp [tokenEventsS, tokenEvents, ih]
    | dot => simp [tokenEventsS, tokenEvents, ih]

/-! ## writer side (symmetric closures) -/

/-- written closure digit: `(atom, number, cycle id, partner, symbol in front)` -/
abbrev WEv := Nat × Nat × Nat × Nat × Option Str

def symOf (m : Mol) (opts : Opts) (sc : SCtx) (n k : Nat) : Option Str :=
  match formatBond m opts sc n k with
  | .ok s => some s
  | .error _ => none

def atomW (m : Mol) (opts : Opts) (sc : SCtx) (casted : List (Nat × Nat)) (tokens : List (Nat × List (Nat × Nat)))
    (n : Nat) : List WEv :=
  match sortedClosures casted tokens n with
  | .ok cl => cl.map fun kc => (n, (casted.lookup kc.2).getD 0, kc.2, kc.1, symOf m opts sc n kc.1)
  | .error _ => []

def smiW (m : Mol) (opts : Opts) (sc : SCtx) (casted : List (Nat × Nat)) (tokens : List (Nat × List (Nat × Nat)))
    (smi : List FTok) : List WEv :=
  smi.flatMap fun t => match t with
    | .atom n => atomW m opts sc casted tokens n
    | _ => []

def wS (w : WEv) : SEv := (w.1, w.2.1, w.2.2.2.2)

theorem emitClosures_eventsS (m : Mol) (opts : Opts) (hasym : opts.asym = false) (sc : SCtx) (casted : List (Nat × Nat))
    (n : Nat) : ∀ (cl vb : List (Nat × Nat)) cts vb', emitClosures m opts sc casted n cl vb = .ok (cts, vb') →
      (∀ kc ∈ cl, ∃ s, symOf m opts sc n kc.1 = some s) ∧
      ∀ stk R, tokenEventsS (some n) stk none (cts ++ R) =
        cl.map (fun kc => (n, (casted.lookup kc.2).getD 0, symOf m opts sc n kc.1)) ++ tokenEventsS (some n) stk none R := by
  intro cl
  induction cl with
  | nil => intro vb cts vb' h; simp [emitClosures] at h; simp [h.1]
  | cons kc tl ih =>
    intro vb cts vb' h
    obtain ⟨k, c⟩ := kc
    simp only [emitClosures] at h
    split at h
    · cases h
    · rename_i num hnum
      split at h
      · cases h
      · rename_i bt vb1 hb
        split at h
        · cases h
        · rename_i rest' vb2 hr
          simp only [Except.ok.injEq, Prod.mk.injEq] at h
          obtain ⟨ih1, ih2⟩ := ih vb1 rest' vb2 hr
          simp only [closureBond, hasym, Bool.false_eq_true, if_false] at hb
          split at hb
          · cases hb
          · rename_i b hfb
            simp only [Except.ok.injEq, Prod.mk.injEq] at hb
            have hso : symOf m opts sc n k = some b := by simp [symOf, hfb]
            refine ⟨?_, ?_⟩
            · intro kc hkc
              rcases List.mem_cons.1 hkc with rfl | hkc
              · exact ⟨b, hso⟩
              · exact ih1 kc hkc
            · intro stk R
              rw [← h.1, ← hb.1]
              simp [tokenEventsS, ih2, hnum, hso]

theorem emit_eventsS (m : Mol) (opts : Opts) (hasym : opts.asym = false) (sc : SCtx) (casted : List (Nat × Nat))
    (tokens : List (Nat × List (Nat × Nat))) :
    ∀ (smi : List FTok) vb out order vb', emit m opts sc casted tokens smi vb = .ok (out, order, vb') →
      (∀ w ∈ smiW m opts sc casted tokens smi, ∃ s, w.2.2.2.2 = some s) ∧
      ∀ prev stk pend R, ∃ prev' stk' pend', tokenEventsS prev stk pend (out ++ R) =
        (smiW m opts sc casted tokens smi).map wS ++ tokenEventsS prev' stk' pend' R := by
  intro smi
  induction smi with
  | nil =>
    intro vb out order vb' h
    simp [emit] at h
    refine ⟨by simp [smiW], ?_⟩
    intro prev stk pend R
    exact ⟨prev, stk, pend, by simp [h.1, smiW]⟩
  | cons t tl ih =>
    intro vb out order vb' h
    cases t with
    | atom n =>
      simp only [emit] at h
      split at h
      · cases h
      · split at h
        · cases h
        · rename_i cl hcl
          split at h
          · cases h
          · rename_i cts vb1 hc
            split at h
            · cases h
            · rename_i rest order' vb2 hr
              simp only [Except.ok.injEq, Prod.mk.injEq] at h
              obtain ⟨g1, g2⟩ := ih _ _ _ _ hr
              obtain ⟨c1, c2⟩ := emitClosures_eventsS m opts hasym sc casted n _ _ _ _ hc
              refine ⟨?_, ?_⟩
              · intro w hw
                simp only [smiW, List.flatMap_cons, List.mem_append] at hw
                rcases hw with hw | hw
                · simp only [atomW, hcl, List.mem_map] at hw
                  obtain ⟨kc, hkc, rfl⟩ := hw
                  exact c1 kc hkc
                · exact g1 w hw
              · intro prev stk pend R
                obtain ⟨p', s', pd', hih⟩ := g2 (some n) stk none R
                refine ⟨p', s', pd', ?_⟩
                rw [← h.1]
                simp only [List.cons_append, tokenEventsS, List.append_assoc]
                rw [c2, hih]
                simp [smiW, atomW, hcl, wS, Function.comp_def]
    | bond a b =>
      simp only [emit] at h
      split at h
      · cases h
      · split at h
        · cases h
        · rename_i rest order' vb2 hr
          simp only [Except.ok.injEq, Prod.mk.injEq] at h
          obtain ⟨g1, g2⟩ := ih _ _ _ _ hr
          refine ⟨by simpa [smiW] using g1, ?_⟩
          intro prev stk pend R
          rename_i sb _ _
          obtain ⟨p', s', pd', hih⟩ := g2 prev stk (some sb) R
          refine ⟨p', s', pd', ?_⟩
          rw [← h.1]
          simpa [smiW, tokenEventsS] using hih
    | lpar =>
      simp only [emit] at h
      split at h
      · cases h
      · rename_i rest order' vb2 hr
        simp only [Except.ok.injEq, Prod.mk.injEq] at h
        obtain ⟨g1, g2⟩ := ih _ _ _ _ hr
        refine ⟨by simpa [smiW] using g1, ?_⟩
        intro prev stk pend R
        rw [← h.1]
        cases prev with
        | none =>
          obtain ⟨p', s', pd', hih⟩ := g2 none stk pend R
          exact ⟨p', s', pd', by simpa [smiW, tokenEventsS] using hih⟩
        | some p =>
          obtain ⟨p', s', pd', hih⟩ := g2 (some p) (p :: stk) pend R
          exact ⟨p', s', pd', by simpa [smiW, tokenEventsS] using hih⟩
    | rpar =>
      simp only [emit] at h
      split at h
      · cases h
      · rename_i rest order' vb2 hr
        simp only [Except.ok.injEq, Prod.mk.injEq] at h
        obtain ⟨g1, g2⟩ := ih _ _ _ _ hr
        refine ⟨by simpa [smiW] using g1, ?_⟩
        intro prev stk pend R
        rw [← h.1]
        cases stk with
        | nil =>
          obtain ⟨p', s', pd', hih⟩ := g2 prev [] pend R
          exact ⟨p', s', pd', by simpa [smiW, tokenEventsS] using hih⟩
        | cons p stk2 =>
          obtain ⟨p', s', pd', hih⟩ := g2 (some p) stk2 pend R
          exact ⟨p', s', pd', by simpa [smiW, tokenEventsS] using hih⟩

def roundW (m : Mol) (opts : Opts) (r : Round) : List WEv := smiW m opts r.sc r.castedOut r.tokens r.smi

theorem tokenEventsS_rounds (m : Mol) (opts : Opts) (hasym : opts.asym = false) : ∀ (rs : List Round),
    (∀ r ∈ rs, RoundSpec m opts r) →
    ∀ prev stk pend, tokenEventsS prev stk pend (joinRounds rs) = (rs.flatMap (roundW m opts)).map wS := by
  intro rs
  induction rs with
  | nil => intro _ prev stk pend; simp [joinRounds, tokenEventsS]
  | cons r tl ih =>
    intro hall prev stk pend
    obtain ⟨order, vb', he⟩ := (hall r (by simp)).emitted
    obtain ⟨_, g2⟩ := emit_eventsS m opts hasym r.sc r.castedOut r.tokens r.smi r.vbIn r.out order vb' he
    cases tl with
    | nil =>
      obtain ⟨p', s', pd', h1⟩ := g2 prev stk pend []
      simp only [List.append_nil] at h1
      simp [joinRounds, h1, tokenEventsS, roundW]
    | cons r2 tl2 =>
      obtain ⟨p', s', pd', h1⟩ := g2 prev stk pend (WTok.dot :: joinRounds (r2 :: tl2))
      simp only [joinRounds, h1, List.flatMap_cons]
      have := ih (fun r' hr' => hall r' (by simp [hr'])) p' s' pd'
      simp only [List.flatMap_cons] at this
      simp [tokenEventsS, this, roundW]

/-! ## the written digits are the closure records -/

def wC (w : WEv) : Nat × Nat := (w.1, w.2.2.1)
def wX (w : WEv) : SEv := (w.1, w.2.2.1, w.2.2.2.2)

theorem sortedClosures_perm_alGet (casted : List (Nat × Nat)) (tokens : List (Nat × List (Nat × Nat)))
    (n : Nat) (cl : List (Nat × Nat)) (h : sortedClosures casted tokens n = .ok cl) : cl.Perm (alGet tokens n) := by
  unfold sortedClosures at h
  split at h
  · cases h
  · rename_i l hl
    simp only [Except.ok.injEq] at h
    obtain ⟨h1, _⟩ := mapM_lookup_fst casted _ l hl
    rw [← h, ← h1]
    exact (sortBy_perm _ l).map _

theorem atomW_of_not_alHas (m : Mol) (opts : Opts) (sc : SCtx) (casted : List (Nat × Nat))
    (tokens : List (Nat × List (Nat × Nat))) (n : Nat) (h : alHas tokens n = false) :
    atomW m opts sc casted tokens n = [] := by
  simp [atomW, sortedClosures, alGet_of_not_alHas tokens n h, sortByNat, sortBy]

theorem smiW_closureAtoms (m : Mol) (opts : Opts) (sc : SCtx) (casted : List (Nat × Nat))
    (tokens : List (Nat × List (Nat × Nat))) :
    ∀ smi : List FTok, smiW m opts sc casted tokens smi =
      (closureAtoms smi tokens).flatMap (atomW m opts sc casted tokens) := by
  intro smi
  induction smi with
  | nil => rfl
  | cons t tl ih =>
    simp only [smiW] at ih
    cases t with
    | atom n =>
      simp only [smiW, List.flatMap_cons, ih, closureAtoms, List.filterMap_cons]
      by_cases hh : alHas tokens n = true
      · simp [hh]
      · simp [hh, atomW_of_not_alHas m opts sc casted tokens n (by simpa using hh)]
    | bond a b => simpa [closureAtoms, smiW] using ih
    | lpar => simpa [closureAtoms, smiW] using ih
    | rpar => simpa [closureAtoms, smiW] using ih

theorem roundW_cycleEvents (m : Mol) (opts : Opts) (r : Round) : (roundW m opts r).map wC = cycleEvents r := by
  rw [roundW, smiW_closureAtoms, List.map_flatMap, cycleEvents]
  apply flatMap_congr'
  intro n _
  simp only [atomW]
  cases sortedClosures r.castedOut r.tokens n with
  | error e => rfl
  | ok cl => simp [wC, Function.comp_def]

theorem roundW_mem {m : Mol} {opts : Opts} {r : Round} (hF : RoundFacts m r) (w : WEv) (hw : w ∈ roundW m opts r) :
    (w.1, w.2.2.2.1, w.2.2.1) ∈ cycT r.tokens ∧ w.2.2.2.2 = symOf m opts r.sc w.1 w.2.2.2.1 := by
  rw [roundW, smiW_closureAtoms] at hw
  obtain ⟨n, _, hw⟩ := List.mem_flatMap.1 hw
  simp only [atomW] at hw
  cases hcl : sortedClosures r.castedOut r.tokens n with
  | error e => rw [hcl] at hw; simp at hw
  | ok cl =>
    rw [hcl] at hw
    obtain ⟨kc, hkc, rfl⟩ := List.mem_map.1 hw
    refine ⟨?_, rfl⟩
    have := (sortedClosures_perm_alGet _ _ _ _ hcl).mem_iff.1 hkc
    exact (mem_alGet_iff hF.cyc n kc.1 kc.2).1 this

theorem nodup_flatMap_same {α β} (f : α → List β) : ∀ (l : List α), (l.flatMap f).Nodup →
    ∀ x ∈ l, ∀ y ∈ l, ∀ z, z ∈ f x → z ∈ f y → x = y := by
  intro l
  induction l with
  | nil => intro _ x hx; cases hx
  | cons a tl ih =>
    intro hn x hx y hy z hzx hzy
    simp only [List.flatMap_cons] at hn
    have hd := (List.nodup_append.1 hn).2.2
    rcases List.mem_cons.1 hx with ex | hx' <;> rcases List.mem_cons.1 hy with ey | hy'
    · rw [ex, ey]
    · rw [ex] at hzx
      exact absurd rfl (hd z hzx z (List.mem_flatMap.2 ⟨y, hy', hzy⟩))
    · rw [ey] at hzy
      exact absurd rfl (hd z hzy z (List.mem_flatMap.2 ⟨x, hx', hzx⟩))
    · exact ih (List.nodup_append.1 hn).2.1 x hx' y hy' z hzx hzy

/-! ## the theorem -/

theorem symOf_ok {m : Mol} {opts : Opts} {sc : SCtx} {a b : Nat} {s : Str} (h : symOf m opts sc a b = some s) :
    formatBond m opts sc a b = .ok s := by
  unfold symOf at h
  split at h
  · rename_i s' hs'; simp only [Option.some.injEq] at h; rw [hs', h]
  · cases h

/-- symmetric closures: the symbol read in front of the opening digit of a ring closure is `_format_bond(a, b)`, the symbol
    in front of the closing digit is `_format_bond(b, a)` (same round) -/
theorem closure_symbols_sym (m : Mol) (env : Env) (opts : Opts) (rs : List Round) (order : List Nat)
    (hwf : m.WF = true) (h : smilesRounds m env opts = .ok (rs, order)) (hasym : opts.asym = false)
    (es : List REdge) (hes : readToks (joinRounds rs) = .ok es) :
    ∀ e ∈ es, e.closure = true →
      ∃ r ∈ rs, ∃ s1, formatBond m opts r.sc e.a e.b = .ok s1 ∧ e.s1 = some s1 ∧
        (opts.asym = false ∧ ∃ s2, formatBond m opts r.sc e.b e.a = .ok s2 ∧ e.s2 = some s2) := by
  intro e he hc
  obtain ⟨hD, _⟩ := smilesRounds_dfs hwf h
  obtain ⟨hs, _⟩ := smilesRounds_spec m env opts rs order h
  obtain ⟨G, _, _, F⟩ := roundsDfs_gfacts hwf rs m.ids 0 hD
  obtain ⟨hcw, _, hevp⟩ := roundsDfs_structure (opts := opts) hwf rs m.ids 0 hD hs
  obtain ⟨f, hev, hinj, _, _⟩ := writer_facts m env opts rs order h hcw
  have hTS := tokenEventsS_rounds m opts hasym rs hs none [] none
  have hWC : (rs.flatMap (roundW m opts)).map wC = rs.flatMap cycleEvents := by
    rw [List.map_flatMap]
    exact flatMap_congr' _ _ _ fun r _ => roundW_cycleEvents m opts r
  -- the written number is `f` of the cycle id
  have hnum : ∀ w ∈ rs.flatMap (roundW m opts), w.2.1 = f w.2.2.1 := by
    have e1 : tokenEvents none [] (joinRounds rs) = (rs.flatMap (roundW m opts)).map (fun w => (w.1, w.2.1)) := by
      rw [← tokenEventsS_forget _ none [] none, hTS, List.map_map]
      rfl
    rw [hev, ← hWC, List.map_map] at e1
    intro w hw
    have := (List.map_inj_left.1 e1) w hw
    simp only [Function.comp, wC, Prod.mk.injEq] at this
    exact this.2.symm
  have hX : (rs.flatMap (roundW m opts)).map wS =
      ((rs.flatMap (roundW m opts)).map wX).map fun e => (e.1, f e.2.1, e.2.2) := by
    rw [List.map_map]
    apply List.map_congr_left
    intro w hw
    simp only [Function.comp, wS, wX, hnum w hw]
  have hXf : ((rs.flatMap (roundW m opts)).map wX).map forgetS = rs.flatMap cycleEvents := by
    rw [← hWC, List.map_map]; rfl
  -- reader side
  have hR := readToks_closuresS _ _ hes
  rw [hTS, hX] at hR
  have hM := pairAllS_mapKeys f ((rs.flatMap (roundW m opts)).map wX) [] (by
    rw [hXf]; simpa [openPairs] using hinj)
  simp only [mapKeysS, List.map_nil] at hM
  rw [hM] at hR
  have hmem : (e.a, e.b, e.s1, e.s2) ∈ (pairAllS [] ((rs.flatMap (roundW m opts)).map wX)).2 := by
    have : (e.a, e.b, e.s1, e.s2) ∈ closureEdgesS es := by
      simp only [closureEdgesS, List.mem_map, List.mem_filter]
      exact ⟨e, ⟨he, hc⟩, rfl⟩
    rw [← (Prod.mk.inj hR).2] at this
    exact this
  obtain ⟨c, h1, h2⟩ := pairAllS_mem _ _ _ hmem
  simp only [List.not_mem_nil, false_or] at h1
  obtain ⟨w1, hw1, e1⟩ := List.mem_map.1 h1
  obtain ⟨w2, hw2, e2⟩ := List.mem_map.1 h2
  obtain ⟨r1, hr1, hwr1⟩ := List.mem_flatMap.1 hw1
  obtain ⟨r2, hr2, hwr2⟩ := List.mem_flatMap.1 hw2
  obtain ⟨m1, y1⟩ := roundW_mem (F r1 hr1) w1 hwr1
  obtain ⟨m2, y2⟩ := roundW_mem (F r2 hr2) w2 hwr2
  obtain ⟨o1, v1, he1⟩ := (hs r1 hr1).emitted
  obtain ⟨o2, v2, he2⟩ := (hs r2 hr2).emitted
  obtain ⟨g1, _⟩ := emit_eventsS m opts hasym r1.sc r1.castedOut r1.tokens r1.smi r1.vbIn r1.out o1 v1 he1
  obtain ⟨g2, _⟩ := emit_eventsS m opts hasym r2.sc r2.castedOut r2.tokens r2.smi r2.vbIn r2.out o2 v2 he2
  obtain ⟨t1, ht1⟩ := g1 w1 hwr1
  obtain ⟨t2, ht2⟩ := g2 w2 hwr2
  simp only [wX, Prod.mk.injEq] at e1 e2
  obtain ⟨a1, a2, a3⟩ := e1
  obtain ⟨b1, b2, b3⟩ := e2
  rw [a1, a2] at m1
  rw [b1, b2] at m2
  -- the two ends differ
  have hne : e.a ≠ e.b := by
    have hcl := (writer_closures m env opts rs order h hcw es hes).1
    have : (e.a, e.b) ∈ closureEdges es := by
      simp only [closureEdges, List.mem_map, List.mem_filter]
      exact ⟨e, ⟨he, hc⟩, rfl⟩
    rw [hcl] at this
    obtain ⟨k, hk⟩ := closure_bond_is_record G _ hevp _ _ this
    exact (G.cMem _ _ _ hk).2.1
  have M1 : (e.a, w1.2.2.2.1, c) ∈ rs.flatMap fun r => cycT r.tokens := List.mem_flatMap.2 ⟨r1, hr1, m1⟩
  have M2 : (e.b, w2.2.2.2.1, c) ∈ rs.flatMap fun r => cycT r.tokens := List.mem_flatMap.2 ⟨r2, hr2, m2⟩
  rcases G.cId _ _ _ _ _ M1 M2 with ⟨q1, _⟩ | ⟨q1, q2⟩
  · exact absurd q1.symm hne
  · -- same round
    rw [← q1] at m1
    rw [q2] at m2
    have m1' := ((F r1 hr1).cyc.symm _ _ _ m1).1
    have hrr : r1 = r2 := nodup_flatMap_same _ rs G.cNodup r1 hr1 r2 hr2 _ m1' m2
    subst hrr
    rw [a1, ← q1] at y1
    rw [b1, q2] at y2
    refine ⟨r1, hr1, t1, symOf_ok (by rw [← y1, ht1]), by rw [← a3, ht1], hasym, t2,
      symOf_ok (by rw [← y2, ht2]), by rw [← b3, ht2]⟩

/-- the goal statement under `asym = false` -/
theorem closure_symbols_of_sym (m : Mol) (env : Env) (opts : Opts) (rs : List Round) (order : List Nat)
    (hwf : m.WF = true) (h : smilesRounds m env opts = .ok (rs, order)) (hasym : opts.asym = false)
    (es : List REdge) (hes : readToks (joinRounds rs) = .ok es) :
    ∀ e ∈ es, e.closure = true →
      ∃ r ∈ rs, ∃ s1, formatBond m opts r.sc e.a e.b = .ok s1 ∧ e.s1 = some s1 ∧
        ((opts.asym = false ∧ ∃ s2, formatBond m opts r.sc e.b e.a = .ok s2 ∧ e.s2 = some s2) ∨
         (opts.asym = true ∧ e.s2 = none)) := by
  intro e he hc
  obtain ⟨r, hr, s1, g1, g2, g3⟩ := closure_symbols_sym m env opts rs order hwf h hasym es hes e he hc
  exact ⟨r, hr, s1, g1, g2, Or.inl g3⟩

/-! ## the same assembly for any description `W` of the written digits (basis for the asymmetric case) -/

/-- if `W` lists the written closure digits `(atom, number, cycle, partner, symbol in front)` in written order, every
    digit being a closure record of some round with property `P`, then every closure bond read back is made of two
    digits of one round and one cycle that name each other as partner -/
theorem closure_assembly (m : Mol) (env : Env) (opts : Opts) (rs : List Round) (order : List Nat)
    (hwf : m.WF = true) (h : smilesRounds m env opts = .ok (rs, order))
    (es : List REdge) (hes : readToks (joinRounds rs) = .ok es) (W : List WEv) (P : Round → WEv → Prop)
    (hTS : tokenEventsS none [] none (joinRounds rs) = W.map wS)
    (hWC : W.map wC = rs.flatMap cycleEvents)
    (hW : ∀ w ∈ W, ∃ r ∈ rs, (w.1, w.2.2.2.1, w.2.2.1) ∈ cycT r.tokens ∧ P r w) :
    ∀ e ∈ es, e.closure = true →
      ∃ r ∈ rs, ∃ n1 n2 c, (e.a, n1, c, e.b, e.s1) ∈ W ∧ (e.b, n2, c, e.a, e.s2) ∈ W ∧
        P r (e.a, n1, c, e.b, e.s1) ∧ P r (e.b, n2, c, e.a, e.s2) := by
  intro e he hc
  obtain ⟨hD, _⟩ := smilesRounds_dfs hwf h
  obtain ⟨hs, _⟩ := smilesRounds_spec m env opts rs order h
  obtain ⟨G, _, _, F⟩ := roundsDfs_gfacts hwf rs m.ids 0 hD
  obtain ⟨hcw, _, hevp⟩ := roundsDfs_structure (opts := opts) hwf rs m.ids 0 hD hs
  obtain ⟨f, hev, hinj, _, _⟩ := writer_facts m env opts rs order h hcw
  have hnum : ∀ w ∈ W, w.2.1 = f w.2.2.1 := by
    have e1 : tokenEvents none [] (joinRounds rs) = W.map (fun w => (w.1, w.2.1)) := by
      rw [← tokenEventsS_forget _ none [] none, hTS, List.map_map]
      rfl
    rw [hev, ← hWC, List.map_map] at e1
    intro w hw
    have := (List.map_inj_left.1 e1) w hw
    simp only [Function.comp, wC, Prod.mk.injEq] at this
    exact this.2.symm
  have hX : W.map wS = (W.map wX).map fun e => (e.1, f e.2.1, e.2.2) := by
    rw [List.map_map]
    apply List.map_congr_left
    intro w hw
    simp only [Function.comp, wS, wX, hnum w hw]
  have hXf : (W.map wX).map forgetS = rs.flatMap cycleEvents := by
    rw [← hWC, List.map_map]; rfl
  have hR := readToks_closuresS _ _ hes
  rw [hTS, hX] at hR
  have hM := pairAllS_mapKeys f (W.map wX) [] (by rw [hXf]; simpa [openPairs] using hinj)
  simp only [mapKeysS, List.map_nil] at hM
  rw [hM] at hR
  have hmem : (e.a, e.b, e.s1, e.s2) ∈ (pairAllS [] (W.map wX)).2 := by
    have : (e.a, e.b, e.s1, e.s2) ∈ closureEdgesS es := by
      simp only [closureEdgesS, List.mem_map, List.mem_filter]
      exact ⟨e, ⟨he, hc⟩, rfl⟩
    rw [← (Prod.mk.inj hR).2] at this
    exact this
  obtain ⟨c, h1, h2⟩ := pairAllS_mem _ _ _ hmem
  simp only [List.not_mem_nil, false_or] at h1
  obtain ⟨w1, hw1, e1⟩ := List.mem_map.1 h1
  obtain ⟨w2, hw2, e2⟩ := List.mem_map.1 h2
  obtain ⟨r1, hr1, m1, p1⟩ := hW w1 hw1
  obtain ⟨r2, hr2, m2, p2⟩ := hW w2 hw2
  obtain ⟨x1, x2, x3, x4, x5⟩ := w1
  obtain ⟨z1, z2, z3, z4, z5⟩ := w2
  simp only [wX, Prod.mk.injEq] at e1 e2
  obtain ⟨a1, a2, a3⟩ := e1
  obtain ⟨b1, b2, b3⟩ := e2
  simp only at m1 m2
  subst a1 a2 a3 b1 b3
  rw [b2] at m2 hw2 p2
  have hne : e.a ≠ e.b := by
    have hcl := (writer_closures m env opts rs order h hcw es hes).1
    have : (e.a, e.b) ∈ closureEdges es := by
      simp only [closureEdges, List.mem_map, List.mem_filter]
      exact ⟨e, ⟨he, hc⟩, rfl⟩
    rw [hcl] at this
    obtain ⟨k, hk⟩ := closure_bond_is_record G _ hevp _ _ this
    exact (G.cMem _ _ _ hk).2.1
  have M1 : (e.a, x4, x3) ∈ rs.flatMap fun r => cycT r.tokens := List.mem_flatMap.2 ⟨r1, hr1, m1⟩
  have M2 : (e.b, z4, x3) ∈ rs.flatMap fun r => cycT r.tokens := List.mem_flatMap.2 ⟨r2, hr2, m2⟩
  rcases G.cId _ _ _ _ _ M1 M2 with ⟨q1, _⟩ | ⟨q1, q2⟩
  · exact absurd q1.symm hne
  · subst q2
    rw [← q1] at m1 hw1 p1
    have m1' := ((F r1 hr1).cyc.symm _ _ _ m1).1
    have hrr : r1 = r2 := nodup_flatMap_same _ rs G.cNodup r1 hr1 r2 hr2 _ m1' m2
    subst hrr
    exact ⟨r1, hr1, x2, z2, x3, hw1, hw2, p1, p2⟩

/-! ## writer side with `visited_bond` threaded (any options) -/

/-- the digits of one atom as `emitClosures` writes them, with the `visited_bond` list threaded -/
def closW (m : Mol) (opts : Opts) (sc : SCtx) (casted : List (Nat × Nat)) (n : Nat) :
    List (Nat × Nat) → List (Nat × Nat) → List WEv × List (Nat × Nat)
  | [], vb => ([], vb)
  | (k, c) :: tl, vb =>
    if opts.asym && vb.contains (n, k) then
      ((n, (casted.lookup c).getD 0, c, k, none) :: (closW m opts sc casted n tl vb).1, (closW m opts sc casted n tl vb).2)
    else
      ((n, (casted.lookup c).getD 0, c, k, symOf m opts sc n k) ::
          (closW m opts sc casted n tl (if opts.asym then (k, n) :: vb else vb)).1,
        (closW m opts sc casted n tl (if opts.asym then (k, n) :: vb else vb)).2)

def emitW (m : Mol) (opts : Opts) (sc : SCtx) (casted : List (Nat × Nat)) (tokens : List (Nat × List (Nat × Nat))) :
    List FTok → List (Nat × Nat) → List WEv × List (Nat × Nat)
  | [], vb => ([], vb)
  | .atom n :: tl, vb =>
    match sortedClosures casted tokens n with
    | .ok cl =>
      ((closW m opts sc casted n cl vb).1 ++ (emitW m opts sc casted tokens tl (closW m opts sc casted n cl vb).2).1,
        (emitW m opts sc casted tokens tl (closW m opts sc casted n cl vb).2).2)
    | .error _ => emitW m opts sc casted tokens tl vb
  | .bond _ _ :: tl, vb => emitW m opts sc casted tokens tl vb
  | .lpar :: tl, vb => emitW m opts sc casted tokens tl vb
  | .rpar :: tl, vb => emitW m opts sc casted tokens tl vb

def wK (w : WEv) : Nat × Nat × Nat := (w.1, w.2.2.1, w.2.2.2.1)

/-- a written symbol is absent or `formatBond atom partner` -/
def WeakSym (m : Mol) (opts : Opts) (sc : SCtx) (w : WEv) : Prop :=
  w.2.2.2.2 = none ∨ ∃ s, w.2.2.2.2 = some s ∧ formatBond m opts sc w.1 w.2.2.2.1 = .ok s

theorem emitClosures_eventsA (m : Mol) (opts : Opts) (sc : SCtx) (casted : List (Nat × Nat))
    (n : Nat) : ∀ (cl vb : List (Nat × Nat)) cts vb', emitClosures m opts sc casted n cl vb = .ok (cts, vb') →
      vb' = (closW m opts sc casted n cl vb).2 ∧
      (∀ w ∈ (closW m opts sc casted n cl vb).1, WeakSym m opts sc w) ∧
      ∀ stk R, tokenEventsS (some n) stk none (cts ++ R) =
        (closW m opts sc casted n cl vb).1.map wS ++ tokenEventsS (some n) stk none R := by
  intro cl
  induction cl with
  | nil => intro vb cts vb' h; simp [emitClosures] at h; simp [h.1, h.2, closW]
  | cons kc tl ih =>
    intro vb cts vb' h
    obtain ⟨k, c⟩ := kc
    simp only [emitClosures] at h
    split at h
    · cases h
    · rename_i num hnum
      split at h
      · cases h
      · rename_i bt vb1 hb
        split at h
        · cases h
        · rename_i rest' vb2 hr
          simp only [Except.ok.injEq, Prod.mk.injEq] at h
          obtain ⟨ih0, ih1, ih2⟩ := ih vb1 rest' vb2 hr
          unfold closureBond at hb
          split at hb
          · rename_i has
            split at hb
            · rename_i hcont
              simp only [Except.ok.injEq, Prod.mk.injEq] at hb
              obtain ⟨hb1, hb2⟩ := hb
              subst hb1 hb2
              have hcond : (opts.asym && vb.contains (n, k)) = true := by rw [has, hcont]; rfl
              simp only [closW, hcond, if_true]
              refine ⟨by rw [← h.2, ih0], ?_, ?_⟩
              · intro w hw
                rcases List.mem_cons.1 hw with rfl | hw
                · exact Or.inl rfl
                · exact ih1 w hw
              · intro stk R
                rw [← h.1]
                simp [tokenEventsS, ih2, hnum, wS]
            · rename_i hcont
              split at hb
              · cases hb
              · rename_i b hfb
                simp only [Except.ok.injEq, Prod.mk.injEq] at hb
                obtain ⟨hb1, hb2⟩ := hb
                subst hb1 hb2
                have hcf : vb.contains (n, k) = false := Bool.eq_false_iff.2 hcont
                have hso : symOf m opts sc n k = some b := by simp [symOf, hfb]
                simp only [closW, has, hcf, Bool.true_and, Bool.false_eq_true, if_false, if_true]
                refine ⟨by rw [← h.2, ih0], ?_, ?_⟩
                · intro w hw
                  rcases List.mem_cons.1 hw with rfl | hw
                  · exact Or.inr ⟨b, hso, hfb⟩
                  · exact ih1 w hw
                · intro stk R
                  rw [← h.1]
                  simp [tokenEventsS, ih2, hnum, wS, hso]
          · rename_i has
            split at hb
            · cases hb
            · rename_i b hfb
              simp only [Except.ok.injEq, Prod.mk.injEq] at hb
              obtain ⟨hb1, hb2⟩ := hb
              subst hb1 hb2
              have has' : opts.asym = false := by simpa using has
              have hso : symOf m opts sc n k = some b := by simp [symOf, hfb]
              simp only [closW, has', Bool.false_and, Bool.false_eq_true, if_false]
              refine ⟨by rw [← h.2, ih0], ?_, ?_⟩
              · intro w hw
                rcases List.mem_cons.1 hw with rfl | hw
                · exact Or.inr ⟨b, hso, hfb⟩
                · exact ih1 w hw
              · intro stk R
                rw [← h.1]
                simp [tokenEventsS, ih2, hnum, wS, hso]

theorem emit_eventsA (m : Mol) (opts : Opts) (sc : SCtx) (casted : List (Nat × Nat))
    (tokens : List (Nat × List (Nat × Nat))) :
    ∀ (smi : List FTok) vb out order vb', emit m opts sc casted tokens smi vb = .ok (out, order, vb') →
      vb' = (emitW m opts sc casted tokens smi vb).2 ∧
      (∀ w ∈ (emitW m opts sc casted tokens smi vb).1, WeakSym m opts sc w) ∧
      ∀ prev stk pend R, ∃ prev' stk' pend', tokenEventsS prev stk pend (out ++ R) =
        (emitW m opts sc casted tokens smi vb).1.map wS ++ tokenEventsS prev' stk' pend' R := by
  intro smi
  induction smi with
  | nil =>
    intro vb out order vb' h
    simp [emit] at h
    refine ⟨by simp [emitW, h.2.2], by simp [emitW], ?_⟩
    intro prev stk pend R
    exact ⟨prev, stk, pend, by simp [h.1, emitW]⟩
  | cons t tl ih =>
    intro vb out order vb' h
    cases t with
    | atom n =>
      simp only [emit] at h
      split at h
      · cases h
      · split at h
        · cases h
        · rename_i cl hcl
          split at h
          · cases h
          · rename_i cts vb1 hc
            split at h
            · cases h
            · rename_i rest order' vb2 hr
              simp only [Except.ok.injEq, Prod.mk.injEq] at h
              obtain ⟨c0, c1, c2⟩ := emitClosures_eventsA m opts sc casted n _ _ _ _ hc
              subst c0
              obtain ⟨g0, g1, g2⟩ := ih _ _ _ _ hr
              simp only [emitW, hcl]
              refine ⟨by rw [← h.2.2, g0], ?_, ?_⟩
              · intro w hw
                rcases List.mem_append.1 hw with hw | hw
                · exact c1 w hw
                · exact g1 w hw
              · intro prev stk pend R
                obtain ⟨p', s', pd', hih⟩ := g2 (some n) stk none R
                refine ⟨p', s', pd', ?_⟩
                rw [← h.1]
                simp only [List.cons_append, tokenEventsS, List.append_assoc]
                rw [c2, hih]
                simp
    | bond a b =>
      simp only [emit] at h
      split at h
      · cases h
      · split at h
        · cases h
        · rename_i rest order' vb2 hr
          simp only [Except.ok.injEq, Prod.mk.injEq] at h
          obtain ⟨g0, g1, g2⟩ := ih _ _ _ _ hr
          simp only [emitW]
          refine ⟨by rw [← h.2.2, g0], g1, ?_⟩
          intro prev stk pend R
          rename_i sb _ _
          obtain ⟨p', s', pd', hih⟩ := g2 prev stk (some sb) R
          refine ⟨p', s', pd', ?_⟩
          rw [← h.1]
          simpa [tokenEventsS] using hih
    | lpar =>
      simp only [emit] at h
      split at h
      · cases h
      · rename_i rest order' vb2 hr
        simp only [Except.ok.injEq, Prod.mk.injEq] at h
        obtain ⟨g0, g1, g2⟩ := ih _ _ _ _ hr
        simp only [emitW]
        refine ⟨by rw [← h.2.2, g0], g1, ?_⟩
        intro prev stk pend R
        rw [← h.1]
        cases prev with
        | none =>
          obtain ⟨p', s', pd', hih⟩ := g2 none stk pend R
          exact ⟨p', s', pd', by simpa [tokenEventsS] using hih⟩
        | some p =>
          obtain ⟨p', s', pd', hih⟩ := g2 (some p) (p :: stk) pend R
          exact ⟨p', s', pd', by simpa [tokenEventsS] using hih⟩
    | rpar =>
      simp only [emit] at h
      split at h
      · cases h
      · rename_i rest order' vb2 hr
        simp only [Except.ok.injEq, Prod.mk.injEq] at h
        obtain ⟨g0, g1, g2⟩ := ih _ _ _ _ hr
        simp only [emitW]
        refine ⟨by rw [← h.2.2, g0], g1, ?_⟩
        intro prev stk pend R
        rw [← h.1]
        cases stk with
        | nil =>
          obtain ⟨p', s', pd', hih⟩ := g2 prev [] pend R
          exact ⟨p', s', pd', by simpa [tokenEventsS] using hih⟩
        | cons p stk2 =>
          obtain ⟨p', s', pd', hih⟩ := g2 (some p) stk2 pend R
          exact ⟨p', s', pd', by simpa [tokenEventsS] using hih⟩

theorem closW_wK (m : Mol) (opts : Opts) (sc : SCtx) (casted : List (Nat × Nat)) (n : Nat) :
    ∀ (cl vb : List (Nat × Nat)), (closW m opts sc casted n cl vb).1.map wK = cl.map fun kc => (n, kc.2, kc.1) := by
  intro cl
  induction cl with
  | nil => intro vb; rfl
  | cons kc tl ih =>
    intro vb
    obtain ⟨k, c⟩ := kc
    simp only [closW]
    split <;> simp [wK, ih]

theorem emitW_wK (m : Mol) (opts : Opts) (sc : SCtx) (casted : List (Nat × Nat)) (tokens : List (Nat × List (Nat × Nat))) :
    ∀ (smi : List FTok) (vb : List (Nat × Nat)),
      (emitW m opts sc casted tokens smi vb).1.map wK = (smiW m opts sc casted tokens smi).map wK := by
  intro smi
  induction smi with
  | nil => intro vb; rfl
  | cons t tl ih =>
    intro vb
    have ih' := ih
    simp only [smiW] at ih'
    cases t with
    | atom n =>
      cases hcl : sortedClosures casted tokens n with
      | error e => simp [emitW, smiW, atomW, hcl, ih']
      | ok cl => simp [emitW, smiW, atomW, hcl, ih', closW_wK, wK, Function.comp_def]
    | bond a b => simpa [emitW, smiW] using ih' vb
    | lpar => simpa [emitW, smiW] using ih' vb
    | rpar => simpa [emitW, smiW] using ih' vb

def roundWA (m : Mol) (opts : Opts) (r : Round) : List WEv := (emitW m opts r.sc r.castedOut r.tokens r.smi r.vbIn).1

theorem tokenEventsA_rounds (m : Mol) (opts : Opts) : ∀ (rs : List Round),
    (∀ r ∈ rs, RoundSpec m opts r) →
    ∀ prev stk pend, tokenEventsS prev stk pend (joinRounds rs) = (rs.flatMap (roundWA m opts)).map wS := by
  intro rs
  induction rs with
  | nil => intro _ prev stk pend; simp [joinRounds, tokenEventsS]
  | cons r tl ih =>
    intro hall prev stk pend
    obtain ⟨order, vb', he⟩ := (hall r (by simp)).emitted
    obtain ⟨_, _, g2⟩ := emit_eventsA m opts r.sc r.castedOut r.tokens r.smi r.vbIn r.out order vb' he
    cases tl with
    | nil =>
      obtain ⟨p', s', pd', h1⟩ := g2 prev stk pend []
      simp only [List.append_nil] at h1
      simp [joinRounds, h1, tokenEventsS, roundWA]
    | cons r2 tl2 =>
      obtain ⟨p', s', pd', h1⟩ := g2 prev stk pend (WTok.dot :: joinRounds (r2 :: tl2))
      simp only [joinRounds, h1, List.flatMap_cons]
      have := ih (fun r' hr' => hall r' (by simp [hr'])) p' s' pd'
      simp only [List.flatMap_cons] at this
      simp [tokenEventsS, this, roundWA]

/-- any options: at each end of a ring closure the symbol read is absent or `_format_bond` of that end towards the
    other (same round for both ends) -/
theorem closure_symbols_weak (m : Mol) (env : Env) (opts : Opts) (rs : List Round) (order : List Nat)
    (hwf : m.WF = true) (h : smilesRounds m env opts = .ok (rs, order))
    (es : List REdge) (hes : readToks (joinRounds rs) = .ok es) :
    ∀ e ∈ es, e.closure = true →
      ∃ r ∈ rs, (e.s1 = none ∨ ∃ s, e.s1 = some s ∧ formatBond m opts r.sc e.a e.b = .ok s) ∧
        (e.s2 = none ∨ ∃ s, e.s2 = some s ∧ formatBond m opts r.sc e.b e.a = .ok s) := by
  intro e he hc
  obtain ⟨hD, _⟩ := smilesRounds_dfs hwf h
  obtain ⟨hs, _⟩ := smilesRounds_spec m env opts rs order h
  obtain ⟨G, _, _, F⟩ := roundsDfs_gfacts hwf rs m.ids 0 hD
  have hK : ∀ r, (roundWA m opts r).map wK = (roundW m opts r).map wK := fun r =>
    emitW_wK m opts r.sc r.castedOut r.tokens r.smi r.vbIn
  have hWC : (rs.flatMap (roundWA m opts)).map wC = rs.flatMap cycleEvents := by
    rw [List.map_flatMap]
    apply flatMap_congr'
    intro r _
    have e1 : ∀ l : List WEv, l.map wC = (l.map wK).map fun t => (t.1, t.2.1) := by
      intro l; rw [List.map_map]; rfl
    rw [e1, hK r, ← e1, roundW_cycleEvents]
  obtain ⟨r, hr, n1, n2, c, _, _, p1, p2⟩ := closure_assembly m env opts rs order hwf h es hes
    (rs.flatMap (roundWA m opts)) (fun r w => WeakSym m opts r.sc w)
    (tokenEventsA_rounds m opts rs hs none [] none) hWC (by
      intro w hw
      obtain ⟨r, hr, hwr⟩ := List.mem_flatMap.1 hw
      obtain ⟨order', vb', hem⟩ := (hs r hr).emitted
      obtain ⟨_, g1, _⟩ := emit_eventsA m opts r.sc r.castedOut r.tokens r.smi r.vbIn r.out order' vb' hem
      refine ⟨r, hr, ?_, g1 w hwr⟩
      have : wK w ∈ (roundW m opts r).map wK := by rw [← hK r]; exact List.mem_map_of_mem hwr
      obtain ⟨w', hw', ew⟩ := List.mem_map.1 this
      have := (roundW_mem (F r hr) w' hw').1
      simp only [wK, Prod.mk.injEq] at ew
      rw [ew.1, ew.2.1, ew.2.2] at this
      exact this) e he hc
  exact ⟨r, hr, p1, p2⟩

/-! ## `visited_bond` is handed from round to round (needed for the asymmetric case) -/

def VbChained (m : Mol) (opts : Opts) : List (Nat × Nat) → List Round → Prop
  | _, [] => True
  | v, r :: rs => r.vbIn = v ∧ VbChained m opts (emitW m opts r.sc r.castedOut r.tokens r.smi r.vbIn).2 rs

theorem finishRound_vb {m env opts g start seen d r order g'}
    (h : finishRound m env opts g start seen d = .ok (r, order, g')) :
    r.vbIn = g.visitedBond ∧ g'.visitedBond = (emitW m opts r.sc r.castedOut r.tokens r.smi r.vbIn).2 := by
  unfold finishRound at h
  simp only at h
  split at h
  · cases h
  · rename_i casted heap hc
    split at h
    · cases h
    · rename_i adjacency _
      split at h
      · cases h
      · rename_i out order' vb he
        simp only [Except.ok.injEq, Prod.mk.injEq] at h
        obtain ⟨rfl, _, rfl⟩ := h
        exact ⟨rfl, (emit_eventsA m opts _ _ _ _ _ _ _ _ he).1⟩

theorem rounds_vb (m : Mol) (env : Env) (opts : Opts) (groups : List (Int × Int)) :
    ∀ (fuel : Nat) (g : Global) rs order, rounds m env opts groups fuel g = .ok (rs, order) →
      VbChained m opts g.visitedBond rs := by
  intro fuel
  induction fuel with
  | zero => intro g rs order h; simp [rounds] at h
  | succ f ih =>
    intro g rs order h
    simp only [rounds] at h
    split at h
    · cases h
    · rename_i r order1 g' h1
      have hs : r.vbIn = g.visitedBond ∧
          g'.visitedBond = (emitW m opts r.sc r.castedOut r.tokens r.smi r.vbIn).2 := by
        unfold oneRound at h1
        split at h1
        · cases h1
        · exact finishRound_vb h1
      split at h
      · simp only [Except.ok.injEq, Prod.mk.injEq] at h
        obtain ⟨rfl, _⟩ := h
        exact ⟨hs.1, trivial⟩
      · split at h
        · cases h
        · rename_i rs' order' h2
          simp only [Except.ok.injEq, Prod.mk.injEq] at h
          obtain ⟨rfl, _⟩ := h
          exact ⟨hs.1, hs.2 ▸ ih g' rs' order' h2⟩

/-- the first round starts with an empty `visited_bond`, every later round with what the previous one left -/
theorem smilesRounds_vb (m : Mol) (env : Env) (opts : Opts) (rs : List Round) (order : List Nat)
    (h : smilesRounds m env opts = .ok (rs, order)) : VbChained m opts [] rs := by
  unfold smilesRounds at h
  split at h
  · simp only [Except.ok.injEq, Prod.mk.injEq] at h
    obtain ⟨rfl, _⟩ := h
    trivial
  · split at h
    · cases h
    · exact rounds_vb m env opts _ _ _ _ _ h

/-! ## asymmetric closures: the digits as one run over the flat list of entries -/

/-- `closW`/`emitW` on the flat list of entries (`roundW`: every digit with its would-be symbol), `asym = true` -/
def runW : List WEv → List (Nat × Nat) → List WEv × List (Nat × Nat)
  | [], vb => ([], vb)
  | w :: tl, vb =>
    if vb.contains (w.1, w.2.2.2.1) then
      ((w.1, w.2.1, w.2.2.1, w.2.2.2.1, none) :: (runW tl vb).1, (runW tl vb).2)
    else (w :: (runW tl ((w.2.2.2.1, w.1) :: vb)).1, (runW tl ((w.2.2.2.1, w.1) :: vb)).2)

/-- every digit that is not skipped has a symbol -/
def GoodRun : List WEv → List (Nat × Nat) → Prop
  | [], _ => True
  | w :: tl, vb =>
    if vb.contains (w.1, w.2.2.2.1) then GoodRun tl vb
    else w.2.2.2.2 ≠ none ∧ GoodRun tl ((w.2.2.2.1, w.1) :: vb)

theorem runW_append : ∀ (A B : List WEv) (vb : List (Nat × Nat)),
    runW (A ++ B) vb = ((runW A vb).1 ++ (runW B (runW A vb).2).1, (runW B (runW A vb).2).2) := by
  intro A
  induction A with
  | nil => intro B vb; simp [runW]
  | cons w tl ih =>
    intro B vb
    simp only [List.cons_append, runW]
    split <;> simp [ih]

theorem GoodRun_append : ∀ (A B : List WEv) (vb : List (Nat × Nat)),
    GoodRun A vb → GoodRun B (runW A vb).2 → GoodRun (A ++ B) vb := by
  intro A
  induction A with
  | nil => intro B vb _ h; simpa [runW] using h
  | cons w tl ih =>
    intro B vb h1 h2
    simp only [List.cons_append, GoodRun, runW] at h1 h2 ⊢
    split
    · rename_i hc
      simp only [hc, if_true] at h1 h2
      exact ih B vb h1 h2
    · rename_i hc
      simp only [hc, Bool.false_eq_true, if_false] at h1 h2
      exact ⟨h1.1, ih B _ h1.2 h2⟩

def entW (m : Mol) (opts : Opts) (sc : SCtx) (casted : List (Nat × Nat)) (n : Nat) (kc : Nat × Nat) : WEv :=
  (n, (casted.lookup kc.2).getD 0, kc.2, kc.1, symOf m opts sc n kc.1)

theorem closW_runW (m : Mol) (opts : Opts) (hasym : opts.asym = true) (sc : SCtx) (casted : List (Nat × Nat)) (n : Nat) :
    ∀ (cl vb : List (Nat × Nat)), closW m opts sc casted n cl vb = runW (cl.map (entW m opts sc casted n)) vb := by
  intro cl
  induction cl with
  | nil => intro vb; rfl
  | cons kc tl ih =>
    intro vb
    obtain ⟨k, c⟩ := kc
    simp only [closW, hasym, Bool.true_and, if_true, List.map_cons, runW, entW, ih]

theorem emitClosures_good (m : Mol) (opts : Opts) (hasym : opts.asym = true) (sc : SCtx) (casted : List (Nat × Nat))
    (n : Nat) : ∀ (cl vb : List (Nat × Nat)) cts vb', emitClosures m opts sc casted n cl vb = .ok (cts, vb') →
      GoodRun (cl.map (entW m opts sc casted n)) vb := by
  intro cl
  induction cl with
  | nil => intro vb cts vb' h; trivial
  | cons kc tl ih =>
    intro vb cts vb' h
    obtain ⟨k, c⟩ := kc
    simp only [emitClosures] at h
    split at h
    · cases h
    · split at h
      · cases h
      · rename_i bt vb1 hb
        split at h
        · cases h
        · rename_i rest' vb2 hr
          have ih' := ih vb1 rest' vb2 hr
          simp only [closureBond, hasym, if_true] at hb
          simp only [List.map_cons, GoodRun, entW]
          split at hb
          · rename_i hcont
            simp only [Except.ok.injEq, Prod.mk.injEq] at hb
            rw [← hb.2] at ih'
            simp only [hcont, if_true]
            exact ih'
          · rename_i hcont
            split at hb
            · cases hb
            · rename_i b hfb
              simp only [Except.ok.injEq, Prod.mk.injEq] at hb
              rw [← hb.2] at ih'
              have hcf : vb.contains (n, k) = false := Bool.eq_false_iff.2 hcont
              simp only [hcf, Bool.false_eq_true, if_false]
              exact ⟨by simp [symOf, hfb], ih'⟩

theorem atomW_entW (m : Mol) (opts : Opts) (sc : SCtx) (casted : List (Nat × Nat)) (tokens : List (Nat × List (Nat × Nat)))
    (n : Nat) (cl : List (Nat × Nat)) (h : sortedClosures casted tokens n = .ok cl) :
    atomW m opts sc casted tokens n = cl.map (entW m opts sc casted n) := by
  simp only [atomW, h]; rfl

theorem emit_runW (m : Mol) (opts : Opts) (hasym : opts.asym = true) (sc : SCtx) (casted : List (Nat × Nat))
    (tokens : List (Nat × List (Nat × Nat))) :
    ∀ (smi : List FTok) vb out order vb', emit m opts sc casted tokens smi vb = .ok (out, order, vb') →
      emitW m opts sc casted tokens smi vb = runW (smiW m opts sc casted tokens smi) vb ∧
      GoodRun (smiW m opts sc casted tokens smi) vb := by
  intro smi
  induction smi with
  | nil => intro vb out order vb' h; exact ⟨rfl, trivial⟩
  | cons t tl ih =>
    intro vb out order vb' h
    cases t with
    | atom n =>
      simp only [emit] at h
      split at h
      · cases h
      · split at h
        · cases h
        · rename_i cl hcl
          split at h
          · cases h
          · rename_i cts vb1 hc
            split at h
            · cases h
            · rename_i rest order' vb2 hr
              obtain ⟨c0, _, _⟩ := emitClosures_eventsA m opts sc casted n _ _ _ _ hc
              have cg := emitClosures_good m opts hasym sc casted n _ _ _ _ hc
              obtain ⟨g1, g2⟩ := ih _ _ _ _ hr
              have e : smiW m opts sc casted tokens (FTok.atom n :: tl) =
                  cl.map (entW m opts sc casted n) ++ smiW m opts sc casted tokens tl := by
                simp only [smiW, List.flatMap_cons, atomW_entW m opts sc casted tokens n cl hcl]
              rw [e, runW_append]
              rw [closW_runW m opts hasym] at c0
              refine ⟨?_, GoodRun_append _ _ _ cg (c0 ▸ g2)⟩
              simp only [emitW, hcl, closW_runW m opts hasym]
              rw [c0] at g1
              rw [g1]
    | bond a b =>
      simp only [emit] at h
      split at h
      · cases h
      · split at h
        · cases h
        · rename_i rest order' vb2 hr
          simpa [emitW, smiW] using ih _ _ _ _ hr
    | lpar =>
      simp only [emit] at h
      split at h
      · cases h
      · rename_i rest order' vb2 hr
        simpa [emitW, smiW] using ih _ _ _ _ hr
    | rpar =>
      simp only [emit] at h
      split at h
      · cases h
      · rename_i rest order' vb2 hr
        simpa [emitW, smiW] using ih _ _ _ _ hr

theorem rounds_runW (m : Mol) (opts : Opts) (hasym : opts.asym = true) : ∀ (rs : List Round) (v : List (Nat × Nat)),
    (∀ r ∈ rs, RoundSpec m opts r) → VbChained m opts v rs →
      rs.flatMap (roundWA m opts) = (runW (rs.flatMap (roundW m opts)) v).1 ∧ GoodRun (rs.flatMap (roundW m opts)) v := by
  intro rs
  induction rs with
  | nil => intro v _ _; exact ⟨rfl, trivial⟩
  | cons r tl ih =>
    intro v hall hv
    obtain ⟨hv1, hv2⟩ := hv
    obtain ⟨order, vb', he⟩ := (hall r (by simp)).emitted
    obtain ⟨e1, e2⟩ := emit_runW m opts hasym r.sc r.castedOut r.tokens r.smi r.vbIn r.out order vb' he
    rw [e1] at hv2
    obtain ⟨i1, i2⟩ := ih _ (fun r' hr' => hall r' (by simp [hr'])) hv2
    subst hv1
    simp only [List.flatMap_cons, runW_append]
    refine ⟨?_, GoodRun_append _ _ _ e2 i2⟩
    rw [i1]
    simp only [roundWA, e1, roundW]

/-- when a digit of the run is skipped (`none`) and when it is not: it is skipped iff its bond is in `visited_bond`,
    i.e. was there at the start or was pushed by an earlier, not skipped digit of the reverse direction -/
theorem runW_skip : ∀ (L : List WEv) (vb : List (Nat × Nat)), GoodRun L vb →
    ∀ pre w post, (runW L vb).1 = pre ++ w :: post →
      (((w.1, w.2.2.2.1) ∈ vb ∨ ∃ u ∈ pre, u.2.2.2.2 ≠ none ∧ (u.2.2.2.1, u.1) = (w.1, w.2.2.2.1)) →
        w.2.2.2.2 = none) ∧
      ((w.1, w.2.2.2.1) ∉ vb → (∀ u ∈ pre, (u.2.2.2.1, u.1) ≠ (w.1, w.2.2.2.1)) → w.2.2.2.2 ≠ none) := by
  intro L
  induction L with
  | nil => intro vb _ pre w post h; simp [runW] at h
  | cons x tl ih =>
    intro vb hg pre w post h
    simp only [runW, GoodRun] at h hg
    by_cases hc : vb.contains (x.1, x.2.2.2.1) = true
    · simp only [hc, if_true] at h hg
      have hm : (x.1, x.2.2.2.1) ∈ vb := by simpa using hc
      cases pre with
      | nil =>
        simp only [List.nil_append, List.cons.injEq] at h
        obtain ⟨hw, _⟩ := h
        subst hw
        exact ⟨fun _ => rfl, fun hn _ => absurd hm hn⟩
      | cons u0 pre' =>
        simp only [List.cons_append, List.cons.injEq] at h
        obtain ⟨hu0, htl⟩ := h
        obtain ⟨i1, i2⟩ := ih vb hg pre' w post htl
        refine ⟨?_, fun hn hno => i2 hn (fun u hu => hno u (List.mem_cons_of_mem _ hu))⟩
        rintro (hv | ⟨u, hu, hs, he⟩)
        · exact i1 (Or.inl hv)
        · rcases List.mem_cons.1 hu with rfl | hu
          · rw [← hu0] at hs; exact absurd rfl hs
          · exact i1 (Or.inr ⟨u, hu, hs, he⟩)
    · have hcf : vb.contains (x.1, x.2.2.2.1) = false := Bool.eq_false_iff.2 hc
      simp only [hcf, Bool.false_eq_true, if_false] at h hg
      have hm : (x.1, x.2.2.2.1) ∉ vb := by simpa using hcf
      cases pre with
      | nil =>
        simp only [List.nil_append, List.cons.injEq] at h
        obtain ⟨hw, _⟩ := h
        subst hw
        refine ⟨?_, fun _ _ => hg.1⟩
        rintro (hv | ⟨u, hu, _⟩)
        · exact absurd hv hm
        · cases hu
      | cons u0 pre' =>
        simp only [List.cons_append, List.cons.injEq] at h
        obtain ⟨hu0, htl⟩ := h
        obtain ⟨i1, i2⟩ := ih _ hg.2 pre' w post htl
        refine ⟨?_, ?_⟩
        · rintro (hv | ⟨u, hu, hs, he⟩)
          · exact i1 (Or.inl (List.mem_cons_of_mem _ hv))
          · rcases List.mem_cons.1 hu with rfl | hu
            · rw [← hu0] at he
              exact i1 (Or.inl (by rw [← he]; exact List.mem_cons_self))
            · exact i1 (Or.inr ⟨u, hu, hs, he⟩)
        · intro hn hno
          refine i2 ?_ (fun u hu => hno u (List.mem_cons_of_mem _ hu))
          intro hmem
          rcases List.mem_cons.1 hmem with he | hmem
          · exact hno u0 List.mem_cons_self (by rw [← hu0]; exact he.symm)
          · exact hn hmem

/-- asymmetric closures: the symbol in front of the opening digit is `_format_bond(a, b)`, the closing digit has none -/
theorem closure_symbols_asym (m : Mol) (env : Env) (opts : Opts) (rs : List Round) (order : List Nat)
    (hwf : m.WF = true) (h : smilesRounds m env opts = .ok (rs, order)) (hasym : opts.asym = true)
    (es : List REdge) (hes : readToks (joinRounds rs) = .ok es) :
    ∀ e ∈ es, e.closure = true →
      ∃ r ∈ rs, ∃ s1, formatBond m opts r.sc e.a e.b = .ok s1 ∧ e.s1 = some s1 ∧ (opts.asym = true ∧ e.s2 = none) := by
  intro e he hc
  obtain ⟨hD, _⟩ := smilesRounds_dfs hwf h
  obtain ⟨hs, _⟩ := smilesRounds_spec m env opts rs order h
  obtain ⟨G, _, _, F⟩ := roundsDfs_gfacts hwf rs m.ids 0 hD
  obtain ⟨hcw, _, hevp⟩ := roundsDfs_structure (opts := opts) hwf rs m.ids 0 hD hs
  have hK : ∀ r, (roundWA m opts r).map wK = (roundW m opts r).map wK := fun r =>
    emitW_wK m opts r.sc r.castedOut r.tokens r.smi r.vbIn
  have hWC : (rs.flatMap (roundWA m opts)).map wC = rs.flatMap cycleEvents := by
    rw [List.map_flatMap]
    apply flatMap_congr'
    intro r _
    have e1 : ∀ l : List WEv, l.map wC = (l.map wK).map fun t => (t.1, t.2.1) := by
      intro l; rw [List.map_map]; rfl
    rw [e1, hK r, ← e1, roundW_cycleEvents]
  have hW : ∀ w ∈ rs.flatMap (roundWA m opts), ∃ r ∈ rs, (w.1, w.2.2.2.1, w.2.2.1) ∈ cycT r.tokens ∧
      WeakSym m opts r.sc w := by
    intro w hw
    obtain ⟨r, hr, hwr⟩ := List.mem_flatMap.1 hw
    obtain ⟨order', vb', hem⟩ := (hs r hr).emitted
    obtain ⟨_, g1, _⟩ := emit_eventsA m opts r.sc r.castedOut r.tokens r.smi r.vbIn r.out order' vb' hem
    refine ⟨r, hr, ?_, g1 w hwr⟩
    have : wK w ∈ (roundW m opts r).map wK := by rw [← hK r]; exact List.mem_map_of_mem hwr
    obtain ⟨w', hw', ew⟩ := List.mem_map.1 this
    have := (roundW_mem (F r hr) w' hw').1
    simp only [wK, Prod.mk.injEq] at ew
    rw [ew.1, ew.2.1, ew.2.2] at this
    exact this
  have hC : ∀ w ∈ rs.flatMap (roundWA m opts), (w.1, w.2.2.2.1, w.2.2.1) ∈ rs.flatMap fun r => cycT r.tokens := by
    intro w hw
    obtain ⟨r, hr, hm, _⟩ := hW w hw
    exact List.mem_flatMap.2 ⟨r, hr, hm⟩
  obtain ⟨r, hr, n1, n2, c, hw1, hw2, p1, _⟩ := closure_assembly m env opts rs order hwf h es hes
    (rs.flatMap (roundWA m opts)) (fun r w => WeakSym m opts r.sc w)
    (tokenEventsA_rounds m opts rs hs none [] none) hWC hW e he hc
  -- the run
  obtain ⟨hrun, hgood⟩ := rounds_runW m opts hasym rs [] hs (smilesRounds_vb m env opts rs order h)
  have hevp' : ((rs.flatMap (roundWA m opts)).map wC).Perm
      ((rs.flatMap fun r => cycT r.tokens).map fun t => (t.1, t.2.2)) := by rw [hWC]; exact hevp
  have hnd := closure_events_nodup G _ hevp'
  have hinjW := List.inj_on_of_nodup_map hnd
  have hndW : (rs.flatMap (roundWA m opts)).Nodup := hnd.of_map _
  -- the opening digit comes first
  have hab : (e.a, e.b) ∈ (pairAll [] ((rs.flatMap (roundWA m opts)).map wC)).2 := by
    rw [hWC, ← (writer_closures m env opts rs order h hcw es hes).1]
    simp only [closureEdges, List.mem_map, List.mem_filter]
    exact ⟨e, ⟨he, hc⟩, rfl⟩
  obtain ⟨tr, hE, _, _, hsplit⟩ := pairAll_edges_of_counts _ (closure_events_counts G _ hevp')
  rw [← hE] at hab
  obtain ⟨⟨a', b', k⟩, ht, hek⟩ := List.mem_map.1 hab
  simp only [Prod.mk.injEq] at hek
  obtain ⟨rfl, rfl⟩ := hek
  obtain ⟨pre, mid, post, hsp⟩ := hsplit _ ht
  simp only at hsp
  have hrec := closure_split_record G _ hevp' _ _ _ pre mid post hsp
  have hkc : k = c := G.cPair _ _ _ _ hrec (hC _ hw1)
  subst hkc
  rw [List.append_assoc] at hsp
  obtain ⟨A, R1, hWs, hA, hR1⟩ := List.map_eq_append_iff.1 hsp
  simp only [List.cons_append] at hR1
  obtain ⟨u1, R2, hR1s, hu1, hR2⟩ := List.map_eq_cons_iff.1 hR1
  obtain ⟨B, R3, hR2s, hB, hR3⟩ := List.map_eq_append_iff.1 hR2
  obtain ⟨u2, D, hR3s, hu2, hD'⟩ := List.map_eq_cons_iff.1 hR3
  subst hR1s hR2s hR3s
  have hu1m : u1 ∈ rs.flatMap (roundWA m opts) := by rw [hWs]; simp
  have hu2m : u2 ∈ rs.flatMap (roundWA m opts) := by rw [hWs]; simp
  have e1 : u1 = (e.a, n1, k, e.b, e.s1) := hinjW hu1m hw1 (by rw [hu1]; rfl)
  have e2 : u2 = (e.b, n2, k, e.a, e.s2) := hinjW hu2m hw2 (by rw [hu2]; rfl)
  subst e1 e2
  rw [hrun] at hWs
  -- the opening digit is not skipped
  have hs1 : e.s1 ≠ none := by
    refine (runW_skip _ [] hgood A _ _ hWs).2 (by simp) ?_
    intro u hu heq
    simp only [Prod.mk.injEq] at heq
    have hum : u ∈ rs.flatMap (roundWA m opts) := by rw [hrun, hWs]; simp [hu]
    have hur := hC u hum
    rw [heq.1, heq.2] at hur
    have hkk : u.2.2.1 = k := G.cPair _ _ _ _ hur (hC _ hw2)
    have : u = (e.b, n2, k, e.a, e.s2) := hinjW hum hw2 (by simp only [wC, heq.2, hkk])
    rw [hrun, hWs] at hndW
    have hdis := (List.nodup_append.1 hndW).2.2
    exact hdis u hu u (by rw [this]; simp) rfl
  -- the closing digit is skipped
  have hs2 : e.s2 = none := by
    have hWs' : (runW (rs.flatMap (roundW m opts)) []).1 =
        (A ++ (e.a, n1, k, e.b, e.s1) :: B) ++ (e.b, n2, k, e.a, e.s2) :: D := by
      rw [hWs]; simp
    exact (runW_skip _ [] hgood _ _ _ hWs').1 (Or.inr ⟨(e.a, n1, k, e.b, e.s1), by simp, hs1, rfl⟩)
  rcases p1 with p1 | ⟨s, p1, p1'⟩
  · exact absurd p1 hs1
  · exact ⟨r, hr, s, p1', p1, hasym, hs2⟩

/-- **the symbols of a ring closure**: `_format_bond(a, b)` in front of the opening digit; in front of the closing digit
    `_format_bond(b, a)` (symmetric closures) or nothing (asymmetric closures) -/
theorem closure_symbols (m : Mol) (env : Env) (opts : Opts) (rs : List Round) (order : List Nat)
    (hwf : m.WF = true) (h : smilesRounds m env opts = .ok (rs, order))
    (es : List REdge) (hes : readToks (joinRounds rs) = .ok es) :
    ∀ e ∈ es, e.closure = true →
      ∃ r ∈ rs, ∃ s1, formatBond m opts r.sc e.a e.b = .ok s1 ∧ e.s1 = some s1 ∧
        ((opts.asym = false ∧ ∃ s2, formatBond m opts r.sc e.b e.a = .ok s2 ∧ e.s2 = some s2) ∨
         (opts.asym = true ∧ e.s2 = none)) := by
  intro e he hc
  cases hasym : opts.asym with
  | false =>
    obtain ⟨r, hr, s1, g1, g2, g3⟩ := closure_symbols_sym m env opts rs order hwf h hasym es hes e he hc
    exact ⟨r, hr, s1, g1, g2, Or.inl ⟨rfl, g3.2⟩⟩
  | true =>
    obtain ⟨r, hr, s1, g1, g2, g3⟩ := closure_symbols_asym m env opts rs order hwf h hasym es hes e he hc
    exact ⟨r, hr, s1, g1, g2, Or.inr ⟨rfl, g3.2⟩⟩

end ChythonModel.Proofs.C02
