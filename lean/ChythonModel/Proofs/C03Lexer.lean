import ChythonModel.Proofs.C03Tokenize
/-!
# C03 — `_tokenize` inverts rendering on the organic-subset token language (helper lemmas)
-/
set_option linter.unusedSimpArgs false
namespace ChythonModel.Proofs.C03
open ChythonModel.Model.C03 ChythonModel.Gen.C03

/-- which `elif` of `_tokenize` a character selects when the machine is in none of the states 5, 7, 10, 11, 12 -/
inductive CC
  | lbr | rbr | digit | pct | bond | slash | dot | semi | comma | bang | lp | rp | org | aro | cb | other
  deriving DecidableEq, Repr

def cls (c : Nat) : CC :=
  if c == 91 then .lbr else if c == 93 then .rbr else if isDigit c then .digit else if c == 37 then .pct
  else if bondChars.contains c then .bond else if slashChars.contains c then .slash else if c == 46 then .dot
  else if c == 59 then .semi else if c == 44 then .comma else if c == 33 then .bang else if c == 40 then .lp
  else if c == 41 then .rp else if organicChars.contains c then .org else if aromaticChars.contains c then .aro
  else if clBrChars.contains c then .cb else .other

/-- the machine is between two tokens of the organic-subset language -/
structure Clean (st : TState) : Prop where
  tt : st.ttype = noneTy ∨ st.ttype = 0 ∨ st.ttype = 1 ∨ st.ttype = 2 ∨ st.ttype = 3 ∨ st.ttype = 4 ∨ st.ttype = 6 ∨
    st.ttype = 8 ∨ st.ttype = 9
  tok : st.token = .none ∨ (st.ttype = 0 ∧ (st.token = .sym 67 ∨ st.token = .sym 66))

theorem Clean.ne (st : TState) (h : Clean st) :
    st.ttype ≠ 12 ∧ st.ttype ≠ 5 ∧ st.ttype ≠ 7 ∧ st.ttype ≠ 10 ∧ st.ttype ≠ 11 := by
  rcases h.tt with h | h | h | h | h | h | h | h | h <;> rw [h] <;> decide

/-- in a clean state `step` is decided by the class of the character alone -/
theorem step_of_cls (st : TState) (c : Nat) (h : Clean st) :
    step st c = match cls c with
      | .lbr => stepOpen st
      | .rbr => stepClose st
      | .digit => stepDigit st c
      | .pct => stepPercent st
      | .bond => stepBond st c
      | .slash => .ok (st.emit ⟨9, .bool (c == 47)⟩ 9)
      | .dot => .ok (st.emit ⟨4, .none⟩ 4)
      | .semi => stepSemi st
      | .comma => stepComma st
      | .bang => stepBang st
      | .lp => if st.ttype == 2 then .error (smilesErr "((") else .ok (st.emit ⟨2, .none⟩ 2)
      | .rp => if st.ttype == 2 then .error (smilesErr "()") else .ok (st.emit ⟨3, .none⟩ 3)
      | .org => .ok (st.emit ⟨0, .str [c]⟩ 0)
      | .aro => .ok (st.emit ⟨8, .str [c - 32]⟩ 8)
      | .cb => .ok { st.flush with ttype := 0, token := .sym c }
      | .other => if st.ttype == 0 then stepSecond st c else .error (smilesErr "invalid smiles") := by
  obtain ⟨h12, h5, h7, h10, h11⟩ := h.ne
  unfold step cls
  rw [if_neg (by simpa using h12)]
  by_cases c1 : (c == 91) = true
  · simp only [c1, if_true]
  simp only [c1, Bool.false_eq_true, if_false]
  by_cases c2 : (c == 93) = true
  · simp only [c2, if_true]
  simp only [c2, Bool.false_eq_true, if_false]
  rw [if_neg (by simpa using h5)]
  by_cases c3 : isDigit c = true
  · simp only [c3, if_true]
  simp only [c3, Bool.false_eq_true, if_false]
  rw [if_neg (by simpa using h7)]
  by_cases c4 : (c == 37) = true
  · simp only [c4, if_true]
  simp only [c4, Bool.false_eq_true, if_false]
  by_cases c5 : bondChars.contains c = true
  · simp only [c5, if_true]
  simp only [c5, Bool.false_eq_true, if_false]
  rw [if_neg (by simp [h10, h11])]
  by_cases c6 : slashChars.contains c = true
  · simp only [c6, if_true]
  simp only [c6, Bool.false_eq_true, if_false]
  by_cases c7 : (c == 46) = true
  · simp only [c7, if_true]
  simp only [c7, Bool.false_eq_true, if_false]
  by_cases c8 : (c == 59) = true
  · simp only [c8, if_true]
  simp only [c8, Bool.false_eq_true, if_false]
  by_cases c9 : (c == 44) = true
  · simp only [c9, if_true]
  simp only [c9, Bool.false_eq_true, if_false]
  by_cases c10 : (c == 33) = true
  · simp only [c10, if_true]
  simp only [c10, Bool.false_eq_true, if_false]
  by_cases c11 : (c == 40) = true
  · simp only [c11, if_true]
  simp only [c11, Bool.false_eq_true, if_false]
  by_cases c12 : (c == 41) = true
  · simp only [c12, if_true]
  simp only [c12, Bool.false_eq_true, if_false]
  by_cases c13 : organicChars.contains c = true
  · simp only [c13, if_true]
  simp only [c13, Bool.false_eq_true, if_false]
  by_cases c14 : aromaticChars.contains c = true
  · simp only [c14, if_true]
  simp only [c14, Bool.false_eq_true, if_false]
  by_cases c15 : clBrChars.contains c = true
  · simp only [c15, if_true]
  simp only [c15, Bool.false_eq_true, if_false]

/-! class of the characters the organic-subset tokens are made of (finite checks on the regenerated classes) -/
theorem cls_org : ∀ c ∈ organicChars, cls c = .org := by decide
theorem cls_aro : ∀ c ∈ aromaticChars, cls c = .aro := by decide
theorem cls_bond : ∀ c ∈ bondChars, cls c = .bond := by decide
theorem cls_digit : ∀ c ∈ digitChars, cls c = .digit := by decide
theorem cls_fixed : cls 67 = .cb ∧ cls 66 = .cb ∧ cls 108 = .other ∧ cls 114 = .other ∧ cls 47 = .slash ∧
    cls 92 = .slash ∧ cls 46 = .dot ∧ cls 40 = .lp ∧ cls 41 = .rp ∧ cls 37 = .pct := by decide

/-- tokens of the organic-subset language -/
inductive LTok
  | org (c : Nat) | aro (c : Nat) | cC | cB | cCl | cBr
  | bond (c : Nat) | dir (up : Bool) | dot | lpar | rpar
  | ring1 (d : Nat) | ring2 (d1 d2 : Nat)
  deriving DecidableEq, Repr

def LTok.render : LTok → Str
  | .org c => [c]
  | .aro c => [c]
  | .cC => [67]
  | .cB => [66]
  | .cCl => [67, 108]
  | .cBr => [66, 114]
  | .bond c => [c]
  | .dir up => [if up then 47 else 92]
  | .dot => [46]
  | .lpar => [40]
  | .rpar => [41]
  | .ring1 d => [d]
  | .ring2 d1 d2 => [37, d1, d2]

/-- the raw token `_tokenize` is expected to produce -/
def LTok.raw : LTok → RTok
  | .org c => ⟨0, .str [c]⟩
  | .aro c => ⟨8, .str [c - 32]⟩
  | .cC => ⟨0, .str [67]⟩
  | .cB => ⟨0, .str [66]⟩
  | .cCl => ⟨0, .str [67, 108]⟩
  | .cBr => ⟨0, .str [66, 114]⟩
  | .bond c => ⟨1, .int ((lookupNat c replaceDict).getD 0)⟩
  | .dir up => ⟨9, .bool up⟩
  | .dot => ⟨4, .none⟩
  | .lpar => ⟨2, .none⟩
  | .rpar => ⟨3, .none⟩
  | .ring1 d => ⟨6, .int (d - 48)⟩
  | .ring2 d1 d2 => ⟨6, .int ((d1 - 48) * 10 + (d2 - 48))⟩

def LTok.wf : LTok → Prop
  | .org c => c ∈ organicChars
  | .aro c => c ∈ aromaticChars
  | .bond c => c ∈ bondChars
  | .ring1 d => d ∈ digitChars ∧ d ≠ 48
  | .ring2 d1 d2 => d1 ∈ digitChars ∧ d1 ≠ 48 ∧ d2 ∈ digitChars
  | _ => True

/-- tokens that may directly follow `(` -/
def LTok.afterOpenOK : LTok → Bool
  | .lpar => false
  | .rpar => false
  | .ring1 _ => false
  | .ring2 _ _ => false
  | _ => true

theorem emit_flush (st : TState) (h : Clean st) (t : RTok) (ty : Nat) :
    (st.emit t ty).flush.toks = t :: st.flush.toks ∧ (st.emit t ty).token = .none ∧ (st.emit t ty).ttype = ty := by
  have hc : st.clearTok = .none := by
    unfold TState.clearTok
    rcases h.tok with h1 | ⟨_, h1 | h1⟩ <;> rw [h1] <;> rfl
  refine ⟨?_, hc, rfl⟩
  unfold TState.flush
  have : (st.emit t ty).token.truthy = false := by
    show st.clearTok.truthy = false
    rw [hc]; rfl
  rw [if_neg (by rw [this]; exact Bool.false_ne_true)]
  rfl

theorem clean_emit (st : TState) (h : Clean st) (t : RTok) (ty : Nat)
    (hty : ty = 0 ∨ ty = 1 ∨ ty = 2 ∨ ty = 3 ∨ ty = 4 ∨ ty = 6 ∨ ty = 8 ∨ ty = 9) : Clean (st.emit t ty) := by
  obtain ⟨_, h2, h3⟩ := emit_flush st h t ty
  refine ⟨?_, Or.inl h2⟩
  rw [h3]
  rcases hty with rfl | rfl | rfl | rfl | rfl | rfl | rfl | rfl <;> simp

theorem digit_facts : ∀ d ∈ digitChars, d ≠ 91 ∧ d ≠ 93 ∧ isDigit d = true := by decide

/-- inside `%nn` a digit goes to the closure branch -/
theorem step_in7 (st : TState) (c : Nat) (h7 : st.ttype = 7) (hd : c ∈ digitChars) : step st c = stepDigit st c := by
  obtain ⟨h1, h2, h3⟩ := digit_facts c hd
  unfold step
  rw [if_neg (by rw [h7]; decide), if_neg (by simpa using h1), if_neg (by simpa using h2),
    if_neg (by rw [h7]; decide), if_pos h3]

theorem bond_lookup (c : Nat) (h : c ∈ bondChars) : ∃ o, lookupNat c replaceDict = some o :=
  Option.isSome_iff_exists.mp (bondChars_in_replaceDict c h)

/-- reading one token -/
theorem run_token (st : TState) (t : LTok) (h : Clean st) (hwf : t.wf) (hop : st.ttype = 2 → t.afterOpenOK = true) :
    ∃ st', run st t.render = .ok st' ∧ Clean st' ∧ st'.flush.toks = t.raw :: st.flush.toks ∧
      (st'.ttype = 2 ↔ t = .lpar) := by
  have hne := h.ne st
  obtain ⟨h12, h5, h7, h10, h11⟩ := hne
  have one : ∀ (c : Nat) (st1 : TState), step st c = .ok st1 → run st [c] = .ok st1 := by
    intro c st1 hs; simp only [run, hs]
  cases t with
  | org c =>
    have hc := cls_org c hwf
    refine ⟨st.emit ⟨0, .str [c]⟩ 0, one c _ (by rw [step_of_cls st c h, hc]), clean_emit st h _ 0 (by simp),
      (emit_flush st h _ 0).1, ?_⟩
    simp [TState.emit]
  | aro c =>
    have hc := cls_aro c hwf
    refine ⟨st.emit ⟨8, .str [c - 32]⟩ 8, one c _ (by rw [step_of_cls st c h, hc]), clean_emit st h _ 8 (by simp),
      (emit_flush st h _ 8).1, ?_⟩
    simp [TState.emit]
  | cC =>
    refine ⟨{ st.flush with ttype := 0, token := .sym 67 }, one 67 _ (by rw [step_of_cls st 67 h, cls_fixed.1]),
      ⟨by simp, Or.inr ⟨rfl, Or.inl rfl⟩⟩, ?_, by simp⟩
    simp [TState.flush, Pend.truthy, TState.push, Pend.toVal, LTok.raw]
  | cB =>
    refine ⟨{ st.flush with ttype := 0, token := .sym 66 }, one 66 _ (by rw [step_of_cls st 66 h, cls_fixed.2.1]),
      ⟨by simp, Or.inr ⟨rfl, Or.inr rfl⟩⟩, ?_, by simp⟩
    simp [TState.flush, Pend.truthy, TState.push, Pend.toVal, LTok.raw]
  | cCl =>
    have hc1 : Clean { st.flush with ttype := 0, token := .sym 67 } := ⟨by simp, Or.inr ⟨rfl, Or.inl rfl⟩⟩
    have s1 : step st 67 = .ok { st.flush with ttype := 0, token := .sym 67 } := by rw [step_of_cls st 67 h, cls_fixed.1]
    have s2 : step { st.flush with ttype := 0, token := .sym 67 } 108 =
        .ok { ttype := 0, token := .none, toks := ⟨0, .str [67, 108]⟩ :: st.flush.toks } := by
      rw [step_of_cls _ 108 hc1, cls_fixed.2.2.1]
      simp [stepSecond, TState.push]
    refine ⟨{ ttype := 0, token := .none, toks := ⟨0, .str [67, 108]⟩ :: st.flush.toks },
      by simp only [LTok.render, run, s1, s2], ⟨by simp, Or.inl rfl⟩, by simp [TState.flush, Pend.truthy, LTok.raw], by simp⟩
  | cBr =>
    have hc1 : Clean { st.flush with ttype := 0, token := .sym 66 } := ⟨by simp, Or.inr ⟨rfl, Or.inr rfl⟩⟩
    have s1 : step st 66 = .ok { st.flush with ttype := 0, token := .sym 66 } := by rw [step_of_cls st 66 h, cls_fixed.2.1]
    have s2 : step { st.flush with ttype := 0, token := .sym 66 } 114 =
        .ok { ttype := 0, token := .none, toks := ⟨0, .str [66, 114]⟩ :: st.flush.toks } := by
      rw [step_of_cls _ 114 hc1, cls_fixed.2.2.2.1]
      simp [stepSecond, TState.push]
    refine ⟨{ ttype := 0, token := .none, toks := ⟨0, .str [66, 114]⟩ :: st.flush.toks },
      by simp only [LTok.render, run, s1, s2], ⟨by simp, Or.inl rfl⟩, by simp [TState.flush, Pend.truthy, LTok.raw], by simp⟩
  | bond c =>
    have hc := cls_bond c hwf
    obtain ⟨o, ho⟩ := bond_lookup c hwf
    have hs : step st c = .ok (st.emit ⟨1, .int o⟩ 1) := by
      rw [step_of_cls st c h, hc]
      simp only [stepBond, ho]
      rw [if_neg (by simpa using h10), if_neg (by simpa using h11)]
    refine ⟨st.emit ⟨1, .int o⟩ 1, one c _ hs, clean_emit st h _ 1 (by simp), ?_, by simp [TState.emit]⟩
    rw [(emit_flush st h _ 1).1]
    simp [LTok.raw, ho]
  | dir up =>
    cases up with
    | true =>
      refine ⟨st.emit ⟨9, .bool true⟩ 9, one 47 _ (by rw [step_of_cls st 47 h, cls_fixed.2.2.2.2.1]; rfl),
        clean_emit st h _ 9 (by simp), (emit_flush st h _ 9).1, by simp [TState.emit]⟩
    | false =>
      refine ⟨st.emit ⟨9, .bool false⟩ 9, one 92 _ (by rw [step_of_cls st 92 h, cls_fixed.2.2.2.2.2.1]; rfl),
        clean_emit st h _ 9 (by simp), (emit_flush st h _ 9).1, by simp [TState.emit]⟩
  | dot =>
    refine ⟨st.emit ⟨4, .none⟩ 4, one 46 _ (by rw [step_of_cls st 46 h, cls_fixed.2.2.2.2.2.2.1]),
      clean_emit st h _ 4 (by simp), (emit_flush st h _ 4).1, by simp [TState.emit]⟩
  | lpar =>
    have h2 : st.ttype ≠ 2 := fun e => by have := hop e; simp [LTok.afterOpenOK] at this
    refine ⟨st.emit ⟨2, .none⟩ 2, one 40 _ (by
        rw [step_of_cls st 40 h, cls_fixed.2.2.2.2.2.2.2.1]; simp [h2]),
      clean_emit st h _ 2 (by simp), (emit_flush st h _ 2).1, by simp [TState.emit]⟩
  | rpar =>
    have h2 : st.ttype ≠ 2 := fun e => by have := hop e; simp [LTok.afterOpenOK] at this
    refine ⟨st.emit ⟨3, .none⟩ 3, one 41 _ (by
        rw [step_of_cls st 41 h, cls_fixed.2.2.2.2.2.2.2.2.1]; simp [h2]),
      clean_emit st h _ 3 (by simp), (emit_flush st h _ 3).1, by simp [TState.emit]⟩
  | ring1 d =>
    have h2 : st.ttype ≠ 2 := fun e => by have := hop e; simp [LTok.afterOpenOK] at this
    have hc := cls_digit d hwf.1
    have hs : step st d = .ok (st.emit ⟨6, .int (d - 48)⟩ 6) := by
      rw [step_of_cls st d h, hc]
      simp only [stepDigit]
      rw [if_neg (by simp [h10, h11]), if_neg (by simpa using h2), if_neg (by simpa using h7),
        if_neg (by simpa using hwf.2)]
    exact ⟨st.emit ⟨6, .int (d - 48)⟩ 6, one d _ hs, clean_emit st h _ 6 (by simp), (emit_flush st h _ 6).1, by simp [TState.emit]⟩
  | ring2 d1 d2 =>
    have h2 : st.ttype ≠ 2 := fun e => by have := hop e; simp [LTok.afterOpenOK] at this
    obtain ⟨hd1, hd10, hd2⟩ := hwf
    have s1 : step st 37 = .ok { st.flush with ttype := 7, token := .chars [] } := by
      rw [step_of_cls st 37 h, cls_fixed.2.2.2.2.2.2.2.2.2]
      simp only [stepPercent]
      rw [if_neg (by simp [h10, h11]), if_neg (by simpa using h2)]
    have s2 : step { st.flush with ttype := 7, token := .chars [] } d1 =
        .ok { st.flush with ttype := 7, token := .chars [d1] } := by
      rw [step_in7 _ d1 rfl hd1]
      simp [stepDigit, Pend.truthy, hd10]
    have s3 : step { st.flush with ttype := 7, token := .chars [d1] } d2 =
        .ok { ttype := 6, token := .none, toks := ⟨6, .int ((d1 - 48) * 10 + (d2 - 48))⟩ :: st.flush.toks } := by
      rw [step_in7 _ d2 rfl hd2]
      simp [stepDigit, Pend.truthy, TState.push, digitsToNat]
    refine ⟨{ ttype := 6, token := .none, toks := ⟨6, .int ((d1 - 48) * 10 + (d2 - 48))⟩ :: st.flush.toks },
      by simp only [LTok.render, run, s1, s2, s3], ⟨by simp, Or.inl rfl⟩,
      by simp [TState.flush, Pend.truthy, LTok.raw], by simp⟩

theorem run_append : ∀ (a b : Str) (st : TState), run st (a ++ b) = match run st a with
    | .ok st' => run st' b
    | .error e => .error e
  | [], b, st => rfl
  | c :: cs, b, st => by
    simp only [List.cons_append, run]
    cases step st c with
    | ok st' => exact run_append cs b st'
    | error e => rfl

/-- a token list the tokenizer accepts: class conditions, and no `(` directly followed by `(`, `)` or a ring number -/
def LexOK : Bool → List LTok → Prop
  | _, [] => True
  | afterOpen, t :: tl => t.wf ∧ (afterOpen = true → t.afterOpenOK = true) ∧ LexOK (t == .lpar) tl

theorem run_tokens : ∀ (ts : List LTok) (st : TState), Clean st → LexOK (st.ttype == 2) ts →
    ∃ st', run st (ts.flatMap LTok.render) = .ok st' ∧ Clean st' ∧
      st'.flush.toks = (ts.map LTok.raw).reverse ++ st.flush.toks
  | [], st, h, _ => ⟨st, rfl, h, by simp⟩
  | t :: tl, st, h, hl => by
    obtain ⟨hwf, hop, hrest⟩ := hl
    obtain ⟨st1, e1, c1, f1, o1⟩ := run_token st t h hwf (fun e => hop (by simp [e]))
    have hrest' : LexOK (st1.ttype == 2) tl := by
      have : (st1.ttype == 2) = (t == .lpar) := by
        by_cases ht : t = .lpar
        · simp [ht, o1.mpr ht]
        · have hne2 : st1.ttype ≠ 2 := fun e => ht (o1.mp e)
          have e1' : (st1.ttype == 2) = false := by simpa using hne2
          have e2' : (t == LTok.lpar) = false := by simpa using ht
          rw [e1', e2']
      rw [this]; exact hrest
    obtain ⟨st2, e2, c2, f2⟩ := run_tokens tl st1 c1 hrest'
    refine ⟨st2, ?_, c2, ?_⟩
    · show run st (t.render ++ tl.flatMap LTok.render) = .ok st2
      rw [run_append, e1]
      exact e2
    · rw [f2, f1]; simp

/-- **`_tokenize` inverts rendering** on the organic-subset token language -/
theorem tokenizeRaw_render (ts : List LTok) (h : LexOK false ts) :
    tokenizeRaw (ts.flatMap LTok.render) = .ok (ts.map LTok.raw) := by
  have hc : Clean {} := ⟨Or.inl rfl, Or.inl rfl⟩
  obtain ⟨st, e, c, f⟩ := run_tokens ts {} hc (by have : (({} : TState).ttype == 2) = false := by decide
                                                  rw [this]; exact h)
  unfold tokenizeRaw
  rw [e]
  dsimp only
  obtain ⟨h12, h5, h7, _, h11⟩ := c.ne st
  unfold finish
  dsimp only
  rw [if_neg (by simpa using h5), if_neg (by simpa using h7), if_neg (by simp [h11, h12])]
  rw [f]
  simp [TState.flush, Pend.truthy]

/-- the typed token `smiles_tokenize` hands to the parser -/
def LTok.tok : LTok → Tok
  | .org c => .atom 0 { element := [c] }
  | .aro c => .atom 8 { element := [c - 32] }
  | .cC => .atom 0 { element := [67] }
  | .cB => .atom 0 { element := [66] }
  | .cCl => .atom 0 { element := [67, 108] }
  | .cBr => .atom 0 { element := [66, 114] }
  | .bond c => .bond ((lookupNat c replaceDict).getD 0)
  | .dir up => .dir up
  | .dot => .dot
  | .lpar => .lpar
  | .rpar => .rpar
  | .ring1 d => .cyc (d - 48)
  | .ring2 d1 d2 => .cyc ((d1 - 48) * 10 + (d2 - 48))

theorem convTok_raw (t : LTok) : convTok t.raw = .ok t.tok := by
  cases t <;> rfl

theorem convToks_raw : ∀ (ts : List LTok), convToks (ts.map LTok.raw) = .ok (ts.map LTok.tok)
  | [] => rfl
  | t :: tl => by
    simp only [List.map_cons, convToks, convTok_raw, convToks_raw tl]

/-- **`smiles_tokenize` inverts rendering** on the organic-subset token language -/
theorem smilesTokenize_render (ts : List LTok) (h : LexOK false ts) :
    smilesTokenize (ts.flatMap LTok.render) = .ok (ts.map LTok.tok) := by
  unfold smilesTokenize
  rw [tokenizeRaw_render ts h]
  exact convToks_raw ts

end ChythonModel.Proofs.C03
