import ChythonModel.Model.C16Patcher
import ChythonModel.Spec.C16Deleted
/-!
# C16 — helper lemmas: the DFS of `_get_deleted` computes fragments of `g − D` exactly
-/
namespace ChythonModel.Proofs.C16
open ChythonModel.Model.C16 ChythonModel.Spec.C16

variable {g : List (Nat × List Nat)} {D R : List Nat}

/-! ### reachability inside `g − D` -/

theorem Reach.left_notin {a b : Nat} (h : Reach g D a b) : a ∉ D := by
  induction h with
  | refl ha => exact ha
  | step _ _ _ ih => exact ih

theorem Reach.right_notin {a b : Nat} (h : Reach g D a b) : b ∉ D := by
  cases h with
  | refl ha => exact ha
  | step _ _ hc => exact hc

theorem Reach.trans {a b c : Nat} (h1 : Reach g D a b) (h2 : Reach g D b c) : Reach g D a c := by
  induction h2 with
  | refl _ => exact h1
  | step _ he hc ih => exact Reach.step ih he hc

theorem Reach.symm (hsym : Symm g) {a b : Nat} (h : Reach g D a b) : Reach g D b a := by
  induction h with
  | refl ha => exact Reach.refl ha
  | step hab he hc ih =>
    exact Reach.trans (Reach.step (Reach.refl hc) (hsym _ _ he) (Reach.right_notin hab)) ih

theorem edge_of_lookup {a c : Nat} {nb : List Nat} (h : g.lookup a = some nb) : Edge g a c ↔ c ∈ nb := by
  constructor
  · rintro ⟨nb', h', hc⟩
    rw [h] at h'
    cases h'
    exact hc
  · intro hc
    exact ⟨nb, h, hc⟩

theorem attached_of_reach (hsym : Symm g) {n s : Nat} (h : Reach g D n s) (ha : Attached g D R n) : Attached g D R s := by
  obtain ⟨r, hr, hnr⟩ := ha
  exact ⟨r, hr, Reach.trans (Reach.symm hsym h) hnr⟩

/-! ### the inner `while stack` loop -/

theorem dfs_spec (hDR : ∀ r ∈ R, r ∉ D) (n : Nat) (kept : List Nat)
    (hK : ∀ k ∈ kept, k ∉ D ∧ Attached g D R k) (seen stack : List Nat) :
    ∀ res, dfs g D R kept seen stack = .ok res →
    (∀ s ∈ seen, Reach g D n s) → (∀ c ∈ stack, ∃ s ∈ seen, Edge g s c) →
    (∀ s ∈ seen, ∀ c, Edge g s c → c ∈ D ∨ c ∈ seen ∨ c ∈ stack) →
    (∀ s ∈ seen, s ∉ R) → n ∈ seen →
    (∀ s ∈ res.2, Reach g D n s) ∧ n ∈ res.2 ∧
    (res.1 = true → Attached g D R n) ∧
    (res.1 = false → (∀ s ∈ res.2, ∀ c, Edge g s c → c ∈ D ∨ c ∈ res.2) ∧ (∀ s ∈ res.2, s ∉ R)) := by
  fun_induction dfs g D R kept seen stack with
  | case1 seen =>
    intro res h hA _ hC hE hn
    cases h
    refine ⟨hA, hn, by simp, fun _ => ⟨?_, hE⟩⟩
    intro s hs c hc
    rcases hC s hs c hc with h | h | h
    · exact Or.inl h
    · exact Or.inr h
    · simp at h
  | case2 seen cur rest hstop =>
    intro res h hA hB _ _ hn
    cases h
    refine ⟨hA, hn, fun _ => ?_, by simp⟩
    obtain ⟨s, hs, hsc⟩ := hB cur (by simp)
    simp only [Bool.or_eq_true, List.contains_iff_mem] at hstop
    rcases hstop with hr | hk
    · exact ⟨cur, hr, Reach.step (hA s hs) hsc (hDR cur hr)⟩
    · obtain ⟨hkD, r, hr, hcr⟩ := hK cur hk
      exact ⟨r, hr, Reach.trans (Reach.step (hA s hs) hsc hkD) hcr⟩
  | case3 seen cur rest hstop hskip ih =>
    intro res h hA hB hC hE hn
    apply ih res h hA
    · intro c hc
      exact hB c (List.mem_cons_of_mem _ hc)
    · intro s hs c hc
      rcases hC s hs c hc with h | h | h
      · exact Or.inl h
      · exact Or.inr (Or.inl h)
      · rcases List.mem_cons.1 h with rfl | h
        · simp only [Bool.or_eq_true, List.contains_iff_mem] at hskip
          rcases hskip with h | h
          · exact Or.inl h
          · exact Or.inr (Or.inl h)
        · exact Or.inr (Or.inr h)
    · exact hE
    · exact hn
  | case4 seen cur rest hstop hskip hlk =>
    intro res h
    simp at h
  | case5 seen cur rest hstop hskip nb hlk ih =>
    intro res h hA hB hC hE hn
    simp only [Bool.or_eq_true, List.contains_iff_mem, not_or] at hstop hskip
    obtain ⟨s0, hs0, hs0c⟩ := hB cur (by simp)
    have hcur : Reach g D n cur := Reach.step (hA s0 hs0) hs0c hskip.1
    apply ih res h
    · intro s hs
      rcases List.mem_cons.1 hs with rfl | hs
      · exact hcur
      · exact hA s hs
    · intro c hc
      rcases List.mem_append.1 hc with hc | hc
      · simp only [List.mem_reverse, List.mem_filter] at hc
        exact ⟨cur, by simp, (edge_of_lookup hlk).2 hc.1⟩
      · obtain ⟨s, hs, hsc⟩ := hB c (List.mem_cons_of_mem _ hc)
        exact ⟨s, List.mem_cons_of_mem _ hs, hsc⟩
    · intro s hs c hc
      rcases List.mem_cons.1 hs with rfl | hs
      · have hcn : c ∈ nb := (edge_of_lookup hlk).1 hc
        by_cases hin : c ∈ s :: seen
        · exact Or.inr (Or.inl hin)
        · refine Or.inr (Or.inr (List.mem_append.2 (Or.inl ?_)))
          simp only [List.mem_reverse, List.mem_filter]
          exact ⟨hcn, by simpa using hin⟩
      · rcases hC s hs c hc with h | h | h
        · exact Or.inl h
        · exact Or.inr (Or.inl (List.mem_cons_of_mem _ h))
        · rcases List.mem_cons.1 h with rfl | h
          · exact Or.inr (Or.inl (by simp))
          · exact Or.inr (Or.inr (List.mem_append.2 (Or.inr h)))
    · intro s hs
      rcases List.mem_cons.1 hs with rfl | hs
      · exact hstop.1
      · exact hE s hs
    · exact List.mem_cons_of_mem _ hn


/-! ### the outer loops -/

/-- the fragment of `v` was bonded to a removed atom and carries no remaining matched atom -/
def DeletedFrag (g : List (Nat × List Nat)) (D R : List Nat) (v : Nat) : Prop :=
  ∃ x n, x ∈ D ∧ Edge g x n ∧ n ∉ D ∧ Reach g D n v ∧ ¬ Attached g D R n

/-- invariant of `(delete, kept)` -/
structure Inv (g : List (Nat × List Nat)) (D R : List Nat) (st : DelState) : Prop where
  del_frag : ∀ v ∈ st.delete, DeletedFrag g D R v
  del_closed : ∀ v ∈ st.delete, ∀ w, Reach g D v w → w ∈ st.delete
  kept_att : ∀ k ∈ st.kept, k ∉ D ∧ Attached g D R k

def Mono (st st' : DelState) : Prop := (∀ v ∈ st.delete, v ∈ st'.delete) ∧ (∀ v ∈ st.kept, v ∈ st'.kept)

def Done (D R : List Nat) (st : DelState) (n : Nat) : Prop := n ∈ st.delete ∨ n ∈ st.kept ∨ n ∈ R ∨ n ∈ D

theorem Done.mono {st st' : DelState} {n : Nat} (h : Done D R st n) (hm : Mono st st') : Done D R st' n := by
  rcases h with h | h | h | h
  · exact Or.inl (hm.1 n h)
  · exact Or.inr (Or.inl (hm.2 n h))
  · exact Or.inr (Or.inr (Or.inl h))
  · exact Or.inr (Or.inr (Or.inr h))

theorem Mono.refl (st : DelState) : Mono st st := ⟨fun _ h => h, fun _ h => h⟩
theorem Mono.trans {a b c : DelState} (h1 : Mono a b) (h2 : Mono b c) : Mono a c :=
  ⟨fun v h => h2.1 v (h1.1 v h), fun v h => h2.2 v (h1.2 v h)⟩

theorem visitNbr_spec (hsym : Symm g) (hDR : ∀ r ∈ R, r ∉ D) {x n : Nat} (hx : x ∈ D) (hxn : Edge g x n)
    {st st' : DelState} (hinv : Inv g D R st) (h : visitNbr g D R st n = .ok st') :
    Inv g D R st' ∧ Mono st st' ∧ Done D R st' n := by
  unfold visitNbr at h
  split at h
  · next hskip =>
    cases h
    refine ⟨hinv, Mono.refl _, ?_⟩
    simp only [Bool.or_eq_true, List.contains_iff_mem] at hskip
    rcases hskip with ((h | h) | h) | h
    · exact Or.inl h
    · exact Or.inr (Or.inl h)
    · exact Or.inr (Or.inr (Or.inl h))
    · exact Or.inr (Or.inr (Or.inr h))
  · next hskip =>
    simp only [Bool.or_eq_true, List.contains_iff_mem, not_or] at hskip
    obtain ⟨⟨⟨hnd, hnk⟩, hnR⟩, hnD⟩ := hskip
    split at h
    · simp at h
    · next nb hlk =>
      have hnn : Reach g D n n := Reach.refl hnD
      split at h
      · simp at h
      · next seen hd =>
        -- attached: kept grows
        cases h
        have := dfs_spec hDR n st.kept hinv.kept_att [n] _ (true, seen) hd
          (by intro s hs; simp at hs; subst hs; exact hnn)
          (by
            intro c hc
            simp only [List.mem_reverse, List.mem_filter] at hc
            exact ⟨n, by simp, (edge_of_lookup hlk).2 hc.1⟩)
          (by
            intro s hs c hc
            simp at hs; subst hs
            have hcn : c ∈ nb := (edge_of_lookup hlk).1 hc
            by_cases hcs : c = s
            · exact Or.inr (Or.inl (by simp [hcs]))
            · refine Or.inr (Or.inr ?_)
              simp only [List.mem_reverse, List.mem_filter]
              exact ⟨hcn, by simpa using hcs⟩)
          (by intro s hs; simp at hs; subst hs; exact hnR)
          (by simp)
        obtain ⟨hA, hn, hT, _⟩ := this
        have hatt : Attached g D R n := hT rfl
        refine ⟨⟨hinv.del_frag, hinv.del_closed, ?_⟩, ⟨fun _ h => h, fun v hv => List.mem_append.2 (Or.inr hv)⟩, ?_⟩
        · intro k hk
          rcases List.mem_append.1 hk with hk | hk
          · exact ⟨Reach.right_notin (hA k hk), attached_of_reach hsym (hA k hk) hatt⟩
          · exact hinv.kept_att k hk
        · exact Or.inr (Or.inl (List.mem_append.2 (Or.inl hn)))
      · next seen hd =>
        cases h
        have := dfs_spec hDR n st.kept hinv.kept_att [n] _ (false, seen) hd
          (by intro s hs; simp at hs; subst hs; exact hnn)
          (by
            intro c hc
            simp only [List.mem_reverse, List.mem_filter] at hc
            exact ⟨n, by simp, (edge_of_lookup hlk).2 hc.1⟩)
          (by
            intro s hs c hc
            simp at hs; subst hs
            have hcn : c ∈ nb := (edge_of_lookup hlk).1 hc
            by_cases hcs : c = s
            · exact Or.inr (Or.inl (by simp [hcs]))
            · refine Or.inr (Or.inr ?_)
              simp only [List.mem_reverse, List.mem_filter]
              exact ⟨hcn, by simpa using hcs⟩)
          (by intro s hs; simp at hs; subst hs; exact hnR)
          (by simp)
        obtain ⟨hA, hn, _, hF⟩ := this
        obtain ⟨hclosed, hnoR⟩ := hF rfl
        -- everything reachable from n is in seen
        have hall : ∀ v, Reach g D n v → v ∈ seen := by
          intro v hv
          induction hv with
          | refl _ => exact hn
          | step _ he hc ih =>
            rcases hclosed _ ih _ he with h | h
            · exact absurd h hc
            · exact h
        have hnatt : ¬ Attached g D R n := by
          rintro ⟨r, hr, hnr⟩
          exact hnoR r (hall r hnr) hr
        refine ⟨⟨?_, ?_, hinv.kept_att⟩, ⟨fun v hv => List.mem_append.2 (Or.inr hv), fun _ h => h⟩, ?_⟩
        · intro v hv
          rcases List.mem_append.1 hv with hv | hv
          · exact ⟨x, n, hx, hxn, hnD, hA v hv, hnatt⟩
          · exact hinv.del_frag v hv
        · intro v hv w hw
          rcases List.mem_append.1 hv with hv | hv
          · exact List.mem_append.2 (Or.inl (hall w (Reach.trans (hA v hv) hw)))
          · exact List.mem_append.2 (Or.inr (hinv.del_closed v hv w hw))
        · exact Or.inl (List.mem_append.2 (Or.inl hn))

theorem visitNbrs_spec (hsym : Symm g) (hDR : ∀ r ∈ R, r ∉ D) {x : Nat} (hx : x ∈ D) (ns : List Nat)
    (hns : ∀ n ∈ ns, Edge g x n) :
    ∀ {st st' : DelState}, Inv g D R st → visitNbrs g D R ns st = .ok st' →
    Inv g D R st' ∧ Mono st st' ∧ ∀ n ∈ ns, Done D R st' n := by
  induction ns with
  | nil =>
    intro st st' hinv h
    simp only [visitNbrs] at h
    cases h
    exact ⟨hinv, Mono.refl _, by simp⟩
  | cons n tl ih =>
    intro st st' hinv h
    simp only [visitNbrs] at h
    split at h
    · simp at h
    · next st1 h1 =>
      obtain ⟨hi1, hm1, hd1⟩ := visitNbr_spec hsym hDR hx (hns n (by simp)) hinv h1
      obtain ⟨hi2, hm2, hd2⟩ := ih (fun m hm => hns m (List.mem_cons_of_mem _ hm)) hi1 h
      refine ⟨hi2, Mono.trans hm1 hm2, ?_⟩
      intro m hm
      rcases List.mem_cons.1 hm with rfl | hm
      · exact hd1.mono hm2
      · exact hd2 m hm

theorem outerLoop_spec (hsym : Symm g) (hDR : ∀ r ∈ R, r ∉ D) (order : List Nat) (hord : ∀ x ∈ order, x ∈ D) :
    ∀ {st st' : DelState}, Inv g D R st → outerLoop g D R order st = .ok st' →
    Inv g D R st' ∧ Mono st st' ∧ ∀ x ∈ order, ∀ n, Edge g x n → Done D R st' n := by
  induction order with
  | nil =>
    intro st st' hinv h
    simp only [outerLoop] at h
    cases h
    exact ⟨hinv, Mono.refl _, by simp⟩
  | cons x tl ih =>
    intro st st' hinv h
    simp only [outerLoop] at h
    split at h
    · simp at h
    · next nb hlk =>
      split at h
      · simp at h
      · next st1 h1 =>
        have hx : x ∈ D := hord x (by simp)
        obtain ⟨hi1, hm1, hd1⟩ := visitNbrs_spec hsym hDR hx nb (fun n hn => (edge_of_lookup hlk).2 hn) hinv h1
        obtain ⟨hi2, hm2, hd2⟩ := ih (fun y hy => hord y (List.mem_cons_of_mem _ hy)) hi1 h
        refine ⟨hi2, Mono.trans hm1 hm2, ?_⟩
        intro y hy n hyn
        rcases List.mem_cons.1 hy with rfl | hy
        · exact (hd1 n ((edge_of_lookup hlk).1 hyn)).mono hm2
        · exact hd2 y hy n hyn

theorem remainOf_notin (mapping : List (Nat × Nat)) (D : List Nat) : ∀ r ∈ remainOf mapping D, r ∉ D := by
  intro r hr
  simp only [remainOf, List.mem_filter] at hr
  simpa using hr.2

/-- **exactness of `_get_deleted`** for an undirected graph, any match and any iteration order -/
theorem getDeleted_exact (hsym : Symm g) (tpl : List Nat) (mapping : List (Nat × Nat)) (res : List Nat)
    (h : getDeleted g tpl mapping = .ok res) :
    ∃ D, mapAll mapping tpl = .ok D ∧ ∀ v, v ∈ res ↔ DeletedSpec g D (remainOf mapping D) v := by
  unfold getDeleted at h
  split at h
  · next hemp =>
    cases h
    have : tpl = [] := by simpa using hemp
    subst this
    refine ⟨[], rfl, ?_⟩
    intro v
    simp [DeletedSpec]
  · split at h
    · simp at h
    · next D hD =>
      split at h
      · simp at h
      · next st hst =>
        cases h
        have hDR := remainOf_notin mapping D
        have hinv0 : Inv g D (remainOf mapping D) {} := ⟨by simp, by simp, by simp⟩
        obtain ⟨hinv, _, hdone⟩ := outerLoop_spec hsym hDR D (fun _ h => h) hinv0 hst
        refine ⟨D, hD, ?_⟩
        intro v
        constructor
        · intro hv
          rcases List.mem_append.1 hv with hv | hv
          · exact Or.inl hv
          · exact Or.inr (hinv.del_frag v hv)
        · rintro (hv | ⟨x, n, hx, hxn, hnD, hnv, hnatt⟩)
          · exact List.mem_append.2 (Or.inl hv)
          · refine List.mem_append.2 (Or.inr ?_)
            rcases hdone x hx n hxn with h | h | h | h
            · exact hinv.del_closed n h v hnv
            · exact absurd (hinv.kept_att n h).2 hnatt
            · exact absurd ⟨n, h, Reach.refl hnD⟩ hnatt
            · exact absurd h hnD


/-! ### the deleted set depends only on memberships (iteration orders are irrelevant) -/

theorem mapAll_mem (mapping : List (Nat × Nat)) (tpl D : List Nat) (h : mapAll mapping tpl = .ok D) (v : Nat) :
    v ∈ D ↔ ∃ x ∈ tpl, mapping.lookup x = some v := by
  induction tpl generalizing D with
  | nil => simp only [mapAll] at h; cases h; simp
  | cons x tl ih =>
    simp only [mapAll] at h
    split at h
    · simp at h
    · next w hw =>
      split at h
      · simp at h
      · next vs hvs =>
        cases h
        simp only [List.mem_cons, ih vs hvs]
        constructor
        · rintro (rfl | ⟨y, hy, hyv⟩)
          · exact ⟨x, Or.inl rfl, hw⟩
          · exact ⟨y, Or.inr hy, hyv⟩
        · rintro ⟨y, rfl | hy, hyv⟩
          · rw [hw] at hyv; cases hyv; exact Or.inl rfl
          · exact Or.inr ⟨y, hy, hyv⟩

theorem Reach.congr {g1 g2 : List (Nat × List Nat)} {D1 D2 : List Nat} (hE : ∀ a b, Edge g1 a b → Edge g2 a b)
    (hD : ∀ v, v ∈ D1 ↔ v ∈ D2) {a b : Nat} (h : Reach g1 D1 a b) : Reach g2 D2 a b := by
  induction h with
  | refl ha => exact Reach.refl (fun h => ha ((hD _).2 h))
  | step _ he hc ih => exact Reach.step ih (hE _ _ he) (fun h => hc ((hD _).2 h))

theorem DeletedSpec.congr {g1 g2 : List (Nat × List Nat)} {D1 D2 R1 R2 : List Nat}
    (hE : ∀ a b, Edge g1 a b ↔ Edge g2 a b) (hD : ∀ v, v ∈ D1 ↔ v ∈ D2) (hR : ∀ v, v ∈ R1 ↔ v ∈ R2) (v : Nat)
    (h : DeletedSpec g1 D1 R1 v) : DeletedSpec g2 D2 R2 v := by
  rcases h with h | ⟨x, n, hx, hxn, hnD, hnv, hna⟩
  · exact Or.inl ((hD v).1 h)
  · refine Or.inr ⟨x, n, (hD x).1 hx, (hE _ _).1 hxn, fun h => hnD ((hD n).2 h),
      Reach.congr (fun a b => (hE a b).1) hD hnv, ?_⟩
    rintro ⟨r, hr, hnr⟩
    exact hna ⟨r, (hR r).2 hr, Reach.congr (fun a b => (hE a b).2) (fun v => (hD v).symm) hnr⟩

/-! ### totality: on a closed graph with a complete match `_get_deleted` never raises -/

theorem dfs_total (hclosed : Closed g) (kept seen stack : List Nat) :
    (∀ c ∈ stack, ∃ nb, g.lookup c = some nb) → ∃ res, dfs g D R kept seen stack = .ok res := by
  fun_induction dfs g D R kept seen stack with
  | case1 seen => intro _; exact ⟨_, rfl⟩
  | case2 seen cur rest hstop => intro _; exact ⟨_, rfl⟩
  | case3 seen cur rest hstop hskip ih =>
    intro h
    exact ih (fun c hc => h c (List.mem_cons_of_mem _ hc))
  | case4 seen cur rest hstop hskip hlk =>
    intro h
    obtain ⟨nb, hnb⟩ := h cur (by simp)
    rw [hlk] at hnb
    cases hnb
  | case5 seen cur rest hstop hskip nb hlk ih =>
    intro h
    apply ih
    intro c hc
    rcases List.mem_append.1 hc with hc | hc
    · simp only [List.mem_reverse, List.mem_filter] at hc
      exact hclosed cur c ((edge_of_lookup hlk).2 hc.1)
    · exact h c (List.mem_cons_of_mem _ hc)

theorem visitNbr_total (hclosed : Closed g) (st : DelState) (n : Nat) (hn : ∃ nb, g.lookup n = some nb) :
    ∃ st', visitNbr g D R st n = .ok st' := by
  unfold visitNbr
  split
  · exact ⟨_, rfl⟩
  · obtain ⟨nb, hnb⟩ := hn
    simp only [hnb]
    obtain ⟨res, hres⟩ := dfs_total (D := D) (R := R) hclosed st.kept [n] ((nb.filter fun x => ![n].contains x).reverse)
      (by
        intro c hc
        simp only [List.mem_reverse, List.mem_filter] at hc
        exact hclosed n c ((edge_of_lookup hnb).2 hc.1))
    rw [hres]
    obtain ⟨b, seen⟩ := res
    cases b <;> exact ⟨_, rfl⟩

theorem visitNbrs_total (hclosed : Closed g) (ns : List Nat) (hns : ∀ n ∈ ns, ∃ nb, g.lookup n = some nb) :
    ∀ st, ∃ st', visitNbrs g D R ns st = .ok st' := by
  induction ns with
  | nil => intro st; exact ⟨_, rfl⟩
  | cons n tl ih =>
    intro st
    obtain ⟨st1, h1⟩ := visitNbr_total (D := D) (R := R) hclosed st n (hns n (by simp))
    simp only [visitNbrs, h1]
    exact ih (fun m hm => hns m (List.mem_cons_of_mem _ hm)) st1

theorem outerLoop_total (hclosed : Closed g) (order : List Nat) (hord : ∀ x ∈ order, ∃ nb, g.lookup x = some nb) :
    ∀ st, ∃ st', outerLoop g D R order st = .ok st' := by
  induction order with
  | nil => intro st; exact ⟨_, rfl⟩
  | cons x tl ih =>
    intro st
    obtain ⟨nb, hnb⟩ := hord x (by simp)
    obtain ⟨st1, h1⟩ := visitNbrs_total (D := D) (R := R) hclosed nb
      (fun n hn => hclosed x n ((edge_of_lookup hnb).2 hn)) st
    simp only [outerLoop, hnb, h1]
    exact ih (fun y hy => hord y (List.mem_cons_of_mem _ hy)) st1

theorem mapAll_total (mapping : List (Nat × Nat)) (tpl : List Nat) (h : ∀ x ∈ tpl, ∃ v, mapping.lookup x = some v) :
    ∃ D, mapAll mapping tpl = .ok D := by
  induction tpl with
  | nil => exact ⟨_, rfl⟩
  | cons x tl ih =>
    obtain ⟨v, hv⟩ := h x (by simp)
    obtain ⟨vs, hvs⟩ := ih (fun y hy => h y (List.mem_cons_of_mem _ hy))
    exact ⟨v :: vs, by simp only [mapAll, hv, hvs]⟩

theorem getDeleted_total (hclosed : Closed g) (tpl : List Nat) (mapping : List (Nat × Nat))
    (hm : ∀ x ∈ tpl, ∃ v, mapping.lookup x = some v ∧ ∃ nb, g.lookup v = some nb) :
    ∃ res, getDeleted g tpl mapping = .ok res := by
  unfold getDeleted
  split
  · exact ⟨_, rfl⟩
  · obtain ⟨D, hD⟩ := mapAll_total mapping tpl (fun x hx => let ⟨v, hv, _⟩ := hm x hx; ⟨v, hv⟩)
    simp only [hD]
    obtain ⟨st, hst⟩ := outerLoop_total (D := D) (R := remainOf mapping D) hclosed D
      (by
        intro v hv
        obtain ⟨x, hx, hxv⟩ := (mapAll_mem mapping tpl D hD v).1 hv
        obtain ⟨w, hw, hnb⟩ := hm x hx
        rw [hxv] at hw
        cases hw
        exact hnb) {}
    simp only [hst]
    exact ⟨_, rfl⟩


/-! ### executable graph checks are sound -/

theorem lookup_some_mem {β} {l : List (Nat × β)} {a : Nat} {v : β} (h : l.lookup a = some v) : (a, v) ∈ l := by
  induction l with
  | nil => simp [List.lookup] at h
  | cons p tl ih =>
    obtain ⟨k, w⟩ := p
    simp only [List.lookup] at h
    split at h
    · next heq =>
      have : a = k := by simpa using heq
      cases h; subst this; simp
    · exact List.mem_cons_of_mem _ (ih h)

theorem symmB_sound (h : symmB g = true) : Symm g := by
  intro a b ⟨nb, hnb, hb⟩
  simp only [symmB, List.all_eq_true] at h
  have := h (a, nb) (lookup_some_mem hnb) b hb
  split at this
  · next nb' hb' => exact ⟨nb', hb', by simpa using this⟩
  · simp at this

theorem closedB_sound (h : closedB g = true) : Closed g := by
  intro a b ⟨nb, hnb, hb⟩
  simp only [closedB, List.all_eq_true] at h
  have := h (a, nb) (lookup_some_mem hnb) b hb
  exact Option.isSome_iff_exists.1 this

end ChythonModel.Proofs.C16
