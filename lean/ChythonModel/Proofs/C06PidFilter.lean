import ChythonModel.Proofs.C06PidDefs
import ChythonModel.Proofs.C06Canonic
import Mathlib.Data.List.Rotate
/-!
# C06 — `_rings_filter` (model: `Model.C06.ringsFilter`) and simple cycles under `_canonic_ring`

* `ringsFilter_length` / `ringsFilter_subset` / `ringsFilter_nodup` — the result has exactly the requested number of
  rings, all of them produced by the candidate generator, none repeated;
* `isSimpleCycle_dihedral` / `canonicRing_cycle` — rotating / reflecting a simple cycle of a symmetric graph gives a
  simple cycle; so `_canonic_ring` keeps simple cycles.
-/
namespace ChythonModel.Proofs.C06
open ChythonModel.Model.C06 ChythonModel.Spec.CycleBasis

/-! ## the first loop -/

theorem filterLoop1_done_length (n : Nat) :
    ∀ (rest : List (Option Ring)) (seen : List Ring) (atoms : List Nat) (sssr hold s : List Ring),
      filterLoop1 n rest seen atoms sssr hold = .done s → s.length = n := by
  intro rest
  induction rest with
  | nil => intro seen atoms sssr hold s h; simp [filterLoop1] at h
  | cons x rest ih =>
    intro seen atoms sssr hold s h
    cases x with
    | none => simp [filterLoop1] at h
    | some c =>
      simp only [filterLoop1] at h
      split at h
      · exact ih _ _ _ _ _ h
      · split at h
        · exact ih _ _ _ _ _ h
        · split at h
          · rename_i hn
            injection h with h
            subst h
            exact eq_of_beq hn
          · exact ih _ _ _ _ _ h

/-- a predicate that holds for every candidate and for the rings collected so far holds for what the loop returns -/
theorem filterLoop1_pred (P : Ring → Prop) (n : Nat) :
    ∀ (rest : List (Option Ring)) (seen : List Ring) (atoms : List Nat) (sssr hold : List Ring),
      (∀ r, some r ∈ rest → P r) → (∀ r ∈ sssr, P r) → (∀ r ∈ hold, P r) →
      (∀ s, filterLoop1 n rest seen atoms sssr hold = .done s → ∀ r ∈ s, P r) ∧
      (∀ seen' sssr' hold', filterLoop1 n rest seen atoms sssr hold = .more seen' sssr' hold' →
        (∀ r ∈ sssr', P r) ∧ (∀ r ∈ hold', P r)) := by
  intro rest
  induction rest with
  | nil =>
    intro seen atoms sssr hold _ hs hh
    refine ⟨fun s h => by simp [filterLoop1] at h, fun seen' sssr' hold' h => ?_⟩
    simp only [filterLoop1] at h
    injection h with _ h2 h3
    subst h2 h3
    exact ⟨hs, hh⟩
  | cons x rest ih =>
    intro seen atoms sssr hold hr hs hh
    cases x with
    | none => exact ⟨fun s h => by simp [filterLoop1] at h, fun _ _ _ h => by simp [filterLoop1] at h⟩
    | some c =>
      have hc : P c := hr c (by simp)
      have hr' : ∀ r, some r ∈ rest → P r := fun r h => hr r (List.mem_cons_of_mem _ h)
      have hsc : ∀ r ∈ sssr ++ [c], P r := by
        intro r h
        rcases List.mem_append.1 h with h | h
        · exact hs r h
        · simp at h; subst h; exact hc
      have hhc : ∀ r ∈ hold ++ [c], P r := by
        intro r h
        rcases List.mem_append.1 h with h | h
        · exact hh r h
        · simp at h; subst h; exact hc
      simp only [filterLoop1]
      split
      · exact ih _ _ _ _ hr' hs hh
      · split
        · exact ih _ _ _ _ hr' hs hhc
        · split
          · refine ⟨fun s h => ?_, fun _ _ _ h => by simp at h⟩
            injection h with h
            subst h
            exact hsc
          · exact ih _ _ _ _ hr' hsc hh

theorem filterLoop1_nodup (n : Nat) :
    ∀ (rest : List (Option Ring)) (seen : List Ring) (atoms : List Nat) (sssr hold : List Ring),
      (sssr ++ hold).Nodup → (∀ r ∈ sssr ++ hold, r ∈ seen) →
      (∀ s, filterLoop1 n rest seen atoms sssr hold = .done s → s.Nodup) ∧
      (∀ seen' sssr' hold', filterLoop1 n rest seen atoms sssr hold = .more seen' sssr' hold' →
        (sssr' ++ hold').Nodup) := by
  intro rest
  induction rest with
  | nil =>
    intro seen atoms sssr hold hnd _
    refine ⟨fun s h => by simp [filterLoop1] at h, fun seen' sssr' hold' h => ?_⟩
    simp only [filterLoop1] at h
    injection h with _ h2 h3
    subst h2 h3
    exact hnd
  | cons x rest ih =>
    intro seen atoms sssr hold hnd hseen
    cases x with
    | none => exact ⟨fun s h => by simp [filterLoop1] at h, fun _ _ _ h => by simp [filterLoop1] at h⟩
    | some c =>
      simp only [filterLoop1]
      split
      · exact ih _ _ _ _ hnd hseen
      · rename_i hc
        have hc' : c ∉ seen := by simpa using hc
        have hcn : c ∉ sssr ++ hold := fun h => hc' (hseen c h)
        have hcs : c ∉ sssr := fun h => hcn (List.mem_append_left _ h)
        have hch : c ∉ hold := fun h => hcn (List.mem_append_right _ h)
        have hnd1 : (sssr ++ (hold ++ [c])).Nodup := by
          rw [← List.append_assoc]
          exact List.Nodup.append hnd (List.nodup_singleton c) (by
            intro a ha hb
            simp at hb
            subst hb
            exact hcn ha)
        have hnd2 : (sssr ++ [c]).Nodup :=
          List.Nodup.append (List.Nodup.of_append_left hnd) (List.nodup_singleton c) (by
            intro a ha hb
            simp at hb
            subst hb
            exact hcs ha)
        have hnd3 : ((sssr ++ [c]) ++ hold).Nodup := by
          have hp : ((sssr ++ [c]) ++ hold).Perm (sssr ++ (hold ++ [c])) := by
            rw [List.append_assoc]
            exact List.Perm.append_left _ List.perm_append_comm
          exact hp.nodup_iff.2 hnd1
        have hseen1 : ∀ r ∈ sssr ++ (hold ++ [c]), r ∈ seen ++ [c] := by
          intro r h
          rw [← List.append_assoc] at h
          rcases List.mem_append.1 h with h | h
          · exact List.mem_append_left _ (hseen r h)
          · exact List.mem_append_right _ h
        have hseen3 : ∀ r ∈ (sssr ++ [c]) ++ hold, r ∈ seen ++ [c] := by
          intro r h
          have hp : ((sssr ++ [c]) ++ hold).Perm (sssr ++ (hold ++ [c])) := by
            rw [List.append_assoc]
            exact List.Perm.append_left _ List.perm_append_comm
          exact hseen1 r (hp.mem_iff.1 h)
        split
        · exact ih _ _ _ _ hnd1 hseen1
        · split
          · refine ⟨fun s h => ?_, fun _ _ _ h => by simp at h⟩
            injection h with h
            subst h
            exact hnd2
          · exact ih _ _ _ _ hnd3 hseen3

/-! ## the second loop -/

theorem sortByLenStable_perm (l : List Path) : (sortByLenStable l).Perm l := isort_perm _ _

theorem filterLoop2_length (n : Nat) :
    ∀ (hold cond sssr out : List Ring), filterLoop2 n hold cond sssr = .ok out → out.length = n := by
  intro hold
  induction hold with
  | nil => intro cond sssr out h; simp [filterLoop2] at h
  | cons c rest ih =>
    intro cond sssr out h
    simp only [filterLoop2] at h
    split at h
    · simp at h
    · exact ih _ _ _ h
    · split at h
      · simp at h
      · split at h
        · rename_i hn
          injection h with h
          subst h
          rw [(sortByLenStable_perm _).length_eq]
          exact eq_of_beq hn
        · exact ih _ _ _ h

theorem filterLoop2_pred (P : Ring → Prop) (n : Nat) :
    ∀ (hold cond sssr out : List Ring), (∀ r ∈ hold, P r) → (∀ r ∈ sssr, P r) →
      filterLoop2 n hold cond sssr = .ok out → ∀ r ∈ out, P r := by
  intro hold
  induction hold with
  | nil => intro cond sssr out _ _ h; simp [filterLoop2] at h
  | cons c rest ih =>
    intro cond sssr out hh hs h
    have hc : P c := hh c (by simp)
    have hh' : ∀ r ∈ rest, P r := fun r h => hh r (List.mem_cons_of_mem _ h)
    have hsc : ∀ r ∈ sssr ++ [c], P r := by
      intro r h
      rcases List.mem_append.1 h with h | h
      · exact hs r h
      · simp at h; subst h; exact hc
    simp only [filterLoop2] at h
    split at h
    · simp at h
    · exact ih _ _ _ hh' hs h
    · split at h
      · simp at h
      · split at h
        · injection h with h
          subst h
          intro r hr
          exact hsc r ((sortByLenStable_perm _).mem_iff.1 hr)
        · exact ih _ _ _ hh' hsc h

theorem filterLoop2_nodup (n : Nat) :
    ∀ (hold cond sssr out : List Ring), (sssr ++ hold).Nodup →
      filterLoop2 n hold cond sssr = .ok out → out.Nodup := by
  intro hold
  induction hold with
  | nil => intro cond sssr out _ h; simp [filterLoop2] at h
  | cons c rest ih =>
    intro cond sssr out hnd h
    have hnd' : ((sssr ++ [c]) ++ rest).Nodup := by simpa using hnd
    have hnd1 : (sssr ++ rest).Nodup := by
      have := List.nodup_middle.1 hnd
      exact (List.nodup_cons.1 this).2
    simp only [filterLoop2] at h
    split at h
    · simp at h
    · exact ih _ _ _ hnd1 h
    · split at h
      · simp at h
      · split at h
        · injection h with h
          subst h
          exact (sortByLenStable_perm _).nodup_iff.2 (List.Nodup.of_append_left hnd')
        · exact ih _ _ _ hnd' h

/-! ## `_rings_filter` -/

/-- a predicate that holds for every candidate holds for every returned ring -/
theorem ringsFilter_pred (P : Ring → Prop) {cands : List (Option Ring)} {n : Nat} {out : List Ring}
    (hP : ∀ r, some r ∈ cands → P r) (h : ringsFilter cands n = .ok out) : ∀ r ∈ out, P r := by
  unfold ringsFilter at h
  split at h
  · simp at h
  · simp at h
  · rename_i c rest
    have hc : P c := hP c (by simp)
    have hr : ∀ r, some r ∈ rest → P r := fun r h => hP r (List.mem_cons_of_mem _ h)
    have h1 := filterLoop1_pred P n rest [c] c [c] [] hr (by simpa using hc) (by simp)
    split at h
    · injection h with h
      subst h
      simpa using hc
    · split at h
      · simp at h
      · rename_i s hs
        injection h with h
        subst h
        exact h1.1 _ hs
      · rename_i seen sssr hold hm
        obtain ⟨hs, hh⟩ := h1.2 _ _ _ hm
        split at h
        · split at h
          · simp at h
          · exact filterLoop2_pred P n _ _ _ _ hh hs h
        · simp at h

/-- `_rings_filter` returns exactly the requested number of rings (`hn` is not needed: with `n = 0` no branch returns) -/
theorem ringsFilter_length_any {cands : List (Option Ring)} {n : Nat} {out : List Ring}
    (h : ringsFilter cands n = .ok out) : out.length = n := by
  unfold ringsFilter at h
  split at h
  · simp at h
  · simp at h
  · rename_i c rest
    split at h
    · rename_i h1
      injection h with h
      subst h
      simpa using (eq_of_beq h1).symm
    · split at h
      · simp at h
      · rename_i s hs
        injection h with h
        subst h
        exact filterLoop1_done_length n _ _ _ _ _ _ hs
      · split at h
        · split at h
          · simp at h
          · exact filterLoop2_length n _ _ _ _ h
        · simp at h

theorem ringsFilter_length {cands : List (Option Ring)} {n : Nat} {out : List Ring} (_hn : 1 ≤ n)
    (h : ringsFilter cands n = .ok out) : out.length = n := ringsFilter_length_any h

/-- … and only rings that the candidate generator produced -/
theorem ringsFilter_subset {cands : List (Option Ring)} {n : Nat} {out : List Ring}
    (h : ringsFilter cands n = .ok out) : ∀ r ∈ out, some r ∈ cands :=
  ringsFilter_pred (fun r => some r ∈ cands) (fun _ hr => hr) h

/-- … without repetition (every accepted ring was not in `seen_rings` before) -/
theorem ringsFilter_nodup {cands : List (Option Ring)} {n : Nat} {out : List Ring}
    (h : ringsFilter cands n = .ok out) : out.Nodup := by
  unfold ringsFilter at h
  split at h
  · simp at h
  · simp at h
  · rename_i c rest
    have h1 := filterLoop1_nodup n rest [c] c [c] [] (by simp) (by simp)
    split at h
    · injection h with h
      subst h
      simp
    · split at h
      · simp at h
      · rename_i s hs
        injection h with h
        subst h
        exact h1.1 _ hs
      · rename_i seen sssr hold hm
        have hnd := h1.2 _ _ _ hm
        split at h
        · split at h
          · simp at h
          · exact filterLoop2_nodup n _ _ _ _ hnd h
        · simp at h

/-! ## simple cycles under rotation and reflection -/

theorem cyclePairs_eq_zip_rotate (r : List Nat) : cyclePairs r = r.zip (r.rotate 1) := by
  cases r with
  | nil => simp [cyclePairs]
  | cons x tl => simp [cyclePairs, List.rotate_cons_succ]

theorem cyclePairs_rotate (r : List Nat) (k : Nat) : cyclePairs (r.rotate k) = (cyclePairs r).rotate k := by
  rw [cyclePairs_eq_zip_rotate, cyclePairs_eq_zip_rotate, List.rotate_rotate, Nat.add_comm, ← List.rotate_rotate]
  unfold List.zip
  rw [List.zipWith_rotate_distrib _ _ _ _ (by simp)]

theorem cyclePairs_append_comm (X Y : List Nat) : (cyclePairs (Y ++ X)).Perm (cyclePairs (X ++ Y)) := by
  rw [← List.rotate_append_length_eq X Y, cyclePairs_rotate]
  exact List.rotate_perm _ _

theorem zip_swap (a b : List Nat) : (a.zip b).map Prod.swap = b.zip a := by
  induction a generalizing b with
  | nil => simp
  | cons x a ih => cases b <;> simp [ih]

theorem cyclePairs_reverse (r : List Nat) : (cyclePairs r.reverse).Perm ((cyclePairs r).map Prod.swap) := by
  rw [cyclePairs_eq_zip_rotate, cyclePairs_eq_zip_rotate, zip_swap, List.rotate_reverse]
  unfold List.zip
  rw [← List.reverse_zipWith (by simp)]
  refine (List.reverse_perm _).trans ?_
  refine (List.rotate_perm _ 1).symm.trans ?_
  rw [List.zipWith_rotate_distrib _ _ _ _ (by simp), List.rotate_rotate]
  have : r.rotate (r.length - 1 % r.length + 1) = r := by
    rcases r with _ | ⟨x, _ | ⟨y, tl⟩⟩
    · simp
    · simp
    · have h1 : 1 % (x :: y :: tl).length = 1 := Nat.mod_eq_of_lt (by simp)
      have h2 : (x :: y :: tl).length - 1 + 1 = (x :: y :: tl).length := by simp
      rw [h1, h2, List.rotate_length]
  rw [this]

/-- a rotation / reflection of a simple cycle of a symmetric graph is a simple cycle -/
theorem isSimpleCycle_dihedral {g : Adj} (hs : Sym g) {r c : List Nat} (h : IsSimpleCycle g r)
    (hd : IsDihedral r c) : IsSimpleCycle g c := by
  obtain ⟨h3, hnd, hp⟩ := h
  have hperm := hd.perm
  refine ⟨by rw [hperm.length_eq]; exact h3, hperm.nodup_iff.2 hnd, ?_⟩
  obtain ⟨X, Y, rfl, rfl | rfl⟩ := hd.split
  · intro ab hab
    exact hp ab ((cyclePairs_append_comm X Y).mem_iff.1 hab)
  · intro ab hab
    have h1 := (cyclePairs_reverse (Y ++ X)).mem_iff.1 hab
    obtain ⟨ba, hba, rfl⟩ := List.mem_map.1 h1
    have h2 := hp ba ((cyclePairs_append_comm X Y).mem_iff.1 hba)
    exact hs _ _ h2

/-- `_canonic_ring` keeps simple cycles -/
theorem canonicRing_cycle {g : Adj} (hs : Sym g) {r c : List Nat} (h : IsSimpleCycle g r)
    (hc : canonicRing r = some c) : IsSimpleCycle g c := by
  obtain ⟨c', hc', hd, _⟩ := canonic_ring_spec_proof r h.1 h.2.1
  rw [hc] at hc'
  injection hc' with hc'
  subst hc'
  exact isSimpleCycle_dihedral hs h hd


end ChythonModel.Proofs.C06
