import ChythonModel.Model.C05Rules
/-!
# C05 — charge conservation of `__fix_rings`: from the per-rule table fact to any run of the patch loop
-/
namespace ChythonModel.Proofs.C05
open ChythonModel.Model ChythonModel.Model.C05 ChythonModel.Gen.Aromatic
open ChythonModel.Model.Valence (molecularCharge setH setHEntry calcImplicitMol)

def chargeSum (l : List (Nat × Atom)) : Int := (l.map (·.2.charge)).sum

def setChargeEntry (n : Nat) (c : Int) (p : Nat × Atom) : Nat × Atom :=
  if p.1 == n then (p.1, { p.2 with charge := c }) else p

theorem setCharge_atoms (m : Mol) (n : Nat) (c : Int) : (setCharge m n c).atoms = m.atoms.map (setChargeEntry n c) := rfl

theorem map_fst_setChargeEntry (n : Nat) (c : Int) (l : List (Nat × Atom)) :
    (l.map (setChargeEntry n c)).map (·.1) = l.map (·.1) := by
  induction l with
  | nil => rfl
  | cons p ps ih =>
    simp only [List.map_cons, ih, List.cons.injEq, and_true]
    unfold setChargeEntry
    split <;> rfl

theorem ids_setCharge (m : Mol) (n : Nat) (c : Int) : (setCharge m n c).ids = m.ids := by
  unfold Mol.ids
  rw [setCharge_atoms, map_fst_setChargeEntry]

theorem map_setChargeEntry_of_not_mem (n : Nat) (c : Int) (l : List (Nat × Atom)) (h : n ∉ l.map (·.1)) :
    l.map (setChargeEntry n c) = l := by
  induction l with
  | nil => rfl
  | cons p ps ih =>
    simp only [List.map_cons, List.mem_cons, not_or] at h
    simp only [List.map_cons, ih h.2, List.cons.injEq, and_true]
    unfold setChargeEntry
    have : (p.1 == n) = false := by simpa using fun e => h.1 e.symm
    rw [this]
    rfl

theorem chargeSum_setCharge (n : Nat) (c : Int) :
    ∀ (l : List (Nat × Atom)) (x : Atom), (l.map (·.1)).Nodup → l.lookup n = some x →
      chargeSum (l.map (setChargeEntry n c)) = chargeSum l + (c - x.charge) := by
  intro l
  induction l with
  | nil => intro x _ h; simp at h
  | cons p ps ih =>
    intro x hnd hl
    obtain ⟨pk, pa⟩ := p
    simp only [List.map_cons, List.nodup_cons] at hnd
    by_cases hk : n = pk
    · subst hk
      simp only [List.lookup_cons_self, Option.some.injEq] at hl
      subst hl
      simp only [List.map_cons, map_setChargeEntry_of_not_mem n c ps hnd.1, chargeSum, List.sum_cons]
      simp only [setChargeEntry, beq_self_eq_true, if_true]
      omega
    · have hne : (n == pk) = false := by simpa using hk
      rw [List.lookup_cons, hne] at hl
      have := ih x hnd.2 hl
      simp only [chargeSum, List.map_cons, List.sum_cons] at this ⊢
      have hne' : (pk == n) = false := by simpa using fun e => hk e.symm
      simp only [setChargeEntry, hne', Bool.false_eq_true, if_false]
      omega

theorem lookup_setChargeEntry_ne (n k : Nat) (c : Int) (h : k ≠ n) (l : List (Nat × Atom)) :
    (l.map (setChargeEntry n c)).lookup k = l.lookup k := by
  induction l with
  | nil => rfl
  | cons p ps ih =>
    obtain ⟨pk, pa⟩ := p
    simp only [List.map_cons]
    by_cases hpk : pk = n
    · subst hpk
      have hne : (k == pk) = false := by simpa using h
      simp only [setChargeEntry, beq_self_eq_true, if_true, List.lookup_cons, hne, ih]
    · have hne : (pk == n) = false := by simpa using hpk
      simp only [setChargeEntry, hne, Bool.false_eq_true, if_false, List.lookup_cons, ih]

theorem mem_of_lookup_local {α : Type} {l : List (Nat × α)} {k : Nat} {v : α} (h : l.lookup k = some v) : (k, v) ∈ l := by
  induction l with
  | nil => simp at h
  | cons x xs ih =>
    obtain ⟨xk, xv⟩ := x
    by_cases hk : k = xk
    · subst hk
      simp only [List.lookup_cons_self, Option.some.injEq] at h
      subst h
      exact List.mem_cons_self
    · have hne : (k == xk) = false := by simpa using hk
      rw [List.lookup_cons, hne] at h
      exact List.mem_cons_of_mem _ (ih h)

theorem molecularCharge_eq (m : Mol) : molecularCharge m = chargeSum m.atoms := rfl

/-- the atoms a list of `atom_fix` entries is mapped to carry the pattern charges in `m` -/
def Faithful (r : Rule) (m : Mol) (mp : List (Nat × Nat)) (af : List (Nat × Int)) : Prop :=
  ∀ nc ∈ af, ∃ c0 k x, patCharge r nc.1 = some c0 ∧ mapGet mp nc.1 = some k ∧ m.atom? k = some x ∧ x.charge = c0

theorem patchAtoms_charge (r : Rule) (mp : List (Nat × Nat)) :
    ∀ (af : List (Nat × Int)) (m m' : Mol) (d : Int), Faithful r m mp af → (af.map fun nc => mapGet mp nc.1).Nodup →
      m.ids.Nodup → deltaSum r af = some d → patchAtoms m mp af = some m' →
      molecularCharge m' = molecularCharge m + d ∧ m'.ids = m.ids ∧ m'.adj = m.adj := by
  intro af
  induction af with
  | nil =>
    intro m m' d _ _ _ hd hp
    simp only [deltaSum, Option.some.injEq] at hd
    simp only [patchAtoms, Option.some.injEq] at hp
    subst hd; subst hp
    simp
  | cons nc tl ih =>
    intro m m' d hf hnd hids hd hp
    obtain ⟨q, c⟩ := nc
    obtain ⟨c0, k, x, hpc, hmk, hax, hxc⟩ := hf (q, c) List.mem_cons_self
    simp only at hpc hmk
    simp only [deltaSum, hpc] at hd
    cases hdt : deltaSum r tl with
    | none => simp [hdt] at hd
    | some s =>
      simp only [hdt, Option.some.injEq] at hd
      simp only [patchAtoms, hmk] at hp
      have hhas : m.hasAtom k = true := by
        unfold Mol.hasAtom
        unfold Mol.atom? at hax
        rw [List.any_eq_true]
        exact ⟨(k, x), mem_of_lookup_local hax, by simp⟩
      rw [if_pos hhas] at hp
      simp only [List.map_cons, List.nodup_cons, hmk] at hnd
      have hf' : Faithful r (setCharge m k c) mp tl := by
        intro nc' hnc'
        obtain ⟨c0', k', x', h1, h2, h3, h4⟩ := hf nc' (List.mem_cons_of_mem _ hnc')
        have hkk : k' ≠ k := by
          intro e
          subst e
          exact hnd.1 (List.mem_map.mpr ⟨nc', hnc', h2⟩)
        refine ⟨c0', k', x', h1, h2, ?_, h4⟩
        unfold Mol.atom? at h3 ⊢
        rw [setCharge_atoms, lookup_setChargeEntry_ne k k' c hkk]
        exact h3
      have hids' : (setCharge m k c).ids.Nodup := by rw [ids_setCharge]; exact hids
      obtain ⟨r1, r2, r3⟩ := ih (setCharge m k c) m' s hf' hnd.2 hids' hdt hp
      refine ⟨?_, ?_, ?_⟩
      · rw [r1, molecularCharge_eq (setCharge m k c), setCharge_atoms,
          chargeSum_setCharge k c m.atoms x hids (by unfold Mol.atom? at hax; exact hax), molecularCharge_eq, hxc, ← hd]
        omega
      · rw [r2, ids_setCharge]
      · rw [r3]; rfl

theorem patchBonds_atoms (mp : List (Nat × Nat)) :
    ∀ (bf : List (Nat × Nat × Nat)) (m m' : Mol) (loc loc' : List Nat),
      patchBonds m mp loc bf = some (m', loc') → m'.atoms = m.atoms := by
  intro bf
  induction bf with
  | nil => intro m m' loc loc' h; simp only [patchBonds, Option.some.injEq, Prod.mk.injEq] at h; rw [← h.1]
  | cons b tl ih =>
    intro m m' loc loc' h
    obtain ⟨q1, q2, o⟩ := b
    simp only [patchBonds] at h
    split at h
    · split at h
      · cases h
      · have := ih _ _ _ _ h
        exact this
    · cases h

theorem chargeFaithful_elim (r : Rule) (m : Mol) (mp : List (Nat × Nat)) (h : chargeFaithful r m mp = true) :
    Faithful r m mp r.atomFix ∧ (r.atomFix.map fun nc => mapGet mp nc.1).Nodup := by
  unfold chargeFaithful at h
  simp only [Bool.and_eq_true, List.all_eq_true, decide_eq_true_eq] at h
  refine ⟨?_, h.2⟩
  intro nc hnc
  have := h.1 nc hnc
  cases hp : patCharge r nc.1 with
  | none => simp [hp] at this
  | some c0 =>
    cases hm : mapGet mp nc.1 with
    | none => simp [hp, hm] at this
    | some k =>
      simp only [hp, hm] at this
      cases hx : m.atom? k with
      | none => simp [hx] at this
      | some x =>
        simp only [hx, Option.map_some, beq_iff_eq, Option.some.injEq] at this
        exact ⟨c0, k, x, rfl, rfl, hx, this⟩

theorem applyPatch_charge (r : Rule) (hr : chargeDelta r = some 0) (m m' : Mol) (mp : List (Nat × Nat))
    (loc loc' : List Nat) (hf : chargeFaithful r m mp = true) (hids : m.ids.Nodup)
    (h : applyPatch m (FixRule.ofGen r) mp loc = some (m', loc')) :
    molecularCharge m' = molecularCharge m ∧ m'.ids = m.ids := by
  unfold applyPatch at h
  simp only [FixRule.ofGen] at h
  cases hp : patchAtoms m mp r.atomFix with
  | none => simp [hp] at h
  | some m1 =>
    simp only [hp] at h
    obtain ⟨hfa, hnd⟩ := chargeFaithful_elim r m mp hf
    obtain ⟨r1, r2, _⟩ := patchAtoms_charge r mp r.atomFix m m1 0 hfa hnd hids hr hp
    have ha := patchBonds_atoms mp r.bondFix m1 m' loc loc' h
    refine ⟨?_, ?_⟩
    · rw [molecularCharge_eq, ha, ← molecularCharge_eq, r1]; omega
    · unfold Mol.ids; rw [ha]; exact r2

theorem fixMatches_charge (r : Rule) (hr : chargeDelta r = some 0) :
    ∀ (ms : List (List (Nat × Nat))) (s s' : FixState), matchesFaithful r s ms = true → s.mol.ids.Nodup →
      fixMatches (FixRule.ofGen r) s ms = some s' →
      molecularCharge s'.mol = molecularCharge s.mol ∧ s'.mol.ids = s.mol.ids := by
  intro ms
  induction ms with
  | nil => intro s s' _ _ h; simp only [fixMatches, Option.some.injEq] at h; subst h; exact ⟨rfl, rfl⟩
  | cons mp rest ih =>
    intro s s' hf hids h
    simp only [fixMatches] at h
    simp only [matchesFaithful] at hf
    have hmulti : (FixRule.ofGen r).multi = r.multi := rfl
    rw [hmulti] at h
    split at h
    · rename_i hc
      rw [if_pos hc] at hf
      exact ih s s' hf hids h
    · rename_i hc
      rw [if_neg hc] at hf
      cases hap : applyPatch s.mol (FixRule.ofGen r) mp s.localized with
      | none => simp [hap] at h
      | some res =>
        obtain ⟨m', loc⟩ := res
        simp only [hap, Bool.and_eq_true] at h hf
        obtain ⟨a1, a2⟩ := applyPatch_charge r hr s.mol m' mp s.localized loc hf.1 hids hap
        obtain ⟨b1, b2⟩ := ih _ s' hf.2 (by simp only; rw [a2]; exact hids) h
        exact ⟨by rw [b1]; exact a1, by rw [b2]; exact a2⟩

theorem fixLoop_charge : ∀ (rs : List Rule) (maps : List (List (List (Nat × Nat)))) (s s' : FixState),
    (∀ r ∈ rs, chargeDelta r = some 0) → loopFaithful rs maps s = true → s.mol.ids.Nodup →
    fixLoop (rs.map FixRule.ofGen) maps s = some s' →
    molecularCharge s'.mol = molecularCharge s.mol ∧ s'.mol.ids = s.mol.ids := by
  intro rs
  induction rs with
  | nil => intro maps s s' _ _ _ h; simp only [List.map_nil, fixLoop, Option.some.injEq] at h; subst h; exact ⟨rfl, rfl⟩
  | cons r rs ih =>
    intro maps s s' hall hf hids h
    cases maps with
    | nil => simp only [List.map_cons, fixLoop, Option.some.injEq] at h; subst h; exact ⟨rfl, rfl⟩
    | cons ms mss =>
      simp only [List.map_cons, fixLoop] at h
      simp only [loopFaithful, Bool.and_eq_true] at hf
      cases hm : fixMatches (FixRule.ofGen r) s ms with
      | none => simp [hm] at h
      | some s1 =>
        simp only [hm] at h hf
        obtain ⟨a1, a2⟩ := fixMatches_charge r (hall r List.mem_cons_self) ms s s1 hf.1 hids hm
        obtain ⟨b1, b2⟩ := ih mss s1 s' (fun r' hr' => hall r' (List.mem_cons_of_mem _ hr')) hf.2
          (by rw [a2]; exact hids) h
        exact ⟨by rw [b1]; exact a1, by rw [b2]; exact a2⟩

theorem setH_charge (m : Mol) (n : Nat) (h : Option Nat) : molecularCharge (setH m n h) = molecularCharge m := by
  unfold molecularCharge setH
  simp only [List.map_map]
  congr 1
  apply List.map_congr_left
  intro p _
  simp only [Function.comp, setHEntry]
  split <;> rfl

theorem fixHydrogens_charge : ∀ (ns : List Nat) (m m' : Mol), fixHydrogens ns m = some m' →
    molecularCharge m' = molecularCharge m := by
  intro ns
  induction ns with
  | nil => intro m m' h; simp only [fixHydrogens, Option.some.injEq] at h; rw [h]
  | cons n ns ih =>
    intro m m' h
    simp only [fixHydrogens] at h
    split at h
    · cases hc : calcImplicitMol m n with
      | none => simp [hc] at h
      | some hh =>
        simp only [hc] at h
        rw [ih _ _ h, setH_charge]
    · exact ih _ _ h

end ChythonModel.Proofs.C05

namespace ChythonModel.Proofs.C05
open ChythonModel.Model ChythonModel.Model.C05 ChythonModel.Gen.Aromatic
open ChythonModel.Model.Valence (setH setHEntry calcImplicitMol)

theorem setH_ids (m : Mol) (n : Nat) (h : Option Nat) : (setH m n h).ids = m.ids := by
  unfold Mol.ids setH
  simp only [List.map_map]
  apply List.map_congr_left
  intro p _
  simp only [Function.comp, setHEntry]
  split <;> rfl

theorem fixHydrogens_ids : ∀ (ns : List Nat) (m m' : Mol), fixHydrogens ns m = some m' → m'.ids = m.ids := by
  intro ns
  induction ns with
  | nil => intro m m' h; simp only [fixHydrogens, Option.some.injEq] at h; rw [h]
  | cons n ns ih =>
    intro m m' h
    simp only [fixHydrogens] at h
    split at h
    · cases hc : calcImplicitMol m n with
      | none => simp [hc] at h
      | some hh =>
        simp only [hc] at h
        rw [ih _ _ h, setH_ids]
    · exact ih _ _ h

end ChythonModel.Proofs.C05
