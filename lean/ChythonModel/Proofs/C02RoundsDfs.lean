import ChythonModel.Proofs.C02DfsCover
import ChythonModel.Proofs.C02Rounds
/-!
# C02 — from one DFS run to the rounds of `smilesRounds`
-/
namespace ChythonModel.Proofs.C02
open ChythonModel.Model ChythonModel.Model.SmilesWriter ChythonModel.Model.C02RT

theorem emit_order (m : Mol) (opts : Opts) (sc : SCtx) (casted : List (Nat × Nat)) (tokens : List (Nat × List (Nat × Nat))) :
    ∀ (smi : List FTok) vb out order vb', emit m opts sc casted tokens smi vb = .ok (out, order, vb') →
      order = fatoms smi := by
  intro smi
  induction smi with
  | nil => intro vb out order vb' h; simp [emit] at h; simp [h.2.1, fatoms]
  | cons t tl ih =>
    intro vb out order vb' h
    cases t with
    | atom n =>
      simp only [emit] at h
      split at h
      · cases h
      · split at h
        · cases h
        · split at h
          · cases h
          · split at h
            · cases h
            · rename_i rest order' vb2 hr
              simp only [Except.ok.injEq, Prod.mk.injEq] at h
              rw [← h.2.1, ih _ _ _ _ hr]
              simp [fatoms, List.filterMap_cons]
    | bond a b =>
      simp only [emit] at h
      split at h
      · cases h
      · split at h
        · cases h
        · rename_i rest order' vb2 hr
          simp only [Except.ok.injEq, Prod.mk.injEq] at h
          rw [← h.2.1, ih _ _ _ _ hr]
          simp [fatoms, List.filterMap_cons]
    | lpar =>
      simp only [emit] at h
      split at h
      · cases h
      · rename_i rest order' vb2 hr
        simp only [Except.ok.injEq, Prod.mk.injEq] at h
        rw [← h.2.1, ih _ _ _ _ hr]
        simp [fatoms, List.filterMap_cons]
    | rpar =>
      simp only [emit] at h
      split at h
      · cases h
      · rename_i rest order' vb2 hr
        simp only [Except.ok.injEq, Prod.mk.injEq] at h
        rw [← h.2.1, ih _ _ _ _ hr]
        simp [fatoms, List.filterMap_cons]

theorem minKeyed_mem {α} : ∀ (l : List (α × Key)) (p : α × Key), minKeyed l = some p → p ∈ l := by
  intro l
  induction l with
  | nil => intro p h; simp [minKeyed] at h
  | cons x tl ih =>
    intro p h
    simp only [minKeyed] at h
    split at h
    · cases h; simp
    · rename_i y hy
      split at h
      · cases h; simp
      · cases h; exact List.mem_cons_of_mem _ (ih _ hy)

/-- what the molecule-level loop knows about `atoms_set` before a round -/
structure SetOk (m : Mol) (S : List Nat) : Prop where
  nodup : S.Nodup
  sub : ∀ a ∈ S, a ∈ m.ids
  closed : ∀ a ∈ S, ∀ b ∈ nk m a, b ∈ S

theorem SetOk.length_le {m : Mol} {S : List Nat} (h : SetOk m S) : S.length ≤ m.atoms.length := by
  have := nodup_subset_length_le h.nodup h.sub
  simpa [Mol.ids] using this

/-- `traverse` after the iteration order of `atoms_set` has been chosen -/
def traverseTail (m : Mol) (env : Env) (opts : Opts) (groups : List (Int × Int)) (g : Global) (iter : List Nat) :
    Except Err (Nat × List (Nat × Int) × Dfs) := do
  let (ks, draws1) ← keysFor env opts groups g.seen false g.draws iter
  let start ← match minKeyed ks with | some p => pure p.1 | none => .error .keyError
  let nAtoms := m.atoms.length
  let seen ← if opts.random then pure g.seen
             else bfs m (nAtoms + 1) [(start, 1)] (alSet g.seen start 0)
  let (ks0, draws2) ← keysFor env opts groups seen true draws1 ((m.nbrs start).map (·.1))
  let d0 : Dfs := { stack := [{ parent := start, depth := g.atomsSet.length, children := (sortKeyed ks0).map (·.1) }],
                    visited := [(start, [])], cycle := g.cycle, draws := draws2 }
  let d ← dfsRun m env opts groups seen (2 * (degreeSum m + nAtoms) + 2) d0
  pure (start, seen, d)

def iterChoice (env : Env) (opts : Opts) (g : Global) : Except Err (List Nat) :=
  if opts.random then pure g.atomsSet else match env.setOrders[g.round]? with
    | some l => if l.length == g.atomsSet.length && g.atomsSet.all l.contains then pure l else .error .script
    | none => if g.atomsSet.length ≤ 1 then pure g.atomsSet else .error .script

theorem traverse_eq (m : Mol) (env : Env) (opts : Opts) (groups : List (Int × Int)) (g : Global) :
    traverse m env opts groups g = (iterChoice env opts g >>= traverseTail m env opts groups g) := by
  unfold traverse traverseTail iterChoice
  by_cases hr : opts.random = true
  · simp only [hr, if_true]; rfl
  · simp only [hr, if_false]
    cases hso : env.setOrders[g.round]? with
    | none =>
      simp only []
      by_cases hc : g.atomsSet.length ≤ 1
      · simp only [hc, if_true]; rfl
      · simp only [hc, if_false]; rfl
    | some l =>
      simp only []
      by_cases hc : (l.length == g.atomsSet.length && g.atomsSet.all l.contains) = true
      · simp only [hc, if_true]; rfl
      · simp only [hc, if_false]; rfl

theorem iterChoice_perm {env : Env} {opts : Opts} {g : Global} {iter : List Nat} (hn : g.atomsSet.Nodup)
    (h : iterChoice env opts g = .ok iter) : g.atomsSet.Perm iter := by
  unfold iterChoice at h
  split at h
  · cases h; exact List.Perm.refl _
  · split at h
    · split at h
      · rename_i hc
        cases h
        simp only [Bool.and_eq_true, beq_iff_eq, List.all_eq_true, List.contains_iff_mem] at hc
        exact perm_of_length_subset hn hc.1 (fun x hx => by simpa using hc.2 x hx)
      · cases h
    · split at h
      · cases h; exact List.Perm.refl _
      · cases h

theorem traverseTail_result {m : Mol} {env : Env} {opts : Opts} {groups} {g : Global} {iter : List Nat} {start seen d}
    (hwf : m.WF = true) (hS : SetOk m g.atomsSet) (hip : g.atomsSet.Perm iter)
    (h : traverseTail m env opts groups g iter = .ok (start, seen, d)) :
    start ∈ g.atomsSet ∧ DfsResult m g.atomsSet start g.cycle d := by
  unfold traverseTail at h
  simp only [bind, Except.bind, pure, Except.pure] at h
  cases hks : keysFor env opts groups g.seen false g.draws iter with
  | error e => rw [hks] at h; cases h
  | ok ksd =>
    obtain ⟨ks, draws1⟩ := ksd
    rw [hks] at h; simp only at h
    have hkp := keysFor_perm (hip.nodup_iff.1 hS.nodup) hks
    cases hmin : minKeyed ks with
    | none => rw [hmin] at h; cases h
    | some p =>
      rw [hmin] at h; simp only at h
      have hstart : p.1 ∈ g.atomsSet :=
        hip.mem_iff.2 (hkp.mem_iff.2 (List.mem_map.2 ⟨p, minKeyed_mem _ _ hmin, rfl⟩))
      have fin : ∀ seen' ks0 draws2 d',
          keysFor env opts groups seen' true draws1 ((m.nbrs p.1).map (·.1)) = .ok (ks0, draws2) →
          dfsRun m env opts groups seen' (2 * (degreeSum m + m.atoms.length) + 2)
            { stack := [{ parent := p.1, depth := g.atomsSet.length, children := (sortKeyed ks0).map (·.1) }],
              visited := [(p.1, [])], cycle := g.cycle, draws := draws2 } = .ok d' →
          p.1 ∈ g.atomsSet ∧ DfsResult m g.atomsSet p.1 g.cycle d' := by
        intro seen' ks0 draws2 d' hks0 hd
        have hk0 := keysFor_perm (wf_nbrs hwf p.1).1 hks0
        exact ⟨hstart, dfsRun_result hwf hS.closed hS.length_le hstart
          (hk0.trans (sortKeyed_fst_perm ks0).symm) hd⟩
      split at h
      · split at h
        · cases h
        · rename_i ksd0 hks0
          obtain ⟨ks0, draws2⟩ := ksd0
          split at h
          · cases h
          · rename_i d' hd
            simp only [Except.ok.injEq, Prod.mk.injEq] at h
            obtain ⟨rfl, rfl, rfl⟩ := h
            exact fin _ _ _ _ hks0 hd
      · split at h
        · cases h
        · split at h
          · cases h
          · rename_i ksd0 hks0
            obtain ⟨ks0, draws2⟩ := ksd0
            split at h
            · cases h
            · rename_i d' hd
              simp only [Except.ok.injEq, Prod.mk.injEq] at h
              obtain ⟨rfl, rfl, rfl⟩ := h
              exact fin _ _ _ _ hks0 hd

theorem traverse_result {m : Mol} {env : Env} {opts : Opts} {groups} {g : Global} {start seen d}
    (hwf : m.WF = true) (hS : SetOk m g.atomsSet)
    (h : traverse m env opts groups g = .ok (start, seen, d)) :
    start ∈ g.atomsSet ∧ DfsResult m g.atomsSet start g.cycle d := by
  rw [traverse_eq] at h
  simp only [bind, Except.bind] at h
  split at h
  · cases h
  · rename_i iter hiter
    exact traverseTail_result hwf hS (iterChoice_perm hS.nodup hiter) h

theorem finishRound_fields {m env opts g start seen d r order g'}
    (h : finishRound m env opts g start seen d = .ok (r, order, g')) :
    r.start = start ∧ r.visited = vis d ∧ r.edges = d.edges ∧ r.tokens = d.tokens ∧
    r.smi = flatten d.edges (m.atoms.length + 1) start ∧ order = fatoms r.smi ∧
    g'.atomsSet = g.atomsSet.filter (fun n => !(vis d).contains n) ∧ g'.cycle = d.cycle := by
  unfold finishRound at h
  simp only at h
  split at h
  · cases h
  · split at h
    · cases h
    · split at h
      · cases h
      · rename_i out order' vb he
        simp only [Except.ok.injEq, Prod.mk.injEq] at h
        obtain ⟨rfl, rfl, rfl⟩ := h
        exact ⟨rfl, rfl, rfl, rfl, rfl, emit_order _ _ _ _ _ _ _ _ _ _ he, rfl, rfl⟩

/-! ## rounds -/

theorem DfsResult.closed {m : Mol} {S : List Nat} {start c0 : Nat} {d : Dfs} (h : DfsResult m S start c0 d) :
    ∀ a ∈ vis d, ∀ b ∈ nk m a, b ∈ vis d := by
  intro a ha b hb
  rcases h.covered a ha b hb with h1 | h1 | h1
  · exact (h.inv.treeMem _ _ h1).2.1
  · exact (h.inv.treeMem _ _ h1).1
  · exact (h.inv.discMem _ _ h1).2.1

/-- one round of the writer is one DFS run on the remaining atoms -/
structure RoundDfs (m : Mol) (S : List Nat) (c0 c1 : Nat) (r : Round) : Prop where
  ex : ∃ d, DfsResult m S r.start c0 d ∧ r.visited = vis d ∧ r.edges = d.edges ∧ r.tokens = d.tokens ∧ d.cycle = c1
  startS : r.start ∈ S
  smi : r.smi = flatten r.edges (m.atoms.length + 1) r.start

def RoundsDfs (m : Mol) : List Nat → Nat → List Round → Prop
  | S, _, [] => S = []
  | S, c0, r :: rs => ∃ c1, RoundDfs m S c0 c1 r ∧ RoundsDfs m (S.filter fun n => !r.visited.contains n) c1 rs

theorem SetOk.filter {m : Mol} {S : List Nat} (hwf : m.WF = true) (hS : SetOk m S) (V : List Nat)
    (hV : ∀ a ∈ V, ∀ b ∈ nk m a, b ∈ V) : SetOk m (S.filter fun n => !V.contains n) where
  nodup := hS.nodup.filter _
  sub := fun a ha => hS.sub a (List.mem_filter.1 ha).1
  closed := fun a ha b hb => by
    obtain ⟨ha1, ha2⟩ := List.mem_filter.1 ha
    refine List.mem_filter.2 ⟨hS.closed a ha1 b hb, ?_⟩
    simp only [Bool.not_eq_eq_eq_not, Bool.not_true, List.contains_eq_mem, decide_eq_false_iff_not] at ha2 ⊢
    intro hbV
    exact ha2 (hV b hbV a ((wf_nbrs hwf a).2 b hb).2.2)

theorem oneRound_dfs {m : Mol} {env : Env} {opts : Opts} {groups} {g g' : Global} {r : Round} {order : List Nat}
    (hwf : m.WF = true) (hS : SetOk m g.atomsSet) (h : oneRound m env opts groups g = .ok (r, order, g')) :
    RoundDfs m g.atomsSet g.cycle g'.cycle r ∧ order = r.visited ∧
      g'.atomsSet = g.atomsSet.filter (fun n => !r.visited.contains n) := by
  unfold oneRound at h
  split at h
  · cases h
  · rename_i start seen d ht
    obtain ⟨hst, hres⟩ := traverse_result hwf hS ht
    obtain ⟨e1, e2, e3, e4, e5, e6, e7, e8⟩ := finishRound_fields h
    subst e1
    refine ⟨⟨⟨d, hres, e2, e3, e4, e8.symm⟩, hst, by rw [e5, e3]⟩, ?_, by rw [e7, e2]⟩
    rw [e6, e5, hres.atoms, e2]

theorem rounds_dfs {m : Mol} {env : Env} {opts : Opts} {groups} (hwf : m.WF = true) :
    ∀ (fuel : Nat) (g : Global) rs order, SetOk m g.atomsSet → rounds m env opts groups fuel g = .ok (rs, order) →
      RoundsDfs m g.atomsSet g.cycle rs ∧ order = rs.flatMap (·.visited) := by
  intro fuel
  induction fuel with
  | zero => intro g rs order _ h; simp [rounds] at h
  | succ f ih =>
    intro g rs order hS h
    simp only [rounds] at h
    split at h
    · cases h
    · rename_i r order1 g' h1
      obtain ⟨hr, ho, hs⟩ := oneRound_dfs hwf hS h1
      split at h
      · rename_i hemp
        simp only [Except.ok.injEq, Prod.mk.injEq] at h
        obtain ⟨rfl, rfl⟩ := h
        refine ⟨⟨g'.cycle, hr, ?_⟩, by simp [ho]⟩
        show _ = []
        rw [← hs]; simpa using hemp
      · split at h
        · cases h
        · rename_i rs' order' h2
          simp only [Except.ok.injEq, Prod.mk.injEq] at h
          obtain ⟨rfl, rfl⟩ := h
          obtain ⟨d, hd, hv, _⟩ := hr.ex
          have hS' : SetOk m g'.atomsSet := by
            rw [hs]
            exact hS.filter hwf _ (hv ▸ hd.closed)
          obtain ⟨i1, i2⟩ := ih g' rs' order' hS' h2
          refine ⟨⟨g'.cycle, hr, ?_⟩, by simp [ho, i2]⟩
          rw [← hs]; exact i1

theorem smilesRounds_dfs {m : Mol} {env : Env} {opts : Opts} {rs : List Round} {order : List Nat}
    (hwf : m.WF = true) (h : smilesRounds m env opts = .ok (rs, order)) :
    RoundsDfs m m.ids 0 rs ∧ order = rs.flatMap (·.visited) := by
  unfold smilesRounds at h
  split at h
  · rename_i hemp
    simp only [Except.ok.injEq, Prod.mk.injEq] at h
    obtain ⟨rfl, rfl⟩ := h
    have : m.ids = [] := by
      have : m.atoms = [] := by simpa using hemp
      simp [Mol.ids, this]
    exact ⟨this, rfl⟩
  · split at h
    · cases h
    · have hS : SetOk m (initialGlobal m env).atomsSet :=
        ⟨wf_ids_nodup hwf, fun a ha => ha, fun a _ b hb => ((wf_nbrs hwf a).2 b hb).2.1⟩
      exact rounds_dfs hwf _ _ _ _ hS h

end ChythonModel.Proofs.C02
