import ChythonModel.Proofs.C02Heap
namespace ChythonModel.Proofs.C02
open ChythonModel.Model ChythonModel.Model.SmilesWriter ChythonModel.Model.C02RT

/-! ## pairing by closure number = pairing by cycle identity -/

def mapKeys (f : Nat → Nat) (opened : List (Nat × Nat)) : List (Nat × Nat) := opened.map fun p => (f p.1, p.2)
def keysOf (opened : List (Nat × Nat)) : List Nat := opened.map (·.1)

/-- at every event the key function does not confuse the event's cycle with an open one -/
def InjRun (f : Nat → Nat) : List (Nat × Nat) → List (Nat × Nat) → Prop
  | _, [] => True
  | opened, ev :: evs => (∀ k ∈ keysOf opened, f k = f ev.2 → k = ev.2) ∧ InjRun f (pairStep opened ev).1 evs

theorem lookup_mapKeys (f : Nat → Nat) (c : Nat) : ∀ (opened : List (Nat × Nat)),
    (∀ k ∈ keysOf opened, f k = f c → k = c) → (mapKeys f opened).lookup (f c) = opened.lookup c := by
  intro opened
  induction opened with
  | nil => intro _; rfl
  | cons p tl ih =>
    intro h
    have ih' := ih (fun k hk => h k (by simp [keysOf] at hk ⊢; exact Or.inr hk))
    simp only [mapKeys, List.map_cons, List.lookup] at ih' ⊢
    by_cases hc : c = p.1
    · subst hc; simp
    · have : f c ≠ f p.1 := by
        intro e; exact hc (h p.1 (by simp [keysOf]) e.symm).symm
      have e1 : (f c == f p.1) = false := by simp [this]
      have e2 : (c == p.1) = false := by simp [hc]
      simp only [e1, e2]
      exact ih'

theorem filter_mapKeys (f : Nat → Nat) (c : Nat) : ∀ (opened : List (Nat × Nat)),
    (∀ k ∈ keysOf opened, f k = f c → k = c) →
    (mapKeys f opened).filter (fun p => p.1 != f c) = mapKeys f (opened.filter (fun p => p.1 != c)) := by
  intro opened
  induction opened with
  | nil => intro _; rfl
  | cons p tl ih =>
    intro h
    have ih' := ih (fun k hk => h k (by simp [keysOf] at hk ⊢; exact Or.inr hk))
    simp only [mapKeys, List.map_cons, List.filter_cons] at ih' ⊢
    by_cases hc : p.1 = c
    · simp [hc, ih']
    · have : f p.1 ≠ f c := fun e => hc (h p.1 (by simp [keysOf]) e)
      simp [hc, this, ih']

theorem pairStep_mapKeys (f : Nat → Nat) (opened : List (Nat × Nat)) (ev : Nat × Nat)
    (h : ∀ k ∈ keysOf opened, f k = f ev.2 → k = ev.2) :
    pairStep (mapKeys f opened) (ev.1, f ev.2) = (mapKeys f (pairStep opened ev).1, (pairStep opened ev).2) := by
  simp only [pairStep, lookup_mapKeys f ev.2 opened h]
  cases opened.lookup ev.2 with
  | none => simp [mapKeys]
  | some a => simp [filter_mapKeys f ev.2 opened h]

/-- **pairing**: reading the closures by their written numbers pairs the same atoms, in the same order, as pairing
    them by the writer's cycle identity, provided the numbering never confuses a cycle with an open one -/
theorem pairAll_mapKeys (f : Nat → Nat) : ∀ (evs opened : List (Nat × Nat)), InjRun f opened evs →
    pairAll (mapKeys f opened) (evs.map fun e => (e.1, f e.2)) =
      (mapKeys f (pairAll opened evs).1, (pairAll opened evs).2) := by
  intro evs
  induction evs with
  | nil => intro opened _; rfl
  | cons ev tl ih =>
    intro opened h
    obtain ⟨h1, h2⟩ := h
    simp only [List.map_cons, pairAll, pairStep_mapKeys f opened ev h1]
    rw [ih _ h2]

/-! ### the allocator provides the injectivity -/

theorem lookup_isSome_iff (opened : List (Nat × Nat)) (c : Nat) :
    (opened.lookup c).isSome = true ↔ c ∈ keysOf opened := by
  induction opened with
  | nil => simp [keysOf]
  | cons p tl ih =>
    simp only [List.lookup, keysOf, List.map_cons, List.mem_cons] at ih ⊢
    by_cases hc : c = p.1
    · simp [hc]
    · have e : (c == p.1) = false := by simp [hc]
      simp only [e]; rw [ih]; simp [hc]

theorem keysOf_pairStep_mem (opened : List (Nat × Nat)) (ev : Nat × Nat) (x : Nat) (h : ev.2 ∈ keysOf opened) :
    x ∈ keysOf (pairStep opened ev).1 ↔ x ∈ keysOf opened ∧ x ≠ ev.2 := by
  have hl := (lookup_isSome_iff opened ev.2).mpr h
  simp only [pairStep]
  cases hlk : opened.lookup ev.2 with
  | none => rw [hlk] at hl; simp at hl
  | some a =>
    simp only [keysOf, List.mem_map, List.mem_filter]
    constructor
    · rintro ⟨p, ⟨hp, hne⟩, rfl⟩; exact ⟨⟨p, hp, rfl⟩, by simpa using hne⟩
    · rintro ⟨⟨p, hp, rfl⟩, hne⟩; exact ⟨p, ⟨hp, by simpa using hne⟩, rfl⟩

theorem keysOf_pairStep_not (opened : List (Nat × Nat)) (ev : Nat × Nat) (x : Nat) (h : ev.2 ∉ keysOf opened) :
    x ∈ keysOf (pairStep opened ev).1 ↔ x ∈ keysOf opened ∨ x = ev.2 := by
  have hl : opened.lookup ev.2 = none := by
    cases hlk : opened.lookup ev.2 with
    | none => rfl
    | some a => exact absurd ((lookup_isSome_iff opened ev.2).mp (by rw [hlk]; rfl)) h
  simp [pairStep, hl, keysOf]

def evAtom (n : Nat) (cyc : List Nat) : List (Nat × Nat) := cyc.map fun c => (n, c)

theorem injRun_atom (f : Nat → Nat) (S : List Nat) (hinj : ∀ a ∈ S, ∀ b ∈ S, f a = f b → a = b) (n : Nat) :
    ∀ (cyc : List Nat) (opened : List (Nat × Nat)), (∀ x ∈ keysOf opened, x ∈ S) → (∀ c ∈ cyc, c ∈ S) →
      InjRun f opened (evAtom n cyc) := by
  intro cyc
  induction cyc with
  | nil => intro _ _ _; trivial
  | cons c tl ih =>
    intro opened hk hc
    refine ⟨fun k hkk e => hinj k (hk k hkk) c (hc c (by simp)) e, ?_⟩
    apply ih
    · intro x hx
      by_cases hco : c ∈ keysOf opened
      · rw [keysOf_pairStep_mem opened (n, c) x hco] at hx
        exact hk x hx.1
      · rw [keysOf_pairStep_not opened (n, c) x hco] at hx
        rcases hx with hx | rfl
        · exact hk x hx
        · exact hc _ (by simp)
    · intro c' hc'; exact hc c' (by simp [hc'])

theorem keysOf_pairAll_atom (n : Nat) : ∀ (cyc : List Nat) (opened : List (Nat × Nat)), cyc.Nodup →
    ∀ x, x ∈ keysOf (pairAll opened (evAtom n cyc)).1 ↔
      (x ∈ keysOf opened ∧ x ∉ cyc) ∨ (x ∈ cyc ∧ x ∉ keysOf opened) := by
  intro cyc
  induction cyc with
  | nil => intro opened _ x; simp [evAtom, pairAll]
  | cons c tl ih =>
    intro opened hnd x
    have hnd' := List.nodup_cons.mp hnd
    simp only [evAtom, List.map_cons, pairAll]
    have := ih (pairStep opened (n, c)).1 hnd'.2 x
    simp only [evAtom] at this
    rw [this]
    by_cases hco : c ∈ keysOf opened
    · rw [keysOf_pairStep_mem opened (n, c) x hco]
      simp only [List.mem_cons]
      by_cases hx : x = c
      · subst hx; simp [hco, hnd'.1]
      · simp [hx]
    · rw [keysOf_pairStep_not opened (n, c) x hco]
      simp only [List.mem_cons]
      by_cases hx : x = c
      · subst hx; simp [hco, hnd'.1]
      · simp [hx]

theorem injRun_append (f : Nat → Nat) : ∀ (A B opened : List (Nat × Nat)),
    InjRun f opened A → InjRun f (pairAll opened A).1 B → InjRun f opened (A ++ B) := by
  intro A
  induction A with
  | nil => intro B opened _ h; simpa [pairAll] using h
  | cons a tl ih =>
    intro B opened h1 h2
    exact ⟨h1.1, ih B _ h1.2 (by simpa [pairAll] using h2)⟩

theorem pairAll_append : ∀ (A B opened : List (Nat × Nat)),
    pairAll opened (A ++ B) = ((pairAll (pairAll opened A).1 B).1, (pairAll opened A).2 ++ (pairAll (pairAll opened A).1 B).2) := by
  intro A
  induction A with
  | nil => intro B opened; simp [pairAll]
  | cons a tl ih => intro B opened; simp [pairAll, ih, List.append_assoc]

/-- on `S` every cycle has a number and different cycles have different numbers -/
def InjOnL (casted : List (Nat × Nat)) (S : List Nat) : Prop :=
  (∀ c ∈ S, ∃ k, casted.lookup c = some k) ∧ ∀ c ∈ S, ∀ c' ∈ S, casted.lookup c = casted.lookup c' → c = c'

/-- at every closure atom the final numbering separates the cycles open before it and the cycles on it -/
def InjAll (casted : List (Nat × Nat)) : List Nat → List (List Nat) → Prop
  | _, [] => True
  | O, cyc :: tl => InjOnL casted (O ++ cyc) ∧ InjAll casted (toggle O cyc) tl

theorem castAtom_injOn (cyc : List Nat) (casted : List (Nat × Nat)) (heap opened : List Nat)
    (casted' : List (Nat × Nat)) (heap1 released : List Nat)
    (hH : Held casted heap opened) (hnd : cyc.Nodup) (hfr : ∀ c ∈ cyc, c ∈ opened ∨ casted.lookup c = none)
    (h : castOne cyc casted heap [] = .ok (casted', heap1, released)) : InjOnL casted' (opened ++ cyc) := by
  obtain ⟨S', closed', h1, _, _, h4, _, _⟩ := castOne_held cyc casted heap [] opened [] casted' heap1 released hH
    ⟨by simp, by simp⟩ (by simp) hnd (by simp) hfr h
  refine ⟨?_, ?_⟩
  · intro c hc
    obtain ⟨k, hk, _⟩ := h1.has c (by rw [h4]; simpa using hc)
    exact ⟨k, hk⟩
  · intro c hc c' hc' e
    exact h1.inj c (by rw [h4]; simpa using hc) c' (by rw [h4]; simpa using hc') e

theorem castOne_stable : ∀ (cyc : List Nat) (casted : List (Nat × Nat)) (heap released : List Nat)
    (casted' : List (Nat × Nat)) (heap' released' : List Nat),
    castOne cyc casted heap released = .ok (casted', heap', released') →
    ∀ x k, casted.lookup x = some k → casted'.lookup x = some k := by
  intro cyc
  induction cyc with
  | nil =>
    intro casted heap released casted' heap' released' h x k hx
    simp only [castOne, Except.ok.injEq, Prod.mk.injEq] at h
    obtain ⟨rfl, _, _⟩ := h
    exact hx
  | cons c cs ih =>
    intro casted heap released casted' heap' released' h x k hx
    simp only [castOne] at h
    split at h
    · exact ih _ _ _ _ _ _ h x k hx
    · split at h
      · cases h
      · exact ih _ _ _ _ _ _ h x k (lookup_append_of_some _ _ _ _ hx)

theorem castSeq_stable : ∀ (L : List (List Nat)) (casted : List (Nat × Nat)) (heap : List Nat)
    (casted' : List (Nat × Nat)) (heap' : List Nat),
    castSeq L casted heap = .ok (casted', heap') → ∀ x k, casted.lookup x = some k → casted'.lookup x = some k := by
  intro L
  induction L with
  | nil =>
    intro casted heap casted' heap' h x k hx
    simp only [castSeq, Except.ok.injEq, Prod.mk.injEq] at h
    obtain ⟨rfl, _⟩ := h
    exact hx
  | cons cyc tl ih =>
    intro casted heap casted' heap' h x k hx
    simp only [castSeq] at h
    split at h
    · cases h
    · rename_i c1 h1 rel hc
      exact ih _ _ _ _ h x k (castOne_stable _ _ _ _ _ _ _ hc x k hx)

theorem InjOnL.stable {c1 c2 : List (Nat × Nat)} {S : List Nat} (h : InjOnL c1 S)
    (hs : ∀ x k, c1.lookup x = some k → c2.lookup x = some k) : InjOnL c2 S := by
  refine ⟨?_, ?_⟩
  · intro c hc
    obtain ⟨k, hk⟩ := h.1 c hc
    exact ⟨k, hs c k hk⟩
  · intro c hc c' hc' e
    obtain ⟨k, hk⟩ := h.1 c hc
    obtain ⟨k', hk'⟩ := h.1 c' hc'
    rw [hs c k hk, hs c' k' hk'] at e
    exact h.2 c hc c' hc' (by rw [hk, hk', e])

theorem castSeq_injAll : ∀ (L : List (List Nat)) (casted : List (Nat × Nat)) (heap opened seen : List Nat)
    (casted' : List (Nat × Nat)) (heap' : List Nat),
    Held casted heap opened → KeysSeen casted seen → cyclesWF opened seen L = true →
    castSeq L casted heap = .ok (casted', heap') → InjAll casted' opened L := by
  intro L
  induction L with
  | nil => intros; trivial
  | cons cyc tl ih =>
    intro casted heap opened seen casted' heap' hH hK hwf h
    simp only [cyclesWF, Bool.and_eq_true, decide_eq_true_eq, List.all_eq_true, Bool.or_eq_true,
      List.contains_eq_mem, Bool.not_eq_eq_eq_not, Bool.not_true, decide_eq_false_iff_not] at hwf
    obtain ⟨⟨hnd, hfr⟩, hwf'⟩ := hwf
    simp only [castSeq] at h
    split at h
    · cases h
    · rename_i casted1 heap1 released hc
      have hfr' : ∀ c ∈ cyc, c ∈ opened ∨ casted.lookup c = none := by
        intro c hc
        rcases hfr c hc with h1 | h1
        · exact Or.inl (by simpa using h1)
        · right
          cases hl : casted.lookup c with
          | none => rfl
          | some k => exact absurd (hK c (by rw [hl]; simp)) (by simpa using h1)
      obtain ⟨hH1, _, _, _⟩ := castAtom_held cyc casted heap opened casted1 heap1 released hH hnd hfr' hc
      have hI := castAtom_injOn cyc casted heap opened casted1 heap1 released hH hnd hfr' hc
      have hK1 : KeysSeen casted1 (seen ++ cyc) := by
        intro c hne
        rcases castOne_keys _ _ _ _ _ _ _ hc c hne with h1 | h1
        · simp [hK c h1]
        · simp [h1]
      exact ⟨hI.stable (castSeq_stable _ _ _ _ _ h),
        ih casted1 (pushAll heap1 released) (toggle opened cyc) (seen ++ cyc) casted' heap' hH1 hK1 hwf' h⟩

/-- one closure atom: its number, the cycle list in the allocator's order and in the order the numbers are written -/
structure CAtom where
  n : Nat
  alloc : List Nat
  rd : List Nat
  deriving Repr

theorem injRun_atoms (casted : List (Nat × Nat)) : ∀ (As : List CAtom) (O : List Nat) (opened : List (Nat × Nat)),
    InjAll casted O (As.map (·.alloc)) → (∀ t ∈ As, t.alloc.Nodup ∧ t.rd.Nodup ∧ ∀ c, c ∈ t.rd ↔ c ∈ t.alloc) →
    (∀ x, x ∈ keysOf opened ↔ x ∈ O) →
    InjRun (fun c => (casted.lookup c).getD 0) opened (As.flatMap fun t => evAtom t.n t.rd) := by
  intro As
  induction As with
  | nil => intros; trivial
  | cons t tl ih =>
    intro O opened hI hA hk
    obtain ⟨hI1, hI2⟩ := hI
    obtain ⟨hnd, hrd, hmem⟩ := hA t (by simp)
    simp only [List.flatMap_cons]
    apply injRun_append
    · apply injRun_atom _ (O ++ t.alloc)
      · intro a ha b hb e
        obtain ⟨ka, hka⟩ := hI1.1 a ha
        obtain ⟨kb, hkb⟩ := hI1.1 b hb
        simp only [hka, hkb, Option.getD_some] at e
        exact hI1.2 a ha b hb (by rw [hka, hkb, e])
      · intro x hx; simp [(hk x).mp hx]
      · intro c hc; simp [(hmem c).mp hc]
    · apply ih (toggle O t.alloc) _ hI2 (fun t' ht' => hA t' (by simp [ht']))
      intro x
      rw [keysOf_pairAll_atom t.n t.rd opened hrd x, mem_toggle, hk x, hmem x]

/-- **closure_pairing** (abstract form): run the allocator over the closure atoms of a well-formed traversal and write,
    on every atom, the numbers of its cycles in ANY order.  Reading these numbers back with the reader's rule (an open
    number closes, any other opens) forms exactly the bonds, in the same order, that pairing the two ends of each cycle
    forms; and what is left open corresponds. -/
theorem pairing_by_number (As : List CAtom) (casted : List (Nat × Nat)) (heap : List Nat)
    (hwf : cyclesWF [] [] (As.map (·.alloc)) = true)
    (hA : ∀ t ∈ As, t.rd.Nodup ∧ ∀ c, c ∈ t.rd ↔ c ∈ t.alloc)
    (h : castSeq (As.map (·.alloc)) [] initialHeap = .ok (casted, heap)) :
    let f := fun c => (casted.lookup c).getD 0
    let evs := As.flatMap fun t => evAtom t.n t.rd
    pairAll [] (evs.map fun e => (e.1, f e.2)) = (mapKeys f (pairAll [] evs).1, (pairAll [] evs).2) := by
  intro f evs
  have hI := castSeq_injAll (As.map (·.alloc)) [] initialHeap [] [] casted heap held_initial
    (by intro c hc; simp at hc) hwf h
  have hnd : ∀ t ∈ As, t.alloc.Nodup := by
    -- from cyclesWF
    have : ∀ (L : List (List Nat)) (O S : List Nat), cyclesWF O S L = true → ∀ l ∈ L, l.Nodup := by
      intro L
      induction L with
      | nil => intro _ _ _ l hl; simp at hl
      | cons c tl ih =>
        intro O S hw l hl
        simp only [cyclesWF, Bool.and_eq_true, decide_eq_true_eq] at hw
        simp at hl
        rcases hl with rfl | hl
        · exact hw.1.1
        · exact ih _ _ hw.2 l hl
    intro t ht
    exact this _ _ _ hwf t.alloc (by simp; exact ⟨t, ht, rfl⟩)
  have hrun := injRun_atoms casted As [] [] hI (fun t ht => ⟨hnd t ht, (hA t ht).1, (hA t ht).2⟩) (by simp [keysOf])
  have := pairAll_mapKeys f evs [] hrun
  simpa [mapKeys] using this

end ChythonModel.Proofs.C02
