import ChythonModel.Spec.CycleBasis
/-!
# Minimality of a cycle basis relative to a candidate family — the exchange criterion, executable

Written from the textbook matroid argument (greedy optimality / basis exchange over GF(2)), not from chython's code.
Core Lean only: the driver links it.

A *weighted vector* is a pair `(w, v)`: `w` the length of the ring, `v` its GF(2) edge vector (`ringVec`).

* `SpanLE B w v`        : `v` is a GF(2) sum of members of `B` each of weight `≤ w`.
* `inSpanLE B w v`      : the executable test (Gaussian elimination over the members of weight `≤ w`).
* `checkMinimalWrt B F` : every member `(w, v)` of the family `F` satisfies `inSpanLE B w v`.
* `totalLen B`          : sum of the weights.

The theorem (`Props/C06.lean: minimal_wrt_family`): if the vectors of `B` are independent and `checkMinimalWrt B F`
accepts, then no independent `B' ⊆ F` with as many members as `B` has smaller total weight than `B`.
-/
namespace ChythonModel.Spec.CycleBasis
open ChythonModel.Model.C06

/-- weighted vectors `(ring length, edge vector)` -/
abbrev WVec := Nat × Nat

def totalLen (B : List WVec) : Nat := (B.map (·.1)).sum

/-- `v` is the GF(2) combination of `B` with coefficients `cs` that uses only members of weight `≤ w` -/
def SpanLE (B : List WVec) (w v : Nat) : Prop :=
  ∃ cs : List Bool, cs.length = B.length ∧ xorSel cs (B.map (·.2)) = v ∧
    ∀ (i : Nat) (b : WVec), cs[i]? = some true → B[i]? = some b → b.1 ≤ w

/-- executable: eliminate `v` against an echelon basis of the members of weight `≤ w` -/
def inSpanLE (B : List WVec) (w v : Nat) : Bool :=
  match echelon ((B.filter fun b => decide (b.1 ≤ w)).map (·.2)) with
  | none => false
  | some Ech => reduce Ech v == 0

/-- the exchange criterion, decided member by member of the family -/
def checkMinimalWrt (B F : List WVec) : Bool := F.all fun c => inSpanLE B c.1 c.2

/-- rings of a graph as weighted vectors over its edge list -/
def wvecs (g : Adj) (rings : List (List Nat)) : List WVec :=
  rings.map fun r => (r.length, ringVec (edgeList g) r)

/-- Horton's candidate family of the whole graph (all roots), as used by `minBasis` -/
def hortonFamily (g : Adj) : List (List Nat) := (keys g).flatMap (hortonFrom g (edgeList g))

/-- the verdict the driver prints for a reported ring list: minimal w.r.t. the Horton family -/
def checkMinimalHorton (g : Adj) (rings : List (List Nat)) : Bool :=
  checkMinimalWrt (wvecs g rings) (wvecs g (hortonFamily g))

/-- a cycle basis of `g`: simple cycles, GF(2)-independent, as many as the cyclomatic number -/
def IsCycleBasis (g : Adj) (R : List (List Nat)) : Prop :=
  (∀ r ∈ R, IsSimpleCycle g r) ∧ Independent (R.map (ringVec (edgeList g))) ∧ cyclomatic g = some (R.length : Int)

/-- total size of a ring list -/
def totalSize (R : List (List Nat)) : Nat := (R.map (·.length)).sum

/-- **Horton completeness** (Horton 1987, Thm 4: some minimum cycle basis consists of cycles `P(v,x) + (x,y) + P(y,v)`),
for the executable family `hortonFamily`: every cycle basis is matched or beaten by one drawn from the family.
This is the *named hypothesis* of `sssr_minimum_of_horton_complete`; it is not proved in Lean (validated per run: the greedy
basis over the family is compared with an all-cycles greedy for ≤ 6 atoms and with an independent Python Horton). -/
def HortonComplete (g : Adj) : Prop :=
  ∀ R, IsCycleBasis g R → ∃ R', (∀ r ∈ R', r ∈ hortonFamily g) ∧ IsCycleBasis g R' ∧ totalSize R' ≤ totalSize R

end ChythonModel.Spec.CycleBasis
