/-!
# Lewis electron counting for p-block atoms — written from the periodic table, not from chython

A main-group atom has `e` valence electrons (group number, or group − 10 for groups 13–18), minus its formal charge. In a Lewis structure
every unit of bond order (to a neighbour or to a hydrogen) uses one of them, an unpaired (radical) electron one
more, and the rest are lone pairs. Hence for total valence `V` (Σ bond orders + hydrogens):

    V + r ≤ e − q     and     e − q − V − r  is even          (r = 1 for a radical, else 0)

This bounds what any valence table may accept. The isolated atom (`V = 0`, e.g. `[P]`, `[B]`) is exempt: it is
not a Lewis structure of a molecule but a bare atom written in brackets.

`chargedValence`: the lowest normal valence of the common charged states of the organic subset, by the isoelectronic
rule (a cation of group 15–17 / an anion of group 13 gains one valence, an anion of group 14–17 / a cation of group
13–14 loses one): B⁻ 4 · C⁺ 3 · C⁻ 3 · N⁺ 4 · N⁻ 2 · O⁺ 3 · O⁻ 1 · O²⁻ 0 · F⁻ 0 · P⁺ 4 · P⁻ 2 · S⁻ 1 · S²⁻ 0 · Cl⁻ Br⁻ I⁻ 0.
-/
namespace ChythonModel.Spec.Lewis

/-- (atomic number, valence electrons) of every main-group element except hydrogen: groups 1, 2 and 13–18, periods 2–7
    (`e` = group number for groups 1–2, group − 10 for 13–18, 2 for He). Bi is left out, see design/C04.md. -/
def valenceElectrons : List (Nat × Nat) :=
  [(3, 1), (11, 1), (19, 1), (37, 1), (55, 1), (87, 1),
   (4, 2), (12, 2), (20, 2), (38, 2), (56, 2), (88, 2),
   (5, 3), (13, 3), (31, 3), (49, 3), (81, 3), (113, 3),
   (6, 4), (14, 4), (32, 4), (50, 4), (82, 4), (114, 4),
   (7, 5), (15, 5), (33, 5), (51, 5), (115, 5),
   (8, 6), (16, 6), (34, 6), (52, 6), (84, 6), (116, 6),
   (9, 7), (17, 7), (35, 7), (53, 7), (85, 7), (117, 7),
   (2, 2), (10, 8), (18, 8), (36, 8), (54, 8), (86, 8), (118, 8)]

/-- the electron-count condition for total valence `V` of an atom with `e` valence electrons, charge `q`, radical `r` -/
def ok (e : Nat) (q : Int) (r : Bool) (V : Nat) : Bool :=
  V == 0 ||
    (let rest : Int := (e : Int) - q - (V : Int) - (if r then 1 else 0)
     decide (0 ≤ rest) && rest % 2 == 0)

/-- ((atomic number, charge), lowest normal valence of that charged, non-radical state) -/
def chargedValence : List ((Nat × Int) × Nat) :=
  [((5, -1), 4), ((6, 1), 3), ((6, -1), 3), ((7, 1), 4), ((7, -1), 2), ((8, 1), 3), ((8, -1), 1), ((8, -2), 0),
   ((9, -1), 0), ((15, 1), 4), ((15, -1), 2), ((16, -1), 1), ((16, -2), 0), ((17, -1), 0), ((35, -1), 0), ((53, -1), 0)]

end ChythonModel.Spec.Lewis
