import ChythonModel.Model.Valence
/-!
# C05 — what "is a Kekulé form of" and "is the aromatic form of" mean (declarative), and their executable checkers

Written from the property text and the public documentation of `kekule()` / `thiele()` / `enumerate_kekule()`,
not from the algorithms:

* converting never changes which molecule is described: same atoms (element, isotope, charge, radical), same
  connectivity (`SameSkeleton`), same hydrogen count on every atom;
* a Kekulé form has only single, double, triple (and coordinate, order 8) bonds; every aromatic bond became single
  or double, every other bond is unchanged; no atom has a valence error: the hydrogen count of every atom that
  lost an aromatic bond is the one the element valence rules (C04 `calcImplicitMol`) give for the new bonds, and
  it is the count the aromatic form carried whenever that form carried one;
* the aromatic form differs from a Kekulé form only in bonds that became aromatic (and, for rings condensed over a
  four-membered ring, the documented reset of the linking double bonds to single); hydrogens are untouched.

The checkers are positional (the conversions edit the molecule in place, so both dict orders are identical); the
declarative relations are stated through the public look-ups `atom?` / `bond?`. Soundness is `Props/C05.lean`.
-/
namespace ChythonModel.Spec.Kekule
open ChythonModel.Model ChythonModel.Model.Valence

/-- what identifies an atom apart from its hydrogens and marks -/
def core (a : Atom) : Nat × Option Nat × Int × Bool := (a.z, a.isotope, a.charge, a.radical)

/-- same atoms in the same `_atoms` order, same neighbour keys in the same `_bonds` order -/
def SameSkeleton (a k : Mol) : Prop :=
  a.atoms.map (fun p => (p.1, core p.2)) = k.atoms.map (fun p => (p.1, core p.2)) ∧
  a.adj.map (fun p => (p.1, p.2.map (·.1))) = k.adj.map (fun p => (p.1, p.2.map (·.1)))

/-- aromatic → single or double; anything else unchanged -/
def KekOrder (o o' : Nat) : Prop := if o = 4 then o' = 1 ∨ o' = 2 else o' = o

/-- single, double, triple, or coordinate (special) bond -/
def Localised (o : Nat) : Prop := o = 1 ∨ o = 2 ∨ o = 3 ∨ o = 8

/-- atom `n` carries an aromatic bond in `a` -/
def Touched (a : Mol) (n : Nat) : Prop := ∃ p ∈ a.nbrs n, p.2.order = 4

structure IsKekuleOf (a k : Mol) : Prop where
  skeleton : SameSkeleton a k
  bonds : ∀ n m b, a.bond? n m = some b → ∃ b', k.bond? n m = some b' ∧ KekOrder b.order b'.order
  localised : ∀ n m b, k.bond? n m = some b → Localised b.order
  hydrogens : ∀ n x y, a.atom? n = some x → k.atom? n = some y →
    ∃ h, y.implH = some h ∧ (∀ h0, x.implH = some h0 → h0 = h) ∧
      (Touched a n → calcImplicitMol k n = some (some h)) ∧ (¬ Touched a n → x.implH = y.implH)

/-! ### executable checker -/

def all2 {α β : Type} (f : α → β → Bool) : List α → List β → Bool
  | [], [] => true
  | x :: xs, y :: ys => f x y && all2 f xs ys
  | _, _ => false

def kekOrderB (o o' : Nat) : Bool := if o == 4 then o' == 1 || o' == 2 else o' == o
def localisedB (o : Nat) : Bool := o == 1 || o == 2 || o == 3 || o == 8
def touchedB (a : Mol) (n : Nat) : Bool := (a.nbrs n).any (·.2.order == 4)

def atomOk (a k : Mol) (x y : Nat × Atom) : Bool :=
  x.1 == y.1 && core x.2 == core y.2 &&
    match y.2.implH with
    | none => false
    | some h =>
      (match x.2.implH with | none => true | some h0 => h0 == h) &&
      (if touchedB a x.1 then calcImplicitMol k x.1 == some (some h) else x.2.implH == y.2.implH)

def bondOk (p q : Nat × Bond) : Bool :=
  p.1 == q.1 && kekOrderB p.2.order q.2.order && localisedB q.2.order

def rowOk (r s : Nat × List (Nat × Bond)) : Bool := r.1 == s.1 && all2 bondOk r.2 s.2

def checkAtoms (a k : Mol) : Bool := all2 (atomOk a k) a.atoms k.atoms
def checkBonds (a k : Mol) : Bool := all2 rowOk a.adj k.adj

/-- does `k` describe the molecule `a` with all aromatic bonds localised? -/
def checkKekule (a k : Mol) : Bool := checkAtoms a k && checkBonds a k

/-! ### the alternation behind a Kekulé form: new double bonds are a matching -/

/-- bond `n–m` was aromatic and became double -/
def NewDouble (a k : Mol) (n m : Nat) : Prop :=
  ∃ b b', a.bond? n m = some b ∧ b.order = 4 ∧ k.bond? n m = some b' ∧ b'.order = 2

/-- the new double bonds form a matching that covers every atom of `must` and avoids every atom of `never` -/
structure IsMatchingOn (a k : Mol) (must never : List Nat) : Prop where
  unique : ∀ n m m', NewDouble a k n m → NewDouble a k n m' → m = m'
  covered : ∀ n ∈ must, ∃ m, NewDouble a k n m
  avoided : ∀ n ∈ never, ∀ m, ¬ NewDouble a k n m

/-- neighbours of one row whose bond went 4 → 2 -/
def newDoubles : List (Nat × Bond) → List (Nat × Bond) → List Nat
  | p :: ps, q :: qs => if p.2.order == 4 && q.2.order == 2 then p.1 :: newDoubles ps qs else newDoubles ps qs
  | _, _ => []

def rowMatch (must never : List Nat) (r s : Nat × List (Nat × Bond)) : Bool :=
  let d := (newDoubles r.2 s.2).length
  d ≤ 1 && (!must.contains r.1 || d == 1) && (!never.contains r.1 || d == 0)

/-- rows are keyed alike (checked by `checkBonds`), neighbour keys are unique, every atom of `must` has a row -/
def checkMatching (a k : Mol) (must never : List Nat) : Bool :=
  all2 (rowMatch must never) a.adj k.adj &&
  a.adj.all (fun r => decide (r.2.map (·.1)).Nodup) && decide (a.adj.map (·.1)).Nodup &&
  must.all fun n => a.adj.any (·.1 == n)

/-! ### aromatic form of a Kekulé form -/

/-- unchanged, or single/double → aromatic -/
def AromOrder (o o' : Nat) : Prop := o' = o ∨ (o' = 4 ∧ (o = 1 ∨ o = 2))

structure IsAromFormOf (k t : Mol) : Prop where
  skeleton : SameSkeleton k t
  /-- every bond is unchanged or became aromatic; the one documented exception: a double bond whose two ends are
      both aromatic afterwards may be reset to single (rings condensed over a four-membered ring) -/
  bonds : ∀ n m b, k.bond? n m = some b → ∃ b', t.bond? n m = some b' ∧
      (AromOrder b.order b'.order ∨ (b.order = 2 ∧ b'.order = 1 ∧ Touched t n ∧ Touched t m))
  hydrogens : ∀ n x y, k.atom? n = some x → t.atom? n = some y → x.implH = y.implH
  /-- aromatic bonds come in rings: an atom of the aromatic form never carries exactly one aromatic bond -/
  closed : ∀ r ∈ t.adj, (r.2.filter (·.2.order == 4)).length ≠ 1

def aromOrderB (o o' : Nat) : Bool := o' == o || (o' == 4 && (o == 1 || o == 2))

def aromBondOk (t : Mol) (n : Nat) (p q : Nat × Bond) : Bool :=
  p.1 == q.1 && (aromOrderB p.2.order q.2.order ||
    (p.2.order == 2 && q.2.order == 1 && touchedB t n && touchedB t p.1))

def aromRowOk (t : Mol) (r s : Nat × List (Nat × Bond)) : Bool := r.1 == s.1 && all2 (aromBondOk t r.1) r.2 s.2

def aromAtomOk (x y : Nat × Atom) : Bool := x.1 == y.1 && core x.2 == core y.2 && x.2.implH == y.2.implH

def checkThiele (k t : Mol) : Bool :=
  all2 aromAtomOk k.atoms t.atoms && all2 (aromRowOk t) k.adj t.adj &&
  t.adj.all fun r => (r.2.filter (·.2.order == 4)).length != 1

end ChythonModel.Spec.Kekule
