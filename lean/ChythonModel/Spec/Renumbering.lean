/-!
# What "the same structure under another numbering and another insertion order" means  (C01)

Written from the property statement, not from the code. A Python `dict` is an insertion-ordered association list.
Two dicts describe *the same mapping under the renumbering `π`* when one is a permutation (as a list) of the
key-renamed other: insertion order is forgotten, keys are renamed, values are untouched.
For an adjacency `dict[int, dict[int, _]]` the inner dicts are compared the same way.

`π : Nat → Nat` is required to be injective where a theorem needs it; every injective renaming of a finite set of
atom numbers extends to an injective function on `Nat`, so nothing is lost by quantifying over total functions.
-/
namespace ChythonModel.Spec.Renumbering

/-- rename the keys of a dict, keep order and values -/
def mapKeys {β : Type} (π : Nat → Nat) (d : List (Nat × β)) : List (Nat × β) := d.map fun kv => (π kv.1, kv.2)

/-- `d'` is the dict `d` with keys renamed by `π`, in any insertion order -/
def DictEq {β : Type} (π : Nat → Nat) (d d' : List (Nat × β)) : Prop := List.Perm d' (mapKeys π d)

/-- element-wise relation of two lists of the same length -/
inductive Pointwise {α β : Type} (S : α → β → Prop) : List α → List β → Prop
  | nil : Pointwise S [] []
  | cons {a b l l'} : S a b → Pointwise S l l' → Pointwise S (a :: l) (b :: l')

/-- rows correspond: key renamed, neighbour dict renamed and in any order -/
def RowEq {β : Type} (π : Nat → Nat) (r r' : Nat × List (Nat × β)) : Prop := r'.1 = π r.1 ∧ DictEq π r.2 r'.2

/-- `b'` is the adjacency `b` with atoms renamed by `π`, outer and inner dicts in any insertion order -/
def AdjEq {β : Type} (π : Nat → Nat) (b b' : List (Nat × List (Nat × β))) : Prop :=
  ∃ b'', List.Perm b'' b' ∧ Pointwise (RowEq π) b b''

/-- relation lifted to results that may be an exception (`none`) -/
inductive OptRel {α β : Type} (R : α → β → Prop) : Option α → Option β → Prop
  | none : OptRel R none none
  | some {a b} : R a b → OptRel R (some a) (some b)

def keys {β : Type} (d : List (Nat × β)) : List Nat := d.map (·.1)

end ChythonModel.Spec.Renumbering
