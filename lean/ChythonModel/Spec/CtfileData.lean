import ChythonModel.Model.C11Sdf
/-!
# C11 — data items of SDfiles and RDfiles: what the formats can carry (from the CTfile formats specification, chapters
"SDfiles" and "RDfiles"; not from chython's readers)

**SDfile.** After the molfile (`M  END`) a record carries *data items*. A data item is a *data header* line, which begins
with `>` and names the field in angle brackets (`> <MELTING.POINT>`), followed by the *data* lines, closed by a blank line.
The record is closed by a line beginning with `$$$$`. Consequently the text of a data item cannot contain: a blank line
(it would end the item), a line beginning with `>` (a data header), a line beginning with `$$$$` (the record delimiter);
the field name cannot contain `<`, `>` or a line break. Leading/trailing blanks of a data line are not significant.

**RDfile.** A record begins with `$RFMT` / `$MFMT`; after the structure, data come as `$DTYPE name` / `$DATUM value` pairs;
a datum continues on the following lines. Every line whose first character is `$` is a keyword line of the format, so no
line of a datum may begin with `$`, and the name is a single line.

These predicates are the *printable domain* of the metadata round trip (decidable: they are `Bool` functions). chython's
readers are more liberal (a line beginning with `>` is data unless it has the shape of a data header; blank lines inside
a value are dropped): the theorems in `Props/C11.lean` are proved for the liberal domain and `sd_spec_domain` /
`rd_spec_domain` show that the specification's domain is inside it.
-/
namespace ChythonModel.Spec.CtfileData
open ChythonModel.Model.C11

/-- printable ASCII (space … `~`) -/
def printable (c : Char) : Bool := 32 ≤ c.toNat && c.toNat ≤ 126

def firstIs (c : Char) (l : Str) : Bool := match l with | d :: _ => d == c | [] => false

/-- a data line of an SD data item: printable, not a data header (`>`…), not the record delimiter (`$$$$`…) -/
def sdDataLineOk (l : Str) : Bool := l.all printable && !firstIs '>' l && !startsWith l (sL "$$$$")

/-- a field name of an SD data item: printable, no angle brackets, not blank; `&` is excluded as well because chython's
    writers use `&gt;` / `&lt;` as escapes without escaping `&` (known finding) -/
def sdNameOk (k : Str) : Bool :=
  k.all (fun c => printable c && c != '<' && c != '>' && c != '&') && !(strip k).isEmpty

/-- a datum line of an RDfile: printable and not a keyword line -/
def rdDataLineOk (l : Str) : Bool := l.all printable && !firstIs '$' l

def rdNameOk (k : Str) : Bool := k.all printable && !(strip k).isEmpty

/-- metadata dictionary = insertion-ordered list (name, lines of the value) -/
abbrev Meta := List (Str × List Str)

/-- distinct after the readers' normalisation of names -/
def distinct : List Str → Bool
  | [] => true
  | a :: as => !as.contains a && distinct as

def namesDistinct (md : Meta) : Bool := distinct (md.map fun kv => strip kv.1)

def sdMetaOk (md : Meta) : Bool :=
  md.all (fun kv => sdNameOk kv.1 && !kv.2.isEmpty && kv.2.all sdDataLineOk) && namesDistinct md

def rdMetaOk (md : Meta) : Bool :=
  md.all (fun kv => rdNameOk kv.1 && !kv.2.isEmpty && kv.2.all rdDataLineOk) && namesDistinct md

/-! ## the documented normalisation ("leading and trailing blanks are not significant; blank lines end the item") -/

/-- `v.split('\n')` -/
def splitNl : Str → List Str
  | [] => [[]]
  | c :: cs =>
    if c == '\n' then [] :: splitNl cs
    else match splitNl cs with
      | [] => [[c]]
      | l :: ls => (c :: l) :: ls

/-- per-line normalisation of a value: every line stripped, blank lines dropped -/
def normLines (vs : List Str) : List Str := (vs.map strip).filter fun l => !l.isEmpty

/-- normalisation of a dictionary: names stripped, values normalised, items without text absent -/
def normMeta (md : Meta) : List (Str × Str) :=
  md.filterMap fun kv =>
    let ls := normLines kv.2
    if ls.isEmpty then none else some (strip kv.1, joinWith ['\n'] ls)

/-! ## V3000 physical lines (CTfile specification, "Extended Connection Table (V3000)"): every line of the connection
table begins with `M  V30 ` and is at most 80 characters long; a longer logical line is continued by ending the physical
line with a dash `-` and resuming after the `M  V30 ` of the next line; the dash and the prefix are removed on reading. -/

/-- cut `s` into pieces of at most `w` characters (`fuel` ≥ `s.length` pieces suffice) -/
def chunks (w : Nat) : Nat → Str → List Str
  | 0, s => [s]
  | fuel + 1, s => if s.length ≤ w then [s] else s.take w :: chunks w fuel (s.drop w)

def v30 : Str := sL "M  V30 "

/-- physical lines for the chunks `cs` followed by the final chunk `c` -/
def physLines (cs : List Str) (c : Str) : List Str :=
  cs.map (fun k => v30 ++ k ++ sL "-\n") ++ [v30 ++ c ++ sL "\n"]

/-- the physical lines of the logical line `M  V30 {body}` with at most `w` body characters per line
    (`w = 72`: 7 + 72 + dash = 80 columns) -/
def splitV30 (w : Nat) (body : Str) : List Str :=
  let cs := chunks w body.length body
  physLines cs.dropLast (cs.getLast?.getD [])

end ChythonModel.Spec.CtfileData
