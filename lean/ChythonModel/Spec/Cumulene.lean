import ChythonModel.Model.Pack
/-!
# C10 — cumulated double bonds and the two kinds of stereogenic unit they form (chemistry definition)

Written from the IUPAC definitions, not from the code. *Cumulative double bonds* are double bonds that share an atom
(`>C=C=C<`); a hydrocarbon with two of them is an allene, with three or more a cumulene (Gold Book: "cumulenes", "allenes");
heteroatoms that can carry a double bond may take the place of carbon (ketenes, carbodiimides, …). An atom inside such a
chain is `sp`: its two double bonds are its only two bonds.

A **maximal chain** `a₀ = a₁ = … = aₖ` (k ≥ 1 double bonds, k + 1 atoms) therefore is a sequence of atoms in which
* consecutive atoms are joined by a double bond between atoms that can form double bonds,
* every inner atom `a₁ … aₖ₋₁` has exactly two neighbours,
* the chain cannot be extended: `a₀` has no double bond except to `a₁`, `aₖ` none except to `aₖ₋₁`.

The substituent planes at the two ends are coplanar when the number of double bonds k is odd (alkene k = 1, butatriene k = 3:
**cis/trans** isomerism, described by the two end atoms) and perpendicular when k is even (allene k = 2: **axial**
chirality, described at the central atom). `k = atoms − 1`, so cis/trans units have an even number of atoms.

`can` is the predicate "this element can carry a double bond"; the theorems instantiate it with chython's regenerated
`is_forming_double_bonds` table.
-/
namespace ChythonModel.Spec.Cumulene
open ChythonModel.Model.Pack

/-- bond order of a double bond -/
def doubleOrder : Nat := 2
/-- number of neighbours of an `sp` atom inside a chain -/
def spNeighbours : Nat := 2
/-- atomic number of hydrogen (a hydrogen is not a substituent that makes an end stereogenic) -/
def hydrogenZ : Nat := 1

/-- `a = b`: a double bond recorded at `a` towards `b`, both atoms present and able to carry a double bond -/
def DoubleBond (can : Nat → Bool) (atoms : List PAtom) (a b : Nat) : Prop :=
  ∃ A ∈ atoms, ∃ B ∈ atoms, A.num = a ∧ B.num = b ∧ can A.z = true ∧ can B.z = true ∧
    ∃ nb ∈ A.nbrs, nb.m = b ∧ nb.order = doubleOrder

/-- atom `x` has exactly `k` neighbours -/
def HasDegree (atoms : List PAtom) (x k : Nat) : Prop := ∃ A ∈ atoms, A.num = x ∧ A.nbrs.length = k

/-- consecutive elements are related -/
def Links (R : Nat → Nat → Prop) : List Nat → Prop
  | a :: b :: r => R a b ∧ Links R (b :: r)
  | _ => True

/-- the inner atoms of a path -/
def interior (p : List Nat) : List Nat := p.tail.dropLast

/-- a piece of a chain of cumulated double bonds: linked by double bonds, inner atoms `sp` -/
structure Run (can : Nat → Bool) (atoms : List PAtom) (p : List Nat) : Prop where
  len : 2 ≤ p.length
  links : Links (DoubleBond can atoms) p
  inner : ∀ x ∈ interior p, HasDegree atoms x spNeighbours

/-- a maximal chain of cumulated double bonds -/
structure MaximalChain (can : Nat → Bool) (atoms : List PAtom) (p : List Nat) : Prop extends Run can atoms p where
  first : ∀ a0 a1 r, p = a0 :: a1 :: r → ∀ b, DoubleBond can atoms a0 b → b = a1
  last : ∀ pre a l, p = pre ++ [a, l] → ∀ b, DoubleBond can atoms l b → b = a

/-- number of double bonds of a chain -/
def doubleBonds (p : List Nat) : Nat := p.length - 1

/-- odd number of double bonds: planar ends, cis/trans isomerism -/
def IsCisTransUnit (p : List Nat) : Prop := doubleBonds p % 2 = 1
/-- even number of double bonds: perpendicular ends, axial chirality at the central atom -/
def IsAxialUnit (p : List Nat) : Prop := doubleBonds p % 2 = 0

end ChythonModel.Spec.Cumulene
