import ChythonModel.Model.Pack
/-!
# C10 — the published version-2 pack layout, written from the format docstring
(`MoleculeContainer.pack.__doc__`, repeated at the top of both `.pyx` files), not from the code.

A pack is a sequence of big-endian bit fields `(width, value)`. Concatenating bit fields big-endian is forming the
positional number `packFields`; `fieldsBytes` is its big-endian byte string, zero-padded at the end to a full byte.

```
8 bit  - 0x02            12 bit - number of atoms            12 bit - cis/trans stereo block size
Atom block 9 bytes (repeated):
12 bit - atom number     4 bit - number of neighbors
2 bit tetrahedron sign (00 - not stereo, 10 or 11 - has stereo)      2 bit - allene sign
5 bit - isotope (00000 - not specified, over = isotope - common_isotope + 16)      7 bit - atomic number (<=118)
32 bit - XY float16 coordinates
3 bit - hydrogens (0-7). Note: 7 == None     4 bit - charge (charge + 4)     1 bit - radical state
Connection table: flatten list of neighbors (12 bit each, paired into 24 bit)
Bonds order block 3 bit per bond zero-padded to full byte at the end.
Cis/trans data block (repeated): 24 bit - atoms pair, 7 bit - zero padding, 1 bit - sign
```
`common_isotope` is the reference (MDL) isotope of the element: `Gen.packElemRows`. An atom is an allene centre when it
has exactly two neighbours, otherwise its mark is a tetrahedron sign. A bond's order is written when the bond is met
for the first time in the connection table (at the atom visited first).
-/
namespace ChythonModel.Spec.PackLayout
open ChythonModel.Gen ChythonModel.Model.Pack

abbrev Field := Nat × Nat   -- (width in bits, value)

def width (fs : List Field) : Nat := (fs.map (·.1)).sum

/-- big-endian concatenation of bit fields as a number -/
def packFields (fs : List Field) : Nat := fs.foldl (fun acc f => acc * 2 ^ f.1 + f.2) 0

/-- `k` bytes, most significant first -/
def toBE : Nat → Nat → List Nat
  | 0, _ => []
  | k + 1, n => toBE k (n / 256) ++ [n % 256]

/-- the bytes of a field sequence, zero-padded at the end to a full byte -/
def fieldsBytes (fs : List Field) : List Nat :=
  let pad := (8 - width fs % 8) % 8
  toBE ((width fs + pad) / 8) (packFields fs * 2 ^ pad)

/-- FROZEN copy of the published common-isotope table (`chython.files._mdl.mol.common_isotopes`, the MDL reference
    isotope of every element; index = atomic number, index 0 unused). Every pack published so far was written with
    these values (`isotope field = isotope − common_isotope + 16`), so this table is part of the format: it is NOT
    regenerated from /repo. `Props.C10.tables_match_published` ties the regenerated code tables to it. -/
def publishedCommonIsotopes : List Nat :=
  [0, 1, 4, 7, 9, 11, 12, 14, 16, 19, 20, 23, 24, 27, 28, 31, 32, 35, 40, 39, 40, 45, 48, 51, 52, 55, 56, 59, 59, 64, 65, 70, 73, 75, 79, 80, 84, 85, 88, 89, 91, 93, 96, 98, 101, 103, 106, 108, 112, 115, 119, 122, 128, 127, 131, 133, 137, 139, 140, 141, 144, 145, 150, 152, 157, 159, 163, 165, 167, 169, 173, 175, 178, 181, 184, 186, 190, 192, 195, 197, 201, 204, 207, 209, 209, 210, 222, 223, 226, 227, 232, 231, 238, 237, 244, 243, 247, 247, 251, 252, 257, 258, 259, 260, 261, 270, 269, 270, 270, 278, 281, 281, 285, 278, 289, 289, 293, 297, 294]

/-- reference isotope of element `z` -/
def mdlIsotope (z : Nat) : Option Nat := if z == 0 then none else publishedCommonIsotopes[z]?

def isotopeField (z : Nat) : Option Int → Option Nat
  | none => some 0
  | some i => (mdlIsotope z).map fun (mdl : Nat) => (i - (mdl : Int) + 16).toNat

/-- `10` / `11` for a marked atom, `00` for none -/
def signField : Option Bool → Nat
  | none => 0
  | some false => 2
  | some true => 3

/-- `7 == None` -/
def hydrogenField : Option Nat → Nat
  | none => 7
  | some k => k

def atomFields (a : PAtom) : Option (List Field) :=
  (isotopeField a.z a.iso).map fun iso =>
    let deg := a.nbrs.length
    [(12, a.num), (4, deg),
     (2, if deg == 2 then 0 else signField a.stereo), (2, if deg == 2 then signField a.stereo else 0), (5, iso), (7, a.z),
     (16, a.x), (16, a.y),
     (3, hydrogenField a.h), (4, (a.charge + 4).toNat), (1, if a.radical then 1 else 0)]

def atomsFields : List PAtom → Option (List Field)
  | [] => some []
  | a :: r => do
      let x ← atomFields a
      let y ← atomsFields r
      pure (x ++ y)

def connFields (atoms : List PAtom) : List Field := atoms.flatMap fun a => a.nbrs.map fun nb => (12, nb.m)

/-- bonds in the order they are first met in the connection table -/
def bondsInOrder (visited : List Nat) : List PAtom → List (Nat × PNbr)
  | [] => []
  | a :: rest =>
    ((a.nbrs.filter fun nb => !(a.num :: visited).contains nb.m).map fun nb => (a.num, nb)) ++
      bondsInOrder (a.num :: visited) rest

def orderFields (atoms : List PAtom) : List Field := (bondsInOrder [] atoms).map fun p => (3, p.2.order - 1)

def ctFields (terminals : List (Nat × Nat × Nat)) : List (Nat × PNbr) → Option (List Field)
  | [] => some []
  | (n, nb) :: rest =>
    match nb.stereo with
    | none => ctFields terminals rest
    | some s => do
        let (tn, tm) ← terminals.lookup n
        let r ← ctFields terminals rest
        pure ([(12, tn), (12, tm), (7, 0), (1, if s then 1 else 0)] ++ r)

def stereoBondCount (atoms : List PAtom) : Nat := ((bondsInOrder [] atoms).filter fun p => p.2.stereo.isSome).length

/-- the version-2 pack of a molecule as the documentation describes it -/
def layoutBytes (m : PMol) : Option (List Nat) := do
  let af ← atomsFields m.atoms
  let cf ← ctFields m.terminals (bondsInOrder [] m.atoms)
  pure (fieldsBytes ([(8, 2), (12, m.atoms.length), (12, stereoBondCount m.atoms)] ++ af ++ connFields m.atoms) ++
        fieldsBytes (orderFields m.atoms) ++ fieldsBytes cf)


/-! ### version 0 (earlier packs): only the bond-order block differs

The only description of the old block is the layout comment kept in the decoder: `0 3 3 1 | 2 3 3` — five 3-bit codes
right-aligned in two bytes (one leading zero bit); the last group is filled with zero codes. -/

def v0Group (c0 c1 c2 c3 c4 : Nat) : List Nat := fieldsBytes [(1, 0), (3, c0), (3, c1), (3, c2), (3, c3), (3, c4)]

def v0OrderBytes : List Nat → List Nat
  | [] => []
  | [c0] => v0Group c0 0 0 0 0
  | [c0, c1] => v0Group c0 c1 0 0 0
  | [c0, c1, c2] => v0Group c0 c1 c2 0 0
  | [c0, c1, c2, c3] => v0Group c0 c1 c2 c3 0
  | c0 :: c1 :: c2 :: c3 :: c4 :: rest => v0Group c0 c1 c2 c3 c4 ++ v0OrderBytes rest


/-- a version-0 pack of a molecule: version byte 0, the same header/atom/connection/cis-trans fields, old order block -/
def layoutBytesV0 (m : PMol) : Option (List Nat) := do
  let af ← atomsFields m.atoms
  let cf ← ctFields m.terminals (bondsInOrder [] m.atoms)
  pure (fieldsBytes ([(8, 0), (12, m.atoms.length), (12, stereoBondCount m.atoms)] ++ af ++ connFields m.atoms) ++
        v0OrderBytes ((bondsInOrder [] m.atoms).map fun p => p.2.order - 1) ++ fieldsBytes cf)

end ChythonModel.Spec.PackLayout
