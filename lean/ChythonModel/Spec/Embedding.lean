import ChythonModel.Model.Iso
/-!
# C07 — what a valid embedding is (written from the property statement, not from the matcher)

"the mappings returned are exactly the injective maps in which every pattern atom matches its image, every pattern
bond matches the image bond, no additional bond joins the images of atoms of one pattern component, and different
pattern components lie in different target components … a search scope returns exactly the embeddings inside it."

Only the graph type (`_atoms` keys, `_bonds` keys) is shared with the model. Connectivity is the reflexive-transitive
closure of adjacency; "one pattern component" = mutually reachable atoms.
-/
namespace ChythonModel.Spec.Embedding
open ChythonModel.Model.Iso

/-- `y` can be reached from `x` along bonds of `g` -/
inductive Reach (g : Graph) : Nat → Nat → Prop
  | refl (x : Nat) : Reach g x x
  | step {x y z : Nat} : Reach g x y → z ∈ g.nbrs y → Reach g x z

/-- `f` restricted to the pattern atoms is a valid embedding of pattern `q` into target `t` inside `scope`.
    `atomOk u x` : pattern atom `u` matches target atom `x`; `bondOk u v x y` : pattern bond `u–v` matches target bond `x–y`. -/
structure IsEmbedding (q t : Graph) (scope : Nat → Bool) (atomOk : Nat → Nat → Bool)
    (bondOk : Nat → Nat → Nat → Nat → Bool) (f : Nat → Nat) : Prop where
  injective : ∀ u ∈ q.atoms, ∀ v ∈ q.atoms, f u = f v → u = v
  atom_in_target : ∀ u ∈ q.atoms, f u ∈ t.atoms
  atom_matches : ∀ u ∈ q.atoms, atomOk u (f u) = true
  bond_matches : ∀ u ∈ q.atoms, ∀ v ∈ q.nbrs u, f v ∈ t.nbrs (f u) ∧ bondOk u v (f u) (f v) = true
  no_extra_bond : ∀ u ∈ q.atoms, ∀ v ∈ q.atoms, Reach q u v → f v ∈ t.nbrs (f u) → v ∈ q.nbrs u
  components_apart : ∀ u ∈ q.atoms, ∀ v ∈ q.atoms, ¬ Reach q u v → ¬ Reach t (f u) (f v)
  in_scope : ∀ u ∈ q.atoms, scope (f u) = true

/-- the same conditions for the atoms `C` of ONE pattern component (what one call of the module-level `_get_mapping`
    is responsible for): all atoms of `C` are mutually reachable, so "no additional bond" applies to every pair. -/
structure EmbedsComp (q t : Graph) (C : List Nat) (scope : Nat → Bool) (atomOk : Nat → Nat → Bool)
    (bondOk : Nat → Nat → Nat → Nat → Bool) (f : Nat → Nat) : Prop where
  injective : ∀ u ∈ C, ∀ v ∈ C, f u = f v → u = v
  atom_in_target : ∀ u ∈ C, f u ∈ t.atoms
  atom_matches : ∀ u ∈ C, atomOk u (f u) = true
  bond_matches : ∀ u ∈ C, ∀ v ∈ q.nbrs u, f v ∈ t.nbrs (f u) ∧ bondOk u v (f u) (f v) = true
  no_extra_bond : ∀ u ∈ C, ∀ v ∈ C, f v ∈ t.nbrs (f u) → v ∈ q.nbrs u
  in_scope : ∀ u ∈ C, scope (f u) = true

/-- the dict a matcher returns for `f` on the atoms `C` listed in the order `C` -/
def asDict (C : List Nat) (f : Nat → Nat) : List (Nat × Nat) := C.zip (C.map f)

end ChythonModel.Spec.Embedding
