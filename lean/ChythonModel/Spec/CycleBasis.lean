import ChythonModel.Model.C06Rings
/-!
# Cycle bases over GF(2) — declarative clauses of C06 and their executable checker

Written from the textbook definitions (cycle space of an undirected graph over GF(2); Horton 1987 for the
candidate set of a minimum cycle basis), not from chython's code. Core Lean only: the driver links it.

* `IsSimpleCycle g r`   : `r` lists ≥ 3 distinct atoms, consecutive ones (and last–first) bonded in `g`.
* `ringVec E r`         : GF(2) edge-incidence vector of the closed walk `r` as a `Nat` bit mask over the edge list `E`.
* `Independent vs`      : no non-trivial GF(2) combination of `vs` is zero.
* `checkSssr g rings`   : the executable checker (simple-cycle test, Gaussian elimination, count = cyclomatic number).
* `minBasis g`          : executable reference minimum cycle basis (Horton candidates + greedy), self-certified by
                          `checkSssr`; used relationally for the size-multiset clause.
-/
namespace ChythonModel.Spec.CycleBasis
open ChythonModel.Model.C06

/-! ## graphs, cycles -/

/-- each undirected edge once as `(a, b)` with `a < b`, in dict order -/
def edgeList (g : Adj) : List (Nat × Nat) :=
  g.flatMap fun p => (p.2.filter fun k => decide (p.1 < k)).map fun k => (p.1, k)

def norm (a b : Nat) : Nat × Nat := if a ≤ b then (a, b) else (b, a)

/-- consecutive pairs of the closed walk `r`, including last → first -/
def cyclePairs (r : List Nat) : List (Nat × Nat) :=
  match r with
  | [] => []
  | x :: tl => r.zip (tl ++ [x])

def IsSimpleCycle (g : Adj) (r : List Nat) : Prop :=
  3 ≤ r.length ∧ r.Nodup ∧ ∀ ab ∈ cyclePairs r, ab.2 ∈ nbrsOf g ab.1

def isCycleOf (g : Adj) (r : List Nat) : Bool :=
  decide (3 ≤ r.length) && decide r.Nodup && (cyclePairs r).all fun ab => (nbrsOf g ab.1).contains ab.2

/-! ## GF(2) vectors as `Nat` bit masks -/

def xorAll : List Nat → Nat
  | [] => 0
  | v :: vs => v ^^^ xorAll vs

def edgeBit (E : List (Nat × Nat)) (a b : Nat) : Nat := 1 <<< (E.idxOf (norm a b))

def ringVec (E : List (Nat × Nat)) (r : List Nat) : Nat :=
  xorAll ((cyclePairs r).map fun ab => edgeBit E ab.1 ab.2)

/-- the GF(2) combination of `vs` with coefficients `cs` -/
def xorSel : List Bool → List Nat → Nat
  | c :: cs, v :: vs => (if c then v else 0) ^^^ xorSel cs vs
  | _, _ => 0

/-- linear independence over GF(2): only the all-zero coefficient vector gives 0 -/
def Independent (vs : List Nat) : Prop :=
  ∀ cs : List Bool, cs.length = vs.length → xorSel cs vs = 0 → ∀ c ∈ cs, c = false

/-! ## Gaussian elimination (echelon basis sorted by strictly decreasing leading bit) -/

def reduce : List Nat → Nat → Nat
  | [], v => v
  | b :: B, v => reduce B (if v.testBit b.log2 then v ^^^ b else v)

def insertDesc (r : Nat) : List Nat → List Nat
  | [] => [r]
  | b :: B => if b.log2 < r.log2 then r :: b :: B else b :: insertDesc r B

/-- `some B`: the vectors are independent and `B` is an echelon basis of their span; `none`: dependent -/
def echelon : List Nat → Option (List Nat)
  | [] => some []
  | v :: vs =>
    match echelon vs with
    | none => none
    | some B =>
      let r := reduce B v
      if r = 0 then none else some (insertDesc r B)

def indepCheck (vs : List Nat) : Bool := (echelon vs).isSome

/-! ## the checker -/

/-- cyclomatic number `|E| − |V| + c` of the graph, edges counted once -/
def cyclomatic (g : Adj) : Option Int :=
  (connectedComponents g).map fun cs => ((edgeList g).length : Int) - (g.length : Int) + (cs.length : Int)

inductive Verdict where
  | ok
  | notCycle (i : Nat)      -- index of the first member that is not a simple cycle of existing bonds
  | dependent
  | count (got want : Int)
  | noComponents            -- component computation ran out of fuel (never on well-formed input)
  deriving Repr, DecidableEq

def checkSssrV (g : Adj) (rings : List (List Nat)) : Verdict :=
  match (List.range rings.length).find? fun i => !isCycleOf g (rings.getD i []) with
  | some i => .notCycle i
  | none =>
    match cyclomatic g with
    | none => .noComponents
    | some mu =>
      if (rings.length : Int) ≠ mu then .count rings.length mu
      else if indepCheck (rings.map (ringVec (edgeList g))) then .ok else .dependent

def checkSssr (g : Adj) (rings : List (List Nat)) : Bool :=
  rings.all (isCycleOf g) && (cyclomatic g == some (rings.length : Int)) &&
    indepCheck (rings.map (ringVec (edgeList g)))

/-! ## reference minimum cycle basis: Horton candidates + greedy selection -/

/-- BFS from a root; every reached node with its tree path back to the root (`node :: … :: root`) -/
def bfsPaths (g : Adj) : Nat → List (Nat × List Nat) → List (Nat × List Nat) → List (Nat × List Nat)
  | 0, _, seen => seen
  | _, [], seen => seen
  | f + 1, (cur, p) :: q, seen =>
    let new := (nbrsOf g cur).filter fun i => !(seen.any (·.1 == i))
    let newp := new.map fun i => (i, i :: p)
    bfsPaths g f (q ++ newp) (seen ++ newp)

/-- Horton's candidates for root `v`: `P(v,x) + (x,y) + P(y,v)` for every edge `(x,y)` whose two tree paths
meet only in `v` -/
def hortonFrom (g : Adj) (E : List (Nat × Nat)) (v : Nat) : List (List Nat) :=
  let paths := bfsPaths g (g.length + 1) [(v, [v])] [(v, [v])]
  E.filterMap fun xy =>
    match paths.lookup xy.1, paths.lookup xy.2 with
    | some px, some py =>
      if (px.all fun a => a == v || !py.contains a) && px.length + py.length ≥ 4
      then some (px.reverse ++ py.dropLast) else none
    | _, _ => none

def sortByLen (rs : List (List Nat)) : List (List Nat) := rs.mergeSort fun a b => decide (a.length ≤ b.length)

/-- greedy: keep a candidate iff it is independent of those kept so far -/
def greedy (E : List (Nat × Nat)) : Nat → List (List Nat) → List Nat → List (List Nat) → List (List Nat)
  | 0, _, _, acc => acc.reverse
  | _, [], _, acc => acc.reverse
  | need + 1, c :: cs, B, acc =>
    let r := reduce B (ringVec E c)
    if r = 0 then greedy E (need + 1) cs B acc
    else greedy E need cs (insertDesc r B) (c :: acc)

/-- reference minimum cycle basis; `none` if the result is not accepted by `checkSssr` (never observed) -/
def minBasis (g : Adj) : Option (List (List Nat)) :=
  match cyclomatic g with
  | none => none
  | some mu =>
    let E := edgeList g
    let cands := sortByLen ((keys g).flatMap (hortonFrom g E))
    let B := greedy E mu.toNat cands [] []
    if checkSssr g B then some B else none

end ChythonModel.Spec.CycleBasis
