import ChythonModel.Model.QueryEq
/-!
# Documented meaning of query atoms, query bonds and atom labels (written from the docstrings, not from the code)

Sources: `chython/files/daylight/smarts.py` (`smarts.__doc__`: primitives D, h, r, !R, a, x, z, M; element lists; `A` any
element; `M` any metal; charge, isotope, CX radicals; bond-order lists, not-bonds, ring / non-ring bonds),
`chython/periodictable/base/query.py` (`AnyMetal.__doc__`: "Charge and radical ignored any metal. Rings, hydrogens and
heteroatoms count also ignored."; setter messages: "ring equal to zero is no ring atom mark"),
`chython/periodictable/base/element.py` (`Element.hybridization.__doc__`, `neighbors`, `ring_sizes`, `in_ring`),
and the periodic table for what a metal is.

Only the *types* `MAtom`, `QAtom`, `QBond`, `MBond` (records of attributes) are shared with the model; no model function is used.
-/
namespace ChythonModel.Spec.Query
open ChythonModel.Model.Query

/-- an attribute that was not given (empty tuple) does not constrain; otherwise the atom's value has to be listed -/
def Allowed (c : List Nat) (v : Nat) : Prop := c = [] ∨ v ∈ c

/-- hydrogens: an atom whose hydrogen count is unknown satisfies no `h` constraint -/
def HAllowed (c : List Nat) (v : Option Nat) : Prop := c = [] ∨ ∃ h, v = some h ∧ h ∈ c

/-- rings: not given = unconstrained; the mark `0` = "no ring atom"; otherwise the atom is in a ring of a listed size -/
def RingAllowed (c : List Nat) (rs : List Nat) : Prop :=
  c = [] ∨ (c = [0] ∧ rs = []) ∨ (0 ∉ c ∧ ∃ s, s ∈ c ∧ s ∈ rs)

/-- isotope: only if set. Mass numbers are positive; the value 0 is read as "not set". -/
def IsoAllowed (q : Option Nat) (a : Option Nat) : Prop := q = none ∨ q = some 0 ∨ q = a

/-- Elements that form stable covalent single bonds in molecules (H, B, C, N, O, F, Si, P, S, Cl, Ge, As, Se, Br, Sb, Te, I, At)
    and the noble gases (He, Ne, Ar, Kr, Xe, Rn, Og): everything else is a metal for the `M` query. -/
def nonMetals : List Nat := [1, 5, 6, 7, 8, 9, 14, 15, 16, 17, 32, 33, 34, 35, 51, 52, 53, 85, 2, 10, 18, 36, 54, 86, 118]

def IsMetal (z : Nat) : Prop := z ∉ nonMetals

/-- a query atom as the setters can produce it: the no-ring mark `0` never travels with ring sizes -/
def QWF (q : QAtom) : Prop := q.ringSizes = [0] ∨ 0 ∉ q.ringSizes

/-- an atom of a molecule is an instance of one of the 118 element classes -/
def AWF (a : MAtom) : Prop := 1 ≤ a.z ∧ a.z ≤ 118

instance (q : QAtom) : Decidable (QWF q) := by unfold QWF; exact inferInstance
instance (a : MAtom) : Decidable (AWF a) := by unfold AWF; exact inferInstance

/-- the documented meaning of `query_atom == atom` -/
def Matches (q : QAtom) (a : MAtom) : Prop :=
  match q.kind with
  | .metal => IsMetal a.z ∧ Allowed q.neighbors a.neighbors ∧ Allowed q.hybridization a.hybridization
  | k =>
    (match k with
     | .element z iso => a.z = z ∧ IsoAllowed iso a.isotope
     | .list zs => a.z ∈ zs
     | _ => True) ∧
    q.charge = a.charge ∧ q.radical = a.radical ∧
    Allowed q.neighbors a.neighbors ∧ Allowed q.hybridization a.hybridization ∧
    RingAllowed q.ringSizes a.ringSizes ∧ HAllowed q.implH a.implH ∧ Allowed q.heteroatoms a.heteroatoms

/-- bond-order list (a single order is a one-element list; a negated order is the list of the other orders);
    ring mark: `;@` ring bond, `;!@` non-ring bond, absent = either -/
def BondMatches (q : QBond) (b : MBond) : Prop :=
  b.order ∈ q.orders ∧ (q.inRing = none ∨ q.inRing = some b.inRing)

/-! ## labels (`Element.hybridization.__doc__`, `neighbors`, heteroatoms) -/

def count2 (os : List Nat) : Nat := os.count 2

/-- "1 - if atom has zero or only single bonded neighbors, 2 - if has only one double bonded neighbor and any amount of single
    bonded, 3 - if has one triple bonded and any amount of double and single bonded neighbors or two double bonded and any
    amount of single bonded, 4 - if atom in aromatic ring." (`os` = orders of the atom's bonds, coordination bonds excluded) -/
def hybridization (os : List Nat) : Nat :=
  if 4 ∈ os then 4
  else if 3 ∈ os ∨ 2 ≤ count2 os then 3
  else if count2 os = 1 then 2
  else 1

end ChythonModel.Spec.Query
