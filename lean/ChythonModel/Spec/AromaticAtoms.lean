/-!
# C05 — reference: the π role of the ring-atom types the property names

Written from the textbook description of aromatic heterocycles (Hückel electron counting) and the Daylight / OpenSMILES
list of aromatic atom types, *not* from chython's code:

* an **acceptor** contributes one π electron and carries exactly one ring double bond in every Kekulé structure
  (benzene CH, substituted / fused C, pyridine N, pyridinium N⁺–H and N⁺–R, N-oxide N⁺, pyrylium O⁺, thiopyrylium S⁺,
  phosphinine P);
* a **donor** contributes a lone pair or an empty orbital (or its π electron is used by an exocyclic double bond) and
  carries no ring double bond (pyrrole N–H, N-substituted pyrrole / indolizine N, furan O, thiophene S, selenophene Se,
  tellurophene Te, phosphole P–H, borole B–H, cyclopentadienide C⁻–H, tropylium C⁺–H, ring C of C=O / C=C exocyclic,
  amide-type N–H of pyridones);
* `either`: the SMILES atom `n` / `p` / `b` with unspecified hydrogen count may be a pyridine-type or a pyrrole-type atom.

Each row: name, atomic number, charge, neighbours (non-hydrogen, non-coordinate), implicit hydrogens (`none` =
unspecified), exocyclic double bond, role.
-/
namespace ChythonModel.Spec.AromaticAtoms

inductive Role where
  | acceptor | donor | either
  deriving Repr, DecidableEq

structure Row where
  name : String
  z : Nat
  charge : Int
  neighbors : Nat
  implH : Option Nat
  exo : Bool
  role : Role
  deriving Repr

def reference : List Row := [
  ⟨"benzene CH", 6, 0, 2, some 1, false, .acceptor⟩,
  ⟨"substituted or fused C", 6, 0, 3, some 0, false, .acceptor⟩,
  ⟨"ring C of an exocyclic C=O / C=C", 6, 0, 3, some 0, true, .donor⟩,
  ⟨"pyridine N", 7, 0, 2, some 0, false, .acceptor⟩,
  ⟨"pyrrole N-H", 7, 0, 2, some 1, false, .donor⟩,
  ⟨"N-substituted pyrrole / indolizine N", 7, 0, 3, some 0, false, .donor⟩,
  ⟨"aromatic n, hydrogens unspecified", 7, 0, 2, none, false, .either⟩,
  ⟨"pyridinium N+-H", 7, 1, 2, some 1, false, .acceptor⟩,
  ⟨"N-alkylpyridinium / N-oxide N+", 7, 1, 3, some 0, false, .acceptor⟩,
  ⟨"furan O", 8, 0, 2, some 0, false, .donor⟩,
  ⟨"pyrylium O+", 8, 1, 2, some 0, false, .acceptor⟩,
  ⟨"thiophene S", 16, 0, 2, some 0, false, .donor⟩,
  ⟨"thiopyrylium S+", 16, 1, 2, some 0, false, .acceptor⟩,
  ⟨"selenophene Se", 34, 0, 2, some 0, false, .donor⟩,
  ⟨"tellurophene Te", 52, 0, 2, some 0, false, .donor⟩,
  ⟨"phosphinine P", 15, 0, 2, some 0, false, .acceptor⟩,
  ⟨"phosphole P-H", 15, 0, 2, some 1, false, .donor⟩,
  ⟨"aromatic p, hydrogens unspecified", 15, 0, 2, none, false, .either⟩,
  ⟨"borole / borepin B-H", 5, 0, 2, some 1, false, .donor⟩,
  ⟨"cyclopentadienide C-H anion", 6, -1, 2, some 1, false, .donor⟩,
  ⟨"tropylium C-H cation", 6, 1, 2, some 1, false, .donor⟩,
  ⟨"pyrrolide N anion", 7, -1, 2, some 0, false, .donor⟩,
  ⟨"arsole As-H", 33, 0, 2, some 1, false, .donor⟩,
  ⟨"arsinine As", 33, 0, 2, some 0, false, .acceptor⟩]

end ChythonModel.Spec.AromaticAtoms
