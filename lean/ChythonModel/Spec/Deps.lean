import ChythonModel.Model.Graph
/-!
# C13 — what each memoised value may depend on (hand-written from the documentation of the properties)

Three kinds of memoised values:

* `skel` — the ring-perception family ("Special bonds ignored"): functions of the adjacency **without** special
  (order 8) bonds, and of nothing else (no elements, charges, orders, hydrogens, stereo).
* `conn` — `connected_components`: a function of the full adjacency (special bonds included), nothing else.
* `full` — everything else: may depend on the whole stored molecule (atoms, bond orders, stored hydrogen counts,
  stored labels) — deliberately the coarsest assumption.  Stereo marks are outside the model (see design/C13.md).

The canonical value of a key is the *view* of the molecule it is allowed to depend on; any real derived function that
respects the dependency discipline factors through it (`Props.C13.transfer`).
-/
namespace ChythonModel.Spec.Deps
open ChythonModel.Model

inductive Kind where | skel | conn | full
  deriving DecidableEq, Repr, Inhabited

def skelKeys : List String := ["sssr", "atoms_rings", "atoms_rings_sizes", "not_special_connectivity", "rings_count"]
def connKeys : List String := ["connected_components"]

def kindOf (k : String) : Kind :=
  if skelKeys.contains k then .skel else if connKeys.contains k then .conn else .full

abbrev AdjView := List (Nat × List Nat)

/-- adjacency without special bonds, in dict order -/
def skelView (m : Mol) : AdjView := m.adj.map fun p => (p.1, (p.2.filter (fun q => q.2.order != 8)).map (·.1))
/-- full adjacency, in dict order -/
def connView (m : Mol) : AdjView := m.adj.map fun p => (p.1, p.2.map (·.1))

/-- raw slots a `skel`/`conn` key may read -/
def adjOnlyRaw : List String := ["_bonds"]


/-- `flush_cache(keep_…)` call sites outside the modelled methods, reviewed by hand against what the method changes
(from its documentation): ring values survive anything that neither adds nor removes ordinary bonds between the atoms
that stay (bond orders, charges, isotopes, stereo marks, special bonds, terminal hydrogens with an explicit pop);
component values survive anything that adds or removes no bond at all.  (method, may keep ring values, may keep components) -/
def bulkReviewed : List (String × Bool × Bool) :=
  [("Kekule.kekule", true, true), ("Kekule.__fix_rings", true, true), ("Thiele.thiele", true, true),
   ("Standardize.standardize_charges", true, true), ("Standardize.remove_coordinate_bonds", true, false),
   ("Standardize.implicify_hydrogens", true, false), ("Standardize.explicify_hydrogens", true, false),
   ("Standardize.clean_isotopes", true, true), ("Standardize.__standardize", true, true),
   ("Resonance.fix_resonance", true, true), ("Salts.remove_metals", true, false),
   ("MoleculeStereo.add_wedge", true, true), ("MoleculeStereo.calculate_cis_trans_from_2d", true, true),
   ("MoleculeStereo.add_atom_stereo", true, true), ("MoleculeStereo.add_cis_trans_stereo", true, true),
   ("AcidBase.neutralize", true, true)]

/-- the in-place API: the only methods documented to hand out the object they are called on (`with mol:` binds the
molecule itself; `union(copy=False)` / `|=` merge into it).  Every other operation that returns molecules — `copy`,
`substructure`, `augmented_substructure(s)`, `split`, `&`, `-`, `|`, `union` — must return new objects. -/
def inPlaceReturners : List String := ["MoleculeContainer.__enter__", "Graph.union#u"]

end ChythonModel.Spec.Deps
