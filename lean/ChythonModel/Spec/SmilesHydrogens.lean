import ChythonModel.Spec.OrganicValence
/-!
# Hydrogens a SMILES atom carries — written from the OpenSMILES specification, not from chython

* Bracket atom (`[CH3]`, `[NH4+]`, `[Fe]`): "the hydrogen count is exactly what is written; `[C]` has none."
* Organic-subset atom written without brackets (OpenSMILES §3.1.5 "Hydrogens"): "The implicit hydrogen count is determined
  by summing the bond orders of the bonds connected to the atom. If that sum is equal to a known valence for the element or
  is greater than any known valence then the implicit hydrogen count is 0. Otherwise the implicit hydrogen count is the
  difference between that sum and the next highest known valence."  Normal valences: `Spec/OrganicValence.lean`.
-/
namespace ChythonModel.Spec.Smiles
open ChythonModel.Spec

/-- implicit hydrogens of an unbracketed organic-subset atom `z` whose bond orders sum to `v`; `none` outside the subset -/
def organicH (z v : Nat) : Option Nat :=
  (OrganicValence.normalValences.lookup z).map fun vs =>
    match vs.find? (fun v0 => decide (v ≤ v0)) with
    | some v0 => v0 - v
    | none => 0

/-- hydrogens of a bracket atom: the written count -/
def bracketH (written : Nat) : Nat := written

example : organicH 6 1 = some 3 := by decide        -- C in ethane
example : organicH 7 4 = some 1 := by decide        -- N with four single bonds: next valence 5
example : organicH 16 6 = some 0 := by decide       -- S in a sulfone-like environment
example : organicH 6 5 = some 0 := by decide        -- above every valence

end ChythonModel.Spec.Smiles
