/-!
# Denotational semantics of the core SMILES language (written from the OpenSMILES grammar, not from the code)

    chain         ::= branched_atom ( (bond | '.')? branched_atom )*
    branched_atom ::= atom branch*
    branch        ::= '(' (bond | '.')? chain ')'

The syntax tree is kept in "continuation" form so that it is an ordinary inductive type: `K α` is everything that can
follow an atom inside its chain — nothing, a side branch followed by more continuation of the *same* atom, or a link
to the next atom of the main chain.  `α` is the atom payload (element, isotope, charge, …, and whether it is written
as an aromatic symbol).

`print` gives the concrete symbol sequence; `denote` gives the graph: atoms are numbered in the order they are
written, every atom other than the first is joined to the atom it follows (the chain predecessor, or the atom the
branch hangs on) unless the link is a dot; the order of the bond is the written one, and for an unwritten bond or a
direction mark (`/`, `\`) it is aromatic between two aromatic atoms and single otherwise.

Ring-closure digits are outside this core sub-language (they are covered by the invariants of `Props/C03.lean`, by the
correspondence and by the reference reader).
-/
namespace ChythonModel.Spec.Smiles

/-- what is written between an atom and the atom it follows -/
inductive Link
  | implicit                 -- nothing
  | explicit (order : Nat)   -- - = # :
  | dir (up : Bool)          -- / \
  | dot                      -- .
  deriving DecidableEq, Repr

/-- continuation of an atom inside its chain -/
inductive K (α : Type)
  | done
  | side (l : Link) (a : α) (inner rest : K α)    -- '(' l a inner ')' rest
  | next (l : Link) (a : α) (rest : K α)          -- l a rest
  deriving Repr

structure Chain (α : Type) where
  start : α
  k : K α

/-- concrete symbols -/
inductive Sym (α : Type)
  | atom (a : α)
  | bond (order : Nat)
  | dir (up : Bool)
  | dot
  | lpar
  | rpar
  | ring (n : Nat)              -- ring-closure number (digit or %nn)
  deriving Repr

def printLink {α} : Link → List (Sym α)
  | .implicit => []
  | .explicit o => [.bond o]
  | .dir b => [.dir b]
  | .dot => [.dot]

def printK {α} : K α → List (Sym α)
  | .done => []
  | .side l a inner rest => .lpar :: printLink l ++ .atom a :: printK inner ++ .rpar :: printK rest
  | .next l a rest => printLink l ++ .atom a :: printK rest

def print {α} (c : Chain α) : List (Sym α) := .atom c.start :: printK c.k

/-- the bond a link denotes between the new atom `child` (number `n`) and the atom `parent` (number `p`) it follows -/
def linkBonds {α} (arom : α → Bool) (l : Link) (n p : Nat) (child parent : α) : List (Nat × Nat × Nat) :=
  match l with
  | .implicit => [(n, p, if arom child && arom parent then 4 else 1)]
  | .dir _ => [(n, p, if arom child && arom parent then 4 else 1)]
  | .explicit o => [(n, p, o)]
  | .dot => []

/-- atoms (in writing order) and bonds contributed by a continuation hanging on atom number `p` (payload `pa`),
    when the next free atom number is `n` -/
def denoteK {α} (arom : α → Bool) (p : Nat) (pa : α) (n : Nat) : K α → List α × List (Nat × Nat × Nat)
  | .done => ([], [])
  | .side l a inner rest =>
    let r1 := denoteK arom n a (n + 1) inner
    let r2 := denoteK arom p pa (n + 1 + r1.1.length) rest
    (a :: r1.1 ++ r2.1, linkBonds arom l n p a pa ++ r1.2 ++ r2.2)
  | .next l a rest =>
    let r1 := denoteK arom n a (n + 1) rest
    (a :: r1.1, linkBonds arom l n p a pa ++ r1.2)

structure Graph (α : Type) where
  atoms : List α
  bonds : List (Nat × Nat × Nat)     -- (later atom, earlier atom, order), in writing order of the later atom

def denote {α} (arom : α → Bool) (c : Chain α) : Graph α :=
  let r := denoteK arom 0 c.start 1 c.k
  { atoms := c.start :: r.1, bonds := r.2 }

end ChythonModel.Spec.Smiles

namespace ChythonModel.Spec.Smiles

/-- Charge field of a bracket atom (Daylight / OpenSMILES, magnitudes up to 4): a sign repeated one to four times means
    that many charges; a sign followed by one digit 1…4 means that many. Code points: `+` 43, `-` 45, `1`…`4` 49…52. -/
def specCharge (s : List Nat) : Option Int :=
  match s with
  | [] => none
  | sign :: tl =>
    if sign != 43 && sign != 45 then none
    else
      let sg : Int := if sign == 43 then 1 else -1
      if tl.all (· == sign) && tl.length ≤ 3 then some (sg * (tl.length + 1))
      else match tl with
        | [d] => if 49 ≤ d && d ≤ 52 then some (sg * ((d - 48 : Nat) : Int)) else none
        | _ => none

/-- all strings of length 1…n over an alphabet -/
def words (alpha : List Nat) : Nat → List (List Nat)
  | 0 => []
  | n+1 => alpha.map (fun c => [c]) ++ (words alpha n).flatMap fun w => alpha.map (fun c => c :: w)

end ChythonModel.Spec.Smiles

/-!
## Ring closures

`atom ringbond*` with `ringbond ::= bond? (DIGIT | '%' DIGIT DIGIT)`: a ring-closure number that is not open yet opens a
ring bond at the current atom; a number that is open closes it: the two atoms are joined, and the number is free
again. A bond symbol may be written at either end; written at both ends the two must agree (a direction mark agrees
with a single bond and with another direction mark); without any written order the bond is aromatic between two
aromatic atoms and single otherwise. A ring bond from an atom to itself has no meaning. At the end no ring may be open.
(Reading with `strong_cycle = False`, the default of the reader.)
-/
namespace ChythonModel.Spec.Smiles

/-- what is written in front of a ring-closure number -/
inductive RSym
  | none
  | order (o : Nat)
  | dir (up : Bool)
  deriving DecidableEq, Repr

structure RingBond where
  sym : RSym
  num : Nat
  deriving DecidableEq, Repr

def printRing {α} : RingBond → List (Sym α)
  | ⟨.none, n⟩ => [.ring n]
  | ⟨.order o, n⟩ => [.bond o, .ring n]
  | ⟨.dir b, n⟩ => [.dir b, .ring n]

def printRings {α} : List RingBond → List (Sym α)
  | [] => []
  | r :: tl => printRing r ++ printRings tl

/-- an atom followed by its ring bonds -/
def printAtomR {α} (rbs : α → List RingBond) (a : α) : List (Sym α) := .atom a :: printRings (rbs a)

def printKR {α} (rbs : α → List RingBond) : K α → List (Sym α)
  | .done => []
  | .side l a inner rest => .lpar :: printLink l ++ printAtomR rbs a ++ printKR rbs inner ++ .rpar :: printKR rbs rest
  | .next l a rest => printLink l ++ printAtomR rbs a ++ printKR rbs rest

def printR {α} (rbs : α → List RingBond) (c : Chain α) : List (Sym α) := printAtomR rbs c.start ++ printKR rbs c.k

/-- order of a ring bond from the symbols written at its opening and closing end; `none` = they contradict -/
def ringOrder (bothAromatic : Bool) (s1 s2 : RSym) : Option Nat :=
  let imp := if bothAromatic then 4 else 1
  match s1, s2 with
  | .none, .none => some imp
  | .order o, .none => some o
  | .none, .order o => some o
  | .order a, .order b => if a = b then some a else none
  | .dir _, .none => some imp
  | .none, .dir _ => some imp
  | .dir _, .dir _ => some imp
  | .dir _, .order o => if o = 1 then some 1 else none
  | .order o, .dir _ => if o = 1 then some 1 else none

/-- a ring bond waiting for its second end -/
structure OpenRing (α : Type) where
  num : Nat
  atom : Nat
  pay : α
  sym : RSym

def findRing {α} (k : Nat) : List (OpenRing α) → Option (OpenRing α)
  | [] => none
  | o :: tl => if o.num == k then some o else findRing k tl

def eraseRing {α} (k : Nat) : List (OpenRing α) → List (OpenRing α)
  | [] => []
  | o :: tl => if o.num == k then tl else o :: eraseRing k tl

/-- one ring-closure number written after atom number `n` (payload `a`) -/
def ringOne {α} (arom : α → Bool) (tbl : List (OpenRing α)) (n : Nat) (a : α) (rb : RingBond) :
    Option (List (OpenRing α) × List (Nat × Nat × Nat)) :=
  match findRing rb.num tbl with
  | none => some (tbl ++ [⟨rb.num, n, a, rb.sym⟩], [])
  | some o =>
    if o.atom == n then none
    else match ringOrder (arom o.pay && arom a) o.sym rb.sym with
      | some ord => some (eraseRing rb.num tbl, [(n, o.atom, ord)])
      | none => none

def ringAll {α} (arom : α → Bool) (n : Nat) (a : α) : List (OpenRing α) → List RingBond →
    Option (List (OpenRing α) × List (Nat × Nat × Nat))
  | tbl, [] => some (tbl, [])
  | tbl, rb :: rest =>
    match ringOne arom tbl n a rb with
    | none => none
    | some (tbl1, b1) =>
      match ringAll arom n a tbl1 rest with
      | none => none
      | some (tbl2, b2) => some (tbl2, b1 ++ b2)

/-- atoms, bonds (in writing order of their later end) and ring table after a continuation; `none` = ring bonds
    contradict each other -/
def denoteKR {α} (arom : α → Bool) (rbs : α → List RingBond) (p : Nat) (pa : α) (n : Nat) (tbl : List (OpenRing α)) :
    K α → Option (List α × List (Nat × Nat × Nat) × List (OpenRing α))
  | .done => some ([], [], tbl)
  | .side l a inner rest =>
    match ringAll arom n a tbl (rbs a) with
    | none => none
    | some (tbl1, rb1) =>
      match denoteKR arom rbs n a (n + 1) tbl1 inner with
      | none => none
      | some (as1, bs1, tbl2) =>
        match denoteKR arom rbs p pa (n + 1 + as1.length) tbl2 rest with
        | none => none
        | some (as2, bs2, tbl3) =>
          some (a :: as1 ++ as2, linkBonds arom l n p a pa ++ rb1 ++ bs1 ++ bs2, tbl3)
  | .next l a rest =>
    match ringAll arom n a tbl (rbs a) with
    | none => none
    | some (tbl1, rb1) =>
      match denoteKR arom rbs n a (n + 1) tbl1 rest with
      | none => none
      | some (as1, bs1, tbl2) => some (a :: as1, linkBonds arom l n p a pa ++ rb1 ++ bs1, tbl2)

/-- the graph a chain with ring closures denotes; `none` if ring bonds contradict each other or a ring stays open -/
def denoteR {α} (arom : α → Bool) (rbs : α → List RingBond) (c : Chain α) : Option (Graph α) :=
  match ringAll arom 0 c.start [] (rbs c.start) with
  | none => none
  | some (tbl0, rb0) =>
    match denoteKR arom rbs 0 c.start 1 tbl0 c.k with
    | none => none
    | some (as, bs, tbl) => if tbl.isEmpty then some { atoms := c.start :: as, bonds := rb0 ++ bs } else none

end ChythonModel.Spec.Smiles

/-!
## Simple graphs

OpenSMILES, ring closures: "Two atoms cannot be joined by more than one bond, and an atom cannot be bonded to itself":
`C12CCCCC12` (two ring bonds between the same pair), `C1CC=1` is fine but `C=1C1`/`C1C1`-like double joins and `C11` are
not SMILES. The same holds for a ring bond that joins two atoms already joined by a chain bond (`C1C1`).
-/
namespace ChythonModel.Spec.Smiles

/-- two bonds join the same unordered pair of atoms -/
def samePair (a b : Nat × Nat × Nat) : Bool :=
  (a.1 == b.1 && a.2.1 == b.2.1) || (a.1 == b.2.1 && a.2.1 == b.1)

/-- no bond from an atom to itself, no two bonds between the same pair -/
def simpleBonds : List (Nat × Nat × Nat) → Bool
  | [] => true
  | b :: tl => b.1 != b.2.1 && !tl.any (samePair b) && simpleBonds tl

end ChythonModel.Spec.Smiles

/-!
## Ring bonds and branches in any order (lenient reading)

OpenSMILES writes `branched_atom ::= atom ringbond* branch*`. Readers in practice — RDKit, and the strings shipped with
chython — take ring bonds and branches after an atom in any order: `branched_atom ::= atom (ringbond | branch)*`
(`C(C)1CC1`). `L α` is that grammar in continuation form: besides a side branch or the next chain atom, the continuation
of an atom may start with a ring bond *of that atom*. The strict grammar is the sub-language in which no ring bond
follows a branch. Meaning of a ring bond: exactly `ringOne` above (open / close with agreeing symbols, never at the
opening atom); bonds are listed in writing order of their later end; no ring may stay open.
-/
namespace ChythonModel.Spec.Smiles

inductive L (α : Type)
  | done
  | ring (rb : RingBond) (rest : L α)                -- a ring bond written at the current atom
  | side (l : Link) (a : α) (inner rest : L α)       -- '(' l a inner ')' rest
  | next (l : Link) (a : α) (rest : L α)             -- l a rest
  deriving Repr

structure ChainL (α : Type) where
  start : α
  k : L α

def printL {α} : L α → List (Sym α)
  | .done => []
  | .ring rb rest => printRing rb ++ printL rest
  | .side l a inner rest => .lpar :: printLink l ++ .atom a :: printL inner ++ .rpar :: printL rest
  | .next l a rest => printLink l ++ .atom a :: printL rest

def printChainL {α} (c : ChainL α) : List (Sym α) := .atom c.start :: printL c.k

/-- atoms, bonds and ring table after a continuation hanging on atom number `p` (payload `pa`), next free number `n` -/
def denoteL {α} (arom : α → Bool) (p : Nat) (pa : α) (n : Nat) (tbl : List (OpenRing α)) :
    L α → Option (List α × List (Nat × Nat × Nat) × List (OpenRing α))
  | .done => some ([], [], tbl)
  | .ring rb rest =>
    match ringOne arom tbl p pa rb with
    | none => none
    | some (tbl1, b1) =>
      match denoteL arom p pa n tbl1 rest with
      | none => none
      | some (as, bs, tbl2) => some (as, b1 ++ bs, tbl2)
  | .side l a inner rest =>
    match denoteL arom n a (n + 1) tbl inner with
    | none => none
    | some (as1, bs1, tbl1) =>
      match denoteL arom p pa (n + 1 + as1.length) tbl1 rest with
      | none => none
      | some (as2, bs2, tbl2) => some (a :: as1 ++ as2, linkBonds arom l n p a pa ++ bs1 ++ bs2, tbl2)
  | .next l a rest =>
    match denoteL arom n a (n + 1) tbl rest with
    | none => none
    | some (as1, bs1, tbl1) => some (a :: as1, linkBonds arom l n p a pa ++ bs1, tbl1)

def denoteChainL {α} (arom : α → Bool) (c : ChainL α) : Option (Graph α) :=
  match denoteL arom 0 c.start 1 [] c.k with
  | none => none
  | some (as, bs, tbl) => if tbl.isEmpty then some { atoms := c.start :: as, bonds := bs } else none

end ChythonModel.Spec.Smiles
