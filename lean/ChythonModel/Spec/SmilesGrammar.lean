/-!
# Denotational semantics of the core SMILES language (written from the OpenSMILES grammar, not from the code)

    chain         ::= branched_atom ( (bond | '.')? branched_atom )*
    branched_atom ::= atom branch*
    branch        ::= '(' (bond | '.')? chain ')'

The syntax tree is kept in "continuation" form so that it is an ordinary inductive type: `K α` is everything that can
follow an atom inside its chain — nothing, a side branch followed by more continuation of the *same* atom, or a link
to the next atom of the main chain.  `α` is the atom payload (element, isotope, charge, …, and whether it is written
as an aromatic symbol).

`print` gives the concrete symbol sequence; `denote` gives the graph: atoms are numbered in the order they are
written, every atom other than the first is joined to the atom it follows (the chain predecessor, or the atom the
branch hangs on) unless the link is a dot; the order of the bond is the written one, and for an unwritten bond or a
direction mark (`/`, `\`) it is aromatic between two aromatic atoms and single otherwise.

Ring-closure digits are outside this core sub-language (they are covered by the invariants of `Props/C03.lean`, by the
correspondence and by the reference reader).
-/
namespace ChythonModel.Spec.Smiles

/-- what is written between an atom and the atom it follows -/
inductive Link
  | implicit                 -- nothing
  | explicit (order : Nat)   -- - = # :
  | dir (up : Bool)          -- / \
  | dot                      -- .
  deriving DecidableEq, Repr

/-- continuation of an atom inside its chain -/
inductive K (α : Type)
  | done
  | side (l : Link) (a : α) (inner rest : K α)    -- '(' l a inner ')' rest
  | next (l : Link) (a : α) (rest : K α)          -- l a rest
  deriving Repr

structure Chain (α : Type) where
  start : α
  k : K α

/-- concrete symbols -/
inductive Sym (α : Type)
  | atom (a : α)
  | bond (order : Nat)
  | dir (up : Bool)
  | dot
  | lpar
  | rpar
  deriving Repr

def printLink {α} : Link → List (Sym α)
  | .implicit => []
  | .explicit o => [.bond o]
  | .dir b => [.dir b]
  | .dot => [.dot]

def printK {α} : K α → List (Sym α)
  | .done => []
  | .side l a inner rest => .lpar :: printLink l ++ .atom a :: printK inner ++ .rpar :: printK rest
  | .next l a rest => printLink l ++ .atom a :: printK rest

def print {α} (c : Chain α) : List (Sym α) := .atom c.start :: printK c.k

/-- the bond a link denotes between the new atom `child` (number `n`) and the atom `parent` (number `p`) it follows -/
def linkBonds {α} (arom : α → Bool) (l : Link) (n p : Nat) (child parent : α) : List (Nat × Nat × Nat) :=
  match l with
  | .implicit => [(n, p, if arom child && arom parent then 4 else 1)]
  | .dir _ => [(n, p, if arom child && arom parent then 4 else 1)]
  | .explicit o => [(n, p, o)]
  | .dot => []

/-- atoms (in writing order) and bonds contributed by a continuation hanging on atom number `p` (payload `pa`),
    when the next free atom number is `n` -/
def denoteK {α} (arom : α → Bool) (p : Nat) (pa : α) (n : Nat) : K α → List α × List (Nat × Nat × Nat)
  | .done => ([], [])
  | .side l a inner rest =>
    let r1 := denoteK arom n a (n + 1) inner
    let r2 := denoteK arom p pa (n + 1 + r1.1.length) rest
    (a :: r1.1 ++ r2.1, linkBonds arom l n p a pa ++ r1.2 ++ r2.2)
  | .next l a rest =>
    let r1 := denoteK arom n a (n + 1) rest
    (a :: r1.1, linkBonds arom l n p a pa ++ r1.2)

structure Graph (α : Type) where
  atoms : List α
  bonds : List (Nat × Nat × Nat)     -- (later atom, earlier atom, order), in writing order of the later atom

def denote {α} (arom : α → Bool) (c : Chain α) : Graph α :=
  let r := denoteK arom 0 c.start 1 c.k
  { atoms := c.start :: r.1, bonds := r.2 }

end ChythonModel.Spec.Smiles

namespace ChythonModel.Spec.Smiles

/-- Charge field of a bracket atom (Daylight / OpenSMILES, magnitudes up to 4): a sign repeated one to four times means
    that many charges; a sign followed by one digit 1…4 means that many. Code points: `+` 43, `-` 45, `1`…`4` 49…52. -/
def specCharge (s : List Nat) : Option Int :=
  match s with
  | [] => none
  | sign :: tl =>
    if sign != 43 && sign != 45 then none
    else
      let sg : Int := if sign == 43 then 1 else -1
      if tl.all (· == sign) && tl.length ≤ 3 then some (sg * (tl.length + 1))
      else match tl with
        | [d] => if 49 ≤ d && d ≤ 52 then some (sg * ((d - 48 : Nat) : Int)) else none
        | _ => none

/-- all strings of length 1…n over an alphabet -/
def words (alpha : List Nat) : Nat → List (List Nat)
  | 0 => []
  | n+1 => alpha.map (fun c => [c]) ++ (words alpha n).flatMap fun w => alpha.map (fun c => c :: w)

end ChythonModel.Spec.Smiles
