/-!
# Normal valences of the organic subset — written from the OpenSMILES specification, not from chython

OpenSMILES §3.1.5 / Daylight theory manual: an atom of the "organic subset" written without brackets gets
implicit hydrogens up to its *lowest normal valence that is ≥ the sum of its bond orders*; the normal
valences are  B 3 · C 4 · N 3,5 · O 2 · P 3,5 · S 2,4,6 · F, Cl, Br, I 1.
-/
namespace ChythonModel.Spec.OrganicValence

/-- (atomic number, normal valences in increasing order) -/
def normalValences : List (Nat × List Nat) :=
  [(5, [3]), (6, [4]), (7, [3, 5]), (8, [2]), (9, [1]), (15, [3, 5]), (16, [2, 4, 6]),
   (17, [1]), (35, [1]), (53, [1])]

def organicSubset : List Nat := normalValences.map (·.1)

/-- lowest normal valence; `none` outside the organic subset -/
def lowest (z : Nat) : Option Nat := (normalValences.lookup z).bind (·.head?)

/-- `v` realises a normal valence of element `z` -/
def isNormal (z v : Nat) : Bool := ((normalValences.lookup z).getD []).contains v

/-- Hydrogens of a neutral organic-subset atom whose bond orders sum to `v`, for `v` up to the lowest normal
    valence (the range in which every toolkit agrees). -/
def hydrogens (z v : Nat) : Option Nat := (lowest z).bind fun v0 => if v ≤ v0 then some (v0 - v) else none

/-- oxidation states realised by the oxo-acids of Cl, Br, I (hypo-…-ous 1, -ous 3, -ic 5, per-…-ic 7);
    not part of OpenSMILES' list, used only to *bound* what may be accepted for the heavier halogens. -/
def halogenValences : List Nat := [1, 3, 5, 7]

end ChythonModel.Spec.OrganicValence
