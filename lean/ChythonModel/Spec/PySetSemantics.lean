/-!
The finite-set semantics of Python's `set` operations as the language reference / library documentation states them
("add element elem to the set", "remove element elem from the set if it is present", "remove and return an arbitrary
element from the set; raises KeyError if the set is empty", "update the set, adding elements from all others",
"update the set, removing elements found in others", "remove all elements").  Written from the documentation, not from
setobject.c: there is no table, no hash, no order here.
-/
namespace ChythonModel.Spec.PySet

/-- the abstract value of a set of ints -/
abbrev ASet := Int → Prop

def aEmpty : ASet := fun _ => False
def aAdd (A : ASet) (k : Int) : ASet := fun x => x = k ∨ A x
def aRemove (A : ASet) (k : Int) : ASet := fun x => A x ∧ x ≠ k
def aUpdate (A : ASet) (ks : List Int) : ASet := fun x => x ∈ ks ∨ A x
def aDifferenceUpdate (A : ASet) (ks : List Int) : ASet := fun x => A x ∧ x ∉ ks
def aUnion (A B : ASet) : ASet := fun x => A x ∨ B x
def aInter (A B : ASet) : ASet := fun x => A x ∧ B x
def aDiff (A B : ASet) : ASet := fun x => A x ∧ ¬ B x

end ChythonModel.Spec.PySet
