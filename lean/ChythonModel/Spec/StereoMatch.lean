import ChythonModel.Spec.Parity
/-!
# C07 — what a stereo mark in a query asks of its image (written from the documentation, not from the filter)

`QueryIsomorphism.get_mapping`: "stereo in query should match only stereo atom", "chiral query bond matches only chiral molecule
bond"; Daylight SMARTS / OpenSMILES: a tetrahedral mark is read relative to the order in which the atom's neighbours are listed
(an implicit or unlisted fourth neighbour counts as last), two listings with the same mark denote the same configuration iff they
differ by an even permutation; a double-bond (or allene) mark is read relative to one substituent at each end and inverts when
the substituent at exactly one end is exchanged for the other one of that end.

The target's label is stored relative to a reference neighbour order (`stereogenic_tetrahedrons[n]`, hydrogen last) resp. the
reference substituent pair (slots 0 and 1 of `stereogenic_cis_trans[...]` / `stereogenic_allenes[...]`; slots 2 and 3 are the
second substituents of the two ends).
-/
namespace ChythonModel.Spec.StereoMatch
open ChythonModel.Spec

/-- tetrahedron: the target's label, re-read in the listed order, equals the query's mark -/
def tetraAgrees (reference listed : List Nat) (label mark : Bool) : Bool := (label ^^ relOdd reference listed) == mark

/-- double bond / allene: the chosen substituents sit in slots `k0` (first end: 0 or 2) and `k1` (last end: 1 or 3) -/
def endsAgrees (k0 k1 : Nat) (label mark : Bool) : Bool := (label ^^ endsFlip k0 k1) == mark

end ChythonModel.Spec.StereoMatch
