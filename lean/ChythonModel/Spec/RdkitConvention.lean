import ChythonModel.Gen.C20Tables
/-!
# RDKit conventions the bridge relies on — written from the RDKit documentation, not from chython

("The RDKit Book", *Chirality and stereochemistry representation*; `Atom::ChiralType`, `Bond::BondType`, `Bond::BondStereo`
API documentation.)

* Bond types: `SINGLE`, `DOUBLE`, `TRIPLE` are bond orders 1, 2, 3; `AROMATIC` is the aromatic bond; `DATIVE` is a
  coordinate (dative) bond whose *begin* atom is the donor and whose *end* atom is the acceptor (only the end atom's
  valence counts it).  chython documents its bond orders as 1, 2, 3, 4 = aromatic, 8 = special (coordinate/any).
* Chiral tags: looking from the first neighbour (in the atom's bond order) towards the centre, the remaining neighbours run
  counter-clockwise for `CHI_TETRAHEDRAL_CCW` — the SMILES `@` — and clockwise for `CHI_TETRAHEDRAL_CW` — SMILES `@@`.
  An implicit hydrogen counts as the last neighbour.  Hence permuting the neighbour order oddly exchanges the two tags.
* Double-bond stereo: `STEREOZ` ("zusammen") = the two *stereo atoms* are on the same side, `STEREOE` ("entgegen") = opposite
  sides.  Replacing a stereo atom by the other substituent of the same end exchanges the two labels.

chython's own convention (docstrings of `MoleculeStereo`, `smiles` `@`/`@@`): atom label `True` is `@` read in the order of
`stereogenic_tetrahedrons[n]` (hydrogen last); bond label `True` is cis of the first neighbours `(n0, n1)`.
-/
namespace ChythonModel.Spec.Rdkit
open ChythonModel.Gen.C20

/-- documented meaning of the five bond types the bridge writes, as chython bond orders -/
def orderOfType : RdBondType → Option Nat
  | .SINGLE => some 1 | .DOUBLE => some 2 | .TRIPLE => some 3 | .AROMATIC => some 4 | .DATIVE => some 8
  | _ => none

/-- chython's documented bond orders -/
def chythonOrders : List Nat := [1, 2, 3, 4, 8]

/-- SMILES `@` (chython label `True`) is counter-clockwise -/
def tagOfAt (at_ : Bool) : RdChiral := if at_ then .CHI_TETRAHEDRAL_CCW else .CHI_TETRAHEDRAL_CW

/-- cis (chython label `True`) is Z -/
def stereoOfCis (cis : Bool) : RdStereo := if cis then .STEREOZ else .STEREOE

/-- RDKit re-expresses a tetrahedral tag for another neighbour order by permutation parity -/
def retag (ccw : Bool) (oddPermutation : Bool) : Bool := ccw ^^ oddPermutation

/-- RDKit re-expresses Z/E for another choice of stereo atoms: inverted iff exactly one stereo atom was replaced -/
def relabel (z : Bool) (replacedBegin replacedEnd : Bool) : Bool := z ^^ (replacedBegin != replacedEnd)

end ChythonModel.Spec.Rdkit
