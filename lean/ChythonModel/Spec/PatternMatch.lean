import ChythonModel.Spec.QuerySemantics
import ChythonModel.Spec.Embedding
import ChythonModel.Model.C08Match
/-!
# C08 — what it means that a whole SMARTS pattern matches (written from the documentation, not from the matcher)

"A query atom or bond obtained from SMARTS matches a molecule atom or bond if and only if the independently determined attribute
satisfies it", observed at `query.get_mapping(mol)`: a mapping is returned exactly when

* different pattern atoms lie on different molecule atoms;
* every pattern atom lies on a molecule atom whose labelled attributes satisfy the atom's documented meaning (`Matches`);
* every pattern bond lies on a molecule bond whose order and ring state satisfy the bond's documented meaning (`BondMatches`);
* two atoms of one pattern component that the pattern does not join do not lie on bonded molecule atoms (the search is for induced
  subgraphs — property C07's first sentence), and different pattern components lie in different molecule components.

Only data types and the label computation (`mAtomOf`, `mBondAt`: the labelled atom / bond the comparisons see — their meaning is
`labels_spec`, `ring_sizes_spec`, `bond_in_ring_spec`) are shared with the model; reachability is C07's `Reach`.
-/
namespace ChythonModel.Spec.Query
open ChythonModel.Model ChythonModel.Model.Query ChythonModel.Spec.Embedding

/-- the numbers of the pattern atoms -/
def patAtoms (g : QGraph) : List Nat := g.atoms.map (·.1)

/-- the pattern joins `u` and `v` by a bond -/
def PatBond (g : QGraph) (u v : Nat) : Prop := ∃ qb, (u, v, qb) ∈ g.bonds ∨ (v, u, qb) ∈ g.bonds

structure DocEmbedding (g : QGraph) (m : Mol) (sssr : List (List Nat)) (f : Nat → Nat) : Prop where
  injective : ∀ u ∈ patAtoms g, ∀ v ∈ patAtoms g, f u = f v → u = v
  atom_matches : ∀ u ∈ patAtoms g, ∃ q a, qAtomAt g u = some q ∧ mAtomOf m sssr (f u) = some a ∧ Matches q a
  bond_matches : ∀ u ∈ patAtoms g, ∀ v, PatBond g u v →
    ∃ qb b, qBondAt g u v = some qb ∧ mBondAt m sssr (f u) (f v) = some b ∧ BondMatches qb b
  no_extra_bond : ∀ u ∈ patAtoms g, ∀ v ∈ patAtoms g, Reach (qIsoGraph g) u v → (m.bond? (f u) (f v)).isSome → PatBond g u v
  components_apart : ∀ u ∈ patAtoms g, ∀ v ∈ patAtoms g, ¬ Reach (qIsoGraph g) u v → ¬ Reach (molIsoGraph m) (f u) (f v)

end ChythonModel.Spec.Query
