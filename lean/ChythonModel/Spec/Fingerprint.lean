import ChythonModel.Model.Graph
/-!
# Declarative vocabulary for C17, written from the documentation of the fingerprints
(`LinearFingerprint` docstrings: "linear fragments", "count of fragments … activating multiple bits but less or
equal to `number_bit_pairs`", "length: bit string's length. Should be power of 2", "number of active bits for each
hashed tuple"; `MorganFingerprint`: "hashes of atoms with EC [extended connectivity] of radius …").

Nothing here mentions the queue, the direction canonicalisation or the dictionaries of the implementation.
-/
namespace ChythonModel.Spec.Fingerprint
open ChythonModel.Model

/-- `y` is bonded to `x` (listed in `x`'s neighbour dict). -/
def Adj (m : Mol) (x y : Nat) : Prop := y ∈ (m.nbrs x).map (·.1)

/-- consecutive atoms are bonded -/
def Walk (m : Mol) : List Nat → Prop
  | [] => True
  | [_] => True
  | a :: b :: t => Adj m a b ∧ Walk m (b :: t)

/-- a simple path of the molecular graph: non-empty, atoms of the molecule, no atom twice, consecutive atoms bonded -/
structure SimplePath (m : Mol) (p : List Nat) : Prop where
  ne : p ≠ []
  atoms : ∀ x ∈ p, x ∈ m.ids
  nodup : p.Nodup
  walk : Walk m p

/-- every bond leads to an atom of the molecule (part of the `Graph` invariant) -/
def Closed (m : Mol) : Prop := ∀ x y, Adj m x y → y ∈ m.ids

/-- `m'` is `m` with atoms renamed by `f` and with arbitrary insertion orders of atoms and of neighbours:
    the atom dict of `m'` is a permutation of the renamed atom dict of `m`, and for every atom its neighbour dict
    is a permutation of the renamed neighbour dict. -/
structure Renumbering (f : Nat → Nat) (m m' : Mol) : Prop where
  inj : ∀ x ∈ m.ids, ∀ y ∈ m.ids, f x = f y → x = y
  atoms : (m.atoms.map fun na => (f na.1, na.2)).Perm m'.atoms
  nbrs : ∀ x ∈ m.ids, ((m.nbrs x).map fun kb => (f kb.1, kb.2)).Perm (m'.nbrs (f x))

end ChythonModel.Spec.Fingerprint
