/-!
# Declarative reading of "the first matching valence rule gives the hydrogen count"

Independent of the executable model: no dictionaries, no loops — multiset counts and list positions only.
-/
namespace ChythonModel.Spec.FirstMatch

/-- `r` is the first element of `rules` satisfying `P`: it occurs at some position, satisfies `P`, and
    nothing before that position does. -/
def IsFirst {α : Type} (P : α → Prop) (rules : List α) (r : α) : Prop :=
  ∃ pre post, rules = pre ++ r :: post ∧ P r ∧ ∀ q ∈ pre, ¬ P q

/-- bonds that count towards the valence: everything except aromatic (4) and special/coordinate (8) bonds -/
def localised (bonds : List (Nat × Nat)) : List (Nat × Nat) := bonds.filter fun b => b.1 ≠ 4 ∧ b.1 ≠ 8

/-- An environment requirement (`members`: kinds of bonded neighbours that must be present; `atLeast`: how many
    of each) is met by a bond list when the multiset of its localised `(order, element)` pairs contains it. -/
def EnvMet (bonds : List (Nat × Nat)) (members : List (Nat × Nat)) (atLeast : List ((Nat × Nat) × Nat)) : Prop :=
  (∀ k ∈ members, k ∈ localised bonds) ∧ (∀ kc ∈ atLeast, kc.2 ≤ (localised bonds).count kc.1)

end ChythonModel.Spec.FirstMatch
