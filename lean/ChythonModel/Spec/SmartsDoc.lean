import ChythonModel.Model.QueryEq
import ChythonModel.Spec.Iupac
/-!
# The documented SMARTS subset for one bracket atom: abstract syntax, canonical printing, meaning

Written from `smarts.__doc__` (chython/files/daylight/smarts.py), not from the reader:

* head: an element symbol, `#n`, a comma list of those, `A` (any element), `M` (any metal);
* isotope in front of an element symbol; stereo mark `@` / `@@`; charge `+ - +2 … -4`; atom map `:n` at the end;
* primitives, each introduced by the mandatory `;`: `D` neighbours, `h` implicit hydrogens, `r` ring sizes, `!R` not in a ring,
  `x` heteroatoms, `z` hybridisation (1 sp3, 2 sp2, 3 sp, 4 aromatic), `a` aromatic, `A` (aliphatic, ignored), `M` masked;
  a value list is a comma list of the same primitive (`D1,D2`).

`print` produces one canonical spelling; `denote` is the query atom the documentation says it means. Element symbols come
from the hand-written standard table `Spec.iupac`.
-/
namespace ChythonModel.Spec.Query
open ChythonModel.Model.Query ChythonModel.Spec

inductive DocItem
  | sym (z : Nat)      -- element symbol of atomic number z
  | num (z : Nat)      -- `#z`
  deriving Repr, DecidableEq, Inhabited

inductive DocHead
  | one (i : DocItem)
  | list (l : List DocItem)    -- two or more items
  | any
  | metal
  deriving Repr, DecidableEq, Inhabited

structure DocAtom where
  head : DocHead
  isotope : Option Nat := none
  stereo : Option Bool := none       -- `@` = true, `@@` = false
  charge : Int := 0
  neighbors : List Nat := []
  hydrogens : List Nat := []
  rings : List Nat := []
  notRing : Bool := false
  hetero : List Nat := []
  hyb : List Nat := []
  aromatic : Bool := false
  aliphatic : Bool := false
  masked : Bool := false
  map : Option Nat := none
  deriving Repr, DecidableEq, Inhabited

def symbolOf (z : Nat) : List Char := ((iupac.lookup z).getD "?").toList

def printNat (n : Nat) : List Char := Nat.toDigits 10 n

def DocItem.z : DocItem → Nat
  | .sym z => z
  | .num z => z

def printItem : DocItem → List Char
  | .sym z => symbolOf z
  | .num z => '#' :: printNat z

def joinWith (sep : Char) : List (List Char) → List Char
  | [] => []
  | [x] => x
  | x :: xs => x ++ sep :: joinWith sep xs

def printHead : DocHead → List Char
  | .one i => printItem i
  | .list l => joinWith ',' (l.map printItem)
  | .any => ['A']
  | .metal => ['M']

def printCharge (c : Int) : List Char :=
  if c = 0 then []
  else if c = 1 then ['+'] else if c = -1 then ['-']
  else if c > 0 then '+' :: printNat c.toNat else '-' :: printNat (-c).toNat

def printPrim (letter : Char) (l : List Nat) : List (List Char) :=
  if l.isEmpty then [] else [joinWith ',' (l.map fun v => letter :: printNat v)]

/-- canonical spelling (without the brackets) -/
def printDoc (d : DocAtom) : List Char :=
  (match d.isotope with | some i => printNat i | none => []) ++ printHead d.head ++
  (match d.stereo with | some true => ['@'] | some false => ['@', '@'] | none => []) ++ printCharge d.charge ++
  ((printPrim 'D' d.neighbors ++ printPrim 'h' d.hydrogens ++ printPrim 'r' d.rings ++
    (if d.notRing then [['!', 'R']] else []) ++ printPrim 'x' d.hetero ++ printPrim 'z' d.hyb ++
    (if d.aromatic then [['a']] else []) ++ (if d.aliphatic then [['A']] else []) ++
    (if d.masked then [['M']] else [])).map fun p => ';' :: p).flatten ++
  (match d.map with | some m => ':' :: printNat m | none => [])

def insertNat (x : Nat) : List Nat → List Nat
  | [] => [x]
  | y :: ys => if x < y then x :: y :: ys else if x == y then y :: ys else y :: insertNat x ys

/-- documented meaning as a query atom -/
def denote (d : DocAtom) : QAtom :=
  let kind : QKind := match d.head with
    | .one i => .element i.z d.isotope
    | .list l => .list ((l.map DocItem.z).foldr insertNat [])
    | .any => .any
    | .metal => .metal
  match d.head with
  | .metal => { kind, neighbors := d.neighbors, hybridization := if d.aromatic then [4] else d.hyb, masked := d.masked }
  | _ => { kind, charge := d.charge, neighbors := d.neighbors, implH := d.hydrogens,
           ringSizes := if d.notRing then [0] else d.rings, heteroatoms := d.hetero,
           hybridization := if d.aromatic then [4] else d.hyb, stereo := d.stereo, masked := d.masked }

/-- the number `smarts()` gives the only atom: its map, else 1; masked atoms get a reserved number (reported as the first one) -/
def numberOf (d : DocAtom) : Nat :=
  match d.map with
  | some m => m
  | none => if d.masked then 1000000001 else 1

def strictlyAscending : List Nat → Bool
  | [] => true
  | [_] => true
  | x :: y :: t => x < y && strictlyAscending (y :: t)

/-- side conditions of the documented subset -/
def DocWF (d : DocAtom) : Bool :=
  let inRange (lo hi : Nat) (l : List Nat) := strictlyAscending l && l.all fun v => lo ≤ v && v ≤ hi
  inRange 0 14 d.neighbors && inRange 0 14 d.hydrogens && inRange 0 14 d.hetero && inRange 1 4 d.hyb &&
  strictlyAscending d.rings && d.rings.all (3 ≤ ·) &&
  !(d.notRing && !d.rings.isEmpty) && !(d.aromatic && !d.hyb.isEmpty) &&
  (-4 ≤ d.charge && d.charge ≤ 4) &&
  (match d.map with | some m => 1 ≤ m && m < 1000000000 | none => true) &&
  (match d.isotope with | some i => 1 ≤ i | none => true) &&
  (match d.head with
   | .one (.sym z) => 1 ≤ z && z ≤ 118
   | .one (.num z) => 1 ≤ z && z ≤ 118 && d.isotope.isNone
   | .list l => 2 ≤ l.length && l.all (fun i => 1 ≤ i.z && i.z ≤ 118) && d.isotope.isNone
   | .any => d.isotope.isNone
   | .metal => d.isotope.isNone && d.charge == 0 && d.stereo.isNone && d.hydrogens.isEmpty && d.rings.isEmpty &&
               !d.notRing && d.hetero.isEmpty)

end ChythonModel.Spec.Query

namespace ChythonModel.Spec.Query
open ChythonModel.Model.Query

/-! ## an enumerated grid of the documented subset (used by the kernel-evaluated round-trip theorem) -/

def singlesAndPairs (lo hi : Nat) : List (List Nat) :=
  let vs := List.range' lo (hi + 1 - lo)
  vs.map (fun v => [v]) ++ vs.flatMap fun a => (vs.filter (a < ·)).map fun b => [a, b]

def allHeads : List DocHead :=
  (List.range' 1 118).map (fun z => DocHead.one (.sym z)) ++ (List.range' 1 118).map (fun z => DocHead.one (.num z)) ++
  [.any, .metal, .list [.sym 6, .sym 7], .list [.num 6, .sym 8, .sym 16], .list [.sym 9, .sym 17, .sym 35, .sym 53],
   .list [.num 7, .num 8], .list [.sym 7, .sym 6], .list [.sym 6, .sym 6]]

def fewHeads : List DocHead := [.one (.sym 6), .any, .list [.sym 7, .sym 8]]

def gridPlain : List DocAtom := allHeads.map fun h => { head := h }

def gridSingleFamily : List DocAtom :=
  fewHeads.flatMap fun h =>
    (singlesAndPairs 0 14).map (fun l => ({ head := h, neighbors := l } : DocAtom)) ++
    (singlesAndPairs 0 14).map (fun l => ({ head := h, hydrogens := l } : DocAtom)) ++
    (singlesAndPairs 0 14).map (fun l => ({ head := h, hetero := l } : DocAtom)) ++
    (singlesAndPairs 1 4).map (fun l => ({ head := h, hyb := l } : DocAtom)) ++
    (singlesAndPairs 3 16).map (fun l => ({ head := h, rings := l } : DocAtom)) ++
    [{ head := h, notRing := true }, { head := h, aromatic := true }, { head := h, aliphatic := true },
     { head := h, masked := true }, { head := h, hyb := [1, 2, 3, 4] }, { head := h, rings := [5, 6, 7] },
     { head := h, neighbors := [0, 1, 2, 3, 4] }]

def gridMetal : List DocAtom :=
  (singlesAndPairs 0 14).map (fun l => ({ head := .metal, neighbors := l } : DocAtom)) ++
  (singlesAndPairs 1 4).map (fun l => ({ head := .metal, hyb := l } : DocAtom)) ++
  ((List.range' 0 15).flatMap fun n => (List.range' 1 4).map fun z => ({ head := .metal, neighbors := [n], hyb := [z] } : DocAtom)) ++
  [{ head := .metal, aromatic := true }, { head := .metal, masked := true, neighbors := [2] }, { head := .metal, map := some 3 }]

def gridMarks : List DocAtom :=
  [(-4 : Int), -3, -2, -1, 0, 1, 2, 3, 4].flatMap fun c =>
    [none, some true, some false].flatMap fun st =>
      [none, some 7, some 120].flatMap fun mp =>
        [({ head := .one (.sym 6), charge := c, stereo := st, map := mp } : DocAtom),
         { head := .one (.sym 6), isotope := some 13, charge := c, stereo := st, map := mp },
         { head := .one (.sym 17), isotope := some 37, charge := c, stereo := st, map := mp, neighbors := [1] },
         { head := .any, charge := c, stereo := st, map := mp },
         { head := .list [.sym 7, .sym 8], charge := c, stereo := st, map := mp, hydrogens := [0, 1] }]

def gridCombos : List DocAtom :=
  [[], [2], [2, 3]].flatMap fun nb =>
    [[], [0], [1, 2]].flatMap fun hy =>
      [(([] : List Nat), false), ([5, 6], false), ([], true)].flatMap fun rg =>
        [[], [1], [0, 2]].flatMap fun he =>
          [(([] : List Nat), false), ([2], false), ([2, 4], false), ([], true)].flatMap fun hb =>
            [({ head := .one (.sym 6), neighbors := nb, hydrogens := hy, rings := rg.1, notRing := rg.2, hetero := he,
                hyb := hb.1, aromatic := hb.2 } : DocAtom),
             { head := .list [.sym 7, .num 8], charge := 1, neighbors := nb, hydrogens := hy, rings := rg.1, notRing := rg.2,
               hetero := he, hyb := hb.1, aromatic := hb.2, masked := true, map := some 12 }]

def docGrid : List DocAtom := gridPlain ++ gridSingleFamily ++ gridMetal ++ gridMarks ++ gridCombos

end ChythonModel.Spec.Query

namespace ChythonModel.Spec.Query
open ChythonModel.Model.Query

/-! ## documented bond tokens: `-  =  #  :  ~`, a list of two of them `x,y`, a negated order `!x` (not for `~`), each optionally
followed by `;@` (ring bond) or `;!@` (non-ring bond); no token = single bond -/

def bondSymbols : List (Char × Nat) := [('-', 1), ('=', 2), ('#', 3), (':', 4), ('~', 8)]

inductive DocBondKind
  | implicit
  | single (c : Char × Nat)
  | pair (c d : Char × Nat)
  | negated (c : Char × Nat)
  deriving Repr, DecidableEq, Inhabited

structure DocBond where
  kind : DocBondKind
  ring : Option Bool := none
  deriving Repr, DecidableEq, Inhabited

def printBond (b : DocBond) : List Char :=
  (match b.kind with
   | .implicit => []
   | .single c => [c.1]
   | .pair c d => [c.1, ',', d.1]
   | .negated c => ['!', c.1]) ++
  (match b.ring with | none => [] | some true => [';', '@'] | some false => [';', '!', '@'])

def denoteBond (b : DocBond) : QBond :=
  { orders := (match b.kind with
      | .implicit => [1]
      | .single c => [c.2]
      | .pair c d => insertNat c.2 [d.2]
      | .negated c => [1, 2, 3, 4].filter (· != c.2)),
    inRing := b.ring }

def docBonds : List DocBond :=
  let kinds : List DocBondKind := bondSymbols.map .single ++ (bondSymbols.flatMap fun c => bondSymbols.map fun d => .pair c d) ++
    (bondSymbols.take 4).map .negated
  [{ kind := .implicit }] ++ kinds.flatMap fun k => [{ kind := k }, { kind := k, ring := some true }, { kind := k, ring := some false }]

end ChythonModel.Spec.Query

namespace ChythonModel.Spec.Query

/-! ## charge notation (Daylight): a sign repeated 1…4 times, or a sign followed by one digit 1…4 -/

def chargeMeaning (t : List Char) : Option Int :=
  let val (sign : Int) (rest : List Char) (sg : Char) : Option Int :=
    match rest with
    | [] => some sign
    | [d] => if d == '1' then some sign else if d == '2' then some (2 * sign) else if d == '3' then some (3 * sign)
             else if d == '4' then some (4 * sign) else if d == sg then some (2 * sign) else none
    | [a, b] => if a == sg && b == sg then some (3 * sign) else none
    | [a, b, c] => if a == sg && b == sg && c == sg then some (4 * sign) else none
    | _ => none
  match t with
  | '+' :: rest => val 1 rest '+'
  | '-' :: rest => val (-1) rest '-'
  | _ => none

def documentedChargeTexts : List (List Char) :=
  ["+", "++", "+++", "++++", "+1", "+2", "+3", "+4", "-", "--", "---", "----", "-1", "-2", "-3", "-4"].map String.toList

end ChythonModel.Spec.Query
