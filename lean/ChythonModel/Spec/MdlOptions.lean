import ChythonModel.Gen.MdlOptions
/-!
# C11 — reader options: what the documentation promises (written from the docstrings of `SDFRead`, `RDFRead`, `MRVRead`,
`mdl_mol`, `mdl_rxn`, not from the bodies)

    :param ignore: Skip some checks of data or try to fix some errors.        → atom-number post-processing, RXN parsing
    :param remap: Remap atom numbers started from one.                        → atom-number post-processing
    :param calc_cis_trans: Calculate cis/trans marks from 2d coordinates.     → stereo post-processing
    :param ignore_stereo: Ignore stereo data.                                 → stereo post-processing
    :param ignore_bad_isotopes: reset invalid isotope mark to non-isotopic.   → container construction

A record is built by one helper of each *family* (`map`, `create`, `stereo`; reactions additionally `parse_rxn`), in the
molecule branch and in the reaction branch of a reader alike. An option *reaches* a call site when it is passed as the
keyword of the same name or guards the call. The obligations below are evaluated on the table regenerated from the source
(`Gen/MdlOptions.lean`).
-/
namespace ChythonModel.Spec.MdlOptions
open ChythonModel.Gen.MdlOptions

/-- documented option → helper family that must see it -/
def optionTargets : List (String × String) :=
  [("remap", "map"), ("ignore", "map"), ("ignore", "parse_rxn"), ("ignore_bad_isotopes", "create"),
   ("calc_cis_trans", "stereo"), ("ignore_stereo", "stereo")]

/-- the options every record reader documents -/
def documentedOptions : List String := ["ignore", "remap", "calc_cis_trans", "ignore_stereo", "ignore_bad_isotopes"]

/-- the public record readers of `chython/files` for the MDL / MRV formats and the branches each must have -/
def expectedReaders : List (String × List String) :=
  [("SDFRead.read_structure", ["mol"]), ("mdl_mol", ["mol"]), ("RDFRead.read_structure", ["mol", "rxn"]),
   ("mdl_rxn", ["rxn"]), ("MRVRead.read_structure", ["mol", "rxn"])]

/-- the option reaches the site: as the keyword of the same name, or as a guard of the call -/
def reaches (s : Site) (o : String) : Bool := s.reach.any fun p => p.1 == o && (p.2 == o || p.2 == "guard")

/-- a (unit, branch, callee, option) the documentation promises and the source does not deliver -/
abbrev Dropped := String × String × String × String

/-- every promised forward that is missing at a site of the regenerated table -/
def droppedAt (u : ReaderUnit) (s : Site) : List Dropped :=
  (optionTargets.filter fun t => t.2 == s.family && u.options.contains t.1 && !reaches s t.1).map
    fun t => (u.unit, s.branch, s.callee, t.1)

def allDropped (us : List ReaderUnit) : List Dropped := (us.map fun u => (u.sites.map (droppedAt u)).flatten).flatten

/-- two sites of one reader that call helpers of the same family see the same public options (molecule branch and
    reaction branch alike; independent of `optionTargets`) -/
def parallelOk (u : ReaderUnit) (s t : Site) : Bool :=
  s.family != t.family || u.options.all fun o => (s.reach.any (·.1 == o)) == (t.reach.any (·.1 == o))

/-- the pairs of parallel sites that differ: (unit, callee₁@branch₁, callee₂@branch₂) -/
def parallelDiffs (us : List ReaderUnit) : List (String × String × String) :=
  (us.map fun u => (u.sites.map fun s => (u.sites.filter fun t => !parallelOk u s t).map
    fun t => (u.unit, s.callee ++ "@" ++ s.branch, t.callee ++ "@" ++ t.branch)).flatten).flatten

/-- branch `b` of unit `u` builds its record through all three families -/
def branchComplete (u : ReaderUnit) (b : String) : Bool :=
  ["map", "create", "stereo"].all fun f => u.sites.any fun s => s.branch == b && s.family == f

/-- every forwarded keyword exists in the callee's signature -/
def keywordsExist (us : List ReaderUnit) (sig : List (String × List (String × String))) : Bool :=
  us.all fun u => u.sites.all fun s => s.reach.all fun p =>
    p.2 == "guard" || ((sig.lookup s.callee).getD []).any (·.1 == p.2)

end ChythonModel.Spec.MdlOptions
