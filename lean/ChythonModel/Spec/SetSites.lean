/-!
Reviewed list of the order-sensitive uses of locally created `set`s in the files anchored by C19
(`set.pop()`, `next(iter(s))`, `for x in s` feeding an ordered result), each with the argument why the
*observable* result cannot depend on the interpreter's hash seed.  Written by hand; compared with the list
regenerated from /repo on every run (`Gen.setOrderSites`).  CPython's iteration order of a set of ints (or of
tuples of ints) is a function of the element hashes and the insertion history only; `hash(int)` and
`hash(tuple of int)` have no seed (`ChythonModel.Py.Hash`), so these orders are identical in every process.
-/
namespace ChythonModel.Spec

/-- (file, function, kind, variable, why the result is seed independent) -/
def reviewedSetSites : List (String × String × String × String × String) := [
  ("algorithms/smiles.py", "Smiles._smiles", "for", "atoms_set",
   "set of int atom numbers; the loop only accumulates a per-weight counter (commutative), and `min(atoms_set, key=…)` is covered by C01's tie discussion; `atoms_set.difference_update(visited)` also passes the str key 'cache' that `_format_bond` leaves in `visited`: discarding a non-member only looks up (seeded start slot) and never changes the table (`discard_spec`)"),
  ("algorithms/rings.py", "Rings.rings_graph", "pop", "atoms",
   "set of int atom numbers: seed-free order; result is a dict of ring-graph atoms whose content does not depend on the start atom"),
  ("algorithms/rings.py", "_connected_components", "pop", "atoms",
   "set of int atom numbers: seed-free order; components are compared as sets"),
  ("algorithms/rings.py", "_bfs", "pop", "atoms",
   "set of int atom numbers: seed-free order (numbering dependence is C06's recorded gap, not a seed dependence)"),
  ("algorithms/rings.py", "_is_condensed_ring", "for", "common",
   "intersection of int-keyed dict views: seed-free order"),
  ("algorithms/rings.py", "_rings_filter", "for", "seen_rings",
   "set of tuples of ints: seed-free hashes; only builds a dict keyed by ring")
]

/-- what the keys of the container iterated at a site are -/
inductive KeyKind where
  | int        -- atom numbers: CPython's set of ints, modelled by `Py/IntSet.lean`
  | intTuple   -- rings as tuples of atom numbers: `hash(tuple of int)` is `Py.pyHashTuple`, seed free
  deriving DecidableEq, Repr

/-- (file, function, variable, key kind): reviewed by reading the code; the run-time replay of the sites
(`harness/props/c19_sets.py`) checks on every run that the functions listed with `int` only ever put ints into the
sets whose history it logs, and that only the functions listed with `intTuple` put anything else -/
def reviewedSetSiteKeys : List (String × String × String × KeyKind) := [
  ("algorithms/smiles.py", "Smiles._smiles", "atoms_set", .int),
  ("algorithms/rings.py", "Rings.rings_graph", "atoms", .int),
  ("algorithms/rings.py", "_connected_components", "atoms", .int),
  ("algorithms/rings.py", "_bfs", "atoms", .int),
  ("algorithms/rings.py", "_is_condensed_ring", "common", .int),
  ("algorithms/rings.py", "_rings_filter", "seen_rings", .intTuple)
]

end ChythonModel.Spec
