/-!
# Permutation parity, written from the textbook definition (inversion count) — independent of chython

OpenSMILES §3.9.x / Daylight theory manual: two neighbour orders around a tetrahedral centre written with the same
`@`/`@@` mark denote the same configuration iff they differ by an even permutation; exchanging two neighbours
inverts the configuration.  For a double bond (and an allene axis) the mark relative to a chosen substituent pair
inverts when the substituent at exactly one end is exchanged.
-/
namespace ChythonModel.Spec

/-- number of inversions of a list of naturals -/
def inversions : List Nat → Nat
  | [] => 0
  | x :: xs => (xs.filter (· < x)).length + inversions xs

/-- a list of distinct naturals, read as a permutation of its sorted form, is odd -/
def oddPerm (l : List Nat) : Bool := inversions l % 2 == 1

/-- the index of `{0,1,2,3}` that `a b c` leave out (meaningful for an injective triple) -/
def missing4 (a b c : Nat) : Nat := 6 - a - b - c

/-- all injective triples over `{0,1,2,3}` -/
def injTriples : List (Nat × Nat × Nat) :=
  (List.range 4).flatMap fun a => (List.range 4).flatMap fun b => (List.range 4).filterMap fun c =>
    if a ≠ b ∧ a ≠ c ∧ b ≠ c then some (a, b, c) else none

/-- position of `x` in `order` (`order.length` if absent) -/
def pos : List Nat → Nat → Nat
  | [], _ => 0
  | y :: ys, x => if y = x then 0 else pos ys x + 1

/-- `env` (a rearrangement of `order`) is an odd permutation of `order` -/
def relOdd (order env : List Nat) : Bool := oddPerm (env.map (pos order))

/-- double bond / allene axis: slots 0,2 sit on the first end, 1,3 on the last end; the reference pair is (0,1).
The sign for the pair `(t0, t1)` is inverted iff exactly one of the two is the *second* substituent of its end. -/
def endsFlip (t0 t1 : Nat) : Bool := (t0 ≥ 2) != (t1 ≥ 2)

/-- admissible slot pairs: one slot from each end -/
def endsPairs : List (Nat × Nat) := [(0, 1), (0, 3), (2, 1), (2, 3), (1, 0), (3, 0), (1, 2), (3, 2)]

/-- smallest ring in which a double bond has distinguishable E and Z forms as far as stereo *notation* is concerned:
trans-cyclooctene is the smallest isolable trans-cycloalkene; RDKit (and InChI) ignore double-bond stereo in rings of
fewer than 8 atoms. -/
def minStereoRing : Nat := 8

end ChythonModel.Spec
