/-
The standard periodic table (IUPAC 2016: 118 named elements), written by hand from the standard, once.
This file is the *reference* side of C18 `agrees_with_standard`; it is never regenerated from /repo.
-/
namespace ChythonModel.Spec

/-- (atomic number, symbol) for Z = 1 … 118. -/
def iupac : List (Nat × String) := [(1, "H"), (2, "He"), (3, "Li"), (4, "Be"), (5, "B"), (6, "C"), (7, "N"), (8, "O"), (9, "F"), (10, "Ne"), (11, "Na"), (12, "Mg"), (13, "Al"), (14, "Si"), (15, "P"), (16, "S"), (17, "Cl"), (18, "Ar"), (19, "K"), (20, "Ca"), (21, "Sc"), (22, "Ti"), (23, "V"), (24, "Cr"), (25, "Mn"), (26, "Fe"), (27, "Co"), (28, "Ni"), (29, "Cu"), (30, "Zn"), (31, "Ga"), (32, "Ge"), (33, "As"), (34, "Se"), (35, "Br"), (36, "Kr"), (37, "Rb"), (38, "Sr"), (39, "Y"), (40, "Zr"), (41, "Nb"), (42, "Mo"), (43, "Tc"), (44, "Ru"), (45, "Rh"), (46, "Pd"), (47, "Ag"), (48, "Cd"), (49, "In"), (50, "Sn"), (51, "Sb"), (52, "Te"), (53, "I"), (54, "Xe"), (55, "Cs"), (56, "Ba"), (57, "La"), (58, "Ce"), (59, "Pr"), (60, "Nd"), (61, "Pm"), (62, "Sm"), (63, "Eu"), (64, "Gd"), (65, "Tb"), (66, "Dy"), (67, "Ho"), (68, "Er"), (69, "Tm"), (70, "Yb"), (71, "Lu"), (72, "Hf"), (73, "Ta"), (74, "W"), (75, "Re"), (76, "Os"), (77, "Ir"), (78, "Pt"), (79, "Au"), (80, "Hg"), (81, "Tl"), (82, "Pb"), (83, "Bi"), (84, "Po"), (85, "At"), (86, "Rn"), (87, "Fr"), (88, "Ra"), (89, "Ac"), (90, "Th"), (91, "Pa"), (92, "U"), (93, "Np"), (94, "Pu"), (95, "Am"), (96, "Cm"), (97, "Bk"), (98, "Cf"), (99, "Es"), (100, "Fm"), (101, "Md"), (102, "No"), (103, "Lr"), (104, "Rf"), (105, "Db"), (106, "Sg"), (107, "Bh"), (108, "Hs"), (109, "Mt"), (110, "Ds"), (111, "Rg"), (112, "Cn"), (113, "Nh"), (114, "Fl"), (115, "Mc"), (116, "Lv"), (117, "Ts"), (118, "Og")]

end ChythonModel.Spec
