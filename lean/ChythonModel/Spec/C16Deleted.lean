/-!
# C16 — declarative meaning of "removed together with fragments that become detached"

Written from the property statement, not from the code.

A template application names a set `D` of matched atoms that are absent from the replacement (to be removed) and a set
`R` of matched atoms that remain. After removing `D` from the molecular graph `g`, a *fragment* is a connected component
of `g − D`. A fragment *becomes detached* when it was bonded to a removed atom and contains no remaining matched atom.
The atoms that must disappear are `D` plus all atoms of fragments that become detached; everything else stays
(in particular components that were never bonded to a removed atom, e.g. counter-ions, stay).

The graph is an insertion-ordered adjacency `List (Nat × List Nat)` (Python `dict` of neighbour collections); only
membership is used here, so the spec does not depend on any order.
-/
namespace ChythonModel.Spec.C16

abbrev Adj := List (Nat × List Nat)

/-- `b` is listed as a neighbour of `a` (`b in bonds[a]`) -/
def Edge (g : Adj) (a b : Nat) : Prop := ∃ nb, g.lookup a = some nb ∧ b ∈ nb

/-- undirected graph: `b in bonds[a] ↔ a in bonds[b]` -/
def Symm (g : Adj) : Prop := ∀ a b, Edge g a b → Edge g b a

/-- every listed neighbour is itself a key (`bonds[b]` never raises) -/
def Closed (g : Adj) : Prop := ∀ a b, Edge g a b → ∃ nb, g.lookup b = some nb

/-- `b` is reachable from `a` by a path all of whose vertices (including both ends) avoid `D`: same fragment of `g − D` -/
inductive Reach (g : Adj) (D : List Nat) : Nat → Nat → Prop
  | refl {a : Nat} : a ∉ D → Reach g D a a
  | step {a b c : Nat} : Reach g D a b → Edge g b c → c ∉ D → Reach g D a c

/-- the fragment of `n` contains a remaining matched atom -/
def Attached (g : Adj) (D R : List Nat) (n : Nat) : Prop := ∃ r, r ∈ R ∧ Reach g D n r

/-- `v` must be removed: it is one of `D`, or it lies in a fragment of `g − D` that was bonded to an atom of `D`
    (through its atom `n`) and is not attached to any remaining matched atom. -/
def DeletedSpec (g : Adj) (D R : List Nat) (v : Nat) : Prop :=
  v ∈ D ∨ ∃ x n, x ∈ D ∧ Edge g x n ∧ n ∉ D ∧ Reach g D n v ∧ ¬ Attached g D R n

end ChythonModel.Spec.C16
