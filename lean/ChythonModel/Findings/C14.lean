import ChythonModel.Props.C14
/-!
# C14 — witnesses of known findings (informational: if the code is repaired these stop being provable; never an alarm)

`C14/standardize/hydrogen-count/[N;D1;z2;x1;+]=[N;D2;x1;z2]`: the rule "CN=[N+] >> C[N+]#N" has no hydrogen constraint, so
the valence-valid methyldiazenium cation `CN=[NH2+]` (5 hydrogens) is rewritten to the diazonium `C[N+]#N` (3 hydrogens).
The witness runs the *model* (`runRule` + `recalc`, the functions the driver runs) on that molecule in the kernel; the same
input is executed on the real code by the standing probe of the finding.

`C14/neutralize/idempotent/unbalanced` (round 5): with more donors than acceptors `_neutralize` leaves a donor, and deprotonating a
protonated amine oxide turns its O⁻ into an acceptor: a second call moves another proton. The witness evaluates the model
(`matchFirstAtoms`, `neutralizeCheck`, `neutralizeModel` — the functions the driver runs) on `C[NH+](C)[O-].[NH4+].[Cl-]` in the
kernel and refutes the full statement `NeutralizeIdempotent`; the probe of the finding runs the same input on the real code.
-/
namespace ChythonModel.Findings.C14
open ChythonModel.Model ChythonModel.Model.Std ChythonModel.Gen.Rules ChythonModel.Proofs.C14 ChythonModel.Props.C14

/-- `CN=[NH2+]` -/
def diazenium : Mol :=
  ⟨[(1, { z := 6, implH := some 3 }), (2, { z := 7, implH := some 0 }), (3, { z := 7, charge := 1, implH := some 2 })],
   [(1, [(2, { order := 1 })]), (2, [(1, { order := 1 }), (3, { order := 2 })]), (3, [(2, { order := 2 })])]⟩

/-- the first rule of the tables that fires on the molecule and changes its hydrogen count: `(rule, state, molecule after)` -/
def offending : Option (StdRule × RState × Mol) := do
  let L ← calcLabels diazenium []
  allStdRules.findSome? fun r => do
    let st ← runRule r 0 diazenium L [[1, 2, 3]]
    let m' ← recalc st.hs st.mol
    if hydrogens m' != hydrogens diazenium then some (r, st, m') else none

theorem diazenium_is_valid :
    diazenium.ids.Nodup ∧ Valence.fixStructure diazenium = some diazenium ∧ Valence.checkValence diazenium = [] := by
  decide +kernel

theorem a_rule_changes_its_hydrogen_count : offending.isSome = true := by decide +kernel

/-- the full statement `RulesConserveHydrogens` is false of today's tables -/
theorem rules_do_not_conserve_hydrogens : ¬ RulesConserveHydrogens := by
  intro h
  have hv := diazenium_is_valid
  have hsome := a_rule_changes_its_hydrogen_count
  unfold offending at hsome
  cases hL : calcLabels diazenium [] with
  | none => simp [hL] at hsome
  | some L =>
    simp only [hL, Option.bind_eq_bind, Option.bind_some] at hsome
    obtain ⟨res, hres⟩ := Option.isSome_iff_exists.mp hsome
    obtain ⟨r, hr, hf⟩ := List.exists_of_findSome?_eq_some hres
    cases hst : runRule r 0 diazenium L [[1, 2, 3]] with
    | none => simp [hst] at hf
    | some st =>
      cases hm : recalc st.hs st.mol with
      | none => simp [hst, hm] at hf
      | some m' =>
        simp only [hst, hm, Option.bind_some] at hf
        split at hf
        · rename_i hne
          have := h r hr 0 diazenium [] [[1, 2, 3]] L st m' hv.1 hv.2.1 hv.2.2 hL hst hm
          simp [this] at hne
        · simp at hf

/-- `C[NH+](C)[O-].[NH4+].[Cl-]`: a protonated amine oxide, ammonium, chloride — two donors (2, 5), one acceptor (6) -/
def oxideSalt : Mol :=
  ⟨[(1, { z := 6, implH := some 3 }), (2, { z := 7, charge := 1, implH := some 1 }), (3, { z := 6, implH := some 3 }),
    (4, { z := 8, charge := -1, implH := some 0 }), (5, { z := 7, charge := 1, implH := some 4 }), (6, { z := 17, charge := -1, implH := some 0 })],
   [(1, [(2, { order := 1 })]), (2, [(1, { order := 1 }), (3, { order := 1 }), (4, { order := 1 })]), (3, [(2, { order := 1 })]),
    (4, [(2, { order := 1 })]), (5, []), (6, [])]⟩
def oxideSaltLabels : Labels :=
  ⟨[(1, ⟨1, 1, 1, []⟩), (2, ⟨3, 1, 1, []⟩), (3, ⟨1, 1, 1, []⟩), (4, ⟨1, 1, 1, []⟩), (5, ⟨0, 1, 0, []⟩), (6, ⟨0, 1, 0, []⟩)], []⟩
def oxideSaltComps : List (List Nat) := [[1, 2, 3, 4], [5], [6]]

/-- what the real first call returns (donor 2 is the first of the set): `CN(C)[O-].[NH4+].Cl` -/
def oxideSaltOnce : Mol :=
  ⟨[(1, { z := 6, implH := some 3 }), (2, { z := 7, charge := 0, implH := some 0 }), (3, { z := 6, implH := some 3 }),
    (4, { z := 8, charge := -1, implH := some 0 }), (5, { z := 7, charge := 1, implH := some 4 }), (6, { z := 17, charge := 0, implH := some 1 })],
   oxideSalt.adj⟩

theorem oxideSalt_facts :
    oxideSalt.WF = true ∧ (graphOfMol oxideSalt).WF = true ∧ ringSymm oxideSaltLabels = true ∧
    matchFirstAtoms acidStripped oxideSalt oxideSaltLabels oxideSaltComps = some [2, 5] ∧
    matchFirstAtoms baseStripped oxideSalt oxideSaltLabels oxideSaltComps = some [6] ∧
    neutralizeCheck oxideSalt [2, 5] [6] [2, 6] (some oxideSaltOnce) = true ∧
    (neutralizeModel true oxideSaltOnce oxideSaltLabels oxideSaltComps).map (fun r => (r.1, r.2.1, r.2.2 == .nothing)) =
      some ([5], [4], false) := by decide +kernel

/-- the full statement `NeutralizeIdempotent` is false of the model of today's code: after the first call the O⁻ of the former
    zwitterion has become an acceptor and the ammonium is still a donor -/
theorem neutralize_is_not_idempotent : ¬ NeutralizeIdempotent := by
  intro h
  obtain ⟨hwf, hg, hl, hd, ha, hc, hsecond⟩ := oxideSalt_facts
  cases hr : neutralizeModel true oxideSaltOnce oxideSaltLabels oxideSaltComps with
  | none => simp [hr] at hsecond
  | some r =>
    have := h oxideSalt oxideSaltOnce oxideSaltLabels oxideSaltComps [2, 5] [6] [2, 6] hg
      (fun p hp => bondOk_symm p oxideSalt oxideSaltLabels (baseStripped_patSymm p hp) hwf hl) hd ha hc r hr
    simp [hr, this] at hsecond

end ChythonModel.Findings.C14
