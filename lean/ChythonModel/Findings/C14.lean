import ChythonModel.Props.C14
/-!
# C14 — witnesses of known findings (informational: if the code is repaired these stop being provable; never an alarm)

`C14/standardize/hydrogen-count/[N;D1;z2;x1;+]=[N;D2;x1;z2]`: the rule "CN=[N+] >> C[N+]#N" has no hydrogen constraint, so
the valence-valid methyldiazenium cation `CN=[NH2+]` (5 hydrogens) is rewritten to the diazonium `C[N+]#N` (3 hydrogens).
The witness runs the *model* (`runRule` + `recalc`, the functions the driver runs) on that molecule in the kernel; the same
input is executed on the real code by the standing probe of the finding.
-/
namespace ChythonModel.Findings.C14
open ChythonModel.Model ChythonModel.Model.Std ChythonModel.Gen.Rules ChythonModel.Proofs.C14 ChythonModel.Props.C14

/-- `CN=[NH2+]` -/
def diazenium : Mol :=
  ⟨[(1, { z := 6, implH := some 3 }), (2, { z := 7, implH := some 0 }), (3, { z := 7, charge := 1, implH := some 2 })],
   [(1, [(2, { order := 1 })]), (2, [(1, { order := 1 }), (3, { order := 2 })]), (3, [(2, { order := 2 })])]⟩

/-- the first rule of the tables that fires on the molecule and changes its hydrogen count: `(rule, state, molecule after)` -/
def offending : Option (StdRule × RState × Mol) := do
  let L ← calcLabels diazenium []
  allStdRules.findSome? fun r => do
    let st ← runRule r 0 diazenium L [[1, 2, 3]]
    let m' ← recalc st.hs st.mol
    if hydrogens m' != hydrogens diazenium then some (r, st, m') else none

theorem diazenium_is_valid :
    diazenium.ids.Nodup ∧ Valence.fixStructure diazenium = some diazenium ∧ Valence.checkValence diazenium = [] := by
  decide +kernel

theorem a_rule_changes_its_hydrogen_count : offending.isSome = true := by decide +kernel

/-- the full statement `RulesConserveHydrogens` is false of today's tables -/
theorem rules_do_not_conserve_hydrogens : ¬ RulesConserveHydrogens := by
  intro h
  have hv := diazenium_is_valid
  have hsome := a_rule_changes_its_hydrogen_count
  unfold offending at hsome
  cases hL : calcLabels diazenium [] with
  | none => simp [hL] at hsome
  | some L =>
    simp only [hL, Option.bind_eq_bind, Option.bind_some] at hsome
    obtain ⟨res, hres⟩ := Option.isSome_iff_exists.mp hsome
    obtain ⟨r, hr, hf⟩ := List.exists_of_findSome?_eq_some hres
    cases hst : runRule r 0 diazenium L [[1, 2, 3]] with
    | none => simp [hst] at hf
    | some st =>
      cases hm : recalc st.hs st.mol with
      | none => simp [hst, hm] at hf
      | some m' =>
        simp only [hst, hm, Option.bind_some] at hf
        split at hf
        · rename_i hne
          have := h r hr 0 diazenium [] [[1, 2, 3]] L st m' hv.1 hv.2.1 hv.2.2 hL hst hm
          simp [this] at hne
        · simp at hf

end ChythonModel.Findings.C14
