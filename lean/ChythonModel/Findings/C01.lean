import ChythonModel.Props.C01
/-!
# C01 — witness for the root cause of the known finding "order of components the refinement cannot tell apart"

Informational (built separately; failing to build is never an alarm).

The failing code of both known findings is the tie-break of the *writer* (`Smiles._smiles`: `min(atoms_set, key=…)`,
`sorted(front, key=mod_weights)` fall back on set / dict order), which is outside the Lean model, so the observable
failures (`smiles('C1CCCCC1.C1CC1') != smiles('C1CC1.C1CCCCC1')`, cyclooctatetraene) are witnessed by probes on the real
code. What *is* inside the model is the reason the writer meets a tie at all: the Morgan classes are coarser than
"exchangeable by a symmetry". A consequence of "classes = orbits" would be that atoms of one class lie in connected
components of the same size; the model (with CPython's hash, kernel-evaluated) refutes it on cyclopropane + cyclobutane:
all seven CH2 atoms get rank 1.
-/
namespace ChythonModel.Findings.C01
open ChythonModel.Model ChythonModel.Model.Morgan ChythonModel.Spec.Renumbering ChythonModel.Props.C01

/-- atoms reachable from the atoms in `seen` in at most `fuel` steps -/
def grow (m : MolView) : Nat → List Nat → List Nat
  | 0, seen => seen
  | fuel + 1, seen =>
    let next := seen.flatMap fun n => ((m.bonds.lookup n).getD []).map (·.1)
    grow m fuel (next.foldl (fun acc x => if acc.contains x then acc else acc ++ [x]) seen)

def componentSize (m : MolView) (a : Nat) : Nat := (grow m m.atoms.length [a]).length

/-- FULL statement (false): atoms that `atoms_order` puts in one class lie in components of equal size —
    a necessary condition for "same class ⇒ exchangeable by a symmetry of the molecule". -/
def ClassesSeparateComponents : Prop :=
  ∀ (m : MolView) (r : List (Nat × Nat)), KeysOK m → atomsOrderPy m = some r →
    ∀ a b, a ∈ keys m.atoms → b ∈ keys m.atoms → r.lookup a = r.lookup b → componentSize m a = componentSize m b

def ch2 : HAtom := { z := 6, implH := some 2, inRing := true }
def sb : Bond := ⟨1, none⟩

/-- cyclopropane (1,2,3) + cyclobutane (4,5,6,7): `C1CC1.C1CCC1` -/
def twoRings : MolView :=
  ⟨[(1, ch2), (2, ch2), (3, ch2), (4, ch2), (5, ch2), (6, ch2), (7, ch2)],
   [(1, [(2, sb), (3, sb)]), (2, [(1, sb), (3, sb)]), (3, [(1, sb), (2, sb)]),
    (4, [(5, sb), (7, sb)]), (5, [(4, sb), (6, sb)]), (6, [(5, sb), (7, sb)]), (7, [(6, sb), (4, sb)])]⟩

theorem twoRings_one_class :
    atomsOrderPy twoRings = some [(1, 1), (2, 1), (3, 1), (4, 1), (5, 1), (6, 1), (7, 1)] := by decide +kernel

theorem classes_separate_components_false : ¬ ClassesSeparateComponents := by
  intro hfull
  have h := hfull twoRings _ (by unfold KeysOK keys twoRings; decide) twoRings_one_class 1 4
    (by unfold keys twoRings; decide) (by unfold keys twoRings; decide) (by decide)
  revert h
  decide +kernel

end ChythonModel.Findings.C01
