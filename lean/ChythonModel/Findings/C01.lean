import ChythonModel.Props.C01
/-!
# C01 — witness for the root cause of the known finding "order of components the refinement cannot tell apart"

Informational (built separately; failing to build is never an alarm).

The failing code of both known findings is the tie-break of the *writer* (`Smiles._smiles`: `min(atoms_set, key=…)`,
`sorted(front, key=mod_weights)` fall back on set / dict order), which is outside the Lean model, so the observable
failures (`smiles('C1CCCCC1.C1CC1') != smiles('C1CC1.C1CCCCC1')`, cyclooctatetraene) are witnessed by probes on the real
code. What *is* inside the model is the reason the writer meets a tie at all: the Morgan classes are coarser than
"exchangeable by a symmetry". A consequence of "classes = orbits" would be that atoms of one class lie in connected
components of the same size; the model (with CPython's hash, kernel-evaluated) refutes it on cyclopropane + cyclobutane:
all seven CH2 atoms get rank 1.
-/
namespace ChythonModel.Findings.C01
open ChythonModel.Model ChythonModel.Model.Morgan ChythonModel.Spec.Renumbering ChythonModel.Props.C01

/-- atoms reachable from the atoms in `seen` in at most `fuel` steps -/
def grow (m : MolView) : Nat → List Nat → List Nat
  | 0, seen => seen
  | fuel + 1, seen =>
    let next := seen.flatMap fun n => ((m.bonds.lookup n).getD []).map (·.1)
    grow m fuel (next.foldl (fun acc x => if acc.contains x then acc else acc ++ [x]) seen)

def componentSize (m : MolView) (a : Nat) : Nat := (grow m m.atoms.length [a]).length

/-- FULL statement (false): atoms that `atoms_order` puts in one class lie in components of equal size —
    a necessary condition for "same class ⇒ exchangeable by a symmetry of the molecule". -/
def ClassesSeparateComponents : Prop :=
  ∀ (m : MolView) (r : List (Nat × Nat)), KeysOK m → atomsOrderPy m = some r →
    ∀ a b, a ∈ keys m.atoms → b ∈ keys m.atoms → r.lookup a = r.lookup b → componentSize m a = componentSize m b

def ch2 : HAtom := { z := 6, implH := some 2, inRing := true }
def sb : Bond := ⟨1, none⟩

/-- cyclopropane (1,2,3) + cyclobutane (4,5,6,7): `C1CC1.C1CCC1` -/
def twoRings : MolView :=
  ⟨[(1, ch2), (2, ch2), (3, ch2), (4, ch2), (5, ch2), (6, ch2), (7, ch2)],
   [(1, [(2, sb), (3, sb)]), (2, [(1, sb), (3, sb)]), (3, [(1, sb), (2, sb)]),
    (4, [(5, sb), (7, sb)]), (5, [(4, sb), (6, sb)]), (6, [(5, sb), (7, sb)]), (7, [(6, sb), (4, sb)])]⟩

theorem twoRings_one_class :
    atomsOrderPy twoRings = some [(1, 1), (2, 1), (3, 1), (4, 1), (5, 1), (6, 1), (7, 1)] := by decide +kernel

theorem classes_separate_components_false : ¬ ClassesSeparateComponents := by
  intro hfull
  have h := hfull twoRings _ (by unfold KeysOK keys twoRings; decide) twoRings_one_class 1 4
    (by unfold keys twoRings; decide) (by unfold keys twoRings; decide) (by decide)
  revert h
  decide +kernel

/-! ## known finding 3: an odd number of equivalent stereo elements is never differentiated

Inside the model: `__differentiation` looks at a group only `if not len(group) % 2`. Three components F–CH=CH–Cl with
labels E, E, Z: the three labelled bonds share one grouping key, the group has 3 members, nothing is updated and the
Z component keeps the classes of the E components — the writer then has to break the tie by atom number
(probe on the real code: `known_findings/C01.json`, third entry). With an even number (E, Z) the classes are split
(`Props/C01.lean`, example `exEZ false`). -/

open ChythonModel.Model.ChiralFull ChythonModel.Model.ChiralMorgan in
/-- a group of odd size leaves the state of a block unchanged, whatever the configurations -/
theorem odd_group_is_skipped {α β : Type} (test sign : α → Except Stereo.PyErr Bool) (atomOf : α → Nat) (setKey : α → β)
    (w : Weights) (st : BlockState β) (g : List α) (hg : g.length % 2 = 1) :
    processBlock test sign atomOf setKey w st g = .ok st := by
  unfold processBlock
  simp [hg]

def fAtom : HAtom := { z := 9, implH := some 0 }
def clAtom : HAtom := { z := 17, implH := some 0 }
def chAtom : HAtom := { z := 6, implH := some 1 }

/-- F–CH=CH–Cl three times; the double bonds carry the labels `true`, `true`, `false` -/
def threeAlkenes : MolView :=
  ⟨[(1, fAtom), (2, chAtom), (3, chAtom), (4, clAtom), (5, fAtom), (6, chAtom), (7, chAtom), (8, clAtom),
    (9, fAtom), (10, chAtom), (11, chAtom), (12, clAtom)],
   [(1, [(2, ⟨1, none⟩)]), (2, [(1, ⟨1, none⟩), (3, ⟨2, some true⟩)]), (3, [(2, ⟨2, some true⟩), (4, ⟨1, none⟩)]),
    (4, [(3, ⟨1, none⟩)]),
    (5, [(6, ⟨1, none⟩)]), (6, [(5, ⟨1, none⟩), (7, ⟨2, some true⟩)]), (7, [(6, ⟨2, some true⟩), (8, ⟨1, none⟩)]),
    (8, [(7, ⟨1, none⟩)]),
    (9, [(10, ⟨1, none⟩)]), (10, [(9, ⟨1, none⟩), (11, ⟨2, some false⟩)]), (11, [(10, ⟨2, some false⟩), (12, ⟨1, none⟩)]),
    (12, [(11, ⟨1, none⟩)])]⟩

/-- FULL statement (false): equivalent stereo elements with different configurations end in different classes -/
def ConfigurationsSeparated : Prop :=
  ∀ r, ChiralFull.chiralFull toyHash (fun _ => true) dblT threeAlkenes [] = .ranks r → r.lookup 6 ≠ r.lookup 10

theorem three_alkenes_one_class :
    ChiralFull.chiralFull toyHash (fun _ => true) dblT threeAlkenes [] =
      .ranks [(1, 1), (5, 1), (9, 1), (4, 2), (8, 2), (12, 2), (2, 3), (6, 3), (10, 3), (3, 4), (7, 4), (11, 4)] := by
  decide +kernel

theorem configurations_separated_false : ¬ ConfigurationsSeparated := by
  intro hfull
  exact hfull _ three_alkenes_one_class (by decide)

end ChythonModel.Findings.C01
