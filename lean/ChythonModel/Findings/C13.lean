import ChythonModel.Props.C13
import ChythonModel.Findings.C13Old
/-!
Witnesses for the C13 findings (informational; failing to build is never an alarm).

`old` is the effect table of /repo *before* the C13 `fix:` commits (frozen in `Findings/C13Old.lean`).  The analysis
rejects it, and the executable model run on it exhibits each probed defect as a concrete trace.  (The plain case of the former known finding — attribute write plus structural edit in one transaction — was repaired by
/repo commit 5256c7c; the last section is the gap that repair leaves.)
-/
namespace ChythonModel.Findings.C13
open ChythonModel.Model ChythonModel.Model.C13 ChythonModel.Gen.CacheEffects ChythonModel.Spec.Deps
open ChythonModel.Props.C13 ChythonModel.Proofs.C13

def old : Tables :=
  { fns := C13Old.fns, keys := C13Old.cachedKeys, keyReads := C13Old.keyReads, flushKeepSssr := C13Old.flushKeepSssr,
    flushKeepComponents := C13Old.flushKeepComponents, copyKeepSssr := C13Old.copyKeepSssr,
    copyKeepComponents := C13Old.copyKeepComponents, copySlots := C13Old.copySlots, subSlots := C13Old.subSlots,
    subCalls := C13Old.subCalls, copyAtomsDeep := C13Old.copyAtomsDeep, copyBondsDeep := C13Old.copyBondsDeep,
    subAtomsDeep := C13Old.subAtomsDeep, subBondsDeep := C13Old.subBondsDeep,
    elementCopySharesXY := C13Old.elementCopySharesXY }

/-- the pre-fix code is rejected by the analysis … -/
theorem old_tables_rejected : TablesOK old = false := by decide +kernel

/-- … by these components: mutators (delete_* without flush), transaction exit, the abort path, slot initialisation -/
theorem old_tables_rejected_parts :
    mutatorsOK old = false ∧ exitOK old = false ∧ abortOK old = false ∧ slotsOK old = false := by decide +kernel

def hexane : Mol :=
  ⟨[(1, { z := 6 }), (2, { z := 6 }), (3, { z := 6 })],
   [(1, [(2, { order := 1 }), (3, { order := 1 })]), (2, [(1, { order := 1 }), (3, { order := 1 })]),
    (3, [(2, { order := 1 }), (1, { order := 1 })])]⟩

def staleAfter (T : Tables) (m : Mol) (h : List (Op × List String)) : List (List String) :=
  (runHist T (freshWorld m) h).objs.map fun o => staleKeys o.toCore

/-- §7 #1: read, delete_bond, and the cached SMILES / ring set are stale (cyclopropane skeleton) -/
theorem witness_delete_bond_stale :
    staleAfter old hexane [(.read 0 "__cached_method___str__", ["__cached_method___str__"]),
                           (.read 0 "sssr", ["sssr"]), (.delBond 0 1 2 false, ["__cached_method___str__", "sssr"])]
      = [["__cached_method___str__", "sssr", "atoms_rings_sizes", "atoms_rings"]] := by decide +kernel

/-- the same history on today's table: nothing stale -/
theorem fixed_delete_bond :
    staleAfter current hexane [(.read 0 "__cached_method___str__", ["__cached_method___str__"]),
                               (.read 0 "sssr", ["sssr"]), (.delBond 0 1 2 false, ["sssr"])] = [[]] := by decide +kernel

/-- §7 #2: value cached, `with m: atom.charge = 1`, successful exit does not flush -/
theorem witness_exit_no_flush :
    staleAfter old demoMol [(.read 0 "__cached_method___str__", ["__cached_method___str__"]), (.enter 0, []),
                            (.setCharge 0 2 1, []), (.exitOk 0, ["__cached_method___str__"])]
      = [["__cached_method___str__"]] := by decide +kernel

/-- §7 #3: editing a copy raises AttributeError(_changed) -/
theorem witness_copy_not_editable :
    (step old (step old (freshWorld demoMol) (.copy 0 false false) []).w (.addAtom 1 6 none false) []).err
      = some (.attr "_changed") := by decide +kernel

/-- §7 #4: the copy shares its Vector objects with the source: moving an atom of the copy moves the source atom -/
theorem witness_shared_vector :
    let w1 := (step old (freshWorld demoMol) (.copy 0 false false) []).w
    let w2 := (step old w1 (.setXY 1 1 5 3) []).w
    (w2.objs.map (coords w2 ·)).head? = some [(1, 5, 3), (2, 0, 0), (3, 0, 0)] := by decide +kernel

/-- §7 #5: the aborted transaction keeps `_changed = {10}` -/
theorem witness_abort_keeps_pending :
    ((runHist old (freshWorld demoMol) [(.enter 0, []), (.addAtom 0 6 (some 10) false, []), (.exitExc 0, [])]).objs.map
      (·.changed)) = [some (some [10])] := by decide +kernel

/-! ## still present: attribute write, public `fix_structure()`, write back, structural edit — in one transaction -/

def bicyclopropyl : Mol :=
  ⟨[(1, { z := 6 }), (2, { z := 6 }), (3, { z := 6 }), (4, { z := 6 }), (5, { z := 6 }), (6, { z := 6 })],
   [(1, [(2, { order := 1 }), (3, { order := 1 })]), (2, [(1, { order := 1 }), (3, { order := 1 })]),
    (3, [(2, { order := 1 }), (1, { order := 1 }), (4, { order := 1 })]),
    (4, [(3, { order := 1 }), (5, { order := 1 }), (6, { order := 1 })]),
    (5, [(4, { order := 1 }), (6, { order := 1 })]), (6, [(5, { order := 1 }), (4, { order := 1 })])]⟩

/-- the full statement `Props.C13.HydrogensFresh` is false of today's code (known finding
`attr-write+public-fix_structure+edit-in-txn`): the hydrogens of atom 6 were recomputed by the public `fix_structure()` for the
intermediate radical state; the exit compares with the snapshot only, and the pending set `{5, 1}` does not contain atom 6 -/
theorem hydrogens_fresh_false : ¬ HydrogensFresh := by
  intro h
  have := h bicyclopropyl
    [(.enter 0, []), (.setRadical 0 6 true, []), (.fixStructure 0 true, []), (.setRadical 0 6 false, []),
     (.addBond 0 5 1 1 false, []), (.exitOk 0, [])] (by decide +kernel)
  revert this
  decide +kernel

def ethanolEthane : Mol :=
  ⟨[(1, { z := 6 }), (2, { z := 6 }), (3, { z := 8 }), (4, { z := 6 }), (5, { z := 6 })],
   [(1, [(2, { order := 1 })]), (2, [(1, { order := 1 }), (3, { order := 1 })]), (3, [(2, { order := 1 })]),
    (4, [(5, { order := 1 })]), (5, [(4, { order := 1 })])]⟩

/-- second witness (known finding `public-fix_structure+attr-write+edit-in-txn`, found while proving the partial theorem):
an atom added inside the block, a public `fix_structure()`, a direct charge write on the new atom, an edit elsewhere — the new
atom is not in the snapshot, so the exit never adds it to the pending set -/
theorem hydrogens_fresh_false_new_atom :
    (runHist current (freshWorld ethanolEthane)
      [(.enter 0, []), (.addAtom 0 7 none false, []), (.fixStructure 0 true, []), (.setCharge 0 6 1, []),
       (.addBond 0 4 1 1 false, []), (.exitOk 0, [])]).objs.map (fun o => (o.backup == some none, hStale o.toCore)) = [(true, [6])] := by
  decide +kernel

/-! ## `HydrogensFresh_partial` is tight: both witnesses lie in its excluded class, and violate the transaction invariant
`TxH` (on which the exit relies) at exactly the atom that ends up stale -/

/-- atoms violating `TxH.ref` (not pending, stored hydrogens not those of the snapshot's attribute values) and `TxH.new`
(unknown to the snapshot, not pending) — executable -/
def txhViolations (o : Obj) : List Nat × List Nat :=
  match o.backup with
  | some (some bk) =>
      (o.mol.ids.filter fun n => !(pend o).contains n && !(o.hs.lookup n == some (envRef bk.mol o.mol n)),
       o.mol.ids.filter fun n => (bk.mol.atom? n).isNone && !(pend o).contains n)
  | _ => ([], [])

/-- first witness: the block contains a public `fix_structure()` (outside `blockOpS`, whatever the molecule); just before the exit the
invariant fails at atom 6 and nowhere else, and atom 6 is the stale one afterwards -/
theorem partial_tight_witness1 :
    (∀ o, blockOpS o (.fixStructure 0 true) = false) ∧
    ((runHist current (freshWorld bicyclopropyl)
      [(.enter 0, []), (.setRadical 0 6 true, []), (.fixStructure 0 true, []), (.setRadical 0 6 false, []),
       (.addBond 0 5 1 1 false, [])]).objs.map txhViolations) = [([6], [])] ∧
    ((runHist current (freshWorld bicyclopropyl)
      [(.enter 0, []), (.setRadical 0 6 true, []), (.fixStructure 0 true, []), (.setRadical 0 6 false, []),
       (.addBond 0 5 1 1 false, []), (.exitOk 0, [])]).objs.map fun o => hStale o.toCore) = [[6]] :=
  ⟨fun _ => rfl, by decide +kernel⟩

/-- second witness: the new atom 6 is unknown to the snapshot and no longer pending after the public `fix_structure()`;
the charge write then makes its stored hydrogens wrong -/
theorem partial_tight_witness2 :
    (∀ o, blockOpS o (.addAtom 0 7 none false) = false ∧ blockOpS o (.fixStructure 0 true) = false) ∧
    ((runHist current (freshWorld ethanolEthane)
      [(.enter 0, []), (.addAtom 0 7 none false, []), (.fixStructure 0 true, [])]).objs.map txhViolations) = [([], [6])] ∧
    ((runHist current (freshWorld ethanolEthane)
      [(.enter 0, []), (.addAtom 0 7 none false, []), (.fixStructure 0 true, []), (.setCharge 0 6 1, []),
       (.addBond 0 4 1 1 false, [])]).objs.map txhViolations) = [([6], [6])] :=
  ⟨fun _ => ⟨rfl, rfl⟩, by decide +kernel⟩

/-- the same blocks without the public `fix_structure()` keep the invariant (and are fresh after the exit): the excluded
class is not larger than the mechanism -/
theorem partial_tight_without_fix :
    ((runHist current (freshWorld bicyclopropyl)
      [(.enter 0, []), (.setRadical 0 6 true, []), (.setRadical 0 6 false, []), (.addBond 0 5 1 1 false, [])]).objs.map txhViolations)
        = [([], [])] ∧
    ((runHist current (freshWorld ethanolEthane)
      [(.enter 0, []), (.addAtom 0 7 none false, []), (.setCharge 0 6 1, []), (.addBond 0 4 1 1 false, []), (.exitOk 0, [])]).objs.map
        fun o => hStale o.toCore) = [[]] := by decide +kernel

end ChythonModel.Findings.C13
