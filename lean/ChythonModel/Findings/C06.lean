import ChythonModel.Spec.CycleBasis
import ChythonModel.Spec.CycleBasisMin
/-!
# C06 — witness of the known finding `C06/not-minimum/multi-bridge-core` (informational)

The full statement "the reported ring set has minimum total size" is false of the heuristic (and of its model
`Model/C06Pid.lean`), so it is a per-run verdict about the implementation's *outputs*. This file records one such output,
copied from a real run (known_findings/C06.json, re-executed by the probe on every run): for the 13-atom ring
system in which atoms 31 and 37 are joined by four bridges of 3, 3, 4 and 5 bonds, `mol.sssr` in this numbering is
`reported`. Lean checks that `reported` is a valid cycle basis of the graph (accepted by the proved checker) and
that the reference basis — also a checked cycle basis — is strictly smaller in total size. Hence the reported set
is a cycle basis that is not minimum.
-/
namespace ChythonModel.Findings.C06
open ChythonModel.Model.C06 ChythonModel.Spec.CycleBasis

def g : Adj :=
  [(22, [15, 25]), (31, [12, 9, 26, 15]), (26, [36, 31]), (37, [10, 36, 33, 28]), (33, [2, 37]), (36, [37, 26]),
   (2, [33, 9]), (10, [37, 25]), (25, [10, 22]), (28, [37, 12]), (15, [31, 22]), (12, [31, 28]), (9, [31, 2])]

def reported : List (List Nat) :=
  [[12, 28, 37, 36, 26, 31], [2, 9, 31, 26, 36, 37, 33], [2, 9, 31, 15, 22, 25, 10, 37, 33]]

def total (rs : List (List Nat)) : Nat := (rs.map (·.length)).sum

/-- the reported ring set is a cycle basis (all clauses except minimality hold) … -/
theorem reported_is_cycle_basis : checkSssr g reported = true := by decide +kernel

/-- … but a smaller checked cycle basis exists: total size 21 < 22 -/
theorem reported_not_minimum :
    ∃ B, checkSssr g B = true ∧ total B < total reported := by
  refine ⟨[[9, 31, 12, 28, 37, 33, 2], [15, 31, 12, 28, 37, 10, 25, 22], [26, 31, 12, 28, 37, 36]], ?_, ?_⟩ <;> decide +kernel

/-- the proved exchange checker (`Props/C06.lean: minimal_wrt_family_iff`, `sssr_minimal_wrt_horton`) rejects the reported
set: Horton's family contains an 8-ring (e.g. `[15, 31, 12, 28, 37, 10, 25, 22]`) that is not a GF(2) sum of the reported
rings of size ≤ 8 (the 6- and the 7-ring) -/
theorem reported_rejected_by_exchange_checker : checkMinimalHorton g reported = false := by decide +kernel

end ChythonModel.Findings.C06
