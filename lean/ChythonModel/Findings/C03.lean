import ChythonModel.Props.C03
/-!
# C03 — witnesses of the known findings, evaluated on the model (informational; not property theorems)

Each statement shows that the model (which mirrors the code as it is and agrees with it on every generated input)
exhibits the recorded deviation. If the code is repaired these stop being provable; that is never an alarm.
-/
namespace ChythonModel.Findings.C03
open ChythonModel.Model.C03 ChythonModel.Props.C03 ChythonModel.Proofs.C03 ChythonModel.Spec.Smiles

def str (s : String) : Str := s.toList.map Char.toNat

/-- leading branch: `(C)C` is accepted although no syntax tree prints to a sequence that starts with `(` -/
theorem leading_branch_accepted : ∃ r, smiles (str "(C)C") = .ok r := ⟨_, rfl⟩

/-- hence the "accepted ⇒ in the grammar" half of the accept/reject clause is false on the token level -/
theorem acceptIffInGrammar_false : ¬ AcceptIffInGrammar := by
  intro h
  have := (h false [.lpar, .atom 0 { element := [67] }, .rpar, .atom 0 { element := [67] }]
    (by intro t ht; simp at ht; rcases ht with rfl | rfl | rfl | rfl <;> rfl)).mp ⟨_, rfl⟩
  obtain ⟨c, hc⟩ := this
  simp [print, toToks, symTok] at hc

/-- `parser` alone accepts `C(())`-like token sequences; only the tokenizer refuses `((` and `()` -/
theorem parser_accepts_empty_open :
    ∃ st, parse false [.atom 0 { element := [67] }, .lpar, .rpar] = .ok st := ⟨_, rfl⟩

/-- `%` + one digit at the end of the string is read as a ring closure -/
theorem percent_single_digit_accepted : ∃ r, smiles (str "C1CC%1") = .ok r := ⟨_, rfl⟩

/-- a reaction molecule the builder rejects (atom bonded to itself) is dropped, the reaction is still returned -/
theorem reaction_drops_invalid_molecule :
    ∃ r k m, smiles (str "C11>>C") = .ok (.rxn r k m) ∧ r.reactants.length = 1 ∧ m.reactants = [] := ⟨_, _, _, rfl, rfl, rfl⟩

/-- empty components of a reaction are skipped -/
theorem reaction_empty_component_accepted : ∃ r, smiles (str "C..C>>C") = .ok r := ⟨_, rfl⟩

/-- a ring closure across a dot is accepted in a molecule and rejected in a reaction -/
theorem reaction_split_at_dot :
    (∃ r, smiles (str "C1.C1") = .ok r) ∧ smiles (str "C1.C1>>CC") = .error (.lib "IncorrectSmiles" "cycle is not finished") :=
  ⟨⟨_, rfl⟩, rfl⟩

/-- ring number 0 is rejected -/
theorem ring_number_zero_rejected : smiles (str "C0CC0") = .error (.lib "IncorrectSmiles" "number starts with 0") := rfl

/-- ring bonds written after a branch (`C(C)1CC1`) are accepted and built, but no syntax tree of the OpenSMILES grammar
    (`atom ringbond* branch*`) prints to that token list: the full accept ⇔ language statement with ring closures is false -/
theorem acceptIffRingDiscipline_false : ¬ AcceptIffRingDiscipline := by
  intro h
  have hacc : Accepts [tC, .lpar, tC, .rpar, .cyc 1, tC, tC, .cyc 1] := ⟨_, rfl, _, _, rfl, rfl⟩
  obtain ⟨c, g, hc, _⟩ := (h _ (by decide)).mp hacc
  have := printR_noRingAfterClose c
  rw [← hc] at this
  exact absurd this (by decide)

open ChythonModel.Model.Valence ChythonModel.Spec in
/-- nitrogen with four single bonds: OpenSMILES says one hydrogen (next normal valence 5); the reader reports a valence
    error (hydrogens `None`) -/
theorem organicHydrogensOpenSmiles_false : ¬ OrganicHydrogensOpenSmiles := by
  intro h
  have := h 7 (by decide) [(1, 6), (1, 6), (1, 6), (1, 6)] (by decide)
  rw [organic_hydrogens_second_period_above 7 (by decide) _ (by decide) 3 (by decide) (by decide)] at this
  revert this
  decide

open ChythonModel.Model.Valence in
/-- `[CH2]` is built as CH4: the written count of a bracket atom is not always kept -/
theorem bracketHydrogensWritten_false : ¬ BracketHydrogensWritten := by
  intro h
  have := h ⟨6, 0, false, []⟩ 2
  revert this
  decide +kernel

/-- hydrogens / radical marks of the molecule a string is read to -/
def hydOf (s : Str) : Option (List (Nat × Option Nat × Bool)) :=
  match smiles s with
  | .ok (.mol _ m) => (molHydrogens m).toOption
  | _ => none

/-- the same on whole strings: `[CH2]` carries 4 hydrogens, `[Cl]` is built as HCl, in the model as in the code -/
theorem open_valence_two_replaced : hydOf (str "[CH2]") = some [(1, some 4, false)] := by decide +kernel
theorem halogen_atom_replaced : hydOf (str "[Cl]") = some [(1, some 1, false)] := by decide +kernel

end ChythonModel.Findings.C03
