import ChythonModel.Props.C03
/-!
# C03 — witnesses of the known findings, evaluated on the model (informational; not property theorems)

Each statement shows that the model (which mirrors the code as it is and agrees with it on every generated input)
exhibits the recorded deviation. If the code is repaired these stop being provable; that is never an alarm.
-/
namespace ChythonModel.Findings.C03
open ChythonModel.Model.C03 ChythonModel.Props.C03 ChythonModel.Proofs.C03 ChythonModel.Spec.Smiles

def str (s : String) : Str := s.toList.map Char.toNat

/-- leading branch: `(C)C` is accepted although no syntax tree prints to a sequence that starts with `(` -/
theorem leading_branch_accepted : ∃ r, smiles (str "(C)C") = .ok r := ⟨_, rfl⟩

/-- hence the "accepted ⇒ in the grammar" half of the accept/reject clause is false on the token level -/
theorem acceptIffInGrammar_false : ¬ AcceptIffInGrammar := by
  intro h
  have := (h false [.lpar, .atom 0 { element := [67] }, .rpar, .atom 0 { element := [67] }]
    (by intro t ht; simp at ht; rcases ht with rfl | rfl | rfl | rfl <;> rfl)).mp ⟨_, rfl⟩
  obtain ⟨c, hc⟩ := this
  simp [print, toToks, symTok] at hc

/-- `parser` alone accepts `C(())`-like token sequences; only the tokenizer refuses `((` and `()` -/
theorem parser_accepts_empty_open :
    ∃ st, parse false [.atom 0 { element := [67] }, .lpar, .rpar] = .ok st := ⟨_, rfl⟩

/-- `%` + one digit at the end of the string is read as a ring closure -/
theorem percent_single_digit_accepted : ∃ r, smiles (str "C1CC%1") = .ok r := ⟨_, rfl⟩

/-- a reaction molecule the builder rejects (atom bonded to itself) is dropped, the reaction is still returned -/
theorem reaction_drops_invalid_molecule :
    ∃ r k m, smiles (str "C11>>C") = .ok (.rxn r k m) ∧ r.reactants.length = 1 ∧ m.reactants = [] := ⟨_, _, _, rfl, rfl, rfl⟩

/-- empty components of a reaction are skipped -/
theorem reaction_empty_component_accepted : ∃ r, smiles (str "C..C>>C") = .ok r := ⟨_, rfl⟩

/-- a ring closure across a dot is accepted in a molecule and rejected in a reaction -/
theorem reaction_split_at_dot :
    (∃ r, smiles (str "C1.C1") = .ok r) ∧ smiles (str "C1.C1>>CC") = .error (.lib "IncorrectSmiles" "cycle is not finished") :=
  ⟨⟨_, rfl⟩, rfl⟩

/-- ring number 0 is rejected -/
theorem ring_number_zero_rejected : smiles (str "C0CC0") = .error (.lib "IncorrectSmiles" "number starts with 0") := rfl

end ChythonModel.Findings.C03
