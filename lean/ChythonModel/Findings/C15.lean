import ChythonModel.Model.C15Read
/-!
# C15 — witnesses for the defects that were repaired in /repo (informational; never an alarm)

All three findings of C15 are *fixed* (known_findings/C15.json); the models in `Model/C15*.lean` mirror the repaired
code, so the full-strength theorems of `Props/C15.lean` go through. This file keeps, for the record, the literal
pre-repair expressions and a concrete witness that each of them violates the statement that is now a theorem.
-/
namespace ChythonModel.Findings.C15
open ChythonModel.Model.C15

/-- Python `l[i:]` for an `int` index (negative counts from the end, `-0 == 0`) -/
def pySliceFrom {α : Type} (l : List α) (i : Int) : List α :=
  if i < 0 then l.drop (l.length - (-i).toNat) else l.drop i.toNat

/-- Python `l[i:j]` -/
def pySlice {α : Type} (l : List α) (i j : Int) : List α :=
  let n : Int := l.length
  let a := if i < 0 then max (i + n) 0 else min i n
  let b := if j < 0 then max (j + n) 0 else min j n
  (l.take b.toNat).drop a.toNat

/-- pre-repair reader (d631131^): `products = new[-lp:]`, `reagents = new[lr:-lp]`.
    Witness `C>O.O> |f:1.2|` (lr = 1, lp = 0, contracted array `[C, O.O, None]`): products = the whole array,
    reagents = nothing — the three slices do not partition the array. -/
theorem old_slices_do_not_partition :
    let new : List (Option Nat) := [some 1, some 2, none]
    let lr : Int := 1
    let lp : Int := 0
    pySliceFrom new (-lp) = new ∧ pySlice new lr (-lp) = [] ∧
    new.take 1 ++ pySlice new lr (-lp) ++ pySliceFrom new (-lp) ≠ new := by decide

/-- pre-repair writer (e4ef421^): roles sorted by the signature only (`key=itemgetter(1)`). -/
def keyLeOld (a b : MolSig) : Bool := lexLe a.s b.s

/-- radical marks of a role as the pre-repair writer collects them -/
def radicalsOld (role : List MolSig) : List Bool := (role.mergeSort keyLeOld).flatMap (·.radicals)

/-- Witness: `[Na]` radical and `[Na]` non-radical have the same signature; the stable sort keeps the input order, so
    the `^1:` block depends on the order inside the role (`^1:0` vs `^1:1`). -/
theorem old_sort_key_order_dependent :
    let na (rad : Bool) : MolSig := ⟨[91, 78, 97, 93], 1, [rad]⟩
    radicalsOld [na true, na false] ≠ radicalsOld [na false, na true] := by
  intro na
  have h1 : [na true, na false].mergeSort keyLeOld = [na true, na false] :=
    List.mergeSort_of_pairwise (by decide)
  have h2 : [na false, na true].mergeSort keyLeOld = [na false, na true] :=
    List.mergeSort_of_pairwise (by decide)
  unfold radicalsOld
  rw [h1, h2]
  decide

end ChythonModel.Findings.C15
