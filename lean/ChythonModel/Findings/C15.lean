import ChythonModel.Model.C15Read
import ChythonModel.Model.C15Hash
/-!
# C15 — witnesses for the defects that were repaired in /repo (informational; never an alarm)

All three findings of C15 are *fixed* (known_findings/C15.json); the models in `Model/C15*.lean` mirror the repaired
code, so the full-strength theorems of `Props/C15.lean` go through. This file keeps, for the record, the literal
pre-repair expressions and a concrete witness that each of them violates the statement that is now a theorem.
-/
namespace ChythonModel.Findings.C15
open ChythonModel.Model.C15

/-- Python `l[i:]` for an `int` index (negative counts from the end, `-0 == 0`) -/
def pySliceFrom {α : Type} (l : List α) (i : Int) : List α :=
  if i < 0 then l.drop (l.length - (-i).toNat) else l.drop i.toNat

/-- Python `l[i:j]` -/
def pySlice {α : Type} (l : List α) (i j : Int) : List α :=
  let n : Int := l.length
  let a := if i < 0 then max (i + n) 0 else min i n
  let b := if j < 0 then max (j + n) 0 else min j n
  (l.take b.toNat).drop a.toNat

/-- pre-repair reader (d631131^): `products = new[-lp:]`, `reagents = new[lr:-lp]`.
    Witness `C>O.O> |f:1.2|` (lr = 1, lp = 0, contracted array `[C, O.O, None]`): products = the whole array,
    reagents = nothing — the three slices do not partition the array. -/
theorem old_slices_do_not_partition :
    let new : List (Option Nat) := [some 1, some 2, none]
    let lr : Int := 1
    let lp : Int := 0
    pySliceFrom new (-lp) = new ∧ pySlice new lr (-lp) = [] ∧
    new.take 1 ++ pySlice new lr (-lp) ++ pySliceFrom new (-lp) ≠ new := by decide

/-- pre-repair writer (e4ef421^): roles sorted by the signature only (`key=itemgetter(1)`). -/
def keyLeOld (a b : MolSig) : Bool := lexLe a.s b.s

/-- radical marks of a role as the pre-repair writer collects them -/
def radicalsOld (role : List MolSig) : List Bool := (role.mergeSort keyLeOld).flatMap (·.radicals)

/-- Witness: `[Na]` radical and `[Na]` non-radical have the same signature; the stable sort keeps the input order, so
    the `^1:` block depends on the order inside the role (`^1:0` vs `^1:1`). -/
theorem old_sort_key_order_dependent :
    let na (rad : Bool) : MolSig := ⟨[91, 78, 97, 93], 1, [rad]⟩
    radicalsOld [na true, na false] ≠ radicalsOld [na false, na true] := by
  intro na
  have h1 : [na true, na false].mergeSort keyLeOld = [na true, na false] :=
    List.mergeSort_of_pairwise (by decide)
  have h2 : [na false, na true].mergeSort keyLeOld = [na false, na true] :=
    List.mergeSort_of_pairwise (by decide)
  unfold radicalsOld
  rw [h1, h2]
  decide

/-- KNOWN finding (not repaired): `DynamicElement.__hash__` hashes the raw charges; CPython has `hash(-1) == hash(-2)`,
    so the atom states `-2>-1` and `-1>-2` get the same Morgan seed. Witness reaction on the real code:
    X–C–X with end atoms `-2>-1` / `-1>-2`: `[C-2>-]C[C->-2]` vs `[C->-2]C[C-2>-]` after swapping the numbers 1 and 3. -/
theorem atom_hash_collides_minus_one :
    dynAtomHash ⟨6, none, -2, -1, false, false⟩ = dynAtomHash ⟨6, none, -1, -2, false, false⟩ := by decide +kernel

theorem atom_hash_not_injective :
    ¬ ((atomStates 6 [-4, -3, -2, -1, 0, 1, 2, 3, 4]).map dynAtomHash).Nodup := by decide +kernel

end ChythonModel.Findings.C15
